import Infretis.Model.RepexProto
import Infretis.Model.JobDraws
import Infretis.Model.RepexDisk
open Infretis Infretis.Proto Infretis.Repex Infretis.JobDraws

/-
Driver of C07: the stateful replica-exchange protocol of `Infretis.Repex.handle` (shared), plus

  jobdraws <pin> <n> <kind>*n <move…>
      runs `JobDraws.runJob` on the picked entries of THE JOB IN FLIGHT with that pin (as the model's `prep` issued
      it) and the engine table of the (single) worker process; the table is updated.
      kind  := gmx0 | gmx1 | cp2k | lammps | turtlemd | ase0 | ase1        (class of engine type k)
      move  := sh <C09 shoot tokens> | wf <C09 wf tokens> | retis <C11 tokens> | quantis <C11 tokens>
      answer: ok <accept> <status> | <events> | <trace> | <engine table>      or  err:<kind>
  engcall <kind> <modvel|propB|propF|dump> <-|entropy:key,key,…>
      the draws of ONE engine call of that class with `engine.rgen` as given (`-` = attribute absent)
      answer: ok <trace>  or  err:norgen
  tmdprop <verlet|velocityverlet|langevinoverdamped|langevininertia> <-|entropy:key,…>
      `JobDraws.tmdPropagate`: ran <draws> | typeerror <draws> | norgen
  disk
      the image `./restart.toml` holds according to `Model/RepexDisk.lean`: written by the last `treat` (the state
      `treat_output` built, BEFORE the next `prep`) or by a `loop` that answered false at cstep >= tsteps; `-` = no file
  restartdisk <workers> <tsteps> <k engine-occ sizes>
      `restartFromDisk`: a new process from the image on disk (weights recomputed from the stored paths = the
      weights the old process knew); answers ok / err:…; the state is then the restored one, no jobs, empty engine table
  mcdims
      `idle=<idleCount> dims=<mcDims>`: the blocks `self.prob` would send to `random_prob` in the current state
-/

def parseKind? : String → Option EngKind
  | "gmx0" => some (.gromacs false) | "gmx1" => some (.gromacs true) | "cp2k" => some .cp2k
  | "lammps" => some .lammps | "turtlemd" => some .turtlemd | "ase0" => some (.ase false)
  | "ase1" => some (.ase true) | _ => none

def showWhat : What → String
  | .integers lo hi => s!"int:{lo}:{hi}" | .random => "random" | .normal => "normal"
  | .standardNormal => "stdnormal" | .seed hi => s!"seed:{hi}" | .noise => "noise" | .genvel => "genvel"

def showCall : EngCall → String
  | .modvel => "modvel" | .propagate true => "propB" | .propagate false => "propF" | .dump => "dump"

def showEv : JobDraws.Ev → String
  | .draw ens w => s!"D:{ens}:{showWhat w}"
  | .eng slot c => s!"E:{slot}:{showCall c}"

def showSrc : Src → String
  | .stream s => "S" ++ showStream s | .numpyGlobal => "G" | .external => "X"

def showTDraw (d : TDraw) : String := showSrc d.src ++ "/" ++ showWhat d.what

def showJErr : JobDraws.Err → String
  | .arity => "err:arity" | .key => "err:key" | .index => "err:index" | .noRgen => "err:norgen"
  | .script => "err:script"
  | .move e => "err:move:" ++ (match e with
      | .value => "value" | .badDraw => "baddraw" | .zerodiv => "zerodiv" | .index => "index" | .assert => "assert")
  | .swap e => "err:swap:" ++ (match e with
      | .assert => "assert" | .index => "index" | .type => "type" | .value => "value")

/-! parsers of the move inputs: the grammars of the C09 and C11 drivers -/

def parseSc? (s : String) : Option (Option Moves.StartCond) :=
  if s = "-" then some none
  else if s = "0" then some (some { hasL := false, hasR := false })
  else if s.toList.all (fun c => c = 'L' || c = 'R') then
    some (some { hasL := s.toList.contains 'L', hasR := s.toList.contains 'R' })
  else none

def parseShootIn (toks : List String) : Option Moves.ShootIn :=
  match toks with
  | oto :: ld :: l :: m :: r :: ml :: am :: sc :: sce :: idx :: xi :: kick :: rest =>
    match parseInt? oto, parseInt? l, parseInt? m, parseInt? r, parseNat? ml, parseSc? sc, parseSc? sce,
          parseNat? idx, parseRat? xi, parseInt? kick, takeList parseInt? rest with
    | some oto, some l, some m, some r, some ml, some (some sc), some sce, some idx, some xi, some kick,
      some (old, rest) =>
      match takeList parseInt? rest with
      | some (back, rest) =>
        match takeList parseInt? rest with
        | some (forw, []) =>
          some { old := old, oldTimeOrigin := oto, genLd := ld = "1", l := l, m := m, r := r, maxlength := ml,
                 allowMax := am = "1", sc := sc, scEns := sce, idx := idx, xi := xi, kick := kick,
                 back := back, forw := forw }
        | _ => none
      | none => none
    | _, _, _, _, _, _, _, _, _, _, _ => none
  | _ => none

def parseJumps : Nat → List String → Option (List Moves.WfJump × List String)
  | 0, rest => some ([], rest)
  | n + 1, idx :: kick :: rest =>
    match parseNat? idx, parseInt? kick, takeList parseInt? rest with
    | some idx, some kick, some (back, rest) =>
      match takeList parseInt? rest with
      | some (forw, rest) =>
        match parseJumps n rest with
        | some (js, rest) => some ({ idx := idx, kick := kick, back := back, forw := forw } :: js, rest)
        | none => none
      | none => none
    | _, _, _ => none
  | _ + 1, _ => none

def parseWfIn (toks : List String) : Option Moves.WfIn :=
  match toks with
  | oto :: l :: m :: r :: cap :: ml :: nj :: sc :: sce :: xi :: rest =>
    let capv : Option (Option Int) := if cap = "-" then some none else (parseInt? cap).map some
    match parseInt? oto, parseInt? l, parseInt? m, parseInt? r, capv, parseNat? ml, parseNat? nj, parseSc? sc,
          parseSc? sce, parseRat? xi, takeList parseInt? rest with
    | some oto, some l, some m, some r, some capv, some ml, some nj, some (some sc), some (some sce), some xi,
      some (old, rest) =>
      match takeList parseInt? rest with
      | some (eb, rest) =>
        match takeList parseInt? rest with
        | some (ef, cnt :: rest) =>
          match parseNat? cnt with
          | some cnt =>
            match parseJumps cnt rest with
            | some (js, []) =>
              some { old := old, oldTimeOrigin := oto, l := l, m := m, r := r, cap := capv, maxlength := ml,
                     nJumps := nj, sc := sc, scEns := sce, xiSeg := xi, jumps := js, extBack := eb, extForw := ef }
            | _ => none
          | none => none
        | _ => none
      | none => none
    | _, _, _, _, _, _, _, _, _, _, _ => none
  | _ => none

def optInt? (s : String) : Option (Option Int) :=
  if s = "-" then some none else (parseInt? s).map some

def parseBool? (s : String) : Option Bool :=
  if s = "1" then some true else if s = "0" then some false else none

def parseFrame? (s : String) : Option ZeroSwap.Frame :=
  match s.splitOn "," with
  | [a, b, c, d, e] =>
    match parseInt? a, parseInt? b, parseInt? c, parseBool? d, optInt? e with
    | some op, some x, some v, some vr, some vp => some { op := op, cfg := ⟨x, v⟩, vr := vr, vpot := vp }
    | _, _, _, _, _ => none
  | _ => none

def parseGen? (s : String) : Option ZeroSwap.GenFrame :=
  match s.splitOn "," with
  | [a, b, c, e] =>
    match parseInt? a, parseInt? b, parseInt? c, optInt? e with
    | some op, some x, some v, some vp => some { op := op, cfg := ⟨x, v⟩, vpot := vp }
    | _, _, _, _ => none
  | _ => none

def takeEns : List String → Option (ZeroSwap.Ens × List String)
  | a :: b :: c :: m :: l :: r :: w :: cap :: rest =>
    match parseInt? a, parseInt? b, parseInt? c, parseNat? m, parseBool? l, parseBool? r, parseBool? w, optInt? cap with
    | some a, some b, some c, some m, some l, some r, some w, some cap =>
      some ({ i0 := a, i1 := b, i2 := c, maxlen := m, scL := l, scR := r, wf := w, cap := cap }, rest)
    | _, _, _, _, _, _, _, _ => none
  | _ => none

def takeScript : List String → Option (ZeroSwap.Script × List String)
  | v0 :: rest =>
    match optInt? v0, takeList parseGen? rest with
    | some v0, some (fs, rest) => some ({ v0 := v0, rest := fs }, rest)
    | _, _ => none
  | _ => none

def parseSwapHead (rest : List String) :
    Option (ZeroSwap.Ens × ZeroSwap.Ens × List ZeroSwap.Frame × List ZeroSwap.Frame × List String) :=
  match takeEns rest with
  | none => none
  | some (e0, rest) =>
    match takeEns rest with
    | none => none
    | some (e1, rest) =>
      match takeList parseFrame? rest with
      | none => none
      | some (old0, rest) =>
        match takeList parseFrame? rest with
        | none => none
        | some (old1, rest) => some (e0, e1, old0, old1, rest)

def parseMove : List String → Option MoveIn
  | "sh" :: rest => (parseShootIn rest).map .sh
  | "wf" :: rest => (parseWfIn rest).map .wf
  | "retis" :: rest =>
    match parseSwapHead rest with
    | none => none
    | some (e0, e1, old0, old1, rest) =>
      match takeScript rest with
      | none => none
      | some (bw, rest) =>
        match takeScript rest with
        | some (fw, [xi]) => (parseRat? xi).map (fun xi => .retis e0 e1 old0 old1 bw fw xi)
        | _ => none
  | "quantis" :: rest =>
    match parseSwapHead rest with
    | none => none
    | some (e0, e1, old0, old1, rest) =>
      match takeScript rest with
      | none => none
      | some (a, rest) =>
        match takeScript rest with
        | none => none
        | some (b, rest) =>
          match takeScript rest with
          | none => none
          | some (c, rest) =>
            match takeScript rest with
            | some (dd, [aa, b0, b1, xi, p]) =>
              match parseBool? aa, parseRat? b0, parseRat? b1, parseRat? xi, parseRat? p with
              | some aa, some b0, some b1, some xi, some p =>
                some (.quantis e0 e1 old0 old1 a b c dd aa b0 b1 xi p)
              | _, _, _, _, _ => none
            | _ => none
  | _ => none

def showTbl (tbl : EngTbl) : String :=
  ";".intercalate (tbl.map (fun (e, x) => s!"{e.1}:{e.2}={showStream x}"))

def showOut (o : JobOut) : String :=
  s!"ok {if o.accept then 1 else 0} {o.status} | " ++ " ".intercalate (o.evs.map showEv) ++ " | " ++
    " ".intercalate (o.trace.map showTDraw) ++ " | " ++ showTbl o.tbl

def parseStream? (tok : String) : Option (Option Stream) :=
  if tok = "-" then some none else
  match tok.splitOn ":" with
  | [en, key] =>
    match parseNat? en, (if key = "" then some [] else (key.splitOn ",").mapM parseNat?) with
    | some en, some key => some (some { entropy := en, key := key })
    | _, _ => none
  | _ => none

def parseCall? : String → Option EngCall
  | "modvel" => some .modvel | "propB" => some (.propagate true) | "propF" => some (.propagate false)
  | "dump" => some .dump | _ => none

/-- driver state of C07: the shared one plus the file on disk -/
structure D7 where
  d : DState
  disk : Option Image := none

def showImage (im : Image) : String :=
  s!"cstep={im.cstep} | locked=" ++
    ";".intercalate ((im.locked.zip (im.lockedOrd.map some ++ List.replicate im.locked.length none)).map
      (fun ((es, ps), o) => showNats es ++ ":" ++ showNats ps ++ ":" ++ showON o)) ++
    " | spawned=" ++ showON im.spawnedRec ++ s!" | counter={im.counter} | active=" ++
    ",".intercalate (im.active.map showON) ++ s!" | trajnum={im.trajNum} | seed={im.seed}"

def handle7 (d : DState) (toks : List String) : DState × String :=
  match toks with
  | "jobdraws" :: pin :: n :: rest =>
    match parseNat? pin, parseNat? n with
    | some pin, some n =>
      if rest.length < n then (d, "bad-op") else
      match (rest.take n).mapM parseKind?, parseMove (rest.drop n), d.jobs.find? (·.pin == pin) with
      | some kinds, some mv, some job =>
        match runJob .repaired kinds d.eng job.picked mv with
        | .error e => (d, showJErr e)
        | .ok o => ({ d with eng := o.tbl }, showOut o)
      | _, _, _ => (d, "bad-op")
    | _, _ => (d, "bad-op")
  | ["tmdprop", integ, r] =>
    let i? : Option TmdIntegrator := match integ with
      | "verlet" => some .verlet | "velocityverlet" => some .velocityVerlet
      | "langevinoverdamped" => some .langevinOverdamped | "langevininertia" => some .langevinInertia | _ => none
    match i?, parseStream? r with
    | some i, some r =>
      (d, match tmdPropagate i r with
          | .ran tr => "ran " ++ " ".intercalate (tr.map (fun t => showWhat t.what))
          | .typeError tr => "typeerror " ++ " ".intercalate (tr.map (fun t => showWhat t.what))
          | .noRgen => "norgen")
    | _, _ => (d, "bad-op")
  | ["engcall", kind, call, r] =>
    match parseKind? kind, parseCall? call, parseStream? r with
    | some k, some c, some r =>
      match engDraws k c r with
      | .error e => (d, showJErr e)
      | .ok tr => (d, "ok " ++ " ".intercalate (tr.map showTDraw))
    | _, _, _ => (d, "bad-op")
  | _ => Infretis.Repex.handle d toks

/-- the ops that know the file on disk; everything else goes to `handle7` -/
def handle7d (x : D7) (toks : List String) : D7 × String :=
  match toks with
  | ["disk"] => (x, match x.disk with | none => "-" | some im => showImage im)
  | ["mcdims"] =>
    let dims := mcDims x.d.s
    (x, s!"idle={idleCount x.d.s} dims=" ++ (if dims.isEmpty then "-" else showNats dims))
  | "restartdisk" :: w :: ts :: rest =>
    match parseNat? w, parseNat? ts, takeList parseNat? rest with
    | some w, some ts, some (sizes, []) =>
      let p : Proc := { y := { s := x.d.s, jobs := x.d.jobs }, disk := x.disk }
      let wts := x.d.s.wts
      match restartFromDisk p x.d.s.n w ts (sizes.map (fun k => List.replicate k (-1))) x.d.s.ensEng
              (fun pn => (wts.lookup pn).getD []) with
      | .error e => (x, showErr e)
      | .ok p' => ({ d := { s := p'.y.s, jobs := [], eng := [] }, disk := p'.disk }, "ok")
    | _, _, _ => (x, "bad-op")
  | _ =>
    let (d', ans) := handle7 x.d toks
    let disk' : Option Image :=
      match toks with
      | "treat" :: _ => if ans.startsWith "new=" then some (persist d'.s) else x.disk
      | ["loop"] => if ans.startsWith "false" then (endWrite { y := { s := d'.s, jobs := d'.jobs }, disk := x.disk }).disk
                    else x.disk
      | "init" :: _ => x.disk
      | _ => x.disk
    ({ d := d', disk := disk' }, ans)

partial def mainLoop7 (h out : IO.FS.Stream) (d : D7) : IO Unit := do
  let line ← h.getLine
  if line.isEmpty then
    out.flush
    return ()
  let l := (line.dropEndWhile (fun c => c = '\n' || c = '\r')).toString
  let toks := (l.splitOn " ").filter (fun t => t ≠ "")
  let (d', ans) := handle7d d toks
  out.putStrLn ans
  mainLoop7 h out d'

def main : IO Unit := do
  mainLoop7 (← IO.getStdin) (← IO.getStdout) { d := { s := emptySt } }
