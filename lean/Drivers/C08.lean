import Infretis.Model.Proto
import Infretis.Model.Fs
import Infretis.Model.FsRestart
import Infretis.Model.FsCheck
open Infretis Infretis.Proto Infretis.Fs

/-!
Line protocol of the C08 driver (all tokens are naturals unless said otherwise):

  key      := kind pn name          kind 0 pdir 1 acc 2 order 3 energy 4 traj 5 tfile 6 wfile
  fstate   := tag c                 tag 0 absent 1 dir 2 empty 3 part 4 complete
  list<T>  := n T₁ … Tₙ
  pinfo    := pn cid list<(name cid)>
  job      := list<nat> list<nat>
  rec      := cstep rf list<nat> trajNum list<job> steps  rf = 0 none | R+1
  rfile    := 0 | 1 | 2 | 3 rec
  disk     := list<(key fstate)> list<nat> garbled torn rfile rfile
  cfg      := n deleteOld deleteAll variant clean          variant 0 asIs 1 repaired 2 renamedOpen; clean = clean_data_file on restart
  mem      := cstep rf list<pinfo> trajNum list<(pn list<nat>)> list<job> steps
  acc      := pinfo cid list<(name cid)>
  choice   := list<acc> list<pinfo> list<job> inc halfRows halfTorn
  manifest := list<(cid list<nat>)>

  step  cfg mem disk choice              → "<mem'> | <disk'> | <effects>"
  crash cfg mem disk choice manifest k half
        → "<disk'> | out=.. out0=.. present=0/1 rows=0/1 (on the restored disk) trunc=0/1 rowwin=0/1 | <rec> | <restored mem> | <data file after the restart's clean: rows garbled torn>"

  dtmp     := 0 | 1 | 2 | 3 list<nat> garbled torn        (infretis_data.txt.tmp: absent, empty, cut, complete)
  event    := 0 list<(name cid)> | 1 choice | 2 choice k half | 3 jobs k half | 4 jobs
              (work, step, crash inside a step, crash inside a restart, completed restart)
  rcrash cfg disk dtmp manifest jobs k half     the restart procedure (restartRun) dies at point (k, half)
        → "<disk'> | <dtmp'> | out=<restartRun now> next=<restartRun on the crashed disk> neffs=<number of effects> tmpok=0/1 present=0/1 rows=0/1 | <effects> | <restored mem after the NEXT restart> | <data file after the next restart: rows garbled torn> | <dtmp after the next restart>"
  script cfg manifest alive mem disk dtmp list<event>          (runScript; mem is ignored when alive = 0)
        → "alive=0/1 out=<restartRun now, 1 job> | <mem or -> | <disk> | <dtmp>"
  hyp cfg mem disk choice manifest      the HYPOTHESES of the theorems (Model/FsCheck.lean) on a state + step outcome
        → "inv=0/1 wf=0/1 cover=0/1 complete=0/1 inv2=0/1 complete2=0/1 out2=<restartOutcome after the completed step>"
          (inv2 / complete2: Inv / Complete of the state after the completed step)
-/

abbrev P (α : Type) := List String → Option (α × List String)

def pNat : P Nat
  | [] => none
  | t :: r => (parseNat? t).map (·, r)

def pBool : P Bool := fun ts => (pNat ts).map (fun (n, r) => (n != 0, r))

def pList {α : Type} (p : P α) : P (List α) := fun ts =>
  match pNat ts with
  | none => none
  | some (n, r) =>
    let rec go : Nat → List String → List α → Option (List α × List String)
      | 0, r, acc => some (acc.reverse, r)
      | k + 1, r, acc => match p r with
        | none => none
        | some (x, r') => go k r' (x :: acc)
    go n r []

def pPair {α β : Type} (p : P α) (q : P β) : P (α × β) := fun ts =>
  match p ts with
  | none => none
  | some (a, r) => (q r).map (fun (b, r') => ((a, b), r'))

def pKey : P Key := fun ts =>
  match pNat ts with
  | some (k, r) => match pNat r with
    | some (pn, r) => match pNat r with
      | some (nm, r) =>
        let key : Option Key := match k with
          | 0 => some (.pdir pn) | 1 => some (.acc pn) | 2 => some (.order pn) | 3 => some (.energy pn)
          | 4 => some (.traj pn) | 5 => some (.tfile pn nm) | 6 => some (.wfile nm) | _ => none
        key.map (·, r)
      | none => none
    | none => none
  | none => none

def pFState : P FileState := fun ts =>
  match pPair pNat pNat ts with
  | some ((t, c), r) =>
    let s : Option FileState := match t with
      | 0 => some .absent | 1 => some .dir | 2 => some .empty | 3 => some (.part c) | 4 => some (.complete c)
      | _ => none
    s.map (·, r)
  | none => none

def pPInfo : P PathInfo := fun ts =>
  match pPair pNat (pPair pNat (pList (pPair pNat pNat))) ts with
  | some ((pn, cid, fs), r) => some ({ pn := pn, cid := cid, files := fs }, r)
  | none => none

def pJob : P Job := fun ts =>
  (pPair (pList pNat) (pList pNat) ts).map (fun ((a, b), r) => ({ ens := a, paths := b }, r))

def optOf (n : Nat) : Option Nat := if n = 0 then none else some (n - 1)

def pRec : P Rec := fun ts =>
  match pPair pNat (pPair pNat (pPair (pList pNat) (pPair pNat (pPair (pList pJob) pNat)))) ts with
  | some ((cs, rf, act, tn, lk, st), r) =>
    some ({ cstep := cs, restartedFrom := optOf rf, active := act, trajNum := tn, locked := lk, steps := st }, r)
  | none => none

def pRFile : P RFile := fun ts =>
  match pNat ts with
  | some (0, r) => some (.absent, r)
  | some (1, r) => some (.empty, r)
  | some (2, r) => some (.part, r)
  | some (3, r) => (pRec r).map (fun (x, r') => (.complete x, r'))
  | _ => none

def pDisk : P Disk := fun ts =>
  match pPair (pList (pPair pKey pFState)) (pPair (pList pNat) (pPair pNat (pPair pBool (pPair pRFile pRFile)))) ts with
  | some ((fs, rows, g, t, rf, tf), r) =>
    some ({ files := fs, data := { rows := rows, garbled := g, torn := t }, restart := rf, tmp := tf }, r)
  | none => none

def pCfg : P Cfg := fun ts =>
  match pPair pNat (pPair pBool (pPair pBool (pPair pNat pBool))) ts with
  | some ((n, a, b, v, cl), r) =>
    some ({ n := n, deleteOld := a, deleteAll := b, variant := if v = 0 then .asIs else if v = 2 then .renamedOpen else .repaired,
            cleanOnRestart := cl }, r)
  | none => none

def pOld : P Old := fun ts =>
  (pPair pNat (pList pNat) ts).map (fun ((a, b), r) => ({ pn := a, names := b }, r))

def pMem : P Mem := fun ts =>
  match pPair pNat (pPair pNat (pPair (pList pPInfo) (pPair pNat (pPair (pList pOld) (pPair (pList pJob) pNat))))) ts with
  | some ((cs, rf, live, tn, olds, lk, st), r) =>
    some ({ cstep := cs, restartedFrom := optOf rf, live := live, trajNum := tn, olds := olds, locked := lk,
            steps := st }, r)
  | none => none

def pAcc : P Acc := fun ts =>
  match pPair pPInfo (pPair pNat (pList (pPair pNat pNat))) ts with
  | some ((o, c, fs), r) => some ({ old := o, cid := c, files := fs }, r)
  | none => none

def pChoice : P Choice := fun ts =>
  match pPair (pList pAcc) (pPair (pList pPInfo) (pPair (pList pJob) (pPair pBool (pPair pNat pBool)))) ts with
  | some ((a, nl, lk, inc, h, t), r) =>
    some ({ accs := a, newLive := nl, locked' := lk, inc := inc, halfRows := h, halfTorn := t }, r)
  | none => none

def pManifest : P Manifest := fun ts =>
  (pList (pPair pNat (pList pNat)) ts).map (fun (tbl, r) =>
    ((fun c => (tbl.find? (fun e => e.1 == c)).map (·.2)), r))

/-! ### printing -/

def sL {α : Type} (f : α → String) (xs : List α) : String := showList f xs

def sKey : Key → String
  | .pdir p => s!"0 {p} 0" | .acc p => s!"1 {p} 0" | .order p => s!"2 {p} 0" | .energy p => s!"3 {p} 0"
  | .traj p => s!"4 {p} 0" | .tfile p n => s!"5 {p} {n}" | .wfile n => s!"6 0 {n}"

def sFState : FileState → String
  | .absent => "0 0" | .dir => "1 0" | .empty => "2 0" | .part c => s!"3 {c}" | .complete c => s!"4 {c}"

def sPInfo (p : PathInfo) : String := s!"{p.pn} {p.cid} {sL (fun nc => s!"{nc.1} {nc.2}") p.files}"
def sJob (j : Job) : String := s!"{sL toString j.ens} {sL toString j.paths}"
def sOpt : Option Nat → String | none => "0" | some r => toString (r + 1)
def sRec (r : Rec) : String :=
  s!"{r.cstep} {sOpt r.restartedFrom} {sL toString r.active} {r.trajNum} {sL sJob r.locked} {r.steps}"
def sRFile : RFile → String
  | .absent => "0" | .empty => "1" | .part => "2" | .complete r => s!"3 {sRec r}"

/-- distinct keys of an association list, first occurrence wins -/
def dedupKeys : Files → List Key → Files
  | [], _ => []
  | (k, s) :: t, seen => if seen.contains k then dedupKeys t seen else (k, s) :: dedupKeys t (k :: seen)

def sDisk (d : Disk) : String :=
  let fs := (dedupKeys d.files []).filter (fun e => e.2 != .absent)
  s!"{sL (fun e => s!"{sKey e.1} {sFState e.2}") fs} {sL toString d.data.rows} {d.data.garbled} {if d.data.torn then 1 else 0} {sRFile d.restart} {sRFile d.tmp}"

def sMem (m : Mem) : String :=
  s!"{m.cstep} {sOpt m.restartedFrom} {sL sPInfo m.live} {m.trajNum} {sL (fun o => s!"{o.pn} {sL toString o.names}") m.olds} {sL sJob m.locked} {m.steps}"

def sEffect : Effect → String
  | .mkdir k => s!"mkdir:{sKey k}" | .openW k => s!"openw:{sKey k}" | .write k c => s!"write:{sKey k}:{c}"
  | .remove k => s!"remove:{sKey k}" | .move s t => s!"move:{sKey s}:{sKey t}" | .rmdir k => s!"rmdir:{sKey k}"
  | .dataOpen => "dataopen" | .dataAppend rows h _ => s!"dataappend:{sL toString rows}:{h}"
  | .rOpen t => s!"ropen:{if t then 1 else 0}" | .rWrite t _ => s!"rwrite:{if t then 1 else 0}"
  | .rRename => "rrename"

def sOutcome : Outcome → String
  | .starts r => s!"starts:{r.cstep}" | .refuses => "refuses" | .startsFromZero => "startsFromZero"
  | .raises => "raises"

def b01 (b : Bool) : String := if b then "1" else "0"

def squash (s : String) : String := s.replace " " ","

def pDTmp : P DTmp := fun ts =>
  match pNat ts with
  | some (0, r) => some (.absent, r)
  | some (1, r) => some (.empty, r)
  | some (2, r) => some (.part, r)
  | some (3, r) =>
    (pPair (pList pNat) (pPair pNat pBool) r).map (fun ((rows, g, t), r') =>
      (.complete { rows := rows, garbled := g, torn := t }, r'))
  | _ => none

def sData (df : DataFile) : String := s!"{sL toString df.rows} {df.garbled} {if df.torn then 1 else 0}"

def sDTmp : DTmp → String
  | .absent => "0" | .empty => "1" | .part => "2" | .complete df => s!"3 {sData df}"

def pEvent : P Event := fun ts =>
  match pNat ts with
  | some (0, r) => (pList (pPair pNat pNat) r).map (fun (fs, r') => (.work fs, r'))
  | some (1, r) => (pChoice r).map (fun (c, r') => (.step c, r'))
  | some (2, r) => (pPair pChoice (pPair pNat pBool) r).map (fun ((c, k, h), r') => (.crash c k h, r'))
  | some (3, r) => (pPair pNat (pPair pNat pBool) r).map (fun ((j, k, h), r') => (.restartCrash j k h, r'))
  | some (4, r) => (pNat r).map (fun (j, r') => (.restart j, r'))
  | _ => none

def sREffect : REffect → String
  | .dtOpen => "dtopen" | .dtWrite k => s!"dtwrite:{squash (sL toString k.rows)}" | .dtReplace => "dtreplace"
  | .mkdirWorker i => s!"mkdirworker:{i}"

def handle (toks : List String) : String :=
  match toks with
  | "rcrash" :: rest =>
    match pPair pCfg (pPair pDisk (pPair pDTmp (pPair pManifest (pPair pNat (pPair pNat pBool))))) rest with
    | some ((cfg, d, t, M, jobs, k, half), []) =>
      let x : RDisk := ⟨d, t⟩
      let rr := restartRun cfg M x jobs
      let x' := crashAtR rr.2 x k half
      let rr' := restartRun cfg M x' jobs
      let x'' := runR rr'.2 x'
      let (restored, tmpok, present, rows) := match rr'.1 with
        | .starts r =>
          let mem := restore M r x''.d.files
          (sMem mem, tmpOK x' r.active,
           r.active.all (fun a => (loadPath M x'.d.files a).isSome) && mem.live.all (pathOK x'.d.files),
           rowsOK x''.d.data r.active)
        | _ => ("-", false, false, false)
      s!"{sDisk x'.d} | {sDTmp x'.dtmp} | out={sOutcome rr.1} next={sOutcome rr'.1} neffs={rr.2.length} tmpok={b01 tmpok} present={b01 present} rows={b01 rows} | {sL sREffect rr.2} | {restored} | {sData x''.d.data} | {sDTmp x''.dtmp}"
    | _ => "bad-op"
  | "script" :: rest =>
    match pPair pCfg (pPair pManifest (pPair pBool (pPair pMem (pPair pDisk (pPair pDTmp (pList pEvent)))))) rest with
    | some ((cfg, M, alive, m, d, t, es), []) =>
      let s0 : PState := { mem := if alive then some m else none, x := ⟨d, t⟩ }
      let s := runScript cfg M s0 es
      let memS := match s.mem with | some m' => sMem m' | none => "-"
      s!"alive={b01 s.mem.isSome} out={sOutcome (s.restartNow cfg M 1)} | {memS} | {sDisk s.x.d} | {sDTmp s.x.dtmp}"
    | _ => "bad-op"
  | "hyp" :: rest =>
    match pPair pCfg (pPair pMem (pPair pDisk (pPair pChoice pManifest))) rest with
    | some ((cfg, m, d, c, M), []) =>
      let m' := stepMem cfg m c d
      let d' := run (stepEffs cfg m c d) d
      s!"inv={b01 (invB M m d)} wf={b01 (wfB cfg M m c d)} cover={b01 (coverB m c)} complete={b01 (completeB m d)} inv2={b01 (invB M m' d')} complete2={b01 (completeB m' d')} out2={sOutcome (restartOutcome M .restartToml d')}"
    | _ => "bad-op"
  | "step" :: rest =>
    match pPair pCfg (pPair pMem (pPair pDisk pChoice)) rest with
    | some ((cfg, m, d, c), []) =>
      let es := stepEffs cfg m c d
      s!"{sMem (stepMem cfg m c d)} | {sDisk (run es d)} | {sL (fun e => squash (sEffect e)) es}"
    | _ => "bad-op"
  | "crash" :: rest =>
    match pPair pCfg (pPair pMem (pPair pDisk (pPair pChoice (pPair pManifest (pPair pNat pBool))))) rest with
    | some ((cfg, m, d, c, M, k, half), []) =>
      let d' := crashStep cfg m c d k half
      let out := restartOutcome M .restartToml d'
      let out0 := restartOutcome M .infretisToml d'
      let (recS, present, rows, restored, cleaned) := match d'.restart with
        | .complete r =>
          let mem := restore M r d'.files
          let dr := restoreDisk cfg r d'
          (sRec r,
           r.active.all (fun a => (loadPath M d'.files a).isSome) && mem.live.all (pathOK d'.files),
           rowsOK dr.data r.active, sMem mem,
           s!"{sL toString dr.data.rows} {dr.data.garbled} {if dr.data.torn then 1 else 0}")
        | _ => ("-", false, false, "-", "-")
      s!"{sDisk d'} | out={sOutcome out} out0={sOutcome out0} present={b01 present} rows={b01 rows} trunc={b01 (inTruncWindow cfg m c d k)} rowwin={b01 (inRowWindow cfg m c d k half)} | {recS} | {restored} | {cleaned}"
    | _ => "bad-op"
  | _ => "bad-op"

def main : IO Unit := mainWith handle
