import Infretis.Model.Proto
import Infretis.Model.Moves
import Infretis.Model.MovesRun
import Infretis.Model.MovesTime
open Infretis Infretis.Proto Infretis.Moves Infretis.Engine

def showStatus : Status → String
  | .ACC => "ACC" | .KOB => "KOB" | .BTL => "BTL" | .BTX => "BTX" | .BWI => "BWI"
  | .FTL => "FTL" | .FTX => "FTX" | .ZL => "0-L" | .NCR => "NCR" | .NSG => "NSG"

def showErr : Err → String
  | .value => "err:value" | .badDraw => "err:baddraw" | .zerodiv => "err:zerodiv"
  | .index => "err:index" | .assert => "err:assert"

def showDraw : Draw → String
  | .integers lo hi => s!"int:{lo}:{hi}"
  | .random => "random"

def showPStatus : PStatus → String
  | .running => "running" | .crossedLeft => "left" | .crossedRight => "right"
  | .maxLenNoAdd => "maxnoadd" | .maxLen => "maxlen"

def b01 (b : Bool) : String := if b then "1" else "0"

def parseVariant? : String → Option Variant
  | "a" => some .asIs
  | "r" => some .repaired
  | _ => none

/-- start condition token: some of the letters L, R ("-" = key absent, "0" = empty set) -/
def parseSc? (s : String) : Option (Option StartCond) :=
  if s = "-" then some none
  else if s = "0" then some (some { hasL := false, hasR := false })
  else if s.toList.all (fun c => c = 'L' || c = 'R') then
    some (some { hasL := s.toList.contains 'L', hasR := s.toList.contains 'R' })
  else none

def showShootOut (o : ShootOut) : String :=
  s!"ok {b01 o.accept} {showStatus o.status} {o.genSp} {o.genIdx} {o.genNb} {o.timeOrigin} {o.usedB} {o.usedF} | {showList toString o.trial} | {showList showDraw o.draws}"

def parseShootIn (toks : List String) : Option ShootIn :=
  match toks with
  | oto :: ld :: l :: m :: r :: ml :: am :: sc :: sce :: idx :: xi :: kick :: rest =>
    match parseInt? oto, parseInt? l, parseInt? m, parseInt? r, parseNat? ml, parseSc? sc, parseSc? sce,
          parseNat? idx, parseRat? xi, parseInt? kick, takeList parseInt? rest with
    | some oto, some l, some m, some r, some ml, some (some sc), some sce, some idx, some xi, some kick,
      some (old, rest) =>
      match takeList parseInt? rest with
      | some (back, rest) =>
        match takeList parseInt? rest with
        | some (forw, []) =>
          some { old := old, oldTimeOrigin := oto, genLd := ld = "1", l := l, m := m, r := r, maxlength := ml,
                 allowMax := am = "1", sc := sc, scEns := sce, idx := idx, xi := xi, kick := kick,
                 back := back, forw := forw }
        | _ => none
      | none => none
    | _, _, _, _, _, _, _, _, _, _, _ => none
  | _ => none

/-- jumps: count, then per jump `idx kick list(back) list(forw)` -/
def parseJumps : Nat → List String → Option (List WfJump × List String)
  | 0, rest => some ([], rest)
  | n + 1, idx :: kick :: rest =>
    match parseNat? idx, parseInt? kick, takeList parseInt? rest with
    | some idx, some kick, some (back, rest) =>
      match takeList parseInt? rest with
      | some (forw, rest) =>
        match parseJumps n rest with
        | some (js, rest) => some ({ idx := idx, kick := kick, back := back, forw := forw } :: js, rest)
        | none => none
      | none => none
    | _, _, _ => none
  | _ + 1, _ => none

def parseWfIn (toks : List String) : Option WfIn :=
  match toks with
  | oto :: l :: m :: r :: cap :: ml :: nj :: sc :: sce :: xi :: rest =>
    let capv : Option (Option Int) := if cap = "-" then some none else (parseInt? cap).map some
    match parseInt? oto, parseInt? l, parseInt? m, parseInt? r, capv, parseNat? ml, parseNat? nj, parseSc? sc,
          parseSc? sce, parseRat? xi, takeList parseInt? rest with
    | some oto, some l, some m, some r, some capv, some ml, some nj, some (some sc), some (some sce), some xi,
      some (old, rest) =>
      match takeList parseInt? rest with
      | some (eb, rest) =>
        match takeList parseInt? rest with
        | some (ef, cnt :: rest) =>
          match parseNat? cnt with
          | some cnt =>
            match parseJumps cnt rest with
            | some (js, []) =>
              some { old := old, oldTimeOrigin := oto, l := l, m := m, r := r, cap := capv, maxlength := ml,
                     nJumps := nj, sc := sc, scEns := sce, xiSeg := xi, jumps := js, extBack := eb, extForw := ef }
            | _ => none
          | none => none
        | _ => none
      | none => none
    | _, _, _, _, _, _, _, _, _, _, _ => none
  | _ => none

def showWfOut (o : WfOut) : String :=
  s!"ok {b01 o.accept} {showStatus o.status} {o.genSucc} {o.genLen} {o.timeOrigin} {b01 o.returnedOld} {b01 o.oldRewritten} | {showList toString o.path} | {showList showDraw o.draws}"


def showOutcome : Outcome → String
  | .kob => "kob"
  | .backFail n => s!"backfail {n}"
  | .wrongEnd => "wrongend"
  | .forwFail n => s!"forwfail {n}"
  | .final z b c => s!"final {b01 z} {b01 b} {b01 c}"

def showWfOutcome : WfOutcome → String
  | .noFrames => "noframes"
  | .noSegment => "nosegment"
  | .extTooLong n => s!"exttoolong {n}"
  | .wrongStart => "wrongstart"
  | .accepted s n => s!"accepted {s} {n}"

def showRoute : Route → String
  | .shoot => "shoot" | .wireFencing => "wire_fencing" | .quantisSwap => "quantis_swap_zero"
  | .retisSwap => "retis_swap_zero" | .keyError => "err:key"

def showMdErr : MdErr → String
  | .move e => showErr e
  | .key => "err:key" | .value => "err:value" | .index => "err:index" | .assert => "err:assert"

def optInt? (s : String) : Option (Option Int) := if s = "-" then some none else (parseInt? s).map some

/-- cfg: list(interfaces) list(wf flags 0/1 of mc_moves[1:]) cap ensNum lm1 -/
def parseMdCfg (toks : List String) : Option (MdCfg × List String) :=
  match takeList parseInt? toks with
  | some (intf, rest) =>
    match takeList parseNat? rest with
    | some (mv, cap :: en :: lm1 :: rest) =>
      match optInt? cap, parseInt? en, optInt? lm1 with
      | some cap, some en, some lm1 =>
        some ({ interfaces := intf, movesTail := mv.map (fun n => n != 0), cap := cap, ensNum := en, lm1 := lm1 }, rest)
      | _, _, _ => none
    | _ => none
  | none => none

def showMdOne (o : MdOneOut) : String :=
  let w := match o.weights with
    | some ws => showList toString ws
    | none => "-"
  s!"ok {showStatus o.status} {b01 o.replaced} {o.trialLen} {o.trialMin} {o.trialMax} | {showList toString o.live} | {w}"

def showTFrame (f : TFrame) : String := s!"{f.op}:{f.traj}:{f.t}:{f.v}:{b01 f.rev}"

def showFrames (fs : List TFrame) : String := s!"{b01 (timeOrderedB fs)} | {showList showTFrame fs}"

/-- "ordered in time" ops (model `Infretis/Model/MovesTime.lean`):
    `wft v list(krevs 0/1) <wire-fencing input as for wf>`  → frames of the accepted path, or `none`
    `shoott v krev <shoot input as for shoot>`              → frames of the pasted trial path, or `none`
    `ordered list(op) list(traj) list(t) list(v) list(rev)` → the predicate `timeOrderedB` on given frames -/
def handleTime (toks : List String) : Option String :=
  match toks with
  | "wft" :: v :: rest =>
    match parseVariant? v, takeList parseNat? rest with
    | some v, some (krevs, rest) =>
      match parseWfIn rest with
      | some i =>
        match wireFencingT v i (krevs.map (fun n => n != 0)) [] with
        | some fs => some s!"frames {showFrames fs}"
        | none => some "none"
      | none => some "bad-op"
    | _, _ => some "bad-op"
  | "shoott" :: v :: krev :: rest =>
    match parseVariant? v, parseShootIn rest with
    | some v, some i =>
      match shootT v i (kickFrame i.kick 1 (krev = "1")) with
      | some fs => some s!"frames {showFrames fs}"
      | none => some "none"
    | _, _ => some "bad-op"
  | "ordered" :: rest =>
    match takeList parseInt? rest with
    | some (ops, rest) =>
      match takeList parseNat? rest with
      | some (trs, rest) =>
        match takeList parseInt? rest with
        | some (ts, rest) =>
          match takeList parseInt? rest with
          | some (vs, rest) =>
            match takeList parseNat? rest with
            | some (rs, []) =>
              if ops.length = trs.length ∧ ops.length = ts.length ∧ ops.length = vs.length ∧ ops.length = rs.length then
                let fs : List TFrame := (((ops.zip trs).zip ts).zip (vs.zip rs)).map
                  (fun p => { op := p.1.1.1, traj := p.1.1.2, t := p.1.2, v := p.2.1, rev := p.2.2 != 0 })
                some (b01 (timeOrderedB fs))
              else some "bad-op"
            | _ => some "bad-op"
          | none => some "bad-op"
        | none => some "bad-op"
      | none => some "bad-op"
    | none => some "bad-op"
  | _ => none

def handleExt (toks : List String) : Option String :=
  match handleTime toks with
  | some r => some r
  | none =>
  match toks with
  | "outcome" :: v :: rest =>
    match parseVariant? v, parseShootIn rest with
    | some v, some i =>
      match shootOutcome v i with
      | .ok oc => some s!"{showOutcome oc} => {showStatus (statusOf i.maxlength oc)}"
      | .error e => some (showErr e)
    | _, _ => some "bad-op"
  | "wfoutcome" :: v :: rest =>
    match parseVariant? v, parseWfIn rest with
    | some v, some i =>
      match wfOutcome v i with
      | .ok oc => some s!"{showWfOutcome oc} => {showStatus (wfStatusOf oc)}"
      | .error e => some (showErr e)
    | _, _ => some "bad-op"
  | ["route", n, hm, mv, q] =>
    match parseNat? n with
    | some n =>
      let mk : MoveKey := if mv = "sh" then .sh else if mv = "wf" then .wf else .other
      some (showRoute (route n (hm = "1") mk (q = "1")))
    | none => some "bad-op"
  | "runmd1" :: v :: rest =>
    match parseVariant? v, parseMdCfg rest with
    | some v, some (cfg, kind :: rest) =>
      let x : Option OneIn :=
        if kind = "sh" then (parseShootIn rest).map .sh
        else if kind = "wf" then (parseWfIn rest).map .wf
        else (takeList parseInt? rest).map (fun p => .other p.1)
      match x with
      | some x =>
        match runMdOne v cfg x with
        | .ok o => some (showMdOne o)
        | .error e => some (showMdErr e)
      | none => some "bad-op"
    | _, _ => some "bad-op"
  | _ => none

def handle (toks : List String) : String :=
  match handleExt toks with
  | some r => r
  | none =>
  match toks with
  | "shoot" :: v :: rest =>
    match parseVariant? v, parseShootIn rest with
    | some v, some i =>
      match shoot v i with
      | .ok o => showShootOut o
      | .error e => showErr e
    | _, _ => "bad-op"
  | ["commit2", st, s0, s1] =>
    -- run_md's commit step for a two-ensemble move: move status, the two trials' own statuses
    let mk : String → ZeroSwap.Status := fun s => if s = "ACC" then .ACC else .none
    let r : ZeroSwap.Result :=
      { accept := (st = "ACC")
        status := (mk st)
        path0 := []
        path1 := []
        st0 := (mk s0)
        st1 := (mk s1)
        w0 := 0
        w1 := 0
        reqs := []
        draws := 0
        expArg := none }
    let o := runMdCommit2 r [] []
    s!"{b01 o.replaced0} {b01 o.replaced1}"
  | "wf" :: v :: rest =>
    match parseVariant? v, parseWfIn rest with
    | some v, some i =>
      match wireFencing v i with
      | .ok o => showWfOut o
      | .error e => showErr e
    | _, _ => "bad-op"
  | "runmd" :: v :: rest =>
    match parseVariant? v, parseShootIn rest with
    | some v, some i =>
      match runMd v i with
      | .ok o => s!"ok {showStatus o.status} {b01 o.replaced} {o.trialLen} | {showList toString o.live}"
      | .error e => showErr e
    | _, _ => "bad-op"
  | "atp" :: v :: ml :: x :: left :: right :: rest =>
    let mlv : Option (Option Nat) := if ml = "-" then some none else (parseNat? ml).map some
    match v, mlv, parseInt? x, parseInt? left, parseInt? right, takeList parseInt? rest with
    | v, some mlv, some x, some left, some right, some (ops, []) =>
      let res := match v with
        | "s" => some (addToPath ops mlv x left right)        -- the shared model
        | "a" => some (addToPathV .asIs ops mlv x left right)
        | "r" => some (addToPathV .repaired ops mlv x left right)
        | _ => none
      match res with
      | none => "bad-op"
      | some none => "err:index"
      | some (some (ops', a)) =>
        s!"{showPStatus a.status} {b01 a.success} {b01 a.stop} {b01 a.added} | {showList toString ops'}"
    | _, _, _, _, _, _ => "bad-op"
  | "feed" :: v :: ml :: left :: right :: rest =>
    let mlv : Option (Option Nat) := if ml = "-" then some none else (parseNat? ml).map some
    match mlv, parseInt? left, parseInt? right, takeList parseInt? rest with
    | some mlv, some left, some right, some (ops, rest) =>
      match takeList parseInt? rest with
      | some (stream, []) =>
        let res := match v with
          | "s" => some (feed left right mlv ops stream 0)
          | "a" => some (feedV .asIs left right mlv ops stream 0)
          | "r" => some (feedV .repaired left right mlv ops stream 0)
          | _ => none
        match res with
        | none => "bad-op"
        | some none => "err:index"
        | some (some (ops', ok, k)) => s!"{b01 ok} {k} | {showList toString ops'}"
      | _ => "bad-op"
    | _, _, _, _ => "bad-op"
  | _ => "bad-op"

def main : IO Unit := mainWith handle
