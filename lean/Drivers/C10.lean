import Infretis.Model.Proto
import Infretis.Model.WF
import Infretis.Model.WFExt
open Infretis Infretis.Proto Infretis.WF Infretis.WFExt

def showSeg (s : Nat × Nat × Nat) : String := s!"{s.1},{s.2.1},{s.2.2}"

def showErr : Err → String
  | .assert => "err:assert" | .index => "err:index" | .value => "err:value"

def showExcept (r : Except Err (List Nat)) : String :=
  match r with
  | .ok ws => showList toString ws
  | .error e => showErr e

def handle (toks : List String) : String :=
  match toks with
  | "weight" :: l :: r :: rest =>
    match parseInt? l, parseInt? r, takeList parseInt? rest with
    | some l, some r, some (ops, []) =>
      let s := scan l r ops
      s!"{sumLens s.arr} | {showList showSeg s.arr}"
    | _, _, _ => "bad-op"
  | "spec" :: l :: r :: rest =>
    match parseInt? l, parseInt? r, takeList parseInt? rest with
    | some l, some r, some (ops, []) => toString (specWeight l r ops)
    | _, _, _ => "bad-op"
  | "pick" :: l :: r :: xi :: rest =>
    match parseInt? l, parseInt? r, parseRat? xi, takeList parseInt? rest with
    | some l, some r, some xi, some (ops, []) =>
      match pick l r ops xi with
      | some s => showSeg s
      | none => "none"
    | _, _, _, _ => "bad-op"
  | "wfseed" :: i1 :: i2 :: cap :: xi :: rest =>
    let capv : Option (Option Int) := if cap = "-" then some none else (parseInt? cap).map some
    match parseInt? i1, parseInt? i2, capv, parseRat? xi, takeList parseInt? rest with
    | some i1, some i2, some capv, some xi, some (ops, []) =>
      match wfMoveSeed i1 i2 capv ops xi with
      | some m => s!"{showList toString m.subIntf} | {showSeg m.seg}"
      | none => "none"
    | _, _, _, _, _ => "bad-op"
  | "cw" :: i0 :: i1 :: i2 :: wf :: rest =>
    match parseInt? i0, parseInt? i1, parseInt? i2, takeList parseInt? rest with
    | some i0, some i1, some i2, some (ops, []) =>
      match computeWeight ops i0 i1 i2 (wf = "1") with
      | .ok w => toString w
      | .error e => showErr e
    | _, _, _, _ => "bad-op"
  | "cv" :: cap :: rest =>
    let capv : Option (Option Int) := if cap = "-" then some none else (parseInt? cap).map some
    match capv, takeList parseInt? rest with
    | some capv, some (intfs, rest) =>
      match takeList parseNat? rest with
      | some (mv, rest) =>
        match takeList parseInt? rest with
        | some (ops, []) => showExcept (cvVector ops intfs (mv.map (· = 1)) capv)
        | _ => "bad-op"
      | none => "bad-op"
    | _, _ => "bad-op"
  | "cvminus" :: b :: rest =>
    match parseInt? b, takeList parseInt? rest with
    | some b, some (ops, []) => showExcept (cvMinus ops b)
    | _, _ => "bad-op"
  | _ => "bad-op"

/-! ### extension ops (Model/WFExt.lean) -/

def optInt? (s : String) : Option (Option Int) := if s = "-" then some none else (parseInt? s).map some
def optNat? (s : String) : Option (Option Nat) := if s = "-" then some none else (parseNat? s).map some
def optRat? (s : String) : Option (Option Rat) := if s = "-" then some none else (parseRat? s).map some

def parseMove? (s : String) : Option Move :=
  if s = "wf" then some .wf else if s = "ss" then some .ss else if s = "sh" then some .sh else none

def showBranch : Branch → String
  | .jump => "J" | .openL => "L" | .openR => "R" | .abortRR => "A" | .close => "C" | .none => "N"

def showB (b : Bool) : String := if b then "1" else "0"

def showExceptNat (r : Except Err Nat) : String :=
  match r with
  | .ok w => toString w
  | .error e => showErr e

/-- `k` length-prefixed integer lists -/
def takeLists : Nat → List String → Option (List (List Int) × List String)
  | 0, rest => some ([], rest)
  | k + 1, rest =>
    match takeList parseInt? rest with
    | none => none
    | some (xs, rest) =>
      match takeLists k rest with
      | none => none
      | some (xss, rest) => some (xs :: xss, rest)

def showSegX (s : Seg) : String :=
  s!"{if s.frames.isEmpty then 0 else s.first} | {showList toString s.frames} | {match s.maxlen with | some m => toString m | none => "-"} | {showB s.copied}"

def showOptW (w : Option (List Nat)) : String :=
  match w with
  | some ws => "[" ++ showList toString ws ++ "]"
  | none => "-"

/-- `m` pairs `ens lm1` -/
def takeKeys : Nat → List String → Option (List (Int × Option Int) × List String)
  | 0, rest => some ([], rest)
  | m + 1, e :: l :: rest =>
    match parseInt? e, optInt? l, takeKeys m rest with
    | some e, some l, some (ks, rest) => some ((e, l) :: ks, rest)
    | _, _, _ => none
  | _ + 1, _ => none

def handleExt (toks : List String) : Option String :=
  match toks with
  | "trace" :: l :: r :: rest =>
    match parseInt? l, parseInt? r, takeList parseInt? rest with
    | some l, some r, some (ops, []) =>
      let tr := trace l r ops
      let f := traceFinal l r ops
      some (showList (fun (x : Branch × Scan) =>
          s!"{showBranch x.1}:{showB x.2.keyL}:{showB x.2.keyR}:{x.2.isave}:{x.2.arr.length}") tr
        ++ s!" | {sumLens f.arr} | {showList showSeg f.arr}")
    | _, _, _ => some "bad-op"
  | "wpick" :: ml :: l :: r :: rs :: xi :: rest =>
    match optNat? ml, parseInt? l, parseInt? r, optRat? xi, takeList parseInt? rest with
    | some ml, some l, some r, some xi, some (ops, []) =>
      match wfWeightAndPick ml l r ops (rs = "1") xi with
      | .ok o => some s!"{o.nFrames} | {showSegX o.seg} | {o.draws}"
      | .error e => some (showErr e)
    | _, _, _, _, _ => some "bad-op"
  | "wfseed2" :: ml :: i1 :: i2 :: cap :: xi :: rest =>
    match optNat? ml, parseInt? i1, parseInt? i2, optInt? cap, parseRat? xi, takeList parseInt? rest with
    | some ml, some i1, some i2, some cap, some xi, some (ops, []) =>
      match wfSeed ml i1 i2 cap ops xi with
      | .ok (some (sub, sg)) => some s!"{showList toString sub} | {showSegX sg}"
      | .ok none => some "none"
      | .error e => some (showErr e)
    | _, _, _, _, _, _ => some "bad-op"
  | "cwm" :: i0 :: i1 :: i2 :: mv :: rest =>
    match parseInt? i0, parseInt? i1, parseInt? i2, parseMove? mv, takeList parseInt? rest with
    | some i0, some i1, some i2, some mv, some (ops, []) => some (showExceptNat (computeWeightM ops i0 i1 i2 mv))
    | _, _, _, _, _ => some "bad-op"
  | "cvfull" :: minus :: lm1 :: cap :: rest =>
    match optInt? lm1, optInt? cap, takeList parseInt? rest with
    | some lm1, some cap, some (intfs, rest) =>
      match takeList parseMove? rest with
      | some (mv, rest) =>
        match takeList parseInt? rest with
        | some (ops, []) =>
          some (showExcept (calcCvVector ops { interfaces := intfs, moves := mv, lm1 := lm1, cap := cap, minus := minus = "1" }))
        | _ => some "bad-op"
      | none => some "bad-op"
    | _, _, _ => some "bad-op"
  | "cvcols" :: minus :: lm1 :: cap :: rest =>
    -- frames carrying several order-parameter columns: `k` frames, each a length-prefixed list
    match optInt? lm1, optInt? cap, takeList parseInt? rest with
    | some lm1, some cap, some (intfs, rest) =>
      match takeList parseMove? rest with
      | some (mv, k :: rest) =>
        match parseNat? k with
        | some k =>
          match takeLists k rest with
          | some (frames, []) =>
            match col0 frames with
            | .ok ops =>
              some (showExcept (calcCvVector ops { interfaces := intfs, moves := mv, lm1 := lm1, cap := cap, minus := minus = "1" }))
            | .error e => some (showErr e)
          | _ => some "bad-op"
        | none => some "bad-op"
      | _ => some "bad-op"
    | _, _, _ => some "bad-op"
  | "has" :: a0 :: a1 :: a2 :: b0 :: b1 :: b2 :: m0 :: m1 :: xi :: rest =>
    match parseInt? a0, parseInt? a1, parseInt? a2, parseInt? b0, parseInt? b1, parseInt? b2 with
    | some a0, some a1, some a2, some b0, some b1, some b2 =>
      match parseMove? m0, parseMove? m1, parseRat? xi, takeLists 2 rest with
      | some m0, some m1, some xi, some ([pa, pb], []) =>
        match highAccSwap pa pb a0 a1 a2 b0 b1 b2 m0 m1 xi with
        | .ok o => some s!"{showB o.accept} {showRat o.ratio}"
        | .error e => some (showErr e)
      | _, _, _, _ => some "bad-op"
    | _, _, _, _, _, _ => some "bad-op"
  | "loadw" :: lm1 :: cap :: rest =>
    match optInt? lm1, optInt? cap, takeList parseInt? rest with
    | some lm1, some cap, some (intfs, rest) =>
      match takeList parseMove? rest with
      | some (mv, k :: rest) =>
        match parseNat? k with
        | some k =>
          match takeLists k rest with
          | some (paths, []) =>
            match loadPathsWeights intfs mv lm1 cap paths with
            | .ok wss => some (showList (fun ws => "[" ++ showList toString ws ++ "]") wss)
            | .error e => some (showErr e)
          | _ => some "bad-op"
        | none => some "bad-op"
      | _ => some "bad-op"
    | _, _, _ => some "bad-op"
  | "mdw" :: lm1 :: cap :: ens :: rest =>
    match optInt? lm1, optInt? cap, parseInt? ens, takeList parseInt? rest with
    | some lm1, some cap, some ens, some (intfs, rest) =>
      match takeList parseMove? rest with
      | some (mv, rest) =>
        match takeList parseInt? rest with
        | some (ops, []) => some (showExcept (runMdWeights intfs mv lm1 cap ens ops))
        | _ => some "bad-op"
      | none => some "bad-op"
    | _, _, _, _ => some "bad-op"
  | "subtw" :: l :: m :: r :: cap :: mv :: rest =>
    match parseInt? l, parseInt? m, parseInt? r, optInt? cap, parseMove? mv, takeList parseInt? rest with
    | some l, some m, some r, some cap, some mv, some (ops, []) => some (showExceptNat (subtWeight l m r cap mv ops))
    | _, _, _, _, _, _ => some "bad-op"
  | "specsegs" :: l :: r :: rest =>
    match parseInt? l, parseInt? r, takeList parseInt? rest with
    | some l, some r, some (ops, []) => some (showList showSeg (specSegs l r ops))
    | _, _, _ => some "bad-op"
  | "loadwn" :: size :: lm1 :: cap :: rest =>
    -- load_paths with the state's own size (audit): `-` = a path that was never looked at
    match parseNat? size, optInt? lm1, optInt? cap, takeList parseInt? rest with
    | some size, some lm1, some cap, some (intfs, rest) =>
      match takeList parseMove? rest with
      | some (mv, k :: rest) =>
        match parseNat? k with
        | some k =>
          match takeLists k rest with
          | some (paths, []) =>
            match loadPathsWeightsN size intfs mv lm1 cap paths with
            | .ok wss => some (showList showOptW wss)
            | .error e => some (showErr e)
          | _ => some "bad-op"
        | none => some "bad-op"
      | _ => some "bad-op"
    | _, _, _, _ => some "bad-op"
  | "mdall" :: acc :: cap :: rest =>
    -- run_md over all its trials: k trials (length-prefixed lists), then m keys `ens lm1`
    match optInt? cap, takeList parseInt? rest with
    | some cap, some (intfs, rest) =>
      match takeList parseMove? rest with
      | some (mv, k :: rest) =>
        match parseNat? k with
        | some k =>
          match takeLists k rest with
          | some (trials, m :: rest) =>
            match parseNat? m with
            | some m =>
              match takeKeys m rest with
              | some (keys, []) =>
                match runMdAll intfs mv cap (acc = "1") trials keys with
                | .ok wss => some (showList showOptW wss)
                | .error e => some (showErr e)
              | _ => some "bad-op"
            | none => some "bad-op"
          | _ => some "bad-op"
        | none => some "bad-op"
      | _ => some "bad-op"
    | _, _ => some "bad-op"
  | _ => none

def handleAll (toks : List String) : String :=
  match handleExt toks with
  | some s => s
  | none => handle toks

def main : IO Unit := mainWith handleAll
