import Infretis.Model.Proto
import Infretis.Model.WF
open Infretis Infretis.Proto Infretis.WF

def showSeg (s : Nat × Nat × Nat) : String := s!"{s.1},{s.2.1},{s.2.2}"

def showErr : Err → String
  | .assert => "err:assert" | .index => "err:index" | .value => "err:value"

def showExcept (r : Except Err (List Nat)) : String :=
  match r with
  | .ok ws => showList toString ws
  | .error e => showErr e

def handle (toks : List String) : String :=
  match toks with
  | "weight" :: l :: r :: rest =>
    match parseInt? l, parseInt? r, takeList parseInt? rest with
    | some l, some r, some (ops, []) =>
      let s := scan l r ops
      s!"{sumLens s.arr} | {showList showSeg s.arr}"
    | _, _, _ => "bad-op"
  | "spec" :: l :: r :: rest =>
    match parseInt? l, parseInt? r, takeList parseInt? rest with
    | some l, some r, some (ops, []) => toString (specWeight l r ops)
    | _, _, _ => "bad-op"
  | "pick" :: l :: r :: xi :: rest =>
    match parseInt? l, parseInt? r, parseRat? xi, takeList parseInt? rest with
    | some l, some r, some xi, some (ops, []) =>
      match pick l r ops xi with
      | some s => showSeg s
      | none => "none"
    | _, _, _, _ => "bad-op"
  | "wfseed" :: i1 :: i2 :: cap :: xi :: rest =>
    let capv : Option (Option Int) := if cap = "-" then some none else (parseInt? cap).map some
    match parseInt? i1, parseInt? i2, capv, parseRat? xi, takeList parseInt? rest with
    | some i1, some i2, some capv, some xi, some (ops, []) =>
      match wfMoveSeed i1 i2 capv ops xi with
      | some m => s!"{showList toString m.subIntf} | {showSeg m.seg}"
      | none => "none"
    | _, _, _, _, _ => "bad-op"
  | "cw" :: i0 :: i1 :: i2 :: wf :: rest =>
    match parseInt? i0, parseInt? i1, parseInt? i2, takeList parseInt? rest with
    | some i0, some i1, some i2, some (ops, []) =>
      match computeWeight ops i0 i1 i2 (wf = "1") with
      | .ok w => toString w
      | .error e => showErr e
    | _, _, _, _ => "bad-op"
  | "cv" :: cap :: rest =>
    let capv : Option (Option Int) := if cap = "-" then some none else (parseInt? cap).map some
    match capv, takeList parseInt? rest with
    | some capv, some (intfs, rest) =>
      match takeList parseNat? rest with
      | some (mv, rest) =>
        match takeList parseInt? rest with
        | some (ops, []) => showExcept (cvVector ops intfs (mv.map (· = 1)) capv)
        | _ => "bad-op"
      | none => "bad-op"
    | _, _ => "bad-op"
  | "cvminus" :: b :: rest =>
    match parseInt? b, takeList parseInt? rest with
    | some b, some (ops, []) => showExcept (cvMinus ops b)
    | _, _ => "bad-op"
  | _ => "bad-op"

def main : IO Unit := mainWith handle
