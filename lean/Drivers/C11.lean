import Infretis.Model.Proto
import Infretis.Model.ZeroSwap
import Infretis.Model.ZeroSwapAlg
open Infretis Infretis.Proto Infretis.ZeroSwap

/-
Line protocol of the C11 driver.
  frame     := op,x,v,vr,vpot          (vr 0/1, vpot int or -)
  genframe  := op,x,v,vpot
  ens       := i0 i1 i2 maxlen scL scR wf cap      (cap int or -)
  script    := v0 list<genframe>
  retis    ens0 ens1 list<frame> list<frame> script script xi
  quantis  ens0 ens1 list<frame> list<frame> script script script script acceptAll beta0 beta1 xi p
  retisdet a k n ens0 ens1 list<frame> list<frame> xi       (double-well leap-frog engine, op = x)
  retisdetv a k n ens0 ens1 list<frame> list<frame> xi      (same engine, order parameter 2x+v of the PHYSICAL phase point)
  qpaste   list<frame>back list<frame>tmp0 list<frame>tmp1 list<frame>forw maxlen0 maxlen1
           (the two paste_paths calls of quantis through C15's PathAlg.paste / Path.reverse on a heap)
  qfields  status                 (spec: status fields of the two paths quantis returns)
  rtable   s0 s1 wfAny hasAcc     (spec: returned status and [0+] status field of retis_swap_zero)
  inprocframes sub maxlen ase     (in-process engine that nothing stops, empty path of maxlen: "<frames> <success>")
  qlm1cfg quantis lm1             (lm1 rational or - : "reject" | "pass <L in start_cond of [0-]> <R in …>")
answer:
  accept status st0 st1 w0 w1 draws expArg | list<frame> | list<frame> | list<req> | at=<requests before the ξ draw or ->
  or err:<kind>
-/

def optInt? (s : String) : Option (Option Int) :=
  if s = "-" then some none else (parseInt? s).map some

def showOptInt : Option Int → String
  | none => "-" | some i => toString i

def parseBool? (s : String) : Option Bool :=
  if s = "1" then some true else if s = "0" then some false else none

def parseFrame? (s : String) : Option Frame :=
  match s.splitOn "," with
  | [a, b, c, d, e] =>
    match parseInt? a, parseInt? b, parseInt? c, parseBool? d, optInt? e with
    | some op, some x, some v, some vr, some vp => some { op := op, cfg := ⟨x, v⟩, vr := vr, vpot := vp }
    | _, _, _, _, _ => none
  | _ => none

def parseGen? (s : String) : Option GenFrame :=
  match s.splitOn "," with
  | [a, b, c, e] =>
    match parseInt? a, parseInt? b, parseInt? c, optInt? e with
    | some op, some x, some v, some vp => some { op := op, cfg := ⟨x, v⟩, vpot := vp }
    | _, _, _, _ => none
  | _ => none

def showFrame (f : Frame) : String :=
  s!"{f.op},{f.cfg.x},{f.cfg.v},{if f.vr then 1 else 0},{showOptInt f.vpot}"

def showReq : Req → String
  | .propagate e r op c m l rr f => s!"P:{e}:{if r then 1 else 0}:{op}:{c.x}:{c.v}:{m}:{l}:{rr}:{if f then "copy" else "OLD"}"
  | .dump e t c f => s!"D:{e}:{t}:{c.x}:{c.v}:{if f then "copy" else "OLD"}"

def takeEns : List String → Option (Ens × List String)
  | a :: b :: c :: m :: l :: r :: w :: cap :: rest =>
    match parseInt? a, parseInt? b, parseInt? c, parseNat? m, parseBool? l, parseBool? r, parseBool? w, optInt? cap with
    | some a, some b, some c, some m, some l, some r, some w, some cap =>
      some ({ i0 := a, i1 := b, i2 := c, maxlen := m, scL := l, scR := r, wf := w, cap := cap }, rest)
    | _, _, _, _, _, _, _, _ => none
  | _ => none

def takeScript : List String → Option (Script × List String)
  | v0 :: rest =>
    match optInt? v0, takeList parseGen? rest with
    | some v0, some (fs, rest) => some ({ v0 := v0, rest := fs }, rest)
    | _, _ => none
  | _ => none

def showErr : Err → String
  | .assert => "err:assert" | .index => "err:index" | .type => "err:type" | .value => "err:value"

def showAt : Option Nat → String
  | none => "at=-" | some n => s!"at={n}"

def parseStatus? (s : String) : Option Status :=
  [Status.none, .ACC, .BTX, .BTS, .ZL, .FTX, .FTS, .HAS, .QNE, .QLL, .QS0, .QS1, .QEA, .QRS, .QLR, .ZR].find?
    (fun st => st.str == s)

def showRes (pos : Result → Option Nat) (r : Except Err Result) : String :=
  match r with
  | .error e => showErr e
  | .ok r =>
    let ea := match r.expArg with | none => "-" | some q => showRat q
    s!"{if r.accept then 1 else 0} {r.status.str} {r.st0.str} {r.st1.str} {r.w0} {r.w1} {r.draws} {ea} | " ++
    showList showFrame r.path0 ++ " | " ++ showList showFrame r.path1 ++ " | " ++ showList showReq r.reqs ++
    " | " ++ showAt (pos r)

def handle (toks : List String) : String :=
  match toks with
  | "retis" :: rest =>
    match takeEns rest with
    | some (e0, rest) =>
      match takeEns rest with
      | some (e1, rest) =>
        match takeList parseFrame? rest with
        | some (old0, rest) =>
          match takeList parseFrame? rest with
          | some (old1, rest) =>
            match takeScript rest with
            | some (bw, rest) =>
              match takeScript rest with
              | some (fw, [xi]) =>
                match parseRat? xi with
                | some xi => showRes retisDrawAt (retisSwapZero e0 e1 old0 old1 bw fw xi)
                | none => "bad-op"
              | _ => "bad-op"
            | none => "bad-op"
          | none => "bad-op"
        | none => "bad-op"
      | none => "bad-op"
    | none => "bad-op"
  | "retisdet" :: a :: k :: n :: rest =>
    match parseInt? a, parseInt? k, parseNat? n, takeEns rest with
    | some a, some k, some n, some (e0, rest) =>
      match takeEns rest with
      | some (e1, rest) =>
        match takeList parseFrame? rest with
        | some (old0, rest) =>
          match takeList parseFrame? rest with
          | some (old1, [xi]) =>
            match parseRat? xi with
            | some xi => showRes retisDrawAt (retisSwapZeroDet (dwStep a k) (·.x) (fun _ => some 0) n e0 e1 old0 old1 xi)
            | none => "bad-op"
          | _ => "bad-op"
        | none => "bad-op"
      | none => "bad-op"
    | _, _, _, _ => "bad-op"
  | "retisdetv" :: a :: k :: n :: rest =>
    match parseInt? a, parseInt? k, parseNat? n, takeEns rest with
    | some a, some k, some n, some (e0, rest) =>
      match takeEns rest with
      | some (e1, rest) =>
        match takeList parseFrame? rest with
        | some (old0, rest) =>
          match takeList parseFrame? rest with
          | some (old1, [xi]) =>
            match parseRat? xi with
            | some xi => showRes retisDrawAt
                (retisSwapZeroDetV (dwStep a k) (fun c => 2 * c.x + c.v) (fun _ => some 0) n e0 e1 old0 old1 xi)
            | none => "bad-op"
          | _ => "bad-op"
        | none => "bad-op"
      | none => "bad-op"
    | _, _, _, _ => "bad-op"
  | "qpaste" :: rest =>
    match takeList parseFrame? rest with
    | some (back, rest) =>
      match takeList parseFrame? rest with
      | some (tmp0, rest) =>
        match takeList parseFrame? rest with
        | some (tmp1, rest) =>
          match takeList parseFrame? rest with
          | some (forw, [m0, m1]) =>
            match parseNat? m0, parseNat? m1 with
            | some m0, some m1 =>
              match quantisPasteRun back tmp0 tmp1 forw m0 m1 with
              | some ((f0, t0), (f1, t1)) =>
                showList showFrame f0 ++ s!" {t0} | " ++ showList showFrame f1 ++ s!" {t1}"
              | none => "none"
            | _, _ => "bad-op"
          | _ => "bad-op"
        | none => "bad-op"
      | none => "bad-op"
    | none => "bad-op"
  | ["qfields", st] =>
    match parseStatus? st with
    | some st => let f := quantisFields st; s!"{f.1.str} {f.2.str}"
    | none => "bad-op"
  | ["rtable", s0, s1, wf, a] =>
    match parseStatus? s0, parseStatus? s1, parseBool? wf, parseBool? a with
    | some s0, some s1, some wf, some a =>
      let t := retisTable s0 s1 wf a
      s!"{t.str} {(retisField1 s1 t).str}"
    | _, _, _, _ => "bad-op"
  | ["qlm1cfg", q, lm1] =>
    match parseBool? q, (if lm1 = "-" then some none else (parseRat? lm1).map some) with
    | some q, some lm1 =>
      if configRejectsQuantisLm1 q lm1 then "reject"
      else let sc := zeroMinusStartCond lm1; s!"pass {if sc.1 then 1 else 0} {if sc.2 then 1 else 0}"
    | _, _ => "bad-op"
  | ["inprocframes", sub, n, ase] =>
    match parseNat? sub, parseNat? n, parseBool? ase with
    | some sub, some n, some ase =>
      match inprocFill sub n ase with
      | some (k, s) => s!"{k} {if s then 1 else 0}"
      | none => "err:IndexError"
    | _, _, _ => "bad-op"
  | "quantis" :: rest =>
    match takeEns rest with
    | some (e0, rest) =>
      match takeEns rest with
      | some (e1, rest) =>
        match takeList parseFrame? rest with
        | some (old0, rest) =>
          match takeList parseFrame? rest with
          | some (old1, rest) =>
            match takeScript rest with
            | some (sa, rest) =>
              match takeScript rest with
              | some (sb, rest) =>
                match takeScript rest with
                | some (sc, rest) =>
                  match takeScript rest with
                  | some (sd, [aa, b0, b1, xi, p]) =>
                    match parseBool? aa, parseRat? b0, parseRat? b1, parseRat? xi, parseRat? p with
                    | some aa, some b0, some b1, some xi, some p =>
                      showRes quantisDrawAt (quantisSwapZero e0 e1 old0 old1 sa sb sc sd aa b0 b1 xi p)
                    | _, _, _, _, _ => "bad-op"
                  | _ => "bad-op"
                | none => "bad-op"
              | none => "bad-op"
            | none => "bad-op"
          | none => "bad-op"
        | none => "bad-op"
      | none => "bad-op"
    | none => "bad-op"
  | _ => "bad-op"

def main : IO Unit := mainWith handle
