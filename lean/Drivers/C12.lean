import Infretis.Model.Proto
import Infretis.Model.AddToPath
import Infretis.Model.EngineLoops
import Infretis.Model.EnginePropagate
import Infretis.Model.EngineFault
open Infretis Infretis.Proto Infretis.Engine Infretis.EngineLoops Infretis.EnginePropagate Infretis.EngineFault

/-
Requests (all numbers are integers; order values/interfaces are pre-scaled by the harness):

  add  <maxlen|-> <left> <right> <x> <n> ops…                       → addToPath
  feed <maxlen|-> <left> <right> <n> ops… <m> stream…               → feed
  ext  <lammps-asis|lammps-rep|cp2k:<box0>> <left> <right> <maxlen> <rev> <code> <fuel>
       <n> (cid bid vel)…   <m> (file vis vis2 alive)…   <q> (cid bid value)…
  inproc <ase 0|1> <left> <right> <maxlen> <rev> <sub> <n> (cid bid vel)… <q> (cid bid value)…
  gmx  <asis|rep> <left> <right> <maxlen> <rev> <n> (cid bid vel)… <q> (cid bid value)…
  gmxext <asis|rep> <left> <right> <maxlen> <rev> <code> <need0> <fuel> <n> (cid bid vel)… <m> (file vis vis2 alive)… <q> (cid bid value)…

extension pass (Model/EnginePropagate.lean); <pt> = <file: u<n>|conf|rconf|traj> <idx|-> <velRev 0|1>
  exec <rc>                                                          → execCommand
  propsetup <reverse> <pt>                                           → propagateSetup
  calcorder <hasfn> <velRev> <xyz|-> <vel|-> <box|-> <fcid> <fbid> <fvel> <q> (cid bid value)…   → calcOrder (ord = table + vel)
  snap <order|-> <pos> <vel> <vpot|-> <ekin|-> <file> <idx|-> <velRev>   <order|-> <pos> <vel> <vpot|-> <ekin|-> <cfg 0|1> <file> <idx|-> <velRev|->   → snapshotToSystem
  propinproc <ase> <left> <right> <maxlen> <reverse> <sub> <pt> <n> (cid bid vel)… <q> (cid bid value)…
        the point's file holds the n frames; dynamics = free flight `cid += vel / 2` per step     → propagateInproc
  cp2ktraj   (the arguments of `ext` with a cp2k kind)                → cp2kTrajFile of extRun's path
  propgmx <asis|rep> <left> <right> <maxlen> <reverse> <code> <need0> <fuel> <gromppRc> <energyRc> <pt>
          <ns> (cid bid vel)… <n> (cid bid vel)… <m> (file vis vis2 alive)… <q> (cid bid value)…
        the point's file holds the ns frames; mdrun writes the n frames                           → propagateGmx

audit pass (Model/EngineFault.lean)
  extf <asis|guarded> <fault k|-> (the arguments of `ext`)            → extRunF; first token `err:body` when the body's
                                                                        exception left `_propagate_from`
-/

def showStatus : Option PStatus → String
  | none => "init"
  | some .running => "running"
  | some .crossedLeft => "left"
  | some .crossedRight => "right"
  | some .maxLenNoAdd => "maxlen-noadd"
  | some .maxLen => "maxlen"

def showErr : Option Err → String
  | none => "ok"
  | some .index => "err:index"
  | some .runtime => "err:runtime"
  | some .unbound => "err:unbound"
  | some .attr => "err:attr"
  | some .fuel => "err:fuel"

def b01 (b : Bool) : String := if b then "1" else "0"

def showEntry (e : Entry) : String := s!"{e.idx},{e.cid},{e.bid},{e.vel},{e.order}"

def showResult (r : Result) : String :=
  s!"{showErr r.raised} {b01 r.success} {showStatus r.status} {b01 r.killed} {b01 r.dead} {b01 r.multi} {r.ticks} | {showList showEntry r.es}"

/-- take `3·n` tokens as n triples -/
def takeTriples : List String → Option (List (Int × Int × Int) × List String)
  | [] => none
  | n :: rest =>
    match parseNat? n with
    | none => none
    | some k =>
      if rest.length < 3 * k then none
      else
        let rec go : Nat → List String → List (Int × Int × Int) → Option (List (Int × Int × Int))
          | 0, _, acc => some acc.reverse
          | j + 1, a :: b :: c :: t, acc =>
            match parseInt? a, parseInt? b, parseInt? c with
            | some a, some b, some c => go j t ((a, b, c) :: acc)
            | _, _, _ => none
          | _, _, _ => none
        match go k rest [] with
        | none => none
        | some xs => some (xs, rest.drop (3 * k))

def takeQuads : List String → Option (List (Int × Int × Int × Int) × List String)
  | [] => none
  | n :: rest =>
    match parseNat? n with
    | none => none
    | some k =>
      if rest.length < 4 * k then none
      else
        let rec go : Nat → List String → List (Int × Int × Int × Int) → Option (List (Int × Int × Int × Int))
          | 0, _, acc => some acc.reverse
          | j + 1, a :: b :: c :: d :: t, acc =>
            match parseInt? a, parseInt? b, parseInt? c, parseInt? d with
            | some a, some b, some c, some d => go j t ((a, b, c, d) :: acc)
            | _, _, _, _ => none
          | _, _, _ => none
        match go k rest [] with
        | none => none
        | some xs => some (xs, rest.drop (4 * k))

def toFrames (xs : List (Int × Int × Int)) : List Frame :=
  xs.map (fun (a, b, c) => { cid := a.toNat, bid := b.toNat, vel := c })

def tableOrd (tab : List (Int × Int × Int)) : Nat → Nat → Int → Int :=
  fun cid bid _ =>
    match tab.find? (fun (a, b, _) => a = (cid : Int) ∧ b = (bid : Int)) with
    | some (_, _, v) => v
    | none => 0

def toSched (ws : List (Int × Int × Int × Int)) : Sched :=
  let arr := ws.map (fun (f, v, v2, a) => ({ file := f ≠ 0, vis := v.toNat, vis2 := v2.toNat, alive := a ≠ 0 } : World))
  fun t =>
    match arr[t]? with
    | some w => w
    | none => match arr.getLast? with
      | some w => w
      | none => { file := false, vis := 0, vis2 := 0, alive := false }

def parseKind (s : String) : Option Kind :=
  if s = "lammps-asis" then some (.lammps .asIs)
  else if s = "lammps-rep" then some (.lammps .repaired)
  else match s.splitOn ":" with
    | ["cp2k", b] => (parseNat? b).map Kind.cp2k
    | _ => none

def parseMaxlen (s : String) : Option (Option Nat) :=
  if s = "-" then some none else (parseNat? s).map some

def showAdd (r : AddResult) : String :=
  s!"{showStatus (some r.status)} {b01 r.success} {b01 r.stop} {b01 r.added}"

def handle (toks : List String) : String :=
  match toks with
  | "add" :: ml :: l :: r :: x :: rest =>
    match parseMaxlen ml, parseInt? l, parseInt? r, parseInt? x, takeList parseInt? rest with
    | some ml, some l, some r, some x, some (ops, []) =>
      match addToPath ops ml x l r with
      | none => "err:index"
      | some (ops', res) => s!"{showAdd res} | {showList toString ops'}"
    | _, _, _, _, _ => "bad-op"
  | "feed" :: ml :: l :: r :: rest =>
    match parseMaxlen ml, parseInt? l, parseInt? r, takeList parseInt? rest with
    | some ml, some l, some r, some (ops, rest) =>
      match takeList parseInt? rest with
      | some (stream, []) =>
        match feed l r ml ops stream 0 with
        | none => "err:index"
        | some (ops', succ, k) => s!"{b01 succ} {k} | {showList toString ops'}"
      | _ => "bad-op"
    | _, _, _, _ => "bad-op"
  | "ext" :: kind :: l :: r :: ml :: rev :: code :: fuel :: rest =>
    match parseKind kind, parseInt? l, parseInt? r, parseNat? ml, parseInt? code, parseNat? fuel, takeTriples rest with
    | some k, some l, some r, some ml, some code, some fuel, some (fr, rest) =>
      match takeQuads rest with
      | some (ws, rest) =>
        match takeTriples rest with
        | some (tab, []) =>
          let c : Cfg := { ord := tableOrd tab, left := l, right := r, maxlen := ml, rev := rev = "1" }
          showResult (extRun k c (toSched ws) code (toFrames fr) fuel)
        | _ => "bad-op"
      | none => "bad-op"
    | _, _, _, _, _, _, _ => "bad-op"
  | "inproc" :: ase :: l :: r :: ml :: rev :: sub :: rest =>
    match parseInt? l, parseInt? r, parseNat? ml, parseNat? sub, takeTriples rest with
    | some l, some r, some ml, some sub, some (fr, rest) =>
      match takeTriples rest with
      | some (tab, []) =>
        let c : Cfg := { ord := tableOrd tab, left := l, right := r, maxlen := ml, rev := rev = "1" }
        let frames := toFrames fr
        let micro : Nat → Frame := fun i =>
          match frames[i]? with
          | some f => f
          | none => { cid := 0, bid := 0, vel := 0 }
        showResult (inproc c sub micro (ase = "1"))
      | _ => "bad-op"
    | _, _, _, _, _ => "bad-op"
  | "gmxext" :: gv :: l :: r :: ml :: rev :: code :: need0 :: fuel :: rest =>
    match parseInt? l, parseInt? r, parseNat? ml, parseInt? code, parseNat? need0, parseNat? fuel, takeTriples rest with
    | some l, some r, some ml, some code, some need0, some fuel, some (fr, rest) =>
      match takeQuads rest with
      | some (ws, rest) =>
        match takeTriples rest with
        | some (tab, []) =>
          let c : Cfg := { ord := tableOrd tab, left := l, right := r, maxlen := ml, rev := rev = "1" }
          showResult (gmxExt (if gv = "rep" then .repaired else .asIs) c (toSched ws) code need0 (toFrames fr) fuel)
        | _ => "bad-op"
      | none => "bad-op"
    | _, _, _, _, _, _, _ => "bad-op"
  | "gmx" :: gv :: l :: r :: ml :: rev :: rest =>
    match parseInt? l, parseInt? r, parseNat? ml, takeTriples rest with
    | some l, some r, some ml, some (fr, rest) =>
      match takeTriples rest with
      | some (tab, []) =>
        let c : Cfg := { ord := tableOrd tab, left := l, right := r, maxlen := ml, rev := rev = "1" }
        showResult (gmxRun (if gv = "rep" then .repaired else .asIs) c (toFrames fr))
      | _ => "bad-op"
    | _, _, _, _ => "bad-op"
  | _ => "bad-op"

def showFName : FName → String
  | .user n => s!"u{n}"
  | .conf => "conf"
  | .rconf => "rconf"
  | .traj => "traj"

def parseFName (s : String) : Option FName :=
  if s = "conf" then some .conf else if s = "rconf" then some .rconf else if s = "traj" then some .traj
  else if s.startsWith "u" then (parseNat? (String.ofList (s.toList.drop 1))).map FName.user else none

def showCall : Call → String
  | .copy a b => s!"copy:{showFName a}:{showFName b}"
  | .extract a i b => s!"extract:{showFName a}:{i}:{showFName b}"
  | .reverse a b => s!"reverse:{showFName a}:{showFName b}"

def showOptNat : Option Nat → String
  | none => "-"
  | some n => toString n

def showOptInt : Option Int → String
  | none => "-"
  | some n => toString n

def parseOptNat (s : String) : Option (Option Nat) := if s = "-" then some none else (parseNat? s).map some
def parseOptInt (s : String) : Option (Option Int) := if s = "-" then some none else (parseInt? s).map some

def parsePoint (f i v : String) : Option Point :=
  match parseFName f, parseOptNat i with
  | some f, some i => some { file := f, idx := i, velRev := v = "1" }
  | _, _ => none

def showSetup (su : Setup) : String :=
  s!"{showList showCall su.calls} {showFName su.initialConf} {showFName su.sys.file} {showOptNat su.sys.idx} {b01 su.sys.velRev} {b01 su.backward}"

/-- the harness's free flight: half a velocity unit per step (timestep 0.5) -/
def flightStep (f : Frame) : Frame := { f with cid := (f.cid + f.vel / 2).toNat }

def storeOf (file : FName) (fr : List Frame) : Store := fun n => if n = file then fr else []

def showFrame (f : Frame) : String := s!"{f.cid},{f.bid},{f.vel}"

def handle2 (toks : List String) : String :=
  match toks with
  | ["exec", rc] =>
    match parseInt? rc with
    | some rc => let r := execCommand rc; s!"{b01 r.raised} {showOptInt r.ret} {b01 r.logsKept}"
    | none => "bad-op"
  | ["propsetup", rev, f, i, v] =>
    match parsePoint f i v with
    | some p => showSetup (propagateSetup (rev = "1") p)
    | none => "bad-op"
  | "calcorder" :: hasfn :: vr :: x :: v :: b :: fc :: fb :: fv :: rest =>
    match parseOptNat x, parseOptInt v, parseOptNat b, parseNat? fc, parseNat? fb, parseInt? fv, takeTriples rest with
    | some x, some v, some b, some fc, some fb, some fv, some (tab, []) =>
      let o : Option (Nat → Nat → Int → Int) :=
        if hasfn = "1" then some (fun c b w => 1000 * tableOrd tab c b w + w) else none
      match calcOrder o (vr = "1") x v b { cid := fc, bid := fb, vel := fv } with
      | none => "err:value"
      | some r => toString r
    | _, _, _, _, _, _, _ => "bad-op"
  | ["snap", o, hp, hv, vp, ek, cf, ci, vr, so, shp, shv, svp, sek, scfg, scf, sci, svr] =>
    match parseOptInt o, parseOptInt vp, parseOptInt ek, parseNat? cf, parseOptNat ci,
          parseOptInt so, parseOptInt svp, parseOptInt sek, parseNat? scf, parseOptNat sci with
    | some o, some vp, some ek, some cf, some ci, some so, some svp, some sek, some scf, some sci =>
      let s : Sys := { order := o, hasPos := hp = "1", hasVel := hv = "1", vpot := vp, ekin := ek, cfgFile := cf, cfgIdx := ci,
                       velRev := vr = "1" }
      let sn : Snapshot := { order := so, hasPos := shp = "1", hasVel := shv = "1", vpot := svp, ekin := sek,
                             config := if scfg = "1" then some (scf, sci) else none,
                             velRev := if svr = "-" then none else some (svr = "1") }
      let r := snapshotToSystem s sn
      s!"{showOptInt r.order} {b01 r.hasPos} {b01 r.hasVel} {showOptInt r.vpot} {showOptInt r.ekin} {r.cfgFile} {showOptNat r.cfgIdx} {b01 r.velRev}"
    | _, _, _, _, _, _, _, _, _, _ => "bad-op"
  | "propinproc" :: ase :: l :: r :: ml :: rev :: sub :: f :: i :: v :: rest =>
    match parseInt? l, parseInt? r, parseNat? ml, parseNat? sub, parsePoint f i v, takeTriples rest with
    | some l, some r, some ml, some sub, some p, some (fr, rest) =>
      match takeTriples rest with
      | some (tab, []) =>
        let c : Cfg := { ord := tableOrd tab, left := l, right := r, maxlen := ml, rev := false }
        match propagateInproc c sub flightStep (ase = "1") (rev = "1") (storeOf p.file (toFrames fr)) p with
        | none => "err:nostart"
        | some o => s!"{showSetup o.setup} | {showResult o.res}"
      | _ => "bad-op"
    | _, _, _, _, _, _ => "bad-op"
  | "cp2ktraj" :: kind :: l :: r :: ml :: rev :: code :: fuel :: rest =>
    match parseKind kind, parseInt? l, parseInt? r, parseNat? ml, parseInt? code, parseNat? fuel, takeTriples rest with
    | some k, some l, some r, some ml, some code, some fuel, some (fr, rest) =>
      match takeQuads rest with
      | some (ws, rest) =>
        match takeTriples rest with
        | some (tab, []) =>
          let c : Cfg := { ord := tableOrd tab, left := l, right := r, maxlen := ml, rev := rev = "1" }
          showList showFrame (cp2kTrajFile c.rev (extRun k c (toSched ws) code (toFrames fr) fuel).es)
        | _ => "bad-op"
      | none => "bad-op"
    | _, _, _, _, _, _, _ => "bad-op"
  | "propgmx" :: gv :: l :: r :: ml :: rev :: code :: need0 :: fuel :: grc :: erc :: f :: i :: v :: rest =>
    match parseInt? l, parseInt? r, parseNat? ml, parseInt? code, parseNat? need0, parseNat? fuel, parseInt? grc, parseInt? erc,
          parsePoint f i v, takeTriples rest with
    | some l, some r, some ml, some code, some need0, some fuel, some grc, some erc, some p, some (sfr, rest) =>
      match takeTriples rest with
      | some (fr, rest) =>
        match takeQuads rest with
        | some (ws, rest) =>
          match takeTriples rest with
          | some (tab, []) =>
            let c : Cfg := { ord := tableOrd tab, left := l, right := r, maxlen := ml, rev := false }
            let frames := toFrames fr
            match propagateGmx (if gv = "rep" then .repaired else .asIs) c (toSched ws) code need0 (fun _ => frames) fuel grc erc
                (rev = "1") (storeOf p.file (toFrames sfr)) p with
            | none => "err:nostart"
            | some o =>
              let st := match startFrame (rev = "1") (storeOf p.file (toFrames sfr)) p with
                | some g => showFrame g
                | none => "-"
              s!"{showSetup o.setup} | {b01 o.started} {st} | {showResult o.res}"
          | _ => "bad-op"
        | none => "bad-op"
      | none => "bad-op"
    | _, _, _, _, _, _, _, _, _, _ => "bad-op"
  | "extf" :: g :: fault :: kind :: l :: r :: ml :: rev :: code :: fuel :: rest =>
    match parseOptNat fault, parseKind kind, parseInt? l, parseInt? r, parseNat? ml, parseInt? code, parseNat? fuel, takeTriples rest with
    | some fault, some k, some l, some r, some ml, some code, some fuel, some (fr, rest) =>
      match takeQuads rest with
      | some (ws, rest) =>
        match takeTriples rest with
        | some (tab, []) =>
          let c : Cfg := { ord := tableOrd tab, left := l, right := r, maxlen := ml, rev := rev = "1" }
          let R := extRunF (if g = "guarded" then .guarded else .asIs) k c (toSched ws) code (toFrames fr) fuel fault
          if R.body then "err:body" ++ (showResult R.res).drop 2 else showResult R.res
        | _ => "bad-op"
      | none => "bad-op"
    | _, _, _, _, _, _, _, _ => "bad-op"
  | _ => handle toks

def main : IO Unit := mainWith handle2
