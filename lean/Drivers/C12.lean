import Infretis.Model.Proto
import Infretis.Model.AddToPath
import Infretis.Model.EngineLoops
open Infretis Infretis.Proto Infretis.Engine Infretis.EngineLoops

/-
Requests (all numbers are integers; order values/interfaces are pre-scaled by the harness):

  add  <maxlen|-> <left> <right> <x> <n> ops…                       → addToPath
  feed <maxlen|-> <left> <right> <n> ops… <m> stream…               → feed
  ext  <lammps-asis|lammps-rep|cp2k:<box0>> <left> <right> <maxlen> <rev> <code> <fuel>
       <n> (cid bid vel)…   <m> (file vis vis2 alive)…   <q> (cid bid value)…
  inproc <ase 0|1> <left> <right> <maxlen> <rev> <sub> <n> (cid bid vel)… <q> (cid bid value)…
  gmx  <asis|rep> <left> <right> <maxlen> <rev> <n> (cid bid vel)… <q> (cid bid value)…
  gmxext <asis|rep> <left> <right> <maxlen> <rev> <code> <need0> <fuel> <n> (cid bid vel)… <m> (file vis vis2 alive)… <q> (cid bid value)…
-/

def showStatus : Option PStatus → String
  | none => "init"
  | some .running => "running"
  | some .crossedLeft => "left"
  | some .crossedRight => "right"
  | some .maxLenNoAdd => "maxlen-noadd"
  | some .maxLen => "maxlen"

def showErr : Option Err → String
  | none => "ok"
  | some .index => "err:index"
  | some .runtime => "err:runtime"
  | some .unbound => "err:unbound"
  | some .attr => "err:attr"
  | some .fuel => "err:fuel"

def b01 (b : Bool) : String := if b then "1" else "0"

def showEntry (e : Entry) : String := s!"{e.idx},{e.cid},{e.bid},{e.vel},{e.order}"

def showResult (r : Result) : String :=
  s!"{showErr r.raised} {b01 r.success} {showStatus r.status} {b01 r.killed} {b01 r.dead} {b01 r.multi} {r.ticks} | {showList showEntry r.es}"

/-- take `3·n` tokens as n triples -/
def takeTriples : List String → Option (List (Int × Int × Int) × List String)
  | [] => none
  | n :: rest =>
    match parseNat? n with
    | none => none
    | some k =>
      if rest.length < 3 * k then none
      else
        let rec go : Nat → List String → List (Int × Int × Int) → Option (List (Int × Int × Int))
          | 0, _, acc => some acc.reverse
          | j + 1, a :: b :: c :: t, acc =>
            match parseInt? a, parseInt? b, parseInt? c with
            | some a, some b, some c => go j t ((a, b, c) :: acc)
            | _, _, _ => none
          | _, _, _ => none
        match go k rest [] with
        | none => none
        | some xs => some (xs, rest.drop (3 * k))

def takeQuads : List String → Option (List (Int × Int × Int × Int) × List String)
  | [] => none
  | n :: rest =>
    match parseNat? n with
    | none => none
    | some k =>
      if rest.length < 4 * k then none
      else
        let rec go : Nat → List String → List (Int × Int × Int × Int) → Option (List (Int × Int × Int × Int))
          | 0, _, acc => some acc.reverse
          | j + 1, a :: b :: c :: d :: t, acc =>
            match parseInt? a, parseInt? b, parseInt? c, parseInt? d with
            | some a, some b, some c, some d => go j t ((a, b, c, d) :: acc)
            | _, _, _, _ => none
          | _, _, _ => none
        match go k rest [] with
        | none => none
        | some xs => some (xs, rest.drop (4 * k))

def toFrames (xs : List (Int × Int × Int)) : List Frame :=
  xs.map (fun (a, b, c) => { cid := a.toNat, bid := b.toNat, vel := c })

def tableOrd (tab : List (Int × Int × Int)) : Nat → Nat → Int → Int :=
  fun cid bid _ =>
    match tab.find? (fun (a, b, _) => a = (cid : Int) ∧ b = (bid : Int)) with
    | some (_, _, v) => v
    | none => 0

def toSched (ws : List (Int × Int × Int × Int)) : Sched :=
  let arr := ws.map (fun (f, v, v2, a) => ({ file := f ≠ 0, vis := v.toNat, vis2 := v2.toNat, alive := a ≠ 0 } : World))
  fun t =>
    match arr[t]? with
    | some w => w
    | none => match arr.getLast? with
      | some w => w
      | none => { file := false, vis := 0, vis2 := 0, alive := false }

def parseKind (s : String) : Option Kind :=
  if s = "lammps-asis" then some (.lammps .asIs)
  else if s = "lammps-rep" then some (.lammps .repaired)
  else match s.splitOn ":" with
    | ["cp2k", b] => (parseNat? b).map Kind.cp2k
    | _ => none

def parseMaxlen (s : String) : Option (Option Nat) :=
  if s = "-" then some none else (parseNat? s).map some

def showAdd (r : AddResult) : String :=
  s!"{showStatus (some r.status)} {b01 r.success} {b01 r.stop} {b01 r.added}"

def handle (toks : List String) : String :=
  match toks with
  | "add" :: ml :: l :: r :: x :: rest =>
    match parseMaxlen ml, parseInt? l, parseInt? r, parseInt? x, takeList parseInt? rest with
    | some ml, some l, some r, some x, some (ops, []) =>
      match addToPath ops ml x l r with
      | none => "err:index"
      | some (ops', res) => s!"{showAdd res} | {showList toString ops'}"
    | _, _, _, _, _ => "bad-op"
  | "feed" :: ml :: l :: r :: rest =>
    match parseMaxlen ml, parseInt? l, parseInt? r, takeList parseInt? rest with
    | some ml, some l, some r, some (ops, rest) =>
      match takeList parseInt? rest with
      | some (stream, []) =>
        match feed l r ml ops stream 0 with
        | none => "err:index"
        | some (ops', succ, k) => s!"{b01 succ} {k} | {showList toString ops'}"
      | _ => "bad-op"
    | _, _, _, _ => "bad-op"
  | "ext" :: kind :: l :: r :: ml :: rev :: code :: fuel :: rest =>
    match parseKind kind, parseInt? l, parseInt? r, parseNat? ml, parseInt? code, parseNat? fuel, takeTriples rest with
    | some k, some l, some r, some ml, some code, some fuel, some (fr, rest) =>
      match takeQuads rest with
      | some (ws, rest) =>
        match takeTriples rest with
        | some (tab, []) =>
          let c : Cfg := { ord := tableOrd tab, left := l, right := r, maxlen := ml, rev := rev = "1" }
          showResult (extRun k c (toSched ws) code (toFrames fr) fuel)
        | _ => "bad-op"
      | none => "bad-op"
    | _, _, _, _, _, _, _ => "bad-op"
  | "inproc" :: ase :: l :: r :: ml :: rev :: sub :: rest =>
    match parseInt? l, parseInt? r, parseNat? ml, parseNat? sub, takeTriples rest with
    | some l, some r, some ml, some sub, some (fr, rest) =>
      match takeTriples rest with
      | some (tab, []) =>
        let c : Cfg := { ord := tableOrd tab, left := l, right := r, maxlen := ml, rev := rev = "1" }
        let frames := toFrames fr
        let micro : Nat → Frame := fun i =>
          match frames[i]? with
          | some f => f
          | none => { cid := 0, bid := 0, vel := 0 }
        showResult (inproc c sub micro (ase = "1"))
      | _ => "bad-op"
    | _, _, _, _, _ => "bad-op"
  | "gmxext" :: gv :: l :: r :: ml :: rev :: code :: need0 :: fuel :: rest =>
    match parseInt? l, parseInt? r, parseNat? ml, parseInt? code, parseNat? need0, parseNat? fuel, takeTriples rest with
    | some l, some r, some ml, some code, some need0, some fuel, some (fr, rest) =>
      match takeQuads rest with
      | some (ws, rest) =>
        match takeTriples rest with
        | some (tab, []) =>
          let c : Cfg := { ord := tableOrd tab, left := l, right := r, maxlen := ml, rev := rev = "1" }
          showResult (gmxExt (if gv = "rep" then .repaired else .asIs) c (toSched ws) code need0 (toFrames fr) fuel)
        | _ => "bad-op"
      | none => "bad-op"
    | _, _, _, _, _, _, _ => "bad-op"
  | "gmx" :: gv :: l :: r :: ml :: rev :: rest =>
    match parseInt? l, parseInt? r, parseNat? ml, takeTriples rest with
    | some l, some r, some ml, some (fr, rest) =>
      match takeTriples rest with
      | some (tab, []) =>
        let c : Cfg := { ord := tableOrd tab, left := l, right := r, maxlen := ml, rev := rev = "1" }
        showResult (gmxRun (if gv = "rep" then .repaired else .asIs) c (toFrames fr))
      | _ => "bad-op"
    | _, _, _, _ => "bad-op"
  | _ => "bad-op"

def main : IO Unit := mainWith handle
