import Infretis.Model.Proto
import Infretis.Model.Readers
open Infretis Infretis.Proto Infretis.Readers

/-!
Line protocol of the C13 driver.

  xyz  <asIs|repaired> <hex content> <K> <n c₁ … cₙ> × K     polls of the xyz reader model
  lmp  <hex content> <K> <n c₁ … cₙ> × K                      polls of the lammpstrj reader model
  xspec <m len₁ … len_m> <K> <n c₁ … cₙ> × K                  `exactStages` on frame indices
  lspec <m len₁ … len_m> <K> <n c₁ … cₙ> × K                  `lmpStages` on frame indices
  trrhdr <hex bytes>                                          `trrHeader` (read_trr_header at byte level)
  trr  <2m h₁ d₁ … h_m d_m> <n size₁ … sizeₙ>                 `trrRun` events (r:off:len:size, y:k, w)

Answer: the K results joined by " # ".  One result = stages joined by " | "; one stage =
`<new position>:<frames joined by ;>`; a raised exception ends the result with `!<kind>`.
-/

def showErr : Err → String
  | .value => "value" | .zerodiv => "zerodiv" | .index => "index"

def showTok (t : Tok) : String := String.ofList t

def showRows (rows : List (List Tok)) : String :=
  "/".intercalate (rows.map (fun r => ",".intercalate (r.map showTok)))

def showX (f : XFrame) : String := showRows f
def showL (f : LFrame) : String := showRows f.1 ++ "@" ++ showRows f.2

def runPolls {F : Type} (reader : List Char → Nat → Except Err (List F × Nat)) (showF : F → String)
    (content : List Char) : List Nat → Nat → List String
  | [], _ => []
  | c :: cs, pos =>
    match reader (content.take c) pos with
    | .error e => ["!" ++ showErr e]
    | .ok (fs, pos') =>
      (toString pos' ++ ":" ++ ";".intercalate (fs.map showF)) :: runPolls reader showF content cs pos'

/-- the same through `pollAll` (the function the theorems speak about), frames only -/
def viaPollAll {F : Type} (reader : List Char → Nat → Except Err (List F × Nat)) (showF : F → String)
    (content : List Char) (cuts : List Nat) : String :=
  match pollAll reader content cuts 0 with
  | .error e => "!" ++ showErr e
  | .ok stages => " | ".intercalate (stages.map (fun fs => ";".intercalate (fs.map showF)))

def stripPos (s : String) : String :=
  if s.startsWith "!" then s else ":".intercalate ((s.splitOn ":").drop 1)

def result {F : Type} (reader : List Char → Nat → Except Err (List F × Nat)) (showF : F → String)
    (content : List Char) (cuts : List Nat) : String :=
  let tr := runPolls reader showF content cuts 0
  let a := " | ".intercalate tr
  -- consistency of the trace with `pollAll`
  let viaTrace :=
    match tr.getLast? with
    | some l => if l.startsWith "!" then l else " | ".intercalate (tr.map stripPos)
    | none => ""
  if viaTrace = viaPollAll reader showF content cuts then a else "INCONSISTENT " ++ a

/-- parse K length-prefixed cut lists -/
def takeSeqs : Nat → List String → Option (List (List Nat))
  | 0, [] => some []
  | 0, _ => none
  | k + 1, toks =>
    match takeList parseNat? toks with
    | none => none
    | some (cs, rest) => (takeSeqs k rest).map (fun r => cs :: r)

def content? (h : String) : Option (List Char) :=
  (unhex h).map (fun bs => bs.map (fun b => Char.ofNat b.toNat))

def showIdx (st : List (List Nat)) : String :=
  " | ".intercalate (st.map (fun fs => ",".intercalate (fs.map toString)))

def handle (toks : List String) : String :=
  match toks with
  | "xyz" :: v :: h :: k :: rest =>
    let var : Option Variant := if v = "asIs" then some .asIs else if v = "repaired" then some .repaired else none
    match var, content? h, parseNat? k with
    | some var, some content, some k =>
      match takeSeqs k rest with
      | some seqs => " # ".intercalate (seqs.map (result (xyzReader var) showX content))
      | none => "bad-op"
    | _, _, _ => "bad-op"
  | "lmp" :: h :: k :: rest =>
    match content? h, parseNat? k with
    | some content, some k =>
      match takeSeqs k rest with
      | some seqs => " # ".intercalate (seqs.map (result lmpReader showL content))
      | none => "bad-op"
    | _, _ => "bad-op"
  | "xspec" :: rest =>
    match takeList parseNat? rest with
    | some (lens, k :: rest) =>
      match (parseNat? k).bind (fun k => takeSeqs k rest) with
      | some seqs =>
        " # ".intercalate (seqs.map (fun cuts => showIdx (exactStages lens (List.range lens.length) cuts 0)))
      | none => "bad-op"
    | _ => "bad-op"
  | "lspec" :: rest =>
    match takeList parseNat? rest with
    | some (lens, k :: rest) =>
      match (parseNat? k).bind (fun k => takeSeqs k rest) with
      | some seqs =>
        " # ".intercalate (seqs.map (fun cuts => showIdx (lmpStages lens (List.range lens.length) cuts 0 false)))
      | none => "bad-op"
    | _ => "bad-op"
  | ["trrhdr", h] =>
    match unhex h with
    | none => "bad-op"
    | some bs =>
      match trrHeader (bs.map (·.toNat)) with
      | .error e => "err:" ++ (match e with | .eof => "eof" | .struct => "struct" | .value => "value" | .zerodiv => "zerodiv")
      | .ok (hd, rest) =>
        s!"ok {if hd.little then "<" else ">"} {if hd.double then 1 else 0} {hd.hlen} {dataSize hd.ints} {rest.length} " ++
          ",".intercalate (hd.ints.map toString)
  | "trr" :: rest =>
    match takeList parseNat? rest with
    | some (hd, rest) =>
      match takeList parseNat? rest with
      | some (sizes, []) =>
        let rec mk : List Nat → List TFrame
          | h :: d :: t => ⟨h, d⟩ :: mk t
          | _ => []
        let evs := trrRun (mk hd) sizes tInit
        " ".intercalate (evs.map (fun e => match e with
          | .read o l s => s!"r:{o}:{l}:{s}"
          | .yield k => s!"y:{k}"
          | .wait => "w"))
      | _ => "bad-op"
    | none => "bad-op"
  | _ => "bad-op"

def main : IO Unit := mainWith handle
