import Infretis.Model.Proto
import Infretis.Model.Readers
import Infretis.Model.ReadersObj
import Infretis.Model.ReadersSlack
open Infretis Infretis.Proto Infretis.Readers

/-!
Line protocol of the C13 driver.

  xyz  <asIs|repaired> <hex content> <K> <n c₁ … cₙ> × K     polls of the xyz reader model
  lmp  <hex content> <K> <n c₁ … cₙ> × K                      polls of the lammpstrj reader model (code as it is now)
  lmpv <asIs|repaired> <hex content> <K> …                    the same, variant named (asIs = before fix dfb19e7)
  rplv <asIs|repaired> <hex content> <K> …                    rpl with the variant named; rpf kind l-asIs likewise
  xspec <m len₁ … len_m> <K> <n c₁ … cₙ> × K                  `exactStages` on frame indices
  lspec <m len₁ … len_m> <K> <n c₁ … cₙ> × K                  `lmpStages` on frame indices
  lspecs <2m len₁ slack₁ … len_m slack_m> <K> <n c₁ … cₙ> × K  `lmpStagesS` (per-frame slack, every cut) on frame indices
  lspecps <2m len₁ slack₁ …> <K> <n e₁ … eₙ> × K               `lmpStagesPosS`: stage = pos:indices
  trrhdr <hex bytes>                                          `trrHeader` (read_trr_header at byte level)
  trr  <2m h₁ d₁ … h_m d_m> <n size₁ … sizeₙ>                 `trrRun` events (r:off:len:size, y:k, w)
  rpx  <asIs|repaired> <hex content> <K> <n e₁ … eₙ> × K      the reader OBJECT (`rpRun`, xyz): eᵢ = 0 file absent,
  rpl  <hex content> <K> <n e₁ … eₙ> × K                         c+1 = c bytes visible; stage = cur,prev:frames
  xspecp / lspecp <m len₁ … len_m> <K> <n e₁ … eₙ> × K        `exactStagesPos` / `lmpStagesPos`: stage = pos:indices
  rpf  <x-asIs|x-repaired|l> <n> <hex|~> × n                  the reader object on ARBITRARY file states (~ = absent)
  trrdata <hex bytes>                                         `trrHeader` then `trrData` (get_data) on the rest
  gmx  <hex file> <K> <n size₁ … sizeₙ> × K                   `gGen`: the whole get_gromacs_frames generator at byte level

Answer: the K results joined by " # ".  One result = stages joined by " | "; one stage =
`<new position>:<frames joined by ;>`; a raised exception ends the result with `!<kind>`.
-/

def showErr : Err → String
  | .value => "value" | .zerodiv => "zerodiv" | .index => "index"

def showTok (t : Tok) : String := String.ofList t

def showRows (rows : List (List Tok)) : String :=
  "/".intercalate (rows.map (fun r => ",".intercalate (r.map showTok)))

def showX (f : XFrame) : String := showRows f
def showL (f : LFrame) : String := showRows f.1 ++ "@" ++ showRows f.2

def runPolls {F : Type} (reader : List Char → Nat → Except Err (List F × Nat)) (showF : F → String)
    (content : List Char) : List Nat → Nat → List String
  | [], _ => []
  | c :: cs, pos =>
    match reader (content.take c) pos with
    | .error e => ["!" ++ showErr e]
    | .ok (fs, pos') =>
      (toString pos' ++ ":" ++ ";".intercalate (fs.map showF)) :: runPolls reader showF content cs pos'

/-- the same through `pollAll` (the function the theorems speak about), frames only -/
def viaPollAll {F : Type} (reader : List Char → Nat → Except Err (List F × Nat)) (showF : F → String)
    (content : List Char) (cuts : List Nat) : String :=
  match pollAll reader content cuts 0 with
  | .error e => "!" ++ showErr e
  | .ok stages => " | ".intercalate (stages.map (fun fs => ";".intercalate (fs.map showF)))

def stripPos (s : String) : String :=
  if s.startsWith "!" then s else ":".intercalate ((s.splitOn ":").drop 1)

def result {F : Type} (reader : List Char → Nat → Except Err (List F × Nat)) (showF : F → String)
    (content : List Char) (cuts : List Nat) : String :=
  let tr := runPolls reader showF content cuts 0
  let a := " | ".intercalate tr
  -- consistency of the trace with `pollAll`
  let viaTrace :=
    match tr.getLast? with
    | some l => if l.startsWith "!" then l else " | ".intercalate (tr.map stripPos)
    | none => ""
  if viaTrace = viaPollAll reader showF content cuts then a else "INCONSISTENT " ++ a

/-- parse K length-prefixed cut lists -/
def takeSeqs : Nat → List String → Option (List (List Nat))
  | 0, [] => some []
  | 0, _ => none
  | k + 1, toks =>
    match takeList parseNat? toks with
    | none => none
    | some (cs, rest) => (takeSeqs k rest).map (fun r => cs :: r)

def content? (h : String) : Option (List Char) :=
  (unhex h).map (fun bs => bs.map (fun b => Char.ofNat b.toNat))

def showIdx (st : List (List Nat)) : String :=
  " | ".intercalate (st.map (fun fs => ",".intercalate (fs.map toString)))


def pairsOf : List Nat → List (Nat × Nat)
  | a :: b :: rest => (a, b) :: pairsOf rest
  | _ => []

def handle (toks : List String) : String :=
  match toks with
  | "xyz" :: v :: h :: k :: rest =>
    let var : Option Variant := if v = "asIs" then some .asIs else if v = "repaired" then some .repaired else none
    match var, content? h, parseNat? k with
    | some var, some content, some k =>
      match takeSeqs k rest with
      | some seqs => " # ".intercalate (seqs.map (result (xyzReader var) showX content))
      | none => "bad-op"
    | _, _, _ => "bad-op"
  | "lmp" :: h :: k :: rest =>
    match content? h, parseNat? k with
    | some content, some k =>
      match takeSeqs k rest with
      | some seqs => " # ".intercalate (seqs.map (result (lmpReader .repaired) showL content))
      | none => "bad-op"
    | _, _ => "bad-op"
  | "lmpv" :: v :: h :: k :: rest =>
    let var : Option Variant := if v = "asIs" then some .asIs else if v = "repaired" then some .repaired else none
    match var, content? h, parseNat? k with
    | some var, some content, some k =>
      match takeSeqs k rest with
      | some seqs => " # ".intercalate (seqs.map (result (lmpReader var) showL content))
      | none => "bad-op"
    | _, _, _ => "bad-op"
  | "xspec" :: rest =>
    match takeList parseNat? rest with
    | some (lens, k :: rest) =>
      match (parseNat? k).bind (fun k => takeSeqs k rest) with
      | some seqs =>
        " # ".intercalate (seqs.map (fun cuts => showIdx (exactStages lens (List.range lens.length) cuts 0)))
      | none => "bad-op"
    | _ => "bad-op"
  | "lspec" :: rest =>
    match takeList parseNat? rest with
    | some (lens, k :: rest) =>
      match (parseNat? k).bind (fun k => takeSeqs k rest) with
      | some seqs =>
        " # ".intercalate (seqs.map (fun cuts => showIdx (lmpStages lens (List.range lens.length) cuts 0 false)))
      | none => "bad-op"
    | _ => "bad-op"
  | "lspecs" :: rest =>
    match takeList parseNat? rest with
    | some (ls, k :: rest) =>
      match (parseNat? k).bind (fun k => takeSeqs k rest) with
      | some seqs =>
        let fr := pairsOf ls
        " # ".intercalate (seqs.map (fun cuts => showIdx (lmpStagesS fr (List.range fr.length) cuts 0 0)))
      | none => "bad-op"
    | _ => "bad-op"
  | ["trrhdr", h] =>
    match unhex h with
    | none => "bad-op"
    | some bs =>
      match trrHeader (bs.map (·.toNat)) with
      | .error e => "err:" ++ (match e with | .eof => "eof" | .struct => "struct" | .value => "value" | .zerodiv => "zerodiv")
      | .ok (hd, rest) =>
        s!"ok {if hd.little then "<" else ">"} {if hd.double then 1 else 0} {hd.hlen} {dataSize hd.ints} {rest.length} " ++
          ",".intercalate (hd.ints.map toString)
  | "trr" :: rest =>
    match takeList parseNat? rest with
    | some (hd, rest) =>
      match takeList parseNat? rest with
      | some (sizes, []) =>
        let rec mk : List Nat → List TFrame
          | h :: d :: t => ⟨h, d⟩ :: mk t
          | _ => []
        let evs := trrRun (mk hd) sizes tInit
        " ".intercalate (evs.map (fun e => match e with
          | .read o l s => s!"r:{o}:{l}:{s}"
          | .yield k => s!"y:{k}"
          | .wait => "w"))
      | _ => "bad-op"
    | none => "bad-op"
  | _ => "bad-op"

/-! ### extension pass: the reader object, TRR data layout, the whole TRR generator -/

def showRP (o : RP) : String := toString o.cur ++ "," ++ toString o.prev

def showObjRun {F : Type} (showF : F → String) (r : Except Err (List (List F × RP))) : String :=
  match r with
  | .error e => "!" ++ showErr e
  | .ok stages => " | ".intercalate (stages.map (fun s => showRP s.2 ++ ":" ++ ";".intercalate (s.1.map showF)))

/-- run the object poll by poll so that the stages before an exception are shown, too -/
def objTrace {F : Type} (readerO : List Char → RP → Except Err (List F × RP)) (showF : F → String) :
    List (Option (List Char)) → RP → List String
  | [], _ => []
  | f :: fs, o =>
    match rpPoll readerO o f with
    | .error e => ["!" ++ showErr e]
    | .ok (frames, o') => (showRP o' ++ ":" ++ ";".intercalate (frames.map showF)) :: objTrace readerO showF fs o'

/-- the trace, cross-checked against `rpRun` (the function the theorems speak about) -/
def objResult {F : Type} (readerO : List Char → RP → Except Err (List F × RP)) (showF : F → String)
    (files : List (Option (List Char))) : String :=
  let tr := objTrace readerO showF files rpInit
  let a := " | ".intercalate tr
  let via := match tr.getLast? with
    | some l => if l.startsWith "!" then l else a
    | none => ""
  if via = showObjRun showF (rpRun readerO files rpInit) then a else "INCONSISTENT " ++ a

def decEv (n : Nat) : Option Nat := if n = 0 then none else some (n - 1)

def showPosStages (st : List (List Nat × Nat)) : String :=
  " | ".intercalate (st.map (fun s => toString s.2 ++ ":" ++ ",".intercalate (s.1.map toString)))

def hashBytes (bs : List Nat) : Nat := bs.foldl (fun a b => (a * 257 + b + 1) % 1000000007) 7

def showBlocks (bl : List (Nat × List Nat)) : String :=
  ",".intercalate (bl.map (fun b => s!"{b.1}:{b.2.length}:{hashBytes b.2}"))

def showTErr : TErr → String
  | .eof => "eof" | .struct => "struct" | .value => "value" | .zerodiv => "zerodiv"

def showGEv : GEv → String
  | .read o l s => s!"r:{o}:{l}:{s}"
  | .yield bl => "y:" ++ showBlocks bl
  | .wait => "w"
  | .stale => "s"
  | .raise e => "!" ++ showTErr e
  | .spin => "spin"

def files? : List String → Option (List (Option (List Char)))
  | [] => some []
  | t :: ts =>
    match (if t = "~" then some none else (content? t).map some), files? ts with
    | some f, some r => some (f :: r)
    | _, _ => none

def handleExt (toks : List String) : Option String :=
  match toks with
  | "rpx" :: v :: h :: k :: rest =>
    let var : Option Variant := if v = "asIs" then some .asIs else if v = "repaired" then some .repaired else none
    match var, content? h, (parseNat? k).bind (fun k => takeSeqs k rest) with
    | some var, some content, some seqs =>
      some (" # ".intercalate (seqs.map (fun evs => objResult (xyzReaderO var) showX (visible content (evs.map decEv)))))
    | _, _, _ => none
  | "rpl" :: h :: k :: rest =>
    match content? h, (parseNat? k).bind (fun k => takeSeqs k rest) with
    | some content, some seqs =>
      some (" # ".intercalate (seqs.map (fun evs => objResult (lmpReaderO .repaired) showL (visible content (evs.map decEv)))))
    | _, _ => none
  | "rplv" :: v :: h :: k :: rest =>
    let var : Option Variant := if v = "asIs" then some .asIs else if v = "repaired" then some .repaired else none
    match var, content? h, (parseNat? k).bind (fun k => takeSeqs k rest) with
    | some var, some content, some seqs =>
      some (" # ".intercalate (seqs.map (fun evs => objResult (lmpReaderO var) showL (visible content (evs.map decEv)))))
    | _, _, _ => none
  | "xspecp" :: rest =>
    match takeList parseNat? rest with
    | some (lens, k :: rest) =>
      (((parseNat? k).bind (fun k => takeSeqs k rest))).map (fun seqs =>
        " # ".intercalate (seqs.map (fun evs =>
          showPosStages (exactStagesPos lens (List.range lens.length) (evs.map decEv) 0))))
    | _ => none
  | "lspecp" :: rest =>
    match takeList parseNat? rest with
    | some (lens, k :: rest) =>
      (((parseNat? k).bind (fun k => takeSeqs k rest))).map (fun seqs =>
        " # ".intercalate (seqs.map (fun evs =>
          showPosStages (lmpStagesPos lens (List.range lens.length) (evs.map decEv) 0 false))))
    | _ => none
  | "lspecps" :: rest =>
    match takeList parseNat? rest with
    | some (ls, k :: rest) =>
      (((parseNat? k).bind (fun k => takeSeqs k rest))).map (fun seqs =>
        let fr := pairsOf ls
        " # ".intercalate (seqs.map (fun evs =>
          showPosStages (lmpStagesPosS fr (List.range fr.length) (evs.map decEv) 0 0))))
    | _ => none
  | "rpf" :: kind :: n :: rest =>
    match parseNat? n, files? rest with
    | some n, some files =>
      if files.length ≠ n then none
      else if kind = "x-asIs" then some (objResult (xyzReaderO .asIs) showX files)
      else if kind = "x-repaired" then some (objResult (xyzReaderO .repaired) showX files)
      else if kind = "l" then some (objResult (lmpReaderO .repaired) showL files)
      else if kind = "l-asIs" then some (objResult (lmpReaderO .asIs) showL files)
      else none
    | _, _ => none
  | ["trrdata", h] =>
    match unhex h with
    | none => none
    | some bs =>
      match trrHeader (bs.map (·.toNat)) with
      | .error e => some ("hdr:" ++ showTErr e)
      | .ok (hd, rest) =>
        let r := trrData hd rest
        let used := rest.length - r.rest.length
        match r.res with
        | .ok bl => some s!"ok {dataSize hd.ints} {used} {showBlocks bl}"
        | .error e => some s!"err:{showTErr e} {dataSize hd.ints} {used}"
  | "gmx" :: h :: k :: rest =>
    match unhex h, (parseNat? k).bind (fun k => takeSeqs k rest) with
    | some bs, some seqs =>
      let file := bs.map (·.toNat)
      some (" # ".intercalate (seqs.map (fun sizes => " ".intercalate ((gGen file sizes).map showGEv))))
    | _, _ => none
  | _ => none

def handleAll (toks : List String) : String :=
  match handleExt toks with
  | some s => s
  | none => handle toks

def main : IO Unit := mainWith handleAll
