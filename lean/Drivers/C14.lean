import Infretis.Model.Proto
import Infretis.Model.Store
import Infretis.Model.StorePath
import Infretis.Model.StoreText
import Infretis.Model.StoreMove
import Infretis.Model.StoreRestart
open Infretis Infretis.Proto Infretis.Store
open Infretis.StoreText (Str FIn FVal TFrame LFrameT StoredT storeT loadPathT loadStoredT round6 hdrOrder hdrEnergy hdrTraj)

/-! Line protocol of the C14 driver.

  store <step> <list hexstr move-words> <nframes> { <hex dir> <hex base> <idx|-> <velrev 0|1> <list int order> <vpot|-> <ekin|-> }*
      → "T <lines> | O <lines> | E <lines> | A <names> | L <loaded>"
  load  <list hexstr files> <file> <file> <file>     file = "-" (absent) or <nlines> { <ntoks> tok* }*
      tok = h | w<hex> | i<int> | f<int> | n
      → "<loaded>"
  storeP <maxlen|-> <deflim|-> <p|a> <step> <list hexstr move-words> <nframes> { frame as in store }*
      the Path-object model: PathStorage.output of a path with that maxlen, then load_path under the default
      limit `deflim` with the frame loop as it is (p: phasepoints.append) or through Path.append (a)
      → "T <lines> | O <lines> | E <lines> | A <names> | M <maxlen|-> <length of the returned path> | L <maxlen|-> <loaded>"
  loadP <deflim|-> <p|a> <list hexstr files> <file> <file> <file>   → "<maxlen|-> <loaded>"
  storeT <maxlen|-> <deflim|-> <p|a> <step> <hex str(generated)> <nframes> { <hex dir> <hex base> <idx|-> <velrev 0|1> <list fin> <fin|-> <fin|-> }*
      fin = n (NaN) | <+|-><num>/<den> (sign bit and exact magnitude of the float)
      the TEXT-level model: → "T <hex text> | O <hex text> | E <hex text> | A <hex names> | M <maxlen|-> <length> | L <maxlen|-> <loadedT>"
  loadT <deflim|-> <p|a> <list hexstr files> <hex text|!> <hex text|!> <hex text|!>    ("!" = the file does not exist)
      → "<maxlen|-> <loadedT>";   a loaded float is shown as sign and magnitude ×10⁶ ("+1500000", "-0") or "nan"
  round6 <num> <den> → the magnitude '{:.6f}' prints, ×10⁶
  stem <hex name> → os.path.splitext(name)[0]
  wsset → every code point the text model treats as white space (str.isspace / split() / strip()), decimal
  hdr → the three header lines (order, energy, traj) in hex
  move <list hexstr keep-ext> <hex target dir> <maxlen|-> <nfiles> { <hex dir> <hex name> <content> }* <nframes> { <hex dir> <hex base> }*
      PathStorage._move_path on the file-system model
      → "<ok|err:…> | <maxlen|-> <length of the returned path> | <hex dir>/<hex name>=<content> …"
  e2e <list hexstr keep-ext> <hex target dir> <maxlen|-> <deflim|-> <step> <list hexstr move-words> <nfiles> { <hex dir> <hex name> <content> }* <nframes> { frame as in store }*
      the end-to-end function outputThenLoad → "<maxlen|-> <loaded>" or the error kind
  lpfd <deflim|-> <p|a> <maxlength|-> <restarted 0|1> <list nat active> <narchives> { <pn> <list hexstr files> <file> <file> <file> }*
      load_paths_from_disk → "<pn>:<status>:<maxlen|->:<loaded> ; …" or the error kind
  hist  <n> <delOld> <delAll> <a|r variant> <list hexstr keep-ext> <ninit> { <pn> <list name> }* <nops> { R <pnOld> <list name> <list name> | F | S <pn> <name> | X }*
      (X = a restart between two calls: new REPEX_state from restart.toml, paths re-read, pn_olds forgotten)
      → one state per op, separated by " | ": "<ok|err> live:… olds:… restart:… disk:… txt:<pn>=<name>+<name>;…"
      (txt = the record of what load/pn/traj.txt refers to, compared with the real traj.txt files)
  text arguments/results of storeT / loadT are the hex of UTF-8 bytes (non-ASCII names and file contents)
-/

def showErr : Err → String
  | .assert => "err:assert" | .stopIteration => "err:stop" | .index => "err:index" | .value => "err:value"
  | .key => "err:key" | .nofile => "err:nofile" | .notempty => "err:os"

def showLine (l : Line) : String := " ".intercalate (l.map Tok.render)
def showLines (ls : List Line) : String := " ; ".intercalate (ls.map showLine)

def showNum : Num → String
  | .val v => toString v
  | .nan => "nan"

def showONum : Option Num → String
  | some x => showNum x
  | none => "-"

def showLFrame (f : LFrame) : String :=
  s!"{f.base},{f.idx},{if f.velRev then 1 else 0},{":".intercalate (f.order.map showNum)},{showONum f.vpot},{showONum f.ekin}"

def showLoaded : Except Err (List LFrame) → String
  | .ok fs => " ".intercalate (toString fs.length :: fs.map showLFrame)
  | .error e => showErr e

def optInt (s : String) : Option (Option Int) :=
  if s = "-" then some none else (parseInt? s).map some

def takeFrames : Nat → List String → Option (List Frame × List String)
  | 0, rest => some ([], rest)
  | k + 1, d :: b :: ix :: vr :: rest =>
    match unhexStr d, unhexStr b, optInt ix, takeList parseInt? rest with
    | some d, some b, some ix, some (ord, vp :: ek :: rest) =>
      match optInt vp, optInt ek, takeFrames k rest with
      | some vp, some ek, some (fs, rest) =>
        some ({ dir := d, base := b, idx := ix, velRev := vr = "1", order := ord, vpot := vp, ekin := ek } :: fs, rest)
      | _, _, _ => none
    | _, _, _, _ => none
  | _, _ => none

def parseTok (s : String) : Option Tok :=
  match s.toList with
  | ['h'] => some .hash
  | ['n'] => some .nan
  | 'w' :: r => (unhexStr (String.ofList r)).map Tok.word
  | 'i' :: r => (parseInt? (String.ofList r)).map Tok.int
  | 'f' :: r => (parseInt? (String.ofList r)).map Tok.fix6
  | _ => none

def takeLines : Nat → List String → Option (List Line × List String)
  | 0, rest => some ([], rest)
  | k + 1, rest =>
    match takeList parseTok rest with
    | some (l, rest) =>
      match takeLines k rest with
      | some (ls, rest) => some (l :: ls, rest)
      | none => none
    | none => none

def takeFile : List String → Option (Option (List Line) × List String)
  | "-" :: rest => some (none, rest)
  | n :: rest =>
    match parseNat? n with
    | some k => (takeLines k rest).map (fun (ls, r) => (some ls, r))
    | none => none
  | [] => none

def some' (s : String) : Option String := some s

def takeInit : Nat → List String → Option (List (Nat × List String) × List String)
  | 0, rest => some ([], rest)
  | k + 1, pn :: rest =>
    match parseNat? pn, takeList some' rest with
    | some pn, some (names, rest) =>
      match takeInit k rest with
      | some (ps, rest) => some ((pn, names) :: ps, rest)
      | none => none
    | _, _ => none
  | _, _ => none

def takeOps : Nat → List String → Option (List OpR × List String)
  | 0, rest => some ([], rest)
  | k + 1, "F" :: rest => (takeOps k rest).map (fun (os, r) => (OpR.op Op.finish :: os, r))
  | k + 1, "X" :: rest => (takeOps k rest).map (fun (os, r) => (OpR.restart :: os, r))
  | k + 1, "S" :: p :: nm :: rest =>
    match parseNat? p with
    | some p => (takeOps k rest).map (fun (os, r) => (OpR.op (Op.stale p nm) :: os, r))
    | none => none
  | k + 1, "R" :: p :: rest =>
    match parseNat? p, takeList some' rest with
    | some p, some (files, rest) =>
      match takeList some' rest with
      | some (kept, rest) => (takeOps k rest).map (fun (os, r) => (OpR.op (Op.replace p files kept) :: os, r))
      | none => none
    | _, _ => none
  | _, _ => none

def txtName : Nat → String
  | 0 => "order.txt" | 1 => "traj.txt" | _ => "energy.txt"

def showFile : DFile → String
  | .txt p k => s!"{p}/{txtName k}"
  | .acc p nm => s!"{p}/accepted/{nm}"

def showDir : DDir → String
  | .path p => s!"{p}/"
  | .accepted p => s!"{p}/accepted/"

def showNats (l : List Nat) : String := ",".intercalate (l.map toString)

/-- the ghost record `St.txt` (what load/pn/traj.txt refers to), first entry per path number: `pn=name+name;…` -/
def showTxt (s : St) : String :=
  let pns := (s.txt.map (·.1)).eraseDups
  ";".intercalate (pns.map (fun pn => s!"{pn}={"+".intercalate ((lookup pn s.txt).getD [])}"))

def showSt (s : St) (e : Option Err) : String :=
  let es := match e with | none => "ok" | some e => showErr e
  s!"{es} live:{showNats s.live} olds:{showNats (s.pnOlds.map (·.1))} restart:{showNats s.restart} disk:{",".intercalate ((s.disk.map showFile) ++ (s.dirs.map showDir)).eraseDups} txt:{showTxt s}"

/-- states after each op; stops after the first error -/
def trace : St → List OpR → List String
  | _, [] => []
  | s, op :: ops =>
    match stepR s op with
    | (s', none) => showSt s' none :: trace s' ops
    | (s', some e) => [showSt s' (some e)]

def showOInt : Option Int → String
  | some i => toString i
  | none => "-"

def showLoadedPath : Except Err (PathObj LFrame) → String
  | .ok p => showOInt p.maxlen ++ " " ++ showLoaded (.ok p.pts)
  | .error e => showErr e

def fillOf (s : String) : Fill := if s = "a" then .viaAppend else .push

/-- text travels as the hex of its UTF-8 bytes (the files are read with encoding utf-8) -/
def hexL (l : Str) : String := hexBytes (String.ofList l).toUTF8.toList

def parseFin (s : String) : Option FIn :=
  if s = "n" then some .nan
  else if s = "+inf" then some (.inf false)
  else if s = "-inf" then some (.inf true)
  else
    match s.toList with
    | sg :: r =>
      match (String.ofList r).splitOn "/" with
      | [a, b] =>
        match parseNat? a, parseNat? b with
        | some n, some d => if sg = '+' then some (.num false n d) else if sg = '-' then some (.num true n d) else none
        | _, _ => none
      | _ => none
    | [] => none

def optFin (s : String) : Option (Option FIn) :=
  if s = "-" then some none else (parseFin s).map some

def unhexL (s : String) : Option Str :=
  (unhex s).bind (fun bs => (String.fromUTF8? ⟨bs.toArray⟩).map String.toList)

def takeTFrames : Nat → List String → Option (List TFrame × List String)
  | 0, rest => some ([], rest)
  | k + 1, d :: b :: ix :: vr :: rest =>
    match unhexL d, unhexL b, optInt ix, takeList parseFin rest with
    | some d, some b, some ix, some (ord, vp :: ek :: rest) =>
      match optFin vp, optFin ek, takeTFrames k rest with
      | some vp, some ek, some (fs, rest) =>
        some ({ dir := d, base := b, idx := ix, velRev := vr = "1", order := ord, vpot := vp, ekin := ek } :: fs, rest)
      | _, _, _ => none
    | _, _, _, _ => none
  | _, _ => none

def showFVal : FVal → String
  | .dec d => (if d.neg then "-" else "+") ++ toString d.mag
  | .nan => "nan"
  | .inf neg => if neg then "-inf" else "+inf"

def showOFVal : Option FVal → String
  | some x => showFVal x
  | none => "-"

def showLFrameT (f : LFrameT) : String :=
  s!"{hexL f.base},{f.idx},{if f.velRev then 1 else 0},{":".intercalate (f.order.map showFVal)},{showOFVal f.vpot},{showOFVal f.ekin}"

def showLoadedT : Except Err (PathObj LFrameT) → String
  | .ok p => showOInt p.maxlen ++ " " ++ " ".intercalate (toString p.pts.length :: p.pts.map showLFrameT)
  | .error e => showErr e

def optText (s : String) : Option (Option Str) :=
  if s = "!" then some none else (unhexL s).map some

def takeFsFiles : Nat → List String → Option (FS × List String)
  | 0, rest => some ([], rest)
  | k + 1, d :: n :: c :: rest =>
    match unhexStr d, unhexStr n, parseNat? c, takeFsFiles k rest with
    | some d, some n, some c, some (fs, rest) => some (((d, n), c) :: fs, rest)
    | _, _, _, _ => none
  | _, _ => none

def takeRefs : Nat → List String → Option (List Frame × List String)
  | 0, rest => some ([], rest)
  | k + 1, d :: b :: rest =>
    match unhexStr d, unhexStr b, takeRefs k rest with
    | some d, some b, some (fs, rest) =>
      some ({ dir := d, base := b, idx := none, velRev := false, order := [], vpot := none, ekin := none } :: fs, rest)
    | _, _, _ => none
  | _, _ => none

def showFs (fs : FS) : String :=
  " ".intercalate (fs.map (fun e => s!"{hexStr e.1.1}/{hexStr e.1.2}={e.2}"))

def takeArchives : Nat → List String → Option (List (Nat × Archive) × List String)
  | 0, rest => some ([], rest)
  | k + 1, pn :: rest =>
    match parseNat? pn, takeList unhexStr rest with
    | some pn, some (files, rest) =>
      match takeFile rest with
      | some (t, rest) =>
        match takeFile rest with
        | some (o, rest) =>
          match takeFile rest with
          | some (e, rest) =>
            match takeArchives k rest with
            | some (as, rest) => some ((pn, { traj := t, order := o, energy := e, files := files }) :: as, rest)
            | none => none
          | none => none
        | none => none
      | none => none
    | _, _ => none
  | _, _ => none

def diskOf (as : List (Nat × Archive)) (pn : Nat) : Archive :=
  match lookup pn as with
  | some a => a
  | none => { traj := none, order := none, energy := none, files := [] }

def showLoadedPaths : Except Err (List LoadedPath) → String
  | .ok ps => " ; ".intercalate (ps.map (fun l => s!"{l.number}:{l.status}:{showOInt l.path.maxlen}:{showLoaded (.ok l.path.pts)}"))
  | .error e => showErr e

def handle (toks : List String) : String :=
  match toks with
  | "e2e" :: rest =>
    match takeList unhexStr rest with
    | some (keep, tg :: ml :: dl :: st :: rest) =>
      match unhexStr tg, optInt ml, optInt dl, parseNat? st, takeList unhexStr rest with
      | some tg, some ml, some dl, some st, some (mv, nf :: rest) =>
        match parseNat? nf with
        | some nf =>
          match takeFsFiles nf rest with
          | some (fs, nr :: rest) =>
            match parseNat? nr with
            | some nr =>
              match takeFrames nr rest with
              | some (frames, []) => showLoadedPath (outputThenLoad keep tg st mv { maxlen := ml, pts := frames } fs dl)
              | _ => "bad-op"
            | none => "bad-op"
          | _ => "bad-op"
        | none => "bad-op"
      | _, _, _, _, _ => "bad-op"
    | _ => "bad-op"
  | "lpfd" :: dl :: fl :: ml :: rs :: rest =>
    match optInt dl, optInt ml, takeList parseNat? rest with
    | some dl, some ml, some (active, na :: rest) =>
      match parseNat? na with
      | some na =>
        match takeArchives na rest with
        | some (as, []) => showLoadedPaths (loadPathsFromDisk (fillOf fl) dl ml (rs = "1") (diskOf as) active)
        | _ => "bad-op"
      | none => "bad-op"
    | _, _, _ => "bad-op"
  | "move" :: rest =>
    match takeList unhexStr rest with
    | some (keep, tg :: ml :: nf :: rest) =>
      match unhexStr tg, optInt ml, parseNat? nf with
      | some tg, some ml, some nf =>
        match takeFsFiles nf rest with
        | some (fs, nr :: rest) =>
          match parseNat? nr with
          | some nr =>
            match takeRefs nr rest with
            | some (frames, []) =>
              let r := movePath keep tg { maxlen := ml, pts := frames } fs
              let es := match r.2.2 with | none => "ok" | some e => showErr e
              s!"{es} | {showOInt r.2.1.maxlen} {r.2.1.pts.length} | {showFs r.1}"
            | _ => "bad-op"
          | none => "bad-op"
        | _ => "bad-op"
      | _, _, _ => "bad-op"
    | _ => "bad-op"
  | "storeT" :: ml :: dl :: fl :: st :: gen :: nf :: rest =>
    match optInt ml, optInt dl, parseNat? st, unhexL gen, parseNat? nf with
    | some ml, some dl, some st, some gen, some nf =>
      match takeTFrames nf rest with
      | some (fs, []) =>
        let r := storeT st gen { maxlen := ml, pts := fs }
        let s := r.1
        s!"T {hexL s.traj} | O {hexL s.order} | E {hexL s.energy} | A {" ".intercalate (s.accepted.map hexL)} | M {showOInt r.2.maxlen} {r.2.pts.length} | L {showLoadedT (loadStoredT (fillOf fl) dl s)}"
      | _ => "bad-op"
    | _, _, _, _, _ => "bad-op"
  | "loadT" :: dl :: fl :: rest =>
    match optInt dl, takeList unhexL rest with
    | some dl, some (files, [t, o, e]) =>
      match optText t, optText o, optText e with
      | some t, some o, some e => showLoadedT (loadPathT (fillOf fl) dl t o e files)
      | _, _, _ => "bad-op"
    | _, _ => "bad-op"
  | ["round6", n, d] =>
    match parseNat? n, parseNat? d with
    | some n, some d => toString (round6 n d)
    | _, _ => "bad-op"
  | ["hdr"] => s!"{hexL hdrOrder} {hexL hdrEnergy} {hexL hdrTraj}"
  | "storeP" :: ml :: dl :: fl :: st :: rest =>
    match optInt ml, optInt dl, parseNat? st, takeList unhexStr rest with
    | some ml, some dl, some st, some (mv, nf :: rest) =>
      match parseNat? nf with
      | some nf =>
        match takeFrames nf rest with
        | some (fs, []) =>
          let r := storeObj st mv { maxlen := ml, pts := fs }
          let s := r.1
          s!"T {showLines s.traj} | O {showLines s.order} | E {showLines s.energy} | A {" ".intercalate s.accepted} | M {showOInt r.2.maxlen} {r.2.pts.length} | L {showLoadedPath (loadStoredPath (fillOf fl) dl s)}"
        | _ => "bad-op"
      | none => "bad-op"
    | _, _, _, _ => "bad-op"
  | "loadP" :: dl :: fl :: rest =>
    match optInt dl, takeList unhexStr rest with
    | some dl, some (files, rest) =>
      match takeFile rest with
      | some (t, rest) =>
        match takeFile rest with
        | some (o, rest) =>
          match takeFile rest with
          | some (e, []) => showLoadedPath (loadPath (fillOf fl) dl t o e files)
          | _ => "bad-op"
        | none => "bad-op"
      | none => "bad-op"
    | _, _ => "bad-op"
  | "store" :: st :: rest =>
    match parseNat? st, takeList unhexStr rest with
    | some st, some (mv, nf :: rest) =>
      match parseNat? nf with
      | some nf =>
        match takeFrames nf rest with
        | some (fs, []) =>
          let s := store st mv fs
          s!"T {showLines s.traj} | O {showLines s.order} | E {showLines s.energy} | A {" ".intercalate s.accepted} | L {showLoaded (loadStored s)}"
        | _ => "bad-op"
      | none => "bad-op"
    | _, _ => "bad-op"
  | "load" :: rest =>
    match takeList unhexStr rest with
    | some (files, rest) =>
      match takeFile rest with
      | some (t, rest) =>
        match takeFile rest with
        | some (o, rest) =>
          match takeFile rest with
          | some (e, []) => showLoaded (load t o e files)
          | _ => "bad-op"
        | none => "bad-op"
      | none => "bad-op"
    | none => "bad-op"
  | "hist" :: n :: d1 :: d2 :: v :: rest =>
    match parseNat? n, takeList unhexStr rest with
    | some n, some (keep, ni :: rest) =>
      match parseNat? ni with
      | some ni =>
        match takeInit ni rest with
        | some (paths, no :: rest) =>
          match parseNat? no with
          | some no =>
            match takeOps no rest with
            | some (ops, []) =>
              let var := if v = "a" then Variant.asIs else Variant.repaired
              " | ".intercalate (trace (init n (d1 = "1") (d2 = "1") paths var keep) ops)
            | _ => "bad-op"
          | none => "bad-op"
        | _ => "bad-op"
      | none => "bad-op"
    | _, _ => "bad-op"
  | "stem" :: [x] => (unhexStr x).elim "bad-op" stemOf
  | ["wsset"] => " ".intercalate (((List.range 0x110000).filter (fun n => Infretis.StoreText.isWs (Char.ofNat n))).map toString)
  | _ => "bad-op"

def main : IO Unit := mainWith handle
