import Infretis.Model.Proto
import Infretis.Model.Store
open Infretis Infretis.Proto Infretis.Store

/-! Line protocol of the C14 driver.

  store <step> <list hexstr move-words> <nframes> { <hex dir> <hex base> <idx|-> <velrev 0|1> <list int order> <vpot|-> <ekin|-> }*
      → "T <lines> | O <lines> | E <lines> | A <names> | L <loaded>"
  load  <list hexstr files> <file> <file> <file>     file = "-" (absent) or <nlines> { <ntoks> tok* }*
      tok = h | w<hex> | i<int> | f<int> | n
      → "<loaded>"
  hist  <n> <delOld> <delAll> <a|r variant> <list keep-ext> <ninit> { <pn> <list name> }* <nops> { R <pnOld> <list name> <list name> | F | S <pn> <name> }*
      → one state per op, separated by " | "
-/

def showErr : Err → String
  | .assert => "err:assert" | .stopIteration => "err:stop" | .index => "err:index" | .value => "err:value"
  | .key => "err:key" | .nofile => "err:nofile" | .notempty => "err:os"

def showLine (l : Line) : String := " ".intercalate (l.map Tok.render)
def showLines (ls : List Line) : String := " ; ".intercalate (ls.map showLine)

def showNum : Num → String
  | .val v => toString v
  | .nan => "nan"

def showONum : Option Num → String
  | some x => showNum x
  | none => "-"

def showLFrame (f : LFrame) : String :=
  s!"{f.base},{f.idx},{if f.velRev then 1 else 0},{":".intercalate (f.order.map showNum)},{showONum f.vpot},{showONum f.ekin}"

def showLoaded : Except Err (List LFrame) → String
  | .ok fs => " ".intercalate (toString fs.length :: fs.map showLFrame)
  | .error e => showErr e

def optInt (s : String) : Option (Option Int) :=
  if s = "-" then some none else (parseInt? s).map some

def takeFrames : Nat → List String → Option (List Frame × List String)
  | 0, rest => some ([], rest)
  | k + 1, d :: b :: ix :: vr :: rest =>
    match unhexStr d, unhexStr b, optInt ix, takeList parseInt? rest with
    | some d, some b, some ix, some (ord, vp :: ek :: rest) =>
      match optInt vp, optInt ek, takeFrames k rest with
      | some vp, some ek, some (fs, rest) =>
        some ({ dir := d, base := b, idx := ix, velRev := vr = "1", order := ord, vpot := vp, ekin := ek } :: fs, rest)
      | _, _, _ => none
    | _, _, _, _ => none
  | _, _ => none

def parseTok (s : String) : Option Tok :=
  match s.toList with
  | ['h'] => some .hash
  | ['n'] => some .nan
  | 'w' :: r => (unhexStr (String.ofList r)).map Tok.word
  | 'i' :: r => (parseInt? (String.ofList r)).map Tok.int
  | 'f' :: r => (parseInt? (String.ofList r)).map Tok.fix6
  | _ => none

def takeLines : Nat → List String → Option (List Line × List String)
  | 0, rest => some ([], rest)
  | k + 1, rest =>
    match takeList parseTok rest with
    | some (l, rest) =>
      match takeLines k rest with
      | some (ls, rest) => some (l :: ls, rest)
      | none => none
    | none => none

def takeFile : List String → Option (Option (List Line) × List String)
  | "-" :: rest => some (none, rest)
  | n :: rest =>
    match parseNat? n with
    | some k => (takeLines k rest).map (fun (ls, r) => (some ls, r))
    | none => none
  | [] => none

def some' (s : String) : Option String := some s

def takeInit : Nat → List String → Option (List (Nat × List String) × List String)
  | 0, rest => some ([], rest)
  | k + 1, pn :: rest =>
    match parseNat? pn, takeList some' rest with
    | some pn, some (names, rest) =>
      match takeInit k rest with
      | some (ps, rest) => some ((pn, names) :: ps, rest)
      | none => none
    | _, _ => none
  | _, _ => none

def takeOps : Nat → List String → Option (List Op × List String)
  | 0, rest => some ([], rest)
  | k + 1, "F" :: rest => (takeOps k rest).map (fun (os, r) => (Op.finish :: os, r))
  | k + 1, "S" :: p :: nm :: rest =>
    match parseNat? p with
    | some p => (takeOps k rest).map (fun (os, r) => (Op.stale p nm :: os, r))
    | none => none
  | k + 1, "R" :: p :: rest =>
    match parseNat? p, takeList some' rest with
    | some p, some (files, rest) =>
      match takeList some' rest with
      | some (kept, rest) => (takeOps k rest).map (fun (os, r) => (Op.replace p files kept :: os, r))
      | none => none
    | _, _ => none
  | _, _ => none

def txtName : Nat → String
  | 0 => "order.txt" | 1 => "traj.txt" | _ => "energy.txt"

def showFile : DFile → String
  | .txt p k => s!"{p}/{txtName k}"
  | .acc p nm => s!"{p}/accepted/{nm}"

def showDir : DDir → String
  | .path p => s!"{p}/"
  | .accepted p => s!"{p}/accepted/"

def showNats (l : List Nat) : String := ",".intercalate (l.map toString)

def showSt (s : St) (e : Option Err) : String :=
  let es := match e with | none => "ok" | some e => showErr e
  s!"{es} live:{showNats s.live} olds:{showNats (s.pnOlds.map (·.1))} restart:{showNats s.restart} disk:{",".intercalate ((s.disk.map showFile) ++ (s.dirs.map showDir)).eraseDups}"

/-- states after each op; stops after the first error -/
def trace : St → List Op → List String
  | _, [] => []
  | s, op :: ops =>
    match step s op with
    | (s', none) => showSt s' none :: trace s' ops
    | (s', some e) => [showSt s' (some e)]

def handle (toks : List String) : String :=
  match toks with
  | "store" :: st :: rest =>
    match parseNat? st, takeList unhexStr rest with
    | some st, some (mv, nf :: rest) =>
      match parseNat? nf with
      | some nf =>
        match takeFrames nf rest with
        | some (fs, []) =>
          let s := store st mv fs
          s!"T {showLines s.traj} | O {showLines s.order} | E {showLines s.energy} | A {" ".intercalate s.accepted} | L {showLoaded (loadStored s)}"
        | _ => "bad-op"
      | none => "bad-op"
    | _, _ => "bad-op"
  | "load" :: rest =>
    match takeList unhexStr rest with
    | some (files, rest) =>
      match takeFile rest with
      | some (t, rest) =>
        match takeFile rest with
        | some (o, rest) =>
          match takeFile rest with
          | some (e, []) => showLoaded (load t o e files)
          | _ => "bad-op"
        | none => "bad-op"
      | none => "bad-op"
    | none => "bad-op"
  | "hist" :: n :: d1 :: d2 :: v :: rest =>
    match parseNat? n, takeList some' rest with
    | some n, some (keep, ni :: rest) =>
      match parseNat? ni with
      | some ni =>
        match takeInit ni rest with
        | some (paths, no :: rest) =>
          match parseNat? no with
          | some no =>
            match takeOps no rest with
            | some (ops, []) =>
              let var := if v = "a" then Variant.asIs else Variant.repaired
              " | ".intercalate (trace (init n (d1 = "1") (d2 = "1") paths var keep) ops)
            | _ => "bad-op"
          | none => "bad-op"
        | _ => "bad-op"
      | none => "bad-op"
    | _, _ => "bad-op"
  | "stem" :: [x] => stemOf x
  | _ => "bad-op"

def main : IO Unit := mainWith handle
