import Infretis.Model.Proto
import Infretis.Model.PathAlg
open Infretis Infretis.Proto Infretis.PathAlg

/-
Line protocol of the C15 driver.

  prog <op>*            replay an op program on the heap machine; answer = log | dump
     new <ml> <t0>                         ml: '-' = None
     sys <i> <vals>                        vals = c0 c1 <list order> vr ek vp pos vel box temp
     app <i> <j> <k>
     iadd <i> <j>
     copy <i>
     rev <i> (- | f a b c vd) <rv>         order function [a*pos + (±b)*vel + c], sign − when vel_rev
     paste <i> <j> <ov> <ml>
     set <i> <k> <field> <value…>
     seti <i> <k> <x>
     pset <i> <field> <value>
     classify <i> <target> <list intf>     every classification method of paths[i], on its current frames
     repl <i> <k> <j> <l>                  paths[i].phasepoints[k] = paths[j].phasepoints[l]
     ext <i> <j>                           p.phasepoints = p.phasepoints[:-1] + q.phasepoints
     del <i> <k>                           del paths[i].phasepoints[k]
     cpa <i> <j> <k>                       paths[i].append(paths[j].phasepoints[k].copy())
     empty <i> <ml> <t0>                   paths.append(paths[i].empty_path(maxlen=ml, time_origin=t0))
     newsub <ml> <t0> <c>                  paths.append(<subclass c of Path>(ml, t0))
     pattr <i> <k>                         setattr(paths[i], "x<k>", 1)
     eq <i> <j> / ne <i> <j>               paths[i] == paths[j] / paths[i] != paths[j]
     shoot <i> <u>                         paths[i].get_shooting_point(stub generator: lo + u mod (hi-lo))
     upd <i> <list ekin> <list vpot>       paths[i].update_energies(ekin, vpot)
     emptyd <i> (omit|<ml>) (omit|<t0>)    empty_path with omitted keywords
     seta <i> <k> (pos|vel|box|temp) <x>   in-place paths[i].phasepoints[k].pos[0] = x
     adr <i>                               sorted(paths[i].adress)
     revvel <i> <k>                        paths[i].reverse_velocities(paths[i].phasepoints[k])
  seq <target> <list intf> <list ops>      classifySeq (the pure function of an order list)
  cls <list intf> <list ops>      ordermin / ordermax / check_interfaces
  sp <left> <right|-> <list ops>  get_start_point
  ep <left> <right|-> <list ops>  get_end_point
-/

def optInt? (s : String) : Option (Option Int) :=
  if s = "-" then some none else (parseInt? s).map some

def showOpt (x : Option Int) : String := match x with | none => "-" | some v => toString v

def bool? (s : String) : Option Bool := if s = "1" then some true else if s = "0" then some false else none

def linFn (a b c : Int) (vd : Bool) : OrderFn :=
  { velDep := vd, calcF := fun v => [a * v.pos + (if v.velRev then -b else b) * v.vel + c] }

def parseVals (toks : List String) : Option (Vals × List String) :=
  match toks with
  | c0 :: c1 :: rest =>
    match parseInt? c0, parseInt? c1, takeList parseInt? rest with
    | some c0, some c1, some (ord, vr :: ek :: vp :: pos :: vel :: box :: temp :: rest') =>
      match bool? vr, optInt? ek, optInt? vp, parseInt? pos, parseInt? vel, parseInt? box, parseInt? temp with
      | some vr, some ek, some vp, some pos, some vel, some box, some temp =>
        some ({ config := (c0, c1), order := ord, velRev := vr, ekin := ek, vpot := vp,
                pos := pos, vel := vel, box := box, temp := temp }, rest')
      | _, _, _, _, _, _, _ => none
    | _, _, _ => none
  | _ => none

def parseField (toks : List String) : Option (Field × List String) :=
  match toks with
  | "config" :: a :: b :: rest =>
    match parseInt? a, parseInt? b with
    | some a, some b => some (.config a b, rest)
    | _, _ => none
  | "order" :: rest => (takeList parseInt? rest).map (fun (o, r) => (.order o, r))
  | "velrev" :: b :: rest => (bool? b).map (fun b => (.velRev b, rest))
  | "ekin" :: x :: rest => (optInt? x).map (fun x => (.ekin x, rest))
  | "vpot" :: x :: rest => (optInt? x).map (fun x => (.vpot x, rest))
  | "pos" :: x :: rest => (parseInt? x).map (fun x => (.pos x, rest))
  | "vel" :: x :: rest => (parseInt? x).map (fun x => (.vel x, rest))
  | "box" :: x :: rest => (parseInt? x).map (fun x => (.box x, rest))
  | "temp" :: x :: rest => (parseInt? x).map (fun x => (.temp x, rest))
  | _ => none

def parsePField (toks : List String) : Option (PField × List String) :=
  match toks with
  | "maxlen" :: x :: rest => (optInt? x).map (fun x => (.maxlen x, rest))
  | "status" :: x :: rest => (parseInt? x).map (fun x => (.status x, rest))
  | "generated" :: x :: rest => (optInt? x).map (fun x => (.generated x, rest))
  | "pathnum" :: x :: rest => (optInt? x).map (fun x => (.pathNumber x, rest))
  | "weights" :: x :: rest => (optInt? x).map (fun x => (.weights x, rest))
  | "weight" :: x :: rest => (parseInt? x).map (fun x => (.weight x, rest))
  | "torigin" :: x :: rest => (parseInt? x).map (fun x => (.timeOrigin x, rest))
  | _ => none

def parseOp (toks : List String) : Option (Op × List String) :=
  match toks with
  | "new" :: ml :: t :: rest =>
    match optInt? ml, parseInt? t with
    | some ml, some t => some (.new ml t, rest)
    | _, _ => none
  | "sys" :: i :: rest =>
    match parseNat? i, parseVals rest with
    | some i, some (v, rest') => some (.sys i v, rest')
    | _, _ => none
  | "app" :: i :: j :: k :: rest =>
    match parseNat? i, parseNat? j, parseNat? k with
    | some i, some j, some k => some (.app i j k, rest)
    | _, _, _ => none
  | "iadd" :: i :: j :: rest =>
    match parseNat? i, parseNat? j with
    | some i, some j => some (.iadd i j, rest)
    | _, _ => none
  | "copy" :: i :: rest => (parseNat? i).map (fun i => (.copy i, rest))
  | "rev" :: i :: "-" :: rv :: rest =>
    match parseNat? i, bool? rv with
    | some i, some rv => some (.rev i none rv, rest)
    | _, _ => none
  | "rev" :: i :: "f" :: a :: b :: c :: vd :: rv :: rest =>
    match parseNat? i, parseInt? a, parseInt? b, parseInt? c, bool? vd, bool? rv with
    | some i, some a, some b, some c, some vd, some rv => some (.rev i (some (linFn a b c vd)) rv, rest)
    | _, _, _, _, _, _ => none
  | "paste" :: i :: j :: ov :: ml :: rest =>
    match parseNat? i, parseNat? j, bool? ov, optInt? ml with
    | some i, some j, some ov, some ml => some (.paste i j ov ml, rest)
    | _, _, _, _ => none
  | "set" :: i :: k :: rest =>
    match parseNat? i, parseNat? k, parseField rest with
    | some i, some k, some (f, rest') => some (.set i k f, rest')
    | _, _, _ => none
  | "seti" :: i :: k :: x :: rest =>
    match parseNat? i, parseNat? k, parseInt? x with
    | some i, some k, some x => some (.setItem i k x, rest)
    | _, _, _ => none
  | "pset" :: i :: rest =>
    match parseNat? i, parsePField rest with
    | some i, some (f, rest') => some (.pset i f, rest')
    | _, _ => none
  | "classify" :: i :: t :: rest =>
    match parseNat? i, parseInt? t, takeList parseInt? rest with
    | some i, some t, some (intf, rest') => some (.classify i intf t, rest')
    | _, _, _ => none
  | "repl" :: i :: k :: j :: l :: rest =>
    match parseNat? i, parseNat? k, parseNat? j, parseNat? l with
    | some i, some k, some j, some l => some (.repl i k j l, rest)
    | _, _, _, _ => none
  | "ext" :: i :: j :: rest =>
    match parseNat? i, parseNat? j with
    | some i, some j => some (.ext i j, rest)
    | _, _ => none
  | "cpa" :: i :: j :: k :: rest =>
    match parseNat? i, parseNat? j, parseNat? k with
    | some i, some j, some k => some (.cpa i j k, rest)
    | _, _, _ => none
  | "empty" :: i :: ml :: t :: rest =>
    match parseNat? i, optInt? ml, parseInt? t with
    | some i, some ml, some t => some (.emptyOf i ml t, rest)
    | _, _, _ => none
  | "del" :: i :: k :: rest =>
    match parseNat? i, parseNat? k with
    | some i, some k => some (.del i k, rest)
    | _, _ => none
  | "newsub" :: ml :: t :: c :: rest =>
    match optInt? ml, parseInt? t, parseNat? c with
    | some ml, some t, some c => some (.newSub ml t c, rest)
    | _, _, _ => none
  | "pattr" :: i :: k :: rest =>
    match parseNat? i, parseNat? k with
    | some i, some k => some (.pattr i k, rest)
    | _, _ => none
  | "eq" :: i :: j :: rest =>
    match parseNat? i, parseNat? j with
    | some i, some j => some (.eq i j, rest)
    | _, _ => none
  | "ne" :: i :: j :: rest =>
    match parseNat? i, parseNat? j with
    | some i, some j => some (.ne i j, rest)
    | _, _ => none
  | "shoot" :: i :: u :: rest =>
    match parseNat? i, parseNat? u with
    | some i, some u => some (.shoot i u, rest)
    | _, _ => none
  | "upd" :: i :: rest =>
    match parseNat? i, takeList parseInt? rest with
    | some i, some (ek, rest') =>
      match takeList parseInt? rest' with
      | some (vp, rest'') => some (.upd i ek vp, rest'')
      | none => none
    | _, _ => none
  | "emptyd" :: i :: ml :: t :: rest =>
    let ml' : Option (Option (Option Int)) := if ml = "omit" then some none else (optInt? ml).map some
    let t' : Option (Option Int) := if t = "omit" then some none else (parseInt? t).map some
    match parseNat? i, ml', t' with
    | some i, some ml, some t => some (.emptyDef i ml t, rest)
    | _, _, _ => none
  | "seta" :: i :: k :: a :: x :: rest =>
    let a' : Option Arr := match a with
      | "pos" => some .pos | "vel" => some .vel | "box" => some .box | "temp" => some .temp | _ => none
    match parseNat? i, parseNat? k, a', parseInt? x with
    | some i, some k, some a, some x => some (.setArrItem i k a x, rest)
    | _, _, _, _ => none
  | "adr" :: i :: rest => (parseNat? i).map (fun i => (.adr i, rest))
  | "revvel" :: i :: k :: rest =>
    match parseNat? i, parseNat? k with
    | some i, some k => some (.revVel i k, rest)
    | _, _ => none
  | _ => none

partial def parseOps (toks : List String) (acc : List Op) : Option (List Op) :=
  match toks with
  | [] => some acc.reverse
  | _ =>
    match parseOp toks with
    | none => none
    | some (op, rest) => parseOps rest (op :: acc)

/-- references in order of first appearance (paths in order, frames in order) -/
def firstSeen (xs : List Nat) : List Nat :=
  xs.foldl (fun acc x => if acc.contains x then acc else acc ++ [x]) []

def idxIn (xs : List Nat) (x : Nat) : Nat :=
  match xs with
  | [] => 0
  | y :: t => if y = x then 0 else 1 + idxIn t x

def showVals (v : Vals) (oo : Nat) (ids : String) : String :=
  s!"S {v.config.1} {v.config.2} o{oo} {showList toString v.order} {if v.velRev then 1 else 0} " ++
  s!"{showOpt v.ekin} {showOpt v.vpot} {v.pos} {v.vel} {v.box} {v.temp} {ids}"

def dump (m : Machine) : String :=
  let refs := firstSeen (m.paths.flatMap (·.frames))
  let syss := refs.map (fun r => (m.heap.look r).getD default)
  let oos := firstSeen (syss.map (·.orderObj))
  let ps := m.paths.map (fun p =>
    s!"P {showOpt p.maxlen} {p.status} {showOpt p.generated} {showOpt p.pathNumber} {showOpt p.weights} " ++
    s!"{p.weight} {p.timeOrigin} {showList (fun r => "r" ++ toString (idxIn refs r)) p.frames}")
  -- identities of the array / dict objects, canonical per kind (order of first appearance)
  let ps_ := firstSeen (syss.map (·.posObj))
  let vs_ := firstSeen (syss.map (·.velObj))
  let bs_ := firstSeen (syss.map (·.boxObj))
  let ts_ := firstSeen (syss.map (·.tempObj))
  let ss := syss.map (fun s => showVals s.v (idxIn oos s.orderObj)
    s!"p{idxIn ps_ s.posObj} v{idxIn vs_ s.velObj} b{idxIn bs_ s.boxObj} t{idxIn ts_ s.tempObj}")
  String.intercalate " ; " (ps ++ ss)

def handle (toks : List String) : String :=
  match toks with
  | "prog" :: rest =>
    match parseOps rest [] with
    | none => "bad-op"
    | some ops =>
      let m := Machine.init.run ops
      String.intercalate " " m.log ++ " | " ++ dump m
  | "seq" :: t :: rest =>
    match parseInt? t, takeList parseInt? rest with
    | some t, some (intf, rest') =>
      match takeList parseInt? rest' with
      | some (ops, []) => showCls (classifySeq ops intf t)
      | _ => "bad-op"
    | _, _ => "bad-op"
  | "cls" :: rest =>
    match takeList parseInt? rest with
    | some (intf, rest') =>
      match takeList parseInt? rest' with
      | some (ops, []) => s!"min={showVI (ordermin ops)} max={showVI (ordermax ops)} chk={showCheck (checkInterfaces ops intf)}"
      | _ => "bad-op"
    | none => "bad-op"
  | "sp" :: l :: r :: rest =>
    match parseInt? l, optInt? r, takeList parseInt? rest with
    | some l, some r, some (ops, []) =>
      match startPoint ops l r with
      | .ok s => showSideStart (some s)
      | .error e => showErr e
    | _, _, _ => "bad-op"
  | "ep" :: l :: r :: rest =>
    match parseInt? l, optInt? r, takeList parseInt? rest with
    | some l, some r, some (ops, []) =>
      match endPoint ops l r with
      | .ok s => showSideEnd (some s)
      | .error e => showErr e
    | _, _, _ => "bad-op"
  | _ => "bad-op"

def main : IO Unit := mainWith handle
