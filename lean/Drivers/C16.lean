import Infretis.Model.Proto
import Infretis.Model.Vel
import Infretis.Model.VelRoute
import Infretis.Model.VelFlow
import Infretis.Model.VelExtra
open Infretis Infretis.Proto Infretis.Vel Infretis.VelRoute Infretis.VelFlow Infretis.VelExtra

/-
Line protocol of C16 (one request per line):

  mod <engine> <vKin> <vRng> <T> <boltzmann> <zm:-|0|1> <sysEkin:-|rat> <massIn:list rat>
      <tmplBox:list rat> <sig:list rat> <cols z> <cols srcVel> <cols pos> <box:-|list rat> <ids:list nat>
    cols X := n X₁ … Xₙ with each Xᵢ a `list rat` (one column of a (npart, n) array)
  answer: stream method loc npart dim scaleSq | momSq | mass | beta | kinOld | kinNew | dek | vel | pos | box | ids

    `mod` runs `VelExtra.modifyVelocitiesS … hasRgen := true` (= `Vel.modifyVelocities` when the frame has as many atoms
    as the engine has masses; length-1 mass list: numpy's broadcast; otherwise  err:shape)
  mods <hasRgen:0|1> <same tokens as mod>        answer as mod, or  err:shape | err:norgen
  modt <vDim:asIs|repaired> <dim> <same tokens as mod, engine turtlemd>     runs `VelExtra.modifyTurtleD`; answer as mod
  lmass <asIs|repaired> <full|charge|other> <nAtoms> <nTypes> <massRows:-|list rat (id m id m …)>
        <atoms:-|nrows width v₁₁ … >             runs `VelExtra.getAtomMasses`
    answer  err:<notimplemented|value|index>  or  <list rat>

  shoot <engine> <vKin> <vRng> <idx:-|nat> <sameConf:0|1>
    runs prepareShootingPoint on a two-frame file and one System; answers which attributes of the
    copy differ from the source, whether the source object/arrays/files are unchanged

  route <engine> <move:sh|wf|zs> <hasSeg:0|1> <n> k₁ v₁ … kₙ vₙ
    kᵢ hex-encoded key; vᵢ := b0 | b1 | i<int> | f<rat> | s<hex string> | n (None)
    runs routeSettings; answer  err:<KeyError|TypeError>:<what>
      or  ok <ncalls> cfgflag=<0|1> gmxrefuses=<0|1> | <flag> <zm:-|0|1> <dict> | … one field per call … | after <dict>
    dict := n k₁ v₁ … (same encoding)

  draw <hasRgen:0|1> <beta> <mass:list rat> <sigma_v:-|list rat> <npart> <dim>
    runs drawMaxwellian; answer  err:value  or  <stream> <method> <loc> <npart> <dim> <scaleSq:list rat>
  kin <mass:list rat> <cols vel>
    answer  <kineticEnergyCode> <kineticEnergy>
  reset <mass:list rat> <cols vel>
    answer  <cols resetMomentum> | <momentum:list rat>
  gmass <table entry:-|rat>
    answer  err:value  or  <mass in electron masses>
  flow <engine> <gmx:trr|g96|other> <nframes> <idx:-|nat> <srcIsConf:0|1> <stale:0|1> <missing:0|1> <velRev:0|1>
    runs prepareShootingPointE on one System at (src, idx): src = file 7 (file 100 = conf when srcIsConf) holding
    frames 0..nframes-1 (frame k: pos [[k]], ids [k]); stale: conf (100) holds frame 99 beforehand; topology ids [1000]
    answer  err:<nofile|index|value|samefile>
      or    ok read=<k> ids=<frame|top> conf=<k1,k2,…> genvel=<k> cfg=<file>:<idx> velrev=<0|1> src_same=<0|1> sys_same=<0|1>
-/

def parseEngine : String → Option Engine
  | "gromacs" => some .gromacs | "cp2k" => some .cp2k | "lammps" => some .lammps
  | "ase" => some .ase | "turtlemd" => some .turtlemd | _ => none

def parseVariant : String → Option Variant
  | "asIs" => some .asIs | "repaired" => some .repaired | _ => none

def parseOptRat (s : String) : Option (Option Rat) :=
  if s = "-" then some none else (parseRat? s).map some

def parseOptBool : String → Option (Option Bool)
  | "-" => some none | "0" => some (some false) | "1" => some (some true) | _ => none

/-- n columns, each a length-prefixed list of rationals -/
def takeCols : Nat → List String → Option (List (List Rat) × List String)
  | 0, rest => some ([], rest)
  | n + 1, rest =>
    match takeList parseRat? rest with
    | none => none
    | some (c, rest) =>
      match takeCols n rest with
      | none => none
      | some (cs, rest) => some (c :: cs, rest)

def takeColsP : List String → Option (List (List Rat) × List String)
  | [] => none
  | n :: rest => match parseNat? n with
    | none => none
    | some k => takeCols k rest

def takeOptList : List String → Option (Option (List Rat) × List String)
  | "-" :: rest => some (none, rest)
  | rest => (takeList parseRat? rest).map (fun (l, r) => (some l, r))

def showRats (l : List Rat) : String := showList showRat l
def showCols (c : List (List Rat)) : String :=
  toString c.length ++ (c.foldl (fun acc x => acc ++ " " ++ showRats x) "")
def showOptRats : Option (List Rat) → String
  | none => "-" | some l => showRats l
def showDek : Dek → String
  | .inf => "inf" | .val q => showRat q
def showStream : Stream → String
  | .engineRgen => "rgen" | .numpyGlobal => "global"

structure ModArgs where
  eng : Engine
  vk : Variant
  vr : Variant
  s : Setup
  src : Frame
  ek : Option Rat
  zm : Option Bool
  sig : List Rat
  z : List (List Rat)

def parseMod (toks : List String) : Option ModArgs := do
  match toks with
  | eng :: vk :: vr :: t :: b :: zm :: ek :: rest =>
    let eng ← parseEngine eng
    let vk ← parseVariant vk
    let vr ← parseVariant vr
    let t ← parseRat? t
    let b ← parseRat? b
    let zm ← parseOptBool zm
    let ek ← parseOptRat ek
    let (massIn, rest) ← takeList parseRat? rest
    let (tmpl, rest) ← takeList parseRat? rest
    let (sig, rest) ← takeList parseRat? rest
    let (z, rest) ← takeColsP rest
    let (sv, rest) ← takeColsP rest
    let (pos, rest) ← takeColsP rest
    let (box, rest) ← takeOptList rest
    let (ids, rest) ← takeList parseNat? rest
    if rest ≠ [] then none
    let s : Setup := { engine := eng, temperature := t, boltzmann := b, massIn := massIn, tmplBox := tmpl }
    let src : Frame := { pos := pos, vel := sv, box := box, ids := ids }
    some { eng := eng, vk := vk, vr := vr, s := s, src := src, ek := ek, zm := zm, sig := sig, z := z }
  | _ => none

def showResult (a : ModArgs) (r : Result) : String :=
  let q := r.request
  let momSq := match a.eng with | .ase => aseMomSq a.s | _ => []
  String.intercalate " | " [
    s!"{showStream q.stream} {q.method} {showRat q.loc} {q.npart} {q.dim} {showOptRats q.scaleSq}",
    showRats momSq, showRats (mass a.s), showRat (beta a.s),
    (match r.kinOld with | none => "-" | some k => showRat k),
    showRat r.kinNew, showDek r.dek, showCols r.frame.vel, showCols r.frame.pos,
    showOptRats r.frame.box, showList toString r.frame.ids]

def handleModS (hasRgen : Bool) (toks : List String) : Option String := do
  let a ← parseMod toks
  match modifyVelocitiesS a.vk a.vr hasRgen a.s a.src a.ek a.zm a.sig a.z with
  | .error .shape => some "err:shape"
  | .error .noRgen => some "err:norgen"
  | .ok r => some (showResult a r)

def handleMod (toks : List String) : Option String := handleModS true toks

def handleModsOp (toks : List String) : Option String :=
  match toks with
  | "0" :: rest => handleModS false rest
  | "1" :: rest => handleModS true rest
  | _ => none

def handleModT (toks : List String) : Option String := do
  match toks with
  | vd :: dim :: rest =>
    let vd ← parseVariant vd
    let dim ← parseNat? dim
    let a ← parseMod rest
    if a.eng ≠ .turtlemd then none
    some (showResult a (modifyTurtleD vd dim a.s a.src a.zm a.sig a.z))
  | _ => none

def pairUp : List Rat → Option (List (Rat × Rat))
  | [] => some []
  | a :: b :: t => (pairUp t).map (fun r => (a, b) :: r)
  | _ => none

def takeRows (w : Nat) : Nat → List Rat → Option (List (List Rat))
  | 0, [] => some []
  | 0, _ => none
  | n + 1, l => if l.length < w then none else (takeRows w n (l.drop w)).map (fun r => l.take w :: r)

def handleLMass (toks : List String) : Option String := do
  match toks with
  | v :: st :: na :: nt :: rest =>
    let v ← parseVariant v
    let st ← (match st with | "full" => some AtomStyle.full | "charge" => some AtomStyle.charge
                            | "other" => some AtomStyle.other | _ => none)
    let na ← parseNat? na
    let nt ← parseNat? nt
    let (mr, rest) ← takeOptList rest
    let mr : Option (List (Rat × Rat)) ← (match mr with | none => some none | some l => (pairUp l).map some)
    let atoms : Option (List (List Rat)) ← (match rest with
      | ["-"] => some none
      | nr :: w :: vals => do
        let nr ← parseNat? nr
        let w ← parseNat? w
        let vals ← vals.mapM parseRat?
        let rows ← takeRows w nr vals
        some (some rows)
      | _ => none)
    match getAtomMasses v st { nAtoms := na, nTypes := nt, massRows := mr, atoms := atoms } with
    | .error .notImplemented => some "err:notimplemented"
    | .error .value => some "err:value"
    | .error .index => some "err:index"
    | .ok ms => some (showRats ms)
  | _ => none

def diffSys (a b : Sys) : String :=
  String.intercalate "," (
    (if a.config ≠ b.config then ["config"] else []) ++
    (if a.order ≠ b.order then ["order"] else []) ++
    (if a.pos ≠ b.pos then ["pos"] else []) ++
    (if a.vel ≠ b.vel then ["vel"] else []) ++
    (if a.box ≠ b.box then ["box"] else []) ++
    (if a.temperature ≠ b.temperature then ["temperature"] else []) ++
    (if a.velRev ≠ b.velRev then ["vel_rev"] else []) ++
    (if a.ekin ≠ b.ekin then ["ekin"] else []) ++
    (if a.vpot ≠ b.vpot then ["vpot"] else []))

def handleShoot (toks : List String) : Option String := do
  match toks with
  | [eng, vk, vr, idx, sameConf] =>
    let eng ← parseEngine eng
    let vk ← parseVariant vk
    let vr ← parseVariant vr
    let idx : Option Nat ← (if idx = "-" then some none else (parseNat? idx).map some)
    let fr0 : Frame := { pos := [[0, 1], [0, 0], [0, 0]], vel := [[1, 0], [0, 2], [0, 0]], box := some [9, 9, 9], ids := [1, 2] }
    let fr1 : Frame := { pos := [[2, 3], [0, 0], [1, 0]], vel := [[0, 1], [1, 0], [0, 0]], box := some [9, 9, 9], ids := [1, 2] }
    let srcFile := if sameConf = "1" then 100 else 7
    let sp : Sys := { config := (srcFile, idx), order := 0, pos := 1, vel := 1, box := 2, temperature := 3,
                      velRev := true, ekin := some 5, vpot := some (-3) }
    let h : Heap := { systems := [sp], objs := [[1 / 2], [], [0, 0, 0], []], files := [(srcFile, [fr0, fr1])] }
    let s : Setup := { engine := eng, temperature := 300, boltzmann := 1, massIn := [1, 2], tmplBox := [30, 30, 30] }
    match prepareShootingPoint vk vr s h 0 100 101 (some true) [1, 1] [[1, 0], [0, 1], [1, 1]] [7 / 10] with
    | .error .nofile => some "err:nofile"
    | .error .index => some "err:index"
    | .ok sh =>
      let srcSame : Bool := decide (sh.heap.systems[0]? = some sp)
      let objsSame : Bool := decide (sh.heap.objs.take h.objs.length = h.objs)
      let fileSame : Bool := decide (sh.heap.readFile srcFile = h.readFile srcFile)
      let cp := sh.heap.systems[sh.copy]?
      let d := match cp with | some c => diffSys sp c | none => "?"
      let nconf := match sh.heap.readFile 100 with | some l => l.length | none => 0
      some s!"copy@{sh.copy} nsys={sh.heap.systems.length} changed={d} src_same={srcSame} objs_same={objsSame} srcfile_same={fileSame} conf_frames={nconf}"
  | _ => none


def parseSVal (s : String) : Option SVal :=
  if s = "b0" then some (.bool false) else if s = "b1" then some (.bool true)
  else if s = "n" then some .none
  else match s.toList with
    | 'i' :: r => (parseInt? (String.ofList r)).map .int
    | 'f' :: r => (parseRat? (String.ofList r)).map .float
    | 's' :: r => (unhexStr (String.ofList r)).map .str
    | _ => none

def showSVal : SVal → String
  | .bool b => if b then "b1" else "b0"
  | .int i => "i" ++ toString i
  | .float q => "f" ++ showRat q
  | .str t => "s" ++ hexStr t
  | .none => "n"

def takePairs : Nat → List String → Option (Settings × List String)
  | 0, rest => some ([], rest)
  | n + 1, k :: v :: rest => do
    let k ← unhexStr k
    let v ← parseSVal v
    let (t, rest) ← takePairs n rest
    some ((k, v) :: t, rest)
  | _, _ => none

def showSettings (d : Settings) : String :=
  toString d.length ++ d.foldl (fun acc p => acc ++ " " ++ hexStr p.1 ++ " " ++ showSVal p.2) ""

def showB (b : Bool) : String := if b then "1" else "0"

def handleRoute (toks : List String) : Option String := do
  match toks with
  | eng :: mv :: seg :: n :: rest =>
    let eng ← parseEngine eng
    let mv ← (match mv with | "sh" => some Move.sh | "wf" => some Move.wf | "zs" => some Move.zeroSwap | _ => none)
    let n ← parseNat? n
    let (ts, rest) ← takePairs n rest
    if rest ≠ [] then none
    match routeSettings mv ts (seg = "1") with
    | .error (.keyError k) => some s!"err:KeyError:{k}"
    | .error (.typeError w) => some s!"err:TypeError:{w}"
    | .ok r =>
      let head := s!"ok {r.calls.length} cfgflag={showB (effectiveZeroMomentum eng ts)} gmxrefuses={showB (gmxOwnGenvelRefuses ts)}"
      let calls := r.calls.map (fun d =>
        let zm := match zmEntry d with | Option.none => "-" | some b => showB b
        s!"{showB (effectiveZeroMomentum eng d)} {zm} {showSettings d}")
      some (String.intercalate " | " ([head] ++ calls ++ ["after " ++ showSettings r.tisSetAfter]))
  | _ => none

def handleDraw (toks : List String) : Option String := do
  match toks with
  | hr :: b :: rest =>
    let b ← parseRat? b
    let (ms, rest) ← takeList parseRat? rest
    let (sv, rest) ← takeOptList rest
    match rest with
    | [np, dm] =>
      let np ← parseNat? np
      let dm ← parseNat? dm
      match drawMaxwellian (hr = "1") b ms sv np dm with
      | .error .noRgen => some "err:value"
      | .ok q => some s!"{showStream q.stream} {q.method} {showRat q.loc} {q.npart} {q.dim} {showOptRats q.scaleSq}"
    | _ => none
  | _ => none

def handleKin (toks : List String) : Option String := do
  let (ms, rest) ← takeList parseRat? toks
  let (vel, rest) ← takeColsP rest
  if rest ≠ [] then none
  some s!"{showRat (kineticEnergyCode ms vel)} {showRat (kineticEnergy ms vel)}"

def handleReset (toks : List String) : Option String := do
  let (ms, rest) ← takeList parseRat? toks
  let (vel, rest) ← takeColsP rest
  if rest ≠ [] then none
  let v := resetMomentum ms vel
  some s!"{showCols v} | {showRats (momentum ms v)}"

def handleFlow (toks : List String) : Option String := do
  match toks with
  | [eng, gx, nf, idx, sic, stale, missing, vrev] =>
    let eng ← parseEngine eng
    let gx ← (match gx with | "trr" => some GmxSrc.trr | "g96" => some GmxSrc.g96 | "other" => some GmxSrc.other | _ => none)
    let nf ← parseNat? nf
    let idx : Option Nat ← (if idx = "-" then some none else (parseNat? idx).map some)
    let mk (k : Nat) : Frame := { pos := [[(k : Rat)]], vel := [[1]], box := some [9], ids := [k] }
    let srcFile := if sic = "1" then 100 else 7
    let srcFrames := (List.range nf).map mk
    let files0 : List (Nat × List Frame) := if missing = "1" then [] else [(srcFile, srcFrames)]
    let files := if stale = "1" ∧ sic ≠ "1" then files0 ++ [(100, [mk 99])] else files0
    let sp : Sys := { config := (srcFile, idx), order := 0, pos := 1, vel := 1, box := 1, temperature := 1,
                      velRev := (vrev = "1"), ekin := some 5, vpot := some (-3) }
    let h : Heap := { systems := [sp], objs := [[1 / 2], []], files := files }
    let s : Setup := { engine := eng, temperature := 300, boltzmann := 1, massIn := [1] }
    match prepareShootingPointE codeVariant codeVariant s gx [1000] h 0 100 101 none [1] [[1]] [7 / 10] with
    | .error .nofile => some "err:nofile"
    | .error .index => some "err:index"
    | .error .value => some "err:value"
    | .error .sameFile => some "err:samefile"
    | .ok sh =>
      let fid (f : Frame) : String := match f.pos with | [[q]] => showRat q | _ => "?"
      let ids := if sh.readFrame.ids = [1000] then "top" else "frame"
      let conf := match sh.heap.readFile 100 with | some l => String.intercalate "," (l.map fid) | none => "-"
      let gv := match sh.heap.readFile 101 with | some [f] => fid f | _ => "?"
      let cp := sh.heap.systems[sh.copy]?
      let cfg := match cp with
        | some c => s!"{c.config.1}:{match c.config.2 with | some i => toString i | none => "-"}"
        | none => "?"
      let vr := match cp with | some c => showB c.velRev | none => "?"
      let srcSame := showB (decide (missing = "1" ∨ srcFile = 100 ∨ sh.heap.readFile srcFile = h.readFile srcFile))
      let sysSame := showB (decide (sh.heap.systems[0]? = some sp))
      some s!"ok read={fid sh.readFrame} ids={ids} conf={conf} genvel={gv} cfg={cfg} velrev={vr} src_same={srcSame} sys_same={sysSame}"
  | _ => none

def handleGmass (toks : List String) : Option String := do
  match toks with
  | [t] =>
    let e ← parseOptRat t
    match guessParticleMass e with
    | .error .unknownElement => some "err:value"
    | .ok m => some (showRat m)
  | _ => none

def handle (toks : List String) : String :=
  match toks with
  | "mod" :: rest => (handleMod rest).getD "bad-op"
  | "mods" :: rest => (handleModsOp rest).getD "bad-op"
  | "modt" :: rest => (handleModT rest).getD "bad-op"
  | "lmass" :: rest => (handleLMass rest).getD "bad-op"
  | "shoot" :: rest => (handleShoot rest).getD "bad-op"
  | "route" :: rest => (handleRoute rest).getD "bad-op"
  | "draw" :: rest => (handleDraw rest).getD "bad-op"
  | "kin" :: rest => (handleKin rest).getD "bad-op"
  | "reset" :: rest => (handleReset rest).getD "bad-op"
  | "flow" :: rest => (handleFlow rest).getD "bad-op"
  | "gmass" :: rest => (handleGmass rest).getD "bad-op"
  | _ => "bad-op"

def main : IO Unit := mainWith handle
