import Infretis.Model.Proto
import Infretis.Model.Vel
open Infretis Infretis.Proto Infretis.Vel

/-
Line protocol of C16 (one request per line):

  mod <engine> <vKin> <vRng> <T> <boltzmann> <zm:-|0|1> <sysEkin:-|rat> <massIn:list rat>
      <tmplBox:list rat> <sig:list rat> <cols z> <cols srcVel> <cols pos> <box:-|list rat> <ids:list nat>
    cols X := n X₁ … Xₙ with each Xᵢ a `list rat` (one column of a (npart, n) array)
  answer: stream method loc npart dim scaleSq | momSq | mass | beta | kinOld | kinNew | dek | vel | pos | box | ids

  shoot <engine> <vKin> <vRng> <idx:-|nat> <sameConf:0|1>
    runs prepareShootingPoint on a two-frame file and one System; answers which attributes of the
    copy differ from the source, whether the source object/arrays/files are unchanged
-/

def parseEngine : String → Option Engine
  | "gromacs" => some .gromacs | "cp2k" => some .cp2k | "lammps" => some .lammps
  | "ase" => some .ase | "turtlemd" => some .turtlemd | _ => none

def parseVariant : String → Option Variant
  | "asIs" => some .asIs | "repaired" => some .repaired | _ => none

def parseOptRat (s : String) : Option (Option Rat) :=
  if s = "-" then some none else (parseRat? s).map some

def parseOptBool : String → Option (Option Bool)
  | "-" => some none | "0" => some (some false) | "1" => some (some true) | _ => none

/-- n columns, each a length-prefixed list of rationals -/
def takeCols : Nat → List String → Option (List (List Rat) × List String)
  | 0, rest => some ([], rest)
  | n + 1, rest =>
    match takeList parseRat? rest with
    | none => none
    | some (c, rest) =>
      match takeCols n rest with
      | none => none
      | some (cs, rest) => some (c :: cs, rest)

def takeColsP : List String → Option (List (List Rat) × List String)
  | [] => none
  | n :: rest => match parseNat? n with
    | none => none
    | some k => takeCols k rest

def takeOptList : List String → Option (Option (List Rat) × List String)
  | "-" :: rest => some (none, rest)
  | rest => (takeList parseRat? rest).map (fun (l, r) => (some l, r))

def showRats (l : List Rat) : String := showList showRat l
def showCols (c : List (List Rat)) : String :=
  toString c.length ++ (c.foldl (fun acc x => acc ++ " " ++ showRats x) "")
def showOptRats : Option (List Rat) → String
  | none => "-" | some l => showRats l
def showDek : Dek → String
  | .inf => "inf" | .val q => showRat q
def showStream : Stream → String
  | .engineRgen => "rgen" | .numpyGlobal => "global"

def handleMod (toks : List String) : Option String := do
  match toks with
  | eng :: vk :: vr :: t :: b :: zm :: ek :: rest =>
    let eng ← parseEngine eng
    let vk ← parseVariant vk
    let vr ← parseVariant vr
    let t ← parseRat? t
    let b ← parseRat? b
    let zm ← parseOptBool zm
    let ek ← parseOptRat ek
    let (massIn, rest) ← takeList parseRat? rest
    let (tmpl, rest) ← takeList parseRat? rest
    let (sig, rest) ← takeList parseRat? rest
    let (z, rest) ← takeColsP rest
    let (sv, rest) ← takeColsP rest
    let (pos, rest) ← takeColsP rest
    let (box, rest) ← takeOptList rest
    let (ids, rest) ← takeList parseNat? rest
    if rest ≠ [] then none
    let s : Setup := { engine := eng, temperature := t, boltzmann := b, massIn := massIn, tmplBox := tmpl }
    let src : Frame := { pos := pos, vel := sv, box := box, ids := ids }
    let r := modifyVelocities vk vr s src ek zm sig z
    let q := r.request
    let momSq := match eng with | .ase => aseMomSq s | _ => []
    some (String.intercalate " | " [
      s!"{showStream q.stream} {q.method} {showRat q.loc} {q.npart} {q.dim} {showOptRats q.scaleSq}",
      showRats momSq, showRats (mass s), showRat (beta s),
      (match r.kinOld with | none => "-" | some k => showRat k),
      showRat r.kinNew, showDek r.dek, showCols r.frame.vel, showCols r.frame.pos,
      showOptRats r.frame.box, showList toString r.frame.ids])
  | _ => none

def diffSys (a b : Sys) : String :=
  String.intercalate "," (
    (if a.config ≠ b.config then ["config"] else []) ++
    (if a.order ≠ b.order then ["order"] else []) ++
    (if a.pos ≠ b.pos then ["pos"] else []) ++
    (if a.vel ≠ b.vel then ["vel"] else []) ++
    (if a.box ≠ b.box then ["box"] else []) ++
    (if a.temperature ≠ b.temperature then ["temperature"] else []) ++
    (if a.velRev ≠ b.velRev then ["vel_rev"] else []) ++
    (if a.ekin ≠ b.ekin then ["ekin"] else []) ++
    (if a.vpot ≠ b.vpot then ["vpot"] else []))

def handleShoot (toks : List String) : Option String := do
  match toks with
  | [eng, vk, vr, idx, sameConf] =>
    let eng ← parseEngine eng
    let vk ← parseVariant vk
    let vr ← parseVariant vr
    let idx : Option Nat ← (if idx = "-" then some none else (parseNat? idx).map some)
    let fr0 : Frame := { pos := [[0, 1], [0, 0], [0, 0]], vel := [[1, 0], [0, 2], [0, 0]], box := some [9, 9, 9], ids := [1, 2] }
    let fr1 : Frame := { pos := [[2, 3], [0, 0], [1, 0]], vel := [[0, 1], [1, 0], [0, 0]], box := some [9, 9, 9], ids := [1, 2] }
    let srcFile := if sameConf = "1" then 100 else 7
    let sp : Sys := { config := (srcFile, idx), order := 0, pos := 1, vel := 1, box := 2, temperature := 3,
                      velRev := true, ekin := some 5, vpot := some (-3) }
    let h : Heap := { systems := [sp], objs := [[1 / 2], [], [0, 0, 0], []], files := [(srcFile, [fr0, fr1])] }
    let s : Setup := { engine := eng, temperature := 300, boltzmann := 1, massIn := [1, 2], tmplBox := [30, 30, 30] }
    match prepareShootingPoint vk vr s h 0 100 101 (some true) [1, 1] [[1, 0], [0, 1], [1, 1]] [7 / 10] with
    | .error .nofile => some "err:nofile"
    | .error .index => some "err:index"
    | .ok sh =>
      let srcSame : Bool := decide (sh.heap.systems[0]? = some sp)
      let objsSame : Bool := decide (sh.heap.objs.take h.objs.length = h.objs)
      let fileSame : Bool := decide (sh.heap.readFile srcFile = h.readFile srcFile)
      let cp := sh.heap.systems[sh.copy]?
      let d := match cp with | some c => diffSys sp c | none => "?"
      let nconf := match sh.heap.readFile 100 with | some l => l.length | none => 0
      some s!"copy@{sh.copy} nsys={sh.heap.systems.length} changed={d} src_same={srcSame} objs_same={objsSame} srcfile_same={fileSame} conf_frames={nconf}"
  | _ => none

def handle (toks : List String) : String :=
  match toks with
  | "mod" :: rest => (handleMod rest).getD "bad-op"
  | "shoot" :: rest => (handleShoot rest).getD "bad-op"
  | _ => "bad-op"

def main : IO Unit := mainWith handle
