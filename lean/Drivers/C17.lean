import Infretis.Model.RunnerProto
import Infretis.Model.RunnerSysProto
import Infretis.Model.RunnerSysXProto
import Infretis.Model.SchedCtrProto
import Infretis.Model.RepexProto
import Infretis.Model.SchedDiskProto
/-! C17 driver: `runner-…` ops go to the stateless runner handler (trace validation), `rx-…` ops to the runner system
    with the exception classes `_task_wrapper` does not handle (`RunnerSysX.xstep`), `rsys-…` ops to the
    fine-grained runner system (the runner's own code as a transition system), `sched-…` ops to the
    counter-level scheduler model, `sd-…` ops to the scheduler-with-files system (`SchedDisk.dstep`: whole
    scheduler events with write points, death and stop(); stateful, begun from the current sampler state),
    everything else to the stateful replica-exchange protocol (scheduler arithmetic). -/
open Infretis.Repex

def stateless (toks : List String) : Option String :=
  match Infretis.Runner.handle toks with
  | some r => some r
  | none =>
    match Infretis.RunnerSysX.handle toks with
    | some r => some r
    | none =>
    match Infretis.RunnerSys.handle toks with
    | some r => some r
    | none => Infretis.SchedCtr.handle toks

partial def c17Loop (h out : IO.FS.Stream) (d : DState) (sd : Option Infretis.SchedDisk.DSys) : IO Unit := do
  let line ← h.getLine
  if line.isEmpty then
    out.flush
    return ()
  let l := (line.dropEndWhile (fun c => c = '\n' || c = '\r')).toString
  let toks := (l.splitOn " ").filter (fun t => t ≠ "")
  match stateless toks with
  | some r =>
    out.putStrLn r
    c17Loop h out d sd
  | none =>
    match Infretis.SchedDisk.handleSd d sd toks with
    | some (sd', ans) =>
      out.putStrLn ans
      c17Loop h out d sd'
    | none =>
      let (d', ans) := handle d toks
      out.putStrLn ans
      c17Loop h out d' sd

def main : IO Unit := do
  c17Loop (← IO.getStdin) (← IO.getStdout) { s := emptySt } none
