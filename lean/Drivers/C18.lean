import Infretis.Model.Proto
import Infretis.Model.Config
import Infretis.Model.WF
import Infretis.Model.ConfigInit
open Infretis Infretis.Proto Infretis.Config

/-
Requests (one per line):
  <op> <cfg>      op ∈ check | setup | valid | init | all
  <cfg> := <interfaces : list int> <workers : int> <moves : list 0/1> <cap : - | int>
           <lm1 : A | F | int> <quantis : - | 0 | 1>
           <ensemble_engines : - | list (list str)> <engines : list (str cls ip other)>   ip := - | nat
           <seed : - | int> <accept_all : - | 0 | 1> [<current.size : - | nat> [<interfaces are numbers : 0 | 1>]]   (absent = "-": no [current] table; 1)
  checkasis / loadasis: the code before /repo commit 971ccbc (`checkAsIs`, `startUpAsIs`)
-/

def showErr : Err → String
  | .config => "err:config" | .index => "err:index" | .key => "err:key"

def optTok {α : Type} (p : String → Option α) (s : String) : Option (Option α) :=
  if s = "-" then some none else (p s).map some

def parseBool? (s : String) : Option Bool :=
  if s = "1" then some true else if s = "0" then some false else none

/-- n lists, each length-prefixed -/
def takeLists : Nat → List String → Option (List (List String) × List String)
  | 0, rest => some ([], rest)
  | k + 1, rest =>
    match takeList unhexStr rest with
    | none => none
    | some (l, rest) =>
      match takeLists k rest with
      | none => none
      | some (ls, rest) => some (l :: ls, rest)

def takeEngines : Nat → List String → Option (List (String × Engine) × List String)
  | 0, rest => some ([], rest)
  | k + 1, name :: cls :: ip :: other :: rest =>
    match unhexStr name, parseNat? cls, optTok parseNat? ip, parseNat? other, takeEngines k rest with
    | some name, some cls, some ip, some other, some (es, rest) =>
      some ((name, { cls := cls, inputPath := ip, other := other }) :: es, rest)
    | _, _, _, _, _ => none
  | _ + 1, _ => none

def parseLm1 (s : String) : Option Lm1 :=
  if s = "A" then some .absent else if s = "F" then some .off else (parseInt? s).map .val

def parseCfg (toks : List String) : Option Cfg := do
  let (intf, rest) ← takeList parseInt? toks
  match rest with
  | w :: rest =>
    let w ← parseInt? w
    let (mv, rest) ← takeList parseBool? rest
    match rest with
    | cap :: lm1 :: q :: rest =>
      let cap ← optTok parseInt? cap
      let lm1 ← parseLm1 lm1
      let q ← optTok parseBool? q
      let (ee, rest) ←
        (match rest with
         | "-" :: rest => some (none, rest)
         | n :: rest => do
           let n ← parseNat? n
           let (ls, rest) ← takeLists n rest
           pure (some ls, rest)
         | [] => none : Option (Option (List (List String)) × List String))
      match rest with
      | ne :: rest =>
        let ne ← parseNat? ne
        let (engs, rest) ← takeEngines ne rest
        match rest with
        | [seed, acc] =>
          let seed ← optTok parseInt? seed
          let acc ← optTok parseBool? acc
          pure { interfaces := intf, workers := w, moves := mv, cap := cap, lm1 := lm1, quantis := q,
                 ensEngines := ee, engines := engs, seed := seed, acceptAll := acc }
        | [seed, acc, size] =>
          let seed ← optTok parseInt? seed
          let acc ← optTok parseBool? acc
          let size ← optTok parseNat? size
          pure { interfaces := intf, workers := w, moves := mv, cap := cap, lm1 := lm1, quantis := q,
                 ensEngines := ee, engines := engs, seed := seed, acceptAll := acc, curSize := size }
        | [seed, acc, size, num] =>
          let seed ← optTok parseInt? seed
          let acc ← optTok parseBool? acc
          let size ← optTok parseNat? size
          let num ← parseBool? num
          pure { interfaces := intf, workers := w, moves := mv, cap := cap, lm1 := lm1, quantis := q,
                 ensEngines := ee, engines := engs, seed := seed, acceptAll := acc, curSize := size,
                 intfNumeric := num }
        | _ => none
      | [] => none
    | _ => none
  | [] => none

def showOptBool : Option Bool → String
  | none => "-" | some true => "1" | some false => "0"

def showLm1 : Lm1 → String
  | .absent => "A" | .off => "F" | .val x => toString x

def showEE : Option (List (List String)) → String
  | none => "-"
  | some ee => showList (fun l => showList hexStr l) ee

/-- the fields the defaults block may touch -/
def showNorm (c : Cfg) : String :=
  s!"ee={showEE c.ensEngines} seed={match c.seed with | none => "-" | some s => toString s} " ++
  s!"quantis={showOptBool c.quantis} lm1={showLm1 c.lm1} acc={showOptBool c.acceptAll}"

def showUnit : Except Err Unit → String
  | .ok () => "ok" | .error e => showErr e

def showSetup : Except Err Cfg → String
  | .ok c => "ok " ++ showNorm c
  | .error e => showErr e

def showEns (e : Ens) : String :=
  let l := match e.left with | none => "-inf" | some q => showRat q
  s!"{l},{showRat e.middle},{showRat e.right},{if e.wf then 1 else 0},{if e.startL then "L" else ""}{if e.startR then "R" else ""}"

def showInit : Except Err (List Ens) → String
  | .ok es => showList showEns es
  | .error e => showErr e

def showFile : Except Err (Option Cfg) → String
  | .ok none => "none"
  | .ok (some c) => "ok " ++ showNorm c
  | .error e => showErr e

/-- `restart <cstep> <restarted_from : - | int> <steps> <paths present : 0|1> <cfg>` -/
def handleRestart (toks : List String) : String :=
  match toks with
  | cs :: rf :: st :: pp :: rest =>
    match parseInt? cs, optTok parseInt? rf, parseInt? st, parseBool? pp, parseCfg rest with
    | some cs, some rf, some st, some pp, some c =>
      showFile (setupFile c (some { cstep := cs, restartedFrom := rf, steps := st, pathsPresent := pp }))
    | _, _, _, _, _ => "bad-op"
  | _ => "bad-op"

/-- `cv <cap : - | int> <interfaces> <moves[1:] as 0/1> <order values>` — the weight vector
    `calc_cv_vector` gives a plus path (model `Infretis.WF.cvVector`, the one C10 proves things about) -/
def handleCv (toks : List String) : String :=
  match toks with
  | cap :: rest =>
    match optTok parseInt? cap, takeList parseInt? rest with
    | some capv, some (intfs, rest) =>
      match takeList parseNat? rest with
      | some (mv, rest) =>
        match takeList parseInt? rest with
        | some (ops, []) =>
          (match Infretis.WF.cvVector ops intfs (mv.map (· = 1)) capv with
           | .ok ws => showList toString ws
           | .error .assert => "err:assert"
           | .error .index => "err:index"
           | .error .value => "err:value")
        | _ => "bad-op"
      | none => "bad-op"
    | _, _ => "bad-op"
  | [] => "bad-op"

def showInitErr : InitErr → String
  | .cfg e => showErr e
  | .wf .assert => "err:assert"
  | .wf .index => "err:index"
  | .wf .value => "err:value"
  | .assert => "err:assert"
  | .index => "err:index"
  | .value => "err:value"

def takeIntLists : Nat → List String → Option (List (List Int) × List String)
  | 0, rest => some ([], rest)
  | k + 1, rest =>
    match takeList parseInt? rest with
    | none => none
    | some (l, rest) =>
      match takeIntLists k rest with
      | none => none
      | some (ls, rest) => some (l :: ls, rest)

def showInitState (s : InitState) : String :=
  s!"ok cap={match s.cap with | none => "-" | some x => toString x} " ++
  s!"intf={showList toString s.interfaces} moves={showList (fun b => if b then "1" else "0") s.moves} " ++
  s!"W={showList (fun r => showList toString r) s.matrix}"

/-- `load <k> <order values of path 0> … <of path k-1> <cfg>` — `setup_config` then `setup_internal`
    (model `Infretis.Config.startUp`): the W matrix of the state after `load_paths` and the first md_items;
    `internal …` — `setup_internal` alone on the configuration as given (`Infretis.Config.setupInternal`) -/
def handleLoad (whole : Nat) (toks : List String) : String :=
  match toks with
  | k :: rest =>
    match parseNat? k with
    | none => "bad-op"
    | some k =>
      match takeIntLists k rest with
      | none => "bad-op"
      | some (paths, rest) =>
        match parseCfg rest with
        | none => "bad-op"
        | some c =>
          match (if whole = 1 then startUp c paths else if whole = 2 then startUpAsIs c paths
                 else setupInternal c paths) with
          | .ok s => showInitState s
          | .error e => showInitErr e
  | [] => "bad-op"

def takeSections : Nat → List String → Option (List (String × Nat) × List String)
  | 0, rest => some ([], rest)
  | k + 1, name :: code :: rest =>
    match unhexStr name, parseNat? code, takeSections k rest with
    | some n, some c, some (l, rest) => some ((n, c) :: l, rest)
    | _, _, _ => none
  | _ + 1, _ => none

/-- `<file> := - | F <nsec> (<hex name> <code>)* <pattern 0|1|2|3> <current : - | C cstep rf steps present> <ntok> <cfg tokens>` -/
def takeFile (toks : List String) : Option (Option TomlFile × List String) :=
  match toks with
  | "-" :: rest => some (none, rest)
  | "F" :: n :: rest =>
    match parseNat? n with
    | none => none
    | some n =>
      match takeSections n rest with
      | none => none
      | some (secs, pat :: rest) =>
        -- bit 0: output.pattern, bit 1: the file has the key output.pattern_file
        match (parseNat? pat).bind (fun k => if k < 4 then some (decide (k % 2 = 1), decide (k / 2 = 1)) else none) with
        | none => none
        | some (pat, hasPf) =>
          let cur : Option (Option Restart × List String) :=
            match rest with
            | "-" :: rest => some (none, rest)
            | "C" :: cs :: rf :: st :: pp :: rest =>
              (match parseInt? cs, optTok parseInt? rf, parseInt? st, parseBool? pp with
               | some cs, some rf, some st, some pp =>
                 some (some { cstep := cs, restartedFrom := rf, steps := st, pathsPresent := pp }, rest)
               | _, _, _, _ => none)
            | _ => none
          match cur with
          | some (cur, k :: rest) =>
            match parseNat? k with
            | none => none
            | some k =>
              if rest.length < k then none else
              match parseCfg (rest.take k) with
              | none => none
              | some c => some (some { sections := secs, cfg := c, pattern := pat, current := cur,
                                       hasPatternFile := hasPf }, rest.drop k)
          | _ => none
      | some (_, []) => none
  | _ => none

def showCurrent (c : Current) : String :=
  s!"{c.trajNum},{c.cstep},{c.size},{showList toString c.active}"

def showSetupOut : Except Err (Option SetupOut) → String
  | .error e => showErr e
  | .ok none => "none"
  | .ok (some o) =>
    s!"ok {showNorm o.cfg} fresh={match o.fresh with | none => "-" | some c => showCurrent c} " ++
    s!"rf={match o.restartedFrom with | none => "-" | some x => toString x} " ++
    s!"header={if o.wroteHeader then 1 else 0} pattern={if o.patternFile then 1 else 0}"

/-- `files <samePath 0|1> <inp file> <re file>` — `setup_config(inp, re_inp)` (model `setupConfigFiles`) -/
def handleFiles (toks : List String) : String :=
  match toks with
  | sp :: rest =>
    match parseBool? sp, takeFile rest with
    | some sp, some (inp, rest) =>
      match takeFile rest with
      | some (re, []) => showSetupOut (setupConfigFiles inp sp re)
      | _ => "bad-op"
    | _, _ => "bad-op"
  | [] => "bad-op"

def handle (toks : List String) : String :=
  match toks with
  | "restart" :: rest => handleRestart rest
  | "files" :: rest => handleFiles rest
  | "cv" :: rest => handleCv rest
  | "load" :: rest => handleLoad 1 rest
  | "loadasis" :: rest => handleLoad 2 rest
  | "internal" :: rest => handleLoad 0 rest
  | op :: rest =>
    match parseCfg rest with
    | none => "bad-op"
    | some c =>
      if op = "check" then showUnit (check c)
      else if op = "checkasis" then showUnit (checkAsIs c)
      else if op = "setup" then showSetup (setupConfig c)
      else if op = "valid" then (if validB c then "1" else "0")
      else if op = "init" then
        (match setupConfig c with
         | .ok c' => showInit (initEnsembles c')
         | .error e => showErr e)
      else if op = "occ" then
        -- setup_config, then the engine occupation lists of create_engines
        (match setupConfig c with
         | .error e => showErr e
         | .ok c' =>
           match engineOcc c' with
           | .error e => showErr e
           | .ok occ => "ok " ++ showList (fun kn => hexStr kn.1 ++ " " ++ toString kn.2) occ)
      else if op = "all" then
        -- check on the raw dict, setup_config, and the property predicate on the normalised dict
        let v := if validB (normalise c) then "1" else "0"
        s!"{showUnit (check c)} | {showSetup (setupConfig c)} | {v}"
      else "bad-op"
  | [] => "bad-op"

def main : IO Unit := mainWith handle
