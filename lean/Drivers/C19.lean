import Infretis.Model.Proto
import Infretis.Model.Template
open Infretis.Proto

/-- dispatch over the part models of C19 (each answers `none` for ops that are not its own) -/
def handle (toks : List String) : String :=
  match Infretis.Template.handle toks with
  | some r => r
  | none => "bad-op"

def main : IO Unit := mainWith handle
