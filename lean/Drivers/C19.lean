import Infretis.Model.Proto
import Infretis.Model.Template
import Infretis.Model.TemplateCp2k
import Infretis.Model.TemplateCp2kRepaired
import Infretis.Model.TemplateRepaired
import Infretis.Model.Codec
import Infretis.Model.CodecUni
import Infretis.Model.CodecLmp
import Infretis.Model.CodecBox
import Infretis.Model.CodecBoxData
open Infretis.Proto

/-- dispatch over the part models of C19 (each answers `none` for ops that are not its own):
    `mdp…`/`wfr…` Template, `cp2k…` TemplateCp2k, `g96…`/`xyz…` Codec, `…U` CodecUni (complete white space), `lmp…`/`trr…` CodecLmp, `boxlist/boxabc/boxmat` CodecBox,
    `boxdata`/`cp2kbox` CodecBoxData -/
def handle (toks : List String) : String :=
  match Infretis.Template.handle toks with
  | some r => r
  | none =>
  match Infretis.Template.handleR toks with
  | some r => r
  | none =>
  match Infretis.Cp2k.handleR toks with
  | some r => r
  | none =>
  match Infretis.Cp2k.handle toks with
  | some r => r
  | none =>
  match Infretis.Codec.handle toks with
  | some r => r
  | none =>
  match Infretis.CodecUni.handle toks with
  | some r => r
  | none =>
  match Infretis.Lmp.handle toks with
  | some r => r
  | none =>
  match Infretis.Box.handle toks with
  | some r => r
  | none =>
  match Infretis.BoxData.handle toks with
  | some r => r
  | none => "bad-op"

def main : IO Unit := mainWith handle
