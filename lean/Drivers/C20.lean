import Infretis.Model.Proto
import Infretis.Model.Geom
open Infretis Infretis.Proto Infretis.Geom

/-
Line protocol of the C20 driver.
  rint  <rat>                               → int
  wrap  <d> <L>                             → rat   (pbcWrap)  | "nan" when compNan
  calc  <asis|rep> <op> <pos> <vel> <box>   → "<value> | pure"  or  "<value> | mutated"
     op   := distance i0 i1 p | distancevel i0 i1 p | position i dim | velocity i dim
           | dihedral i0 i1 i2 i3 p | puckering i0 i1 i2 i3 i4 i5 p        (p ∈ {0,1})
     pos, vel := length-prefixed list of rationals, 3 per atom
     box  := "none" | length-prefixed list of rationals
     value := "ok n r₁ … rₙ" | "err:index" | "nan"
-/

def toV3s : List Rat → Option (List V3)
  | [] => some []
  | a :: b :: c :: t => (toV3s t).map (fun r => ⟨a, b, c⟩ :: r)
  | _ => none

def showVal : Except Err (List Rat) → String
  | .ok xs => "ok " ++ showList showRat xs
  | .error .index => "err:index"
  | .error .nan => "nan"

def parseBool? (s : String) : Option Bool :=
  if s = "1" then some true else if s = "0" then some false else none

def parseOp : List String → Option (OP × List String)
  | "distance" :: a :: b :: p :: rest =>
    match parseInt? a, parseInt? b, parseBool? p with
    | some a, some b, some p => some (.distance a b p, rest)
    | _, _, _ => none
  | "distancevel" :: a :: b :: p :: rest =>
    match parseInt? a, parseInt? b, parseBool? p with
    | some a, some b, some p => some (.distancevel a b p, rest)
    | _, _, _ => none
  | "position" :: a :: b :: rest =>
    match parseInt? a, parseInt? b with
    | some a, some b => some (.position a b, rest)
    | _, _ => none
  | "velocity" :: a :: b :: rest =>
    match parseInt? a, parseNat? b with
    | some a, some b => some (.velocity a b, rest)
    | _, _ => none
  | "dihedral" :: a :: b :: c :: d :: p :: rest =>
    match parseInt? a, parseInt? b, parseInt? c, parseInt? d, parseBool? p with
    | some a, some b, some c, some d, some p => some (.dihedral a b c d p, rest)
    | _, _, _, _, _ => none
  | "puckering" :: a :: b :: c :: d :: e :: f :: p :: rest =>
    match parseInt? a, parseInt? b, parseInt? c, parseInt? d, parseInt? e, parseInt? f, parseBool? p with
    | some a, some b, some c, some d, some e, some f, some p => some (.puckering a b c d e f p, rest)
    | _, _, _, _, _, _, _ => none
  | _ => none

def parseSys (toks : List String) : Option Sys :=
  match takeList parseRat? toks with
  | some (ps, rest) =>
    match takeList parseRat? rest with
    | some (vs, rest) =>
      match toV3s ps, toV3s vs with
      | some pos, some vel =>
        match rest with
        | ["none"] => some ⟨pos, vel, none⟩
        | _ =>
          match takeList parseRat? rest with
          | some (b, []) => some ⟨pos, vel, some b⟩
          | _ => none
      | _, _ => none
    | none => none
  | none => none

def handle (toks : List String) : String :=
  match toks with
  | ["rint", x] =>
    match parseRat? x with
    | some x => toString (rint x)
    | none => "bad-op"
  | ["wrap", d, l] =>
    match parseRat? d, parseRat? l with
    | some d, some l => if compNan d l then "nan" else showRat (pbcWrap d l)
    | _, _ => "bad-op"
  | "calc" :: v :: rest =>
    let var : Option Variant := if v = "asis" then some .asIs else if v = "rep" then some .repaired else none
    match var, parseOp rest with
    | some var, some (op, rest) =>
      match parseSys rest with
      | some s =>
        let r := calculate var op s
        showVal r.1 ++ (if r.2 = s then " | pure" else " | mutated")
      | none => "bad-op"
    | _, _ => "bad-op"
  | _ => "bad-op"

def main : IO Unit := mainWith handle
