import Infretis.Model.Proto
import Infretis.Model.Geom
import Infretis.Model.GeomCtor
import Infretis.Model.GeomFlow
import Infretis.Model.GeomFrames
open Infretis Infretis.Proto Infretis.Geom

/-
Line protocol of the C20 driver.
  rint  <rat>                               → int
  wrap  <d> <L>                             → rat   (pbcWrap)  | "nan" when compNan
  calc  <asis|rep> <op> <pos> <vel> <box>   → "<value> | pure"  or  "<value> | mutated"
     op   := distance i0 i1 p | distancevel i0 i1 p | position i dim | velocity i dim
           | dihedral i0 i1 i2 i3 p | puckering i0 i1 i2 i3 i4 i5 p        (p ∈ {0,1})
     pos, vel := length-prefixed list of rationals, 3 per atom
     box  := "none" | length-prefixed list of rationals
     value := "ok n r₁ … rₙ" | "err:index" | "nan"
  (extension pass; variant may also be `cur` = Variant.current)
  pbc   <dx> <dy> <dz> <box>                → "ok x y z nan?" | "err:index"      (pbcDist, box length-prefixed)
  pfull <var> <puckering op> <pos> <vel> <box> → value of puckeringFull ([H1,H2,Q3,ZZ,nn])
  lens  <op>                                → "<outLen> <preLen> <velocityDependent 0|1>"
  ctor  <kind> <idx> <per 0|1> <dim x<hex>> → constructor called directly (ctorDistance …)
  create <cls x<hex>> <idx|absent> <per absent|0|1> <dim absent|x<hex>>  → createOrderParameter
     idx  := scalar <sc> | seq n <sc>…      sc := N | B0 | B1 | I<int> | F<rat> | T<hex>
     answer := "external" | "err:<Kind>" | "obj <kind> <idx> p=<0|1|-> dim=<n|-> vd=<0|1> op=<OP tokens|none>"
  corder <var> <op|noop> <velrev> <pos> <vel> <box> <xyz?> <vel?> <box?> <fxyz?> <fvel?> <fbox?>
                                            → "<value|err:noorder> | read=<0|1> | <pos> | <vel> | <box>"
     x? := none | length-prefixed list
  prev  <asis|rep> <var> <op vd|noop> <revV> <maxlen none|n> <nframes> (<pos> <vel> <box> <velrev> <order list>)…
                                            → "err:index" | "ok n" then per frame " | <velrev> <order> <pos> <vel> <box>"
     order := S n r… | R n r… | NaN
  (follow-up pass: library frames, 2-D boxes, base-class keys)
  calcb <var> <op> <arrays> <boxv>          → "ok n r…" | "nan" | "err:index" | "err:TypeError" | "err:ValueError"   (calcFrame)
     arrays := N | A <pos> <vel>            boxv := none | flat <n r…> | mat <9 rationals, row-major>
  prevl <var> <op vd|noop> <revV> <maxlen none|n> <nframes> (<arrays> <boxv> <velrev> <order list>)…
                                            → "err:…" | "ok n" then per frame " | <velrev> <order>"     (pathReverseL)
  createx <cls x<hex>> <idx|absent> <per absent|0|1> <dim absent|x<hex>> <velocity absent|0|1>
                                            → "external" | "err:<Kind>" | "base vd=<0|1>" | "obj …"      (createOrderParameterX)
  effects <var> <op> <pos> <vel> <box>      → "pos=<0|1> vel=<0|1> box=<0|1>": which System fields `calculate` changes (Geom.effects)
-/

def toV3s : List Rat → Option (List V3)
  | [] => some []
  | a :: b :: c :: t => (toV3s t).map (fun r => ⟨a, b, c⟩ :: r)
  | _ => none

def showVal : Except Err (List Rat) → String
  | .ok xs => "ok " ++ showList showRat xs
  | .error .index => "err:index"
  | .error .nan => "nan"

def parseBool? (s : String) : Option Bool :=
  if s = "1" then some true else if s = "0" then some false else none

def parseOp : List String → Option (OP × List String)
  | "distance" :: a :: b :: p :: rest =>
    match parseInt? a, parseInt? b, parseBool? p with
    | some a, some b, some p => some (.distance a b p, rest)
    | _, _, _ => none
  | "distancevel" :: a :: b :: p :: rest =>
    match parseInt? a, parseInt? b, parseBool? p with
    | some a, some b, some p => some (.distancevel a b p, rest)
    | _, _, _ => none
  | "position" :: a :: b :: rest =>
    match parseInt? a, parseInt? b with
    | some a, some b => some (.position a b, rest)
    | _, _ => none
  | "velocity" :: a :: b :: rest =>
    match parseInt? a, parseNat? b with
    | some a, some b => some (.velocity a b, rest)
    | _, _ => none
  | "dihedral" :: a :: b :: c :: d :: p :: rest =>
    match parseInt? a, parseInt? b, parseInt? c, parseInt? d, parseBool? p with
    | some a, some b, some c, some d, some p => some (.dihedral a b c d p, rest)
    | _, _, _, _, _ => none
  | "puckering" :: a :: b :: c :: d :: e :: f :: p :: rest =>
    match parseInt? a, parseInt? b, parseInt? c, parseInt? d, parseInt? e, parseInt? f, parseBool? p with
    | some a, some b, some c, some d, some e, some f, some p => some (.puckering a b c d e f p, rest)
    | _, _, _, _, _, _, _ => none
  | _ => none

def parseSys (toks : List String) : Option Sys :=
  match takeList parseRat? toks with
  | some (ps, rest) =>
    match takeList parseRat? rest with
    | some (vs, rest) =>
      match toV3s ps, toV3s vs with
      | some pos, some vel =>
        match rest with
        | ["none"] => some ⟨pos, vel, none⟩
        | _ =>
          match takeList parseRat? rest with
          | some (b, []) => some ⟨pos, vel, some b⟩
          | _ => none
      | _, _ => none
    | none => none
  | none => none

def parseVar? (v : String) : Option Variant :=
  if v = "asis" then some .asIs else if v = "rep" then some .repaired
  else if v = "cur" then some Variant.current else none

def showV3s (l : List V3) : String :=
  showList showRat (l.foldr (fun v acc => v.x :: v.y :: v.z :: acc) [])

def showBox : Option (List Rat) → String
  | none => "none"
  | some b => showList showRat b

/-- optional length-prefixed list of rationals: `none` or `n r…` -/
def takeOptRats : List String → Option (Option (List Rat) × List String)
  | "none" :: rest => some (none, rest)
  | toks => (takeList parseRat? toks).map (fun (l, rest) => (some l, rest))

def takeOptV3s (toks : List String) : Option (Option (List V3) × List String) :=
  match takeOptRats toks with
  | some (none, rest) => some (none, rest)
  | some (some l, rest) => (toV3s l).map (fun v => (some v, rest))
  | none => none

def takeV3s (toks : List String) : Option (List V3 × List String) :=
  match takeList parseRat? toks with
  | some (l, rest) => (toV3s l).map (fun v => (v, rest))
  | none => none

def parseScalar? (t : String) : Option Scalar :=
  if t = "N" then some .none
  else if t = "B0" then some (.bool false)
  else if t = "B1" then some (.bool true)
  else
    let body := (t.drop 1).toString
    match t.toList.head? with
    | some 'I' => (parseInt? body).map .int
    | some 'F' => (parseRat? body).map .float
    | some 'T' => (unhexStr body).map .str
    | _ => none

def takeIdx : List String → Option (IdxVal × List String)
  | "scalar" :: t :: rest => (parseScalar? t).map (fun v => (.scalar v, rest))
  | "seq" :: rest => (takeList parseScalar? rest).map (fun (l, r) => (.seq l, r))
  | _ => none

def showScalar : Scalar → String
  | .none => "N"
  | .bool b => if b then "B1" else "B0"
  | .int z => "I" ++ toString z
  | .float q => "F" ++ showRat q
  | .str s => "T" ++ hexStr s

def showIdx : IdxVal → String
  | .scalar v => "scalar " ++ showScalar v
  | .seq l => "seq " ++ showList showScalar l

def showB (b : Bool) : String := if b then "1" else "0"

def showOP : OP → String
  | .distance a b p => s!"distance {a} {b} {showB p}"
  | .distancevel a b p => s!"distancevel {a} {b} {showB p}"
  | .position a b => s!"position {a} {b}"
  | .velocity a d => s!"velocity {a} {d}"
  | .dihedral a b c d p => s!"dihedral {a} {b} {c} {d} {showB p}"
  | .puckering a b c d e f p => s!"puckering {a} {b} {c} {d} {e} {f} {showB p}"

def showCtorErr : CtorErr → String
  | .typeError => "err:TypeError"
  | .valueError => "err:ValueError"
  | .notImplemented => "err:NotImplementedError"

def showObj (o : Obj) : String :=
  let body := match o with
    | .base => "base - p=- dim=-"
    | .distance i p => s!"distance {showIdx i} p={showB p} dim=-"
    | .distancevel i p => s!"distancevel {showIdx i} p={showB p} dim=-"
    | .position i => s!"position {showIdx i} p=0 dim=-"
    | .velocity i d => s!"velocity {showIdx i} p=- dim={d}"
    | .dihedral l p => s!"dihedral ints {showList (fun (z : Int) => toString z) l} p={showB p} dim=-"
    | .puckering l p => s!"puckering ints {showList (fun (z : Int) => toString z) l} p={showB p} dim=-"
  let opS := match o.toOP with
    | some op => showOP op
    | none => "none"
  s!"obj {body} vd={showB o.velocityDependent} op={opS}"

def showCreated : Except CtorErr Created → String
  | .error e => showCtorErr e
  | .ok .external => "external"
  | .ok (.obj o) => showObj o

def showCtor : Except CtorErr Obj → String
  | .error e => showCtorErr e
  | .ok o => showObj o

def xstr? (t : String) : Option String :=
  match t.toList.head? with
  | some 'x' => unhexStr (t.drop 1).toString
  | _ => none

def showOrderVal : OrderVal → String
  | .stored v => "S " ++ showList showRat v
  | .recomputed v => "R " ++ showList showRat v
  | .recomputedNan => "NaN"

/-- one frame of `prev`: pos vel box velrev order -/
def takeFrame (toks : List String) : Option (PFrame × List String) :=
  match takeV3s toks with
  | some (pos, r1) =>
    match takeV3s r1 with
    | some (vel, r2) =>
      match takeOptRats r2 with
      | some (box, vr :: r3) =>
        match parseBool? vr, takeList parseRat? r3 with
        | some b, some (ord, r4) => some (⟨⟨pos, vel, box⟩, b, .stored ord⟩, r4)
        | _, _ => none
      | _ => none
    | none => none
  | none => none

def takeFrames : Nat → List String → Option (List PFrame × List String)
  | 0, toks => some ([], toks)
  | n + 1, toks =>
    match takeFrame toks with
    | some (f, rest) => (takeFrames n rest).map (fun (fs, r) => (f :: fs, r))
    | none => none

def showFrame (f : PFrame) : String :=
  s!" | {showB f.velRev} {showOrderVal f.order} {showV3s f.sys.pos} {showV3s f.sys.vel} {showBox f.sys.box}"

def showCOVal : Except COErr (List Rat) → String
  | .ok xs => "ok " ++ showList showRat xs
  | .error (.op .index) => "err:index"
  | .error (.op .nan) => "nan"
  | .error .noOrderFunction => "err:noorder"

def takeOptOp : List String → Option (Option OP × List String)
  | "noop" :: rest => some (none, rest)
  | toks => (parseOp toks).map (fun (op, rest) => (some op, rest))

def handleCorder (var : Variant) (toks : List String) : String :=
  match takeOptOp toks with
  | some (op, vr :: r0) =>
    match parseBool? vr, takeV3s r0 with
    | some velRev, some (pos, r1) =>
      match takeV3s r1 with
      | some (vel, r2) =>
        match takeOptRats r2 with
        | some (box0, r3) =>
          match takeOptV3s r3 with
          | some (xyz, r4) =>
            match takeOptV3s r4 with
            | some (v, r5) =>
              match takeOptRats r5 with
              | some (box, r6) =>
                match takeOptV3s r6 with
                | some (fx, r7) =>
                  match takeOptV3s r7 with
                  | some (fv, r8) =>
                    match takeOptRats r8 with
                    | some (fb, []) =>
                      let r := calculateOrderFull var op ⟨pos, vel, box0, velRev⟩ xyz v box ⟨fx, fv, fb⟩
                      s!"{showCOVal r.val} | read={showB r.read} | {showV3s r.sys.pos} | {showV3s r.sys.vel} | {showBox r.sys.box}"
                    | _ => "bad-op"
                  | none => "bad-op"
                | none => "bad-op"
              | none => "bad-op"
            | none => "bad-op"
          | none => "bad-op"
        | none => "bad-op"
      | none => "bad-op"
    | _, _ => "bad-op"
  | _ => "bad-op"

def handlePrev (rv : ReverseVariant) (var : Variant) (toks : List String) : String :=
  let opvd : Option (Option (OP × Bool) × List String) :=
    match toks with
    | "noop" :: rest => some (none, rest)
    | _ =>
      match parseOp toks with
      | some (op, vd :: rest) => (parseBool? vd).map (fun b => (some (op, b), rest))
      | _ => none
  match opvd with
  | some (ofn, rvv :: ml :: nf :: rest) =>
    let maxlen : Option (Option Nat) := if ml = "none" then some none else (parseNat? ml).map some
    match parseBool? rvv, maxlen, parseNat? nf with
    | some revV, some maxlen, some n =>
      match takeFrames n rest with
      | some (frames, []) =>
        match pathReverse rv var ofn revV maxlen frames with
        | .error _ => "err:index"
        | .ok fs => "ok " ++ toString fs.length ++ String.join (fs.map showFrame)
      | _ => "bad-op"
    | _, _, _ => "bad-op"
  | _ => "bad-op"

def handleNew (toks : List String) : Option String :=
  match toks with
  | "pbc" :: dx :: dy :: dz :: rest =>
    match parseRat? dx, parseRat? dy, parseRat? dz, takeList parseRat? rest with
    | some x, some y, some z, some (b, []) =>
      match pbcDist ⟨x, y, z⟩ b with
      | .ok w => some s!"ok {showRat w.v.x} {showRat w.v.y} {showRat w.v.z} {showB w.nan}"
      | .error _ => some "err:index"
    | _, _, _, _ => some "bad-op"
  | "pfull" :: v :: rest =>
    match parseVar? v, parseOp rest with
    | some var, some (.puckering a b c d e f p, rest) =>
      match parseSys rest with
      | some s => some (showVal (puckeringFull var s a b c d e f p))
      | none => some "bad-op"
    | _, _ => some "bad-op"
  | "lens" :: rest =>
    match parseOp rest with
    | some (op, []) => some s!"{op.outLen} {op.preLen} {showB op.velocityDependent}"
    | _ => some "bad-op"
  | "ctor" :: kind :: rest =>
    match takeIdx rest with
    | some (idx, [per, dim]) =>
      match parseBool? per, xstr? dim with
      | some p, some d =>
        if kind = "distance" then some (showCtor (ctorDistance idx p))
        else if kind = "distancevel" then some (showCtor (ctorDistancevel idx p))
        else if kind = "position" then some (showCtor (ctorPosition idx p))
        else if kind = "velocity" then some (showCtor (ctorVelocity idx d))
        else if kind = "dihedral" then some (showCtor (ctorDihedral idx p))
        else if kind = "puckering" then some (showCtor (ctorPuckering idx p))
        else some "bad-op"
      | _, _ => some "bad-op"
    | _ => some "bad-op"
  | "create" :: cls :: rest =>
    let idx : Option (Option IdxVal × List String) :=
      match rest with
      | "absent" :: r => some (none, r)
      | _ => (takeIdx rest).map (fun (i, r) => (some i, r))
    match xstr? cls, idx with
    | some c, some (i, [per, dim]) =>
      let p : Option (Option Bool) := if per = "absent" then some none else (parseBool? per).map some
      let d : Option (Option String) := if dim = "absent" then some none else (xstr? dim).map some
      match p, d with
      | some p, some d => some (showCreated (createOrderParameter ⟨c, i, p, d⟩))
      | _, _ => some "bad-op"
    | _, _ => some "bad-op"
  | "corder" :: v :: rest =>
    match parseVar? v with
    | some var => some (handleCorder var rest)
    | none => some "bad-op"
  | "prev" :: r :: v :: rest =>
    let rv : Option ReverseVariant := if r = "asis" then some .asIs else if r = "rep" then some .repaired else none
    match rv, parseVar? v with
    | some rv, some var => some (handlePrev rv var rest)
    | _, _ => some "bad-op"
  | _ => none


/-! follow-up pass -/

def showValX : Except ErrX (List Rat) → String
  | .ok xs => "ok " ++ showList showRat xs
  | .error .index => "err:index"
  | .error .nan => "nan"
  | .error .typeError => "err:TypeError"
  | .error .valueError => "err:ValueError"

def showErrX : ErrX → String
  | .index => "err:index"
  | .nan => "nan"
  | .typeError => "err:TypeError"
  | .valueError => "err:ValueError"

def takeArrays : List String → Option (Option (List V3 × List V3) × List String)
  | "N" :: rest => some (none, rest)
  | "A" :: rest =>
    match takeV3s rest with
    | some (pos, r1) =>
      match takeV3s r1 with
      | some (vel, r2) => some (some (pos, vel), r2)
      | none => none
    | none => none
  | _ => none

def takeBoxVal : List String → Option (BoxVal × List String)
  | "none" :: rest => some (.none, rest)
  | "flat" :: rest => (takeList parseRat? rest).map (fun (l, r) => (.flat l, r))
  | "mat" :: a :: b :: c :: d :: e :: f :: g :: h :: i :: rest =>
    match parseRat? a, parseRat? b, parseRat? c, parseRat? d, parseRat? e, parseRat? f, parseRat? g, parseRat? h, parseRat? i with
    | some a, some b, some c, some d, some e, some f, some g, some h, some i =>
      some (.mat ⟨⟨a, b, c⟩, ⟨d, e, f⟩, ⟨g, h, i⟩⟩, rest)
    | _, _, _, _, _, _, _, _, _ => none
  | _ => none

def takeLFrame (toks : List String) : Option (LFrame × List String) :=
  match takeArrays toks with
  | some (arr, r1) =>
    match takeBoxVal r1 with
    | some (box, vr :: r2) =>
      match parseBool? vr, takeList parseRat? r2 with
      | some b, some (ord, r3) => some (⟨arr, box, b, .stored ord⟩, r3)
      | _, _ => none
    | _ => none
  | none => none

def takeLFrames : Nat → List String → Option (List LFrame × List String)
  | 0, toks => some ([], toks)
  | n + 1, toks =>
    match takeLFrame toks with
    | some (f, rest) => (takeLFrames n rest).map (fun (fs, r) => (f :: fs, r))
    | none => none

def handlePrevL (var : Variant) (toks : List String) : String :=
  let opvd : Option (Option (OP × Bool) × List String) :=
    match toks with
    | "noop" :: rest => some (none, rest)
    | _ =>
      match parseOp toks with
      | some (op, vd :: rest) => (parseBool? vd).map (fun b => (some (op, b), rest))
      | _ => none
  match opvd with
  | some (ofn, rvv :: ml :: nf :: rest) =>
    let maxlen : Option (Option Nat) := if ml = "none" then some none else (parseNat? ml).map some
    match parseBool? rvv, maxlen, parseNat? nf with
    | some revV, some maxlen, some n =>
      match takeLFrames n rest with
      | some (frames, []) =>
        match pathReverseL var ofn revV maxlen frames with
        | .error e => showErrX e
        | .ok fs => "ok " ++ toString fs.length ++
            String.join (fs.map (fun f => s!" | {showB f.velRev} {showOrderVal f.order}"))
      | _ => "bad-op"
    | _, _, _ => "bad-op"
  | _ => "bad-op"

def handleFollowUp (toks : List String) : Option String :=
  match toks with
  | "calcb" :: v :: rest =>
    match parseVar? v, parseOp rest with
    | some var, some (op, r1) =>
      match takeArrays r1 with
      | some (arr, r2) =>
        match takeBoxVal r2 with
        | some (box, []) => some (showValX (calcFrame var op ⟨arr, box, false, .stored []⟩))
        | _ => some "bad-op"
      | none => some "bad-op"
    | _, _ => some "bad-op"
  | "prevl" :: v :: rest =>
    match parseVar? v with
    | some var => some (handlePrevL var rest)
    | none => some "bad-op"
  | "effects" :: v :: rest =>
    match parseVar? v, parseOp rest with
    | some var, some (op, r1) =>
      match parseSys r1 with
      | some sy =>
        let r := calculate var op sy
        some s!"pos={showB (decide (r.2.pos ≠ sy.pos))} vel={showB (decide (r.2.vel ≠ sy.vel))} box={showB (decide (r.2.box ≠ sy.box))}"
      | none => some "bad-op"
    | _, _ => some "bad-op"
  | "createx" :: cls :: rest =>
    let idx : Option (Option IdxVal × List String) :=
      match rest with
      | "absent" :: r => some (none, r)
      | _ => (takeIdx rest).map (fun (i, r) => (some i, r))
    match xstr? cls, idx with
    | some c, some (i, [per, dim, vel]) =>
      let p : Option (Option Bool) := if per = "absent" then some none else (parseBool? per).map some
      let d : Option (Option String) := if dim = "absent" then some none else (xstr? dim).map some
      let vv : Option (Option Bool) := if vel = "absent" then some none else (parseBool? vel).map some
      match p, d, vv with
      | some p, some d, some vv =>
        match createOrderParameterX ⟨c, i, p, d⟩ vv with
        | .error e => some (showCtorErr e)
        | .ok .external => some "external"
        | .ok (.base b) => some s!"base vd={showB b}"
        | .ok (.obj o) => some (showObj o)
      | _, _, _ => some "bad-op"
    | _, _ => some "bad-op"
  | _ => none

def handleOld (toks : List String) : String :=
  match toks with
  | ["rint", x] =>
    match parseRat? x with
    | some x => toString (rint x)
    | none => "bad-op"
  | ["wrap", d, l] =>
    match parseRat? d, parseRat? l with
    | some d, some l => if compNan d l then "nan" else showRat (pbcWrap d l)
    | _, _ => "bad-op"
  | "calc" :: v :: rest =>
    match parseVar? v, parseOp rest with
    | some var, some (op, rest) =>
      match parseSys rest with
      | some s =>
        let r := calculate var op s
        showVal r.1 ++ (if r.2 = s then " | pure" else " | mutated")
      | none => "bad-op"
    | _, _ => "bad-op"
  | _ => "bad-op"

def handle (toks : List String) : String :=
  match handleFollowUp toks with
  | some r => r
  | none =>
    match handleNew toks with
    | some r => r
    | none => handleOld toks

def main : IO Unit := mainWith handle
