import Infretis.Model.CodecBox
/-! Lemmas for the box-matrix helpers (`Infretis/Model/CodecBox.lean`). -/
namespace Infretis.Box

theorem boxMatrixToList_full (m : M3) : boxMatrixToList m true = g96Order m := by
  simp [boxMatrixToList]

/-- the flattening loses nothing: the matrix is recovered from the nine numbers -/
theorem listToMatrix_g96Order (m : M3) : listToMatrix (g96Order m) = some m := by
  cases m; rfl

/-- every list of nine numbers is the flattening of exactly the matrix `listToMatrix` gives -/
theorem g96Order_listToMatrix (l : List Int) (h : l.length = 9) :
    ∃ m, listToMatrix l = some m ∧ g96Order m = l := by
  match l, h with
  | [xx, yy, zz, xy, xz, yx, yz, zx, zy], _ => exact ⟨_, rfl, rfl⟩

/-- a diagonal matrix (rectangular box) in the short form -/
theorem short_diag (a b c : Int) :
    boxMatrixToList ⟨a, 0, 0, 0, b, 0, 0, 0, c⟩ false = [a, b, c] ∧
    listToMatrix [a, b, c] = some ⟨a, 0, 0, 0, b, 0, 0, 0, c⟩ := by
  refine ⟨?_, rfl⟩
  have : countNonzero ⟨a, 0, 0, 0, b, 0, 0, 0, c⟩ ≤ 3 := by
    simp only [countNonzero, M3.toList]
    by_cases ha : a = 0 <;> by_cases hb : b = 0 <;> by_cases hc : c = 0 <;> simp [ha, hb, hc]
  simp [boxMatrixToList, this]

/-- more than three non-zero entries: always the nine numbers -/
theorem long_of_nonzero (m : M3) (full : Bool) (h : 3 < countNonzero m) :
    boxMatrixToList m full = g96Order m := by
  have : ¬ countNonzero m ≤ 3 := by omega
  simp [boxMatrixToList, this]

end Infretis.Box
