import Infretis.Model.CodecBoxData
import Infretis.Lemmas.CodecFixed
import Infretis.Lemmas.CodecUni
import Infretis.Lemmas.CodecBox
/-!
C19: the CP2K cell reader `read_box_data` (`Infretis.BoxData`, Model/CodecBoxData.lean).

* numbers written as decimal integers are read back (`classify_intTok`, `nums_intToks`);
* a printed line `KEY x y z` is recognised by exactly its own key (`startsKey_vecLine`) and sets exactly that entry
  of the dict (`stepKeys_vecLine`);
* whatever precedes them, the three lines `A …`, `B …`, `C …` give the cell whose COLUMNS are the three vectors
  (`readBoxData_cell`: the last line of a key wins), and the nine numbers determine the matrix
  (`cell_lossless`);
* `ABC` alone and the rectangular `ABC` + `ALPHA_BETA_GAMMA 90 90 90` case.
-/
namespace Infretis.BoxData
open Infretis.Codec
open Infretis.Box

deriving instance DecidableEq for Except

/-! ### numbers -/

theorem digs_more : ∀ c ∈ digs, c ≠ '+' ∧ isWs c = false ∧ floatAlpha c = true := by decide

theorem splitFrac_digits : ∀ (ds : Str), (∀ c ∈ ds, c ∈ digs) → splitFrac ds = some ds := by
  intro ds
  induction ds with
  | nil => intro _; rfl
  | cons c t ih =>
    intro h
    have hc := (digs_props c (h c (by simp))).2.1
    simp only [splitFrac, hc, if_false]
    rw [ih (fun x hx => h x (List.mem_cons_of_mem _ hx))]
    rfl

theorem parseUnsigned_natDigits (n : Nat) : parseUnsigned (natDigits n) = some n := by
  unfold parseUnsigned
  rw [splitFrac_digits _ (natDigits_mem n)]
  cases h : natDigits n with
  | nil => exact absurd h (natDigits_ne_nil n)
  | cons c t => simp only; rw [← h]; exact natDigits_val n

theorem parseIntTok_digits (ds : Str) (hne : ds ≠ []) (h : ∀ c ∈ ds, c ∈ digs) :
    parseIntTok ds = ofNat? (parseUnsigned ds) := by
  cases ds with
  | nil => exact absurd rfl hne
  | cons c t =>
    have h1 : c ≠ '-' := (digs_props c (h c (by simp))).1
    have h2 : c ≠ '+' := (digs_more c (h c (by simp))).1
    unfold parseIntTok
    split
    · rename_i r heq
      simp only [List.cons.injEq] at heq
      exact absurd heq.1 h1
    · rename_i r heq
      simp only [List.cons.injEq] at heq
      exact absurd heq.1 h2
    · rfl

/-- a printed integer is read back -/
theorem parseIntTok_intTok (i : Int) : parseIntTok (intTok i) = some i := by
  unfold intTok intDigits
  by_cases hneg : i < 0
  · have e : -(Int.ofNat i.natAbs) = i := by simp only [Int.ofNat_eq_natCast]; omega
    simp only [hneg, if_true, parseIntTok, parseUnsigned_natDigits, negNat?, e]
  · have e : Int.ofNat i.toNat = i := by simp only [Int.ofNat_eq_natCast]; omega
    simp only [hneg, if_false]
    rw [parseIntTok_digits _ (natDigits_ne_nil _) (natDigits_mem _), parseUnsigned_natDigits]
    simp only [ofNat?, e]

theorem classify_intTok (i : Int) : classify (intTok i) = .int i := by
  simp [classify, parseIntTok_intTok]

theorem nums_intToks : ∀ (v : List Int), nums (v.map intTok) = .ok v := by
  intro v
  induction v with
  | nil => rfl
  | cons x r ih => simp [nums, classify_intTok, ih]

theorem intTok_noWs (i : Int) : NoWs (intTok i) := by
  intro c hc
  unfold intTok intDigits at hc
  have hd : ∀ n, ∀ c ∈ natDigits n, isWs c = false := fun n c h => (digs_more c (natDigits_mem n c h)).2.1
  by_cases hneg : i < 0
  · simp only [hneg, if_true, List.mem_cons] at hc
    rcases hc with rfl | hc
    · decide
    · exact hd _ c hc
  · simp only [hneg, if_false] at hc
    exact hd _ c hc

theorem intTok_ne_nil (i : Int) : intTok i ≠ [] := by
  unfold intTok intDigits
  by_cases hneg : i < 0
  · simp [hneg]
  · simp only [hneg, if_false]; exact natDigits_ne_nil _

/-! ### printed lines -/

theorem splitWs_tail : ∀ (v : List Int), splitWs (v.flatMap (fun x => ' ' :: intTok x)) = v.map intTok := by
  intro v
  induction v with
  | nil => rfl
  | cons x r ih =>
    simp only [List.flatMap_cons, List.cons_append, List.map_cons]
    rw [splitWs_ws ' ' _ (by decide), splitWs_token (intTok x) _ (intTok_ne_nil x) (intTok_noWs x), ih]
    intro c hc
    cases r with
    | nil => simp at hc
    | cons y r' =>
      simp only [List.flatMap_cons, List.cons_append, List.head?_cons, Option.some.injEq] at hc
      subst hc; decide

theorem key_text_props : ∀ k : Key, k.text ≠ [] ∧ NoWs k.text := by
  intro k; cases k <;> exact ⟨by simp [Key.text], by simp only [NoWs, Key.text]; decide⟩

theorem splitWs_vecLine (k : Key) (v : List Int) : splitWs (vecLine k v) = k.text :: v.map intTok := by
  unfold vecLine
  rw [splitWs_token k.text _ (key_text_props k).1 (key_text_props k).2, splitWs_tail]
  intro c hc
  cases v with
  | nil => simp at hc
  | cons y r =>
    simp only [List.flatMap_cons, List.cons_append, List.head?_cons, Option.some.injEq] at hc
    subst hc; decide

/-- a printed line holds no non-ASCII white space … -/
theorem plain_vecLine (k : Key) (v : List Int) : Infretis.CodecUni.Plain (vecLine k v) := by
  open Infretis.CodecUni in
  unfold vecLine
  refine Plain_append (by cases k <;> (intro c hc; revert c; decide)) ?_
  intro c hc
  obtain ⟨x, _, hx⟩ := List.mem_flatMap.1 hc
  rcases List.mem_cons.1 hx with rfl | hx
  · decide
  · unfold intTok Infretis.Codec.intDigits at hx
    have hd : ∀ n, ∀ c ∈ natDigits n, exotic c = false := fun n c h => Plain_natDigits n c h
    by_cases hneg : x < 0
    · simp only [hneg, if_true, List.mem_cons] at hx
      rcases hx with rfl | hx
      · decide
      · exact hd _ c hx
    · simp only [hneg, if_false] at hx
      exact hd _ c hx

/-- … so Python's split of it is the ASCII split -/
theorem splitPy_vecLine (k : Key) (v : List Int) : splitPy (vecLine k v) = k.text :: v.map intTok := by
  rw [splitPy, Infretis.CodecUni.normT_plain (plain_vecLine k v), splitWs_vecLine]

/-- a printed line with at least one number starts with its own key followed by a blank, and with no other key -/
theorem startsKey_vecLine (k k' : Key) (x : Int) (r : List Int) :
    startsKey k' (vecLine k (x :: r)) = decide (k' = k) := by
  cases k <;> cases k' <;> simp [startsKey, vecLine, Key.text, List.isPrefixOf]

/-- **one printed vector line sets exactly its own entry** -/
theorem stepKeys_vecLine (k : Key) (hk : k ≠ .PERIODIC) (x : Int) (r : List Int) (d : BoxDict) :
    stepKeys (vecLine k (x :: r)) allKeys d = .ok (setVec d k (x :: r)) := by
  have hn : nums (splitPy (vecLine k (x :: r))).tail = .ok (x :: r) := by
    rw [splitPy_vecLine]; exact nums_intToks _
  cases k <;> simp [stepKeys, allKeys, stepKey, startsKey_vecLine, hn, setVec] at hk ⊢

theorem collect_append : ∀ (l1 l2 : List Str) (d : BoxDict),
    collect (l1 ++ l2) d = match collect l1 d with
      | .ok d' => collect l2 d'
      | .error e => .error e := by
  intro l1
  induction l1 with
  | nil => intro l2 d; rfl
  | cons l ls ih =>
    intro l2 d
    simp only [List.cons_append, collect]
    cases h : stepKeys l allKeys d with
    | error e => rfl
    | ok d' => exact ih l2 d'

/-! ### the cell -/

/-- the matrix whose columns are the three vectors -/
def colMatrix (a b c : Int × Int × Int) : M3 := ⟨a.1, b.1, c.1, a.2.1, b.2.1, c.2.1, a.2.2, b.2.2, c.2.2⟩

def vec3 (v : Int × Int × Int) : List Int := [v.1, v.2.1, v.2.2]

/-- **read ∘ write for the cell vectors.**  Whatever lines come first (as long as they are read without error), the
    three lines `A …`, `B …`, `C …` make the box the flattening of the matrix with COLUMNS A, B, C (an earlier
    `A`/`B`/`C`/`ABC` line is overridden: the last line of a key wins); the periodic setting is the one collected. -/
theorem readBoxData_cell (pre : List Str) (d : BoxDict) (a b c : Int × Int × Int) (hpre : collect pre {} = .ok d) :
    readBoxData (pre ++ [vecLine .A (vec3 a), vecLine .B (vec3 b), vecLine .C (vec3 c)]) =
      .ok (some (cellABC a b c), periodicFlags d.periodic) := by
  unfold readBoxData
  rw [collect_append, hpre]
  simp only [collect, vec3, stepKeys_vecLine .A (by decide), stepKeys_vecLine .B (by decide),
    stepKeys_vecLine .C (by decide), setVec, finish, column]

/-- `ABC` alone: the numbers as they are -/
theorem readBoxData_abc (v : List Int) (x : Int) :
    readBoxData [vecLine .ABC (x :: v)] = .ok (some (x :: v), (true, true, true)) := by
  unfold readBoxData
  simp only [collect, stepKeys_vecLine .ABC (by decide), setVec, finish]
  rfl

/-- lengths and three right angles: the rectangular box `l0, |l1|, |l2|` -/
theorem readBoxData_ortho (l0 l1 l2 : Int) (h1 : l1 ≠ 0) :
    readBoxData [vecLine .ABC [l0, l1, l2], vecLine .ABG [90, 90, 90]] =
      .ok (some [l0, (l1.natAbs : Int), (l2.natAbs : Int)], (true, true, true)) := by
  unfold readBoxData
  simp only [collect, stepKeys_vecLine .ABC (by decide), stepKeys_vecLine .ABG (by decide), setVec, finish]
  simp only [h1, ne_eq, not_false_eq_true, and_self, if_true, (short_diag l0 _ _).1]
  rfl

/-- **the nine numbers lose nothing**: from the box returned for the vectors A, B, C the matrix with these columns
    is recovered, for every cell with more than three non-zero entries and for every diagonal cell -/
theorem cell_lossless (a b c : Int × Int × Int)
    (h : 3 < countNonzero (colMatrix a b c) ∨ colMatrix a b c = ⟨a.1, 0, 0, 0, b.2.1, 0, 0, 0, c.2.2⟩) :
    listToMatrix (cellABC a b c) = some (colMatrix a b c) := by
  rcases h with h | h
  · have : cellABC a b c = g96Order (colMatrix a b c) := long_of_nonzero _ false h
    rw [this, listToMatrix_g96Order]
  · have e : cellABC a b c = boxMatrixToList (colMatrix a b c) false := rfl
    rw [e, h, (short_diag _ _ _).1]
    rfl

example : readBoxData ["PERIODIC xy".toList, "ABC 9 9 9".toList, "A 10 0 0".toList, "B 2.0 11 0".toList, "C +3 4 -12.00".toList,
      "a 1 2 3".toList, "A\t7 7 7".toList] = .ok (some [10, 11, -12, 2, 3, 0, 4, 0, 0], (true, true, false)) := by
  decide +kernel

example : readBoxData ["A 1 2 [angstrom]".toList] = .error .value ∧ readBoxData ["A 1.5 2 3".toList] = .error .outside ∧
    readBoxData ["A 1 2".toList, "B 1 2 3".toList, "C 1 2 3".toList] = .error .value ∧
    readBoxData ["ABC 1 2 3".toList, "ALPHA_BETA_GAMMA 90 90".toList] = .error .index ∧
    readBoxData ["PERIODIC NONE".toList] = .ok (none, (false, false, false)) :=
  ⟨by decide +kernel, by decide +kernel, by decide +kernel, by decide +kernel, by decide +kernel⟩

end Infretis.BoxData
