/-
C19 (part "codec"): lemmas and theorems about the decimal fixed-point text codecs
(`Infretis.Codec`, Model/Codec.lean): GROMACS .g96 and extended xyz.

Main results (all for arbitrary atom counts, proved by induction; `decide`/`rfl` only in examples
and concrete counterexamples):
  parse_fmt_fixed, fmtFixed_length                     number field write → read
  xyz_read_write_roundtrip (+ xyz_write_ok)             xyz frame write → read → convert
  extract_frame_k, extract_frame_beyond                 frame k of a trajectory
  xyz_reverse_only_negates_vel, xyz_reverse_twice       CP2K _reverse_velocities
  g96_read_write_roundtrip                              g96 write → read
  g96_reverse_only_negates_vel                          GROMACS _reverse_velocities (incl. twice = id)
  fit_of_lt, fitBox_of_lt                               the width guards as |x| bounds
  xyz_roundtrip_zero_atoms_counterexample, g96_roundtrip_wide_box_counterexample
-/
import Infretis.Model.Codec
namespace Infretis.Codec

def digs : List Char := ['0','1','2','3','4','5','6','7','8','9']
def numChars : List Char := '-' :: '.' :: digs

theorem digitVal_digitChar : ∀ d, d < 10 → digitVal? (digitChar d) = some d := by decide

theorem digitChar_mem (d : Nat) : digitChar d ∈ digs := by
  unfold digitChar; split <;> decide

theorem digs_props : ∀ c ∈ digs, c ≠ '-' ∧ c ≠ '.' ∧ (digitVal? c).isSome = true := by decide

theorem numChars_props : ∀ c ∈ numChars,
    isWs c = false ∧ c ≠ '\n' ∧ c ≠ '\r' ∧ lowerC c = c ∧ c ≠ 'b' := by decide

theorem digitsValAcc_snoc (acc : Nat) (l : List Char) (c : Char) :
    digitsValAcc acc (l ++ [c]) =
      match digitsValAcc acc l with
      | some v => (digitVal? c).map (fun d => v * 10 + d)
      | none => none := by
  induction l generalizing acc with
  | nil => simp [digitsValAcc]; cases digitVal? c <;> simp
  | cons a t ih =>
    simp only [List.cons_append, digitsValAcc]
    cases digitVal? a with
    | none => simp
    | some d => simpa using ih (acc * 10 + d)

theorem natDigitsF_val : ∀ f n, n < f → digitsVal (natDigitsF f n) = some n := by
  intro f
  induction f with
  | zero => intro n h; omega
  | succ f ih =>
    intro n h
    unfold natDigitsF
    split
    · rename_i h10
      simp [digitsVal, digitsValAcc, digitVal_digitChar n h10]
    · rename_i h10
      have := ih (n / 10) (by omega)
      unfold digitsVal at this ⊢
      rw [digitsValAcc_snoc, this]
      simp [digitVal_digitChar (n % 10) (by omega)]
      omega

theorem natDigits_val (n : Nat) : digitsVal (natDigits n) = some n :=
  natDigitsF_val (n + 1) n (by omega)

theorem natDigitsF_mem : ∀ f n, ∀ c ∈ natDigitsF f n, c ∈ digs := by
  intro f
  induction f with
  | zero => intro n c h; simp [natDigitsF] at h
  | succ f ih =>
    intro n c h
    unfold natDigitsF at h
    split at h
    · simp at h; subst h; exact digitChar_mem _
    · simp at h
      rcases h with h | h
      · exact ih _ _ h
      · subst h; exact digitChar_mem _

theorem natDigitsF_ne_nil : ∀ f n, natDigitsF (f + 1) n ≠ [] := by
  intro f n
  unfold natDigitsF
  split <;> simp

theorem natDigits_ne_nil (n : Nat) : natDigits n ≠ [] := natDigitsF_ne_nil n n

theorem natDigits_mem (n : Nat) : ∀ c ∈ natDigits n, c ∈ digs := natDigitsF_mem _ _

theorem fracDigits_length : ∀ p m, (fracDigits p m).length = p := by
  intro p
  induction p with
  | zero => intro m; rfl
  | succ p ih => intro m; simp [fracDigits, ih]

theorem fracDigits_mem : ∀ p m, ∀ c ∈ fracDigits p m, c ∈ digs := by
  intro p
  induction p with
  | zero => intro m c h; simp [fracDigits] at h
  | succ p ih =>
    intro m c h
    simp [fracDigits] at h
    rcases h with h | h
    · exact ih _ _ h
    · subst h; exact digitChar_mem _

theorem fracDigits_val : ∀ p m, digitsVal (fracDigits p m) = some (m % 10 ^ p) := by
  intro p
  induction p with
  | zero => intro m; simp [fracDigits, digitsVal, digitsValAcc, Nat.mod_one]
  | succ p ih =>
    intro m
    have := ih (m / 10)
    unfold digitsVal at this ⊢
    simp only [fracDigits]
    rw [digitsValAcc_snoc, this]
    simp [digitVal_digitChar (m % 10) (by omega)]
    rw [Nat.pow_succ, Nat.mul_comm (10 ^ p) 10, Nat.mod_mul]
    omega

/-! ### `parseFixed ∘ fmtFixed` -/

theorem splitDot_append (l r : List Char) (h : ∀ c ∈ l, c ≠ '.') :
    splitDot (l ++ '.' :: r) = some (l, r) := by
  induction l with
  | nil => simp [splitDot]
  | cons a t ih =>
    have ha : a ≠ '.' := h a (by simp)
    have := ih (fun c hc => h c (by simp [hc]))
    simp [splitDot, ha, this]

theorem parseBody_fmt (prec : Nat) (neg : Bool) (m : Nat) :
    parseBody prec neg (natDigits (m / 10 ^ prec) ++ '.' :: fracDigits prec (m % 10 ^ prec))
      = some ⟨neg, m⟩ := by
  unfold parseBody
  rw [splitDot_append _ _ (fun c hc => (digs_props c (natDigits_mem _ c hc)).2.1)]
  simp only [natDigits_ne_nil, if_false, fracDigits_length, ne_eq, not_true_eq_false,
    natDigits_val, fracDigits_val]
  rw [Nat.mod_mod]
  congr 2
  rw [Nat.mul_comm]
  exact Nat.div_add_mod m (10 ^ prec)

theorem parseCore_fmtCore (prec : Nat) (d : Dec) : parseCore prec (fmtCore prec d) = some d := by
  obtain ⟨neg, m⟩ := d
  cases neg with
  | true =>
    simp only [fmtCore, if_true, List.cons_append, List.nil_append, parseCore]
    simpa using parseBody_fmt prec true m
  | false =>
    simp only [fmtCore, Bool.false_eq_true, if_false, List.nil_append]
    have hne := natDigits_ne_nil (m / 10 ^ prec)
    have hmem := natDigits_mem (m / 10 ^ prec)
    cases hd : natDigits (m / 10 ^ prec) with
    | nil => exact absurd hd hne
    | cons a t =>
      have ha : a ≠ '-' := (digs_props a (hmem a (by simp [hd]))).1
      simp only [List.cons_append, parseCore, ha, if_false]
      have := parseBody_fmt prec false m
      rw [hd] at this
      simpa using this

theorem fmtCore_mem (prec : Nat) (d : Dec) : ∀ c ∈ fmtCore prec d, c ∈ numChars := by
  intro c h
  simp only [fmtCore, List.mem_append, List.mem_cons] at h
  rcases h with (h | h) | h | h
  · split at h
    · simp at h; subst h; simp [numChars]
    · simp at h
  · have := natDigits_mem _ c h; simp [numChars, this]
  · subst h; simp [numChars]
  · have := fracDigits_mem _ _ c h; simp [numChars, this]

theorem fmtCore_ne_nil (prec : Nat) (d : Dec) : fmtCore prec d ≠ [] := by
  simp [fmtCore]

/-- a list without whitespace characters -/
def NoWs (l : List Char) : Prop := ∀ c ∈ l, isWs c = false

theorem fmtCore_noWs (prec : Nat) (d : Dec) : NoWs (fmtCore prec d) :=
  fun c h => (numChars_props c (fmtCore_mem prec d c h)).1

theorem dropWhile_noWs {l : List Char} (h : NoWs l) : l.dropWhile isWs = l := by
  cases l with
  | nil => rfl
  | cons a t => simp [List.dropWhile, h a (by simp)]

theorem rstrip_noWs {l : List Char} (h : NoWs l) : rstrip l = l := by
  unfold rstrip
  rw [dropWhile_noWs (l := l.reverse) (fun c hc => h c (by simpa using hc))]
  simp

theorem lstrip_blanks (k : Nat) (l : List Char) (h : NoWs l) :
    lstrip (List.replicate k ' ' ++ l) = l := by
  induction k with
  | zero => simpa [lstrip] using dropWhile_noWs h
  | succ k ih =>
    simp only [lstrip, List.replicate_succ, List.cons_append] at ih ⊢
    rw [List.dropWhile_cons_of_pos (by decide)]
    exact ih

/-- `rstrip (a ++ b) = a ++ b` when `b` is non-empty and free of whitespace -/
theorem rstrip_append_noWs (a b : List Char) (hb : b ≠ []) (h : NoWs b) :
    rstrip (a ++ b) = a ++ b := by
  unfold rstrip
  rw [List.reverse_append]
  cases hr : b.reverse with
  | nil => simp at hr; exact absurd hr hb
  | cons c t =>
    have hc : isWs c = false := h c (by
      have : c ∈ b.reverse := by simp [hr]
      simpa using this)
    rw [List.cons_append, List.dropWhile_cons_of_neg (by simp [hc])]
    rw [← List.cons_append, ← hr, ← List.reverse_append]
    simp

theorem strip_pad_noWs (k : Nat) (l : List Char) (hl : l ≠ []) (h : NoWs l) :
    strip (List.replicate k ' ' ++ l) = l := by
  unfold strip
  rw [rstrip_append_noWs _ _ hl h, lstrip_blanks k l h]

theorem strip_fmtFixed (w p : Nat) (d : Dec) : strip (fmtFixed w p d) = fmtCore p d :=
  strip_pad_noWs _ _ (fmtCore_ne_nil p d) (fmtCore_noWs p d)

/-- **Theorem 1a.** Reading back a number written with `'{:width.prec f}'` gives exactly the
    sign-magnitude decimal that was written — for every width and precision, every magnitude
    (also when the field overflows its width) and both zeros. -/
theorem parse_fmt_fixed (width prec : Nat) (d : Dec) :
    parseFixed prec (fmtFixed width prec d) = some d := by
  unfold parseFixed
  rw [strip_fmtFixed, parseCore_fmtCore]

example : parseFixed 9 (fmtFixed 15 9 ⟨true, 0⟩) = some ⟨true, 0⟩ := by decide
example : fmtFixed 15 9 ⟨true, 12345678901⟩ = "  -12.345678901".toList := by decide

/-- **Theorem 1b.** the field has exactly `width` characters whenever the unpadded text fits -/
theorem fmtFixed_length (width prec : Nat) (d : Dec) (h : (fmtCore prec d).length ≤ width) :
    (fmtFixed width prec d).length = width := by
  simp [fmtFixed]; omega

example : (fmtCore 9 ⟨true, 9999999999999⟩).length ≤ 15 := by decide

/-- otherwise it is as long as the unpadded text: Python never truncates -/
theorem fmtFixed_length_overflow (width prec : Nat) (d : Dec) (h : width ≤ (fmtCore prec d).length) :
    fmtFixed width prec d = fmtCore prec d := by
  have : width - (fmtCore prec d).length = 0 := by omega
  simp [fmtFixed, this]

/-! ### lines -/

/-- no line terminator inside -/
def NoBrk (l : List Char) : Prop := ∀ c ∈ l, c ≠ '\n' ∧ c ≠ '\r'

theorem pyLines_line (l rest : List Char) (h : NoBrk l) :
    pyLines (l ++ '\n' :: rest) = l :: pyLines rest := by
  induction l with
  | nil => simp [pyLines]
  | cons a t ih =>
    have ha := h a (by simp)
    have := ih (fun c hc => h c (by simp [hc]))
    simp [pyLines, ha.1, ha.2, this]

theorem pyLines_unlines (ls : List Line) (h : ∀ l ∈ ls, NoBrk l) : pyLines (unlines ls) = ls := by
  induction ls with
  | nil => rfl
  | cons l t ih =>
    simp only [unlines]
    rw [pyLines_line l _ (h l (by simp)), ih (fun x hx => h x (by simp [hx]))]

theorem unlines_append (a b : List Line) : unlines (a ++ b) = unlines a ++ unlines b := by
  induction a with
  | nil => rfl
  | cons l t ih => simp [unlines, ih]

theorem NoBrk_of_noWs {l : List Char} (h : NoWs l) : NoBrk l := by
  intro c hc
  have := h c hc
  constructor <;> (intro e; subst e; simp [isWs] at this)

theorem NoBrk_append {a b : List Char} (ha : NoBrk a) (hb : NoBrk b) : NoBrk (a ++ b) := by
  intro c hc
  rcases List.mem_append.1 hc with h | h
  · exact ha c h
  · exact hb c h

theorem NoBrk_cons {a : Char} {b : List Char} (ha : a ≠ '\n' ∧ a ≠ '\r') (hb : NoBrk b) : NoBrk (a :: b) := by
  intro c hc
  rcases List.mem_cons.1 hc with h | h
  · subst h; exact ha
  · exact hb c h

theorem NoBrk_nil : NoBrk [] := by intro c hc; simp at hc

theorem NoBrk_blanks (k : Nat) : NoBrk (List.replicate k ' ') := by
  intro c hc
  have := (List.mem_replicate.1 hc).2
  subst this
  decide

theorem NoBrk_fmtCore (p : Nat) (d : Dec) : NoBrk (fmtCore p d) := NoBrk_of_noWs (fmtCore_noWs p d)

theorem NoBrk_fmtFixed (w p : Nat) (d : Dec) : NoBrk (fmtFixed w p d) :=
  NoBrk_append (NoBrk_blanks _) (NoBrk_fmtCore p d)

theorem NoBrk_natDigits (n : Nat) : NoBrk (natDigits n) := by
  intro c hc
  have := numChars_props c (by simp [numChars, natDigits_mem n c hc])
  exact ⟨this.2.1, this.2.2.1⟩

/-! ### `split()` -/

theorem splitWs_ws (c : Char) (t : List Char) (h : isWs c = true) : splitWs (c :: t) = splitWs t := by
  simp [splitWs, h]

theorem splitWs_blanks (k : Nat) (t : List Char) : splitWs (List.replicate k ' ' ++ t) = splitWs t := by
  induction k with
  | zero => simp
  | succ k ih => rw [List.replicate_succ, List.cons_append, splitWs_ws _ _ (by decide), ih]

theorem splitWs_allWs (w : List Char) (h : ∀ c ∈ w, isWs c = true) : splitWs w = [] := by
  induction w with
  | nil => rfl
  | cons a t ih => rw [splitWs_ws _ _ (h a (by simp)), ih (fun c hc => h c (by simp [hc]))]

/-- a whitespace-free non-empty token followed by whitespace or the end is split off -/
theorem splitWs_token (tok rest : List Char) (hne : tok ≠ []) (h : NoWs tok)
    (hr : ∀ c, rest.head? = some c → isWs c = true) :
    splitWs (tok ++ rest) = tok :: splitWs rest := by
  induction tok with
  | nil => exact absurd rfl hne
  | cons a t ih =>
    have ha : isWs a = false := h a (by simp)
    cases t with
    | nil =>
      cases rest with
      | nil => simp [splitWs, ha]
      | cons d r =>
        have hd := hr d (by simp)
        simp [splitWs, ha, hd]
    | cons b t' =>
      have hb : isWs b = false := h b (by simp)
      have := ih (by simp) (fun c hc => h c (by simp [hc]))
      simp only [List.cons_append] at this ⊢
      rw [splitWs]
      simp only [ha, Bool.false_eq_true, if_false]
      rw [this]
      simp [hb]

/-- a blank followed by a formatted field -/
theorem splitWs_field (w p : Nat) (d : Dec) (rest : List Char)
    (hr : ∀ c, rest.head? = some c → isWs c = true) :
    splitWs (' ' :: (fmtFixed w p d ++ rest)) = fmtCore p d :: splitWs rest := by
  rw [splitWs_ws _ _ (by decide), fmtFixed, List.append_assoc, splitWs_blanks,
    splitWs_token _ _ (fmtCore_ne_nil p d) (fmtCore_noWs p d) hr]

theorem splitWs_append_ws (s w : List Char) (h : ∀ c ∈ w, isWs c = true) :
    splitWs (s ++ w) = splitWs s := by
  induction s with
  | nil => simpa [splitWs] using splitWs_allWs w h
  | cons a t ih =>
    by_cases ha : isWs a = true
    · rw [List.cons_append, splitWs_ws _ _ ha, splitWs_ws _ _ ha, ih]
    · have ha' : isWs a = false := by simpa using ha
      cases t with
      | nil =>
        cases w with
        | nil => simp
        | cons d r =>
          have hd := h d (by simp)
          simp [splitWs, ha', hd, splitWs_allWs r (fun c hc => h c (by simp [hc]))]
      | cons b t' =>
        simp only [List.cons_append] at ih ⊢
        rw [splitWs, splitWs.eq_def (a :: b :: t')]
        simp only [ha', Bool.false_eq_true, if_false, ih]

theorem rstrip_decomp (l : List Char) : ∃ w, l = rstrip l ++ w ∧ ∀ c ∈ w, isWs c = true := by
  refine ⟨(l.reverse.takeWhile isWs).reverse, ?_, ?_⟩
  · unfold rstrip
    rw [← List.reverse_append, List.takeWhile_append_dropWhile, List.reverse_reverse]
  · intro c hc
    have hc' : c ∈ l.reverse.takeWhile isWs := by simpa using hc
    have := List.all_takeWhile (p := isWs) (l := l.reverse)
    rw [List.all_eq_true] at this
    exact this c hc'

theorem splitWs_rstrip (l : List Char) : splitWs (rstrip l) = splitWs l := by
  obtain ⟨w, hw, hws⟩ := rstrip_decomp l
  conv => rhs; rw [hw]
  rw [splitWs_append_ws _ _ hws]

theorem splitWs_lstrip (l : List Char) : splitWs (lstrip l) = splitWs l := by
  induction l with
  | nil => rfl
  | cons a t ih =>
    by_cases ha : isWs a = true
    · rw [splitWs_ws _ _ ha, ← ih]; simp [lstrip, List.dropWhile, ha]
    · simp [lstrip, List.dropWhile, ha]

theorem splitWs_strip (l : List Char) : splitWs (strip l) = splitWs l := by
  rw [strip, splitWs_lstrip, splitWs_rstrip]

theorem mem_rstrip {c : Char} {l : List Char} (h : c ∈ rstrip l) : c ∈ l := by
  unfold rstrip at h
  have h1 : c ∈ l.reverse.dropWhile isWs := by simpa using h
  have := (List.dropWhile_sublist isWs (l := l.reverse)).subset h1
  simpa using this

/-- `rstrip (a ++ c :: b) = a ++ c :: rstrip b` for a non-blank `c` -/
theorem rstrip_after (a : List Char) (c : Char) (b : List Char) (hc : isWs c = false) :
    rstrip (a ++ c :: b) = a ++ c :: rstrip b := by
  unfold rstrip
  rw [List.reverse_append, List.reverse_cons, List.append_assoc, List.dropWhile_append]
  split
  · rename_i he
    have : List.dropWhile isWs b.reverse = [] := by simpa using he
    rw [this]
    simp [hc]
  · simp

theorem parseFixed_core (p : Nat) (d : Dec) : parseFixed p (fmtCore p d) = some d := by
  have := strip_pad_noWs 0 _ (fmtCore_ne_nil p d) (fmtCore_noWs p d)
  simp only [List.replicate_zero, List.nil_append] at this
  rw [parseFixed, this, parseCore_fmtCore]

theorem parseAll_cores (p : Nat) (b : List Dec) : parseAll p (b.map (fmtCore p)) = some b := by
  induction b with
  | nil => rfl
  | cons d t ih => simp [parseAll, parseFixed_core, ih]

/-! ### extended xyz: one frame -/

/-- the guard on a configuration written as an xyz frame: one name and one velocity per position,
    at least one atom, names non-empty and free of whitespace -/
structure XyzOk (c : Conf) : Prop where
  names_len : c.names.length = c.pos.length
  vel_len : c.vel.length = c.pos.length
  nonempty : c.pos ≠ []
  names_ok : ∀ nm ∈ c.names, nm ≠ [] ∧ NoWs nm

def atomLs : List Line → List V3 → List V3 → List Line
  | nm :: ns, p :: ps, v :: vs => xyzAtomLine nm p v :: atomLs ns ps vs
  | _, _, _ => []

theorem xyzAtomLines_eq (ns : List Line) (ps vs : List V3)
    (h1 : ns.length = ps.length) (h2 : vs.length = ps.length) :
    xyzAtomLines ns ps vs = .ok (atomLs ns ps vs) := by
  induction ps generalizing ns vs with
  | nil => cases ns <;> cases vs <;> simp_all [xyzAtomLines, atomLs]
  | cons p ps ih =>
    cases ns with
    | nil => simp at h1
    | cons nm ns =>
      cases vs with
      | nil => simp at h2
      | cons v vs =>
        simp only [List.length_cons, Nat.add_right_cancel_iff] at h1 h2
        simp [xyzAtomLines, atomLs, ih ns vs h1 h2]

/-- the lines of one frame written without a step number -/
def frameLines (c : Conf) : List Line :=
  natDigits c.pos.length :: xyzHeader c.box none :: atomLs c.names c.pos c.vel

theorem writeXyzLines_eq (c : Conf) (h : XyzOk c) :
    writeXyzLines (some c.names) c.pos c.vel c.box none = .ok (frameLines c) := by
  simp [writeXyzLines, xyzAtomLines_eq _ _ _ h.names_len h.vel_len, frameLines]

theorem writeConf_eq (c : Conf) (h : XyzOk c) : writeConf c = .ok (unlines (frameLines c)) := by
  simp [writeConf, writeXyz, writeXyzLines_eq c h]

/-- the snapshot dict the reader builds for a frame -/
def snapOf (c : Conf) : Snap :=
  { header := strip (xyzHeader c.box none), box := c.box, names := c.names,
    x := c.pos.map (·.x), y := c.pos.map (·.y), z := c.pos.map (·.z),
    vx := c.vel.map (·.x), vy := c.vel.map (·.y), vz := c.vel.map (·.z) }

theorem head_blank_pad (j : Nat) (r : List Char) :
    ∀ c, (List.replicate j ' ' ++ ' ' :: r).head? = some c → isWs c = true := by
  intro c hc
  cases j with
  | zero => simp at hc; subst hc; decide
  | succ j => simp [List.replicate_succ] at hc; subst hc; decide

theorem head_blank (r : List Char) : ∀ c, (' ' :: r).head? = some c → isWs c = true := by
  intro c hc; simp at hc; subst hc; decide

theorem head_nil : ∀ c, ([] : List Char).head? = some c → isWs c = true := by
  intro c hc; simp at hc

theorem atomLine_tokens (nm : Line) (p v : V3) (hne : nm ≠ []) (hw : NoWs nm) :
    splitWs (strip (xyzAtomLine nm p v)) =
      [nm, fmtCore 9 p.x, fmtCore 9 p.y, fmtCore 9 p.z, fmtCore 9 v.x, fmtCore 9 v.y, fmtCore 9 v.z] := by
  rw [splitWs_strip]
  simp only [xyzAtomLine, padName, List.append_assoc, List.cons_append]
  rw [splitWs_token nm _ hne hw (head_blank_pad _ _), splitWs_blanks,
    splitWs_field _ _ _ _ (head_blank _), splitWs_field _ _ _ _ (head_blank _),
    splitWs_field _ _ _ _ (head_blank _), splitWs_field _ _ _ _ (head_blank _),
    splitWs_field _ _ _ _ (head_blank _)]
  have := splitWs_field 15 9 v.z [] head_nil
  simp only [List.append_nil] at this
  rw [this]
  rfl

theorem addData_atom (s : Snap) (nm : Line) (p v : V3) :
    addData s [nm, fmtCore 9 p.x, fmtCore 9 p.y, fmtCore 9 p.z, fmtCore 9 v.x, fmtCore 9 v.y, fmtCore 9 v.z]
      = .ok { s with names := s.names ++ [nm], x := s.x ++ [p.x], y := s.y ++ [p.y], z := s.z ++ [p.z],
                     vx := s.vx ++ [v.x], vy := s.vy ++ [v.y], vz := s.vz ++ [v.z] } := by
  simp [addData, parseFixed_core]

/-- the atom lines of a frame are consumed one by one, appending to the seven columns -/
theorem xyzLoop_atoms (ns : List Line) (ps vs : List V3) (rest : List Line) (s : Snap)
    (h1 : ns.length = ps.length) (h2 : vs.length = ps.length)
    (hn : ∀ nm ∈ ns, nm ≠ [] ∧ NoWs nm) :
    xyzLoop ps.length (some s) false (atomLs ns ps vs ++ rest) =
      xyzLoop 0 (some { s with names := s.names ++ ns,
                               x := s.x ++ ps.map (·.x), y := s.y ++ ps.map (·.y), z := s.z ++ ps.map (·.z),
                               vx := s.vx ++ vs.map (·.x), vy := s.vy ++ vs.map (·.y),
                               vz := s.vz ++ vs.map (·.z) }) false rest := by
  induction ps generalizing ns vs s with
  | nil =>
    cases ns with
    | cons _ _ => simp at h1
    | nil =>
      cases vs with
      | cons _ _ => simp at h2
      | nil => simp [atomLs]
  | cons p ps ih =>
    cases ns with
    | nil => simp at h1
    | cons nm ns =>
      cases vs with
      | nil => simp at h2
      | cons v vs =>
        simp only [List.length_cons, Nat.add_right_cancel_iff] at h1 h2
        have hnm := hn nm (by simp)
        simp only [atomLs, List.cons_append, List.length_cons]
        rw [xyzLoop]
        simp only [Bool.false_eq_true, if_false, Nat.add_one_ne_zero, Option.getD_some,
          atomLine_tokens nm p v hnm.1 hnm.2, addData_atom, Nat.add_sub_cancel]
        rw [ih ns vs _ h1 h2 (fun x hx => hn x (by simp [hx]))]
        simp [List.append_assoc]

theorem parseCount_natDigits (n : Nat) : parseCount (natDigits n) = some n := by
  have hs : strip (natDigits n) = natDigits n := by
    have := strip_pad_noWs 0 _ (natDigits_ne_nil n)
      (fun c hc => (numChars_props c (by simp [numChars, natDigits_mem n c hc])).1)
    simpa using this
  unfold parseCount
  rw [hs]
  cases h : natDigits n with
  | nil => exact absurd h (natDigits_ne_nil n)
  | cons a t => simp only; rw [← h, natDigits_val]

/-! ### the header line -/

theorem joinSp_tokens (w p : Nat) (b : List Dec) :
    splitWs (joinSp (b.map (fmtFixed w p)) ++ [' ']) = b.map (fmtCore p) := by
  induction b with
  | nil => simp [joinSp, splitWs]; decide
  | cons d t ih =>
    cases t with
    | nil =>
      simp only [List.map, joinSp, fmtFixed, List.append_assoc]
      rw [splitWs_blanks, splitWs_token _ _ (fmtCore_ne_nil p d) (fmtCore_noWs p d) (head_blank _)]
      simp [splitWs]; decide
    | cons e t' =>
      simp only [List.map, joinSp, fmtFixed, List.append_assoc, List.cons_append] at ih ⊢
      rw [splitWs_blanks, splitWs_token _ _ (fmtCore_ne_nil p d) (fmtCore_noWs p d) (head_blank _),
        splitWs_ws _ _ (by decide), ih]

/-- characters of the numeric part of a header: blanks and number characters -/
def hdrChars : List Char := ' ' :: numChars

theorem hdrChars_props : ∀ c ∈ hdrChars, c ≠ '\n' ∧ c ≠ '\r' ∧ lowerC c = c ∧ c ≠ 'b' := by decide

theorem fmtFixed_hdr (w p : Nat) (d : Dec) : ∀ c ∈ fmtFixed w p d, c ∈ hdrChars := by
  intro c hc
  rcases List.mem_append.1 hc with h | h
  · have := (List.mem_replicate.1 h).2; subst this; simp [hdrChars]
  · exact List.mem_cons_of_mem _ (fmtCore_mem p d c h)

theorem joinSp_hdr (w p : Nat) (b : List Dec) : ∀ c ∈ joinSp (b.map (fmtFixed w p)), c ∈ hdrChars := by
  induction b with
  | nil => intro c hc; simp [joinSp] at hc
  | cons d t ih =>
    cases t with
    | nil => simpa [joinSp] using fmtFixed_hdr w p d
    | cons e t' =>
      intro c hc
      simp only [List.map, joinSp, List.mem_append, List.mem_cons] at hc ih
      rcases hc with h | h | h
      · exact fmtFixed_hdr w p d c h
      · subst h; simp [hdrChars]
      · exact ih c h

theorem upToBox_noB (l : List Char) (h : ∀ c ∈ l, c ≠ 'b') : upToBox l = l := by
  induction l with
  | nil => rfl
  | cons a t ih =>
    have ha := h a (by simp)
    simp [upToBox, kwBoxLower, ih (fun c hc => h c (by simp [hc]))]
    intro e; exact absurd e.symm ha

theorem map_lower_id (l : List Char) (h : ∀ c ∈ l, lowerC c = c) : l.map lowerC = l := by
  induction l with
  | nil => rfl
  | cons a t ih => simp [h a (by simp), ih (fun c hc => h c (by simp [hc]))]

theorem xyzHeader_none : xyzHeader none none = ['#', ' '] := by rfl

theorem xyzHeader_some (b : List Dec) :
    xyzHeader (some b) none =
      ['#', ' ', 'B', 'o', 'x', ':'] ++ ' ' :: (joinSp (b.map (fmtFixed 9 4)) ++ [' ']) := by
  simp [xyzHeader, joinSp, kwBox]

theorem strip_header_some (b : List Dec) :
    strip (xyzHeader (some b) none) =
      ['#', ' ', 'B', 'o', 'x', ':'] ++ rstrip (' ' :: (joinSp (b.map (fmtFixed 9 4)) ++ [' '])) := by
  rw [xyzHeader_some, strip]
  have := rstrip_after ['#', ' ', 'B', 'o', 'x'] ':' (' ' :: (joinSp (b.map (fmtFixed 9 4)) ++ [' ']))
    (by decide)
  simp only [List.cons_append, List.nil_append] at this ⊢
  rw [this, lstrip, List.dropWhile_cons_of_neg (by decide)]

/-- the box survives the header: `get_box_from_header(header.strip())` returns what was written -/
theorem getBox_header (box : Option (List Dec)) :
    getBox (strip (xyzHeader box none)) = .ok box := by
  cases box with
  | none =>
    have h1 : strip ['#', ' '] = ['#'] := by decide
    have h2 : afterBox (['#'].map lowerC) = none := by decide
    rw [xyzHeader_none, h1, getBox, h2]
  | some b =>
    rw [strip_header_some]
    have hR : ∀ c ∈ rstrip (' ' :: (joinSp (b.map (fmtFixed 9 4)) ++ [' '])), c ∈ hdrChars := by
      intro c hc
      have := mem_rstrip hc
      simp only [List.mem_cons, List.mem_append, List.not_mem_nil, or_false] at this
      rcases this with h | h | h
      · subst h; simp [hdrChars]
      · exact joinSp_hdr 9 4 b c h
      · subst h; simp [hdrChars]
    generalize hRdef : rstrip (' ' :: (joinSp (b.map (fmtFixed 9 4)) ++ [' '])) = R at hR
    have hlow : R.map lowerC = R := map_lower_id R (fun c hc => (hdrChars_props c (hR c hc)).2.2.1)
    have hnb : upToBox R = R := upToBox_noB R (fun c hc => (hdrChars_props c (hR c hc)).2.2.2)
    have hab : afterBox (['#', ' ', 'b', 'o', 'x', ':'] ++ R) = some R := by
      simp [afterBox, kwBoxLower]
    have hl : (['#', ' ', 'B', 'o', 'x', ':'] ++ R).map lowerC = ['#', ' ', 'b', 'o', 'x', ':'] ++ R := by
      rw [List.map_append, hlow]; congr 1
    unfold getBox
    rw [hl, hab]
    simp only
    rw [hnb, splitWs_strip, ← hRdef, splitWs_rstrip, splitWs_ws _ _ (by decide), joinSp_tokens,
      parseAll_cores]

/-! ### frames -/

/-- one whole frame is consumed: the pending snapshot is yielded at the count line and the frame's
    own snapshot becomes the pending one -/
theorem xyzLoop_frame (c : Conf) (h : XyzOk c) (prev : Option Snap) (rest : List Line) :
    xyzLoop 0 prev false (frameLines c ++ rest) =
      (prev.toList ++ (xyzLoop 0 (some (snapOf c)) false rest).1,
       (xyzLoop 0 (some (snapOf c)) false rest).2) := by
  simp only [frameLines, List.cons_append]
  rw [xyzLoop]
  simp only [Bool.false_eq_true, if_false, if_true, parseCount_natDigits]
  rw [xyzLoop]
  simp only [if_true, getBox_header]
  rw [xyzLoop_atoms _ _ _ _ _ h.names_len h.vel_len h.names_ok]
  simp [snapOf, Snap.blank]

theorem xyzLoop_frames (cs : List Conf) (h : ∀ c ∈ cs, XyzOk c) (prev : Option Snap) :
    xyzLoop 0 prev false (cs.flatMap frameLines) = (prev.toList ++ cs.map snapOf, none) := by
  induction cs generalizing prev with
  | nil => simp [xyzLoop]
  | cons c t ih =>
    rw [List.flatMap_cons, xyzLoop_frame c (h c (by simp)), ih (fun x hx => h x (by simp [hx]))]
    simp

theorem zip3_map (ps : List V3) : zip3 (ps.map (·.x)) (ps.map (·.y)) (ps.map (·.z)) = ps := by
  induction ps with
  | nil => rfl
  | cons p t ih => simp [zip3, ih]

theorem convert_snapOf (c : Conf) (h : XyzOk c) : convertSnapshot (snapOf c) = .ok c := by
  have hn : c.names ≠ [] := by
    intro e; have := h.names_len; rw [e] at this; exact h.nonempty (List.length_eq_zero_iff.1 this.symm)
  have hv : c.vel ≠ [] := by
    intro e; have := h.vel_len; rw [e] at this; exact h.nonempty (List.length_eq_zero_iff.1 this.symm)
  have hp := h.nonempty
  simp [convertSnapshot, snapOf, hn, posCol, velCol, fitCol, hp, hv, h.names_len, h.vel_len, zip3_map]

/-! ### no line terminators inside the written lines -/

theorem NoBrk_of_hdr {l : List Char} (h : ∀ c ∈ l, c ∈ hdrChars) : NoBrk l :=
  fun c hc => ⟨(hdrChars_props c (h c hc)).1, (hdrChars_props c (h c hc)).2.1⟩

theorem NoBrk_header (box : Option (List Dec)) : NoBrk (xyzHeader box none) := by
  cases box with
  | none => rw [xyzHeader_none]; intro c hc; revert c; decide
  | some b =>
    rw [xyzHeader_some]
    refine NoBrk_append (by intro c hc; revert c; decide) (NoBrk_cons (by decide) (NoBrk_append ?_ ?_))
    · exact NoBrk_of_hdr (joinSp_hdr 9 4 b)
    · intro c hc; revert c; decide

theorem NoBrk_atomLine (nm : Line) (p v : V3) (hw : NoWs nm) : NoBrk (xyzAtomLine nm p v) := by
  simp only [xyzAtomLine, padName, List.append_assoc, List.cons_append]
  have hb : (' ' : Char) ≠ '\n' ∧ (' ' : Char) ≠ '\r' := by decide
  refine NoBrk_append (NoBrk_of_noWs hw) (NoBrk_append (NoBrk_blanks _) ?_)
  refine NoBrk_cons hb (NoBrk_append (NoBrk_fmtFixed _ _ _) ?_)
  refine NoBrk_cons hb (NoBrk_append (NoBrk_fmtFixed _ _ _) ?_)
  refine NoBrk_cons hb (NoBrk_append (NoBrk_fmtFixed _ _ _) ?_)
  refine NoBrk_cons hb (NoBrk_append (NoBrk_fmtFixed _ _ _) ?_)
  refine NoBrk_cons hb (NoBrk_append (NoBrk_fmtFixed _ _ _) ?_)
  exact NoBrk_cons hb (NoBrk_fmtFixed _ _ _)

theorem NoBrk_atomLs (ns : List Line) (ps vs : List V3) (hn : ∀ nm ∈ ns, nm ≠ [] ∧ NoWs nm) :
    ∀ l ∈ atomLs ns ps vs, NoBrk l := by
  induction ns generalizing ps vs with
  | nil => intro l hl; simp [atomLs] at hl
  | cons nm ns ih =>
    cases ps with
    | nil => intro l hl; simp [atomLs] at hl
    | cons p ps =>
      cases vs with
      | nil => intro l hl; simp [atomLs] at hl
      | cons v vs =>
        intro l hl
        simp only [atomLs, List.mem_cons] at hl
        rcases hl with e | hl
        · subst e; exact NoBrk_atomLine nm p v (hn nm (by simp)).2
        · exact ih ps vs (fun x hx => hn x (by simp [hx])) l hl

theorem NoBrk_frameLines (c : Conf) (h : XyzOk c) : ∀ l ∈ frameLines c, NoBrk l := by
  intro l hl
  simp only [frameLines, List.mem_cons] at hl
  rcases hl with e | e | hl
  · subst e; exact NoBrk_natDigits _
  · subst e; exact NoBrk_header _
  · exact NoBrk_atomLs _ _ _ h.names_ok l hl

/-- the bytes of a trajectory file: frames appended one after the other -/
def trajText (cs : List Conf) : Text := unlines (cs.flatMap frameLines)

/-- appending the frames with `write_xyz_trajectory(…, append=True)` one by one -/
def writeTraj : List Conf → Except Err Text
  | [] => .ok []
  | c :: cs =>
    match writeConf c, writeTraj cs with
    | .ok a, .ok b => .ok (a ++ b)
    | .error e, _ => .error e
    | _, .error e => .error e

theorem writeTraj_eq (cs : List Conf) (h : ∀ c ∈ cs, XyzOk c) : writeTraj cs = .ok (trajText cs) := by
  induction cs with
  | nil => rfl
  | cons c t ih =>
    simp [writeTraj, writeConf_eq c (h c (by simp)), ih (fun x hx => h x (by simp [hx])), trajText,
      unlines_append]

theorem readXyzFrames_traj (cs : List Conf) (h : ∀ c ∈ cs, XyzOk c) :
    readXyzFrames (trajText cs) = (cs.map snapOf, none) := by
  unfold readXyzFrames trajText
  rw [pyLines_unlines]
  · simpa [readXyzLines] using xyzLoop_frames cs h none
  · intro l hl
    obtain ⟨c, hc, hlc⟩ := List.mem_flatMap.1 hl
    exact NoBrk_frameLines c (h c hc) l hlc

theorem trajText_single (c : Conf) : trajText [c] = unlines (frameLines c) := by
  simp [trajText]

/-! ### Theorem 3: xyz write → read round trip -/

/-- writing a configuration as an xyz frame succeeds under the guard -/
theorem xyz_write_ok (c : Conf) (h : XyzOk c) :
    writeXyz (some c.names) c.pos c.vel c.box none = .ok (unlines (frameLines c)) :=
  writeConf_eq c h

/-- **Theorem 3.** For every atom count ≥ 1, every ordering, names that are non-empty and free of
    whitespace, arbitrary 9-decimal positions/velocities and an arbitrary (or no) 4-decimal box:
    the file written by `write_xyz_trajectory` is read by `read_xyz_file` as exactly one snapshot,
    `convert_snapshot` returns (box, pos, vel, names) as written — signs of zero included — and
    `_read_configuration` returns the same. -/
theorem xyz_read_write_roundtrip (c : Conf) (h : XyzOk c) (t : Text)
    (hw : writeXyz (some c.names) c.pos c.vel c.box none = .ok t) :
    readXyzFrames t = ([snapOf c], none) ∧ convertSnapshot (snapOf c) = .ok c ∧
      readConfiguration t = .ok c := by
  rw [xyz_write_ok c h] at hw
  have ht : t = trajText [c] := by rw [trajText_single]; exact (Except.ok.inj hw).symm
  have hr : readXyzFrames t = ([snapOf c], none) := by
    rw [ht]; simpa using readXyzFrames_traj [c] (by simpa using h)
  refine ⟨hr, convert_snapOf c h, ?_⟩
  simp [readConfiguration, hr, convert_snapOf c h]

/-- the guard is satisfiable: two atoms in "wrong" order, both zeros, a 3-component box -/
def exConf : Conf :=
  { box := some [⟨false, 125000⟩, ⟨false, 20000⟩, ⟨false, 35001⟩],
    pos := [⟨⟨false, 1500000000⟩, ⟨true, 0⟩, ⟨false, 0⟩⟩, ⟨⟨true, 9999999999999⟩, ⟨false, 1⟩, ⟨true, 25⟩⟩],
    vel := [⟨⟨true, 100000000⟩, ⟨false, 0⟩, ⟨true, 0⟩⟩, ⟨⟨false, 7⟩, ⟨false, 123456789012⟩, ⟨true, 3⟩⟩],
    names := [['O'], ['H', 'x', '1', '2', '3', '4']] }

theorem exConf_ok : XyzOk exConf := by
  refine ⟨rfl, rfl, by decide, ?_⟩
  intro nm hnm
  simp only [exConf, List.mem_cons, List.not_mem_nil, or_false] at hnm
  rcases hnm with e | e <;> subst e <;> refine ⟨by decide, ?_⟩ <;> intro c hc <;> revert c <;> decide

example : ∃ t, writeXyz (some exConf.names) exConf.pos exConf.vel exConf.box none = .ok t ∧
    readConfiguration t = .ok exConf :=
  ⟨_, xyz_write_ok exConf exConf_ok,
    (xyz_read_write_roundtrip exConf exConf_ok _ (xyz_write_ok exConf exConf_ok)).2.2⟩

/-- no atoms: the written file reads back as a snapshot without columns, and `convert_snapshot`
    raises KeyError — the guard `pos ≠ []` of Theorem 3 is necessary. -/
theorem xyz_roundtrip_zero_atoms_counterexample :
    ∃ t, writeXyz (some []) [] [] none none = .ok t ∧ readConfiguration t = .error .key := by
  refine ⟨_, rfl, ?_⟩
  rfl

/-! ### Theorem 4: frame extraction -/

/-- **Theorem 4.** From a trajectory made of any number of frames (each under the guard, atom
    counts may differ) `_extract_frame(traj, k, out)` writes exactly the bytes that writing frame
    `k` alone gives, for every `k` below the number of frames … -/
theorem extract_frame_k (cs : List Conf) (h : ∀ c ∈ cs, XyzOk c) (t : Text)
    (ht : writeTraj cs = .ok t) (k : Nat) (hk : k < cs.length) :
    ∃ o, writeConf cs[k] = .ok o ∧ extractFrame k t = .ok (some o) := by
  rw [writeTraj_eq cs h] at ht
  have ht' : t = trajText cs := (Except.ok.inj ht).symm
  have hc := h cs[k] (List.getElem_mem hk)
  refine ⟨_, writeConf_eq _ hc, ?_⟩
  simp [extractFrame, ht', readXyzFrames_traj cs h, hk, convert_snapOf _ hc, writeConf_eq _ hc]

/-- … and writes nothing (only logs) for every `k` at or beyond the number of frames. -/
theorem extract_frame_beyond (cs : List Conf) (h : ∀ c ∈ cs, XyzOk c) (t : Text)
    (ht : writeTraj cs = .ok t) (k : Nat) (hk : cs.length ≤ k) :
    extractFrame k t = .ok none := by
  rw [writeTraj_eq cs h] at ht
  have ht' : t = trajText cs := (Except.ok.inj ht).symm
  simp [extractFrame, ht', readXyzFrames_traj cs h, hk]

def exConf2 : Conf :=
  { box := none, pos := [⟨⟨false, 1⟩, ⟨true, 2⟩, ⟨false, 3⟩⟩], vel := [⟨⟨true, 0⟩, ⟨false, 0⟩, ⟨true, 5⟩⟩],
    names := [['A', 'r']] }

theorem exConf2_ok : XyzOk exConf2 := by
  refine ⟨rfl, rfl, by decide, ?_⟩
  intro nm hnm
  simp only [exConf2, List.mem_cons, List.not_mem_nil, or_false] at hnm
  subst hnm
  exact ⟨by decide, by intro c hc; revert c; decide⟩

theorem exTraj_ok : ∀ c ∈ [exConf, exConf2, exConf], XyzOk c := by
  intro c hc
  simp only [List.mem_cons, List.not_mem_nil, or_false] at hc
  rcases hc with e | e | e <;> subst e
  · exact exConf_ok
  · exact exConf2_ok
  · exact exConf_ok

example : ∃ t o, writeTraj [exConf, exConf2, exConf] = .ok t ∧ writeConf exConf2 = .ok o ∧
    extractFrame 1 t = .ok (some o) := by
  obtain ⟨o, h1, h2⟩ := extract_frame_k _ exTraj_ok _ (writeTraj_eq _ exTraj_ok) 1 (by decide)
  exact ⟨_, o, writeTraj_eq _ exTraj_ok, h1, h2⟩

/-! ### Theorem 5 (xyz): reversing velocities -/

theorem Dec.negate_negate (d : Dec) : d.negate.negate = d := by
  cases d; simp [Dec.negate]

theorem V3.negate_negate (v : V3) : v.negate.negate = v := by
  cases v; simp [V3.negate, Dec.negate_negate]

theorem map_negate_negate (vs : List V3) : (vs.map V3.negate).map V3.negate = vs := by
  induction vs with
  | nil => rfl
  | cons v t ih => simp only [List.map_cons, V3.negate_negate, ih]

/-- the configuration with every velocity component negated (sign flip, also of zeros) -/
def revConf (c : Conf) : Conf := { c with vel := c.vel.map V3.negate }

theorem revConf_ok (c : Conf) (h : XyzOk c) : XyzOk (revConf c) :=
  ⟨h.names_len, by simpa [revConf] using h.vel_len, h.nonempty, h.names_ok⟩

theorem revConf_revConf (c : Conf) : revConf (revConf c) = c := by
  cases c; simp only [revConf, map_negate_negate]

/-- **Theorem 5 (xyz).** `_reverse_velocities` on a written configuration produces exactly the file
    of the same configuration with negated velocities: reading it back gives the same box,
    positions and names, and each velocity component with its sign flipped; … -/
theorem xyz_reverse_only_negates_vel (c : Conf) (h : XyzOk c) (t : Text) (hw : writeConf c = .ok t) :
    ∃ t', reverseXyz t = .ok t' ∧ writeConf (revConf c) = .ok t' ∧
      readConfiguration t' = .ok (revConf c) := by
  have hr := (xyz_read_write_roundtrip c h t hw).2.2
  have hw' := writeConf_eq (revConf c) (revConf_ok c h)
  refine ⟨_, ?_, hw', (xyz_read_write_roundtrip _ (revConf_ok c h) _ hw').2.2⟩
  simp only [reverseXyz, hr]
  exact hw'

/-- … and reversing twice restores the file byte for byte. -/
theorem xyz_reverse_twice (c : Conf) (h : XyzOk c) (t : Text) (hw : writeConf c = .ok t) :
    ∃ t', reverseXyz t = .ok t' ∧ reverseXyz t' = .ok t := by
  obtain ⟨t', h1, h2, _⟩ := xyz_reverse_only_negates_vel c h t hw
  obtain ⟨t'', h3, h4, _⟩ := xyz_reverse_only_negates_vel (revConf c) (revConf_ok c h) t' h2
  rw [revConf_revConf, hw] at h4
  exact ⟨t', h1, by rw [h3, ← Except.ok.inj h4]⟩

example : ∃ t t', writeConf exConf = .ok t ∧ reverseXyz t = .ok t' ∧
    readConfiguration t' = .ok (revConf exConf) ∧ reverseXyz t' = .ok t := by
  obtain ⟨t', h1, h2, h3⟩ := xyz_reverse_only_negates_vel exConf exConf_ok _ (writeConf_eq _ exConf_ok)
  obtain ⟨t'', h4, h5⟩ := xyz_reverse_twice exConf exConf_ok _ (writeConf_eq _ exConf_ok)
  rw [h1] at h4
  exact ⟨_, t', writeConf_eq _ exConf_ok, h1, h3, by rw [Except.ok.inj h4]; exact h5⟩

/-! ### GROMACS .g96 -/

/-- a number fits its 15-character column (`|x| < 10^5`, negative: `|x| < 10^4`) -/
@[reducible] def Fit (d : Dec) : Prop := (fmtCore 9 d).length ≤ 15
def Fit3 (v : V3) : Prop := Fit v.x ∧ Fit v.y ∧ Fit v.z
/-- a box field that keeps a leading blank (`|x| < 10^4`, negative: `|x| < 10^3`) -/
@[reducible] def FitBox (d : Dec) : Prop := (fmtCore 9 d).length ≤ 14

theorem mem_strip_of_noWs {c : Char} {l : List Char} (hc : c ∈ l) (hw : isWs c = false) : c ∈ strip l := by
  have hd : ∀ (l : List Char), c ∈ l → c ∈ l.dropWhile isWs := by
    intro l
    induction l with
    | nil => intro h; exact h
    | cons a t ih =>
      intro h
      by_cases ha : isWs a = true
      · rw [List.dropWhile_cons_of_pos ha]
        rcases List.mem_cons.1 h with e | h
        · subst e; rw [hw] at ha; cases ha
        · exact ih h
      · rw [List.dropWhile_cons_of_neg ha]; exact h
  unfold strip lstrip rstrip
  apply hd
  rw [List.mem_reverse]
  apply hd
  rw [List.mem_reverse]
  exact hc

theorem not_kw_of_dot {s : List Char} (h : '.' ∈ s) : s ≠ kwEND ∧ keyOf s = none := by
  have hne : ∀ k : List Char, '.' ∉ k → s ≠ k := fun k hk e => hk (e ▸ h)
  refine ⟨hne _ (by decide), ?_⟩
  unfold keyOf
  rw [if_neg (hne _ (by decide)), if_neg (hne _ (by decide)), if_neg (hne _ (by decide)),
    if_neg (hne _ (by decide)), if_neg (hne _ (by decide)), if_neg (hne _ (by decide))]

theorem dot_mem_fmtFixed (w p : Nat) (d : Dec) : '.' ∈ fmtFixed w p d := by
  simp [fmtFixed, fmtCore]

theorem dataLine_of_dot {l : List Char} (h : '.' ∈ l) : strip l ≠ kwEND ∧ keyOf (strip l) = none :=
  not_kw_of_dot (mem_strip_of_noWs h (by decide))

/-- a line that is neither `END` nor a section keyword after stripping -/
def DataLine (l : Line) : Prop := strip l ≠ kwEND ∧ keyOf (strip l) = none

def pushAll (s : Sec) (ls : List Line) (r : G96Raw) : G96Raw := ls.foldr (fun l r => r.push s l) r

theorem collect_data (s : Sec) (ds rest : List Line) (r0 : G96Raw) (h : ∀ l ∈ ds, DataLine l)
    (hr : g96Collect (some s) rest = .ok r0) :
    g96Collect (some s) (ds ++ rest) = .ok (pushAll s (ds.map rstrip) r0) := by
  induction ds with
  | nil => simpa [pushAll] using hr
  | cons l t ih =>
    have hl := h l (by simp)
    have := ih (fun x hx => h x (by simp [hx]))
    simp only [List.cons_append, g96Collect, if_neg hl.1, hl.2, this]
    simp [pushAll]

theorem collect_end (sec : Option Sec) (rest : List Line) :
    g96Collect sec (kwEND :: rest) = g96Collect sec rest := by
  have : strip kwEND = kwEND := by decide
  simp [g96Collect, this]

theorem collect_kw (sec : Option Sec) (kw : Line) (k : Sec) (rest : List Line)
    (h1 : strip kw ≠ kwEND) (h2 : keyOf (strip kw) = some k) :
    g96Collect sec (kw :: rest) = g96Collect (some k) rest := by
  simp [g96Collect, if_neg h1, h2]

theorem pushAll_title (ls : List Line) (r : G96Raw) : pushAll .title ls r = { r with title := ls ++ r.title } := by
  induction ls with
  | nil => rfl
  | cons l t ih => simp only [pushAll, List.foldr_cons] at ih ⊢; rw [ih]; rfl

theorem pushAll_position (ls : List Line) (r : G96Raw) : pushAll .position ls r = { r with pos := ls ++ r.pos } := by
  induction ls with
  | nil => rfl
  | cons l t ih => simp only [pushAll, List.foldr_cons] at ih ⊢; rw [ih]; rfl

theorem pushAll_velocity (ls : List Line) (r : G96Raw) : pushAll .velocity ls r = { r with vel := ls ++ r.vel } := by
  induction ls with
  | nil => rfl
  | cons l t ih => simp only [pushAll, List.foldr_cons] at ih ⊢; rw [ih]; rfl

theorem pushAll_box (ls : List Line) (r : G96Raw) : pushAll .box ls r = { r with box := ls ++ r.box } := by
  induction ls with
  | nil => rfl
  | cons l t ih => simp only [pushAll, List.foldr_cons] at ih ⊢; rw [ih]; rfl

/-! rows -/

def rowLs : List Line → List V3 → List Line
  | t :: ts, v :: vs => g96Row t v :: rowLs ts vs
  | _, _ => []

theorem g96Rows_eq (ts : List Line) (vs : List V3) (h : vs.length = ts.length) :
    g96Rows ts vs = .ok (rowLs ts vs) := by
  induction ts generalizing vs with
  | nil => simp [g96Rows, rowLs]
  | cons t ts ih =>
    cases vs with
    | nil => simp at h
    | cons v vs =>
      simp only [List.length_cons, Nat.add_right_cancel_iff] at h
      simp [g96Rows, rowLs, ih vs h]

theorem slice_mid (a b c : List Char) (n k : Nat) (ha : a.length = n) (hb : b.length = k) :
    slice (a ++ (b ++ c)) n k = b := by
  rw [slice, List.drop_left' ha, List.take_left' hb]

theorem g96Row_rstrip (t : Line) (v : V3) : rstrip (g96Row t v) = g96Row t v := by
  unfold g96Row
  conv => lhs; rw [fmtFixed.eq_def 15 9 v.z, ← List.append_assoc]
  conv => rhs; rw [fmtFixed.eq_def 15 9 v.z, ← List.append_assoc]
  exact rstrip_append_noWs _ _ (fmtCore_ne_nil 9 v.z) (fmtCore_noWs 9 v.z)

theorem g96Row_data (t : Line) (v : V3) : DataLine (g96Row t v) :=
  dataLine_of_dot (by simp [g96Row, dot_mem_fmtFixed])

theorem g96Row_parse (t : Line) (v : V3) (ht : t.length = 24) (hv : Fit3 v) :
    g96Parse3 24 (g96Row t v) = some v ∧ (g96Row t v).take 24 = t := by
  have hx := fmtFixed_length 15 9 v.x hv.1
  have hy := fmtFixed_length 15 9 v.y hv.2.1
  have hz := fmtFixed_length 15 9 v.z hv.2.2
  constructor
  · unfold g96Parse3 g96Row
    have s1 : slice (t ++ fmtFixed 15 9 v.x ++ fmtFixed 15 9 v.y ++ fmtFixed 15 9 v.z) 24 15 = fmtFixed 15 9 v.x := by
      rw [List.append_assoc, List.append_assoc]; exact slice_mid _ _ _ _ _ ht hx
    have s2 : slice (t ++ fmtFixed 15 9 v.x ++ fmtFixed 15 9 v.y ++ fmtFixed 15 9 v.z) (24 + 15) 15 = fmtFixed 15 9 v.y := by
      rw [List.append_assoc]; exact slice_mid _ _ _ _ _ (by simp [ht, hx]) hy
    have s3 : slice (t ++ fmtFixed 15 9 v.x ++ fmtFixed 15 9 v.y ++ fmtFixed 15 9 v.z) (24 + 30) 15 = fmtFixed 15 9 v.z := by
      have := slice_mid (t ++ fmtFixed 15 9 v.x ++ fmtFixed 15 9 v.y) (fmtFixed 15 9 v.z) [] (24 + 30) 15
        (by simp [ht, hx, hy]) hz
      simpa using this
    rw [s1, s2, s3, parse_fmt_fixed, parse_fmt_fixed, parse_fmt_fixed]
  · unfold g96Row
    rw [List.append_assoc, List.append_assoc]
    exact List.take_left' ht

theorem rowLs_props (ts : List Line) (vs : List V3) (h : vs.length = ts.length)
    (ht : ∀ t ∈ ts, t.length = 24) (hv : ∀ v ∈ vs, Fit3 v) :
    (∀ l ∈ rowLs ts vs, DataLine l) ∧ (rowLs ts vs).map rstrip = rowLs ts vs ∧
      g96ParseRows 24 (rowLs ts vs) = .ok vs ∧ (rowLs ts vs).map (fun l => l.take 24) = ts := by
  induction ts generalizing vs with
  | nil =>
    cases vs with
    | nil => simp [rowLs, g96ParseRows]
    | cons _ _ => simp at h
  | cons t ts ih =>
    cases vs with
    | nil => simp at h
    | cons v vs =>
      simp only [List.length_cons, Nat.add_right_cancel_iff] at h
      obtain ⟨i1, i2, i3, i4⟩ := ih vs h (fun x hx => ht x (by simp [hx])) (fun x hx => hv x (by simp [hx]))
      have hp := g96Row_parse t v (ht t (by simp)) (hv v (by simp))
      refine ⟨?_, ?_, ?_, ?_⟩
      · intro l hl
        simp only [rowLs, List.mem_cons] at hl
        rcases hl with e | hl
        · subst e; exact g96Row_data t v
        · exact i1 l hl
      · simp [rowLs, g96Row_rstrip, i2]
      · simp [rowLs, g96ParseRows, hp.1, i3]
      · simp [rowLs, hp.2, i4]

/-! the box line -/

theorem head_fmtCat (ds : List Dec) (h : ∀ d ∈ ds, FitBox d) :
    ∀ c, (fmtCat 15 9 ds).head? = some c → isWs c = true := by
  intro c hc
  cases ds with
  | nil => simp [fmtCat] at hc
  | cons d t =>
    have hd : (fmtCore 9 d).length ≤ 14 := h d (by simp)
    obtain ⟨k, hk⟩ : ∃ k, 15 - (fmtCore 9 d).length = k + 1 := by
      generalize (fmtCore 9 d).length = n at hd
      exact ⟨14 - n, by omega⟩
    simp only [fmtCat, fmtFixed, hk, List.replicate_succ, List.cons_append, List.head?_cons,
      Option.some.injEq] at hc
    subst hc; decide

theorem splitWs_fmtCat_tail (ds : List Dec) (h : ∀ d ∈ ds, FitBox d) :
    splitWs (fmtCat 15 9 ds) = ds.map (fmtCore 9) := by
  induction ds with
  | nil => rfl
  | cons d t ih =>
    have ht : ∀ x ∈ t, FitBox x := fun x hx => h x (by simp [hx])
    simp only [fmtCat, fmtFixed, List.append_assoc, List.map_cons]
    rw [splitWs_blanks, splitWs_token _ _ (fmtCore_ne_nil 9 d) (fmtCore_noWs 9 d) (head_fmtCat t ht), ih ht]

/-- the first field may fill its column, the others need their leading blank -/
theorem splitWs_fmtCat (ds : List Dec) (h : ∀ d ∈ ds.tail, FitBox d) :
    splitWs (fmtCat 15 9 ds) = ds.map (fmtCore 9) := by
  cases ds with
  | nil => rfl
  | cons d t =>
    simp only [List.tail_cons] at h
    simp only [fmtCat, fmtFixed, List.append_assoc, List.map_cons]
    rw [splitWs_blanks, splitWs_token _ _ (fmtCore_ne_nil 9 d) (fmtCore_noWs 9 d) (head_fmtCat t h),
      splitWs_fmtCat_tail t h]

theorem fmtCat_last (ds : List Dec) (h : ds ≠ []) : ∃ a d, fmtCat 15 9 ds = a ++ fmtCore 9 d := by
  induction ds with
  | nil => exact absurd rfl h
  | cons d t ih =>
    cases t with
    | nil => exact ⟨List.replicate (15 - (fmtCore 9 d).length) ' ', d, by simp [fmtCat, fmtFixed]⟩
    | cons e t' =>
      obtain ⟨a, d', ha⟩ := ih (by simp)
      exact ⟨fmtFixed 15 9 d ++ a, d', by rw [fmtCat, ha, List.append_assoc]⟩

theorem fmtCat_rstrip (ds : List Dec) (h : ds ≠ []) : rstrip (fmtCat 15 9 ds) = fmtCat 15 9 ds := by
  obtain ⟨a, d, ha⟩ := fmtCat_last ds h
  rw [ha]
  exact rstrip_append_noWs _ _ (fmtCore_ne_nil 9 d) (fmtCore_noWs 9 d)

theorem fmtCat_data (ds : List Dec) (h : ds ≠ []) : DataLine (fmtCat 15 9 ds) := by
  cases ds with
  | nil => exact absurd rfl h
  | cons d t => exact dataLine_of_dot (by simp [fmtCat, dot_mem_fmtFixed])

theorem NoBrk_fmtCat (ds : List Dec) : NoBrk (fmtCat 15 9 ds) := by
  induction ds with
  | nil => exact NoBrk_nil
  | cons d t ih => exact NoBrk_append (NoBrk_fmtFixed _ _ _) ih

theorem g96BoxLine_eq (box : List Dec) (h : box.length = 3 ∨ box.length = 9) :
    g96BoxLine box = .ok (fmtCat 15 9 box) := by
  unfold g96BoxLine
  rcases h with h | h
  · simp [h]
  · simp [h, List.take_of_length_le (Nat.le_of_eq h)]

/-! ### Theorem 2: g96 write → read round trip -/

/-- the guard of the g96 round trip.  `raw` is what `read_gromos96_file` returns for the file the
    labels come from: 24-character labels (no line terminator inside), title lines that are
    rstrip-stable and neither `END` nor a section keyword, exactly one BOX line (its content is
    irrelevant: it is replaced by the formatted box), as many velocity labels as position labels;
    one row of numbers per label, every number within its 15-character column; a box of 3 or 9
    numbers of which all but the first keep a leading blank (the box is read back by a whitespace
    split, not by columns). -/
structure G96Ok (raw : G96Raw) (xyz vel : List V3) (box : List Dec) : Prop where
  title_ok : ∀ t ∈ raw.title, NoBrk t ∧ rstrip t = t ∧ DataLine t
  pos_ok : ∀ t ∈ raw.pos, t.length = 24 ∧ NoBrk t
  vel_ok : ∀ t ∈ raw.vel, t.length = 24 ∧ NoBrk t
  same_len : raw.vel.length = raw.pos.length
  xyz_len : xyz.length = raw.pos.length
  vel_len : vel.length = raw.vel.length
  xyz_fit : ∀ v ∈ xyz, Fit3 v
  vel_fit : ∀ v ∈ vel, Fit3 v
  one_box : ∃ b, raw.box = [b]
  box_len : box.length = 3 ∨ box.length = 9
  box_fit : ∀ d ∈ box.tail, FitBox d

def g96Lines (raw : G96Raw) (xyz vel : List V3) (box : List Dec) : List Line :=
  [kwTITLE] ++ raw.title ++ [kwEND, kwPOSITION] ++ rowLs raw.pos xyz ++ [kwEND, kwVELOCITY]
    ++ rowLs raw.vel vel ++ [kwEND, kwBOX] ++ [fmtCat 15 9 box] ++ [kwEND]

theorem writeG96Lines_eq (raw : G96Raw) (xyz vel : List V3) (box : List Dec) (h : G96Ok raw xyz vel box) :
    writeG96Lines raw xyz (some vel) (some box) = .ok (g96Lines raw xyz vel box) := by
  obtain ⟨b, hb⟩ := h.one_box
  simp [writeG96Lines, g96Rows_eq _ _ h.xyz_len, g96Rows_eq _ _ h.vel_len, hb, g96BoxLine_eq box h.box_len,
    g96Lines]

theorem box_ne_nil {box : List Dec} (h : box.length = 3 ∨ box.length = 9) : box ≠ [] := by
  intro e; subst e; simp at h

theorem collect_g96Lines (raw : G96Raw) (xyz vel : List V3) (box : List Dec) (h : G96Ok raw xyz vel box) :
    g96Collect none (g96Lines raw xyz vel box) =
      .ok ⟨raw.title, rowLs raw.pos xyz, rowLs raw.vel vel, [fmtCat 15 9 box], [], []⟩ := by
  have hbne := box_ne_nil h.box_len
  have pp := rowLs_props raw.pos xyz h.xyz_len (fun t ht => (h.pos_ok t ht).1) h.xyz_fit
  have pv := rowLs_props raw.vel vel h.vel_len (fun t ht => (h.vel_ok t ht).1) h.vel_fit
  have h4 : g96Collect (some .box) [kwEND] = .ok G96Raw.empty := by rw [collect_end]; rfl
  have h3 := collect_data .box [fmtCat 15 9 box] [kwEND] _
    (by intro l hl; simp at hl; subst hl; exact fmtCat_data box hbne) h4
  have h3' : g96Collect (some .velocity) (kwEND :: kwBOX :: ([fmtCat 15 9 box] ++ [kwEND])) =
      .ok (pushAll .box ([fmtCat 15 9 box].map rstrip) G96Raw.empty) := by
    rw [collect_end, collect_kw _ kwBOX .box _ (by decide) (by decide)]; exact h3
  have h2 := collect_data .velocity (rowLs raw.vel vel) _ _ pv.1 h3'
  have h2' : g96Collect (some .position) (kwEND :: kwVELOCITY :: (rowLs raw.vel vel ++
      (kwEND :: kwBOX :: ([fmtCat 15 9 box] ++ [kwEND])))) =
      .ok (pushAll .velocity ((rowLs raw.vel vel).map rstrip) (pushAll .box ([fmtCat 15 9 box].map rstrip) G96Raw.empty)) := by
    rw [collect_end, collect_kw _ kwVELOCITY .velocity _ (by decide) (by decide)]; exact h2
  have h1 := collect_data .position (rowLs raw.pos xyz) _ _ pp.1 h2'
  have h1' : g96Collect (some .title) (kwEND :: kwPOSITION :: (rowLs raw.pos xyz ++
      (kwEND :: kwVELOCITY :: (rowLs raw.vel vel ++ (kwEND :: kwBOX :: ([fmtCat 15 9 box] ++ [kwEND])))))) =
      .ok (pushAll .position ((rowLs raw.pos xyz).map rstrip) (pushAll .velocity ((rowLs raw.vel vel).map rstrip) (pushAll .box ([fmtCat 15 9 box].map rstrip) G96Raw.empty))) := by
    rw [collect_end, collect_kw _ kwPOSITION .position _ (by decide) (by decide)]; exact h1
  have h0 := collect_data .title raw.title _ _ (fun t ht => (h.title_ok t ht).2.2) h1'
  have ht : raw.title.map rstrip = raw.title := by
    have : ∀ (ls : List Line), (∀ t ∈ ls, rstrip t = t) → ls.map rstrip = ls := by
      intro ls; induction ls with
      | nil => intro _; rfl
      | cons a t ih => intro hh; simp [hh a (by simp), ih (fun x hx => hh x (by simp [hx]))]
    exact this _ (fun t ht => (h.title_ok t ht).2.1)
  have hfin : g96Collect none (g96Lines raw xyz vel box) =
      .ok (pushAll .title (raw.title.map rstrip) (pushAll .position ((rowLs raw.pos xyz).map rstrip) (pushAll .velocity ((rowLs raw.vel vel).map rstrip) (pushAll .box ([fmtCat 15 9 box].map rstrip) G96Raw.empty)))) := by
    unfold g96Lines
    simp only [List.append_assoc, List.cons_append, List.nil_append]
    rw [collect_kw _ kwTITLE .title _ (by decide) (by decide)]
    exact h0
  rw [hfin, pushAll_title, pushAll_position, pushAll_velocity, pushAll_box, ht, pp.2.1, pv.2.1]
  simp [G96Raw.empty, fmtCat_rstrip box hbne]

theorem NoBrk_g96Lines (raw : G96Raw) (xyz vel : List V3) (box : List Dec) (h : G96Ok raw xyz vel box) :
    ∀ l ∈ g96Lines raw xyz vel box, NoBrk l := by
  have hrow : ∀ (ts : List Line) (vs : List V3), (∀ t ∈ ts, NoBrk t) → ∀ l ∈ rowLs ts vs, NoBrk l := by
    intro ts
    induction ts with
    | nil => intro vs _ l hl; simp [rowLs] at hl
    | cons t ts ih =>
      intro vs ht l hl
      cases vs with
      | nil => simp [rowLs] at hl
      | cons v vs =>
        simp only [rowLs, List.mem_cons] at hl
        rcases hl with e | hl
        · subst e
          exact NoBrk_append (NoBrk_append (NoBrk_append (ht t (by simp)) (NoBrk_fmtFixed _ _ _))
            (NoBrk_fmtFixed _ _ _)) (NoBrk_fmtFixed _ _ _)
        · exact ih vs (fun x hx => ht x (by simp [hx])) l hl
  have hkw : ∀ k ∈ [kwTITLE, kwEND, kwPOSITION, kwVELOCITY, kwBOX], NoBrk k := by
    intro k hk c hc; revert c; revert k; decide
  intro l hl
  simp only [g96Lines, List.mem_append, List.mem_cons, List.not_mem_nil, or_false] at hl
  rcases hl with (((((((e | hl) | e | e) | hl) | e | e) | hl) | e | e) | e) | e
  · subst e; exact hkw _ (by simp)
  · exact (h.title_ok l hl).1
  · subst e; exact hkw _ (by simp)
  · subst e; exact hkw _ (by simp)
  · exact hrow _ _ (fun t ht => (h.pos_ok t ht).2) l hl
  · subst e; exact hkw _ (by simp)
  · subst e; exact hkw _ (by simp)
  · exact hrow _ _ (fun t ht => (h.vel_ok t ht).2) l hl
  · subst e; exact hkw _ (by simp)
  · subst e; exact hkw _ (by simp)
  · subst e; exact NoBrk_fmtCat box
  · subst e; exact hkw _ (by simp)

/-- what the reader returns for the written file: the same labels and title, the one formatted box line -/
def rawAfter (raw : G96Raw) (box : List Dec) : G96Raw :=
  { raw with box := [fmtCat 15 9 box], posred := [], velred := [] }

theorem readG96Lines_g96Lines (raw : G96Raw) (xyz vel : List V3) (box : List Dec) (h : G96Ok raw xyz vel box) :
    readG96Lines (g96Lines raw xyz vel box) = .ok ⟨rawAfter raw box, xyz, vel, some box⟩ := by
  have pp := rowLs_props raw.pos xyz h.xyz_len (fun t ht => (h.pos_ok t ht).1) h.xyz_fit
  have pv := rowLs_props raw.vel vel h.vel_len (fun t ht => (h.vel_ok t ht).1) h.vel_fit
  have hb : parseAll 9 (splitWs (fmtCat 15 9 box)) = some box := by
    rw [splitWs_fmtCat box h.box_fit, parseAll_cores]
  unfold readG96Lines
  rw [collect_g96Lines raw xyz vel box h]
  simp only [pp.2.2.1, pv.2.2.1, g96ParseRows, List.append_nil, pp.2.2.2, pv.2.2.2, hb, rawAfter]
  by_cases hv : raw.vel = []
  · have hp : raw.pos = [] := List.length_eq_zero_iff.1 (by rw [← h.same_len, hv]; rfl)
    have hx : xyz = [] := List.length_eq_zero_iff.1 (by rw [h.xyz_len, hp]; rfl)
    have hvv : vel = [] := List.length_eq_zero_iff.1 (by rw [h.vel_len, hv]; rfl)
    simp [hv, hx, hvv]
  · simp [hv]

/-- **Theorem 2.** Under the guard `G96Ok`, for any number of atoms: the file written by
    `write_gromos96_file(raw, xyz, vel, box)` is read by `read_gromos96_file` as exactly the same
    positions, velocities (signs of zero included) and box, with the same title and labels. -/
theorem g96_read_write_roundtrip (raw : G96Raw) (xyz vel : List V3) (box : List Dec)
    (h : G96Ok raw xyz vel box) :
    ∃ t, writeG96 raw xyz (some vel) (some box) = .ok t ∧
      readG96 t = .ok ⟨rawAfter raw box, xyz, vel, some box⟩ := by
  refine ⟨unlines (g96Lines raw xyz vel box), by simp [writeG96, writeG96Lines_eq raw xyz vel box h], ?_⟩
  rw [readG96, pyLines_unlines _ (NoBrk_g96Lines raw xyz vel box h)]
  exact readG96Lines_g96Lines raw xyz vel box h

/-! explicit width guards -/

theorem natDigitsF_length : ∀ f n k, n < 10 ^ k → 1 ≤ k → (natDigitsF f n).length ≤ k := by
  intro f
  induction f with
  | zero => intro n k _ _; simp [natDigitsF]
  | succ f ih =>
    intro n k hn hk
    unfold natDigitsF
    split
    · simpa using hk
    · rename_i h10
      obtain ⟨k', rfl⟩ : ∃ k', k = k' + 1 := ⟨k - 1, by omega⟩
      have hk' : 1 ≤ k' := by
        rcases Nat.eq_zero_or_pos k' with e | e
        · subst e; simp at hn; omega
        · exact e
      have hdiv : n / 10 < 10 ^ k' := by
        apply Nat.div_lt_of_lt_mul
        rw [Nat.pow_succ, Nat.mul_comm] at hn
        exact hn
      have := ih (n / 10) k' hdiv hk'
      simp; omega

theorem fmtCore9_length (d : Dec) (k : Nat) (hk : 1 ≤ k) (h : d.mag < 10 ^ (k + 9)) :
    (fmtCore 9 d).length ≤ (if d.neg then 1 else 0) + k + 10 := by
  have hdiv : d.mag / 10 ^ 9 < 10 ^ k := by
    apply Nat.div_lt_of_lt_mul
    rw [← Nat.pow_add, Nat.add_comm]; exact h
  have := natDigitsF_length (d.mag / 10 ^ 9 + 1) _ k hdiv hk
  simp only [fmtCore, List.length_append, List.length_cons, fracDigits_length]
  unfold natDigits
  cases d.neg <;> simp <;> omega

/-- `|x| < 10^5` for non-negative, `|x| < 10^4` for negative numbers: the number fits its column -/
theorem fit_of_lt (d : Dec) (hp : d.neg = false → d.mag < 10 ^ 14) (hn : d.neg = true → d.mag < 10 ^ 13) :
    Fit d := by
  unfold Fit
  cases hneg : d.neg with
  | false => have := fmtCore9_length d 5 (by omega) (hp hneg); simp [hneg] at this; omega
  | true => have := fmtCore9_length d 4 (by omega) (hn hneg); simp [hneg] at this; omega

/-- `|x| < 10^4` for non-negative, `|x| < 10^3` for negative numbers: a box field keeps its blank -/
theorem fitBox_of_lt (d : Dec) (hp : d.neg = false → d.mag < 10 ^ 13) (hn : d.neg = true → d.mag < 10 ^ 12) :
    FitBox d := by
  unfold FitBox
  cases hneg : d.neg with
  | false => have := fmtCore9_length d 4 (by omega) (hp hneg); simp [hneg] at this; omega
  | true => have := fmtCore9_length d 3 (by omega) (hn hneg); simp [hneg] at this; omega

/-! ### Theorem 5 (g96): reversing velocities -/

theorem g96Lines_rawAfter (raw : G96Raw) (xyz vel : List V3) (box box' : List Dec) :
    g96Lines (rawAfter raw box') xyz vel box = g96Lines raw xyz vel box := rfl

theorem G96Ok_rawAfter {raw : G96Raw} {xyz vel : List V3} {box : List Dec} (h : G96Ok raw xyz vel box) :
    G96Ok (rawAfter raw box) xyz vel box :=
  ⟨h.title_ok, h.pos_ok, h.vel_ok, h.same_len, h.xyz_len, h.vel_len, h.xyz_fit, h.vel_fit, ⟨_, rfl⟩,
    h.box_len, h.box_fit⟩

theorem G96Ok_negate {raw : G96Raw} {xyz vel : List V3} {box : List Dec} (h : G96Ok raw xyz vel box)
    (hn : ∀ v ∈ vel, Fit3 v.negate) : G96Ok raw xyz (vel.map V3.negate) box :=
  ⟨h.title_ok, h.pos_ok, h.vel_ok, h.same_len, h.xyz_len, by simpa using h.vel_len, h.xyz_fit,
    by intro v hv; obtain ⟨u, hu, e⟩ := List.mem_map.1 hv; subst e; exact hn u hu,
    h.one_box, h.box_len, h.box_fit⟩

/-- `_reverse_velocities` re-emits title, labels, positions and the raw BOX line verbatim and
    prints the negated velocities -/
theorem reverseG96_eq (raw : G96Raw) (xyz vel : List V3) (box : List Dec) (h : G96Ok raw xyz vel box) :
    reverseG96 (unlines (g96Lines raw xyz vel box)) =
      .ok (unlines (g96Lines raw xyz (vel.map V3.negate) box)) := by
  have hr : readG96 (unlines (g96Lines raw xyz vel box)) = .ok ⟨rawAfter raw box, xyz, vel, some box⟩ := by
    rw [readG96, pyLines_unlines _ (NoBrk_g96Lines raw xyz vel box h)]
    exact readG96Lines_g96Lines raw xyz vel box h
  have hl : (vel.map V3.negate).length = raw.vel.length := by simpa using h.vel_len
  unfold reverseG96
  rw [hr]
  simp [writeG96, writeG96Lines, rawAfter, g96Rows_eq _ _ h.xyz_len, g96Rows_eq _ _ hl, g96Lines]

/-- **Theorem 5 (g96).** Under the round-trip guard for the velocities and for their negatives
    (a velocity `≥ 10^4` fits its column but its negative does not): the file produced by
    `_reverse_velocities` reads back with the same title, labels, positions and box and with every
    velocity component sign-flipped (also zeros); reversing it again restores the original bytes. -/
theorem g96_reverse_only_negates_vel (raw : G96Raw) (xyz vel : List V3) (box : List Dec)
    (h : G96Ok raw xyz vel box) (hn : ∀ v ∈ vel, Fit3 v.negate) (t : Text)
    (hw : writeG96 raw xyz (some vel) (some box) = .ok t) :
    ∃ t', reverseG96 t = .ok t' ∧
      readG96 t' = .ok ⟨rawAfter raw box, xyz, vel.map V3.negate, some box⟩ ∧
      reverseG96 t' = .ok t := by
  have ht : t = unlines (g96Lines raw xyz vel box) := by
    simp [writeG96, writeG96Lines_eq raw xyz vel box h] at hw; exact hw.symm
  have h' := G96Ok_negate h hn
  refine ⟨_, ht ▸ reverseG96_eq raw xyz vel box h, ?_, ?_⟩
  · rw [readG96, pyLines_unlines _ (NoBrk_g96Lines _ _ _ _ h')]
    exact readG96Lines_g96Lines _ _ _ _ h'
  · rw [reverseG96_eq _ _ _ _ h', map_negate_negate, ht]

/-! non-vacuity and the boundary of the box guard -/

def exRaw : G96Raw :=
  { title := [['w', 'a', 't', 'e', 'r', ' ', 'b', 'o', 'x']],
    pos := [List.replicate 19 ' ' ++ ['S', 'O', 'L', ' ', '1'], List.replicate 24 ' '],
    vel := [List.replicate 19 ' ' ++ ['S', 'O', 'L', ' ', '1'], List.replicate 19 ' ' ++ ['S', 'O', 'L', ' ', '2']],
    box := [['x']], posred := [], velred := [] }
def exXyz : List V3 := [⟨⟨false, 1500000000⟩, ⟨true, 0⟩, ⟨false, 99999999999999⟩⟩, ⟨⟨true, 9999999999999⟩, ⟨false, 1⟩, ⟨true, 25⟩⟩]
def exVel : List V3 := [⟨⟨true, 100000000⟩, ⟨false, 0⟩, ⟨true, 0⟩⟩, ⟨⟨false, 7⟩, ⟨false, 9999999999999⟩, ⟨true, 3⟩⟩]
def exBox : List Dec := [⟨false, 99999999999999⟩, ⟨false, 2000000000⟩, ⟨false, 3500000001⟩]

theorem exG96_ok : G96Ok exRaw exXyz exVel exBox := by
  refine ⟨?_, ?_, ?_, rfl, rfl, rfl, ?_, ?_, ⟨_, rfl⟩, Or.inl rfl, ?_⟩
  · intro t ht
    simp only [exRaw, List.mem_cons, List.not_mem_nil, or_false] at ht
    subst ht
    exact ⟨by intro c hc; revert c; decide, by decide, by decide, by decide⟩
  · intro t ht
    simp only [exRaw, List.mem_cons, List.not_mem_nil, or_false] at ht
    rcases ht with e | e <;> subst e <;> exact ⟨by decide, by intro c hc; revert c; decide⟩
  · intro t ht
    simp only [exRaw, List.mem_cons, List.not_mem_nil, or_false] at ht
    rcases ht with e | e <;> subst e <;> exact ⟨by decide, by intro c hc; revert c; decide⟩
  · intro v hv
    simp only [exXyz, List.mem_cons, List.not_mem_nil, or_false] at hv
    rcases hv with e | e <;> subst e <;> exact ⟨by decide, by decide, by decide⟩
  · intro v hv
    simp only [exVel, List.mem_cons, List.not_mem_nil, or_false] at hv
    rcases hv with e | e <;> subst e <;> exact ⟨by decide, by decide, by decide⟩
  · intro d hd
    simp only [exBox, List.tail_cons, List.mem_cons, List.not_mem_nil, or_false] at hd
    rcases hd with e | e <;> subst e <;> decide

example : ∃ t, writeG96 exRaw exXyz (some exVel) (some exBox) = .ok t ∧
    readG96 t = .ok ⟨rawAfter exRaw exBox, exXyz, exVel, some exBox⟩ :=
  g96_read_write_roundtrip _ _ _ _ exG96_ok

example : ∃ t t', writeG96 exRaw exXyz (some exVel) (some exBox) = .ok t ∧ reverseG96 t = .ok t' ∧
    readG96 t' = .ok ⟨rawAfter exRaw exBox, exXyz, exVel.map V3.negate, some exBox⟩ ∧ reverseG96 t' = .ok t := by
  obtain ⟨t, hw, _⟩ := g96_read_write_roundtrip _ _ _ _ exG96_ok
  obtain ⟨t', h1, h2, h3⟩ := g96_reverse_only_negates_vel _ _ _ _ exG96_ok (by
    intro v hv
    simp only [exVel, List.mem_cons, List.not_mem_nil, or_false] at hv
    rcases hv with e | e <;> subst e <;> exact ⟨by decide, by decide, by decide⟩) t hw
  exact ⟨t, t', hw, h1, h2, h3⟩

/-- The box guard is necessary: a second box component of −1234.000000005 fills its 15 columns, touches
    the first field, and `read_gromos96_file` raises ValueError on the file `write_gromos96_file`
    produced (positions with the same value are fine: they are read by columns). -/
theorem g96_roundtrip_wide_box_counterexample :
    ∃ t, writeG96 exRaw exXyz (some exVel) (some [⟨false, 7000000000⟩, ⟨true, 1234000000005⟩, ⟨false, 5⟩]) = .ok t ∧
      readG96 t = .error .value := by
  refine ⟨_, rfl, ?_⟩
  rfl

end Infretis.Codec
