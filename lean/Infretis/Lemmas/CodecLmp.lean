import Infretis.Model.CodecLmp
/-!
C19, parts "lmp" and "trr": lemmas and the final theorems about the LAMMPS dump codec and
the TRR layout models of `Infretis/Model/CodecLmp.lean`.
-/
namespace Infretis.Lmp

/-! ### sorting by id -/

/-- sorted by id (non-strict) -/
def SortedById (l : List Atom) : Prop := l.Pairwise (fun a b => a.id ≤ b.id)

/-- strictly increasing ids -/
def StrictById (l : List Atom) : Prop := l.Pairwise (fun a b => a.id < b.id)

/-- distinct ids -/
def DistinctIds (l : List Atom) : Prop := l.Pairwise (fun a b => a.id ≠ b.id)

theorem insertAtom_perm (a : Atom) (l : List Atom) : (insertAtom a l).Perm (a :: l) := by
  induction l with
  | nil => exact List.Perm.refl _
  | cons b t ih =>
    unfold insertAtom
    split
    · exact List.Perm.refl _
    · exact ((List.Perm.cons b ih).trans (List.Perm.swap a b t))

theorem sortAtoms_perm (l : List Atom) : (sortAtoms l).Perm l := by
  induction l with
  | nil => exact List.Perm.refl _
  | cons a t ih => exact (insertAtom_perm a (sortAtoms t)).trans (List.Perm.cons a ih)

theorem mem_insertAtom {a x : Atom} {l : List Atom} : x ∈ insertAtom a l ↔ x = a ∨ x ∈ l := by
  rw [(insertAtom_perm a l).mem_iff]; simp

theorem insertAtom_sorted (a : Atom) (l : List Atom) (h : SortedById l) : SortedById (insertAtom a l) := by
  induction l with
  | nil => simp [insertAtom, SortedById]
  | cons b t ih =>
    unfold SortedById at h ih ⊢
    rw [List.pairwise_cons] at h
    unfold insertAtom
    split
    · rename_i hab
      rw [List.pairwise_cons]
      refine ⟨?_, List.pairwise_cons.mpr h⟩
      intro x hx
      rcases List.mem_cons.mp hx with rfl | hx
      · exact hab
      · exact Int.le_trans hab (h.1 x hx)
    · rename_i hab
      rw [List.pairwise_cons]
      refine ⟨?_, ih h.2⟩
      intro x hx
      rcases mem_insertAtom.mp hx with rfl | hx
      · omega
      · exact h.1 x hx

theorem sortAtoms_sorted (l : List Atom) : SortedById (sortAtoms l) := by
  induction l with
  | nil => simp [sortAtoms, SortedById]
  | cons a t ih => exact insertAtom_sorted a _ ih

/-- inserting in front of a list whose ids are all ≥ is consing -/
theorem insertAtom_of_le (a : Atom) (l : List Atom) (h : ∀ x ∈ l, a.id ≤ x.id) : insertAtom a l = a :: l := by
  cases l with
  | nil => rfl
  | cons b t => simp [insertAtom, h b (List.mem_cons_self)]

/-- an already sorted table is left as it is -/
theorem sortAtoms_of_sorted (l : List Atom) (h : SortedById l) : sortAtoms l = l := by
  induction l with
  | nil => rfl
  | cons a t ih =>
    unfold SortedById at h ih
    rw [List.pairwise_cons] at h
    simp only [sortAtoms, ih h.2]
    exact insertAtom_of_le a t h.1

theorem sortAtoms_idem (l : List Atom) : sortAtoms (sortAtoms l) = sortAtoms l :=
  sortAtoms_of_sorted _ (sortAtoms_sorted l)

theorem DistinctIds.perm {l₁ l₂ : List Atom} (p : l₁.Perm l₂) (h : DistinctIds l₁) : DistinctIds l₂ := by
  unfold DistinctIds at *
  exact (p.pairwise_iff (fun {a b} (hab : a.id ≠ b.id) => (Ne.symm hab : b.id ≠ a.id))).mp h

theorem strict_of_sorted_distinct (l : List Atom) (hs : SortedById l) (hd : DistinctIds l) : StrictById l := by
  induction l with
  | nil => simp [StrictById]
  | cons a t ih =>
    unfold SortedById DistinctIds StrictById at *
    rw [List.pairwise_cons] at hs hd ⊢
    refine ⟨fun x hx => ?_, ih hs.2 hd.2⟩
    have h1 := hs.1 x hx
    have h2 := hd.1 x hx
    omega

/-- two strictly id-increasing lists with the same elements are equal: with distinct ids the
    sorted order is unique, whatever algorithm `np.argsort` uses. -/
theorem strict_perm_unique : ∀ (l₁ l₂ : List Atom), l₁.Perm l₂ → StrictById l₁ → StrictById l₂ → l₁ = l₂
  | [], l₂, p, _, _ => (List.Perm.nil_eq p)
  | a :: t₁, [], p, _, _ => by have := p.length_eq; simp at this
  | a :: t₁, b :: t₂, p, h₁, h₂ => by
    unfold StrictById at h₁ h₂
    rw [List.pairwise_cons] at h₁ h₂
    have hab : a = b := by
      have ha : a ∈ b :: t₂ := p.subset (List.mem_cons_self)
      have hb : b ∈ a :: t₁ := p.symm.subset (List.mem_cons_self)
      rcases List.mem_cons.mp ha with h | ha
      · exact h
      · rcases List.mem_cons.mp hb with h | hb
        · exact h.symm
        · have := h₁.1 b hb
          have := h₂.1 a ha
          omega
    subst hab
    have pt : t₁.Perm t₂ := (List.perm_cons a).mp p
    rw [strict_perm_unique t₁ t₂ pt h₁.2 h₂.2]

/-! ### the writer's line counts -/

/-- the box as LAMMPS dumps it: three rows `lo hi` -/
def BoxOK (b : List (List Num)) : Prop := b.length = 3 ∧ ∀ r ∈ b, r.length = 2

/-- rows as `read_lammpstrj` returns them: three positions and three velocities -/
def AtomOK (a : Atom) : Prop := a.pos.length = 3 ∧ a.vel.length = 3

def AtomsOK (l : List Atom) : Prop := ∀ a ∈ l, AtomOK a

theorem length_atomLine (a : Atom) (h : AtomOK a) : (atomLine a).length = 8 := by
  simp [atomLine, h.1, h.2]

theorem length_writeFrame (atoms : List Atom) (b : List (List Num)) (hb : b.length = 3) :
    (writeFrame { atoms := atoms, box := some b }).length = atoms.length + 9 := by
  simp [writeFrame, headLines, boxLines, hb]; omega

theorem length_writeFrames (n : Nat) : ∀ (cs : List Conf),
    (∀ c ∈ cs, c.atoms.length = n ∧ ∃ b, c.box = some b ∧ b.length = 3) →
    (writeFrames cs).length = (n + 9) * cs.length
  | [], _ => by simp [writeFrames]
  | c :: cs, h => by
    have hc := h c (List.mem_cons_self)
    obtain ⟨hn, b, hb, hb3⟩ := hc
    have ih := length_writeFrames n cs (fun c' hc' => h c' (List.mem_cons_of_mem _ hc'))
    have hw : (writeFrame c).length = n + 9 := by
      have := length_writeFrame c.atoms b hb3
      rw [← hb, hn] at this
      exact this
    unfold writeFrames at ih ⊢
    simp only [List.map_cons, List.flatten_cons, List.length_append, ih, hw, List.length_cons]
    rw [Nat.mul_succ]; omega

/-! ### genfromtxt on a block of well-formed rows -/

theorem scanRows_block (c : Nat) : ∀ (rows post : List Line),
    (∀ r ∈ rows, r.length = c) → scanRows c rows.length (rows ++ post) = .ok rows
  | [], post, _ => by simp [scanRows]
  | r :: rows, post, h => by
    have hr : r.length = c := h r (List.mem_cons_self)
    have ih := scanRows_block c rows post (fun x hx => h x (List.mem_cons_of_mem _ hx))
    simp only [List.length_cons, List.cons_append, scanRows, hr, if_true, ih]

theorem filter_nonempty_block (c : Nat) (hc : 0 < c) : ∀ (rows : List Line),
    (∀ r ∈ rows, r.length = c) → rows.filter (fun l => !l.isEmpty) = rows
  | [], _ => rfl
  | r :: rows, h => by
    have hr : r.length = c := h r (List.mem_cons_self)
    have ih := filter_nonempty_block c hc rows (fun x hx => h x (List.mem_cons_of_mem _ hx))
    have : r.isEmpty = false := by
      cases r with
      | nil => simp at hr; omega
      | cons _ _ => rfl
    simp [this, ih]

/-- `genfromtxt` positioned on a block of `k ≥ 1` rows of equal width `c ≥ 1` returns the block,
    whatever precedes (`skip` lines) and follows it. -/
theorem genfromtxt_block (c : Nat) (hc : 0 < c) (pre rows post : List Line) (skip : Int)
    (hskip : skip.toNat = pre.length) (hk : 0 < rows.length) (h : ∀ r ∈ rows, r.length = c) :
    genfromtxt (pre ++ (rows ++ post)) skip rows.length = .ok rows := by
  unfold genfromtxt
  have h1 : ¬ rows.length < 1 := by omega
  simp only [h1, if_false, hskip, List.drop_left, List.filter_append, filter_nonempty_block c hc rows h]
  cases rows with
  | nil => simp at hk
  | cons r rows =>
    have hr : r.length = c := h r (List.mem_cons_self)
    have := scanRows_block c (r :: rows) (post.filter (fun l => !l.isEmpty)) h
    simp only [List.cons_append, hr] at this ⊢
    exact this

/-! ### columns of a written row -/

theorem asNums_map (l : List Num) : asNums (l.map Tok.num) = some l := by
  induction l with
  | nil => rfl
  | cons a t ih => simp [asNums, ih]

theorem rowAtom_atomLine (a : Atom) (h : AtomOK a) : rowAtom (atomLine a) = some a := by
  obtain ⟨i, t, pos, vel⟩ := a
  obtain ⟨hp, hv⟩ := h
  simp only at hp hv
  match pos, hp, vel, hv with
  | [p1, p2, p3], _, [v1, v2, v3], _ => simp [rowAtom, atomLine, asNums]

theorem rowsAtoms_written : ∀ (l : List Atom), AtomsOK l → rowsAtoms (l.map atomLine) = some l
  | [], _ => rfl
  | a :: t, h => by
    have ha := rowAtom_atomLine a (h a (List.mem_cons_self))
    have ih := rowsAtoms_written t (fun x hx => h x (List.mem_cons_of_mem _ hx))
    simp [rowsAtoms, ha, ih]

theorem rowsNums_written : ∀ (b : List (List Num)), rowsNums (b.map (fun r => r.map Tok.num)) = some b
  | [] => rfl
  | r :: t => by simp [rowsNums, asNums_map, rowsNums_written t]

/-! ### reading a written frame out of a multi-frame file -/

/-- Core lemma: a frame written by `write_lammpstrj` (with a LAMMPS box and `n ≥ 2` well-formed
    rows) that starts at line `(n+9)·k` of a file is read back by `read_lammpstrj(file, k, n)`
    as its atoms sorted by id with unchanged tokens, and the box unchanged. -/
theorem readFrame_at (pre post : List Line) (atoms : List Atom) (b : List (List Num)) (k : Nat)
    (hpre : pre.length = (atoms.length + 9) * k) (hn : 2 ≤ atoms.length)
    (hat : AtomsOK atoms) (hb : BoxOK b) :
    readFrame (pre ++ (writeFrame { atoms := atoms, box := some b } ++ post)) (k : Int) atoms.length
      = .ok { atoms := sortAtoms atoms, box := some b } := by
  -- the two tables, each as a block inside the file
  have hbox : genfromtxt (pre ++ (writeFrame { atoms := atoms, box := some b } ++ post))
      (((atoms.length : Int) + 9) * (k : Int) + 5) 3 = .ok (b.map (fun r => r.map Tok.num)) := by
    have e : pre ++ (writeFrame { atoms := atoms, box := some b } ++ post)
        = (pre ++ headLines atoms.length) ++ (b.map (fun r => r.map Tok.num)
            ++ ((atomsHead :: atoms.map atomLine) ++ post)) := by
      simp [writeFrame, boxLines, List.append_assoc]
    rw [e]
    have h3 : (b.map (fun r => r.map Tok.num)).length = 3 := by simp [hb.1]
    have := genfromtxt_block 2 (by omega) (pre ++ headLines atoms.length) (b.map (fun r => r.map Tok.num))
      ((atomsHead :: atoms.map atomLine) ++ post) (((atoms.length : Int) + 9) * (k : Int) + 5)
      (by
        have : ((atoms.length : Int) + 9) * (k : Int) + 5 = (((atoms.length + 9) * k + 5 : Nat) : Int) := by
          simp [Int.natCast_add, Int.natCast_mul]
        rw [this, Int.toNat_natCast]; simp [hpre, headLines])
      (by omega)
      (by
        intro r hr
        rcases List.mem_map.mp hr with ⟨r', hr', rfl⟩
        simp [hb.2 r' hr'])
    rw [h3] at this
    exact this
  have hrows : genfromtxt (pre ++ (writeFrame { atoms := atoms, box := some b } ++ post))
      (((atoms.length : Int) + 9) * (k : Int) + 9) atoms.length = .ok (atoms.map atomLine) := by
    have e : pre ++ (writeFrame { atoms := atoms, box := some b } ++ post)
        = (pre ++ (headLines atoms.length ++ (b.map (fun r => r.map Tok.num) ++ [atomsHead])))
            ++ (atoms.map atomLine ++ post) := by
      simp [writeFrame, boxLines, List.append_assoc]
    rw [e]
    have hl : (atoms.map atomLine).length = atoms.length := by simp
    have := genfromtxt_block 8 (by omega)
      (pre ++ (headLines atoms.length ++ (b.map (fun r => r.map Tok.num) ++ [atomsHead])))
      (atoms.map atomLine) post (((atoms.length : Int) + 9) * (k : Int) + 9)
      (by
        have : ((atoms.length : Int) + 9) * (k : Int) + 9 = (((atoms.length + 9) * k + 9 : Nat) : Int) := by
          simp [Int.natCast_add, Int.natCast_mul]
        rw [this, Int.toNat_natCast]; simp [hpre, headLines, hb.1])
      (by omega)
      (by
        intro r hr
        rcases List.mem_map.mp hr with ⟨a, ha, rfl⟩
        exact length_atomLine a (hat a ha))
    rw [hl] at this
    exact this
  unfold readFrame
  simp only [hbox, hrows]
  have c1 : ¬ ((atoms.map atomLine).length < 2 ∨ ncols (atoms.map atomLine) < 2) := by
    match atoms, hn, hat with
    | a :: a' :: t, _, hat =>
      have := length_atomLine a (hat a (List.mem_cons_self))
      simp [ncols, this]
  have c2 : ¬ ((b.map (fun r => r.map Tok.num)).length < 2 ∨ ncols (b.map (fun r => r.map Tok.num)) < 2) := by
    obtain ⟨h3, h2⟩ := hb
    match b, h3, h2 with
    | [r1, r2, r3], _, h2 =>
      have := h2 r1 (List.mem_cons_self)
      simp [ncols, this]
  simp only [c1, c2, if_false, rowsAtoms_written atoms hat, rowsNums_written b]

/-! ### velocity reversal -/

theorem negate_negate (x : Num) : x.negate.negate = x := by
  cases x; simp [Num.negate]

theorem negVel_atoms_ok (l : List Atom) (h : AtomsOK l) :
    AtomsOK (l.map (fun a => { a with vel := a.vel.map Num.negate })) := by
  intro a ha
  rcases List.mem_map.mp ha with ⟨a', ha', rfl⟩
  exact ⟨(h a' ha').1, by simpa using (h a' ha').2⟩

theorem sortAtoms_ok (l : List Atom) (h : AtomsOK l) : AtomsOK (sortAtoms l) :=
  fun a ha => h a ((sortAtoms_perm l).mem_iff.mp ha)

theorem negVel_sorted (l : List Atom) (h : SortedById l) :
    SortedById (l.map (fun a => { a with vel := a.vel.map Num.negate })) := by
  unfold SortedById at *
  rw [List.pairwise_map]
  exact h

/-! ## The theorems of part (A) -/

def sortConf (c : Conf) : Conf := { c with atoms := sortAtoms c.atoms }

/-- a frame the property talks about: `n` well-formed rows and a LAMMPS box -/
def FrameOK (n : Nat) (c : Conf) : Prop :=
  c.atoms.length = n ∧ AtomsOK c.atoms ∧ ∃ b, c.box = some b ∧ BoxOK b

theorem readFrame_single (atoms : List Atom) (b : List (List Num))
    (hn : 2 ≤ atoms.length) (hat : AtomsOK atoms) (hb : BoxOK b) :
    readFrame (writeFrame { atoms := atoms, box := some b }) 0 atoms.length
      = .ok { atoms := sortAtoms atoms, box := some b } := by
  have := readFrame_at [] [] atoms b 0 (by simp) hn hat hb
  simpa using this

/-- **`lmp_sort_perm_sorted`**: what `read_lammpstrj` does to the table is a permutation of its rows
    (every atom keeps its own type/pos/vel tokens) that is sorted by id; with distinct ids the
    result is strictly increasing and it is the ONLY strictly increasing arrangement, so it does not
    depend on the sorting algorithm behind `np.argsort`. -/
theorem lmp_sort_perm_sorted (atoms : List Atom) :
    (sortAtoms atoms).Perm atoms ∧ SortedById (sortAtoms atoms) ∧
    (DistinctIds atoms →
      StrictById (sortAtoms atoms) ∧ ∀ r : List Atom, r.Perm atoms → StrictById r → r = sortAtoms atoms) := by
  refine ⟨sortAtoms_perm atoms, sortAtoms_sorted atoms, fun hd => ?_⟩
  have hs : StrictById (sortAtoms atoms) :=
    strict_of_sorted_distinct _ (sortAtoms_sorted atoms) (DistinctIds.perm (sortAtoms_perm atoms).symm hd)
  exact ⟨hs, fun r pr hr => strict_perm_unique r _ (pr.trans (sortAtoms_perm atoms).symm) hr hs⟩

example : sortAtoms [⟨3, 1, [], []⟩, ⟨1, 2, [], []⟩, ⟨2, 1, [], []⟩]
    = [⟨1, 2, [], []⟩, ⟨2, 1, [], []⟩, ⟨3, 1, [], []⟩] := by decide

/-- **`lmp_read_write_roundtrip`**: for any number `n ≥ 2` of atoms in any order (distinct ids), reading
    what `write_lammpstrj` wrote returns the atoms sorted by id, each with its own type, position and
    velocity tokens, and the same box tokens; if the ids were already increasing it is the identity. -/
theorem lmp_read_write_roundtrip (atoms : List Atom) (b : List (List Num))
    (hn : 2 ≤ atoms.length) (hat : AtomsOK atoms) (hb : BoxOK b) (_hd : DistinctIds atoms) :
    readFrame (writeFrame { atoms := atoms, box := some b }) 0 atoms.length
        = .ok { atoms := sortAtoms atoms, box := some b }
    ∧ (sortAtoms atoms).Perm atoms
    ∧ SortedById (sortAtoms atoms)
    ∧ (SortedById atoms →
        readFrame (writeFrame { atoms := atoms, box := some b }) 0 atoms.length
          = .ok { atoms := atoms, box := some b }) := by
  refine ⟨readFrame_single atoms b hn hat hb, sortAtoms_perm atoms, sortAtoms_sorted atoms, fun hs => ?_⟩
  rw [readFrame_single atoms b hn hat hb, sortAtoms_of_sorted atoms hs]

def exA (i t : Int) (x v : String) : Atom :=
  ⟨i, t, [⟨false, x⟩, ⟨true, "0.5"⟩, ⟨false, "2.25"⟩], [⟨true, v⟩, ⟨false, "0.0"⟩, ⟨true, "0.0"⟩]⟩
def exBox : List (List Num) :=
  [[⟨false, "0.0"⟩, ⟨false, "10.0"⟩], [⟨true, "1.0"⟩, ⟨false, "11.0"⟩], [⟨false, "2.5"⟩, ⟨false, "12.0"⟩]]
def exAtoms : List Atom := [exA 3 1 "1.5" "0.25", exA 1 2 "2.5" "0.75", exA 2 1 "3.5" "1e-05"]

theorem exAtoms_ok : 2 ≤ exAtoms.length ∧ AtomsOK exAtoms ∧ BoxOK exBox ∧ DistinctIds exAtoms := by
  refine ⟨by decide, ?_, ⟨by decide, ?_⟩, ?_⟩
  · intro a ha; simp [exAtoms] at ha; rcases ha with rfl | rfl | rfl <;> exact ⟨rfl, rfl⟩
  · intro r hr; simp [exBox] at hr; rcases hr with rfl | rfl | rfl <;> rfl
  · simp [DistinctIds, exAtoms, exA]
example : readFrame (writeFrame ⟨exAtoms, some exBox⟩) 0 3
    = .ok ⟨[exA 1 2 "2.5" "0.75", exA 2 1 "3.5" "1e-05", exA 3 1 "1.5" "0.25"], some exBox⟩ := by rfl

theorem split_at {α : Type} : ∀ (l : List α) (k : Nat) (hk : k < l.length),
    l = l.take k ++ (l[k] :: l.drop (k + 1))
  | a :: t, 0, _ => by simp
  | a :: t, k + 1, hk => by
    have := split_at t k (by simpa using hk)
    simp only [List.take_succ_cons, List.cons_append, List.getElem_cons_succ, List.drop_succ_cons]
    exact congrArg (a :: ·) this

theorem writeFrames_append (l₁ l₂ : List Conf) : writeFrames (l₁ ++ l₂) = writeFrames l₁ ++ writeFrames l₂ := by
  simp [writeFrames]

theorem writeFrames_cons (c : Conf) (l : List Conf) : writeFrames (c :: l) = writeFrame c ++ writeFrames l := by
  simp [writeFrames]

/-- **`lmp_extract_frame_k`**: in a file made of `m` appended frames of `n ≥ 2` atoms each,
    `read_lammpstrj(file, k, n)` for `k < m` returns frame `k` (sorted by id), `_extract_frame`
    writes exactly the canonical text of that frame, and re-reading that text gives the frame again. -/
theorem lmp_extract_frame_k (cs : List Conf) (n k : Nat) (hn : 2 ≤ n)
    (hcs : ∀ c ∈ cs, FrameOK n c) (hk : k < cs.length) :
    readFrame (writeFrames cs) (k : Int) n = .ok (sortConf cs[k])
    ∧ extractFrame (writeFrames cs) (k : Int) n = .ok (writeFrame (sortConf cs[k]))
    ∧ readFrame (writeFrame (sortConf cs[k])) 0 n = .ok (sortConf cs[k]) := by
  have hck : FrameOK n cs[k] := hcs _ (List.getElem_mem hk)
  obtain ⟨hlen, hat, b, hbox, hb⟩ := hck
  have hsplit : writeFrames cs
      = writeFrames (cs.take k) ++ (writeFrame { atoms := cs[k].atoms, box := some b } ++ writeFrames (cs.drop (k + 1))) := by
    conv => lhs; rw [split_at cs k hk]
    rw [writeFrames_append, writeFrames_cons]
    have : ({ atoms := cs[k].atoms, box := some b } : Conf) = cs[k] := by
      rw [← hbox]
    rw [this]
  have hpre : (writeFrames (cs.take k)).length = (cs[k].atoms.length + 9) * k := by
    rw [hlen]
    have := length_writeFrames n (cs.take k) (fun c hc => by
      have hc' := hcs c (List.mem_of_mem_take hc)
      obtain ⟨h1, _, b', hb', hb3⟩ := hc'
      exact ⟨h1, b', hb', hb3.1⟩)
    rw [this, List.length_take]
    congr 1; omega
  have hread : readFrame (writeFrames cs) (k : Int) n = .ok (sortConf cs[k]) := by
    have := readFrame_at _ (writeFrames (cs.drop (k + 1))) cs[k].atoms b k hpre (by omega) hat hb
    rw [← hsplit, hlen] at this
    rw [this]
    simp [sortConf, hbox]
  refine ⟨hread, ?_, ?_⟩
  · simp [extractFrame, hread]
  · have := readFrame_single (sortAtoms cs[k].atoms) b
      (by rw [(sortAtoms_perm _).length_eq]; omega) (sortAtoms_ok _ hat) hb
    rw [(sortAtoms_perm _).length_eq, hlen, sortAtoms_idem] at this
    simpa [sortConf, hbox] using this

example : readFrame (writeFrames [⟨exAtoms, some exBox⟩, ⟨exAtoms.reverse, some exBox⟩, ⟨exAtoms, some exBox⟩]) 1 3
    = .ok (sortConf ⟨exAtoms.reverse, some exBox⟩) := by rfl

/-- `vel *= -1.0` touches the velocity tokens only -/
theorem negVel_only_vel (c : Conf) :
    (negVel c).box = c.box
    ∧ (negVel c).atoms.map (fun a => (a.id, a.typ, a.pos)) = c.atoms.map (fun a => (a.id, a.typ, a.pos))
    ∧ (negVel c).atoms.map (fun a => a.vel) = c.atoms.map (fun a => a.vel.map Num.negate)
    ∧ negVel (negVel c) = c := by
  refine ⟨rfl, by simp [negVel], by simp [negVel], ?_⟩
  obtain ⟨atoms, box⟩ := c
  simp only [negVel, List.map_map, Conf.mk.injEq, and_true]
  have : ∀ l : List Atom, l.map ((fun a : Atom => { a with vel := a.vel.map Num.negate }) ∘
      (fun a : Atom => { a with vel := a.vel.map Num.negate })) = l := by
    intro l
    induction l with
    | nil => rfl
    | cons a t ih =>
      obtain ⟨i, ty, p, v⟩ := a
      simp only [List.map_cons, Function.comp, List.map_map, ih, List.cons.injEq, Atom.mk.injEq, true_and, and_true]
      induction v with
      | nil => rfl
      | cons x v ihv => simp [negate_negate]; exact ihv
  exact this atoms

/-- **`lmp_reverse_only_negates_vel`**: `_reverse_velocities` on a written frame (`n ≥ 2` atoms) writes the
    frame sorted by id with every velocity token negated and ids, types, positions and box as they
    were; applying it twice gives the canonical (sorted) text of the original frame. -/
theorem lmp_reverse_only_negates_vel (c : Conf) (n : Nat) (hn : 2 ≤ n) (hc : FrameOK n c) :
    reverseVel (writeFrame c) n = .ok (writeFrame (negVel (sortConf c)))
    ∧ (negVel (sortConf c)).box = c.box
    ∧ (negVel (sortConf c)).atoms.map (fun a => (a.id, a.typ, a.pos))
        = (sortAtoms c.atoms).map (fun a => (a.id, a.typ, a.pos))
    ∧ (negVel (sortConf c)).atoms.map (fun a => a.vel) = (sortAtoms c.atoms).map (fun a => a.vel.map Num.negate)
    ∧ (∀ out, reverseVel (writeFrame c) n = .ok out → reverseVel out n = .ok (writeFrame (sortConf c))) := by
  obtain ⟨hlen, hat, b, hbox, hb⟩ := hc
  obtain ⟨atoms, box⟩ := c
  simp only at hlen hat hbox
  subst hbox
  have hr : readFrame (writeFrame { atoms := atoms, box := some b }) 0 n = .ok (sortConf ⟨atoms, some b⟩) := by
    have := readFrame_single atoms b (by omega) hat hb
    rw [hlen] at this
    exact this
  have h1 : reverseVel (writeFrame ⟨atoms, some b⟩) n = .ok (writeFrame (negVel (sortConf ⟨atoms, some b⟩))) := by
    simp [reverseVel, hr]
  have nv := negVel_only_vel (sortConf ⟨atoms, some b⟩)
  refine ⟨h1, rfl, nv.2.1, nv.2.2.1, ?_⟩
  intro out hout
  rw [h1] at hout
  cases hout
  -- second application: the table is already sorted, so reading keeps its order
  let l' := (sortAtoms atoms).map (fun a => { a with vel := a.vel.map Num.negate })
  have hl' : (negVel (sortConf ⟨atoms, some b⟩)) = ⟨l', some b⟩ := rfl
  have hlen' : l'.length = n := by simp [l', (sortAtoms_perm atoms).length_eq, hlen]
  have hr2 := readFrame_single l' b (by omega) (negVel_atoms_ok _ (sortAtoms_ok _ hat)) hb
  rw [hlen', sortAtoms_of_sorted l' (negVel_sorted _ (sortAtoms_sorted atoms))] at hr2
  rw [hl']
  simp only [reverseVel, hr2]
  have := nv.2.2.2
  rw [hl'] at this
  rw [this]

example : reverseVel (writeFrame ⟨exAtoms, some exBox⟩) 3
    = .ok (writeFrame ⟨[exA 1 2 "2.5" "0.75", exA 2 1 "3.5" "1e-05", exA 3 1 "1.5" "0.25"].map
        (fun a => { a with vel := a.vel.map Num.negate }), some exBox⟩) := by rfl
example : FrameOK 3 ⟨exAtoms, some exBox⟩ := by
  refine ⟨rfl, ?_, exBox, rfl, by decide, ?_⟩
  · intro a ha; simp [exAtoms] at ha; rcases ha with rfl | rfl | rfl <;> exact ⟨rfl, rfl⟩
  · intro r hr; simp [exBox] at hr; rcases hr with rfl | rfl | rfl <;> rfl

/-! ### what the code does outside the property's scope (kept faithful, stated explicitly) -/

/-- a single atom: `genfromtxt` squeezes the table to 1-D and `posvel[:, 0]` raises IndexError -/
theorem lmp_single_atom_index_error (a : Atom) (b : List (List Num)) (ha : AtomOK a) (hb : BoxOK b) :
    readFrame (writeFrame { atoms := [a], box := some b }) 0 1 = .error .index := by
  have hbox : genfromtxt (writeFrame { atoms := [a], box := some b }) 5 3 = .ok (b.map (fun r => r.map Tok.num)) := by
    have h3 : (b.map (fun r => r.map Tok.num)).length = 3 := by simp [hb.1]
    have := genfromtxt_block 2 (by omega) (headLines 1) (b.map (fun r => r.map Tok.num))
      ([atomsHead, atomLine a]) 5 (by simp [headLines]) (by omega)
      (by intro r hr; rcases List.mem_map.mp hr with ⟨r', hr', rfl⟩; simp [hb.2 r' hr'])
    rw [h3] at this
    simpa [writeFrame, boxLines] using this
  have hrows : genfromtxt (writeFrame { atoms := [a], box := some b }) 9 1 = .ok [atomLine a] := by
    have := genfromtxt_block 8 (by omega) (headLines 1 ++ (b.map (fun r => r.map Tok.num) ++ [atomsHead]))
      [atomLine a] [] 9 (by simp [headLines, hb.1]) (by simp)
      (by intro r hr; simp at hr; subst hr; exact length_atomLine a ha)
    simpa [writeFrame, boxLines] using this
  simp [readFrame, hbox, hrows]

/-- written without a box (`box=None`) the frame is three lines short: the fixed offsets +5/+9 land
    on the `ITEM: ATOMS` header (10 columns) followed by 8-column rows → ValueError. -/
theorem lmp_no_box_value_error (a : Atom) (t : List Atom) (h : AtomsOK (a :: t)) (n : Nat) :
    readFrame (writeFrame { atoms := a :: t, box := none }) 0 n = .error .value := by
  have := length_atomLine a (h a (List.mem_cons_self))
  have hne : (atomLine a).isEmpty = false := rfl
  simp [readFrame, writeFrame, boxLines, headLines, genfromtxt, atomsHead, scanRows, this, hne]

end Infretis.Lmp

namespace Infretis.Trr

/-! ## (B) TRR -/

/-- 32-bit two's complement range (`struct` code `i`) -/
def InRange (i : Int) : Prop := -2147483648 ≤ i ∧ i < 2147483648

theorem swap_bytes (a b c d : Nat) (ha : a < 256) (hb : b < 256) (hc : c < 256) (hd : d < 256) :
    swapInteger ((a * 16777216 + b * 65536 + c * 256 + d : Nat) : Int) = d * 16777216 + c * 65536 + b * 256 + a := by
  simp only [swapInteger]
  omega

/-- **`swap_integer_involutive`** on 32-bit values -/
theorem swap_integer_involutive (i : Int) (h : 0 ≤ i ∧ i < 4294967296) :
    ((swapInteger ((swapInteger i : Nat) : Int) : Nat) : Int) = i := by
  obtain ⟨u, rfl⟩ : ∃ u : Nat, i = (u : Int) := ⟨i.toNat, by omega⟩
  have hu : u < 4294967296 := by omega
  have e : u = (u / 16777216) * 16777216 + (u / 65536 % 256) * 65536 + (u / 256 % 256) * 256 + u % 256 := by omega
  rw [e, swap_bytes _ _ _ _ (by omega) (by omega) (by omega) (by omega),
    swap_bytes _ _ _ _ (by omega) (by omega) (by omega) (by omega)]

/-- a negative argument (the magic is read as a signed int) is treated as its 32-bit pattern -/
theorem swap_integer_mod (i : Int) : swapInteger i = swapInteger (i % 4294967296) := by
  simp only [swapInteger]
  have : i % 4294967296 % 4294967296 = i % 4294967296 := by omega
  rw [this]

/-- **`swap_integer_be_le`**: `swap_integer` turns the big-endian reading of four bytes into the
    little-endian reading of the same four bytes (and back). -/
theorem swap_integer_be_le (a b c d : UInt8) :
    swapInteger (be32 [a, b, c, d] : Nat) = le32 [a, b, c, d]
    ∧ swapInteger (le32 [a, b, c, d] : Nat) = be32 [a, b, c, d] := by
  have := a.toNat_lt; have := b.toNat_lt; have := c.toNat_lt; have := d.toNat_lt
  simp only [swapInteger, be32, le32]
  omega

example : swapInteger 1993 = 3372679168 ∧ swapInteger (-1) = 4294967295 ∧ swapInteger (swapInteger 1993 : Nat) = 1993 := by decide

theorem i32_enc32 (e : Endian) (i : Int) (h : InRange i) : i32 e (enc32 e i) = i := by
  unfold InRange at h
  cases e <;>
  · simp only [i32, u32, enc32, fileOrder, normBytes, be32Bytes, be32, le32, toSigned, List.reverse_cons,
      List.reverse_nil, List.nil_append, List.cons_append, UInt8.toNat_ofNat']
    split <;> omega

theorem length_enc32 (e : Endian) (i : Int) : (enc32 e i).length = 4 := by
  cases e <;> simp [enc32, fileOrder, normBytes, be32Bytes]

theorem norm_fileOrder (e : Endian) (bs : Bytes) : normBytes e (fileOrder e bs) = bs := by
  cases e <;> simp [normBytes, fileOrder]

theorem length_fileOrder (e : Endian) (bs : Bytes) : (fileOrder e bs).length = bs.length := by
  cases e <;> simp [normBytes, fileOrder]

theorem readN_append (chunk rest : Bytes) (n : Nat) (h : chunk.length = n) (hn : 0 < n) :
    readN (chunk ++ rest) n = .ok (chunk, rest) := by
  unfold readN
  rw [List.take_left' h, List.drop_left' h]
  have : chunk.isEmpty = false := by
    cases chunk with
    | nil => simp at h; omega
    | cons _ _ => rfl
  simp [this, h]

theorem chunks_flatten (w : Nat) : ∀ (l : List Bytes) (rest : Bytes), (∀ x ∈ l, x.length = w) →
    chunks w l.length (l.flatten ++ rest) = l
  | [], _, _ => rfl
  | x :: l, rest, h => by
    have hx : x.length = w := h x (List.mem_cons_self)
    have ih := chunks_flatten w l rest (fun y hy => h y (List.mem_cons_of_mem _ hy))
    simp only [List.length_cons, List.flatten_cons, List.append_assoc, chunks, List.take_left' hx,
      List.drop_left' hx, ih]

theorem length_flatten_const (w : Nat) : ∀ (l : List Bytes), (∀ x ∈ l, x.length = w) → l.flatten.length = l.length * w
  | [], _ => by simp
  | x :: l, h => by
    have hx : x.length = w := h x (List.mem_cons_self)
    have ih := length_flatten_const w l (fun y hy => h y (List.mem_cons_of_mem _ hy))
    simp only [List.flatten_cons, List.length_append, hx, ih, List.length_cons, Nat.succ_mul]
    omega

theorem map_i32_enc32 (e : Endian) : ∀ (l : List Int), (∀ i ∈ l, InRange i) → (l.map (enc32 e)).map (i32 e) = l
  | [], _ => rfl
  | i :: l, h => by
    simp only [List.map_cons, i32_enc32 e i (h i (List.mem_cons_self)),
      map_i32_enc32 e l (fun j hj => h j (List.mem_cons_of_mem _ hj))]

/-! ### guards of the decode theorem -/

/-- a 3×3 section: nine fields of the precision's width -/
def MatOK (w : Nat) : Option (List Bytes) → Prop
  | none => True
  | some l => l.length = 9 ∧ ∀ x ∈ l, x.length = w

/-- an natoms×3 section; a present section needs at least one atom (its size field would be 0 otherwise) -/
def CoordOK (w : Nat) (natoms : Nat) : Option (List Bytes) → Prop
  | none => True
  | some l => l.length = natoms * 3 ∧ (∀ x ∈ l, x.length = w) ∧ 0 < natoms

/-- size consistency of a logical frame for precision width `w` -/
structure LOK (w : Nat) (f : LFrame) : Prop where
  hwidth : w = 4 ∨ w = 8
  hints : InRange f.irSize ∧ InRange f.eSize ∧ InRange f.topSize ∧ InRange f.symSize ∧ InRange f.step ∧ InRange f.nre
  hnatoms : f.natoms * 3 * w < 2147483648
  htime : f.time.length = w
  hlambda : f.lambda.length = w
  hbox : MatOK w f.box
  hvir : MatOK w f.vir
  hpres : MatOK w f.pres
  hx : CoordOK w f.natoms f.x
  hv : CoordOK w f.natoms f.v
  hf : CoordOK w f.natoms f.f
  /-- `is_double` finds the precision from box, x, v or f; a frame with none of them is a ValueError -/
  hsome : f.box ≠ none ∨ f.x ≠ none ∨ f.v ≠ none ∨ f.f ≠ none

/-- what the reader must return for `encodeFrame e w f` -/
def expectedHeader (e : Endian) (w : Nat) (f : LFrame) : Header :=
  { sz := f.sizes w, time := f.time, lambda := f.lambda, endian := e, double := decide (w = 8) }

def expectedData (f : LFrame) : Data :=
  { box := f.box, vir := f.vir, pres := f.pres, x := f.x, v := f.v, f := f.f }

theorem secSize_range (w count : Nat) (h : count * w < 2147483648) (s : Option (List Bytes)) :
    InRange (secSize w count s) := by
  cases s <;> simp only [secSize, InRange] <;> omega

theorem sizes_inRange (w : Nat) (f : LFrame) (h : LOK w f) : ∀ i ∈ (f.sizes w).toList, InRange i := by
  have h9 : 9 * w < 2147483648 := by rcases h.hwidth with rfl | rfl <;> omega
  have hn : InRange (f.natoms : Int) := by
    have := h.hnatoms
    have : f.natoms < 2147483648 := by rcases h.hwidth with rfl | rfl <;> omega
    simp only [InRange]; omega
  obtain ⟨h1, h2, h3, h4, h5, h6⟩ := h.hints
  intro i hi
  simp only [Sizes.toList, LFrame.sizes, List.mem_cons, List.mem_nil_iff, or_false] at hi
  rcases hi with rfl | rfl | rfl | rfl | rfl | rfl | rfl | rfl | rfl | rfl | rfl | rfl | rfl
  all_goals first | assumption | exact secSize_range w 9 h9 _ | exact secSize_range w _ h.hnatoms _

theorem ofList_toList (s : Sizes) : Sizes.ofList s.toList = some s := rfl

theorem coord_div (w n : Nat) (hn : 0 < n) : pyIntDiv ((n * 3 * w : Nat) : Int) ((n : Int) * 3) = .ok (w : Int) := by
  have h0 : (n : Int) * 3 ≠ 0 := by omega
  have : ((n * 3 * w : Nat) : Int) = ((n : Int) * 3) * (w : Int) := by simp [Int.natCast_mul]
  simp only [pyIntDiv, h0, if_false, this, Int.mul_tdiv_cancel_left _ h0]

theorem mat_div (w : Nat) : pyIntDiv ((9 * w : Nat) : Int) 9 = .ok (w : Int) := by
  have h0 : (9 : Int) ≠ 0 := by omega
  have : ((9 * w : Nat) : Int) = 9 * (w : Int) := by simp [Int.natCast_mul]
  simp only [pyIntDiv, h0, if_false, this, Int.mul_tdiv_cancel_left _ h0]

set_option linter.unusedSimpArgs false in
theorem isDouble_sizes (w : Nat) (f : LFrame) (h : LOK w f) : isDouble (f.sizes w) = .ok (decide (w = 8)) := by
  have hw := h.hwidth
  have hx := h.hx; have hv := h.hv; have hf := h.hf; have hs := h.hsome
  clear h
  have w0 : ((9 * w : Nat) : Int) ≠ 0 := by rcases hw with rfl | rfl <;> omega
  have fin : ∀ z : Int, z = (w : Int) →
      (if z = 4 then (Except.ok false : Except Err Bool) else if z = 8 then .ok true else .error .value)
        = .ok (decide (w = 8)) := by
    intro z hz; subst hz
    rcases hw with rfl | rfl <;> simp
  have nz : ∀ n : Nat, 0 < n → ((n * 3 * w : Nat) : Int) ≠ 0 := by
    intro n hn
    have : 0 < n * 3 * w := by rcases hw with rfl | rfl <;> omega
    omega
  obtain ⟨ir, es, top, sym, step, nre, nat, tm, lam, box, vir, pres, x, v, ff⟩ := f
  simp only at hx hv hf hs
  unfold isDouble
  simp only [LFrame.sizes]
  cases box with
  | some b => simp only [secSize, w0, ne_eq, not_false_eq_true, if_true, mat_div]; exact fin _ rfl
  | none =>
    simp only [secSize, ne_eq, not_true_eq_false, if_false]
    cases x with
    | some l =>
      simp only [secSize, nz _ hx.2.2, ne_eq, not_false_eq_true, if_true, coord_div w _ hx.2.2]; exact fin _ rfl
    | none =>
      simp only [secSize, ne_eq, not_true_eq_false, if_false]
      cases v with
      | some l =>
        simp only [secSize, nz _ hv.2.2, ne_eq, not_false_eq_true, if_true, coord_div w _ hv.2.2]; exact fin _ rfl
      | none =>
        simp only [secSize, ne_eq, not_true_eq_false, if_false]
        cases ff with
        | some l =>
          simp only [secSize, nz _ hf.2.2, ne_eq, not_false_eq_true, if_true, coord_div w _ hf.2.2]; exact fin _ rfl
        | none => simp at hs

/-- the header of an encoded frame is read back, for both byte orders and both precisions -/
theorem readHeader_encode (e : Endian) (w : Nat) (f : LFrame) (h : LOK w f) (rest : Bytes) :
    readHeader (encodeHeader e w f ++ rest) = .ok (expectedHeader e w f, 76 + 2 * w) := by
  have hw := h.hwidth
  have hints : ((chunks 4 13 (((f.sizes w).toList.map (enc32 e)).flatten)).map (i32 e)) = (f.sizes w).toList := by
    have hl : ((f.sizes w).toList.map (enc32 e)).length = 13 := by simp [Sizes.toList]
    have := chunks_flatten 4 ((f.sizes w).toList.map (enc32 e)) []
      (by intro x hx; rcases List.mem_map.mp hx with ⟨i, _, rfl⟩; exact length_enc32 e i)
    rw [hl, List.append_nil] at this
    rw [this, map_i32_enc32 e _ (sizes_inRange w f h)]
  have hlen52 : (((f.sizes w).toList.map (enc32 e)).flatten).length = 52 := by
    have := length_flatten_const 4 ((f.sizes w).toList.map (enc32 e))
      (by intro x hx; rcases List.mem_map.mp hx with ⟨i, _, rfl⟩; exact length_enc32 e i)
    simpa [Sizes.toList] using this
  have hend : (if i32 .big (enc32 e 1993) = 1993 then Endian.big else swapEndian Endian.big) = e := by
    cases e
    · have : i32 .big (enc32 .big 1993) = 1993 := by decide
      simp [this]
    · have : i32 .big (enc32 .little 1993) ≠ 1993 := by decide
      simp [this, swapEndian]
  have hslen : i32 e ((enc32 e 13 ++ enc32 e 12).take 4) = 13 := by
    rw [List.take_left' (length_enc32 e 13)]
    exact i32_enc32 e 13 (by simp [InRange])
  have hver : versionBytes.length = 12 := by decide
  have hver2 : versionBytes.takeWhile (fun b => b != 0) = versionBytes := by decide
  have htl : (fileOrder e f.time ++ fileOrder e f.lambda).length = 2 * w := by
    simp [length_fileOrder, h.htime, h.hlambda]; omega
  have htw : (fileOrder e f.time).length = w := by rw [length_fileOrder, h.htime]
  unfold readHeader
  simp only [encodeHeader, List.append_assoc]
  rw [readN_append (enc32 e 1993) _ 4 (length_enc32 e 1993) (by omega)]
  simp only [hend]
  rw [← List.append_assoc (enc32 e 13) (enc32 e 12)]
  rw [readN_append (enc32 e 13 ++ enc32 e 12) _ 8 (by simp [length_enc32]) (by omega)]
  simp only [hslen]
  have h12 : ((13 : Int) - 1).toNat = 12 := by decide
  have hneg : ¬ ((13 : Int) - 1 < 0) := by decide
  simp only [hneg, if_false, h12]
  rw [readN_append versionBytes _ 12 hver (by omega)]
  simp only [hver2, ne_eq, not_true_eq_false, if_false]
  rw [readN_append _ _ 52 hlen52 (by omega)]
  simp only [hints, ofList_toList, isDouble_sizes w f h]
  have hw' : (if decide (w = 8) = true then 8 else 4) = w := by rcases hw with rfl | rfl <;> simp
  simp only [hw']
  rw [← List.append_assoc (fileOrder e f.time), readN_append _ rest (2 * w) htl (by rcases hw with rfl | rfl <;> omega)]
  simp only [List.take_left' htw, List.drop_left' htw, norm_fileOrder, expectedHeader]

theorem length_encodeHeader (e : Endian) (w : Nat) (f : LFrame) (h : LOK w f) :
    (encodeHeader e w f).length = 76 + 2 * w := by
  have hver : versionBytes.length = 12 := by decide
  have hlen52 : (((f.sizes w).toList.map (enc32 e)).flatten).length = 52 := by
    have := length_flatten_const 4 ((f.sizes w).toList.map (enc32 e))
      (by intro x hx; rcases List.mem_map.mp hx with ⟨i, _, rfl⟩; exact length_enc32 e i)
    simpa [Sizes.toList] using this
  simp only [encodeHeader, List.length_append, length_enc32, hver, hlen52, length_fileOrder, h.htime, h.hlambda]
  omega

/-! ### data sections -/

theorem map_norm_fileOrder (e : Endian) : ∀ l : List Bytes, (l.map (fileOrder e)).map (normBytes e) = l
  | [] => rfl
  | x :: l => by simp only [List.map_cons, norm_fileOrder, map_norm_fileOrder e l]

theorem readReals_enc (e : Endian) (w : Nat) (l : List Bytes) (rest : Bytes)
    (hl : ∀ x ∈ l, x.length = w) (hpos : 0 < l.length * w) :
    readReals e w (l.length : Int) ((l.map (fileOrder e)).flatten ++ rest) = .ok (l, rest) := by
  have hl' : ∀ x ∈ l.map (fileOrder e), x.length = w := by
    intro x hx; rcases List.mem_map.mp hx with ⟨y, hy, rfl⟩; rw [length_fileOrder]; exact hl y hy
  have hlen : ((l.map (fileOrder e)).flatten).length = l.length * w := by
    have := length_flatten_const w _ hl'
    simpa using this
  have hc := chunks_flatten w (l.map (fileOrder e)) [] hl'
  rw [List.append_nil, List.length_map] at hc
  unfold readReals
  have : ¬ ((l.length : Int) < 0) := by omega
  simp only [this, if_false, Int.toNat_natCast]
  rw [readN_append _ rest _ hlen hpos]
  simp only [hc, map_norm_fileOrder]

theorem readOpt_mat (e : Endian) (w : Nat) (hw : 0 < w) (s : Option (List Bytes)) (rest : Bytes) (h : MatOK w s) :
    readOpt e w (secSize w 9 s) 9 (encSec e s ++ rest) = .ok (s, rest) := by
  cases s with
  | none => simp [readOpt, secSize, encSec]
  | some l =>
    obtain ⟨h9, hl⟩ := h
    have nz : ((9 * w : Nat) : Int) ≠ 0 := by omega
    have := readReals_enc e w l rest hl (by rw [h9]; omega)
    rw [h9] at this
    simp only [readOpt, secSize, nz, ne_eq, not_false_eq_true, if_true, encSec]
    have e9 : ((9 : Nat) : Int) = 9 := rfl
    rw [e9] at this
    rw [this]

theorem readOpt_coord (e : Endian) (w : Nat) (hw : 0 < w) (n : Nat) (s : Option (List Bytes)) (rest : Bytes)
    (h : CoordOK w n s) :
    readOpt e w (secSize w (n * 3) s) ((n : Int) * 3) (encSec e s ++ rest) = .ok (s, rest) := by
  cases s with
  | none => simp [readOpt, secSize, encSec]
  | some l =>
    obtain ⟨hlen, hl, hn⟩ := h
    have pos : 0 < n * 3 * w := Nat.mul_pos (by omega) hw
    have nz : ((n * 3 * w : Nat) : Int) ≠ 0 := by omega
    have := readReals_enc e w l rest hl (by rw [hlen]; exact pos)
    rw [hlen] at this
    have ec : ((n * 3 : Nat) : Int) = (n : Int) * 3 := by simp [Int.natCast_mul]
    rw [ec] at this
    simp only [readOpt, secSize, nz, ne_eq, not_false_eq_true, if_true, encSec]
    rw [this]

theorem readData_core (e : Endian) (w : Nat) (f : LFrame) (h : LOK w f) (hd : Header)
    (h1 : hd.sz = f.sizes w) (h2 : hd.endian = e) (h3 : (if hd.double then 8 else 4) = w) (rest : Bytes) :
    readData hd (encodeData e f ++ rest) = .ok (expectedData f, rest) := by
  have hw := h.hwidth
  have w0 : 0 < w := by rcases hw with rfl | rfl <;> omega
  unfold readData
  simp only [h1, h2, h3, LFrame.sizes, encodeData, List.append_assoc]
  rw [readOpt_mat e w w0 f.box _ h.hbox]
  simp only []
  rw [readOpt_mat e w w0 f.vir _ h.hvir]
  simp only []
  rw [readOpt_mat e w w0 f.pres _ h.hpres]
  simp only []
  rw [readOpt_coord e w w0 f.natoms f.x _ h.hx]
  simp only []
  rw [readOpt_coord e w w0 f.natoms f.v _ h.hv]
  simp only []
  rw [readOpt_coord e w w0 f.natoms f.f _ h.hf]
  simp only [expectedData]

theorem readData_encode (e : Endian) (w : Nat) (f : LFrame) (h : LOK w f) (rest : Bytes) :
    readData (expectedHeader e w f) (encodeData e f ++ rest) = .ok (expectedData f, rest) := by
  apply readData_core e w f h _ rfl rfl
  simp only [expectedHeader]
  rcases h.hwidth with rfl | rfl <;> simp

/-- **`trr_decode_endian_precision`**: for every size-consistent logical frame, BOTH byte orders and
    BOTH precisions, the reader applied to the encoded frame (followed by anything) returns exactly
    the logical frame's header integers and its field bytes (normalised), with `endian`/`double` as
    encoded, and stops at the end of the frame. -/
theorem trr_decode_endian_precision (e : Endian) (w : Nat) (f : LFrame) (h : LOK w f) (rest : Bytes) :
    decodeFrame (encodeFrame e w f ++ rest) = .ok (expectedHeader e w f, expectedData f, rest) := by
  unfold decodeFrame encodeFrame
  rw [List.append_assoc, readHeader_encode e w f h]
  simp only []
  rw [List.drop_left' (length_encodeHeader e w f h), readData_encode e w f h]

/-- in particular the big- and the little-endian file of the same logical frame decode to the same
    header integers, time, lambda and data fields -/
theorem trr_decode_endian_agree (w : Nat) (f : LFrame) (h : LOK w f) (r₁ r₂ : Bytes) :
    ∃ hb hl d, decodeFrame (encodeFrame .big w f ++ r₁) = .ok (hb, d, r₁)
      ∧ decodeFrame (encodeFrame .little w f ++ r₂) = .ok (hl, d, r₂)
      ∧ hb.sz = hl.sz ∧ hb.time = hl.time ∧ hb.lambda = hl.lambda ∧ hb.double = hl.double
      ∧ hb.endian = .big ∧ hl.endian = .little :=
  ⟨_, _, _, trr_decode_endian_precision .big w f h r₁, trr_decode_endian_precision .little w f h r₂,
    rfl, rfl, rfl, rfl, rfl, rfl⟩

def exF : LFrame :=
  { irSize := 0, eSize := 0, topSize := 0, symSize := 0, step := -7, nre := 3, natoms := 1,
    time := [0x3f, 0x80, 0, 0], lambda := [0, 0, 0, 0],
    box := some (List.replicate 9 [0x41, 0x20, 0, 1]), vir := none, pres := some (List.replicate 9 [1, 2, 3, 4]),
    x := some [[0x40, 0, 0, 0], [0xc0, 0, 0, 1], [0, 0, 0, 2]], v := none, f := none }

theorem exF_ok : LOK 4 exF :=
  { hwidth := Or.inl rfl, hints := by simp [InRange, exF], hnatoms := by decide, htime := rfl, hlambda := rfl,
    hbox := ⟨rfl, by decide⟩, hvir := trivial, hpres := ⟨rfl, by decide⟩,
    hx := ⟨rfl, by decide, by decide⟩, hv := trivial, hf := trivial, hsome := Or.inl (by simp [exF]) }

example : decodeFrame (encodeFrame .little 4 exF ++ [9, 9]) = .ok (expectedHeader .little 4 exF, expectedData exF, [9, 9]) :=
  trr_decode_endian_precision .little 4 exF exF_ok [9, 9]

/-- a frame that carries none of box/x/v/f (e.g. only the virial) cannot be read: `is_double` has nothing
    to derive the precision from (ValueError "Could not determine size!") -/
theorem isDouble_no_source (s : Sizes) (hb : s.boxSize = 0) (hx : s.xSize = 0) (hv : s.vSize = 0) (hf : s.fSize = 0) :
    isDouble s = .error .value := by
  simp [isDouble, hb, hx, hv, hf]

/-- `natoms = 0` with a non-empty x section and no box: ZeroDivisionError -/
theorem isDouble_zero_atoms (s : Sizes) (hb : s.boxSize = 0) (hx : s.xSize ≠ 0) (hn : s.natoms = 0) :
    isDouble s = .error .zerodiv := by
  simp [isDouble, hb, hx, hn, pyIntDiv]

end Infretis.Trr

namespace Infretis.Trr

/-- a TRR file: frames one after the other, each with its own byte order and precision -/
def encodeFrames (frames : List (Endian × Nat × LFrame)) : Bytes :=
  (frames.map (fun x => encodeFrame x.1 x.2.1 x.2.2)).flatten

theorem length_encSec_mat (e : Endian) (w : Nat) (s : Option (List Bytes)) (h : MatOK w s) :
    ((encSec e s).length : Int) = secSize w 9 s := by
  cases s with
  | none => simp [encSec, secSize]
  | some l =>
    obtain ⟨h9, hl⟩ := h
    have hl' : ∀ x ∈ l.map (fileOrder e), x.length = w := by
      intro x hx; rcases List.mem_map.mp hx with ⟨y, hy, rfl⟩; rw [length_fileOrder]; exact hl y hy
    have := length_flatten_const w _ hl'
    simp only [encSec, secSize, this, List.length_map, h9]

theorem length_encSec_coord (e : Endian) (w n : Nat) (s : Option (List Bytes)) (h : CoordOK w n s) :
    ((encSec e s).length : Int) = secSize w (n * 3) s := by
  cases s with
  | none => simp [encSec, secSize]
  | some l =>
    obtain ⟨hlen, hl, _⟩ := h
    have hl' : ∀ x ∈ l.map (fileOrder e), x.length = w := by
      intro x hx; rcases List.mem_map.mp hx with ⟨y, hy, rfl⟩; rw [length_fileOrder]; exact hl y hy
    have := length_flatten_const w _ hl'
    simp only [encSec, secSize, this, List.length_map, hlen]

/-- for a size-consistent frame the seek offset of `skip_trr_data` is exactly the length of the data -/
theorem skipOffset_encode (e : Endian) (w : Nat) (f : LFrame) (h : LOK w f) :
    skipOffset (f.sizes w) = ((encodeData e f).length : Int) := by
  simp only [skipOffset, LFrame.sizes, encodeData, List.length_append, Int.natCast_add,
    length_encSec_mat e w _ h.hbox, length_encSec_mat e w _ h.hvir, length_encSec_mat e w _ h.hpres,
    length_encSec_coord e w _ _ h.hx, length_encSec_coord e w _ _ h.hv, length_encSec_coord e w _ _ h.hf]
  omega

theorem frameLoop_frames : ∀ (frames : List (Endian × Nat × LFrame)) (pre : Bytes) (idx : Int) (k fuel : Nat),
    (∀ x ∈ frames, LOK x.2.1 x.2.2) → k + 1 ≤ fuel →
    frameLoop (pre ++ encodeFrames frames) (idx + (k : Int)) fuel pre.length idx
      = .ok ((frames[k]?).map (fun x => (expectedHeader x.1 x.2.1 x.2.2, expectedData x.2.2))) := by
  intro frames
  induction frames with
  | nil =>
    intro pre idx k fuel _ hf
    obtain ⟨fuel', rfl⟩ : ∃ f', fuel = f' + 1 := ⟨fuel - 1, by omega⟩
    simp [encodeFrames, frameLoop, readHeader, readN]
  | cons x rest ih =>
    intro pre idx k fuel hall hf
    obtain ⟨e, w, f⟩ := x
    have hok : LOK w f := hall (e, w, f) (List.mem_cons_self)
    obtain ⟨fuel', rfl⟩ : ∃ f', fuel = f' + 1 := ⟨fuel - 1, by omega⟩
    have hall' : pre ++ encodeFrames ((e, w, f) :: rest)
        = pre ++ (encodeHeader e w f ++ (encodeData e f ++ encodeFrames rest)) := by
      simp [encodeFrames, encodeFrame]
    rw [frameLoop, hall', List.drop_left, readHeader_encode e w f hok]
    simp only []
    have hdrop : List.drop (pre.length + (76 + 2 * w)) (pre ++ (encodeHeader e w f ++ (encodeData e f ++ encodeFrames rest)))
        = encodeData e f ++ encodeFrames rest := by
      rw [List.drop_length_add_append, List.drop_left' (length_encodeHeader e w f hok)]
    cases k with
    | zero =>
      simp only [Int.natCast_zero, Int.add_zero, if_true, hdrop, readData_encode e w f hok]
      simp
    | succ k' =>
      have hne : ¬ (idx = idx + ((k' + 1 : Nat) : Int)) := by omega
      simp only [hne, if_false]
      have hpos : ((pre.length : Int) + ((76 + 2 * w : Nat) : Int) + skipOffset (expectedHeader e w f).sz)
          = (((pre ++ encodeFrame e w f).length : Nat) : Int) := by
        have : (expectedHeader e w f).sz = f.sizes w := rfl
        rw [this, skipOffset_encode e w f hok]
        simp only [encodeFrame, List.length_append, length_encodeHeader e w f hok, Int.natCast_add]
        omega
      rw [hpos]
      have h1 : ¬ ((((pre ++ encodeFrame e w f).length : Nat) : Int) < 0) := by omega
      have h2 : ¬ (idx + 1 > idx + ((k' + 1 : Nat) : Int)) := by omega
      simp only [h1, h2, if_false, Int.toNat_natCast]
      have := ih (pre ++ encodeFrame e w f) (idx + 1) k' fuel' (fun y hy => hall y (List.mem_cons_of_mem _ hy)) (by omega)
      have e1 : (pre ++ encodeFrame e w f) ++ encodeFrames rest
          = pre ++ (encodeHeader e w f ++ (encodeData e f ++ encodeFrames rest)) := by
        simp [encodeFrame]
      have e2 : idx + 1 + (k' : Int) = idx + ((k' + 1 : Nat) : Int) := by omega
      rw [e1, e2] at this
      rw [this]
      simp

/-- **`trr_frame_k`**: in a file of `m` size-consistent frames (each in its own byte order and precision),
    `read_trr_frame(file, k)` returns exactly frame `k` for `k < m` and `(None, None)` for `k ≥ m`. -/
theorem trr_frame_k (frames : List (Endian × Nat × LFrame)) (hall : ∀ x ∈ frames, LOK x.2.1 x.2.2) (k : Nat) :
    (∀ hk : k < frames.length, readTrrFrame (encodeFrames frames) (k : Int)
        = .ok (some (expectedHeader frames[k].1 frames[k].2.1 frames[k].2.2, expectedData frames[k].2.2)))
    ∧ (frames.length ≤ k → readTrrFrame (encodeFrames frames) (k : Int) = .ok none) := by
  have := frameLoop_frames frames [] 0 k (k + 1) hall (by omega)
  simp only [List.nil_append, List.length_nil, Int.zero_add] at this
  have hrt : readTrrFrame (encodeFrames frames) (k : Int) = frameLoop (encodeFrames frames) (k : Int) (k + 1) 0 0 := by
    simp [readTrrFrame]
  rw [hrt, this]
  constructor
  · intro hk; simp [List.getElem?_eq_getElem hk]
  · intro hk; simp [List.getElem?_eq_none hk]

example : readTrrFrame (encodeFrames [(.big, 4, exF), (.little, 4, exF), (.big, 4, exF)]) 1
    = .ok (some (expectedHeader .little 4 exF, expectedData exF)) :=
  (trr_frame_k [(.big, 4, exF), (.little, 4, exF), (.big, 4, exF)]
    (by intro x hx; simp at hx; rcases hx with rfl | rfl | rfl <;> exact exF_ok) 1).1 (by decide)

end Infretis.Trr
