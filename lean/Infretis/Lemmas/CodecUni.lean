import Infretis.Model.CodecUni
import Infretis.Lemmas.CodecFixed
/-!
C19 — the readers with Python's complete white-space set (`Model/CodecUni.lean`) against the ASCII readers of
`Model/Codec.lean`: on texts without non-ASCII white space (`Plain`) they coincide, the writers' images are such texts
when the kept strings (atom names, g96 title lines and labels) are, and so the round-trip theorems of
`Lemmas/CodecFixed.lean` hold for the complete readers under that exact extra guard.
-/
namespace Infretis.CodecUni
open Infretis.Codec

/-- no non-ASCII white space (none of the 19 code points of `str.isspace` beyond ASCII) -/
def Plain (l : List Char) : Prop := ∀ c ∈ l, exotic c = false

theorem Plain_nil : Plain [] := by intro c hc; simp at hc

theorem Plain_append {a b : List Char} (ha : Plain a) (hb : Plain b) : Plain (a ++ b) := by
  intro c hc
  rcases List.mem_append.1 hc with h | h
  · exact ha c h
  · exact hb c h

theorem Plain_cons {a : Char} {b : List Char} (ha : exotic a = false) (hb : Plain b) : Plain (a :: b) := by
  intro c hc
  rcases List.mem_cons.1 hc with h | h
  · subst h; exact ha
  · exact hb c h

theorem Plain_of_mem {l : List Char} (L : List Char) (hL : ∀ c ∈ L, exotic c = false) (h : ∀ c ∈ l, c ∈ L) :
    Plain l := fun c hc => hL c (h c hc)

theorem Plain_sub {l m : List Char} (hm : Plain m) (h : ∀ c ∈ l, c ∈ m) : Plain l := fun c hc => hm c (h c hc)

theorem hdrChars_plain : ∀ c ∈ hdrChars, exotic c = false := by decide

theorem Plain_blanks (k : Nat) : Plain (List.replicate k ' ') := by
  intro c hc
  have := List.eq_of_mem_replicate hc
  subst this; decide

theorem Plain_fmtFixed (w p : Nat) (d : Dec) : Plain (fmtFixed w p d) :=
  Plain_of_mem hdrChars hdrChars_plain (fmtFixed_hdr w p d)

theorem Plain_natDigits (n : Nat) : Plain (natDigits n) :=
  Plain_of_mem digs (by decide) (natDigits_mem n)

theorem normT_plain {l : List Char} (h : Plain l) : normT l = l := by
  unfold normT
  conv => rhs; rw [← List.map_id l]
  apply List.map_congr_left
  intro c hc
  simp [norm, h c hc]

theorem isWs_pySpace {c : Char} (h : isWs c = true) : pySpace c = true := by
  simp only [isWs, Bool.or_eq_true, decide_eq_true_eq] at h
  rcases h with ((((((((h | h) | h) | h) | h) | h) | h) | h) | h) | h <;> subst h <;> decide

theorem pySpace_eq_of_plain {c : Char} (h : exotic c = false) : pySpace c = isWs c := by
  by_cases hw : isWs c = true
  · rw [hw, isWs_pySpace hw]
  · have hw' : isWs c = false := by simpa using hw
    simp only [exotic, hw', Bool.not_false, Bool.and_true] at h
    rw [h, hw']

theorem dropWhile_plain : ∀ {l : List Char}, Plain l → l.dropWhile pySpace = l.dropWhile isWs
  | [], _ => rfl
  | c :: t, h => by
    have hc := pySpace_eq_of_plain (h c (by simp))
    have ht : Plain t := fun x hx => h x (by simp [hx])
    simp only [List.dropWhile_cons, hc, dropWhile_plain ht]

theorem Plain_reverse {l : List Char} (h : Plain l) : Plain l.reverse := fun c hc => h c (by simpa using hc)

theorem rstripU_plain {l : List Char} (h : Plain l) : rstripU l = rstrip l := by
  simp only [rstripU, rstrip, dropWhile_plain (Plain_reverse h)]

theorem Plain_rstrip {l : List Char} (h : Plain l) : Plain (rstrip l) := fun c hc => h c (mem_rstrip hc)

theorem stripU_plain {l : List Char} (h : Plain l) : stripU l = strip l := by
  simp only [stripU, strip, lstripU, lstrip, rstripU_plain h, dropWhile_plain (Plain_rstrip h)]

/-! ### .g96 -/

theorem g96CollectU_plain : ∀ (ls : List Line) (sec : Option Sec), (∀ l ∈ ls, Plain l) →
    g96CollectU sec ls = g96Collect sec ls
  | [], _, _ => by simp [g96CollectU, g96Collect]
  | l :: rest, sec, h => by
    have hl : Plain l := h l (by simp)
    have hr : ∀ x ∈ rest, Plain x := fun x hx => h x (by simp [hx])
    simp only [g96CollectU, g96Collect, stripU_plain hl, rstripU_plain hl, g96CollectU_plain rest _ hr]
    rfl

/-- every line kept in the six sections -/
def RawPlain (r : G96Raw) : Prop :=
  (∀ l ∈ r.title, Plain l) ∧ (∀ l ∈ r.pos, Plain l) ∧ (∀ l ∈ r.vel, Plain l) ∧ (∀ l ∈ r.box, Plain l) ∧
  (∀ l ∈ r.posred, Plain l) ∧ (∀ l ∈ r.velred, Plain l)

theorem RawPlain_push {r : G96Raw} (s : Sec) {l : Line} (hr : RawPlain r) (hl : Plain l) : RawPlain (r.push s l) := by
  obtain ⟨a, b, c, d, e, f⟩ := hr
  cases s <;> simp only [G96Raw.push, RawPlain] <;>
    refine ⟨?_, ?_, ?_, ?_, ?_, ?_⟩ <;> first | assumption | (intro x hx; rcases List.mem_cons.1 hx with h | h
                                                              · subst h; exact hl
                                                              · first | exact a x h | exact b x h | exact c x h | exact d x h | exact e x h | exact f x h)

theorem g96Collect_plain : ∀ (ls : List Line) (sec : Option Sec) (raw : G96Raw), (∀ l ∈ ls, Plain l) →
    g96Collect sec ls = .ok raw → RawPlain raw
  | [], _, raw, _, h => by
    simp only [g96Collect, Except.ok.injEq] at h
    subst h
    simp [RawPlain, G96Raw.empty]
  | l :: rest, sec, raw, hp, h => by
    have hr : ∀ x ∈ rest, Plain x := fun x hx => hp x (by simp [hx])
    simp only [g96Collect] at h
    split at h
    · exact g96Collect_plain rest sec raw hr h
    · split at h
      · exact g96Collect_plain rest _ raw hr h
      · split at h
        · cases h
        · split at h
          · rename_i r hrr
            simp only [Except.ok.injEq] at h
            subst h
            exact RawPlain_push _ (g96Collect_plain rest _ r hr hrr) (Plain_rstrip (hp l (by simp)))
          · cases h

theorem map_normT_plain {ls : List Line} (h : ∀ l ∈ ls, Plain l) : ls.map normT = ls.map id := by
  apply List.map_congr_left
  intro l hl
  simp [normT_plain (h l hl)]

theorem g96Finish_plain {raw : G96Raw} (h : RawPlain raw) : g96Finish normT raw = g96Finish id raw := by
  obtain ⟨_, b, c, d, e, f⟩ := h
  unfold g96Finish
  rw [map_normT_plain b, map_normT_plain c, map_normT_plain e, map_normT_plain f]
  cases hb : raw.box with
  | nil => rfl
  | cons x xs =>
    have : normT x = id x := by simp [normT_plain (d x (by simp [hb]))]
    simp only [this]

theorem readG96Lines_finish (ls : List Line) :
    readG96Lines ls = match g96Collect none ls with
      | .error e => .error e
      | .ok raw => g96Finish id raw := by
  unfold readG96Lines
  cases g96Collect none ls with
  | error e => rfl
  | ok raw => simp only [g96Finish, List.map_id, id]; rfl

/-- on lines without non-ASCII white space the complete reader IS the ASCII reader -/
theorem readG96LinesU_plain (ls : List Line) (h : ∀ l ∈ ls, Plain l) : readG96LinesU ls = readG96Lines ls := by
  rw [readG96Lines_finish, readG96LinesU, g96CollectU_plain ls none h]
  cases hc : g96Collect none ls with
  | error e => rfl
  | ok raw => exact g96Finish_plain (g96Collect_plain ls none raw h hc)

theorem fmtCat_hdr : ∀ (ds : List Dec), ∀ c ∈ fmtCat 15 9 ds, c ∈ hdrChars
  | [], c, hc => by simp [fmtCat] at hc
  | d :: ds, c, hc => by
    simp only [fmtCat, List.mem_append] at hc
    rcases hc with h | h
    · exact fmtFixed_hdr 15 9 d c h
    · exact fmtCat_hdr ds c h

/-- the extra guard of the complete reader: the strings the file keeps verbatim hold no non-ASCII white space -/
structure G96Plain (raw : G96Raw) : Prop where
  title : ∀ t ∈ raw.title, Plain t
  pos : ∀ t ∈ raw.pos, Plain t
  vel : ∀ t ∈ raw.vel, Plain t

theorem Plain_g96Lines (raw : G96Raw) (xyz vel : List V3) (box : List Dec) (hp : G96Plain raw) :
    ∀ l ∈ g96Lines raw xyz vel box, Plain l := by
  have hrow : ∀ (ts : List Line) (vs : List V3), (∀ t ∈ ts, Plain t) → ∀ l ∈ rowLs ts vs, Plain l := by
    intro ts
    induction ts with
    | nil => intro vs _ l hl; simp [rowLs] at hl
    | cons t ts ih =>
      intro vs ht l hl
      cases vs with
      | nil => simp [rowLs] at hl
      | cons v vs =>
        simp only [rowLs, List.mem_cons] at hl
        rcases hl with e | hl
        · subst e
          exact Plain_append (Plain_append (Plain_append (ht t (by simp)) (Plain_fmtFixed _ _ _))
            (Plain_fmtFixed _ _ _)) (Plain_fmtFixed _ _ _)
        · exact ih vs (fun x hx => ht x (by simp [hx])) l hl
  have hkw : ∀ k ∈ [kwTITLE, kwEND, kwPOSITION, kwVELOCITY, kwBOX], Plain k := by
    intro k hk c hc; revert c; revert k; decide
  intro l hl
  simp only [g96Lines, List.mem_append, List.mem_cons, List.not_mem_nil, or_false] at hl
  rcases hl with (((((((e | hl) | e | e) | hl) | e | e) | hl) | e | e) | e) | e
  · subst e; exact hkw _ (by simp)
  · exact hp.title l hl
  · subst e; exact hkw _ (by simp)
  · subst e; exact hkw _ (by simp)
  · exact hrow _ _ hp.pos l hl
  · subst e; exact hkw _ (by simp)
  · subst e; exact hkw _ (by simp)
  · exact hrow _ _ hp.vel l hl
  · subst e; exact hkw _ (by simp)
  · subst e; exact hkw _ (by simp)
  · subst e; exact Plain_of_mem hdrChars hdrChars_plain (fmtCat_hdr box)
  · subst e; exact hkw _ (by simp)

/-- **read_write_roundtrip (.g96), complete white space.**  Under `G96Ok` and `G96Plain` the file written by
    `write_gromos96_file` is read by the reader with Python's complete `strip`/`split`/`float` as the same positions,
    velocities, box, title and labels. -/
theorem g96_read_write_roundtrip_uni (raw : G96Raw) (xyz vel : List V3) (box : List Dec)
    (h : G96Ok raw xyz vel box) (hp : G96Plain raw) :
    ∃ t, writeG96 raw xyz (some vel) (some box) = .ok t ∧
      readG96U t = .ok ⟨rawAfter raw box, xyz, vel, some box⟩ := by
  refine ⟨unlines (g96Lines raw xyz vel box), by simp [writeG96, writeG96Lines_eq raw xyz vel box h], ?_⟩
  rw [readG96U, pyLines_unlines _ (NoBrk_g96Lines raw xyz vel box h),
      readG96LinesU_plain _ (Plain_g96Lines raw xyz vel box hp)]
  exact readG96Lines_g96Lines raw xyz vel box h

theorem G96Plain_rawAfter {raw : G96Raw} (box : List Dec) (hp : G96Plain raw) : G96Plain (rawAfter raw box) :=
  ⟨hp.title, hp.pos, hp.vel⟩

/-! ### extended xyz -/

theorem Plain_unlines : ∀ (ls : List Line), (∀ l ∈ ls, Plain l) → Plain (unlines ls)
  | [], _ => by simp [unlines, Plain_nil]
  | l :: t, h => by
    simp only [unlines]
    exact Plain_append (h l (by simp)) (Plain_cons (by decide) (Plain_unlines t (fun x hx => h x (by simp [hx]))))

theorem Plain_header (box : Option (List Dec)) : Plain (xyzHeader box none) := by
  cases box with
  | none => rw [xyzHeader_none]; intro c hc; revert c; decide
  | some b =>
    rw [xyzHeader_some]
    refine Plain_append (by intro c hc; revert c; decide) (Plain_cons (by decide) (Plain_append ?_ ?_))
    · exact Plain_of_mem hdrChars hdrChars_plain (joinSp_hdr 9 4 b)
    · intro c hc; revert c; decide

theorem Plain_atomLine (nm : Line) (p v : V3) (hw : Plain nm) : Plain (xyzAtomLine nm p v) := by
  simp only [xyzAtomLine, padName, List.append_assoc, List.cons_append]
  have hb : exotic ' ' = false := by decide
  refine Plain_append hw (Plain_append (Plain_blanks _) ?_)
  refine Plain_cons hb (Plain_append (Plain_fmtFixed _ _ _) ?_)
  refine Plain_cons hb (Plain_append (Plain_fmtFixed _ _ _) ?_)
  refine Plain_cons hb (Plain_append (Plain_fmtFixed _ _ _) ?_)
  refine Plain_cons hb (Plain_append (Plain_fmtFixed _ _ _) ?_)
  refine Plain_cons hb (Plain_append (Plain_fmtFixed _ _ _) ?_)
  exact Plain_cons hb (Plain_fmtFixed _ _ _)

theorem Plain_atomLs (ns : List Line) (ps vs : List V3) (hn : ∀ nm ∈ ns, Plain nm) :
    ∀ l ∈ atomLs ns ps vs, Plain l := by
  induction ns generalizing ps vs with
  | nil => intro l hl; simp [atomLs] at hl
  | cons nm ns ih =>
    cases ps with
    | nil => intro l hl; simp [atomLs] at hl
    | cons p ps =>
      cases vs with
      | nil => intro l hl; simp [atomLs] at hl
      | cons v vs =>
        intro l hl
        simp only [atomLs, List.mem_cons] at hl
        rcases hl with e | hl
        · subst e; exact Plain_atomLine nm p v (hn nm (by simp))
        · exact ih ps vs (fun x hx => hn x (by simp [hx])) l hl

theorem Plain_frameLines (c : Conf) (hn : ∀ nm ∈ c.names, Plain nm) : ∀ l ∈ frameLines c, Plain l := by
  intro l hl
  simp only [frameLines, List.mem_cons] at hl
  rcases hl with e | e | hl
  · subst e; exact Plain_natDigits _
  · subst e; exact Plain_header _
  · exact Plain_atomLs _ _ _ hn l hl

theorem Plain_trajText (cs : List Conf) (hn : ∀ c ∈ cs, ∀ nm ∈ c.names, Plain nm) : Plain (trajText cs) := by
  apply Plain_unlines
  intro l hl
  obtain ⟨c, hc, hlc⟩ := List.mem_flatMap.1 hl
  exact Plain_frameLines c (hn c hc) l hlc

/-- the text a successful `write_xyz_trajectory` of an `XyzOk` configuration leaves -/
theorem writeConf_text (c : Conf) (h : XyzOk c) (t : Text) (hw : writeConf c = .ok t) : t = unlines (frameLines c) := by
  rw [writeConf_eq c h] at hw
  exact (Except.ok.inj hw).symm

/-- **read_write_roundtrip (xyz), complete white space** -/
theorem xyz_read_write_roundtrip_uni (c : Conf) (h : XyzOk c) (hn : ∀ nm ∈ c.names, Plain nm) (t : Text)
    (hw : writeXyz (some c.names) c.pos c.vel c.box none = .ok t) :
    readXyzFramesU t = ([snapOf c], none) ∧ readConfigurationU t = .ok c := by
  have ht : t = unlines (frameLines c) := writeConf_text c h t hw
  have hp : normT t = t := normT_plain (by rw [ht]; exact Plain_unlines _ (Plain_frameLines c hn))
  obtain ⟨a, _, b⟩ := xyz_read_write_roundtrip c h t hw
  exact ⟨by rw [readXyzFramesU, hp]; exact a, by rw [readConfigurationU, hp]; exact b⟩

theorem writeTraj_text (cs : List Conf) (h : ∀ c ∈ cs, XyzOk c) (t : Text) (ht : writeTraj cs = .ok t) :
    t = trajText cs := by
  rw [writeTraj_eq cs h] at ht
  exact (Except.ok.inj ht).symm

/-- **extract_frame_k (xyz), complete white space** -/
theorem extract_frame_k_uni (cs : List Conf) (h : ∀ c ∈ cs, XyzOk c) (hn : ∀ c ∈ cs, ∀ nm ∈ c.names, Plain nm)
    (t : Text) (ht : writeTraj cs = .ok t) (k : Nat) :
    (∀ hk : k < cs.length, ∃ o, writeConf cs[k] = .ok o ∧ extractFrameU k t = .ok (some o)) ∧
    (cs.length ≤ k → extractFrameU k t = .ok none) := by
  have hp : normT t = t := normT_plain (by rw [writeTraj_text cs h t ht]; exact Plain_trajText cs hn)
  simp only [extractFrameU, hp]
  exact ⟨fun hk => extract_frame_k cs h t ht k hk, fun hk => extract_frame_beyond cs h t ht k hk⟩

/-- **reverse_only_negates_vel (xyz), complete white space** -/
theorem xyz_reverse_only_negates_vel_uni (c : Conf) (h : XyzOk c) (hn : ∀ nm ∈ c.names, Plain nm) (t : Text)
    (hw : writeConf c = .ok t) :
    (∃ t', reverseXyzU t = .ok t' ∧ writeConf (revConf c) = .ok t' ∧ readConfigurationU t' = .ok (revConf c)) ∧
    (∃ t', reverseXyzU t = .ok t' ∧ reverseXyzU t' = .ok t) := by
  have hp : normT t = t := normT_plain (by rw [writeConf_text c h t hw]; exact Plain_unlines _ (Plain_frameLines c hn))
  obtain ⟨t', a, b, d⟩ := xyz_reverse_only_negates_vel c h t hw
  have hrev : ∀ nm ∈ (revConf c).names, Plain nm := hn
  have hp' : normT t' = t' :=
    normT_plain (by rw [writeConf_text (revConf c) (revConf_ok c h) t' b]; exact Plain_unlines _ (Plain_frameLines _ hrev))
  obtain ⟨t'', a2, b2⟩ := xyz_reverse_twice c h t hw
  have e : t'' = t' := by rw [a] at a2; exact (Except.ok.inj a2).symm
  subst e
  exact ⟨⟨t'', by rw [reverseXyzU, hp]; exact a, b, by rw [readConfigurationU, hp']; exact d⟩,
         ⟨t'', by rw [reverseXyzU, hp]; exact a, by rw [reverseXyzU, hp']; exact b2⟩⟩

/-- on the writer's image the complete reader is the ASCII reader (text level) -/
theorem readG96U_g96Lines (raw : G96Raw) (xyz vel : List V3) (box : List Dec) (h : G96Ok raw xyz vel box)
    (hp : G96Plain raw) :
    readG96U (unlines (g96Lines raw xyz vel box)) = readG96 (unlines (g96Lines raw xyz vel box)) := by
  rw [readG96U, readG96, pyLines_unlines _ (NoBrk_g96Lines raw xyz vel box h),
      readG96LinesU_plain _ (Plain_g96Lines raw xyz vel box hp)]

theorem reverseG96U_g96Lines (raw : G96Raw) (xyz vel : List V3) (box : List Dec) (h : G96Ok raw xyz vel box)
    (hp : G96Plain raw) :
    reverseG96U (unlines (g96Lines raw xyz vel box)) = reverseG96 (unlines (g96Lines raw xyz vel box)) := by
  unfold reverseG96U reverseG96
  rw [readG96U_g96Lines raw xyz vel box h hp]
  rfl

/-- **reverse_only_negates_vel (.g96), complete white space** -/
theorem g96_reverse_only_negates_vel_uni (raw : G96Raw) (xyz vel : List V3) (box : List Dec)
    (h : G96Ok raw xyz vel box) (hp : G96Plain raw) (hn : ∀ v ∈ vel, Fit3 v.negate) (t : Text)
    (hw : writeG96 raw xyz (some vel) (some box) = .ok t) :
    ∃ t', reverseG96U t = .ok t' ∧
      readG96U t' = .ok ⟨rawAfter raw box, xyz, vel.map V3.negate, some box⟩ ∧
      reverseG96U t' = .ok t := by
  have ht : t = unlines (g96Lines raw xyz vel box) := by
    simp [writeG96, writeG96Lines_eq raw xyz vel box h] at hw; exact hw.symm
  have h' := G96Ok_negate h hn
  subst ht
  refine ⟨unlines (g96Lines raw xyz (vel.map V3.negate) box), ?_, ?_, ?_⟩
  · rw [reverseG96U_g96Lines raw xyz vel box h hp]; exact reverseG96_eq raw xyz vel box h
  · rw [readG96U_g96Lines _ _ _ _ h' hp, readG96, pyLines_unlines _ (NoBrk_g96Lines _ _ _ _ h')]
    exact readG96Lines_g96Lines _ _ _ _ h'
  · rw [reverseG96U_g96Lines _ _ _ _ h' hp, reverseG96_eq _ _ _ _ h', map_negate_negate]

end Infretis.CodecUni
