import Infretis.Model.Config
/-!
Helper lemmas for C18 (`Infretis/Props/C18.lean`): the sequencing combinators, the Python
built-ins `sorted` / `set` on lists, the unique-engine loop and the gromacs loops.
-/
namespace Infretis.Config

/-! ### seq / rejectIf -/

theorem seq_ok_iff (a b : Except Err Unit) : seq a b = .ok () ↔ a = .ok () ∧ b = .ok () := by
  cases a with
  | error e => simp [seq]
  | ok u => cases u; simp [seq]

theorem seq_error_iff (a b : Except Err Unit) (e : Err) :
    seq a b = .error e ↔ a = .error e ∨ (a = .ok () ∧ b = .error e) := by
  cases a with
  | error e' => simp [seq]
  | ok u => cases u; simp [seq]

theorem rejectIf_ok_iff (b : Bool) : rejectIf b = .ok () ↔ b = false := by
  cases b <;> simp [rejectIf]

theorem rejectIf_error (b : Bool) (e : Err) : rejectIf b = .error e → e = .config := by
  cases b <;> simp [rejectIf]
  intro h; exact h.symm

/-! ### sorted(intf) == intf -/

theorem insertSorted_mem (a x : Int) : ∀ l, x ∈ insertSorted a l ↔ x = a ∨ x ∈ l := by
  intro l
  induction l with
  | nil => simp [insertSorted]
  | cons b t ih =>
    simp only [insertSorted]
    split
    · simp
    · simp only [List.mem_cons, ih]
      constructor
      · rintro (h | h | h)
        · exact Or.inr (Or.inl h)
        · exact Or.inl h
        · exact Or.inr (Or.inr h)
      · rintro (h | h | h)
        · exact Or.inr (Or.inl h)
        · exact Or.inl h
        · exact Or.inr (Or.inr h)

theorem insertSorted_pairwise (a : Int) : ∀ l, l.Pairwise (· ≤ ·) → (insertSorted a l).Pairwise (· ≤ ·) := by
  intro l
  induction l with
  | nil => intro _; simp [insertSorted]
  | cons b t ih =>
    intro h
    simp only [insertSorted]
    rw [List.pairwise_cons] at h
    split
    · rename_i hab
      rw [List.pairwise_cons]
      refine ⟨?_, List.pairwise_cons.2 h⟩
      intro x hx
      rcases List.mem_cons.1 hx with rfl | hx
      · exact hab
      · exact Int.le_trans hab (h.1 x hx)
    · rename_i hab
      rw [List.pairwise_cons]
      refine ⟨?_, ih h.2⟩
      intro x hx
      rcases (insertSorted_mem a x t).1 hx with rfl | hx
      · omega
      · exact h.1 x hx

theorem isort_pairwise : ∀ l, (isort l).Pairwise (· ≤ ·) := by
  intro l
  induction l with
  | nil => simp [isort]
  | cons a t ih => exact insertSorted_pairwise a _ ih

theorem isort_of_pairwise : ∀ l : List Int, l.Pairwise (· ≤ ·) → isort l = l := by
  intro l
  induction l with
  | nil => intro _; rfl
  | cons a t ih =>
    intro h
    rw [List.pairwise_cons] at h
    simp only [isort, ih h.2]
    cases t with
    | nil => rfl
    | cons b t' =>
      simp only [insertSorted]
      rw [if_pos (h.1 b (by simp))]

/-- `sorted(intf) != intf` is false exactly for non-decreasing lists -/
theorem isort_eq_self_iff (l : List Int) : isort l = l ↔ l.Pairwise (· ≤ ·) :=
  ⟨fun h => h ▸ isort_pairwise l, isort_of_pairwise l⟩

/-! ### len(set(intf)) == len(intf) -/

theorem distinct_length_le : ∀ l : List Int, (distinct l).length ≤ l.length := by
  intro l
  induction l with
  | nil => simp [distinct]
  | cons a t ih =>
    simp only [distinct]
    split <;> simp <;> omega

theorem distinct_length_eq_iff : ∀ l : List Int, (distinct l).length = l.length ↔ l.Nodup := by
  intro l
  induction l with
  | nil => simp [distinct]
  | cons a t ih =>
    simp only [distinct, List.nodup_cons]
    split
    · rename_i h
      have := distinct_length_le t
      simp only [List.length_cons]
      constructor
      · intro he; omega
      · intro hn; exact absurd h hn.1
    · rename_i h
      simp only [List.length_cons, Nat.add_right_cancel_iff, ih]
      exact ⟨fun hn => ⟨h, hn⟩, fun hn => hn.2⟩

/-- strictly increasing = non-decreasing and without duplicates -/
theorem pairwise_lt_iff : ∀ l : List Int,
    l.Pairwise (· < ·) ↔ l.Pairwise (· ≤ ·) ∧ l.Nodup := by
  intro l
  induction l with
  | nil => simp
  | cons a t ih =>
    simp only [List.pairwise_cons, List.nodup_cons, ih]
    constructor
    · rintro ⟨h1, h2, h3⟩
      refine ⟨⟨fun x hx => Int.le_of_lt (h1 x hx), h2⟩, ?_, h3⟩
      intro ha
      have := h1 a ha
      omega
    · rintro ⟨⟨h1, h2⟩, h3, h4⟩
      refine ⟨?_, h2, h4⟩
      intro x hx
      have := h1 x hx
      have hne : x ≠ a := fun h => h3 (h ▸ hx)
      omega

/-! ### strictly increasing lists: head, last, entries -/

theorem pairwise_lt_getElem {l : List Int} (h : l.Pairwise (· < ·)) {i j : Nat} {a b : Int}
    (hij : i < j) (ha : l[i]? = some a) (hb : l[j]? = some b) : a < b := by
  rw [List.pairwise_iff_getElem] at h
  obtain ⟨hi, rfl⟩ := List.getElem?_eq_some_iff.1 ha
  obtain ⟨hj, rfl⟩ := List.getElem?_eq_some_iff.1 hb
  exact h i j hi hj hij

theorem getLast?_eq_getElem? (l : List Int) : l.getLast? = l[l.length - 1]? := by
  rw [List.getLast?_eq_getElem?]

theorem head?_eq_getElem? (l : List Int) : l.head? = l[0]? := by
  cases l <;> simp

/-! ### the unique-engine loop -/

theorem uniqueGo_mem (e : String) : ∀ (l acc : List String),
    e ∈ uniqueGo acc l ↔ e ∈ acc ∨ e ∈ l := by
  intro l
  induction l with
  | nil => intro acc; simp [uniqueGo]
  | cons x t ih =>
    intro acc
    simp only [uniqueGo]
    split
    · rename_i hx
      rw [ih]
      simp only [List.mem_cons]
      constructor
      · rintro (h | h)
        · exact Or.inl h
        · exact Or.inr (Or.inr h)
      · rintro (h | h | h)
        · exact Or.inl h
        · exact Or.inl (h ▸ hx)
        · exact Or.inr h
    · rw [ih]
      simp only [List.mem_append, List.mem_cons, List.not_mem_nil, or_false]
      constructor
      · rintro ((h | h) | h)
        · exact Or.inl h
        · exact Or.inr (Or.inl h)
        · exact Or.inr (Or.inr h)
      · rintro (h | h | h)
        · exact Or.inl (Or.inl h)
        · exact Or.inl (Or.inr h)
        · exact Or.inr h

theorem uniqueEngines_mem (e : String) (ee : List (List String)) :
    e ∈ uniqueEngines ee ↔ ∃ names ∈ ee, e ∈ names := by
  unfold uniqueEngines
  rw [uniqueGo_mem]
  simp [List.mem_flatten]

theorem lookup_mem {k : String} {e : Engine} : ∀ {tbl : List (String × Engine)},
    tbl.lookup k = some e → (k, e) ∈ tbl := by
  intro tbl
  induction tbl with
  | nil => simp [List.lookup]
  | cons p t ih =>
    obtain ⟨k', e'⟩ := p
    intro h
    simp only [List.lookup] at h
    split at h
    · rename_i heq
      have hk : k = k' := by simpa using heq
      simp only [Option.some.injEq] at h
      subst hk; subst h
      simp
    · exact List.mem_cons_of_mem _ (ih h)

theorem lookupAll_mem {tbl : List (String × Engine)} {names : List String} {e : Engine} :
    e ∈ lookupAll tbl names ↔ ∃ k ∈ names, tbl.lookup k = some e := by
  simp [lookupAll, List.mem_filterMap]

/-! ### the gromacs loops -/

/-- two tables differ as dicts once `input_path` is popped -/
def differ (e1 e2 : Engine) : Prop := e1.cls ≠ e2.cls ∨ e1.other ≠ e2.other

instance (e1 e2 : Engine) : Decidable (differ e1 e2) := by unfold differ; infer_instance

theorem gmxInner_ok_iff (e1 : Engine) (p1 : Nat) : ∀ l,
    gmxInner e1 p1 l = .ok () ↔ ∀ e2 ∈ l, ∃ p2, e2.inputPath = some p2 ∧ ¬ (differ e1 e2 ∧ p1 = p2) := by
  intro l
  induction l with
  | nil => simp [gmxInner]
  | cons e2 t ih =>
    simp only [gmxInner, List.forall_mem_cons]
    cases hp : e2.inputPath with
    | none => simp
    | some p2 =>
      simp only [Option.some.injEq, exists_eq_left']
      split
      · rename_i h
        simp only [reduceCtorEq, false_iff]
        intro hh
        exact hh.1 h
      · rename_i h
        rw [ih]
        exact ⟨fun ht => ⟨h, ht⟩, fun ht => ht.2⟩

theorem gmxInner_error (e1 : Engine) (p1 : Nat) (e : Err) : ∀ l,
    (∀ e2 ∈ l, e2.inputPath ≠ none) → gmxInner e1 p1 l = .error e → e = .config := by
  intro l
  induction l with
  | nil => simp [gmxInner]
  | cons e2 t ih =>
    intro hall
    simp only [gmxInner]
    have h2 := hall e2 (by simp)
    cases hp : e2.inputPath with
    | none => exact absurd hp h2
    | some p2 =>
      simp only
      split
      · intro h; cases h; rfl
      · exact ih (fun x hx => hall x (List.mem_cons_of_mem _ hx))

theorem gmxOuter_ok_iff (all : List Engine) : ∀ l,
    gmxOuter all l = .ok () ↔
      ∀ e1 ∈ l, e1.cls = 0 → ∃ p1, e1.inputPath = some p1 ∧ gmxInner e1 p1 all = .ok () := by
  intro l
  induction l with
  | nil => simp [gmxOuter]
  | cons e1 t ih =>
    simp only [gmxOuter, List.forall_mem_cons]
    split
    · rename_i hc
      cases hp : e1.inputPath with
      | none => simp [hc]
      | some p1 =>
        simp only [seq_ok_iff, ih, Option.some.injEq, exists_eq_left', hc, true_imp_iff]
    · rename_i hc
      rw [ih]
      exact ⟨fun ht => ⟨fun h => absurd h hc, ht⟩, fun ht => ht.2⟩

theorem gmxOuter_error (all : List Engine) (e : Err) : ∀ l,
    (∀ e2 ∈ all, e2.inputPath ≠ none) → (∀ e1 ∈ l, e1.inputPath ≠ none) →
    gmxOuter all l = .error e → e = .config := by
  intro l
  induction l with
  | nil => simp [gmxOuter]
  | cons e1 t ih =>
    intro hall hl
    simp only [gmxOuter]
    split
    · have h1 := hl e1 (by simp)
      cases hp : e1.inputPath with
      | none => exact absurd hp h1
      | some p1 =>
        simp only [seq_error_iff]
        rintro (h | ⟨_, h⟩)
        · exact gmxInner_error e1 p1 e all hall h
        · exact ih hall (fun x hx => hl x (List.mem_cons_of_mem _ hx)) h
    · exact ih hall (fun x hx => hl x (List.mem_cons_of_mem _ hx))

/-- without a gromacs engine the gromacs check does nothing -/
theorem gmxOuter_no_gromacs (all : List Engine) : ∀ l, (∀ e1 ∈ l, e1.cls ≠ 0) → gmxOuter all l = .ok () := by
  intro l h
  rw [gmxOuter_ok_iff]
  intro e1 h1 hc
  exact absurd hc (h e1 h1)

end Infretis.Config
