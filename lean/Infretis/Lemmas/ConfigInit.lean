import Infretis.Model.ConfigInit
import Infretis.Lemmas.Config
import Infretis.Props.C10
/-!
Helper definitions and lemmas for the initialisation part of C18 (`Infretis/Model/ConfigInit.lean`):
the weight vector the property demands for an initial path (`specEntry`, `specRowGo`, stated with
C10's scan-free `specWeight`), `calc_cv_vector` equals it (`cvVectorGo_eq_spec`), positivity of the
own weight (`specWeight_first_crossing_pos`) and the row-by-row reading of the `load_paths` loop.
-/
namespace Infretis.Config
open Infretis.WF

/-! ### the demanded weight vector -/

/-- the weight of a path (order values `ops`, maximum `pmax`, first and last value given) in the
    ensemble on interface `lam` whose right end is `r` (the cap, or the last interface):
    shooting: 1 iff the path reaches `lam`; wire fencing: the number of frames on valid
    sub-paths of `[lam, r)` (C10's `specWeight`), doubled unless the path starts and ends on the
    same side of `(i0, r)` -/
def specEntry (ops : List Int) (i0 r pmax first last : Int) (lam : Int) (wf : Bool) : Nat :=
  if wf then
    (if sidesDiffer (startPoint i0 r first) (endPoint i0 r last)
     then 2 * specWeight lam r ops else specWeight lam r ops)
  else if lam ≤ pmax then 1 else 0

/-- one entry per (interface, move) pair -/
def specRowGo (ops : List Int) (i0 r pmax first last : Int) : List Int → List Bool → List Nat
  | lam :: is, m :: ms => specEntry ops i0 r pmax first last lam m :: specRowGo ops i0 r pmax first last is ms
  | _, _ => []

theorem specRowGo_length (ops : List Int) (i0 r pmax first last : Int) :
    ∀ (intfs : List Int) (mv : List Bool), intfs.length ≤ mv.length →
      (specRowGo ops i0 r pmax first last intfs mv).length = intfs.length := by
  intro intfs
  induction intfs with
  | nil => intro mv _; cases mv <;> simp [specRowGo]
  | cons a t ih =>
    intro mv h
    cases mv with
    | nil => simp at h
    | cons m ms => simp [specRowGo, ih ms (by simpa using h)]

theorem specRowGo_getElem? (ops : List Int) (i0 r pmax first last : Int) :
    ∀ (intfs : List Int) (mv : List Bool) (k : Nat) (lam : Int) (m : Bool),
      intfs[k]? = some lam → mv[k]? = some m →
      (specRowGo ops i0 r pmax first last intfs mv)[k]? = some (specEntry ops i0 r pmax first last lam m) := by
  intro intfs
  induction intfs with
  | nil => intro mv k lam m h; simp at h
  | cons a t ih =>
    intro mv k lam m h hm
    cases mv with
    | nil => simp at hm
    | cons b ms =>
      cases k with
      | zero =>
        simp only [List.getElem?_cons_zero, Option.some.injEq] at h hm
        subst h; subst hm
        simp [specRowGo]
      | succ k =>
        simp only [List.getElem?_cons_succ] at h hm
        simp only [specRowGo, List.getElem?_cons_succ]
        exact ih ms k lam m h hm

/-- **`calc_cv_vector` computes the demanded entries.**  For a non-empty path, a right end `r`
    with `i0 ≤ r`, and every wire-fencing interface `≤ r`, the loop of `calc_cv_vector` raises
    nothing and returns exactly the demanded entries. -/
theorem cvVectorGo_eq_spec (ops : List Int) (i0 r pmax first last : Int) (h0r : i0 ≤ r)
    (hf : ops.head? = some first) (hl : ops.getLast? = some last) :
    ∀ (intfs : List Int) (mv : List Bool), intfs.length ≤ mv.length →
      (∀ (k : Nat) (lam : Int), intfs[k]? = some lam → mv[k]? = some true → lam ≤ r) →
      cvVectorGo ops i0 r pmax intfs mv = .ok (specRowGo ops i0 r pmax first last intfs mv) := by
  intro intfs
  induction intfs with
  | nil => intro mv _ _; cases mv <;> simp [cvVectorGo, specRowGo]
  | cons a t ih =>
    intro mv hlen hwf
    cases mv with
    | nil => simp at hlen
    | cons m ms =>
      have ih' := ih ms (by simpa using hlen)
        (fun k lam h1 h2 => hwf (k + 1) lam (by simpa using h1) (by simpa using h2))
      simp only [cvVectorGo, specRowGo, ih']
      cases m with
      | false => simp [specEntry]
      | true =>
        have har : a ≤ r := hwf 0 a (by simp) (by simp)
        rw [if_pos rfl, Infretis.C10.computeWeight_wf ops i0 a r first last h0r hf hl,
          Infretis.C10.scan_weight_eq_spec a r har]
        simp [specEntry]

/-! ### positivity of the own weight in a wire-fencing ensemble -/

theorem firstOutside_some_of_mem (l r : Int) : ∀ (t : List Int) (q : Int),
    q ∈ t → inside l r q = false → ∃ p, firstOutside l r t = some p ∧ inside l r p = false := by
  intro t
  induction t with
  | nil => intro q h; simp at h
  | cons x t ih =>
    intro q hq hout
    simp only [firstOutside]
    by_cases hx : inside l r x = true
    · rw [if_pos hx]
      rcases List.mem_cons.1 hq with rfl | hq
      · rw [hout] at hx; cases hx
      · exact ih q hq hout
    · rw [if_neg hx]
      exact ⟨x, rfl, by simpa using hx⟩

/-- **First crossing inside the fence ⇒ non-zero weight.**  If every frame before `x` is below
    `l` (there is at least one), `x` is the first frame at or above `l` and lies below `r`, and
    the path ends outside `[l, r)`, then at least one frame counts. -/
theorem specWeight_first_crossing_pos (l r : Int) (pre suf : List Int) (x last : Int)
    (hpre : pre ≠ []) (hbelow : ∀ y ∈ pre, y < l) (hx : l ≤ x ∧ x < r)
    (hlast : (pre ++ x :: suf).getLast? = some last) (hout : last < l ∨ r ≤ last) :
    0 < specWeight l r (pre ++ x :: suf) := by
  unfold specWeight
  rw [Infretis.C10.countFrom_pos_iff]
  refine ⟨pre, x, suf, rfl, ?_⟩
  simp only [List.append_nil, validAt, Bool.and_eq_true]
  refine ⟨(inside_iff l r x).2 hx, ?_⟩
  -- left context: the frame just before x is below l
  obtain ⟨p, hp, hpl⟩ : ∃ p, firstOutside l r pre.reverse = some p ∧ p < l := by
    obtain ⟨b, hb⟩ : ∃ b, pre.getLast? = some b := by
      cases h : pre.getLast? with
      | none => exact absurd (List.getLast?_eq_none_iff.1 h) hpre
      | some b => exact ⟨b, rfl⟩
    have hbm : b ∈ pre := List.mem_of_getLast? hb
    have hhead : pre.reverse.head? = some b := by rw [List.head?_reverse]; exact hb
    cases hr : pre.reverse with
    | nil => simp [hr] at hhead
    | cons y t =>
      simp only [hr, List.head?_cons, Option.some.injEq] at hhead
      subst hhead
      refine ⟨y, ?_, hbelow y hbm⟩
      simp only [firstOutside]
      rw [if_neg]
      have : inside l r y = false := (inside_false_iff l r y).2 (Or.inl (hbelow y hbm))
      simp [this]
  -- right context: the last frame is outside, so some outside frame follows x
  have hsuf : suf ≠ [] := by
    intro hs
    subst hs
    simp only [List.getLast?_append, List.getLast?_singleton, Option.some_or,
      Option.some.injEq] at hlast
    omega
  have hlastmem : last ∈ suf := by
    have : (pre ++ x :: suf).getLast? = suf.getLast? := by
      rw [show pre ++ x :: suf = (pre ++ [x]) ++ suf by simp]
      rw [List.getLast?_append]
      cases hs : suf.getLast? with
      | none => exact absurd (List.getLast?_eq_none_iff.1 hs) hsuf
      | some z => simp
    rw [this] at hlast
    exact List.mem_of_getLast? hlast
  obtain ⟨q, hq, _⟩ := firstOutside_some_of_mem l r suf last hlastmem
    ((inside_false_iff l r last).2 hout)
  rw [hp, hq]
  simp only [closes, Bool.not_eq_true', Bool.and_eq_false_iff, decide_eq_false_iff_not]
  left; omega

/-! ### the loop of load_paths, row by row -/

theorem loadPlus_ok (c : Cfg) (paths : List (List Int)) (f : Nat → List Nat) :
    ∀ (count start : Nat),
      (∀ k, k < count → loadPlusOne c (start + k) paths = .ok (f (start + k))) →
      loadPlus c paths start count = .ok ((List.range' start count).map f) := by
  intro count
  induction count with
  | zero => intro start _; simp [loadPlus]
  | succ n ih =>
    intro start h
    have h0 := h 0 (by omega)
    simp only [Nat.add_zero] at h0
    have hrest := ih (start + 1) (fun k hk => by
      have := h (k + 1) (by omega)
      rw [show start + 1 + k = start + (k + 1) by omega]
      exact this)
    simp only [loadPlus, h0, hrest, List.range'_succ, List.map_cons]

theorem loadPlus_error (c : Cfg) (paths : List (List Int)) (e : InitErr) :
    ∀ (count start j : Nat), j < count →
      (∀ k, k < j → ∃ row, loadPlusOne c (start + k) paths = .ok row) →
      loadPlusOne c (start + j) paths = .error e →
      loadPlus c paths start count = .error e := by
  intro count
  induction count with
  | zero => intro start j h; omega
  | succ n ih =>
    intro start j hj hbefore herr
    cases j with
    | zero =>
      simp only [Nat.add_zero] at herr
      simp [loadPlus, herr]
    | succ j =>
      obtain ⟨row, hrow⟩ := hbefore 0 (by omega)
      simp only [Nat.add_zero] at hrow
      have := ih (start + 1) j (by omega)
        (fun k hk => by
          obtain ⟨row', h'⟩ := hbefore (k + 1) (by omega)
          exact ⟨row', by rw [show start + 1 + k = start + (k + 1) by omega]; exact h'⟩)
        (by rw [show start + 1 + j = start + (j + 1) by omega]; exact herr)
      simp [loadPlus, hrow, this]

/-! ### maximum of a path; reading `mkEns` by index -/

theorem foldl_max_ge (t : List Int) : ∀ (a m : Int),
    m ≤ t.foldl (fun m x => if x > m then x else m) a ↔ (m ≤ a ∨ ∃ x ∈ t, m ≤ x) := by
  induction t with
  | nil => intro a m; simp
  | cons y t ih =>
    intro a m
    simp only [List.foldl_cons, ih, List.mem_cons, exists_eq_or_imp]
    by_cases hy : y > a
    · rw [if_pos hy]
      constructor
      · rintro (h | h)
        · exact Or.inr (Or.inl h)
        · exact Or.inr (Or.inr h)
      · rintro (h | h | h)
        · left; omega
        · left; exact h
        · right; exact h
    · rw [if_neg hy]
      constructor
      · rintro (h | h)
        · exact Or.inl h
        · exact Or.inr (Or.inr h)
      · rintro (h | h | h)
        · left; exact h
        · left; omega
        · right; exact h

theorem maxOf_ge_iff (ops : List Int) (mx m : Int) (h : maxOf ops = some mx) :
    m ≤ mx ↔ ∃ x ∈ ops, m ≤ x := by
  cases ops with
  | nil => simp [maxOf] at h
  | cons a t =>
    simp only [maxOf, Option.some.injEq] at h
    rw [← h, foldl_max_ge]
    simp


theorem mkEns_getElem? (b : Bool) : ∀ (ei : List (Option Rat × Rat × Rat)) (mv : List Bool) (i : Nat)
    (es : List Ens), mkEns b i ei mv = .ok es →
    ∀ (j : Nat) (a : Option Rat) (mid r : Rat) (m : Bool), ei[j]? = some (a, mid, r) → mv[j]? = some m →
      es[j]? = some { left := a, middle := mid, right := r, wf := m,
                      startL := (i + j != 0) || b, startR := (i + j == 0) } := by
  intro ei
  induction ei with
  | nil => intro mv i es _ j a mid r m h; simp at h
  | cons x t ih =>
    intro mv i es h j a mid r m hj hm
    obtain ⟨a0, b0, r0⟩ := x
    cases mv with
    | nil => simp at hm
    | cons m0 ms =>
      simp only [mkEns] at h
      split at h
      · cases h
      · rename_i es' hes
        simp only [Except.ok.injEq] at h
        subst h
        cases j with
        | zero =>
          simp only [List.getElem?_cons_zero, Option.some.injEq, Prod.mk.injEq] at hj hm
          obtain ⟨rfl, rfl, rfl⟩ := hj
          subst hm
          simp
        | succ j =>
          simp only [List.getElem?_cons_succ] at hj hm ⊢
          have := ih ms (i + 1) es' hes j a mid r m hj hm
          rw [this]
          rw [show i + 1 + j = i + (j + 1) by omega]


/-! ### create_engines: counting -/

theorem bump_lookup_self (e : String) : ∀ acc : List (String × Nat),
    ∃ n, 1 ≤ n ∧ (bump e acc).lookup e = some n := by
  intro acc
  induction acc with
  | nil => exact ⟨1, by omega, by simp [bump]⟩
  | cons x t ih =>
    obtain ⟨k, n⟩ := x
    simp only [bump]
    by_cases hk : k = e
    · subst hk
      simp only [if_true]
      exact ⟨n + 1, by omega, by simp [List.lookup]⟩
    · simp only [if_neg hk]
      obtain ⟨m, hm, hl⟩ := ih
      refine ⟨m, hm, ?_⟩
      have : (e == k) = false := by simpa using fun h => hk h.symm
      simp [List.lookup, this, hl]

theorem bump_lookup_other (e e' : String) (h : e' ≠ e) : ∀ acc : List (String × Nat),
    (bump e acc).lookup e' = acc.lookup e' := by
  intro acc
  induction acc with
  | nil =>
    have : (e' == e) = false := by simpa using h
    simp [bump, List.lookup, this]
  | cons x t ih =>
    obtain ⟨k, n⟩ := x
    simp only [bump]
    by_cases hk : k = e
    · subst hk
      have : (e' == k) = false := by simpa using h
      simp [List.lookup, this]
    · simp only [if_neg hk]
      by_cases hk' : e' = k
      · subst hk'; simp [List.lookup]
      · have : (e' == k) = false := by simpa using hk'
        simp [List.lookup, this, ih]

theorem foldl_bump_lookup : ∀ (l : List String) (acc : List (String × Nat)) (e : String),
    (e ∈ l ∨ ∃ n, 1 ≤ n ∧ acc.lookup e = some n) →
    ∃ n, 1 ≤ n ∧ (l.foldl (fun a x => bump x a) acc).lookup e = some n := by
  intro l
  induction l with
  | nil =>
    intro acc e h
    rcases h with h | h
    · simp at h
    · simpa using h
  | cons x t ih =>
    intro acc e h
    simp only [List.foldl_cons]
    apply ih
    by_cases hx : e = x
    · subst hx
      right; exact bump_lookup_self e acc
    · rcases h with h | ⟨n, hn, hl⟩
      · rcases List.mem_cons.1 h with h | h
        · exact absurd h hx
        · left; exact h
      · right; exact ⟨n, hn, by rw [bump_lookup_other x e hx]; exact hl⟩

theorem engineCount_lookup (ee : List (List String)) (names : List String) (e : String)
    (hn : names ∈ ee) (he : e ∈ names) : ∃ n, 1 ≤ n ∧ (engineCount ee).lookup e = some n := by
  unfold engineCount
  apply foldl_bump_lookup
  left
  exact List.mem_flatten.2 ⟨names, hn, he⟩

theorem bump_keys (e : String) : ∀ (acc : List (String × Nat)) (k : String) (n : Nat),
    (k, n) ∈ bump e acc → k = e ∨ ∃ m, (k, m) ∈ acc := by
  intro acc
  induction acc with
  | nil => intro k n h; simp [bump] at h; exact Or.inl h.1
  | cons x t ih =>
    intro k n h
    obtain ⟨k0, n0⟩ := x
    simp only [bump] at h
    by_cases hk : k0 = e
    · simp only [hk, if_true, List.mem_cons, Prod.mk.injEq] at h
      rcases h with ⟨h1, _⟩ | h
      · exact Or.inl h1
      · exact Or.inr ⟨n, by simp [h]⟩
    · simp only [if_neg hk, List.mem_cons, Prod.mk.injEq] at h
      rcases h with ⟨h1, h2⟩ | h
      · exact Or.inr ⟨n0, by simp [h1]⟩
      · rcases ih k n h with h | ⟨m, hm⟩
        · exact Or.inl h
        · exact Or.inr ⟨m, by simp [hm]⟩

theorem foldl_bump_keys : ∀ (l : List String) (acc : List (String × Nat)) (k : String) (n : Nat),
    (k, n) ∈ l.foldl (fun a x => bump x a) acc → k ∈ l ∨ ∃ m, (k, m) ∈ acc := by
  intro l
  induction l with
  | nil => intro acc k n h; exact Or.inr ⟨n, h⟩
  | cons x t ih =>
    intro acc k n h
    simp only [List.foldl_cons] at h
    rcases ih (bump x acc) k n h with h | ⟨m, hm⟩
    · exact Or.inl (List.mem_cons_of_mem _ h)
    · rcases bump_keys x acc k m hm with h | h
      · exact Or.inl (by simp [h])
      · exact Or.inr h

theorem engineCount_keys (ee : List (List String)) (k : String) (n : Nat) (h : (k, n) ∈ engineCount ee) :
    ∃ names ∈ ee, k ∈ names := by
  unfold engineCount at h
  rcases foldl_bump_keys _ _ k n h with h | ⟨m, hm⟩
  · exact List.mem_flatten.1 h
  · simp at hm

theorem occGo_ok (c : Cfg) : ∀ (l : List (String × Nat)),
    (∀ k n, (k, n) ∈ l → (c.engines.lookup k).isSome = true) →
    occGo c l = .ok (l.map (fun kn => (kn.1, (min (kn.2 : Int) c.workers).toNat))) := by
  intro l
  induction l with
  | nil => intro _; rfl
  | cons x t ih =>
    intro h
    obtain ⟨e, n⟩ := x
    have hd := h e n (by simp)
    have hnone : (c.engines.lookup e).isNone = false := by
      cases hl : c.engines.lookup e <;> simp_all
    simp only [occGo, hnone, Bool.and_false, Bool.false_eq_true, if_false,
      ih (fun k n hk => h k n (List.mem_cons_of_mem _ hk)), List.map_cons]

theorem lookup_map_snd (f : Nat → Nat) (e : String) : ∀ (l : List (String × Nat)),
    (l.map (fun kn => (kn.1, f kn.2))).lookup e = (l.lookup e).map f := by
  intro l
  induction l with
  | nil => rfl
  | cons x t ih =>
    obtain ⟨k, n⟩ := x
    simp only [List.map_cons, List.lookup]
    cases hk : e == k <;> simp [ih]


end Infretis.Config
