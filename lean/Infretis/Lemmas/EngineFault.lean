import Infretis.Model.EngineFault
import Infretis.Lemmas.EngineLoopsExt
/-!
Lemmas for `Model/EngineFault.lean` (C12): without a fault the guarded/unguarded loop IS `extRun`; the guarded loop
stops the program on every way out; the unguarded loop stops it on every way out that is not the body's exception.
-/
namespace Infretis.EngineFault
open Infretis.Engine Infretis.EngineLoops

def liftBatch : BatchRes → FBatch
  | .done s => .done s
  | .stopped s => .stopped s
  | .err e s => .err e s

theorem batchF_none (k : Kind) (c : Cfg) (sched : Sched) :
    ∀ (n : Nat) (s : XState), batchF k c sched none n s = liftBatch (batch k c sched n s) := by
  intro n
  induction n with
  | zero => intro s; simp [batchF, batch, liftBatch]
  | succ n ih =>
    intro s
    cases k with
    | lammps v =>
      simp only [batchF, batch]
      cases hp : s.pos with
      | nil => simp [liftBatch]
      | cons f rest =>
        simp only
        cases hb : popBox v s.boxes with
        | none => simp [liftBatch]
        | some bb =>
          obtain ⟨b, boxes'⟩ := bb
          simp only [reduceCtorEq, if_false]
          cases hr : record c s.es s.stepNr f.cid b f.vel with
          | none => simp [liftBatch]
          | some er =>
            obtain ⟨es', r⟩ := er
            simp only
            generalize afterAdd sched _ es' r = aa
            obtain ⟨s', stop⟩ := aa
            cases stop <;> simp [liftBatch, ih]
    | cp2k b0 =>
      simp only [batchF, batch]
      cases hp : s.pos with
      | nil => simp [liftBatch]
      | cons p prest =>
        cases hv : s.vels with
        | nil => simp [liftBatch]
        | cons w vrest =>
          simp only [reduceCtorEq, if_false]
          cases hr : record c s.es s.stepNr p.cid b0 w.vel with
          | none => simp [liftBatch]
          | some er =>
            obtain ⟨es', r⟩ := er
            simp only
            generalize afterAdd sched _ es' r = aa
            obtain ⟨s', stop⟩ := aa
            cases stop <;> simp [liftBatch, ih]

theorem readerLoopF_none (k : Kind) (c : Cfg) (sched : Sched) (frames : List Frame) :
    ∀ (fuel : Nat) (s : XState),
      readerLoopF k c sched frames none fuel s
        = ((readerLoop k c sched frames fuel s).1, (readerLoop k c sched frames fuel s).2.map Exc.own) := by
  intro fuel
  induction fuel with
  | zero => intro s; simp [readerLoopF, readerLoop]
  | succ fuel ih =>
    intro s
    simp only [readerLoopF, readerLoop]
    generalize poll sched s = ps
    obtain ⟨s1, alive⟩ := ps
    simp only
    split
    · cases hr : readNew k frames s1 with
      | none => simp
      | some s2 =>
        simp only [batchF_none]
        generalize batch k c sched (batchCount k s2)
          { s2 with multi := s2.multi || decide (2 ≤ batchCount k s2) } = br
        cases br with
        | done s4 => simp only [liftBatch]; exact ih _
        | stopped s4 => simp only [liftBatch]; exact ih _
        | err e s4 => simp [liftBatch]
    · simp

/-- **Without a fault the unguarded loop is `extRun`.** -/
theorem extRunF_asIs_none (k : Kind) (c : Cfg) (sched : Sched) (code : Int) (frames : List Frame) (fuel : Nat) :
    extRunF .asIs k c sched code frames fuel none = { res := extRun k c sched code frames fuel, body := false } := by
  unfold extRunF extRun
  cases hw : waitFile sched fuel XState.init with
  | none => rfl
  | some s =>
    simp only
    generalize poll sched s = ps
    obtain ⟨s1, alive⟩ := ps
    simp only
    by_cases hc : (alive || decide (code = 0)) = true
    · simp only [hc, if_true, readerLoopF_none]
      generalize readerLoop k c sched frames fuel s1 = se
      obtain ⟨s2, e⟩ := se
      cases e with
      | none => simp only [Option.map_none]; exact (apply_ite (fun r => ({ res := r, body := false } : FResult)) _ _ _).symm
      | some e => cases e <;> simp [onExc]
    · simp only [hc]
      simp only [Bool.false_eq_true, if_false]
      exact (apply_ite (fun r => ({ res := r, body := false } : FResult)) _ _ _).symm

/-- **… and so is the guarded loop, whenever `extRun` does not raise IndexError** (the only own exception that can
    leave the block; with the guard the handler then polls once more). -/
theorem extRunF_guarded_none (k : Kind) (c : Cfg) (sched : Sched) (code : Int) (frames : List Frame) (fuel : Nat)
    (h : (extRun k c sched code frames fuel).raised ≠ some .index) :
    extRunF .guarded k c sched code frames fuel none = { res := extRun k c sched code frames fuel, body := false } := by
  unfold extRunF
  unfold extRun at h ⊢
  cases hw : waitFile sched fuel XState.init with
  | none => rfl
  | some s =>
    simp only [hw] at h ⊢
    generalize poll sched s = ps at h ⊢
    obtain ⟨s1, alive⟩ := ps
    simp only at h ⊢
    by_cases hc : (alive || decide (code = 0)) = true
    · simp only [hc, if_true, readerLoopF_none] at h ⊢
      obtain ⟨_, hx2⟩ := readerLoop_exit k c sched frames fuel s1
      generalize readerLoop k c sched frames fuel s1 = se at h hx2 ⊢
      obtain ⟨s2, e⟩ := se
      cases e with
      | none => simp only [Option.map_none]; exact (apply_ite (fun r => ({ res := r, body := false } : FResult)) _ _ _).symm
      | some e =>
        rcases hx2 e rfl with rfl | rfl
        · simp [XState.result] at h
        · simp
    · simp only [hc]
      simp only [Bool.false_eq_true, if_false]
      exact (apply_ite (fun r => ({ res := r, body := false } : FResult)) _ _ _).symm

/-- the faulty loop is only left normally after `exe.poll()` returned a return code -/
theorem readerLoopF_exit (k : Kind) (c : Cfg) (sched : Sched) (frames : List Frame) (fault : Option Nat) :
    ∀ (fuel : Nat) (s : XState),
      (readerLoopF k c sched frames fault fuel s).2 = none → (readerLoopF k c sched frames fault fuel s).1.dead = true := by
  intro fuel
  induction fuel with
  | zero => intro s; simp [readerLoopF]
  | succ fuel ih =>
    intro s
    simp only [readerLoopF]
    have hpd := poll_not_alive sched s
    generalize poll sched s = ps at hpd
    obtain ⟨s1, alive⟩ := ps
    simp only at hpd ⊢
    split
    · cases hr : readNew k frames s1 with
      | none => simp
      | some s2 =>
        simp only
        generalize batchF k c sched fault (batchCount k s2)
          { s2 with multi := s2.multi || decide (2 ≤ batchCount k s2) } = br
        cases br with
        | done s4 => exact ih _
        | stopped s4 => exact ih _
        | err e s4 => simp
        | body s4 => simp
    · rename_i hc
      have : alive = false := by
        cases alive <;> simp_all
      intro _
      exact hpd this

theorem batchF_err (k : Kind) (c : Cfg) (sched : Sched) (fault : Option Nat) :
    ∀ (n : Nat) (s s' : XState) (e : Err), batchF k c sched fault n s = .err e s' → e = .index := by
  intro n
  induction n with
  | zero => intro s s' e h; simp [batchF] at h
  | succ n ih =>
    intro s s' e h
    cases k with
    | lammps v =>
      simp only [batchF] at h
      split at h
      · simp only [FBatch.err.injEq] at h; exact h.1.symm
      · split at h
        · simp only [FBatch.err.injEq] at h; exact h.1.symm
        · split at h
          · simp at h
          · split at h
            · simp only [FBatch.err.injEq] at h; exact h.1.symm
            · split at h
              · simp at h
              · exact ih _ _ _ h
    | cp2k b0 =>
      simp only [batchF] at h
      split at h
      · split at h
        · simp at h
        · split at h
          · simp only [FBatch.err.injEq] at h; exact h.1.symm
          · split at h
            · simp at h
            · exact ih _ _ _ h
      · simp only [FBatch.err.injEq] at h; exact h.1.symm

theorem readerLoopF_own (k : Kind) (c : Cfg) (sched : Sched) (frames : List Frame) (fault : Option Nat) :
    ∀ (fuel : Nat) (s : XState) (e : Err),
      (readerLoopF k c sched frames fault fuel s).2 = some (.own e) → e = .index ∨ e = .fuel := by
  intro fuel
  induction fuel with
  | zero => intro s e h; simp [readerLoopF] at h; exact Or.inr h.symm
  | succ fuel ih =>
    intro s e
    simp only [readerLoopF]
    generalize poll sched s = ps
    obtain ⟨s1, alive⟩ := ps
    simp only
    split
    · cases hr : readNew k frames s1 with
      | none => simp; intro h; exact Or.inl h.symm
      | some s2 =>
        simp only
        generalize hb : batchF k c sched fault (batchCount k s2)
          { s2 with multi := s2.multi || decide (2 ≤ batchCount k s2) } = br
        cases br with
        | done s4 => exact ih _ e
        | stopped s4 => exact ih _ e
        | err e' s4 =>
          have := batchF_err k c sched fault _ _ _ _ hb
          simp [this]; intro h; exact Or.inl h.symm
        | body s4 => simp
    · simp

theorem ite_fres_dead (s : XState) (p : Prop) [Decidable p] (e1 e2 : Option Err) :
    (if p then ({ res := s.result e1, body := false } : FResult) else { res := s.result e2, body := false }).res.dead
      = s.dead := by
  split <;> rfl

theorem onExc_guarded_dead(sched : Sched) (s : XState) : (onExc .guarded sched s).dead = true := by
  simp [onExc]

/-- **With the guard the program is stopped on EVERY way out of `_propagate_from`** — normal return, RuntimeError,
    IndexError, the body's own exception — for every schedule, fault position and input (out of fuel = still looping). -/
theorem extRunF_guarded_program_stopped (k : Kind) (c : Cfg) (sched : Sched) (code : Int) (frames : List Frame)
    (fuel : Nat) (fault : Option Nat)
    (h : (extRunF .guarded k c sched code frames fuel fault).res.raised ≠ some .fuel) :
    (extRunF .guarded k c sched code frames fuel fault).res.dead = true := by
  unfold extRunF at h ⊢
  cases hw : waitFile sched fuel XState.init with
  | none => simp [hw, XState.result] at h
  | some s =>
    simp only [hw] at h ⊢
    have hpd := poll_not_alive sched s
    generalize poll sched s = ps at hpd h ⊢
    obtain ⟨s1, alive⟩ := ps
    simp only at hpd h ⊢
    by_cases hc : (alive || decide (code = 0)) = true
    · simp only [hc, if_true] at h ⊢
      have hx := readerLoopF_exit k c sched frames fault fuel s1
      generalize readerLoopF k c sched frames fault fuel s1 = se at hx h ⊢
      obtain ⟨s2, e⟩ := se
      cases e with
      | none =>
        simp only at hx h ⊢
        simp only [ite_fres_dead]
        exact hx trivial
      | some e =>
        cases e with
        | body => simp [XState.result, onExc]
        | own e =>
          cases e <;> simp_all [XState.result, onExc]
    · simp only [hc] at h ⊢
      have ha : alive = false := by cases alive <;> simp_all
      simp only [Bool.false_eq_true, if_false]
      simp only [ite_fres_dead]
      exact hpd ha

/-- **Without the guard the program is stopped on every way out EXCEPT the exceptions that leave the loop body**:
    a normal return or RuntimeError of a run in which the body's exception did not fire. -/
theorem extRunF_asIs_program_stopped (k : Kind) (c : Cfg) (sched : Sched) (code : Int) (frames : List Frame)
    (fuel : Nat) (fault : Option Nat)
    (hb : (extRunF .asIs k c sched code frames fuel fault).body = false)
    (h : (extRunF .asIs k c sched code frames fuel fault).res.raised = none ∨
         (extRunF .asIs k c sched code frames fuel fault).res.raised = some .runtime) :
    (extRunF .asIs k c sched code frames fuel fault).res.dead = true := by
  unfold extRunF at h hb ⊢
  cases hw : waitFile sched fuel XState.init with
  | none => simp [hw, XState.result] at h
  | some s =>
    simp only [hw] at h hb ⊢
    have hpd := poll_not_alive sched s
    generalize poll sched s = ps at hpd h hb ⊢
    obtain ⟨s1, alive⟩ := ps
    simp only at hpd h hb ⊢
    by_cases hc : (alive || decide (code = 0)) = true
    · simp only [hc, if_true] at h hb ⊢
      have hx := readerLoopF_exit k c sched frames fault fuel s1
      have hy := readerLoopF_own k c sched frames fault fuel s1
      generalize readerLoopF k c sched frames fault fuel s1 = se at hx hy h hb ⊢
      obtain ⟨s2, e⟩ := se
      cases e with
      | none =>
        simp only at hx h ⊢
        simp only [ite_fres_dead]
        exact hx trivial
      | some e =>
        cases e with
        | body => simp at hb
        | own e =>
          rcases hy e rfl with rfl | rfl <;> simp [XState.result, onExc] at h
    · simp only [hc] at h ⊢
      have ha : alive = false := by cases alive <;> simp_all
      simp only [Bool.false_eq_true, if_false]
      simp only [ite_fres_dead]
      exact hpd ha

end Infretis.EngineFault
