import Infretis.Lemmas.EngineLoopsFeed
/-!
Invariants of the polling loop shared by LAMMPS and CP2K (`extRun`), for EVERY schedule.
-/
namespace Infretis.EngineLoops
open Infretis.Engine

/-- the entries are the record of the first `es.length` written frames, in order, each once:
    index `k` ↔ `frames[k]`, its coordinates, its velocity (with the `vel_rev` sign), order computed from
    exactly what the entry says; `P f b` constrains the box `b` used for frame `f`. -/
def Rec (c : Cfg) (frames : List Frame) (P : Frame → Nat → Prop) (es : List Entry) : Prop :=
  ∀ k (h : k < es.length), ∃ f b, frames[k]? = some f ∧ es[k] = mkEntry c k f.cid b f.vel ∧ P f b

theorem Rec.nil (c : Cfg) (frames : List Frame) (P : Frame → Nat → Prop) : Rec c frames P [] := by
  intro k h; simp at h

theorem Rec.mono {c : Cfg} {frames : List Frame} {P Q : Frame → Nat → Prop} {es : List Entry}
    (hPQ : ∀ f b, P f b → Q f b) (h : Rec c frames P es) : Rec c frames Q es := by
  intro k hk
  obtain ⟨f, b, h1, h2, h3⟩ := h k hk
  exact ⟨f, b, h1, h2, hPQ f b h3⟩

theorem Rec.snoc {c : Cfg} {frames : List Frame} {P : Frame → Nat → Prop} {es : List Entry} {f : Frame} {b : Nat}
    (h : Rec c frames P es) (hf : frames[es.length]? = some f) (hp : P f b) :
    Rec c frames P (es ++ [mkEntry c es.length f.cid b f.vel]) := by
  intro k hk
  by_cases hlt : k < es.length
  · obtain ⟨f', b', h1, h2, h3⟩ := h k hlt
    exact ⟨f', b', h1, by rw [List.getElem_append_left hlt]; exact h2, h3⟩
  · have hk' : k = es.length := by simp at hk; omega
    subst hk'
    exact ⟨f, b, hf, by simp, hp⟩

/-- `record` on a path with room -/
theorem record_fits (c : Cfg) (es : List Entry) (idx cid bid : Nat) (v : Int) (h : es.length < c.maxlen) :
    ∃ res, record c es idx cid bid v = some (es ++ [mkEntry c idx cid bid v], res) ∧ res.added = true ∧
      (res.stop = true ↔ ((mkEntry c idx cid bid v).order < c.left ∨ (mkEntry c idx cid bid v).order > c.right
          ∨ es.length + 1 = c.maxlen)) ∧
      (res.success = true ↔ ((mkEntry c idx cid bid v).order < c.left ∨ (mkEntry c idx cid bid v).order > c.right)) := by
  obtain ⟨res, h1, h2, h3, h4⟩ := addToPath_fits (es.map (·.order)) (some c.maxlen) (mkEntry c idx cid bid v).order
    c.left c.right (by intro m hm; simp at hm; subst hm; simpa using h)
  refine ⟨res, ?_, h2, ?_, ?_⟩
  · simp only [record, h1, h2, if_true]
  · rw [h3]
    simp only [List.length_map, Option.some.injEq]
    constructor <;> intro hh <;> rcases hh with hh | hh | hh
    · exact Or.inl hh
    · exact Or.inr (Or.inl hh)
    · exact Or.inr (Or.inr (by omega))
    · exact Or.inl hh
    · exact Or.inr (Or.inl hh)
    · exact Or.inr (Or.inr (by omega))
  · exact h4

/-- whatever `record` answers, the new entry list is the old one or the old one plus the new entry -/
theorem record_es (c : Cfg) (es es' : List Entry) (idx cid bid : Nat) (v : Int) (r : AddResult)
    (h : record c es idx cid bid v = some (es', r)) :
    es' = es ∨ es' = es ++ [mkEntry c idx cid bid v] := by
  simp only [record] at h
  split at h
  · simp at h
  · simp only [Option.some.injEq, Prod.mk.injEq] at h
    obtain ⟨h1, _⟩ := h
    split at h1
    · right; exact h1.symm
    · left; exact h1.symm


theorem addToPath_noStop_added (ops ops' : List Int) (ml : Option Nat) (x l r : Int) (res : AddResult)
    (h : addToPath ops ml x l r = some (ops', res)) (hs : res.stop = false) : res.added = true := by
  unfold addToPath at h
  generalize pathAppend ops ml x = pa at h
  obtain ⟨ops1, add⟩ := pa
  simp only at h
  split at h
  · simp at h
  · simp only [Option.some.injEq, Prod.mk.injEq] at h
    obtain ⟨_, h2⟩ := h
    subst h2
    cases add
    · exfalso
      revert hs
      split <;> split <;> simp
      all_goals (split <;> simp)
    · split <;> split <;> simp
      all_goals (split <;> simp)

theorem record_noStop (c : Cfg) (es es' : List Entry) (idx cid bid : Nat) (v : Int) (r : AddResult)
    (h : record c es idx cid bid v = some (es', r)) (hs : r.stop = false) :
    es' = es ++ [mkEntry c idx cid bid v] := by
  simp only [record] at h
  split at h
  · simp at h
  · rename_i ops' r' hadd
    simp only [Option.some.injEq, Prod.mk.injEq] at h
    obtain ⟨h1, h2⟩ := h
    subst h2
    have := addToPath_noStop_added _ _ _ _ _ _ _ hadd hs
    simp [this] at h1
    exact h1.symm

/-! ### the invariant -/

/-- which box may have been used for frame `f`: its own when the pairing is repaired or no poll has yet
    delivered two frames at once; in any case the box of SOME written frame.  CP2K: the constant box. -/
def BoxP (k : Kind) (frames : List Frame) (m : Bool) (f : Frame) (b : Nat) : Prop :=
  match k with
  | .lammps v => (v = .repaired → b = f.bid) ∧ (m = false → b = f.bid) ∧ (∃ f', f' ∈ frames ∧ b = f'.bid)
  | .cp2k b0 => b = b0

theorem BoxP.weaken {k : Kind} {frames : List Frame} {m m' : Bool} {f : Frame} {b : Nat}
    (hm : m' = false → m = false) (h : BoxP k frames m f b) : BoxP k frames m' f b := by
  cases k with
  | lammps v => exact ⟨h.1, fun h' => h.2.1 (hm h'), h.2.2⟩
  | cp2k b0 => exact h

def KInv (k : Kind) (frames : List Frame) (m : Bool) (stepNr : Nat) (pos vels : List Frame) (boxes : List Nat)
    (rv : Nat) : Prop :=
  match k with
  | .lammps v => boxes.length = pos.length ∧ (v = .repaired → boxes = pos.map (·.bid)) ∧
      (m = false → boxes = pos.map (·.bid)) ∧ (∀ b, b ∈ boxes → ∃ f', f' ∈ frames ∧ b = f'.bid)
  | .cp2k _ => vels <+: frames.drop stepNr ∧ rv = stepNr + vels.length

def Inv (k : Kind) (c : Cfg) (frames : List Frame) (s : XState) : Prop :=
  Rec c frames (BoxP k frames s.multi) s.es ∧ s.stepNr = s.es.length ∧
  s.pos <+: frames.drop s.stepNr ∧ s.rp = s.stepNr + s.pos.length ∧
  KInv k frames s.multi s.stepNr s.pos s.vels s.boxes s.rv

/-- what is claimed of the returned path -/
def Final (k : Kind) (c : Cfg) (frames : List Frame) (s : XState) : Prop :=
  Rec c frames (BoxP k frames s.multi) s.es

theorem Inv.final {k : Kind} {c : Cfg} {frames : List Frame} {s : XState} (h : Inv k c frames s) :
    Final k c frames s := h.1

theorem Inv.init (k : Kind) (c : Cfg) (frames : List Frame) : Inv k c frames XState.init := by
  refine ⟨Rec.nil _ _ _, rfl, by simp [XState.init], rfl, ?_⟩
  cases k with
  | lammps v => simp [KInv, XState.init]
  | cp2k b0 => simp [KInv, XState.init]

theorem Inv.tick {k : Kind} {c : Cfg} {frames : List Frame} {s : XState} (sched : Sched)
    (h : Inv k c frames s) : Inv k c frames (tick sched s) := h

theorem Inv.poll {k : Kind} {c : Cfg} {frames : List Frame} {s : XState} (sched : Sched)
    (h : Inv k c frames s) : Inv k c frames (poll sched s).1 := by
  unfold EngineLoops.poll
  simp only
  split
  · exact h
  · split <;> exact h

theorem Final.poll {k : Kind} {c : Cfg} {frames : List Frame} {s : XState} (sched : Sched)
    (h : Final k c frames s) : Final k c frames (poll sched s).1 := by
  unfold EngineLoops.poll
  simp only
  split
  · exact h
  · split <;> exact h

theorem Inv.endIter {k : Kind} {c : Cfg} {frames : List Frame} {s : XState} (sched : Sched)
    (h : Inv k c frames s) : Inv k c frames (endIter sched s) := by
  unfold EngineLoops.endIter
  simp only
  have := Inv.poll sched (Inv.tick sched h)
  split <;> exact this

theorem Final.endIter {k : Kind} {c : Cfg} {frames : List Frame} {s : XState} (sched : Sched)
    (h : Final k c frames s) : Final k c frames (endIter sched s) := by
  unfold EngineLoops.endIter
  simp only
  have := Final.poll sched (show Final k c frames (tick sched s) from h)
  split <;> exact this


/-! ### list facts -/

theorem prefix_extend {α : Type} (frames pos : List α) (st vis : Nat) (h : pos <+: frames.drop st) :
    pos ++ (frames.take vis).drop (st + pos.length) <+: frames.drop st := by
  have hp : pos = (frames.drop st).take pos.length := List.prefix_iff_eq_take.mp h
  have h2 : (frames.take vis).drop (st + pos.length)
      = ((frames.drop st).drop pos.length).take (vis - (st + pos.length)) := by
    rw [List.drop_take, List.drop_drop]
  rw [h2]
  conv => lhs; lhs; rw [hp]
  rw [← List.take_add]
  exact List.take_prefix _ _

theorem cons_prefix_drop {α : Type} (frames rest : List α) (f : α) (st : Nat) (h : f :: rest <+: frames.drop st) :
    frames[st]? = some f ∧ rest <+: frames.drop (st + 1) := by
  obtain ⟨t, ht⟩ := h
  have h0 : (frames.drop st)[0]? = some f := by rw [← ht]; simp
  have h1 : frames[st]? = some f := by simpa using h0
  refine ⟨h1, ?_⟩
  have : frames.drop (st + 1) = (frames.drop st).drop 1 := by rw [List.drop_drop]
  rw [this, ← ht]
  simp

theorem mem_drop_take {α : Type} (frames : List α) (a b : Nat) (x : α) (h : x ∈ (frames.take a).drop b) :
    x ∈ frames :=
  List.mem_of_mem_take (List.mem_of_mem_drop h)

/-! ### one read -/

theorem Inv.readNew {k : Kind} {c : Cfg} {frames : List Frame} {s s' : XState}
    (h : Inv k c frames s) (hr : readNew k frames s = some s') :
    Inv k c frames s' ∧ s'.multi = s.multi ∧ s'.it = s.it ∧ s'.dead = s.dead := by
  obtain ⟨h1, h2, h3, h4, h5⟩ := h
  cases k with
  | lammps v =>
    simp only [EngineLoops.readNew] at hr
    split at hr
    · simp only [Option.some.injEq] at hr
      subst hr
      refine ⟨⟨h1, h2, ?_, ?_, ?_⟩, rfl, rfl, rfl⟩
      · simp only [h4]; exact prefix_extend _ _ _ _ h3
      · simp only [List.length_append]; omega
      · obtain ⟨k1, k2, k3, k4⟩ := h5
        refine ⟨by simp [k1], fun hv => by simp [k2 hv], fun hm => by simp [k3 hm], ?_⟩
        intro b hb
        simp only [List.mem_append, List.mem_map] at hb
        rcases hb with hb | ⟨f, hf, rfl⟩
        · exact k4 b hb
        · exact ⟨f, mem_drop_take _ _ _ _ hf, rfl⟩
    · simp at hr
  | cp2k b0 =>
    simp only [EngineLoops.readNew] at hr
    split at hr
    · simp only [Option.some.injEq] at hr
      subst hr
      obtain ⟨k1, k2⟩ := h5
      refine ⟨⟨h1, h2, ?_, ?_, ?_, ?_⟩, rfl, rfl, rfl⟩
      · simp only [h4]; exact prefix_extend _ _ _ _ h3
      · simp only [List.length_append]; omega
      · simp only [k2]; exact prefix_extend _ _ _ _ k1
      · simp only [List.length_append]; omega
    · simp only [Option.some.injEq] at hr
      subst hr
      exact ⟨⟨h1, h2, h3, h4, h5⟩, rfl, rfl, rfl⟩


/-! ### one `pop` of the box list -/

theorem popBox_spec (v : Variant) (frames : List Frame) (m : Bool) (f : Frame) (rest : List Frame)
    (boxes : List Nat)
    (k1 : boxes.length = (f :: rest).length)
    (k2 : v = .repaired → boxes = (f :: rest).map (·.bid))
    (k3 : m = false → boxes = (f :: rest).map (·.bid))
    (k4 : ∀ b, b ∈ boxes → ∃ f', f' ∈ frames ∧ b = f'.bid)
    (hB : m = false → (f :: rest).length ≤ 1) :
    ∃ b boxes', popBox v boxes = some (b, boxes') ∧ BoxP (.lammps v) frames m f b ∧
      boxes'.length = rest.length ∧ (v = .repaired → boxes' = rest.map (·.bid)) ∧
      (m = false → boxes' = rest.map (·.bid)) ∧ (∀ b, b ∈ boxes' → ∃ f', f' ∈ frames ∧ b = f'.bid) := by
  cases v with
  | asIs =>
    have hne : boxes ≠ [] := by intro e; subst e; simp at k1
    refine ⟨boxes.getLast hne, boxes.dropLast, ?_, ⟨(fun h => Variant.noConfusion h), ?_, ?_⟩, ?_,
      (fun h => Variant.noConfusion h), ?_, ?_⟩
    · simp [popBox, List.getLast?_eq_some_getLast hne]
    · intro hm
      have hr : rest = [] := by
        have := hB hm
        simp at this
        exact this
      subst hr
      have := k3 hm
      subst this
      simp
    · exact k4 _ (List.getLast_mem hne)
    · simp [k1]
    · intro hm
      have hr : rest = [] := by
        have := hB hm
        simp at this
        exact this
      subst hr
      have := k3 hm
      subst this
      simp
    · intro b hb
      exact k4 b (List.dropLast_subset _ hb)
  | repaired =>
    have hb : boxes = f.bid :: rest.map (·.bid) := by simpa using k2 rfl
    subst hb
    refine ⟨f.bid, rest.map (·.bid), by simp [popBox], ⟨fun _ => rfl, fun _ => rfl, ?_⟩, by simp, fun _ => rfl,
      fun _ => rfl, ?_⟩
    · exact k4 f.bid (by simp)
    · intro b hb
      exact k4 b (by simp at hb ⊢; right; exact hb)


/-! ### the `for` loop over the frames that are ready -/

theorem poll_es (sched : Sched) (s : XState) : (poll sched s).1.es = s.es := by
  unfold poll; simp only; split
  · rfl
  · split <;> rfl

theorem poll_multi (sched : Sched) (s : XState) : (poll sched s).1.multi = s.multi := by
  unfold poll; simp only; split
  · rfl
  · split <;> rfl

theorem afterAdd_stop (sched : Sched) (s : XState) (es' : List Entry) (r : AddResult) (h : r.stop = true) :
    (afterAdd sched s es' r).2 = true ∧ (afterAdd sched s es' r).1.es = es' ∧
    (afterAdd sched s es' r).1.multi = s.multi ∧ (afterAdd sched s es' r).1.it = 2 ∧
    (afterAdd sched s es' r).1.dead = true := by
  simp only [afterAdd, h, if_true]
  refine ⟨trivial, ?_, ?_, trivial, trivial⟩
  · simp only [poll_es]
  · simp only [poll_multi]

theorem afterAdd_noStop (sched : Sched) (s : XState) (es' : List Entry) (r : AddResult) (h : r.stop = false) :
    afterAdd sched s es' r
      = ({ s with es := es', success := r.success, status := some r.status, stepNr := s.stepNr + 1 }, false) := by
  simp [afterAdd, h]

def BHyp (k : Kind) (s : XState) : Prop :=
  match k with
  | .lammps _ => s.multi = false → s.pos.length ≤ 1
  | .cp2k _ => True

def BatchPost (k : Kind) (c : Cfg) (frames : List Frame) : BatchRes → Prop
  | .done s' => Inv k c frames s'
  | .stopped s' => Final k c frames s' ∧ s'.it = 2 ∧ s'.dead = true
  | .err _ s' => Final k c frames s'

theorem batch_inv (k : Kind) (c : Cfg) (sched : Sched) (frames : List Frame) :
    ∀ (n : Nat) (s : XState), Inv k c frames s → BHyp k s → BatchPost k c frames (batch k c sched n s) := by
  intro n
  induction n with
  | zero => intro s h _; simpa [batch, BatchPost] using h
  | succ n ih =>
    intro s h hB
    obtain ⟨h1, h2, h3, h4, h5⟩ := h
    cases k with
    | lammps v =>
      simp only [batch]
      cases hpos : s.pos with
      | nil => simp only [BatchPost]; exact h1
      | cons f rest =>
        simp only
        rw [hpos] at h3 h4
        obtain ⟨k1, k2, k3, k4⟩ := h5
        rw [hpos] at k1 k2 k3
        have hB' : s.multi = false → (f :: rest).length ≤ 1 := by
          intro hm; have := hB hm; rw [hpos] at this; exact this
        obtain ⟨b, boxes', hpop, hP, q1, q2, q3, q4⟩ := popBox_spec v frames s.multi f rest s.boxes k1 k2 k3 k4 hB'
        obtain ⟨hf, hrest⟩ := cons_prefix_drop _ _ _ _ h3
        simp only [hpop]
        cases hrec : record c s.es s.stepNr f.cid b f.vel with
        | none => simp only [BatchPost]; exact h1
        | some pr =>
          obtain ⟨es', r⟩ := pr
          simp only
          have hsn : Rec c frames (BoxP (.lammps v) frames s.multi) (s.es ++ [mkEntry c s.stepNr f.cid b f.vel]) := by
            rw [h2]; exact Rec.snoc h1 (by rw [← h2]; exact hf) hP
          by_cases hs : r.stop = true
          · obtain ⟨a1, a2, a3, a4, a5⟩ := afterAdd_stop sched { s with pos := rest, boxes := boxes' } es' r hs
            simp only [a1, if_true, BatchPost]
            refine ⟨?_, a4, a5⟩
            unfold Final
            rw [a2, a3]
            rcases record_es _ _ _ _ _ _ _ _ hrec with e | e
            · rw [e]; exact h1
            · rw [e]; exact hsn
          · have hs' : r.stop = false := by simpa using hs
            rw [afterAdd_noStop _ _ _ _ hs']
            simp only [Bool.false_eq_true, if_false]
            apply ih
            · have e := record_noStop _ _ _ _ _ _ _ _ hrec hs'
              refine ⟨by simpa [e] using hsn, by simp [e, h2], by simpa using hrest, ?_, ?_⟩
              · simp only [h4, List.length_cons]; omega
              · exact ⟨q1, q2, q3, q4⟩
            · intro hm
              have := hB' hm
              simp only [List.length_cons] at this ⊢
              omega
    | cp2k b0 =>
      simp only [batch]
      obtain ⟨k1, k2⟩ := h5
      cases hpos : s.pos with
      | nil => simp only [BatchPost]; exact h1
      | cons p prest =>
        cases hvel : s.vels with
        | nil => simp only [BatchPost]; exact h1
        | cons w vrest =>
          simp only
          rw [hpos] at h3 h4
          rw [hvel] at k1 k2
          obtain ⟨hf, hrest⟩ := cons_prefix_drop _ _ _ _ h3
          obtain ⟨hw, hvrest⟩ := cons_prefix_drop _ _ _ _ k1
          have hpw : p = w := by rw [hf] at hw; exact Option.some.inj hw
          cases hrec : record c s.es s.stepNr p.cid b0 w.vel with
          | none => simp only [BatchPost]; exact h1
          | some pr =>
            obtain ⟨es', r⟩ := pr
            simp only
            have hsn : Rec c frames (BoxP (.cp2k b0) frames s.multi) (s.es ++ [mkEntry c s.stepNr p.cid b0 w.vel]) := by
              rw [h2, ← hpw]; exact Rec.snoc h1 (by rw [← h2]; exact hf) rfl
            by_cases hs : r.stop = true
            · obtain ⟨a1, a2, a3, a4, a5⟩ := afterAdd_stop sched { s with pos := prest, vels := vrest } es' r hs
              simp only [a1, if_true, BatchPost]
              refine ⟨?_, a4, a5⟩
              unfold Final
              rw [a2, a3]
              rcases record_es _ _ _ _ _ _ _ _ hrec with e | e
              · rw [e]; exact h1
              · rw [e]; exact hsn
            · have hs' : r.stop = false := by simpa using hs
              rw [afterAdd_noStop _ _ _ _ hs']
              simp only [Bool.false_eq_true, if_false]
              apply ih
              · have e := record_noStop _ _ _ _ _ _ _ _ hrec hs'
                refine ⟨by simpa [e] using hsn, by simp [e, h2], by simpa using hrest, ?_, ?_, ?_⟩
                · simp only [h4, List.length_cons]; omega
                · simpa using hvrest
                · simp only [k2, List.length_cons]; omega
              · trivial


/-! ### the `while` loop -/

theorem poll_dead (sched : Sched) (s : XState) (h : s.dead = true) : poll sched s = (tick sched s, false) := by
  unfold poll
  simp only
  have : (tick sched s).dead = true := h
  simp [this]

theorem endIter_stopped (sched : Sched) (s : XState) (h1 : s.it = 2) (h2 : s.dead = true) :
    (endIter sched s).it = 2 ∧ (endIter sched s).dead = true := by
  unfold endIter
  simp only
  have hd : (tick sched s).dead = true := h2
  rw [poll_dead sched (tick sched s) hd]
  have hit : (tick sched (tick sched s)).it = 2 := h1
  simp only [hit]
  refine ⟨by simp [hit], ?_⟩
  split <;> exact h2

theorem Inv.setMulti {k : Kind} {c : Cfg} {frames : List Frame} {s : XState} (x : Bool)
    (h : Inv k c frames s) : Inv k c frames { s with multi := s.multi || x } := by
  obtain ⟨h1, h2, h3, h4, h5⟩ := h
  have hm : (s.multi || x) = false → s.multi = false := by
    intro e; cases hsm : s.multi <;> simp_all
  refine ⟨Rec.mono (fun f b hb => BoxP.weaken hm hb) h1, h2, h3, h4, ?_⟩
  cases k with
  | lammps v =>
    obtain ⟨k1, k2, k3, k4⟩ := h5
    exact ⟨k1, k2, fun e => k3 (hm e), k4⟩
  | cp2k b0 => exact h5

theorem readerLoop_final (k : Kind) (c : Cfg) (sched : Sched) (frames : List Frame) :
    ∀ (fuel : Nat) (s : XState),
      (Inv k c frames s ∨ (Final k c frames s ∧ s.it = 2 ∧ s.dead = true)) →
      Final k c frames (readerLoop k c sched frames fuel s).1 := by
  intro fuel
  induction fuel with
  | zero =>
    intro s h
    simp only [readerLoop]
    rcases h with h | h
    · exact h.final
    · exact h.1
  | succ fuel ih =>
    intro s h
    simp only [readerLoop]
    rcases h with h | ⟨hF, hit, hdead⟩
    · have hp := Inv.poll sched h
      generalize hps : poll sched s = ps at hp
      obtain ⟨s1, alive⟩ := ps
      simp only at hp ⊢
      split
      · cases hr : readNew k frames s1 with
        | none => exact hp.final
        | some s2 =>
          simp only
          obtain ⟨hi2, _, _, _⟩ := Inv.readNew hp hr
          have hi3 := Inv.setMulti (decide (2 ≤ batchCount k s2)) hi2
          have hB : BHyp k { s2 with multi := s2.multi || decide (2 ≤ batchCount k s2) } := by
            cases k with
            | lammps v =>
              intro hm
              have hm' : (s2.multi || decide (2 ≤ s2.pos.length)) = false := hm
              have : decide (2 ≤ s2.pos.length) = false := by
                cases hsm : s2.multi <;> simp [hsm] at hm' ⊢ <;> omega
              simp at this
              show s2.pos.length ≤ 1
              omega
            | cp2k b0 => trivial
          have hb := batch_inv k c sched frames (batchCount k s2) _ hi3 hB
          generalize batch k c sched (batchCount k s2)
            { s2 with multi := s2.multi || decide (2 ≤ batchCount k s2) } = br at hb
          cases br with
          | done s4 => exact ih _ (Or.inl (Inv.endIter sched hb))
          | stopped s4 =>
            obtain ⟨b1, b2, b3⟩ := hb
            exact ih _ (Or.inr ⟨Final.endIter sched b1, endIter_stopped sched s4 b2 b3⟩)
          | err e s4 => exact hb
      · exact hp.final
    · rw [poll_dead sched s hdead]
      have hit' : (tick sched s).it = 2 := hit
      simp only [hit']
      simp only [Bool.false_or, Nat.reduceLeDiff, decide_false, Bool.false_eq_true, if_false]
      exact hF


/-! ### the whole call -/

theorem ite_result_es (s : XState) (p : Prop) [Decidable p] (e1 e2 : Option Err) :
    (if p then s.result e1 else s.result e2).es = s.es := by split <;> rfl
theorem ite_result_multi (s : XState) (p : Prop) [Decidable p] (e1 e2 : Option Err) :
    (if p then s.result e1 else s.result e2).multi = s.multi := by split <;> rfl
theorem ite_result_dead (s : XState) (p : Prop) [Decidable p] (e1 e2 : Option Err) :
    (if p then s.result e1 else s.result e2).dead = s.dead := by split <;> rfl
theorem ite_result_terminated (s : XState) (p : Prop) [Decidable p] (e1 e2 : Option Err) :
    (if p then s.result e1 else s.result e2).terminated = s.terminated := by split <;> rfl
theorem ite_result_raised (s : XState) (p : Prop) [Decidable p] (e1 e2 : Option Err) :
    (if p then s.result e1 else s.result e2).raised = if p then e1 else e2 := by split <;> rfl

theorem waitFile_inv (k : Kind) (c : Cfg) (frames : List Frame) (sched : Sched) :
    ∀ (fuel : Nat) (s s' : XState), Inv k c frames s → waitFile sched fuel s = some s' → Inv k c frames s' := by
  intro fuel
  induction fuel with
  | zero => intro s s' _ h; simp [waitFile] at h
  | succ fuel ih =>
    intro s s' hi h
    simp only [waitFile] at h
    split at h
    · simp only [Option.some.injEq] at h; subst h; exact hi
    · have hp := Inv.poll sched (Inv.tick sched hi)
      generalize poll sched (tick sched s) = ps at hp h
      obtain ⟨s1, alive⟩ := ps
      simp only at hp h
      split at h
      · exact ih s1 s' hp h
      · simp only [Option.some.injEq] at h; subst h; exact hp

/-- **Every schedule.**  The path returned (or left behind when raising) by the LAMMPS/CP2K loop records the
    first `es.length` frames the program wrote, in order, each once, with their own coordinates and velocity;
    the box satisfies `BoxP`. -/
theorem extRun_rec (k : Kind) (c : Cfg) (sched : Sched) (code : Int) (frames : List Frame) (fuel : Nat) :
    Rec c frames (BoxP k frames (extRun k c sched code frames fuel).multi) (extRun k c sched code frames fuel).es := by
  unfold extRun
  cases hw : waitFile sched fuel XState.init with
  | none => exact Rec.nil _ _ _
  | some s =>
    simp only
    have hi := waitFile_inv k c frames sched fuel _ _ (Inv.init k c frames) hw
    have hp := Inv.poll sched hi
    generalize poll sched s = ps at hp
    obtain ⟨s1, alive⟩ := ps
    simp only at hp ⊢
    have hF : Final k c frames
        (if (alive || decide (code = 0)) = true then readerLoop k c sched frames fuel s1 else (s1, none)).1 := by
      split
      · exact readerLoop_final k c sched frames fuel s1 (Or.inl hp)
      · exact hp.final
    generalize (if (alive || decide (code = 0)) = true then readerLoop k c sched frames fuel s1 else (s1, none)) = se
      at hF
    obtain ⟨s2, e⟩ := se
    cases e with
    | some e => exact hF
    | none =>
      simp only [ite_result_es, ite_result_multi]
      exact hF

/-! ### the program is stopped; a failure raises -/

theorem poll_not_alive (sched : Sched) (s : XState) (h : (poll sched s).2 = false) : (poll sched s).1.dead = true := by
  unfold poll at h ⊢
  simp only at h ⊢
  split
  · assumption
  · rename_i hd
    split
    · rename_i ha
      simp [hd, ha] at h
    · rfl

theorem batch_err (k : Kind) (c : Cfg) (sched : Sched) :
    ∀ (n : Nat) (s s' : XState) (e : Err), batch k c sched n s = .err e s' → e = .index := by
  intro n
  induction n with
  | zero => intro s s' e h; simp [batch] at h
  | succ n ih =>
    intro s s' e h
    cases k with
    | lammps v =>
      simp only [batch] at h
      split at h
      · simp only [BatchRes.err.injEq] at h; exact h.1.symm
      · split at h
        · simp only [BatchRes.err.injEq] at h; exact h.1.symm
        · split at h
          · simp only [BatchRes.err.injEq] at h; exact h.1.symm
          · split at h
            · simp at h
            · exact ih _ _ _ h
    | cp2k b0 =>
      simp only [batch] at h
      split at h
      · split at h
        · simp only [BatchRes.err.injEq] at h; exact h.1.symm
        · split at h
          · simp at h
          · exact ih _ _ _ h
      · simp only [BatchRes.err.injEq] at h; exact h.1.symm

/-- the loop is only left normally after `exe.poll()` returned a return code -/
theorem readerLoop_exit (k : Kind) (c : Cfg) (sched : Sched) (frames : List Frame) :
    ∀ (fuel : Nat) (s : XState),
      ((readerLoop k c sched frames fuel s).2 = none → (readerLoop k c sched frames fuel s).1.dead = true) ∧
      (∀ e, (readerLoop k c sched frames fuel s).2 = some e → e = .index ∨ e = .fuel) := by
  intro fuel
  induction fuel with
  | zero => intro s; simp [readerLoop]
  | succ fuel ih =>
    intro s
    simp only [readerLoop]
    have hpd := poll_not_alive sched s
    generalize poll sched s = ps at hpd
    obtain ⟨s1, alive⟩ := ps
    simp only at hpd ⊢
    split
    · cases hr : readNew k frames s1 with
      | none => simp
      | some s2 =>
        simp only
        generalize hb : batch k c sched (batchCount k s2)
          { s2 with multi := s2.multi || decide (2 ≤ batchCount k s2) } = br
        cases br with
        | done s4 => exact ih _
        | stopped s4 => exact ih _
        | err e s4 =>
          have := batch_err k c sched _ _ _ _ hb
          simp [this]
    · rename_i hc
      have : alive = false := by
        cases alive <;> simp_all
      exact ⟨fun _ => hpd this, by simp⟩

/-- **The external program is stopped when propagation ends** (normal return or RuntimeError), every schedule. -/
theorem extRun_program_stopped (k : Kind) (c : Cfg) (sched : Sched) (code : Int) (frames : List Frame) (fuel : Nat)
    (h : (extRun k c sched code frames fuel).raised = none ∨ (extRun k c sched code frames fuel).raised = some .runtime) :
    (extRun k c sched code frames fuel).dead = true := by
  unfold extRun at h ⊢
  cases hw : waitFile sched fuel XState.init with
  | none => simp [hw, XState.result] at h
  | some s =>
    simp only [hw] at h ⊢
    have hpd := poll_not_alive sched s
    generalize poll sched s = ps at hpd h
    obtain ⟨s1, alive⟩ := ps
    simp only at hpd h ⊢
    by_cases hc : (alive || decide (code = 0)) = true
    · simp only [hc, if_true] at h ⊢
      obtain ⟨hx1, hx2⟩ := readerLoop_exit k c sched frames fuel s1
      generalize readerLoop k c sched frames fuel s1 = se at hx1 hx2 h
      obtain ⟨s2, e⟩ := se
      cases e with
      | some e =>
        simp only [XState.result] at h
        rcases hx2 e rfl with rfl | rfl <;> simp at h
      | none =>
        simp only [ite_result_dead] at hx1 h ⊢
        exact hx1 trivial
    · simp only [hc] at h ⊢
      have ha : alive = false := by cases alive <;> simp_all
      simp only [Bool.false_eq_true, if_false, ite_result_dead]
      exact hpd ha

/-- **A non-zero exit code raises** unless `add_to_path` had already said stop (`*_was_terminated`). -/
theorem extRun_nonzero_exit (k : Kind) (c : Cfg) (sched : Sched) (code : Int) (frames : List Frame) (fuel : Nat)
    (hcode : code ≠ 0) (h : (extRun k c sched code frames fuel).raised = none) :
    (extRun k c sched code frames fuel).terminated = true := by
  unfold extRun at h ⊢
  cases hw : waitFile sched fuel XState.init with
  | none => simp [hw, XState.result] at h
  | some s =>
    simp only [hw] at h ⊢
    generalize poll sched s = ps at h
    obtain ⟨s1, alive⟩ := ps
    simp only at h ⊢
    generalize (if (alive || decide (code = 0)) = true then readerLoop k c sched frames fuel s1 else (s1, none)) = se at h
    obtain ⟨s2, e⟩ := se
    cases e with
    | some e => simp [XState.result] at h
    | none =>
      simp only [ite_result_raised, ite_result_terminated] at h ⊢
      cases ht : s2.terminated with
      | true => rfl
      | false =>
        exfalso
        cases hk : s2.killed <;> simp [ht, hk, hcode] at h

end Infretis.EngineLoops
