import Infretis.Lemmas.EngineLoopsFeed
/-!
Invariants of the polling loop shared by LAMMPS and CP2K (`extRun`), for EVERY schedule.
-/
namespace Infretis.EngineLoops
open Infretis.Engine

/-- the entries are the record of the first `es.length` written frames, in order, each once:
    index `k` ↔ `frames[k]`, its coordinates, its velocity (with the `vel_rev` sign), order computed from
    exactly what the entry says; `P f b` constrains the box `b` used for frame `f`. -/
def Rec (c : Cfg) (frames : List Frame) (P : Frame → Nat → Prop) (es : List Entry) : Prop :=
  ∀ k (h : k < es.length), ∃ f b, frames[k]? = some f ∧ es[k] = mkEntry c k f.cid b f.vel ∧ P f b

theorem Rec.nil (c : Cfg) (frames : List Frame) (P : Frame → Nat → Prop) : Rec c frames P [] := by
  intro k h; simp at h

theorem Rec.mono {c : Cfg} {frames : List Frame} {P Q : Frame → Nat → Prop} {es : List Entry}
    (hPQ : ∀ f b, P f b → Q f b) (h : Rec c frames P es) : Rec c frames Q es := by
  intro k hk
  obtain ⟨f, b, h1, h2, h3⟩ := h k hk
  exact ⟨f, b, h1, h2, hPQ f b h3⟩

theorem Rec.snoc {c : Cfg} {frames : List Frame} {P : Frame → Nat → Prop} {es : List Entry} {f : Frame} {b : Nat}
    (h : Rec c frames P es) (hf : frames[es.length]? = some f) (hp : P f b) :
    Rec c frames P (es ++ [mkEntry c es.length f.cid b f.vel]) := by
  intro k hk
  by_cases hlt : k < es.length
  · obtain ⟨f', b', h1, h2, h3⟩ := h k hlt
    exact ⟨f', b', h1, by rw [List.getElem_append_left hlt]; exact h2, h3⟩
  · have hk' : k = es.length := by simp at hk; omega
    subst hk'
    exact ⟨f, b, hf, by simp, hp⟩

/-- `record` on a path with room -/
theorem record_fits (c : Cfg) (es : List Entry) (idx cid bid : Nat) (v : Int) (h : es.length < c.maxlen) :
    ∃ res, record c es idx cid bid v = some (es ++ [mkEntry c idx cid bid v], res) ∧ res.added = true ∧
      (res.stop = true ↔ ((mkEntry c idx cid bid v).order < c.left ∨ (mkEntry c idx cid bid v).order > c.right
          ∨ es.length + 1 = c.maxlen)) ∧
      (res.success = true ↔ (((mkEntry c idx cid bid v).order < c.left ∨ (mkEntry c idx cid bid v).order > c.right)
          ∧ es.length + 1 ≠ c.maxlen)) := by
  obtain ⟨res, h1, h2, h3, h4⟩ := addToPath_fits (es.map (·.order)) (some c.maxlen) (mkEntry c idx cid bid v).order
    c.left c.right (by intro m hm; simp at hm; subst hm; simpa using h)
  refine ⟨res, ?_, h2, ?_, ?_⟩
  · simp only [record, h1, h2, if_true]
  · rw [h3]
    simp only [List.length_map, Option.some.injEq]
    constructor <;> intro hh <;> rcases hh with hh | hh | hh
    · exact Or.inl hh
    · exact Or.inr (Or.inl hh)
    · exact Or.inr (Or.inr (by omega))
    · exact Or.inl hh
    · exact Or.inr (Or.inl hh)
    · exact Or.inr (Or.inr (by omega))
  · rw [h4]
    simp only [List.length_map, ne_eq, Option.some.injEq]
    constructor <;> rintro ⟨a, b⟩ <;> exact ⟨a, by omega⟩

/-- whatever `record` answers, the new entry list is the old one or the old one plus the new entry -/
theorem record_es (c : Cfg) (es es' : List Entry) (idx cid bid : Nat) (v : Int) (r : AddResult)
    (h : record c es idx cid bid v = some (es', r)) :
    es' = es ∨ es' = es ++ [mkEntry c idx cid bid v] := by
  simp only [record] at h
  split at h
  · simp at h
  · simp only [Option.some.injEq, Prod.mk.injEq] at h
    obtain ⟨h1, _⟩ := h
    split at h1
    · right; exact h1.symm
    · left; exact h1.symm


theorem addToPath_noStop_added (ops ops' : List Int) (ml : Option Nat) (x l r : Int) (res : AddResult)
    (h : addToPath ops ml x l r = some (ops', res)) (hs : res.stop = false) : res.added = true := by
  unfold addToPath at h
  generalize pathAppend ops ml x = pa at h
  obtain ⟨ops1, add⟩ := pa
  simp only at h
  split at h
  · simp at h
  · simp only [Option.some.injEq, Prod.mk.injEq] at h
    obtain ⟨_, h2⟩ := h
    subst h2
    cases add
    · exfalso
      revert hs
      split <;> split <;> simp
      all_goals (split <;> simp)
    · split <;> split <;> simp
      all_goals (split <;> simp)

theorem record_noStop (c : Cfg) (es es' : List Entry) (idx cid bid : Nat) (v : Int) (r : AddResult)
    (h : record c es idx cid bid v = some (es', r)) (hs : r.stop = false) :
    es' = es ++ [mkEntry c idx cid bid v] := by
  simp only [record] at h
  split at h
  · simp at h
  · rename_i ops' r' hadd
    simp only [Option.some.injEq, Prod.mk.injEq] at h
    obtain ⟨h1, h2⟩ := h
    subst h2
    have := addToPath_noStop_added _ _ _ _ _ _ _ hadd hs
    simp [this] at h1
    exact h1.symm

/-! ### the invariant -/

/-- which box may have been used for frame `f`: its own when the pairing is repaired or no poll has yet
    delivered two frames at once; in any case the box of SOME written frame.  CP2K: the constant box. -/
def BoxP (k : Kind) (frames : List Frame) (m : Bool) (f : Frame) (b : Nat) : Prop :=
  match k with
  | .lammps v => (v = .repaired → b = f.bid) ∧ (m = false → b = f.bid) ∧ (∃ f', f' ∈ frames ∧ b = f'.bid)
  | .cp2k b0 => b = b0

theorem BoxP.weaken {k : Kind} {frames : List Frame} {m m' : Bool} {f : Frame} {b : Nat}
    (hm : m' = false → m = false) (h : BoxP k frames m f b) : BoxP k frames m' f b := by
  cases k with
  | lammps v => exact ⟨h.1, fun h' => h.2.1 (hm h'), h.2.2⟩
  | cp2k b0 => exact h

def KInv (k : Kind) (frames : List Frame) (m : Bool) (stepNr : Nat) (pos vels : List Frame) (boxes : List Nat)
    (rv : Nat) : Prop :=
  match k with
  | .lammps v => boxes.length = pos.length ∧ (v = .repaired → boxes = pos.map (·.bid)) ∧
      (m = false → boxes = pos.map (·.bid)) ∧ (∀ b, b ∈ boxes → ∃ f', f' ∈ frames ∧ b = f'.bid)
  | .cp2k _ => vels <+: frames.drop stepNr ∧ rv = stepNr + vels.length

def Inv (k : Kind) (c : Cfg) (frames : List Frame) (s : XState) : Prop :=
  Rec c frames (BoxP k frames s.multi) s.es ∧ s.stepNr = s.es.length ∧
  s.pos <+: frames.drop s.stepNr ∧ s.rp = s.stepNr + s.pos.length ∧
  KInv k frames s.multi s.stepNr s.pos s.vels s.boxes s.rv

/-- what is claimed of the returned path -/
def Final (k : Kind) (c : Cfg) (frames : List Frame) (s : XState) : Prop :=
  Rec c frames (BoxP k frames s.multi) s.es

theorem Inv.final {k : Kind} {c : Cfg} {frames : List Frame} {s : XState} (h : Inv k c frames s) :
    Final k c frames s := h.1

theorem Inv.init (k : Kind) (c : Cfg) (frames : List Frame) : Inv k c frames XState.init := by
  refine ⟨Rec.nil _ _ _, rfl, by simp [XState.init], rfl, ?_⟩
  cases k with
  | lammps v => simp [KInv, XState.init]
  | cp2k b0 => simp [KInv, XState.init]

theorem Inv.tick {k : Kind} {c : Cfg} {frames : List Frame} {s : XState} (sched : Sched)
    (h : Inv k c frames s) : Inv k c frames (tick sched s) := h

theorem Inv.poll {k : Kind} {c : Cfg} {frames : List Frame} {s : XState} (sched : Sched)
    (h : Inv k c frames s) : Inv k c frames (poll sched s).1 := by
  unfold EngineLoops.poll
  simp only
  split
  · exact h
  · split <;> exact h

theorem Final.poll {k : Kind} {c : Cfg} {frames : List Frame} {s : XState} (sched : Sched)
    (h : Final k c frames s) : Final k c frames (poll sched s).1 := by
  unfold EngineLoops.poll
  simp only
  split
  · exact h
  · split <;> exact h

theorem Inv.endIter {k : Kind} {c : Cfg} {frames : List Frame} {s : XState} (sched : Sched)
    (h : Inv k c frames s) : Inv k c frames (endIter sched s) := by
  unfold EngineLoops.endIter
  simp only
  have := Inv.poll sched (Inv.tick sched h)
  split <;> exact this

theorem Final.endIter {k : Kind} {c : Cfg} {frames : List Frame} {s : XState} (sched : Sched)
    (h : Final k c frames s) : Final k c frames (endIter sched s) := by
  unfold EngineLoops.endIter
  simp only
  have := Final.poll sched (show Final k c frames (tick sched s) from h)
  split <;> exact this


/-! ### list facts -/

theorem prefix_extend {α : Type} (frames pos : List α) (st vis : Nat) (h : pos <+: frames.drop st) :
    pos ++ (frames.take vis).drop (st + pos.length) <+: frames.drop st := by
  have hp : pos = (frames.drop st).take pos.length := List.prefix_iff_eq_take.mp h
  have h2 : (frames.take vis).drop (st + pos.length)
      = ((frames.drop st).drop pos.length).take (vis - (st + pos.length)) := by
    rw [List.drop_take, List.drop_drop]
  rw [h2]
  conv => lhs; lhs; rw [hp]
  rw [← List.take_add]
  exact List.take_prefix _ _

theorem cons_prefix_drop {α : Type} (frames rest : List α) (f : α) (st : Nat) (h : f :: rest <+: frames.drop st) :
    frames[st]? = some f ∧ rest <+: frames.drop (st + 1) := by
  obtain ⟨t, ht⟩ := h
  have h0 : (frames.drop st)[0]? = some f := by rw [← ht]; simp
  have h1 : frames[st]? = some f := by simpa using h0
  refine ⟨h1, ?_⟩
  have : frames.drop (st + 1) = (frames.drop st).drop 1 := by rw [List.drop_drop]
  rw [this, ← ht]
  simp

theorem mem_drop_take {α : Type} (frames : List α) (a b : Nat) (x : α) (h : x ∈ (frames.take a).drop b) :
    x ∈ frames :=
  List.mem_of_mem_take (List.mem_of_mem_drop h)

/-! ### one read -/

theorem Inv.readNew {k : Kind} {c : Cfg} {frames : List Frame} {s s' : XState}
    (h : Inv k c frames s) (hr : readNew k frames s = some s') :
    Inv k c frames s' ∧ s'.multi = s.multi ∧ s'.it = s.it ∧ s'.dead = s.dead := by
  obtain ⟨h1, h2, h3, h4, h5⟩ := h
  cases k with
  | lammps v =>
    simp only [EngineLoops.readNew] at hr
    split at hr
    · simp only [Option.some.injEq] at hr
      subst hr
      refine ⟨⟨h1, h2, ?_, ?_, ?_⟩, rfl, rfl, rfl⟩
      · simp only [h4]; exact prefix_extend _ _ _ _ h3
      · simp only [List.length_append]; omega
      · obtain ⟨k1, k2, k3, k4⟩ := h5
        refine ⟨by simp [k1], fun hv => by simp [k2 hv], fun hm => by simp [k3 hm], ?_⟩
        intro b hb
        simp only [List.mem_append, List.mem_map] at hb
        rcases hb with hb | ⟨f, hf, rfl⟩
        · exact k4 b hb
        · exact ⟨f, mem_drop_take _ _ _ _ hf, rfl⟩
    · simp at hr
  | cp2k b0 =>
    simp only [EngineLoops.readNew] at hr
    split at hr
    · simp only [Option.some.injEq] at hr
      subst hr
      obtain ⟨k1, k2⟩ := h5
      refine ⟨⟨h1, h2, ?_, ?_, ?_, ?_⟩, rfl, rfl, rfl⟩
      · simp only [h4]; exact prefix_extend _ _ _ _ h3
      · simp only [List.length_append]; omega
      · simp only [k2]; exact prefix_extend _ _ _ _ k1
      · simp only [List.length_append]; omega
    · simp only [Option.some.injEq] at hr
      subst hr
      exact ⟨⟨h1, h2, h3, h4, h5⟩, rfl, rfl, rfl⟩


/-! ### one `pop` of the box list -/

theorem popBox_spec (v : Variant) (frames : List Frame) (m : Bool) (f : Frame) (rest : List Frame)
    (boxes : List Nat)
    (k1 : boxes.length = (f :: rest).length)
    (k2 : v = .repaired → boxes = (f :: rest).map (·.bid))
    (k3 : m = false → boxes = (f :: rest).map (·.bid))
    (k4 : ∀ b, b ∈ boxes → ∃ f', f' ∈ frames ∧ b = f'.bid)
    (hB : m = false → (f :: rest).length ≤ 1) :
    ∃ b boxes', popBox v boxes = some (b, boxes') ∧ BoxP (.lammps v) frames m f b ∧
      boxes'.length = rest.length ∧ (v = .repaired → boxes' = rest.map (·.bid)) ∧
      (m = false → boxes' = rest.map (·.bid)) ∧ (∀ b, b ∈ boxes' → ∃ f', f' ∈ frames ∧ b = f'.bid) := by
  cases v with
  | asIs =>
    have hne : boxes ≠ [] := by intro e; subst e; simp at k1
    refine ⟨boxes.getLast hne, boxes.dropLast, ?_, ⟨(fun h => Variant.noConfusion h), ?_, ?_⟩, ?_,
      (fun h => Variant.noConfusion h), ?_, ?_⟩
    · simp [popBox, List.getLast?_eq_some_getLast hne]
    · intro hm
      have hr : rest = [] := by
        have := hB hm
        simp at this
        exact this
      subst hr
      have := k3 hm
      subst this
      simp
    · exact k4 _ (List.getLast_mem hne)
    · simp [k1]
    · intro hm
      have hr : rest = [] := by
        have := hB hm
        simp at this
        exact this
      subst hr
      have := k3 hm
      subst this
      simp
    · intro b hb
      exact k4 b (List.dropLast_subset _ hb)
  | repaired =>
    have hb : boxes = f.bid :: rest.map (·.bid) := by simpa using k2 rfl
    subst hb
    refine ⟨f.bid, rest.map (·.bid), by simp [popBox], ⟨fun _ => rfl, fun _ => rfl, ?_⟩, by simp, fun _ => rfl,
      fun _ => rfl, ?_⟩
    · exact k4 f.bid (by simp)
    · intro b hb
      exact k4 b (by simp at hb ⊢; right; exact hb)

end Infretis.EngineLoops
