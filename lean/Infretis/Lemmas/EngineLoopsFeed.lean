import Infretis.Model.EngineLoops
/-!
Lemmas about `addToPath` / `feed` (shared model) and the in-process and GROMACS loops (C12).
-/
namespace Infretis.EngineLoops
open Infretis.Engine

/-- `add_to_path` on a path with room: the value is appended; stop iff outside or the limit is reached;
    success iff outside (since repair f955162 the `length == maxlen` block no longer overrides a crossing). -/
theorem addToPath_fits (ops : List Int) (ml : Option Nat) (x l r : Int)
    (hfit : ∀ m, ml = some m → ops.length < m) :
    ∃ res, addToPath ops ml x l r = some (ops ++ [x], res) ∧ res.added = true ∧
      (res.stop = true ↔ (x < l ∨ x > r ∨ ml = some (ops.length + 1))) ∧
      (res.success = true ↔ (x < l ∨ x > r)) := by
  have hpa : pathAppend ops ml x = (ops ++ [x], true) := by
    unfold pathAppend
    cases ml with
    | none => rfl
    | some m => simp [hfit m rfl]
  unfold addToPath
  simp only [hpa, List.getLast?_append, List.getLast?_singleton, Option.some_or, List.length_append,
    List.length_singleton]
  by_cases h1 : x < l <;> by_cases h2 : x > r <;> by_cases h3 : ml = some (ops.length + 1) <;>
    simp [h1, h2, h3]


/-- **`feed` consumes exactly the prefix up to and including the FIRST value that is outside `[l, r]` or
    that brings the length to `maxlen`; success iff that value is outside.** -/
theorem feed_spec (l r : Int) (ml : Option Nat) :
    ∀ (stream ops0 : List Int) (k0 : Nat) (ops : List Int) (succ : Bool) (k : Nat),
    (∀ m, ml = some m → ops0.length < m) →
    feed l r ml ops0 stream k0 = some (ops, succ, k) →
    ∃ n, k = k0 + n ∧ n ≤ stream.length ∧ ops = ops0 ++ stream.take n ∧
      (∀ i x, i + 1 < n → stream[i]? = some x → l ≤ x ∧ x ≤ r ∧ ml ≠ some (ops0.length + i + 1)) ∧
      ((n = stream.length ∧ succ = false ∧
          ∀ i x, stream[i]? = some x → l ≤ x ∧ x ≤ r ∧ ml ≠ some (ops0.length + i + 1)) ∨
       (∃ x, 0 < n ∧ stream[n - 1]? = some x ∧ (x < l ∨ x > r ∨ ml = some (ops0.length + n)) ∧
          (succ = true ↔ (x < l ∨ x > r)))) := by
  intro stream
  induction stream with
  | nil =>
    intro ops0 k0 ops succ k _ h
    simp only [feed, Option.some.injEq, Prod.mk.injEq] at h
    obtain ⟨h1, h2, h3⟩ := h
    subst h1 h2 h3
    exact ⟨0, by simp, by simp, by simp, by intro i x hi; omega, Or.inl ⟨rfl, rfl, by simp⟩⟩
  | cons y t ih =>
    intro ops0 k0 ops succ k hfit h
    obtain ⟨res, hres, _, hstop, hsucc⟩ := addToPath_fits ops0 ml y l r hfit
    simp only [feed, hres] at h
    by_cases hs : res.stop = true
    · simp only [hs, if_true, Option.some.injEq, Prod.mk.injEq] at h
      obtain ⟨h1, h2, h3⟩ := h
      subst h1 h2 h3
      refine ⟨1, rfl, by simp, by simp, by intro i x hi; omega, Or.inr ⟨y, by omega, by simp, ?_, ?_⟩⟩
      · exact hstop.1 hs
      · exact hsucc
    · simp only [hs] at h
      have hns : ¬ (y < l ∨ y > r ∨ ml = some (ops0.length + 1)) := fun hh => hs (hstop.2 hh)
      have hy : l ≤ y ∧ y ≤ r ∧ ml ≠ some (ops0.length + 1) := by
        refine ⟨by omega, by omega, fun hh => hns (Or.inr (Or.inr hh))⟩
      have hfit' : ∀ m, ml = some m → (ops0 ++ [y]).length < m := by
        intro m hm
        have := hfit m hm
        have hne : m ≠ ops0.length + 1 := by
          intro e; subst e; exact hy.2.2 hm
        simp; omega
      obtain ⟨n, hk, hn, hops, hin, hend⟩ := ih (ops0 ++ [y]) (k0 + 1) ops succ k hfit' (by simpa using h)
      have hlen : (ops0 ++ [y]).length = ops0.length + 1 := by simp
      refine ⟨n + 1, by omega, by simp; omega, by simp [hops], ?_, ?_⟩
      · intro i x hi hx
        cases i with
        | zero => simp at hx; subst hx; simpa using hy
        | succ i =>
          have := hin i x (by omega) (by simpa using hx)
          rw [hlen] at this
          have e : ops0.length + 1 + i + 1 = ops0.length + (i + 1) + 1 := by omega
          rwa [e] at this
      · rcases hend with ⟨h1, h2, h3⟩ | ⟨x, hpos, hx, hout, hsx⟩
        · refine Or.inl ⟨by simp [h1], h2, ?_⟩
          intro i x hx
          cases i with
          | zero => simp at hx; subst hx; simpa using hy
          | succ i =>
            have := h3 i x (by simpa using hx)
            rw [hlen] at this
            have e : ops0.length + 1 + i + 1 = ops0.length + (i + 1) + 1 := by omega
            rwa [e] at this
        · refine Or.inr ⟨x, by omega, ?_, ?_, ?_⟩
          · have : n + 1 - 1 = (n - 1) + 1 := by omega
            rw [this]; simpa using hx
          · rw [hlen] at hout
            have e : ops0.length + 1 + n = ops0.length + (n + 1) := by omega
            rwa [e] at hout
          · exact hsx

/-- `feed` never raises on a path with room (the IndexError needs an empty path and `maxlen = 0`) -/
theorem feed_total (l r : Int) (ml : Option Nat) :
    ∀ (stream ops0 : List Int) (k0 : Nat), (∀ m, ml = some m → ops0.length < m) →
      feed l r ml ops0 stream k0 ≠ none := by
  intro stream
  induction stream with
  | nil => intro ops0 k0 _; simp [feed]
  | cons y t ih =>
    intro ops0 k0 hfit
    obtain ⟨res, hres, _, hstop, _⟩ := addToPath_fits ops0 ml y l r hfit
    simp only [feed, hres]
    by_cases hs : res.stop = true
    · simp [hs]
    · simp only [hs]
      apply ih
      intro m hm
      have := hfit m hm
      have hne : m ≠ ops0.length + 1 := by
        intro e; subst e; exact hs (hstop.2 (Or.inr (Or.inr hm)))
      simp; omega


/-! ### converses: what `feed` returns on a stream of known shape -/

theorem feed_all_inside (l r : Int) (ml : Option Nat) :
    ∀ (stream ops0 : List Int) (k0 : Nat),
      (∀ m, ml = some m → ops0.length < m) →
      (∀ i x, stream[i]? = some x → l ≤ x ∧ x ≤ r ∧ ml ≠ some (ops0.length + i + 1)) →
      feed l r ml ops0 stream k0 = some (ops0 ++ stream, false, k0 + stream.length) := by
  intro stream
  induction stream with
  | nil => intro ops0 k0 _ _; simp [feed]
  | cons y t ih =>
    intro ops0 k0 hfit hin
    obtain ⟨res, hres, _, hstop, _⟩ := addToPath_fits ops0 ml y l r hfit
    have hy := hin 0 y (by simp)
    have hs : res.stop = false := by
      cases h : res.stop with
      | false => rfl
      | true =>
        exfalso
        rcases hstop.1 h with h1 | h1 | h1
        · omega
        · omega
        · exact hy.2.2 (by simpa using h1)
    simp only [feed, hres, hs]
    have hfit' : ∀ m, ml = some m → (ops0 ++ [y]).length < m := by
      intro m hm
      have := hfit m hm
      have hne : m ≠ ops0.length + 1 := by intro e; subst e; exact hy.2.2 (by simpa using hm)
      simp; omega
    have := ih (ops0 ++ [y]) (k0 + 1) hfit' (by
      intro i x hx
      have := hin (i + 1) x (by simpa using hx)
      simp only [List.length_append, List.length_singleton]
      have e : ops0.length + 1 + i + 1 = ops0.length + (i + 1) + 1 := by omega
      rw [e]; exact this)
    simp only [Bool.false_eq_true, if_false]
    rw [this]
    simp
    omega

theorem feed_stop_last (l r : Int) (ml : Option Nat) :
    ∀ (pre ops0 : List Int) (x : Int) (k0 : Nat),
      (∀ m, ml = some m → ops0.length < m) →
      (∀ i y, pre[i]? = some y → l ≤ y ∧ y ≤ r ∧ ml ≠ some (ops0.length + i + 1)) →
      (x < l ∨ x > r ∨ ml = some (ops0.length + pre.length + 1)) →
      feed l r ml ops0 (pre ++ [x]) k0
        = some (ops0 ++ pre ++ [x], decide (x < l ∨ x > r), k0 + pre.length + 1) := by
  intro pre
  induction pre with
  | nil =>
    intro ops0 x k0 hfit _ hx
    obtain ⟨res, hres, _, hstop, hsucc⟩ := addToPath_fits ops0 ml x l r hfit
    have hs : res.stop = true := hstop.2 (by simpa using hx)
    have hsu : res.success = decide (x < l ∨ x > r) := by
      cases h : res.success with
      | true => exact (decide_eq_true (hsucc.1 h)).symm
      | false =>
        have : ¬ (x < l ∨ x > r) := fun hh => by rw [hsucc.2 hh] at h; cases h
        exact (decide_eq_false this).symm
    simp [feed, hres, hs, hsu]
  | cons y t ih =>
    intro ops0 x k0 hfit hin hx
    obtain ⟨res, hres, _, hstop, _⟩ := addToPath_fits ops0 ml y l r hfit
    have hy := hin 0 y (by simp)
    have hs : res.stop = false := by
      cases h : res.stop with
      | false => rfl
      | true =>
        exfalso
        rcases hstop.1 h with h1 | h1 | h1
        · omega
        · omega
        · exact hy.2.2 (by simpa using h1)
    have hfit' : ∀ m, ml = some m → (ops0 ++ [y]).length < m := by
      intro m hm
      have := hfit m hm
      have hne : m ≠ ops0.length + 1 := by intro e; subst e; exact hy.2.2 (by simpa using hm)
      simp; omega
    have := ih (ops0 ++ [y]) x (k0 + 1) hfit' (by
      intro i z hz
      have := hin (i + 1) z (by simpa using hz)
      simp only [List.length_append, List.length_singleton]
      have e : ops0.length + 1 + i + 1 = ops0.length + (i + 1) + 1 := by omega
      rw [e]; exact this) (by
      simp only [List.length_append, List.length_singleton]
      have e : ops0.length + 1 + t.length + 1 = ops0.length + (t.length + 1) + 1 := by omega
      rw [e]; simpa using hx)
    simp only [List.cons_append, feed, hres, hs, Bool.false_eq_true, if_false]
    rw [this]
    simp
    omega

end Infretis.EngineLoops
