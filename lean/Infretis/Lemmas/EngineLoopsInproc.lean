import Infretis.Lemmas.EngineLoopsExt
/-!
The in-process loop (ASE, TurtleMD) and the GROMACS loop (C12).
-/
namespace Infretis.EngineLoops
open Infretis.Engine

/-- the `k`-th entry is the system after `k·subcycles` integrator steps: its own coordinates, box, velocity -/
def Sampled (c : Cfg) (sub : Nat) (micro : Nat → Frame) (es : List Entry) : Prop :=
  ∀ k (h : k < es.length),
    es[k] = mkEntry c k (micro (k * sub)).cid (micro (k * sub)).bid (micro (k * sub)).vel

theorem Sampled.snoc {c : Cfg} {sub : Nat} {micro : Nat → Frame} {es : List Entry}
    (h : Sampled c sub micro es) :
    Sampled c sub micro (es ++ [mkEntry c es.length (micro (es.length * sub)).cid (micro (es.length * sub)).bid
      (micro (es.length * sub)).vel]) := by
  intro k hk
  by_cases hlt : k < es.length
  · rw [List.getElem_append_left hlt]; exact h k hlt
  · have hk' : k = es.length := by simp at hk; omega
    subst hk'
    simp

theorem first_multiple (i m sub : Nat) (_hsub : 0 < sub) (hdiv : sub ∣ m) (h1 : i ≤ m) (h2 : m < i + sub)
    (hmod : i % sub = 0) : i = m := by
  have hd : sub ∣ m - i := Nat.dvd_sub hdiv (Nat.dvd_of_mod_eq_zero hmod)
  have hlt : m - i < sub := by omega
  have := Nat.eq_zero_of_dvd_of_lt hd hlt
  omega

theorem inprocGo_sampled (c : Cfg) (sub : Nat) (hsub : 0 < sub) (micro : Nat → Frame) :
    ∀ (fuel i stepNr : Nat) (es : List Entry) (succ : Bool) (st : Option PStatus),
      Sampled c sub micro es → stepNr = es.length → i ≤ stepNr * sub → stepNr * sub < i + sub →
      Sampled c sub micro (inprocGo c sub micro fuel i stepNr es succ st).es := by
  intro fuel
  induction fuel with
  | zero => intro i stepNr es succ st h _ _ _; simpa [inprocGo] using h
  | succ fuel ih =>
    intro i stepNr es succ st h hlen h1 h2
    simp only [inprocGo]
    split
    · rename_i hmod
      have hi : i = stepNr * sub := first_multiple i (stepNr * sub) sub hsub (Nat.dvd_mul_left _ _) h1 h2 hmod
      cases hrec : record c es stepNr (micro i).cid (micro i).bid (micro i).vel with
      | none => exact h
      | some pr =>
        obtain ⟨es', r⟩ := pr
        simp only
        have hsn : Sampled c sub micro (es ++ [mkEntry c stepNr (micro i).cid (micro i).bid (micro i).vel]) := by
          rw [hi, hlen]; exact Sampled.snoc h
        split
        · rcases record_es _ _ _ _ _ _ _ _ hrec with e | e
          · rw [e]; exact h
          · rw [e]; exact hsn
        · rename_i hs
          have e := record_noStop _ _ _ _ _ _ _ _ hrec (by simpa using hs)
          apply ih
          · rw [e]; exact hsn
          · simp [e, hlen]
          · rw [Nat.succ_mul]; omega
          · rw [Nat.succ_mul]; omega
    · rename_i hmod
      apply ih _ _ _ _ _ h hlen
      · have : i ≠ stepNr * sub := by
          intro e; apply hmod; rw [e]; exact Nat.mul_mod_left _ _
        omega
      · omega

/-- **ASE / TurtleMD: the path's k-th frame is the state after k·subcycles steps — its own coordinates, box
    and velocity direction, index k — for every dynamics `micro`, subcycles ≥ 1, limits and interfaces.** -/
theorem inproc_sampled (c : Cfg) (sub : Nat) (hsub : 0 < sub) (micro : Nat → Frame) (ase : Bool) :
    Sampled c sub micro (inproc c sub micro ase).es := by
  unfold inproc
  simp only
  generalize (if ase = true then sub * c.maxlen else sub * c.maxlen + 1) = n
  split
  · intro k h; simp at h
  · exact inprocGo_sampled c sub hsub micro n 0 0 [] false none (by intro k h; simp at h) rfl (by simp) (by simpa using hsub)

/-! ### GROMACS -/

theorem gmxVelSeen_eq (rev : Bool) (v : Int) : gmxVelSeen rev v = v := by
  cases rev <;> simp [gmxVelSeen, velSeen]

/-- what the GROMACS loop stores for frame `f` at index `i` -/
def gmxEntry (c : Cfg) (i : Nat) (f : Frame) : Entry :=
  { idx := i, cid := f.cid, bid := f.bid, vel := gmxVelSeen c.rev f.vel,
    order := c.ord f.cid f.bid (gmxVelSeen c.rev f.vel) }

def GmxRec (c : Cfg) (frames : List Frame) (es : List Entry) : Prop :=
  ∀ k (h : k < es.length), ∃ f, frames[k]? = some f ∧ es[k] = gmxEntry c k f

theorem gmxRecord_es (c : Cfg) (es es' : List Entry) (i : Nat) (f : Frame) (r : AddResult)
    (h : gmxRecord c es i f = some (es', r)) :
    (es' = es ∧ r.stop = true) ∨ es' = es ++ [gmxEntry c i f] := by
  simp only [gmxRecord] at h
  split at h
  · simp at h
  · rename_i ops' r' hadd
    simp only [Option.some.injEq, Prod.mk.injEq] at h
    obtain ⟨h1, h2⟩ := h
    subst h2
    by_cases ha : r'.added = true
    · right; simp [ha] at h1; rw [← h1]; rfl
    · left
      simp [ha] at h1
      refine ⟨h1.symm, ?_⟩
      cases hs : r'.stop with
      | true => rfl
      | false => exact absurd (addToPath_noStop_added _ _ _ _ _ _ _ hadd hs) ha

theorem gmxGo_rec (c : Cfg) (all : List Frame) :
    ∀ (rest : List Frame) (i : Nat) (es : List Entry) (succ : Bool) (st : Option PStatus),
      GmxRec c all es → i = es.length → rest = all.drop i →
      GmxRec c all (gmxGo c rest i es succ st).es := by
  intro rest
  induction rest with
  | nil => intro i es succ st h _ _; simpa [gmxGo] using h
  | cons f rest ih =>
    intro i es succ st h hi hrest
    simp only [gmxGo]
    have hf : all[i]? = some f ∧ rest = all.drop (i + 1) := by
      have h0 : (all.drop i)[0]? = some f := by rw [← hrest]; simp
      refine ⟨by simpa using h0, ?_⟩
      have : all.drop (i + 1) = (all.drop i).drop 1 := by rw [List.drop_drop]
      rw [this, ← hrest]; simp
    cases hrec : gmxRecord c es i f with
    | none => exact h
    | some pr =>
      obtain ⟨es', r⟩ := pr
      simp only
      have hsn : GmxRec c all (es ++ [gmxEntry c i f]) := by
        intro k hk
        by_cases hlt : k < es.length
        · obtain ⟨f', h1, h2⟩ := h k hlt
          exact ⟨f', h1, by rw [List.getElem_append_left hlt]; exact h2⟩
        · have hk' : k = es.length := by simp at hk; omega
          subst hk'
          exact ⟨f, by rw [← hi]; exact hf.1, by simp [hi]⟩
      rcases gmxRecord_es _ _ _ _ _ _ hrec with ⟨e, hs⟩ | e
      · simp only [hs, if_true]; rw [e]; exact h
      · split
        · rw [e]; exact hsn
        · apply ih
          · rw [e]; exact hsn
          · simp [e, hi]
          · exact hf.2

/-- GROMACS loop: frames in order, each once, own coordinates and box; the velocity handed to the order
    function is the FILE velocity also for `reverse` (negated twice). -/
theorem gmxRun_rec (c : Cfg) (frames : List Frame) : GmxRec c frames (gmxRun c frames).es :=
  gmxGo_rec c frames frames 0 [] false none (by intro k h; simp at h) rfl (by simp)

end Infretis.EngineLoops
