import Infretis.Lemmas.EngineLoopsExt
/-!
The in-process loop (ASE, TurtleMD) and the GROMACS loop (C12).
-/
namespace Infretis.EngineLoops
open Infretis.Engine

/-- the `k`-th entry is the system after `k·subcycles` integrator steps: its own coordinates, box, velocity -/
def Sampled (c : Cfg) (sub : Nat) (micro : Nat → Frame) (es : List Entry) : Prop :=
  ∀ k (h : k < es.length),
    es[k] = mkEntry c k (micro (k * sub)).cid (micro (k * sub)).bid (micro (k * sub)).vel

theorem Sampled.snoc {c : Cfg} {sub : Nat} {micro : Nat → Frame} {es : List Entry}
    (h : Sampled c sub micro es) :
    Sampled c sub micro (es ++ [mkEntry c es.length (micro (es.length * sub)).cid (micro (es.length * sub)).bid
      (micro (es.length * sub)).vel]) := by
  intro k hk
  by_cases hlt : k < es.length
  · rw [List.getElem_append_left hlt]; exact h k hlt
  · have hk' : k = es.length := by simp at hk; omega
    subst hk'
    simp

theorem first_multiple (i m sub : Nat) (_hsub : 0 < sub) (hdiv : sub ∣ m) (h1 : i ≤ m) (h2 : m < i + sub)
    (hmod : i % sub = 0) : i = m := by
  have hd : sub ∣ m - i := Nat.dvd_sub hdiv (Nat.dvd_of_mod_eq_zero hmod)
  have hlt : m - i < sub := by omega
  have := Nat.eq_zero_of_dvd_of_lt hd hlt
  omega

theorem inprocGo_sampled (c : Cfg) (sub : Nat) (hsub : 0 < sub) (micro : Nat → Frame) :
    ∀ (fuel i stepNr : Nat) (es : List Entry) (succ : Bool) (st : Option PStatus),
      Sampled c sub micro es → stepNr = es.length → i ≤ stepNr * sub → stepNr * sub < i + sub →
      Sampled c sub micro (inprocGo c sub micro fuel i stepNr es succ st).es := by
  intro fuel
  induction fuel with
  | zero => intro i stepNr es succ st h _ _ _; simpa [inprocGo] using h
  | succ fuel ih =>
    intro i stepNr es succ st h hlen h1 h2
    simp only [inprocGo]
    split
    · rename_i hmod
      have hi : i = stepNr * sub := first_multiple i (stepNr * sub) sub hsub (Nat.dvd_mul_left _ _) h1 h2 hmod
      cases hrec : record c es stepNr (micro i).cid (micro i).bid (micro i).vel with
      | none => exact h
      | some pr =>
        obtain ⟨es', r⟩ := pr
        simp only
        have hsn : Sampled c sub micro (es ++ [mkEntry c stepNr (micro i).cid (micro i).bid (micro i).vel]) := by
          rw [hi, hlen]; exact Sampled.snoc h
        split
        · rcases record_es _ _ _ _ _ _ _ _ hrec with e | e
          · rw [e]; exact h
          · rw [e]; exact hsn
        · rename_i hs
          have e := record_noStop _ _ _ _ _ _ _ _ hrec (by simpa using hs)
          apply ih
          · rw [e]; exact hsn
          · simp [e, hlen]
          · rw [Nat.succ_mul]; omega
          · rw [Nat.succ_mul]; omega
    · rename_i hmod
      apply ih _ _ _ _ _ h hlen
      · have : i ≠ stepNr * sub := by
          intro e; apply hmod; rw [e]; exact Nat.mul_mod_left _ _
        omega
      · omega

/-- **ASE / TurtleMD: the path's k-th frame is the state after k·subcycles steps — its own coordinates, box
    and velocity direction, index k — for every dynamics `micro`, subcycles ≥ 1, limits and interfaces.** -/
theorem inproc_sampled (c : Cfg) (sub : Nat) (hsub : 0 < sub) (micro : Nat → Frame) (ase : Bool) :
    Sampled c sub micro (inproc c sub micro ase).es := by
  unfold inproc
  simp only
  generalize (if ase = true then sub * c.maxlen else sub * c.maxlen + 1) = n
  split
  · intro k h; simp at h
  · exact inprocGo_sampled c sub hsub micro n 0 0 [] false none (by intro k h; simp at h) rfl (by simp) (by simpa using hsub)

/-! ### GROMACS -/

theorem gmxVelSeen_eq (rev : Bool) (v : Int) : gmxVelSeen rev v = v := by
  cases rev <;> simp [gmxVelSeen, velSeen]

/-- what the GROMACS loop stores for frame `f` at index `i` -/
def gmxEntry (gv : Variant) (c : Cfg) (i : Nat) (f : Frame) : Entry :=
  { idx := i, cid := f.cid, bid := f.bid, vel := gmxVel gv c.rev f.vel,
    order := c.ord f.cid f.bid (gmxVel gv c.rev f.vel) }

def GmxRec (gv : Variant) (c : Cfg) (frames : List Frame) (es : List Entry) : Prop :=
  ∀ k (h : k < es.length), ∃ f, frames[k]? = some f ∧ es[k] = gmxEntry gv c k f

theorem gmxRecord_es (gv : Variant) (c : Cfg) (es es' : List Entry) (i : Nat) (f : Frame) (r : AddResult)
    (h : gmxRecord gv c es i f = some (es', r)) :
    (es' = es ∧ r.stop = true) ∨ es' = es ++ [gmxEntry gv c i f] := by
  simp only [gmxRecord] at h
  split at h
  · simp at h
  · rename_i ops' r' hadd
    simp only [Option.some.injEq, Prod.mk.injEq] at h
    obtain ⟨h1, h2⟩ := h
    subst h2
    by_cases ha : r'.added = true
    · right; simp [ha] at h1; rw [← h1]; rfl
    · left
      simp [ha] at h1
      refine ⟨h1.symm, ?_⟩
      cases hs : r'.stop with
      | true => rfl
      | false => exact absurd (addToPath_noStop_added _ _ _ _ _ _ _ hadd hs) ha

theorem gmxGo_rec (gv : Variant) (c : Cfg) (all : List Frame) :
    ∀ (rest : List Frame) (i : Nat) (es : List Entry) (succ : Bool) (st : Option PStatus),
      GmxRec gv c all es → i = es.length → rest = all.drop i →
      GmxRec gv c all (gmxGo gv c rest i es succ st).es := by
  intro rest
  induction rest with
  | nil => intro i es succ st h _ _; simpa [gmxGo] using h
  | cons f rest ih =>
    intro i es succ st h hi hrest
    simp only [gmxGo]
    have hf : all[i]? = some f ∧ rest = all.drop (i + 1) := by
      have h0 : (all.drop i)[0]? = some f := by rw [← hrest]; simp
      refine ⟨by simpa using h0, ?_⟩
      have : all.drop (i + 1) = (all.drop i).drop 1 := by rw [List.drop_drop]
      rw [this, ← hrest]; simp
    cases hrec : gmxRecord gv c es i f with
    | none => exact h
    | some pr =>
      obtain ⟨es', r⟩ := pr
      simp only
      have hsn : GmxRec gv c all (es ++ [gmxEntry gv c i f]) := by
        intro k hk
        by_cases hlt : k < es.length
        · obtain ⟨f', h1, h2⟩ := h k hlt
          exact ⟨f', h1, by rw [List.getElem_append_left hlt]; exact h2⟩
        · have hk' : k = es.length := by simp at hk; omega
          subst hk'
          exact ⟨f, by rw [← hi]; exact hf.1, by simp [hi]⟩
      rcases gmxRecord_es _ _ _ _ _ _ _ hrec with ⟨e, hs⟩ | e
      · simp only [hs, if_true]; rw [e]; exact h
      · split
        · rw [e]; exact hsn
        · apply ih
          · rw [e]; exact hsn
          · simp [e, hi]
          · exact hf.2

/-- GROMACS loop: frames in order, each once, own coordinates and box; the velocity handed to the order
    function is the FILE velocity also for `reverse` (negated twice). -/
theorem gmxRun_rec (gv : Variant) (c : Cfg) (frames : List Frame) : GmxRec gv c frames (gmxRun gv c frames).es :=
  gmxGo_rec gv c frames frames 0 [] false none (by intro k h; simp at h) rfl (by simp)


/-! ### GROMACS at tick level (`gmxExt`): every schedule -/

def GInv (gv : Variant) (c : Cfg) (frames : List Frame) (s : XState) : Prop :=
  GmxRec gv c frames s.es ∧ s.stepNr = s.es.length ∧ s.rp = s.stepNr

theorem GmxRec.snoc {gv : Variant} {c : Cfg} {frames : List Frame} {es : List Entry} {f : Frame}
    (h : GmxRec gv c frames es) (hf : frames[es.length]? = some f) :
    GmxRec gv c frames (es ++ [gmxEntry gv c es.length f]) := by
  intro k hk
  by_cases hlt : k < es.length
  · obtain ⟨f', h1, h2⟩ := h k hlt
    exact ⟨f', h1, by rw [List.getElem_append_left hlt]; exact h2⟩
  · have hk' : k = es.length := by simp at hk; omega
    subst hk'
    exact ⟨f, hf, by simp⟩

theorem gmxConsume_spec (gv : Variant) (c : Cfg) (frames : List Frame) (s s' : XState) (f : Frame) (stop : Bool)
    (h : GInv gv c frames s) (hf : frames[s.rp]? = some f) (hc : gmxConsume gv c s f = some (s', stop)) :
    GmxRec gv c frames s'.es ∧ (stop = false → GInv gv c frames s' ∧ s'.rp = s.rp + 1) := by
  obtain ⟨h1, h2, h3⟩ := h
  simp only [gmxConsume] at hc
  cases hrec : gmxRecord gv c s.es s.stepNr f with
  | none => simp [hrec] at hc
  | some pr =>
    obtain ⟨es', r⟩ := pr
    simp only [hrec] at hc
    have hsn : GmxRec gv c frames (s.es ++ [gmxEntry gv c s.stepNr f]) := by
      rw [h2]; exact GmxRec.snoc h1 (by rw [← h2, ← h3]; exact hf)
    by_cases hs : r.stop = true
    · simp only [hs, if_true, Option.some.injEq, Prod.mk.injEq] at hc
      obtain ⟨e1, e2⟩ := hc
      subst e1 e2
      refine ⟨?_, by intro hh; cases hh⟩
      rcases gmxRecord_es _ _ _ _ _ _ _ hrec with ⟨e, _⟩ | e
      · simp only [e]; exact h1
      · simp only [e]; exact hsn
    · simp only [hs, Bool.false_eq_true, if_false, Option.some.injEq, Prod.mk.injEq] at hc
      obtain ⟨e1, e2⟩ := hc
      subst e1 e2
      rcases gmxRecord_es _ _ _ _ _ _ _ hrec with ⟨_, hst⟩ | e
      · exact absurd hst hs
      · refine ⟨by simp only [e]; exact hsn, fun _ => ⟨⟨by simp only [e]; exact hsn, ?_, ?_⟩, rfl⟩⟩
        · simp [e, h2]
        · simp [h3]

theorem gmxDrain_rec (gv : Variant) (c : Cfg) (frames : List Frame) :
    ∀ (L : List Frame) (s : XState), GInv gv c frames s → L <+: frames.drop s.rp →
      GmxRec gv c frames (gmxDrain gv c L s).1.es := by
  intro L
  induction L with
  | nil => intro s h _; simpa [gmxDrain] using h.1
  | cons f rest ih =>
    intro s h hL
    obtain ⟨hf, hrest⟩ := cons_prefix_drop _ _ _ _ hL
    simp only [gmxDrain]
    cases hc : gmxConsume gv c s f with
    | none => exact h.1
    | some pr =>
      obtain ⟨s', stop⟩ := pr
      obtain ⟨g1, g2⟩ := gmxConsume_spec gv c frames s s' f stop h hf hc
      simp only
      cases stop with
      | true => simpa using g1
      | false =>
        simp only [Bool.false_eq_true, if_false]
        obtain ⟨g3, g4⟩ := g2 rfl
        exact ih s' g3 (by rw [g4]; exact hrest)

theorem GInv.poll {gv : Variant} {c : Cfg} {frames : List Frame} {s : XState} (sched : Sched) (h : GInv gv c frames s) :
    GInv gv c frames (poll sched s).1 := by
  unfold EngineLoops.poll
  simp only
  split
  · exact h
  · split <;> exact h

theorem take_drop_prefix {α : Type} (frames : List α) (a b : Nat) : (frames.take a).drop b <+: frames.drop b := by
  rw [List.drop_take]
  exact List.take_prefix _ _

theorem ite_pick {α : Type} (P : α → Prop) (p : Prop) [Decidable p] (a b : α) (ha : P a) (hb : P b) :
    P (if p then a else b) := by
  split <;> assumption

theorem gmxFrames_rec (gv : Variant) (c : Cfg) (sched : Sched) (code : Int) (need0 : Nat) (frames : List Frame) :
    ∀ (fuel : Nat) (s : XState), GInv gv c frames s → GmxRec gv c frames (gmxFrames gv c sched code need0 frames fuel s).1.es := by
  intro fuel
  induction fuel with
  | zero => intro s h; simpa [gmxFrames] using h.1
  | succ fuel ih =>
    intro s h
    simp only [gmxFrames]
    have hp := GInv.poll sched h
    generalize EngineLoops.poll sched s = ps at hp
    obtain ⟨s1, alive⟩ := ps
    simp only at hp ⊢
    split
    · split
      · exact hp.1
      · exact gmxDrain_rec gv c frames _ s1 hp (take_drop_prefix _ _ _)
    · have hT := ih _ (show GInv gv c frames (tick sched s1) from hp)
      cases hf : frames[s1.rp]? with
      | none =>
        simp only
        exact ite_pick (fun (x : XState × Option Err) => GmxRec gv c frames x.1.es) _ _ _ (hp.1) hT
      | some f =>
        simp only
        cases hc : gmxConsume gv c s1 f with
        | none =>
          simp only
          exact ite_pick (fun (x : XState × Option Err) => GmxRec gv c frames x.1.es) _ _ _ (hp.1) hT
        | some pr =>
          obtain ⟨s', stop⟩ := pr
          obtain ⟨g1, g2⟩ := gmxConsume_spec gv c frames s1 s' f stop hp hf hc
          simp only
          cases stop with
          | true =>
            simp only [if_true]
            exact ite_pick (fun (x : XState × Option Err) => GmxRec gv c frames x.1.es) _ _ _ (g1) hT
          | false =>
            simp only [Bool.false_eq_true, if_false]
            exact ite_pick (fun (x : XState × Option Err) => GmxRec gv c frames x.1.es) _ _ _ (ih s' (g2 rfl).1) hT

theorem gmxWait_inv (gv : Variant) (c : Cfg) (frames : List Frame) (sched : Sched) (code : Int) :
    ∀ (fuel : Nat) (s s' : XState) (e : Option Err), GInv gv c frames s → gmxWait sched code fuel s = some (s', e) →
      GInv gv c frames s' := by
  intro fuel
  induction fuel with
  | zero => intro s s' e _ h; simp [gmxWait] at h
  | succ fuel ih =>
    intro s s' e hi h
    simp only [gmxWait] at h
    split at h
    · simp only [Option.some.injEq, Prod.mk.injEq] at h; obtain ⟨h, _⟩ := h; subst h; exact hi
    · have hp := GInv.poll sched (show GInv gv c frames (tick sched s) from hi)
      generalize EngineLoops.poll sched (tick sched s) = ps at hp h
      obtain ⟨s1, alive⟩ := ps
      simp only at hp h
      split at h
      · exact ih s1 s' e hp h
      · split at h <;>
        · simp only [Option.some.injEq, Prod.mk.injEq] at h; obtain ⟨h, _⟩ := h; subst h; exact hp

/-- **GROMACS through `GromacsRunner`, every schedule**: frames in order, each once, own coordinates and box;
    velocity as `gmxVelSeen` says. -/
theorem gmxExt_rec (gv : Variant) (c : Cfg) (sched : Sched) (code : Int) (need0 : Nat) (frames : List Frame) (fuel : Nat) :
    GmxRec gv c frames (gmxExt gv c sched code need0 frames fuel).es := by
  have h0 : GInv gv c frames XState.init := ⟨by intro k h; simp [XState.init] at h, rfl, rfl⟩
  unfold gmxExt
  cases hw1 : gmxWait sched code fuel XState.init with
  | none => exact h0.1
  | some p1 =>
    obtain ⟨s1, e1⟩ := p1
    have hi1 := gmxWait_inv gv c frames sched code fuel _ _ _ h0 hw1
    cases e1 with
    | some e => exact hi1.1
    | none =>
      simp only
      cases hw2 : gmxWait sched code fuel s1 with
      | none => exact hi1.1
      | some p2 =>
        obtain ⟨s2, e2⟩ := p2
        have hi2 := gmxWait_inv gv c frames sched code fuel _ _ _ hi1 hw2
        cases e2 with
        | some e => exact hi2.1
        | none =>
          simp only
          have hF : GmxRec gv c frames
              (if (s1.cur.file && s2.cur.file) = true then gmxFrames gv c sched code need0 frames fuel s2
                else (s2, some Err.attr)).1.es := by
            split
            · exact gmxFrames_rec gv c sched code need0 frames fuel s2 hi2
            · exact hi2.1
          generalize (if (s1.cur.file && s2.cur.file) = true then gmxFrames gv c sched code need0 frames fuel s2
                else (s2, some Err.attr)) = se at hF
          obtain ⟨s3, e⟩ := se
          cases e with
          | none => exact hF
          | some e => cases e <;> exact hF


/-! ### GROMACS: a failure raises, the program is stopped -/

theorem gmxConsume_terminated (gv : Variant) (c : Cfg) (s s' : XState) (f : Frame) (stop : Bool)
    (h : gmxConsume gv c s f = some (s', stop)) : stop = true → s'.terminated = true := by
  simp only [gmxConsume] at h
  split at h
  · simp at h
  · split at h
    · simp only [Option.some.injEq, Prod.mk.injEq] at h
      obtain ⟨h1, _⟩ := h; subst h1; intro _; rfl
    · simp only [Option.some.injEq, Prod.mk.injEq] at h
      obtain ⟨_, h2⟩ := h; subst h2; intro hh; cases hh

theorem gmxFrames_none_terminated (gv : Variant) (c : Cfg) (sched : Sched) (code : Int) (hcode : code ≠ 0)
    (need0 : Nat) (frames : List Frame) :
    ∀ (fuel : Nat) (s : XState), (gmxFrames gv c sched code need0 frames fuel s).2 = none →
      (gmxFrames gv c sched code need0 frames fuel s).1.terminated = true := by
  intro fuel
  induction fuel with
  | zero => intro s h; simp [gmxFrames] at h
  | succ fuel ih =>
    intro s
    simp only [gmxFrames]
    generalize EngineLoops.poll sched s = ps
    obtain ⟨s1, alive⟩ := ps
    simp only
    split
    · simp
    · have hT := ih (tick sched s1)
      cases hf : frames[s1.rp]? with
      | none =>
        simp only
        exact ite_pick (fun (x : XState × Option Err) => x.2 = none → x.1.terminated = true) _ _ _ (by simp) hT
      | some f =>
        simp only
        cases hc : gmxConsume gv c s1 f with
        | none =>
          simp only
          exact ite_pick (fun (x : XState × Option Err) => x.2 = none → x.1.terminated = true) _ _ _ (by simp) hT
        | some pr =>
          obtain ⟨s', stop⟩ := pr
          have ht := gmxConsume_terminated gv c s1 s' f stop hc
          simp only
          cases stop with
          | true =>
            simp only [if_true]
            exact ite_pick (fun (x : XState × Option Err) => x.2 = none → x.1.terminated = true) _ _ _
              (fun _ => ht rfl) hT
          | false =>
            simp only [Bool.false_eq_true, if_false]
            exact ite_pick (fun (x : XState × Option Err) => x.2 = none → x.1.terminated = true) _ _ _ (ih s') hT

theorem gmxWait_err (sched : Sched) (code : Int) :
    ∀ (fuel : Nat) (s s' : XState) (e : Err), gmxWait sched code fuel s = some (s', some e) →
      s'.dead = true ∧ e = .runtime := by
  intro fuel
  induction fuel with
  | zero => intro s s' e h; simp [gmxWait] at h
  | succ fuel ih =>
    intro s s' e h
    simp only [gmxWait] at h
    split at h
    · simp at h
    · have hpd := poll_not_alive sched (tick sched s)
      generalize EngineLoops.poll sched (tick sched s) = ps at hpd h
      obtain ⟨s1, alive⟩ := ps
      simp only at hpd h
      split at h
      · exact ih s1 s' e h
      · rename_i ha
        have ha' : alive = false := by cases alive <;> simp_all
        split at h
        · simp only [Option.some.injEq, Prod.mk.injEq] at h
          obtain ⟨h1, h2⟩ := h; subst h1 h2
          exact ⟨hpd ha', rfl⟩
        · simp at h

/-- **GROMACS: any non-zero return code collected by `check_poll` raises RuntimeError** — a normal return with
    `code ≠ 0` is only possible after `add_to_path` said stop (the path is complete; mdrun's later fate is moot). -/
theorem gmxExt_nonzero_exit (gv : Variant) (c : Cfg) (sched : Sched) (code : Int) (hcode : code ≠ 0) (need0 : Nat)
    (frames : List Frame) (fuel : Nat) (h : (gmxExt gv c sched code need0 frames fuel).raised = none) :
    (gmxExt gv c sched code need0 frames fuel).terminated = true := by
  unfold gmxExt at h ⊢
  cases hw1 : gmxWait sched code fuel XState.init with
  | none => simp [hw1, XState.result] at h
  | some p1 =>
    obtain ⟨s1, e1⟩ := p1
    cases e1 with
    | some e => simp [hw1, XState.result] at h
    | none =>
      simp only [hw1] at h ⊢
      cases hw2 : gmxWait sched code fuel s1 with
      | none => simp [hw2, XState.result] at h
      | some p2 =>
        obtain ⟨s2, e2⟩ := p2
        cases e2 with
        | some e => simp [hw2, XState.result] at h
        | none =>
          simp only [hw2] at h ⊢
          by_cases hp : (s1.cur.file && s2.cur.file) = true
          · simp only [hp, if_true] at h ⊢
            have key := gmxFrames_none_terminated gv c sched code hcode need0 frames fuel s2
            generalize gmxFrames gv c sched code need0 frames fuel s2 = se at key h
            obtain ⟨s3, e⟩ := se
            cases e with
            | some e => cases e <;> simp [XState.result] at h
            | none => simpa [XState.result] using key rfl
          · simp only [hp] at h
            simp [XState.result] at h

/-- **GROMACS: mdrun is terminated / collected whenever propagate returns or raises** (anything but the model's
    out-of-fuel): `stop()` runs on leaving the `with` block, and an exception in `start()` is only raised for a
    collected return code. -/
theorem gmxExt_program_stopped (gv : Variant) (c : Cfg) (sched : Sched) (code : Int) (need0 : Nat)
    (frames : List Frame) (fuel : Nat) (h : (gmxExt gv c sched code need0 frames fuel).raised ≠ some .fuel) :
    (gmxExt gv c sched code need0 frames fuel).dead = true := by
  unfold gmxExt at h ⊢
  cases hw1 : gmxWait sched code fuel XState.init with
  | none => simp [hw1, XState.result] at h
  | some p1 =>
    obtain ⟨s1, e1⟩ := p1
    cases e1 with
    | some e => simp only [XState.result]; exact (gmxWait_err sched code fuel _ _ _ hw1).1
    | none =>
      simp only [hw1] at h ⊢
      cases hw2 : gmxWait sched code fuel s1 with
      | none => simp [hw2, XState.result] at h
      | some p2 =>
        obtain ⟨s2, e2⟩ := p2
        cases e2 with
        | some e => simp only [XState.result]; exact (gmxWait_err sched code fuel _ _ _ hw2).1
        | none =>
          simp only [hw2] at h ⊢
          generalize (if (s1.cur.file && s2.cur.file) = true then gmxFrames gv c sched code need0 frames fuel s2
            else (s2, some Err.attr)) = se at h ⊢
          obtain ⟨s3, e⟩ := se
          cases e with
          | none => rfl
          | some e => cases e <;> first | rfl | (simp [XState.result] at h)

end Infretis.EngineLoops
