import Infretis.Lemmas.EngineLoopsPath
/-!
The in-process loop runs long enough (C12): with `subcycles ≥ 1` and a length limit `≥ 1` the loop of ASE
(`range(subcycles * maxlen)`) and TurtleMD (`subcycles * maxlen + 1` systems) reaches the sample with index
`maxlen − 1` unless `add_to_path` said stop before — so the path ends exactly at the first outside frame or at the
limit, never earlier.  (A bound `subcycles * (maxlen − 1)` would make `inprocGo_stops_at` false.)
-/
namespace Infretis.EngineLoops
open Infretis.Engine

/-- the order parameter of the `k`-th sample (the system after `k·subcycles` steps) as the loop computes it -/
def sampleOrd (c : Cfg) (sub : Nat) (micro : Nat → Frame) (k : Nat) : Int :=
  (mkEntry c k (micro (k * sub)).cid (micro (k * sub)).bid (micro (k * sub)).vel).order

def Outside (c : Cfg) (x : Int) : Prop := x < c.left ∨ x > c.right

theorem inprocGo_stops_at (c : Cfg) (sub : Nat) (hsub : 0 < sub) (micro : Nat → Frame) (f : Nat) (hf : f < c.maxlen)
    (hin : ∀ k, k < f → ¬ Outside c (sampleOrd c sub micro k))
    (hstop : Outside c (sampleOrd c sub micro f) ∨ f + 1 = c.maxlen) :
    ∀ (fuel i s : Nat) (es : List Entry) (succ : Bool) (st : Option PStatus),
      s = es.length → i ≤ s * sub → s * sub < i + sub → s ≤ f → (c.maxlen - 1) * sub < i + fuel →
      (inprocGo c sub micro fuel i s es succ st).es.length = f + 1 ∧
      (inprocGo c sub micro fuel i s es succ st).raised = none ∧
      ((inprocGo c sub micro fuel i s es succ st).success = true ↔ Outside c (sampleOrd c sub micro f)) := by
  intro fuel
  induction fuel with
  | zero =>
    intro i s es succ st _ h1 _ hsf hfuel
    exfalso
    have : s * sub ≤ (c.maxlen - 1) * sub := Nat.mul_le_mul_right _ (by omega)
    omega
  | succ fuel ih =>
    intro i s es succ st hlen h1 h2 hsf hfuel
    simp only [inprocGo]
    split
    · rename_i hmod
      have hi : i = s * sub := first_multiple i (s * sub) sub hsub (Nat.dvd_mul_left _ _) h1 h2 hmod
      have hroom : es.length < c.maxlen := by omega
      obtain ⟨res, hrec, _, hst, hsu⟩ := record_fits c es s (micro i).cid (micro i).bid (micro i).vel hroom
      rw [hrec]
      simp only
      have hord : (mkEntry c s (micro i).cid (micro i).bid (micro i).vel).order = sampleOrd c sub micro s := by
        rw [hi]; rfl
      rw [hord] at hst hsu
      by_cases hsf' : s = f
      · subst hsf'
        have hstop' : res.stop = true := by
          rw [hst]
          rcases hstop with h | h
          · rcases h with h | h
            · exact Or.inl h
            · exact Or.inr (Or.inl h)
          · exact Or.inr (Or.inr (by omega))
        simp only [hstop', if_true]
        refine ⟨by simp [hlen], trivial, ?_⟩
        rw [hsu]; rfl
      · have hlt : s < f := by omega
        have hns : res.stop = false := by
          cases hr : res.stop with
          | false => rfl
          | true =>
            exfalso
            rcases hst.mp hr with h | h | h
            · exact hin s hlt (Or.inl h)
            · exact hin s hlt (Or.inr h)
            · omega
        simp only [hns, Bool.false_eq_true, if_false]
        apply ih
        · simp [hlen]
        · rw [Nat.succ_mul]; omega
        · rw [Nat.succ_mul]; omega
        · omega
        · omega
    · rename_i hmod
      apply ih _ _ _ _ _ hlen
      · have : i ≠ s * sub := by
          intro e; apply hmod; rw [e]; exact Nat.mul_mod_left _ _
        omega
      · omega
      · exact hsf
      · omega

/-- **the loop bound suffices**: `inproc` (ASE and TurtleMD) stops exactly at `f`, the first sample that is outside
    the interfaces or has index `maxlen − 1` -/
theorem inproc_stops_at (c : Cfg) (sub : Nat) (hsub : 0 < sub) (micro : Nat → Frame) (ase : Bool) (f : Nat)
    (hf : f < c.maxlen) (hin : ∀ k, k < f → ¬ Outside c (sampleOrd c sub micro k))
    (hstop : Outside c (sampleOrd c sub micro f) ∨ f + 1 = c.maxlen) :
    (inproc c sub micro ase).es.length = f + 1 ∧ (inproc c sub micro ase).raised = none ∧
    ((inproc c sub micro ase).success = true ↔ Outside c (sampleOrd c sub micro f)) := by
  have hpos : 0 < sub * c.maxlen := Nat.mul_pos hsub (by omega)
  have hb : (c.maxlen - 1) * sub < sub * c.maxlen := by
    have : (c.maxlen - 1) * sub + sub = sub * c.maxlen := by
      rw [← Nat.succ_mul, Nat.mul_comm]; congr 1; omega
    omega
  unfold inproc
  simp only
  cases ase with
  | true =>
    have hn : (sub * c.maxlen == 0) = false := by simp; omega
    simp only [if_true, Bool.true_and, hn, Bool.false_eq_true, if_false]
    exact inprocGo_stops_at c sub hsub micro f hf hin hstop (sub * c.maxlen) 0 0 [] false none rfl (by simp)
      (by simpa using hsub) (by omega) (by omega)
  | false =>
    simp only [Bool.false_eq_true, if_false, Bool.false_and]
    exact inprocGo_stops_at c sub hsub micro f hf hin hstop (sub * c.maxlen + 1) 0 0 [] false none rfl (by simp)
      (by simpa using hsub) (by omega) (by omega)

end Infretis.EngineLoops
