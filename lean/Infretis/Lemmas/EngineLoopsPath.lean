import Infretis.Lemmas.EngineLoopsInproc
/-!
`loop_path_eq_feed`: the path built by each loop model equals `feed` of the order values of the frames it
processed, so the stop rule and the success rule proved for `feed` transfer to every loop (C12).
-/
namespace Infretis.EngineLoops
open Infretis.Engine

/-- feeding the path's own order values through `add_to_path` reproduces the path, its success flag, and
    consumes all of them: no earlier frame would have stopped propagation, and the flag is the one
    `add_to_path` computed for the last one. -/
def FeedOK (c : Cfg) (es : List Entry) (succ : Bool) : Prop :=
  feed c.left c.right (some c.maxlen) [] (es.map (·.order)) 0 = some (es.map (·.order), succ, es.length)

/-- propagation has not been stopped yet: every frame inside, the limit not reached -/
def Running (c : Cfg) (es : List Entry) : Prop :=
  (∀ e, e ∈ es → c.left ≤ e.order ∧ e.order ≤ c.right) ∧ (es.length < c.maxlen ∨ (es = [] ∧ c.maxlen = 0))

theorem Running.nil (c : Cfg) : Running c [] := by
  refine ⟨by simp, ?_⟩
  by_cases h : 0 < c.maxlen
  · left; simpa using h
  · right; exact ⟨rfl, by omega⟩

theorem Running.feedOK {c : Cfg} {es : List Entry} (h : Running c es) : FeedOK c es false := by
  unfold FeedOK
  rcases h.2 with hlt | ⟨he, _⟩
  · have := feed_all_inside c.left c.right (some c.maxlen) (es.map (·.order)) [] 0
      (by intro m hm; simp at hm; subst hm; simp; omega)
      (by
        intro i x hx
        have hi : i < es.length := by
          have := (List.getElem?_eq_some_iff.mp hx).1
          simpa using this
        have hmem : x ∈ es.map (·.order) := List.mem_of_getElem? hx
        obtain ⟨e, he, rfl⟩ := List.mem_map.mp hmem
        refine ⟨(h.1 e he).1, (h.1 e he).2, ?_⟩
        simp; omega)
    simpa using this
  · subst he; simp [feed]

/-- one `add_to_path` on a running path: either it keeps running (no success), or it stops and the result is
    what `feed` returns for the extended path -/
theorem add_step (c : Cfg) (es : List Entry) (e : Entry) (ops' : List Int) (r : AddResult)
    (hrun : Running c es)
    (h : addToPath (es.map (·.order)) (some c.maxlen) e.order c.left c.right = some (ops', r)) :
    r.added = true ∧
    (r.stop = false → Running c (es ++ [e]) ∧ r.success = false) ∧
    (r.stop = true → FeedOK c (es ++ [e]) r.success) := by
  rcases hrun.2 with hlt | ⟨he, hm⟩
  · obtain ⟨res, hres, hadd, hstop, hsucc⟩ := addToPath_fits (es.map (·.order)) (some c.maxlen) e.order c.left c.right
      (by intro m hm; simp at hm; subst hm; simpa using hlt)
    rw [hres] at h
    simp only [Option.some.injEq, Prod.mk.injEq] at h
    obtain ⟨_, hr⟩ := h
    subst hr
    refine ⟨hadd, ?_, ?_⟩
    · intro hs
      have hns : ¬ (e.order < c.left ∨ e.order > c.right ∨ some c.maxlen = some ((es.map (·.order)).length + 1)) := by
        intro hh; rw [hstop.2 hh] at hs; cases hs
      refine ⟨⟨?_, ?_⟩, ?_⟩
      · intro e' he'
        simp only [List.mem_append, List.mem_singleton] at he'
        rcases he' with he' | rfl
        · exact hrun.1 e' he'
        · constructor <;> omega
      · left
        have : c.maxlen ≠ es.length + 1 := by
          intro hh; apply hns; right; right; simp [hh]
        simp; omega
      · cases hsu : res.success with
        | false => rfl
        | true => exact absurd (Or.elim (hsucc.1 hsu) Or.inl (fun h => Or.inr (Or.inl h))) hns
    · intro hs
      unfold FeedOK
      have hx := hstop.1 hs
      have := feed_stop_last c.left c.right (some c.maxlen) (es.map (·.order)) [] e.order 0
        (by intro m hm; simp at hm; subst hm; simp; omega)
        (by
          intro i x hx
          have hi : i < es.length := by
            have := (List.getElem?_eq_some_iff.mp hx).1
            simpa using this
          have hmem : x ∈ es.map (·.order) := List.mem_of_getElem? hx
          obtain ⟨e', he', rfl⟩ := List.mem_map.mp hmem
          refine ⟨(hrun.1 e' he').1, (hrun.1 e' he').2, ?_⟩
          simp; omega)
        (by simpa using hx)
      have hsu : res.success = decide (e.order < c.left ∨ e.order > c.right) := by
        cases h : res.success with
        | true => exact (decide_eq_true (hsucc.1 h)).symm
        | false =>
          have : ¬ (e.order < c.left ∨ e.order > c.right) := fun hh => by rw [hsucc.2 hh] at h; cases h
          exact (decide_eq_false this).symm
      rw [hsu]
      simpa using this
  · subst he
    simp [addToPath, pathAppend, hm] at h

theorem record_step (c : Cfg) (es es' : List Entry) (idx cid bid : Nat) (v : Int) (r : AddResult)
    (hrun : Running c es) (h : record c es idx cid bid v = some (es', r)) :
    (r.stop = false → Running c es' ∧ r.success = false) ∧ (r.stop = true → FeedOK c es' r.success) := by
  simp only [record] at h
  split at h
  · simp at h
  · rename_i ops' r' hadd
    simp only [Option.some.injEq, Prod.mk.injEq] at h
    obtain ⟨h1, h2⟩ := h
    subst h2
    obtain ⟨ha, hb, hc⟩ := add_step c es _ ops' r' hrun hadd
    simp only [ha, if_true] at h1
    subst h1
    exact ⟨hb, hc⟩

theorem gmxRecord_step (gv : Variant) (c : Cfg) (es es' : List Entry) (idx : Nat) (f : Frame) (r : AddResult)
    (hrun : Running c es) (h : gmxRecord gv c es idx f = some (es', r)) :
    (r.stop = false → Running c es' ∧ r.success = false) ∧ (r.stop = true → FeedOK c es' r.success) := by
  simp only [gmxRecord] at h
  split at h
  · simp at h
  · rename_i ops' r' hadd
    simp only [Option.some.injEq, Prod.mk.injEq] at h
    obtain ⟨h1, h2⟩ := h
    subst h2
    obtain ⟨ha, hb, hc⟩ := add_step c es (gmxEntry gv c idx f) ops' r' hrun hadd
    simp only [ha, if_true] at h1
    subst h1
    exact ⟨hb, hc⟩


/-! ### in-process loop and the plain GROMACS consumer loop -/

theorem inprocGo_feed (c : Cfg) (sub : Nat) (micro : Nat → Frame) :
    ∀ (fuel i stepNr : Nat) (es : List Entry) (succ : Bool) (st : Option PStatus),
      Running c es → succ = false →
      FeedOK c (inprocGo c sub micro fuel i stepNr es succ st).es (inprocGo c sub micro fuel i stepNr es succ st).success := by
  intro fuel
  induction fuel with
  | zero => intro i stepNr es succ st h hs; subst hs; simpa [inprocGo] using h.feedOK
  | succ fuel ih =>
    intro i stepNr es succ st h hs
    subst hs
    simp only [inprocGo]
    split
    · cases hrec : record c es stepNr (micro i).cid (micro i).bid (micro i).vel with
      | none => exact h.feedOK
      | some pr =>
        obtain ⟨es', r⟩ := pr
        obtain ⟨g1, g2⟩ := record_step c es es' _ _ _ _ r h hrec
        simp only
        split
        · rename_i hst; exact g2 hst
        · rename_i hst
          have hst' : r.stop = false := by simpa using hst
          exact ih _ _ _ _ _ (g1 hst').1 (g1 hst').2
    · exact ih _ _ _ _ _ h rfl

/-- **ASE / TurtleMD: the path equals `feed` of the visited frames' order values.** -/
theorem inproc_path_eq_feed (c : Cfg) (sub : Nat) (micro : Nat → Frame) (ase : Bool) :
    FeedOK c (inproc c sub micro ase).es (inproc c sub micro ase).success := by
  unfold inproc
  simp only
  generalize (if ase = true then sub * c.maxlen else sub * c.maxlen + 1) = n
  exact ite_pick (fun (R : Result) => FeedOK c R.es R.success) _ _ _ (Running.nil c).feedOK
    (inprocGo_feed c sub micro n 0 0 [] false none (Running.nil c) rfl)

theorem gmxGo_feed (gv : Variant) (c : Cfg) :
    ∀ (rest : List Frame) (i : Nat) (es : List Entry) (succ : Bool) (st : Option PStatus),
      Running c es → succ = false →
      FeedOK c (gmxGo gv c rest i es succ st).es (gmxGo gv c rest i es succ st).success := by
  intro rest
  induction rest with
  | nil => intro i es succ st h hs; subst hs; simpa [gmxGo] using h.feedOK
  | cons f rest ih =>
    intro i es succ st h hs
    subst hs
    simp only [gmxGo]
    cases hrec : gmxRecord gv c es i f with
    | none => exact h.feedOK
    | some pr =>
      obtain ⟨es', r⟩ := pr
      obtain ⟨g1, g2⟩ := gmxRecord_step gv c es es' i f r h hrec
      simp only
      split
      · rename_i hst; exact g2 hst
      · rename_i hst
        have hst' : r.stop = false := by simpa using hst
        exact ih _ _ _ _ (g1 hst').1 (g1 hst').2

theorem gmxRun_path_eq_feed (gv : Variant) (c : Cfg) (frames : List Frame) :
    FeedOK c (gmxRun gv c frames).es (gmxRun gv c frames).success :=
  gmxGo_feed gv c frames 0 [] false none (Running.nil c) rfl

/-! ### state predicates shared by the polled loops -/

def RS (c : Cfg) (s : XState) : Prop := Running c s.es ∧ s.success = false
def FS (c : Cfg) (s : XState) : Prop := FeedOK c s.es s.success

theorem RS.fs {c : Cfg} {s : XState} (h : RS c s) : FS c s := by
  unfold FS; rw [h.2]; exact h.1.feedOK

theorem RS.init (c : Cfg) : RS c XState.init := ⟨Running.nil c, rfl⟩

theorem RS.poll {c : Cfg} {s : XState} (sched : Sched) (h : RS c s) : RS c (poll sched s).1 := by
  unfold EngineLoops.poll
  simp only
  split
  · exact h
  · split <;> exact h

theorem FS.poll {c : Cfg} {s : XState} (sched : Sched) (h : FS c s) : FS c (poll sched s).1 := by
  unfold EngineLoops.poll
  simp only
  split
  · exact h
  · split <;> exact h

theorem RS.endIter {c : Cfg} {s : XState} (sched : Sched) (h : RS c s) : RS c (endIter sched s) := by
  unfold EngineLoops.endIter
  simp only
  have := RS.poll sched (show RS c (tick sched s) from h)
  split <;> exact this

theorem FS.endIter {c : Cfg} {s : XState} (sched : Sched) (h : FS c s) : FS c (endIter sched s) := by
  unfold EngineLoops.endIter
  simp only
  have := FS.poll sched (show FS c (tick sched s) from h)
  split <;> exact this

/-! ### GROMACS through `GromacsRunner` -/

theorem gmxConsume_feed (gv : Variant) (c : Cfg) (s s' : XState) (f : Frame) (stop : Bool)
    (h : RS c s) (hc : gmxConsume gv c s f = some (s', stop)) :
    (stop = false → RS c s') ∧ (stop = true → FS c s') := by
  simp only [gmxConsume] at hc
  cases hrec : gmxRecord gv c s.es s.stepNr f with
  | none => simp [hrec] at hc
  | some pr =>
    obtain ⟨es', r⟩ := pr
    obtain ⟨g1, g2⟩ := gmxRecord_step gv c s.es es' s.stepNr f r h.1 hrec
    simp only [hrec] at hc
    by_cases hs : r.stop = true
    · simp only [hs, if_true, Option.some.injEq, Prod.mk.injEq] at hc
      obtain ⟨e1, e2⟩ := hc
      subst e1 e2
      exact ⟨(fun hh => by cases hh), fun _ => g2 hs⟩
    · simp only [hs, Bool.false_eq_true, if_false, Option.some.injEq, Prod.mk.injEq] at hc
      obtain ⟨e1, e2⟩ := hc
      subst e1 e2
      have hs' : r.stop = false := by simpa using hs
      exact ⟨fun _ => g1 hs', (fun hh => by cases hh)⟩

theorem gmxDrain_feed (gv : Variant) (c : Cfg) :
    ∀ (L : List Frame) (s : XState), RS c s → FS c (gmxDrain gv c L s).1 := by
  intro L
  induction L with
  | nil => intro s h; simpa [gmxDrain] using h.fs
  | cons f rest ih =>
    intro s h
    simp only [gmxDrain]
    cases hc : gmxConsume gv c s f with
    | none => exact h.fs
    | some pr =>
      obtain ⟨s', stop⟩ := pr
      obtain ⟨g1, g2⟩ := gmxConsume_feed gv c s s' f stop h hc
      simp only
      cases stop with
      | true => simpa using g2 rfl
      | false => simpa using ih s' (g1 rfl)

theorem gmxFrames_feed (gv : Variant) (c : Cfg) (sched : Sched) (code : Int) (need0 : Nat) (frames : List Frame) :
    ∀ (fuel : Nat) (s : XState), RS c s → FS c (gmxFrames gv c sched code need0 frames fuel s).1 := by
  intro fuel
  induction fuel with
  | zero => intro s h; simpa [gmxFrames] using h.fs
  | succ fuel ih =>
    intro s h
    simp only [gmxFrames]
    have hp := RS.poll sched h
    generalize EngineLoops.poll sched s = ps at hp
    obtain ⟨s1, alive⟩ := ps
    simp only at hp ⊢
    split
    · exact ite_pick (fun (x : XState × Option Err) => FS c x.1) _ _ _ hp.fs (gmxDrain_feed gv c _ s1 hp)
    · have hT := ih _ (show RS c (tick sched s1) from hp)
      cases hf : frames[s1.rp]? with
      | none =>
        simp only
        exact ite_pick (fun (x : XState × Option Err) => FS c x.1) _ _ _ hp.fs hT
      | some f =>
        simp only
        cases hc : gmxConsume gv c s1 f with
        | none =>
          simp only
          exact ite_pick (fun (x : XState × Option Err) => FS c x.1) _ _ _ hp.fs hT
        | some pr =>
          obtain ⟨s', stop⟩ := pr
          obtain ⟨g1, g2⟩ := gmxConsume_feed gv c s1 s' f stop hp hc
          simp only
          cases stop with
          | true =>
            simp only [if_true]
            exact ite_pick (fun (x : XState × Option Err) => FS c x.1) _ _ _ (g2 rfl) hT
          | false =>
            simp only [Bool.false_eq_true, if_false]
            exact ite_pick (fun (x : XState × Option Err) => FS c x.1) _ _ _ (ih s' (g1 rfl)) hT

theorem gmxWait_rs (c : Cfg) (sched : Sched) (code : Int) :
    ∀ (fuel : Nat) (s s' : XState) (e : Option Err), RS c s → gmxWait sched code fuel s = some (s', e) → RS c s' := by
  intro fuel
  induction fuel with
  | zero => intro s s' e _ h; simp [gmxWait] at h
  | succ fuel ih =>
    intro s s' e hi h
    simp only [gmxWait] at h
    split at h
    · simp only [Option.some.injEq, Prod.mk.injEq] at h; obtain ⟨h, _⟩ := h; subst h; exact hi
    · have hp := RS.poll sched (show RS c (tick sched s) from hi)
      generalize EngineLoops.poll sched (tick sched s) = ps at hp h
      obtain ⟨s1, alive⟩ := ps
      simp only at hp h
      split at h
      · exact ih s1 s' e hp h
      · split at h <;>
        · simp only [Option.some.injEq, Prod.mk.injEq] at h; obtain ⟨h, _⟩ := h; subst h; exact hp

/-- **GROMACS through `GromacsRunner`, every schedule: the path equals `feed` of the yielded frames' orders.** -/
theorem gmxExt_path_eq_feed (gv : Variant) (c : Cfg) (sched : Sched) (code : Int) (need0 : Nat)
    (frames : List Frame) (fuel : Nat) :
    FeedOK c (gmxExt gv c sched code need0 frames fuel).es (gmxExt gv c sched code need0 frames fuel).success := by
  have h0 := RS.init c
  unfold gmxExt
  cases hw1 : gmxWait sched code fuel XState.init with
  | none => exact h0.fs
  | some p1 =>
    obtain ⟨s1, e1⟩ := p1
    have hi1 := gmxWait_rs c sched code fuel _ _ _ h0 hw1
    cases e1 with
    | some e => exact hi1.fs
    | none =>
      simp only
      cases hw2 : gmxWait sched code fuel s1 with
      | none => exact hi1.fs
      | some p2 =>
        obtain ⟨s2, e2⟩ := p2
        have hi2 := gmxWait_rs c sched code fuel _ _ _ hi1 hw2
        cases e2 with
        | some e => exact hi2.fs
        | none =>
          simp only
          have hF : FS c (if (s1.cur.file && s2.cur.file) = true then gmxFrames gv c sched code need0 frames fuel s2
                else (s2, some Err.attr)).1 := by
            split
            · exact gmxFrames_feed gv c sched code need0 frames fuel s2 hi2
            · exact hi2.fs
          generalize (if (s1.cur.file && s2.cur.file) = true then gmxFrames gv c sched code need0 frames fuel s2
                else (s2, some Err.attr)) = se at hF
          obtain ⟨s3, e⟩ := se
          cases e with
          | none => exact hF
          | some e => cases e <;> exact hF


/-! ### LAMMPS / CP2K -/

theorem poll_success (sched : Sched) (s : XState) : (poll sched s).1.success = s.success := by
  unfold poll; simp only; split
  · rfl
  · split <;> rfl

theorem afterAdd_stop_success (sched : Sched) (s : XState) (es' : List Entry) (r : AddResult) (h : r.stop = true) :
    (afterAdd sched s es' r).1.success = r.success := by
  simp only [afterAdd, h, if_true]
  simp only [poll_success]

def BatchPostF (c : Cfg) : BatchRes → Prop
  | .done s' => RS c s'
  | .stopped s' => FS c s' ∧ s'.it = 2 ∧ s'.dead = true
  | .err _ s' => RS c s'

theorem batch_feed (k : Kind) (c : Cfg) (sched : Sched) :
    ∀ (n : Nat) (s : XState), RS c s → BatchPostF c (batch k c sched n s) := by
  intro n
  induction n with
  | zero => intro s h; simpa [batch, BatchPostF] using h
  | succ n ih =>
    intro s h
    cases k with
    | lammps v =>
      simp only [batch]
      cases hpos : s.pos with
      | nil => simpa [BatchPostF] using h
      | cons f rest =>
        simp only
        cases hpop : popBox v s.boxes with
        | none => simpa [BatchPostF] using h
        | some pb =>
          obtain ⟨b, boxes'⟩ := pb
          simp only
          cases hrec : record c s.es s.stepNr f.cid b f.vel with
          | none => simpa [BatchPostF] using h
          | some pr =>
            obtain ⟨es', r⟩ := pr
            obtain ⟨g1, g2⟩ := record_step c s.es es' _ _ _ _ r h.1 hrec
            simp only
            by_cases hs : r.stop = true
            · obtain ⟨a1, a2, _, a4, a5⟩ := afterAdd_stop sched { s with pos := rest, boxes := boxes' } es' r hs
              have a6 := afterAdd_stop_success sched { s with pos := rest, boxes := boxes' } es' r hs
              simp only [a1, if_true, BatchPostF]
              refine ⟨?_, a4, a5⟩
              unfold FS
              rw [a2, a6]
              exact g2 hs
            · have hs' : r.stop = false := by simpa using hs
              rw [afterAdd_noStop _ _ _ _ hs']
              simp only [Bool.false_eq_true, if_false]
              exact ih _ ⟨(g1 hs').1, (g1 hs').2⟩
    | cp2k b0 =>
      simp only [batch]
      cases hpos : s.pos with
      | nil => simpa [BatchPostF] using h
      | cons p prest =>
        cases hvel : s.vels with
        | nil => simpa [BatchPostF] using h
        | cons w vrest =>
          simp only
          cases hrec : record c s.es s.stepNr p.cid b0 w.vel with
          | none => simpa [BatchPostF] using h
          | some pr =>
            obtain ⟨es', r⟩ := pr
            obtain ⟨g1, g2⟩ := record_step c s.es es' _ _ _ _ r h.1 hrec
            simp only
            by_cases hs : r.stop = true
            · obtain ⟨a1, a2, _, a4, a5⟩ := afterAdd_stop sched { s with pos := prest, vels := vrest } es' r hs
              have a6 := afterAdd_stop_success sched { s with pos := prest, vels := vrest } es' r hs
              simp only [a1, if_true, BatchPostF]
              refine ⟨?_, a4, a5⟩
              unfold FS
              rw [a2, a6]
              exact g2 hs
            · have hs' : r.stop = false := by simpa using hs
              rw [afterAdd_noStop _ _ _ _ hs']
              simp only [Bool.false_eq_true, if_false]
              exact ih _ ⟨(g1 hs').1, (g1 hs').2⟩

theorem readNew_rs (k : Kind) (c : Cfg) (frames : List Frame) (s s' : XState)
    (h : RS c s) (hr : readNew k frames s = some s') : RS c s' := by
  cases k with
  | lammps v =>
    simp only [EngineLoops.readNew] at hr
    split at hr
    · simp only [Option.some.injEq] at hr; subst hr; exact h
    · simp at hr
  | cp2k b0 =>
    simp only [EngineLoops.readNew] at hr
    split at hr <;> (simp only [Option.some.injEq] at hr; subst hr; exact h)

theorem readerLoop_feed (k : Kind) (c : Cfg) (sched : Sched) (frames : List Frame) :
    ∀ (fuel : Nat) (s : XState), (RS c s ∨ (FS c s ∧ s.it = 2 ∧ s.dead = true)) →
      FS c (readerLoop k c sched frames fuel s).1 := by
  intro fuel
  induction fuel with
  | zero =>
    intro s h
    simp only [readerLoop]
    rcases h with h | h
    · exact h.fs
    · exact h.1
  | succ fuel ih =>
    intro s h
    simp only [readerLoop]
    rcases h with h | ⟨hF, hit, hdead⟩
    · have hp := RS.poll sched h
      generalize EngineLoops.poll sched s = ps at hp
      obtain ⟨s1, alive⟩ := ps
      simp only at hp ⊢
      split
      · cases hr : readNew k frames s1 with
        | none => exact hp.fs
        | some s2 =>
          simp only
          have hi2 := readNew_rs k c frames s1 s2 hp hr
          have hb := batch_feed k c sched (batchCount k s2)
            { s2 with multi := s2.multi || decide (2 ≤ batchCount k s2) } hi2
          generalize batch k c sched (batchCount k s2)
            { s2 with multi := s2.multi || decide (2 ≤ batchCount k s2) } = br at hb
          cases br with
          | done s4 => exact ih _ (Or.inl (RS.endIter sched hb))
          | stopped s4 =>
            obtain ⟨b1, b2, b3⟩ := hb
            exact ih _ (Or.inr ⟨FS.endIter sched b1, endIter_stopped sched s4 b2 b3⟩)
          | err e s4 => exact RS.fs hb
      · exact hp.fs
    · rw [poll_dead sched s hdead]
      have hit' : (tick sched s).it = 2 := hit
      simp only [hit']
      simp only [Bool.false_or, Nat.reduceLeDiff, decide_false, Bool.false_eq_true, if_false]
      exact hF

theorem waitFile_rs (c : Cfg) (sched : Sched) :
    ∀ (fuel : Nat) (s s' : XState), RS c s → waitFile sched fuel s = some s' → RS c s' := by
  intro fuel
  induction fuel with
  | zero => intro s s' _ h; simp [waitFile] at h
  | succ fuel ih =>
    intro s s' hi h
    simp only [waitFile] at h
    split at h
    · simp only [Option.some.injEq] at h; subst h; exact hi
    · have hp := RS.poll sched (show RS c (tick sched s) from hi)
      generalize EngineLoops.poll sched (tick sched s) = ps at hp h
      obtain ⟨s1, alive⟩ := ps
      simp only at hp h
      split at h
      · exact ih s1 s' hp h
      · simp only [Option.some.injEq] at h; subst h; exact hp

theorem ite_result_success (s : XState) (p : Prop) [Decidable p] (e1 e2 : Option Err) :
    (if p then s.result e1 else s.result e2).success = s.success := by split <;> rfl

/-- **LAMMPS / CP2K, every schedule: the path equals `feed` of the processed frames' order values.** -/
theorem extRun_path_eq_feed (k : Kind) (c : Cfg) (sched : Sched) (code : Int) (frames : List Frame) (fuel : Nat) :
    FeedOK c (extRun k c sched code frames fuel).es (extRun k c sched code frames fuel).success := by
  unfold extRun
  cases hw : waitFile sched fuel XState.init with
  | none => exact (RS.init c).fs
  | some s =>
    simp only
    have hi := waitFile_rs c sched fuel _ _ (RS.init c) hw
    have hp := RS.poll sched hi
    generalize EngineLoops.poll sched s = ps at hp
    obtain ⟨s1, alive⟩ := ps
    simp only at hp ⊢
    have hF : FS c
        (if (alive || decide (code = 0)) = true then readerLoop k c sched frames fuel s1 else (s1, none)).1 := by
      split
      · exact readerLoop_feed k c sched frames fuel s1 (Or.inl hp)
      · exact hp.fs
    generalize (if (alive || decide (code = 0)) = true then readerLoop k c sched frames fuel s1 else (s1, none)) = se
      at hF
    obtain ⟨s2, e⟩ := se
    cases e with
    | some e => exact hF
    | none =>
      simp only [ite_result_es, ite_result_success]
      exact hF


/-! ### the error branch: LAMMPS ends with exit code 0 without ever writing its dump file -/

theorem waitFile_nofile (sched : Sched) (hnf : ∀ t, (sched t).file = false) :
    ∀ (fuel : Nat) (s s' : XState), s.cur.file = false → waitFile sched fuel s = some s' →
      s'.dead = true ∧ s'.cur.file = false ∧ s'.it = s.it ∧ s'.es = s.es := by
  intro fuel
  induction fuel with
  | zero => intro s s' _ h; simp [waitFile] at h
  | succ fuel ih =>
    intro s s' hf h
    simp only [waitFile, hf, Bool.false_eq_true, if_false] at h
    have hpd := poll_not_alive sched (tick sched s)
    have hcur : (EngineLoops.poll sched (tick sched s)).1.cur.file = false := by
      unfold EngineLoops.poll
      simp only
      split
      · exact hnf _
      · split <;> exact hnf _
    have hit : (EngineLoops.poll sched (tick sched s)).1.it = s.it := by
      unfold EngineLoops.poll
      simp only
      split
      · rfl
      · split <;> rfl
    have hes := poll_es sched (tick sched s)
    generalize EngineLoops.poll sched (tick sched s) = ps at hpd hcur hit hes h
    obtain ⟨s1, alive⟩ := ps
    simp only at hpd hcur hit hes h
    split at h
    · obtain ⟨a, b, c', d⟩ := ih s1 s' hcur h
      exact ⟨a, b, by rw [c', hit], by rw [d, hes]; rfl⟩
    · rename_i ha
      have ha' : alive = false := by cases alive <;> simp_all
      simp only [Option.some.injEq] at h
      subst h
      exact ⟨hpd ha', hcur, hit, by rw [hes]; rfl⟩

/-- **What happens in the branch `program_stopped_on_return` does not cover**: if `lmp` never creates its dump
    file and ends with exit code 0, `read_and_process_content()` returns `[]`, `frames[0]` raises IndexError —
    with the program already collected (`dead`) and the path still empty.  (The only other outcome is the
    model's out-of-fuel, i.e. the code still waiting because the program is still alive.) -/
theorem lammps_no_dump_index_error (v : Variant) (c : Cfg) (sched : Sched) (frames : List Frame) (fuel : Nat)
    (hnf : ∀ t, (sched t).file = false) :
    (extRun (.lammps v) c sched 0 frames fuel).raised = some .fuel ∨
    ((extRun (.lammps v) c sched 0 frames fuel).raised = some .index ∧
     (extRun (.lammps v) c sched 0 frames fuel).dead = true ∧
     (extRun (.lammps v) c sched 0 frames fuel).killed = false ∧
     (extRun (.lammps v) c sched 0 frames fuel).es = []) := by
  unfold extRun
  cases hw : waitFile sched fuel XState.init with
  | none => left; rfl
  | some s =>
    obtain ⟨hd, hf, hit, hes⟩ := waitFile_nofile sched hnf fuel _ _ rfl hw
    have hk : s.killed = false := by
      have : ∀ (fuel : Nat) (s s' : XState), waitFile sched fuel s = some s' → s'.killed = s.killed := by
        intro fuel
        induction fuel with
        | zero => intro s s' h; simp [waitFile] at h
        | succ fuel ih =>
          intro s s' h
          simp only [waitFile] at h
          split at h
          · simp only [Option.some.injEq] at h; subst h; rfl
          · have hkk : (EngineLoops.poll sched (tick sched s)).1.killed = s.killed := by
              unfold EngineLoops.poll
              simp only
              split
              · rfl
              · split <;> rfl
            generalize EngineLoops.poll sched (tick sched s) = ps at hkk h
            obtain ⟨s1, alive⟩ := ps
            simp only at hkk h
            split at h
            · rw [ih s1 s' h, hkk]
            · simp only [Option.some.injEq] at h; subst h; exact hkk
      exact this fuel _ _ hw
    simp only
    rw [poll_dead sched s hd]
    simp only [Bool.false_or, decide_true, if_true]
    cases fuel with
    | zero => left; simp [readerLoop, XState.result]
    | succ fuel =>
      right
      simp only [readerLoop]
      have hd' : (tick sched s).dead = true := hd
      rw [poll_dead sched (tick sched s) hd']
      have hit' : (tick sched (tick sched s)).it = 0 := by
        show s.it = 0
        rw [hit]; rfl
      have hfile : (tick sched (tick sched s)).cur.file = false := hnf _
      simp only [hit', Bool.false_or, Nat.zero_le, decide_true, if_true, EngineLoops.readNew, hfile,
        Bool.false_eq_true, if_false, XState.result]
      refine ⟨trivial, hd, hk, ?_⟩
      show s.es = []
      rw [hes]; rfl

end Infretis.EngineLoops
