import Infretis.Model.EnginePropagate
import Infretis.Lemmas.EngineLoopsPath
/-!
Lemmas about `Infretis/Model/EnginePropagate.lean` (C12 extension): the frame the `propagate` wrapper leaves at
`(initial_conf, 0)`, the sign bookkeeping, iterated reversible dynamics.
-/
namespace Infretis.EnginePropagate
open Infretis.Engine Infretis.EngineLoops

/-- the phase point `p` refers to frame `f`: `(file, idx)` holds it (`idx = None`: a single-configuration file) -/
def PointHas (st : Store) (p : Point) (f : Frame) : Prop :=
  match p.idx with
  | some i => (st p.file)[i]? = some f
  | none => (st p.file)[0]? = some f

/-- time reversibility of the one-step map: stepping, flipping the velocities and stepping again gives the
    flipped starting state -/
def Reversible (step : Frame → Frame) : Prop := ∀ x, step (flipV (step x)) = flipV x

theorem set_same (st : Store) (n : FName) (v : List Frame) : (st.set n v) n = v := by simp [Store.set]

theorem set_other (st : Store) (n m : FName) (v : List Frame) (h : m ≠ n) : (st.set n v) m = st m := by
  simp [Store.set, h]

theorem propagateSetup_velRev (reverse : Bool) (p : Point) : (propagateSetup reverse p).sys.velRev = reverse := by
  unfold propagateSetup; simp only; split <;> rfl

theorem propagateSetup_sys (reverse : Bool) (p : Point) :
    (propagateSetup reverse p).sys = ⟨(propagateSetup reverse p).initialConf, some 0, reverse⟩ := by
  unfold propagateSetup; simp only; split <;> rfl

theorem take_one_map_head (l : List Frame) (f : Frame) (h : l[0]? = some f) :
    ((l.take 1).map flipV)[0]? = some (flipV f) := by
  cases l with
  | nil => simp at h
  | cons a t => simp at h; subst h; simp

/-- **the frame at `(initial_conf, 0)`** is the phase point's own frame, velocities flipped iff
    `reverse != vel_rev` — whichever of copy / no copy / extract the wrapper chose -/
theorem startFrame_spec (reverse : Bool) (st : Store) (p : Point) (f : Frame) (h : PointHas st p f) :
    startFrame reverse st p = some (if reverse != p.velRev then flipV f else f) := by
  obtain ⟨file, idx, vr⟩ := p
  unfold PointHas at h
  simp only at h
  cases idx with
  | some i =>
    simp only at h
    by_cases hr : (reverse != vr) = true
    · simp only [startFrame, propagateSetup, dumpConfig, hr, if_true, List.cons_append, List.nil_append, runCalls,
        applyCall, h]
      rw [set_same]
      apply take_one_map_head
      rw [set_same]; rfl
    · simp only [startFrame, propagateSetup, dumpConfig, hr]
      simp only [Bool.false_eq_true, if_false, runCalls, applyCall, h]
      rw [set_same]; rfl
  | none =>
    simp only at h
    by_cases hf : file = .conf
    · subst hf
      by_cases hr : (reverse != vr) = true
      · simp only [startFrame, propagateSetup, dumpConfig, hr, if_true, ne_eq, not_true_eq_false, if_false,
          List.nil_append, runCalls, applyCall]
        rw [set_same]
        exact take_one_map_head _ _ h
      · simp only [startFrame, propagateSetup, dumpConfig, hr, ne_eq, not_true_eq_false, if_false]
        simp only [Bool.false_eq_true, if_false, runCalls]
        exact h
    · by_cases hr : (reverse != vr) = true
      · simp only [startFrame, propagateSetup, dumpConfig, hr, if_true, ne_eq, hf, not_false_eq_true,
          List.cons_append, List.nil_append, runCalls, applyCall]
        rw [set_same]
        apply take_one_map_head
        rw [set_same]; exact h
      · simp only [startFrame, propagateSetup, dumpConfig, hr, ne_eq, hf, not_false_eq_true, if_true]
        simp only [Bool.false_eq_true, if_false, runCalls, applyCall]
        rw [set_same]; exact h

/-- the velocity the order function sees for the start frame is the phase point's own physical velocity
    `(-1)^vel_rev · v`, for every `reverse` -/
theorem start_velocity_seen (reverse vr : Bool) (f : Frame) :
    velSeen reverse (if reverse != vr then flipV f else f).vel = velSeen vr f.vel := by
  cases reverse <;> cases vr <;> simp [velSeen, flipV]

theorem start_cid_bid (reverse vr : Bool) (f : Frame) :
    (if reverse != vr then flipV f else f).cid = f.cid ∧ (if reverse != vr then flipV f else f).bid = f.bid := by
  cases reverse <;> cases vr <;> simp [flipV]

theorem flipV_flipV (f : Frame) : flipV (flipV f) = f := by
  cases f; simp [flipV]

/-- **reversible dynamics retraces itself**: from the flipped state after `n` steps, `i ≤ n` further steps give the
    flipped state after `n - i` steps -/
theorem reversible_iter (step : Frame → Frame) (hrev : Reversible step) (x : Frame) (n : Nat) :
    ∀ i, i ≤ n → iter step (flipV (iter step x n)) i = flipV (iter step x (n - i)) := by
  intro i
  induction i with
  | zero => intro _; rfl
  | succ i ih =>
    intro hi
    have h1 : iter step (flipV (iter step x n)) i = flipV (iter step x (n - i)) := ih (by omega)
    have h2 : n - i = (n - (i + 1)) + 1 := by omega
    simp only [iter]
    rw [h1, h2]
    simp only [iter]
    exact hrev _

theorem unSee_velSeen (rev : Bool) (v : Int) : unSee rev (velSeen rev v) = v := by
  cases rev <;> simp [unSee, velSeen]

theorem propagateInproc_eq (c : Cfg) (sub : Nat) (step : Frame → Frame) (ase reverse : Bool) (st : Store) (p : Point)
    (f0 : Frame) (hs : startFrame reverse st p = some f0) :
    propagateInproc c sub step ase reverse st p = some ⟨propagateSetup reverse p, true,
      inproc { c with rev := (propagateSetup reverse p).sys.velRev } sub (iter step f0) ase⟩ := by
  simp only [propagateInproc, hs]

theorem propagateExt_eq (k : Kind) (c : Cfg) (sched : Sched) (code : Int) (prog : Frame → List Frame) (fuel : Nat)
    (reverse : Bool) (st : Store) (p : Point) (f0 : Frame) (hs : startFrame reverse st p = some f0) :
    propagateExt k c sched code prog fuel reverse st p = some ⟨propagateSetup reverse p, true,
      extRun k { c with rev := (propagateSetup reverse p).sys.velRev } sched code (prog f0) fuel⟩ := by
  simp only [propagateExt, hs]

end Infretis.EnginePropagate
