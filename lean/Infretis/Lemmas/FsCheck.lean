import Infretis.Lemmas.FsRows
import Infretis.Model.FsCheck
/-!
C08: soundness of the executable hypothesis checks of `Model/FsCheck.lean`: whenever the driver
answers `inv=1` / `wf=1` / `cover=1` / `complete=1` for a state reconstructed from the real run, the
corresponding hypothesis of the C08 theorems holds for it.
-/
namespace Infretis.Fs

theorem pnsB_eq (l : List PathInfo) : pnsB l = pns l := rfl

theorem invB_sound (M : Manifest) (m : Mem) (d : Disk) (h : invB M m d = true) : Inv M m d := by
  unfold invB at h
  simp only [Bool.and_eq_true, pnsB_eq] at h
  obtain ⟨⟨⟨⟨⟨⟨h1, h2⟩, h3⟩, h4⟩, h5⟩, h6⟩, h7⟩ := h
  refine { record := ?_, live_ok := ?_, live_nodup := ?_, olds := ?_, rows := h5, rows_lt := ?_, rf := ?_ }
  · cases hr : d.restart with
    | complete r =>
      rw [hr] at h1
      simp only [Bool.and_eq_true, beq_iff_eq, bne_iff_ne, ne_eq] at h1
      obtain ⟨⟨⟨a, b⟩, c⟩, e⟩ := h1
      exact ⟨r, rfl, a, b, c, e⟩
    | absent => rw [hr] at h1; cases h1
    | empty => rw [hr] at h1; cases h1
    | part => rw [hr] at h1; cases h1
  · intro p hp
    have := List.all_eq_true.1 h2 p hp
    simp only [Bool.and_eq_true, decide_eq_true_eq, beq_iff_eq] at this
    exact ⟨this.1.1, this.1.2, this.2⟩
  · exact of_decide_eq_true h3
  · intro o ho
    have := List.all_eq_true.1 h4 o ho
    simp only [Bool.and_eq_true, decide_eq_true_eq, Bool.not_eq_true', List.contains_eq_mem,
      decide_eq_false_iff_not] at this
    exact this
  · intro q hq
    have := List.all_eq_true.1 h6 q hq
    exact of_decide_eq_true this
  · intro R hR
    rw [hR] at h7
    exact of_decide_eq_true h7

theorem wfB_sound (cfg : Cfg) (M : Manifest) (m : Mem) (c : Choice) (d : Disk)
    (h : wfB cfg M m c d = true) : WF cfg M m c d := by
  unfold wfB at h
  simp only [Bool.and_eq_true, pnsB_eq] at h
  obtain ⟨⟨⟨⟨⟨⟨⟨⟨h1, h2⟩, h3⟩, h4⟩, h5⟩, h6⟩, h7⟩, h8⟩, h9⟩ := h
  refine { old_live := ?_, old_nodup := of_decide_eq_true h2, names_nodup := of_decide_eq_true h3,
           sources := ?_, few := of_decide_eq_true h5, new_live := ?_,
           new_nodup := of_decide_eq_true h7, manifest := ?_, final := ?_ }
  · intro a ha
    have := List.all_eq_true.1 h1 a ha
    simpa using this
  · intro a ha nc hnc
    have := List.all_eq_true.1 (List.all_eq_true.1 h4 a ha) nc hnc
    simpa using this
  · intro p hp
    have := List.all_eq_true.1 h6 p hp
    rcases Bool.or_eq_true_iff.1 this with hl | hr
    · left
      simp only [Bool.and_eq_true, List.contains_eq_mem, decide_eq_true_eq, List.all_eq_true,
        bne_iff_ne, ne_eq] at hl
      exact hl
    · right
      obtain ⟨i, _, hi⟩ := List.any_eq_true.1 hr
      cases ha : c.accs[i]? with
      | none => rw [ha] at hi; cases hi
      | some a =>
        rw [ha] at hi
        exact ⟨i, a, ha, by simpa [newPath] using hi⟩
  · intro a ha
    have := List.all_eq_true.1 h8 a ha
    simpa using this
  · intro hinc
    rw [hinc] at h9
    simp only [Bool.false_or, Bool.and_eq_true, List.isEmpty_iff, bne_iff_ne, ne_eq] at h9
    exact h9

theorem coverB_sound (m : Mem) (c : Choice) (h : coverB m c = true) : Cover m c := by
  unfold coverB at h
  simp only [Bool.and_eq_true, pnsB_eq] at h
  obtain ⟨h1, h2⟩ := h
  refine ⟨?_, ?_⟩
  · intro p hp
    have := List.all_eq_true.1 h1 p hp
    simp only [Bool.or_eq_true, List.contains_eq_mem, decide_eq_true_eq, List.any_eq_true,
      beq_iff_eq] at this
    exact this
  · intro i hi
    have := List.all_eq_true.1 h2 i (List.mem_range.2 hi)
    simpa using this

theorem completeB_sound (m : Mem) (d : Disk) (h : completeB m d = true) : Complete m d := by
  unfold completeB at h
  simp only [pnsB_eq] at h
  intro q hq hnl
  have := List.all_eq_true.1 h q (List.mem_range.2 hq)
  simp only [Bool.or_eq_true, List.contains_eq_mem, decide_eq_true_eq] at this
  rcases this with h | h
  · exact absurd h hnl
  · exact h

end Infretis.Fs
