import Infretis.Lemmas.FsStep
/-!
C08 helper lemmas about the tail of a step (data row, restart file) and about `restartOutcome`.
-/
namespace Infretis.Fs

/-! ### the tail of the step: data row, then restart file -/

theorem appendRows_nil (df : DataFile) : appendRows df [] = df := by
  unfold appendRows; split <;> simp

theorem appendRows_of_not_torn (df : DataFile) (rows : List Nat) (h : df.torn = false) :
    appendRows df rows = { df with rows := df.rows ++ rows } := by
  unfold appendRows; simp [h]

/-- every crash point of `dataEffs c ++ restartEffs v rN`, started on a disk whose restart file is
    the complete record `r0` -/
theorem tail_spec (c : Choice) (v : Variant) (rN r0 : Rec) (d1 : Disk) (h1 : d1.restart = .complete r0)
    (j : Nat) (h : Bool) :
    (crashAt (dataEffs c ++ restartEffs v rN) d1 j h).files = d1.files
    ∧ ((crashAt (dataEffs c ++ restartEffs v rN) d1 j h).restart = .complete r0
        ∨ ((crashAt (dataEffs c ++ restartEffs v rN) d1 j h).restart = .complete rN
            ∧ (dataEffs c ++ restartEffs v rN).length ≤ j)
        ∨ ((v = .asIs ∧ j = (dataEffs c).length + 1 ∨ v = .renamedOpen ∧ j = (dataEffs c).length + 2)
            ∧ ((crashAt (dataEffs c ++ restartEffs v rN) d1 j h).restart = .empty
               ∨ (crashAt (dataEffs c ++ restartEffs v rN) d1 j h).restart = .part)))
    ∧ ((dataEffs c ++ restartEffs v rN).length ≤ j →
        (crashAt (dataEffs c ++ restartEffs v rN) d1 j h).restart = .complete rN
        ∧ (crashAt (dataEffs c ++ restartEffs v rN) d1 j h).data
            = appendRows d1.data (c.accs.map (fun a => a.old.pn)))
    ∧ ((c.accs.isEmpty = true ∨ j = 0 ∨ (j = 1 ∧ (h = false ∨ (c.halfTorn = false ∧ c.halfRows = 0)))) →
        (crashAt (dataEffs c ++ restartEffs v rN) d1 j h).data = d1.data)
    ∧ ((v = .asIs ∧ j = (dataEffs c).length + 1 ∨ v = .renamedOpen ∧ j = (dataEffs c).length + 2) →
        ((crashAt (dataEffs c ++ restartEffs v rN) d1 j h).restart = .empty
          ∨ (crashAt (dataEffs c ++ restartEffs v rN) d1 j h).restart = .part))
    ∧ ((crashAt (dataEffs c ++ restartEffs v rN) d1 j h).data = d1.data
        ∨ (crashAt (dataEffs c ++ restartEffs v rN) d1 j h).data
            = (if c.halfTorn then
                { appendRows d1.data ((c.accs.map (fun a => a.old.pn)).take c.halfRows) with torn := true }
               else appendRows d1.data ((c.accs.map (fun a => a.old.pn)).take c.halfRows))
        ∨ (crashAt (dataEffs c ++ restartEffs v rN) d1 j h).data
            = appendRows d1.data (c.accs.map (fun a => a.old.pn))) := by
  unfold dataEffs restartEffs
  have hnil : c.accs.isEmpty = true → c.accs.map (fun a => a.old.pn) = [] := by
    intro hh; rw [List.isEmpty_iff.1 hh]; rfl
  cases hacc : c.accs.isEmpty <;> cases v <;> cases h <;>
    rcases j with _ | _ | _ | _ | _ | _ | j <;>
    simp [crashAt, run, Effect.apply, Effect.applyHalf, setR, h1] <;>
    (try (simp [hnil hacc, appendRows_nil])) <;>
    (try (intro hh1 hh2; simp [hh1, hh2, appendRows_nil]))


/-! ### restartOutcome -/

theorem outcome_starts (M : Manifest) (d' : Disk) (r : Rec) (L : List PathInfo)
    (hr : d'.restart = .complete r) (hrf : r.restartedFrom ≠ some r.cstep)
    (hact : r.active = L.map (·.pn))
    (hL : ∀ p ∈ L, pathOK d'.files p = true ∧ M p.cid = some (p.files.map Prod.fst)) :
    restartOutcome M .restartToml d' = .starts r := by
  have hany : (r.active.any fun a => !(d'.files.get (.traj a)).isFile) = false := by
    rw [hact, List.any_eq_false]
    intro a ha
    obtain ⟨p, hp, rfl⟩ := List.mem_map.1 ha
    have := ((pathOK_iff _ _).1 (hL p hp).1).2.1
    simp [this, FileState.isFile]
  have hall : (r.active.all fun a => (loadPath M d'.files a).isSome) = true := by
    rw [hact, List.all_eq_true]
    intro a ha
    obtain ⟨p, hp, rfl⟩ := List.mem_map.1 ha
    rw [loadPath_of_pathOK M _ p (hL p hp).1 (hL p hp).2]
    rfl
  unfold restartOutcome
  simp only [hr]
  rw [if_neg (fun h => hrf h.1)]
  simp [hany, hall]

theorem outcome_raises_of_torn (M : Manifest) (d' : Disk) (h : d'.restart = .empty ∨ d'.restart = .part) :
    restartOutcome M .restartToml d' = .raises := by
  unfold restartOutcome
  rcases h with h | h <;> simp [h]


/-! ### clean_data_file -/

theorem cleanData_of_rowsOK (df : DataFile) (act : List Nat) (h : rowsOK df act = true) :
    cleanData df act = df := by
  simp only [rowsOK, Bool.and_eq_true, Bool.not_eq_true', beq_iff_eq, decide_eq_true_eq,
    List.all_eq_true] at h
  obtain ⟨⟨⟨ht, _⟩, _⟩, hall⟩ := h
  obtain ⟨rows, g, t⟩ := df
  simp only at ht hall
  subst ht
  simp only [cleanData, DataFile.mk.injEq, and_true]
  exact List.filter_eq_self.2 (fun a ha => by rw [hall a ha]; rfl)

/-- the data file of a crash point before the new record: old rows plus some rows of paths that
    are still active — cleaning gives back the old data file -/
theorem cleanData_of_extra (df X : DataFile) (act extra : List Nat) (h : rowsOK df act = true)
    (hr : X.rows = df.rows ++ extra) (hg : X.garbled = df.garbled) (he : ∀ q ∈ extra, q ∈ act) :
    cleanData X act = df := by
  have hc := cleanData_of_rowsOK df act h
  simp only [rowsOK, Bool.and_eq_true, Bool.not_eq_true', beq_iff_eq, decide_eq_true_eq,
    List.all_eq_true] at h
  obtain ⟨⟨⟨ht, _⟩, _⟩, _⟩ := h
  rw [← hc]
  simp only [cleanData, hr, hg, List.filter_append, DataFile.mk.injEq, and_true]
  have : extra.filter (fun p => !act.contains p) = [] := by
    rw [List.filter_eq_nil_iff]
    intro q hq
    simp [he q hq]
  rw [this, List.append_nil]

end Infretis.Fs
