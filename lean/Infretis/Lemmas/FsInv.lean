import Infretis.Lemmas.FsCrash
/-!
C08: the consistency invariant between the in-memory state of the main process and the disk,
well-formedness of one step's outcome, and what every crash point of a step leaves behind.
-/
namespace Infretis.Fs

def pns (l : List PathInfo) : List Nat := l.map (·.pn)

/-- consistency of memory and disk between two steps (and right after a restart) -/
structure Inv (M : Manifest) (m : Mem) (d : Disk) : Prop where
  /-- restart.toml is a complete record of the in-memory state -/
  record : ∃ r, d.restart = .complete r ∧ r.cstep = m.cstep ∧ r.active = pns m.live
        ∧ r.trajNum = m.trajNum ∧ r.restartedFrom ≠ some r.cstep
  /-- every live path is completely stored, numbered below traj_num, and its traj.txt lists its files -/
  live_ok : ∀ p ∈ m.live, pathOK d.files p = true ∧ p.pn < m.trajNum
            ∧ M p.cid = some (p.files.map Prod.fst)
  live_nodup : (pns m.live).Nodup
  /-- the delete queue holds replaced paths only -/
  olds : ∀ o ∈ m.olds, o.pn < m.trajNum ∧ o.pn ∉ pns m.live
  /-- data file: whole rows, no path twice, no live path -/
  rows : rowsOK d.data (pns m.live) = true
  rows_lt : ∀ q ∈ d.data.rows, q < m.trajNum
  rf : ∀ R, m.restartedFrom = some R → R ≤ m.cstep

/-- the path stored for the `i`-th accepted ensemble -/
def newPath (m : Mem) (i : Nat) (a : Acc) : PathInfo :=
  { pn := m.trajNum + i, cid := a.cid, files := a.files }

/-- what the scheduler/worker guarantee about the outcome of a job -/
structure WF (cfg : Cfg) (M : Manifest) (m : Mem) (c : Choice) (d : Disk) : Prop where
  old_live : ∀ a ∈ c.accs, a.old ∈ m.live
  old_nodup : (c.accs.map (fun a => a.old.pn)).Nodup
  names_nodup : (c.accs.flatMap (fun a => a.files.map Prod.fst)).Nodup
  /-- the worker has written the trajectory files -/
  sources : ∀ a ∈ c.accs, ∀ nc ∈ a.files, d.files.get (.wfile nc.1) = .complete nc.2
  /-- a job covers at most n-1 ensembles (it is 1, or 2 for a zero swap, and n ≥ 3) -/
  few : c.accs.length ≤ cfg.n - 1
  /-- the new live set: survivors and the new paths -/
  new_live : ∀ p ∈ c.newLive, (p ∈ m.live ∧ ∀ a ∈ c.accs, a.old.pn ≠ p.pn)
              ∨ (∃ i a, c.accs[i]? = some a ∧ p = newPath m i a)
  new_nodup : (pns c.newLive).Nodup
  manifest : ∀ a ∈ c.accs, M a.cid = some (a.files.map Prod.fst)
  /-- the final write_toml of `loop()` stores nothing; the case right after a restart (`restartedFrom = cstep`) is
      EXCLUDED here.  It is reachable — the restart of a finished run — and leaves, by design (62f494c), a record
      from which the next restart stops: `Infretis.C08.finished_run_restart_refuses` (audit 2026-09-30; the
      earlier wording "is not reached right after a restart" was wrong) -/
  final : c.inc = false → c.accs = [] ∧ m.restartedFrom ≠ some m.cstep

theorem rowsOK_iff' (df : DataFile) (act : List Nat) :
    rowsOK df act = true ↔ df.torn = false ∧ df.garbled = 0 ∧ df.rows.Nodup ∧ ∀ p ∈ df.rows, p ∉ act := by
  simp [rowsOK, and_assoc]

abbrev loopEffs (cfg : Cfg) (m : Mem) (c : Choice) (d : Disk) : List Effect :=
  accLoop cfg c.accs m.trajNum m.olds d

theorem stepEffs_eq (cfg : Cfg) (m : Mem) (c : Choice) (d : Disk) :
    stepEffs cfg m c d
      = loopEffs cfg m c d ++ (dataEffs c ++ restartEffs cfg.variant (newRec m c)) := by
  simp [stepEffs, loopEffs, List.append_assoc]

theorem crash_split_lt (cfg : Cfg) (m : Mem) (c : Choice) (d : Disk) (k : Nat) (h : Bool)
    (hk : k < (loopEffs cfg m c d).length) :
    crashStep cfg m c d k h = crashAt (loopEffs cfg m c d) d k h := by
  rw [crashStep, stepEffs_eq, crashAt_append_left _ _ _ _ _ hk]

theorem crash_split_ge (cfg : Cfg) (m : Mem) (c : Choice) (d : Disk) (k : Nat) (h : Bool)
    (hk : (loopEffs cfg m c d).length ≤ k) :
    crashStep cfg m c d k h
      = crashAt (dataEffs c ++ restartEffs cfg.variant (newRec m c)) (run (loopEffs cfg m c d) d)
          (k - (loopEffs cfg m c d).length) h := by
  rw [crashStep, stepEffs_eq, crashAt_append_right _ _ _ _ _ hk]

/-- the store/delete loop only touches new path numbers, worker files, and queued (replaced) paths -/
theorem loop_owned (cfg : Cfg) (M : Manifest) (m : Mem) (c : Choice) (d : Disk) (hW : WF cfg M m c d) :
    Owned (fun q => m.trajNum ≤ q ∨ q ∈ m.olds.map (·.pn)) (fun _ => True) (loopEffs cfg m c d) := by
  have h := accLoop_owned cfg c.accs m.trajNum m.olds [] d (by simpa using hW.few)
  rw [List.append_nil] at h
  exact h.mono (fun q hq => hq.elim (fun h => Or.inl h.1) Or.inr) (fun _ _ => trivial)

theorem live_not_owned {M : Manifest} {m : Mem} {d : Disk} (hI : Inv M m d) (p : PathInfo) (hp : p ∈ m.live) :
    ¬ (m.trajNum ≤ p.pn ∨ p.pn ∈ m.olds.map (·.pn)) := by
  intro h
  rcases h with h | h
  · have := (hI.live_ok p hp).2.1; omega
  · obtain ⟨o, ho, he⟩ := List.mem_map.1 h
    exact (hI.olds o ho).2 (he ▸ List.mem_map_of_mem hp)

/-- **no live path loses a file**: at every crash point of the step, every path that was live
    when the step began is still completely on disk -/
theorem old_live_safe (cfg : Cfg) (M : Manifest) (m : Mem) (c : Choice) (d : Disk)
    (hI : Inv M m d) (hW : WF cfg M m c d) (k : Nat) (h : Bool) :
    ∀ p ∈ m.live, pathOK (crashStep cfg m c d k h).files p = true := by
  intro p hp
  have hown := loop_owned cfg M m c d hW
  have hnot := live_not_owned hI p hp
  by_cases hk : k < (loopEffs cfg m c d).length
  · rw [crash_split_lt cfg m c d k h hk, pathOK_frame (crashAt_frame hown d k h).1 hnot]
    exact (hI.live_ok p hp).1
  · have hk' : (loopEffs cfg m c d).length ≤ k := Nat.le_of_not_lt hk
    obtain ⟨r0, hr0, _⟩ := hI.record
    have hr1 : (run (loopEffs cfg m c d) d).restart = .complete r0 := by
      rw [(run_frame hown d).2.2.1]; exact hr0
    rw [crash_split_ge cfg m c d k h hk', (tail_spec c cfg.variant (newRec m c) r0 _ hr1 _ h).1,
      pathOK_frame (run_frame hown d).1 hnot]
    exact (hI.live_ok p hp).1

/-- once the store/delete loop has run, every path of the new live set is completely on disk -/
theorem new_live_stored (cfg : Cfg) (M : Manifest) (m : Mem) (c : Choice) (d : Disk)
    (hI : Inv M m d) (hW : WF cfg M m c d) :
    ∀ p ∈ c.newLive, pathOK (run (loopEffs cfg m c d) d).files p = true := by
  intro p hp
  have hown := loop_owned cfg M m c d hW
  rcases hW.new_live p hp with ⟨hl, _⟩ | ⟨i, a, hia, rfl⟩
  · rw [pathOK_frame (run_frame hown d).1 (live_not_owned hI p hl)]
    exact (hI.live_ok p hl).1
  · have h := accLoop_newOK cfg c.accs m.trajNum m.olds [] d (by simpa using hW.few)
      (fun o ho => (hI.olds o ho).1) hW.names_nodup hW.sources i a hia
    rw [List.append_nil] at h
    exact h


/-! ### classification of every crash point -/

theorem stepEffs_length (cfg : Cfg) (m : Mem) (c : Choice) (d : Disk) :
    (stepEffs cfg m c d).length
      = (loopEffs cfg m c d).length + (dataEffs c ++ restartEffs cfg.variant (newRec m c)).length := by
  rw [stepEffs_eq, List.length_append]

/-- a crash after the last effect (= the completed step): new record, new paths stored, rows appended -/
theorem crash_complete (cfg : Cfg) (M : Manifest) (m : Mem) (c : Choice) (d : Disk)
    (hI : Inv M m d) (hW : WF cfg M m c d) (k : Nat) (h : Bool) (hk : (stepEffs cfg m c d).length ≤ k) :
    (crashStep cfg m c d k h).restart = .complete (newRec m c)
    ∧ (crashStep cfg m c d k h).files = (run (loopEffs cfg m c d) d).files
    ∧ (crashStep cfg m c d k h).data = appendRows d.data (c.accs.map (fun a => a.old.pn)) := by
  obtain ⟨r0, hr0, _⟩ := hI.record
  have hown := loop_owned cfg M m c d hW
  rw [stepEffs_length] at hk
  have hk' : (loopEffs cfg m c d).length ≤ k := by omega
  have hr1 : (run (loopEffs cfg m c d) d).restart = .complete r0 := by
    rw [(run_frame hown d).2.2.1]; exact hr0
  have hd1 : (run (loopEffs cfg m c d) d).data = d.data := (run_frame hown d).2.1
  obtain ⟨t1, _, t3, _⟩ := tail_spec c cfg.variant (newRec m c) r0 _ hr1
    (k - (loopEffs cfg m c d).length) h
  rw [crash_split_ge cfg m c d k h hk']
  obtain ⟨a, b⟩ := t3 (by omega)
  exact ⟨a, t1, by rw [b, hd1]⟩

/-- a crash before the last effect has completed: the old record is still there (and, outside the
    row window, the data file is unchanged), or — as-is variant, exactly one effect index — the
    restart file is truncated / half written -/
theorem crash_incomplete (cfg : Cfg) (M : Manifest) (m : Mem) (c : Choice) (d : Disk)
    (hI : Inv M m d) (hW : WF cfg M m c d) (k : Nat) (h : Bool) (hlt : k < (stepEffs cfg m c d).length) :
    ∃ r0, d.restart = .complete r0 ∧
      ((crashStep cfg m c d k h).restart = .complete r0
        ∧ (inRowWindow cfg m c d k h = false → (crashStep cfg m c d k h).data = d.data)
        ∧ (∃ n, (crashStep cfg m c d k h).data.rows
                  = d.data.rows ++ (c.accs.map (fun a => a.old.pn)).take n
                ∧ (crashStep cfg m c d k h).data.garbled = d.data.garbled)
       ∨ (inTruncWindow cfg m c d k = true
          ∧ ((crashStep cfg m c d k h).restart = .empty ∨ (crashStep cfg m c d k h).restart = .part))) := by
  obtain ⟨r0, hr0, _⟩ := hI.record
  refine ⟨r0, hr0, ?_⟩
  have hown := loop_owned cfg M m c d hW
  by_cases hk : k < (loopEffs cfg m c d).length
  · left
    rw [crash_split_lt cfg m c d k h hk]
    obtain ⟨_, f2, f3, _⟩ := crashAt_frame hown d k h
    exact ⟨by rw [f3, hr0], fun _ => f2, 0, by rw [f2]; simp, by rw [f2]⟩
  · have hk' : (loopEffs cfg m c d).length ≤ k := Nat.le_of_not_lt hk
    have hr1 : (run (loopEffs cfg m c d) d).restart = .complete r0 := by
      rw [(run_frame hown d).2.2.1]; exact hr0
    have hd1 : (run (loopEffs cfg m c d) d).data = d.data := (run_frame hown d).2.1
    have htorn : d.data.torn = false := ((rowsOK_iff' _ _).1 hI.rows).1
    obtain ⟨t1, t2, t3, t4, _, t6⟩ := tail_spec c cfg.variant (newRec m c) r0 _ hr1
      (k - (loopEffs cfg m c d).length) h
    rw [crash_split_ge cfg m c d k h hk']
    rw [stepEffs_length] at hlt
    rcases t2 with t | ⟨t, tl⟩ | ⟨tv, tt⟩
    · left
      refine ⟨t, fun hwin => ?_, ?_⟩
      rotate_left
      · rw [hd1] at t6
        rcases t6 with e | e | e
        · exact ⟨0, by rw [e]; simp, by rw [e]⟩
        · refine ⟨c.halfRows, ?_, ?_⟩ <;> rw [e] <;> split <;>
            simp [appendRows_of_not_torn _ _ htorn]
        · exact ⟨(c.accs.map (fun a => a.old.pn)).length, by
            rw [e, appendRows_of_not_torn _ _ htorn, List.take_length], by
            rw [e, appendRows_of_not_torn _ _ htorn]⟩
      rw [← hd1]
      apply t4
      by_cases he : c.accs.isEmpty = true
      · exact Or.inl he
      · right
        simp only [inRowWindow, dataIdx, he, Bool.not_false, Bool.true_and, Bool.or_eq_false_iff,
          Bool.and_eq_false_iff, decide_eq_false_iff_not, beq_eq_false_iff_ne, ne_eq,
          Bool.or_eq_false_iff, bne_eq_false_iff_eq] at hwin
        obtain ⟨w1, w2⟩ := hwin
        have hLA : (loopEffs cfg m c d).length = (accLoop cfg c.accs m.trajNum m.olds d).length := rfl
        have hj : k - (loopEffs cfg m c d).length ≤ 1 := by
          rcases w2 with w2 | w2
          · have w2' := of_decide_eq_false w2; omega
          · rw [stepEffs_length] at w2; omega
        rcases Nat.le_one_iff_eq_zero_or_eq_one.1 hj with h0 | h1
        · exact Or.inl h0
        · right
          refine ⟨h1, ?_⟩
          have hk1 : k = (loopEffs cfg m c d).length + 1 := by omega
          rcases w1 with (w | w) | w
          · exact absurd hk1 w
          · left; exact w
          · right; exact w
    · omega
    · right
      refine ⟨?_, tt⟩
      have hLA : (loopEffs cfg m c d).length = (accLoop cfg c.accs m.trajNum m.olds d).length := rfl
      unfold inTruncWindow restartIdx
      rcases tv with ⟨tv, tj⟩ | ⟨tv, tj⟩
      · rw [tv]; simp only [beq_iff_eq]; omega
      · rw [tv]; simp only [beq_iff_eq]; omega

end Infretis.Fs
