import Infretis.Lemmas.FsInv
/-!
C08: the invariant is re-established (a) by a completed step, (b) by a restart from the disk a
crash left behind, whenever the crash point is outside the two windows.
-/
namespace Infretis.Fs

theorem rowsOK_iff (df : DataFile) (act : List Nat) :
    rowsOK df act = true ↔ df.torn = false ∧ df.garbled = 0 ∧ df.rows.Nodup ∧ ∀ p ∈ df.rows, p ∉ act := by
  simp [rowsOK, and_assoc]

theorem mem_accs_of_getElem? {accs : List Acc} {i : Nat} {a : Acc} (h : accs[i]? = some a) :
    a ∈ accs ∧ i < accs.length := by
  obtain ⟨hi, rfl⟩ := List.getElem?_eq_some_iff.1 h
  exact ⟨List.getElem_mem hi, hi⟩

/-- facts about the new live set -/
theorem new_live_facts (cfg : Cfg) (M : Manifest) (m : Mem) (c : Choice) (d : Disk)
    (hI : Inv M m d) (hW : WF cfg M m c d) :
    (∀ p ∈ c.newLive, p.pn < m.trajNum + c.accs.length ∧ M p.cid = some (p.files.map Prod.fst))
    ∧ (∀ q, q < m.trajNum → q ∉ pns m.live → q ∉ pns c.newLive)
    ∧ (∀ a ∈ c.accs, a.old.pn ∉ pns c.newLive) := by
  refine ⟨?_, ?_, ?_⟩
  · intro p hp
    rcases hW.new_live p hp with ⟨hl, _⟩ | ⟨i, a, hia, rfl⟩
    · have := hI.live_ok p hl
      exact ⟨by omega, this.2.2⟩
    · obtain ⟨ha, hi⟩ := mem_accs_of_getElem? hia
      exact ⟨by simp [newPath]; omega, hW.manifest a ha⟩
  · intro q hq hnl hmem
    obtain ⟨p, hp, rfl⟩ := List.mem_map.1 hmem
    rcases hW.new_live p hp with ⟨hl, _⟩ | ⟨i, a, _, rfl⟩
    · exact hnl (List.mem_map_of_mem hl)
    · simp [newPath] at hq; omega
  · intro a ha hmem
    obtain ⟨p, hp, he⟩ := List.mem_map.1 hmem
    rcases hW.new_live p hp with ⟨_, hne⟩ | ⟨i, b, _, rfl⟩
    · exact hne a ha he.symm
    · have := (hI.live_ok a.old (hW.old_live a ha)).2.1
      simp [newPath] at he; omega

theorem newRec_rf (cfg : Cfg) (M : Manifest) (m : Mem) (c : Choice) (d : Disk)
    (hI : Inv M m d) (hW : WF cfg M m c d) :
    (newRec m c).restartedFrom ≠ some (newRec m c).cstep := by
  simp only [newRec]
  cases hinc : c.inc with
  | true =>
    intro h
    have := hI.rf _ h
    simp at this
    omega
  | false =>
    simpa using (hW.final hinc).2

/-- any memory state that agrees with the OLD record is consistent with a disk on which the old
    live paths are intact and the data file is unchanged -/
theorem old_state_inv (M : Manifest) (m m' : Mem) (d d' : Disk) (hI : Inv M m d)
    (r0 : Rec) (hr0 : d.restart = .complete r0) (hr' : d'.restart = .complete r0)
    (hfiles : ∀ p ∈ m.live, pathOK d'.files p = true) (hdata : d'.data = d.data)
    (hcs : m'.cstep = m.cstep) (hlive : m'.live = m.live) (htn : m'.trajNum = m.trajNum)
    (holds : m'.olds = []) (hrf : ∀ R, m'.restartedFrom = some R → R ≤ m'.cstep) :
    Inv M m' d' := by
  obtain ⟨r, hr, h1, h2, h3, h4⟩ := hI.record
  have : r = r0 := by rw [hr] at hr0; injection hr0
  subst this
  exact {
    record := ⟨r, hr', by rw [hcs]; exact h1, by rw [hlive]; exact h2, by rw [htn]; exact h3, h4⟩
    live_ok := by
      rw [hlive, htn]
      intro p hp
      exact ⟨hfiles p hp, (hI.live_ok p hp).2⟩
    live_nodup := by rw [hlive]; exact hI.live_nodup
    olds := by rw [holds]; intro o ho; cases ho
    rows := by rw [hlive, hdata]; exact hI.rows
    rows_lt := by rw [hdata, htn]; exact hI.rows_lt
    rf := hrf }

/-- any memory state that agrees with the NEW record is consistent with a disk on which the step
    is complete -/
theorem new_state_inv (cfg : Cfg) (M : Manifest) (m m' : Mem) (c : Choice) (d d' : Disk)
    (hI : Inv M m d) (hW : WF cfg M m c d)
    (hr' : d'.restart = .complete (newRec m c))
    (hfiles : d'.files = (run (loopEffs cfg m c d) d).files)
    (hdata : d'.data = appendRows d.data (c.accs.map (fun a => a.old.pn)))
    (hcs : m'.cstep = (newRec m c).cstep) (hlive : m'.live = c.newLive)
    (htn : m'.trajNum = m.trajNum + c.accs.length)
    (holds : ∀ o ∈ m'.olds, (o ∈ m.olds ∨ ∃ a ∈ c.accs, o.pn = a.old.pn))
    (hrf : ∀ R, m'.restartedFrom = some R → R ≤ m'.cstep) :
    Inv M m' d' := by
  obtain ⟨nl1, nl2, nl3⟩ := new_live_facts cfg M m c d hI hW
  obtain ⟨ht, hg, hnd, hnot⟩ := (rowsOK_iff _ _).1 hI.rows
  have hdata' : d'.data = { d.data with rows := d.data.rows ++ c.accs.map (fun a => a.old.pn) } := by
    rw [hdata, appendRows_of_not_torn _ _ ht]
  exact {
    record := ⟨newRec m c, hr', hcs.symm, by rw [hlive]; rfl, by rw [htn]; rfl, newRec_rf cfg M m c d hI hW⟩
    live_ok := by
      rw [hlive, htn, hfiles]
      intro p hp
      exact ⟨new_live_stored cfg M m c d hI hW p hp, nl1 p hp⟩
    live_nodup := by rw [hlive]; exact hW.new_nodup
    olds := by
      rw [hlive, htn]
      intro o ho
      rcases holds o ho with h | ⟨a, ha, he⟩
      · have := hI.olds o h
        exact ⟨by omega, nl2 o.pn this.1 this.2⟩
      · have := (hI.live_ok a.old (hW.old_live a ha)).2.1
        rw [he]
        exact ⟨by omega, nl3 a ha⟩
    rows := by
      rw [hlive, hdata', rowsOK_iff]
      refine ⟨ht, hg, ?_, ?_⟩
      · show (d.data.rows ++ c.accs.map (fun a => a.old.pn)).Nodup
        rw [List.nodup_append]
        refine ⟨hnd, hW.old_nodup, ?_⟩
        intro q hq q' hq' heq
        subst heq
        obtain ⟨a, ha, rfl⟩ := List.mem_map.1 hq'
        exact hnot _ hq (List.mem_map_of_mem (hW.old_live a ha))
      · intro q hq
        rcases List.mem_append.1 hq with hq | hq
        · exact nl2 q (hI.rows_lt q hq) (hnot q hq)
        · obtain ⟨a, ha, rfl⟩ := List.mem_map.1 hq
          exact nl3 a ha
    rows_lt := by
      rw [hdata', htn]
      intro q hq
      rcases List.mem_append.1 hq with hq | hq
      · have := hI.rows_lt q hq; omega
      · obtain ⟨a, ha, rfl⟩ := List.mem_map.1 hq
        have := (hI.live_ok a.old (hW.old_live a ha)).2.1; omega
    rf := hrf }

end Infretis.Fs
