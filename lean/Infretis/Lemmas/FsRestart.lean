import Infretis.Lemmas.FsReach
import Infretis.Model.FsRestart
/-!
C08: helper lemmas about the effects of the restart procedure (`Model/FsRestart.lean`): every crash
point of a restart leaves restart.toml and all path files alone, the data file is either still the
old one or already the cleaned one, and a leftover temp file exists only while cleaning is still due.
-/
namespace Infretis.Fs

@[simp] theorem runR_nil (x : RDisk) : runR [] x = x := rfl

@[simp] theorem runR_cons (e : REffect) (es : List REffect) (x : RDisk) :
    runR (e :: es) x = runR es (e.apply x) := rfl

theorem runR_append (a b : List REffect) (x : RDisk) : runR (a ++ b) x = runR b (runR a x) := by
  simp [runR, List.foldl_append]

theorem crashAtR_append_left (a b : List REffect) (x : RDisk) (j : Nat) (half : Bool) (h : j < a.length) :
    crashAtR (a ++ b) x j half = crashAtR a x j half := by
  unfold crashAtR
  rw [List.take_append_of_le_length (Nat.le_of_lt h), List.getElem?_append_left h]

theorem crashAtR_append_right (a b : List REffect) (x : RDisk) (j : Nat) (half : Bool) (h : a.length ≤ j) :
    crashAtR (a ++ b) x j half = crashAtR b (runR a x) (j - a.length) half := by
  unfold crashAtR
  rw [List.take_append, List.take_of_length_le h, runR_append, List.getElem?_append_right h]

/-- make_dirs(worker<i>) changes nothing the model speaks about -/
theorem runR_mk (l : List Nat) (x : RDisk) : runR (l.map REffect.mkdirWorker) x = x := by
  induction l generalizing x with
  | nil => rfl
  | cons a t ih => simp only [List.map_cons, runR_cons, REffect.apply]; exact ih x

theorem crashAtR_mk (l : List Nat) (x : RDisk) (k : Nat) (half : Bool) :
    crashAtR (l.map REffect.mkdirWorker) x k half = x := by
  unfold crashAtR
  rw [← List.map_take, runR_mk]
  cases half
  · rfl
  · simp only [if_true]
    rw [List.getElem?_map]
    cases (l[k]?) <;> rfl

theorem crashAtR_workerDirs (jobs : Nat) (x : RDisk) (k : Nat) (half : Bool) :
    crashAtR (workerDirs jobs) x k half = x := crashAtR_mk _ x k half

theorem runR_workerDirs (jobs : Nat) (x : RDisk) : runR (workerDirs jobs) x = x := runR_mk _ x

theorem cleanData_idem (df : DataFile) (act : List Nat) :
    cleanData (cleanData df act) act = cleanData df act := by
  simp [cleanData, List.filter_filter]

/-- every crash point of `clean_data_file ++ worker dirs`: only the data file and its temp file can
    differ; the data file is the old one (and the temp file is untouched if nothing was to be
    cleaned) or the cleaned one (and the temp file is gone) -/
theorem crash_clean_shape (x : RDisk) (act : List Nat) (jobs k : Nat) (half : Bool) :
    ∃ D t, crashAtR (cleanEffs x.d.data act ++ workerDirs jobs) x k half = ⟨{ x.d with data := D }, t⟩
      ∧ ((D = x.d.data ∧ (cleanData x.d.data act = x.d.data → t = x.dtmp))
         ∨ (D = cleanData x.d.data act ∧ t = .absent)) := by
  by_cases hc : cleanData x.d.data act = x.d.data
  · refine ⟨x.d.data, x.dtmp, ?_, Or.inl ⟨rfl, fun _ => rfl⟩⟩
    simp only [cleanEffs, if_pos hc, List.nil_append]
    rw [crashAtR_workerDirs]
  · simp only [cleanEffs, if_neg hc]
    by_cases hk : k < 3
    · rw [crashAtR_append_left _ _ _ _ _ (by simpa using hk)]
      have : k = 0 ∨ k = 1 ∨ k = 2 := by omega
      rcases this with rfl | rfl | rfl <;> cases half
      all_goals first
        | exact ⟨x.d.data, _, rfl, Or.inl ⟨rfl, fun h => absurd h hc⟩⟩
    · rw [crashAtR_append_right _ _ _ _ _ (by simp; omega), crashAtR_workerDirs]
      exact ⟨cleanData x.d.data act, .absent, rfl, Or.inr ⟨rfl, rfl⟩⟩

/-- a restart procedure that runs through -/
theorem run_clean_full (x : RDisk) (act : List Nat) (jobs : Nat) :
    runR (cleanEffs x.d.data act ++ workerDirs jobs) x
      = ⟨{ x.d with data := cleanData x.d.data act },
         if cleanData x.d.data act = x.d.data then x.dtmp else .absent⟩ := by
  rw [runR_append, runR_workerDirs]
  by_cases hc : cleanData x.d.data act = x.d.data
  · simp only [cleanEffs, if_pos hc, runR_nil]
    rw [hc]
  · simp only [cleanEffs, if_neg hc]
    rfl

/-! ### the worker's files are not path files -/

theorem get_filter_notW (f : Files) (k : Key) (hk : ∀ n, k ≠ .wfile n) :
    Files.get (f.filter (fun e => match e.1 with | .wfile _ => false | _ => true)) k = Files.get f k := by
  induction f with
  | nil => rfl
  | cons a t ih =>
    obtain ⟨k', s⟩ := a
    cases k' with
    | wfile n =>
      have hne : ¬ (Key.wfile n = k) := fun h => hk n h.symm
      simp only [List.filter_cons, Files.get, if_neg hne]
      exact ih
    | _ =>
      simp only [List.filter_cons, Files.get, if_true]
      rw [ih]

theorem workFiles_get (f : Files) (files : List (Nat × Nat)) (k : Key) (hk : ∀ n, k ≠ .wfile n) :
    (workFiles f files).get k = f.get k := by
  unfold workFiles
  have : ∀ (g : Files), (files.foldl (fun f nc => f.set (.wfile nc.1) (.complete nc.2)) g).get k = g.get k := by
    induction files with
    | nil => intro g; rfl
    | cons a t ih =>
      intro g
      simp only [List.foldl_cons]
      rw [ih, Files.get_set, if_neg (fun h => hk a.1 h.symm)]
  rw [this]
  exact get_filter_notW f k hk

theorem pathOK_workFiles (f : Files) (files : List (Nat × Nat)) (p : PathInfo) :
    pathOK (workFiles f files) p = pathOK f p := by
  refine pathOK_frame (P := fun _ => False) (W := fun _ => True) ?_ (fun h => h)
  intro k hk
  apply workFiles_get
  intro n hn
  subst hn
  exact hk trivial

/-- worker output between two steps does not disturb the invariant -/
theorem inv_workFiles (M : Manifest) (m : Mem) (d : Disk) (files : List (Nat × Nat)) (hI : Inv M m d) :
    Inv M m { d with files := workFiles d.files files } where
  record := hI.record
  live_ok := fun p hp => ⟨by rw [pathOK_workFiles]; exact (hI.live_ok p hp).1, (hI.live_ok p hp).2⟩
  live_nodup := hI.live_nodup
  olds := hI.olds
  rows := hI.rows
  rows_lt := hI.rows_lt
  rf := hI.rf

/-! ### restartRun agrees with restartOutcome -/

theorem restartRun_outcome (cfg : Cfg) (M : Manifest) (x : RDisk) (jobs : Nat) :
    (restartRun cfg M x jobs).1 = restartOutcome M .restartToml x.d := by
  unfold restartRun restartOutcome
  cases h : x.d.restart with
  | absent => rfl
  | empty => rfl
  | part => rfl
  | complete r =>
    simp only
    split
    · rfl
    · split
      · rfl
      · split <;> rfl

theorem starts_complete (M : Manifest) (d : Disk) (r : Rec)
    (h : restartOutcome M .restartToml d = .starts r) : d.restart = .complete r := by
  unfold restartOutcome at h
  cases hr : d.restart with
  | absent => simp [hr] at h
  | empty => simp [hr] at h
  | part => simp [hr] at h
  | complete r' =>
    simp only [hr] at h
    split at h
    · cases h
    · split at h
      · cases h
      · split at h
        · injection h with h; rw [h]
        · cases h

/-- the effect list of a restart that starts -/
theorem restartRun_effs_of_starts (cfg : Cfg) (M : Manifest) (x : RDisk) (jobs : Nat) (r : Rec)
    (h : restartOutcome M .restartToml x.d = .starts r) :
    (restartRun cfg M x jobs).2
      = (if cfg.cleanOnRestart then cleanEffs x.d.data r.active else []) ++ workerDirs jobs := by
  have hc := starts_complete M x.d r h
  unfold restartOutcome at h
  unfold restartRun
  simp only [hc] at h ⊢
  split at h
  · cases h
  · rename_i h1
    rw [if_neg h1]
    split at h
    · cases h
    · rename_i h2
      rw [if_neg h2]
      split at h
      · rename_i h3
        rw [if_pos h3]
      · cases h

/-- the restart outcome only looks at restart.toml and the path files -/
theorem restartOutcome_congr (M : Manifest) (d d' : Disk) (hr : d'.restart = d.restart)
    (hf : d'.files = d.files) : restartOutcome M .restartToml d' = restartOutcome M .restartToml d := by
  unfold restartOutcome
  rw [hr, hf]

end Infretis.Fs
