import Infretis.Lemmas.FsRestart
/-!
C08: the LOWER bound of "every replaced path appears exactly once in the data file".

`Inv.rows` / `rowsOK` only say: whole rows, no path twice, no live path (at most once).  `Complete`
says that every path number handed out so far that is no longer live HAS its row.  It is preserved
by completed steps and by every crash + restart (with `clean_data_file`), provided the step keeps
the live paths it does not replace and makes the new paths live (`Cover`: what `add_traj` /
`sort_trajstate` / `live_paths()` do; the tie evaluates it on every real step).
-/
namespace Infretis.Fs

/-- every path number handed out so far that is not live any more has a row in the data file -/
def Complete (m : Mem) (d : Disk) : Prop :=
  ∀ q, q < m.trajNum → q ∉ pns m.live → q ∈ d.data.rows

/-- the step keeps every live path it does not replace, and every newly stored path becomes live -/
structure Cover (m : Mem) (c : Choice) : Prop where
  keeps : ∀ p ∈ m.live, p.pn ∈ pns c.newLive ∨ ∃ a ∈ c.accs, a.old.pn = p.pn
  news : ∀ i, i < c.accs.length → m.trajNum + i ∈ pns c.newLive

/-- the core step: old rows ++ rows of the replaced paths cover everything below the new traj_num
    that is not in the new live set -/
theorem complete_new (m : Mem) (c : Choice) (d : Disk) (hC : Complete m d) (hcov : Cover m c)
    (q : Nat) (hq : q < m.trajNum + c.accs.length) (hnl : q ∉ pns c.newLive) :
    q ∈ d.data.rows ++ c.accs.map (fun a => a.old.pn) := by
  by_cases hlt : q < m.trajNum
  · by_cases hl : q ∈ pns m.live
    · obtain ⟨p, hp, rfl⟩ := List.mem_map.1 hl
      rcases hcov.keeps p hp with h | ⟨a, ha, he⟩
      · exact absurd h hnl
      · exact List.mem_append_right _ (List.mem_map.2 ⟨a, ha, he⟩)
    · exact List.mem_append_left _ (hC q hlt hl)
  · have h1 : q - m.trajNum < c.accs.length := by omega
    have := hcov.news (q - m.trajNum) h1
    have h2 : m.trajNum + (q - m.trajNum) = q := by omega
    rw [h2] at this
    exact absurd this hnl

/-- a completed step keeps the data file complete -/
theorem step_complete (cfg : Cfg) (M : Manifest) (m : Mem) (c : Choice) (d : Disk)
    (hI : Inv M m d) (hW : WF cfg M m c d) (hcov : Cover m c) (hC : Complete m d) :
    Complete (stepMem cfg m c d) (run (stepEffs cfg m c d) d) := by
  have hall := crashAt_all (stepEffs cfg m c d) d (stepEffs cfg m c d).length false (Nat.le_refl _)
  obtain ⟨_, _, hd⟩ := crash_complete cfg M m c d hI hW (stepEffs cfg m c d).length false (Nat.le_refl _)
  unfold crashStep at hd
  rw [hall] at hd
  have ht : d.data.torn = false := ((rowsOK_iff' _ _).1 hI.rows).1
  rw [appendRows_of_not_torn _ _ ht] at hd
  intro q hq hnl
  rw [hd]
  exact complete_new m c d hC hcov q hq hnl

theorem mem_cleanData (df : DataFile) (act : List Nat) (q : Nat) :
    q ∈ (cleanData df act).rows ↔ q ∈ df.rows ∧ q ∉ act := by
  simp [cleanData, List.mem_filter]

/-- crash at ANY point of a step + restart from whatever complete record is on disk (with
    `clean_data_file`): the state the restart works on still has a row for every path that is
    numbered and not live -/
theorem restore_complete (cfg : Cfg) (M : Manifest) (m : Mem) (c : Choice) (d : Disk)
    (hI : Inv M m d) (hW : WF cfg M m c d) (hcov : Cover m c) (hC : Complete m d)
    (hclean : cfg.cleanOnRestart = true) (k : Nat) (half : Bool) (r : Rec)
    (hr : (crashStep cfg m c d k half).restart = .complete r)
    (hI' : Inv M (restore M r (crashStep cfg m c d k half).files)
            (restoreDisk cfg r (crashStep cfg m c d k half))) :
    Complete (restore M r (crashStep cfg m c d k half).files)
      (restoreDisk cfg r (crashStep cfg m c d k half)) := by
  -- the live set of the restored state is the record's active list
  obtain ⟨r', hr', _, hact, _, _⟩ := hI'.record
  have hrest : (restoreDisk cfg r (crashStep cfg m c d k half)).restart = .complete r := by
    unfold restoreDisk; split <;> exact hr
  have hrr : r' = r := by rw [hrest] at hr'; injection hr' with h; exact h.symm
  subst hrr
  have hdata : (restoreDisk cfg r' (crashStep cfg m c d k half)).data
      = cleanData (crashStep cfg m c d k half).data r'.active := by
    unfold restoreDisk; rw [if_pos hclean]
  intro q hq hnl
  rw [hdata, mem_cleanData]
  rw [← hact] at hnl
  refine ⟨?_, hnl⟩
  have hq' : q < r'.trajNum := hq
  have ht : d.data.torn = false := ((rowsOK_iff' _ _).1 hI.rows).1
  by_cases hk : (stepEffs cfg m c d).length ≤ k
  · obtain ⟨hn, _, hd⟩ := crash_complete cfg M m c d hI hW k half hk
    have : r' = newRec m c := by rw [hn] at hr; injection hr with h; exact h.symm
    subst this
    rw [hd, appendRows_of_not_torn _ _ ht]
    exact complete_new m c d hC hcov q hq' hnl
  · obtain ⟨r0, hr0, hcl⟩ := crash_incomplete cfg M m c d hI hW k half (Nat.lt_of_not_le hk)
    obtain ⟨r1, hr1, _, hact1, htn1, _⟩ := hI.record
    have h10 : r1 = r0 := by rw [hr1] at hr0; injection hr0
    subst h10
    rcases hcl with ⟨ho, _, n, hrows, _⟩ | ⟨_, ht'⟩
    · have : r' = r1 := by rw [ho] at hr; injection hr with h; exact h.symm
      subst this
      rw [hrows]
      apply List.mem_append_left
      rw [htn1] at hq'
      rw [hact1] at hnl
      exact hC q hq' hnl
    · rcases ht' with ht' | ht' <;> rw [ht'] at hr <;> cases hr

end Infretis.Fs
