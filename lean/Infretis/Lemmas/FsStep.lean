import Infretis.Lemmas.Fs
/-!
Semantic lemmas for C08: what is on disk after `outputPath` / after the whole accepted-ensemble
loop; loading a stored path; the data file.
-/
namespace Infretis.Fs

/-! ### pathOK is about the keys of one path number only -/

theorem pathOK_frame {P W : Nat → Prop} {f f' : Files} {p : PathInfo}
    (h : ∀ k, ¬ Key.inDom P W k → f'.get k = f.get k) (hp : ¬ P p.pn) :
    pathOK f' p = pathOK f p := by
  have e1 := h (.order p.pn) (by simpa [Key.inDom] using hp)
  have e2 := h (.traj p.pn) (by simpa [Key.inDom] using hp)
  have e3 := h (.energy p.pn) (by simpa [Key.inDom] using hp)
  have e4 : ∀ n, f'.get (.tfile p.pn n) = f.get (.tfile p.pn n) :=
    fun n => h (.tfile p.pn n) (by simpa [Key.inDom] using hp)
  simp only [pathOK, e1, e2, e3, e4]

theorem pathOK_iff (f : Files) (p : PathInfo) :
    pathOK f p = true ↔
      f.get (.order p.pn) = .complete p.cid ∧ f.get (.traj p.pn) = .complete p.cid
      ∧ f.get (.energy p.pn) = .complete p.cid
      ∧ ∀ nc ∈ p.files, f.get (.tfile p.pn nc.1) = .complete nc.2 := by
  simp [pathOK, and_assoc]

/-! ### _move_path -/

theorem head_move (pn n c : Nat) (d : Disk) (h0 : d.files.get (.wfile n) = .complete c) :
    (run ((if (d.files.get (.tfile pn n)).isFile then [Effect.remove (.tfile pn n)] else [])
                ++ [Effect.move (.wfile n) (.tfile pn n)]) d).files.get (.tfile pn n) = .complete c
    ∧ ∀ k, k ≠ .tfile pn n → k ≠ .wfile n →
        (run ((if (d.files.get (.tfile pn n)).isFile then [Effect.remove (.tfile pn n)] else [])
                ++ [Effect.move (.wfile n) (.tfile pn n)]) d).files.get k = d.files.get k := by
  by_cases hf : (d.files.get (.tfile pn n)).isFile = true
  · refine ⟨by simp [hf, Effect.apply, h0], ?_⟩
    intro k h1 h2
    simp [hf, Effect.apply, Ne.symm h1, Ne.symm h2]
  · refine ⟨by simp [hf, Effect.apply, h0], ?_⟩
    intro k h1 h2
    simp [hf, Effect.apply, Ne.symm h1, Ne.symm h2]

theorem moveFiles_spec (pn : Nat) : ∀ (files : List (Nat × Nat)) (d : Disk),
    (files.map Prod.fst).Nodup →
    (∀ nc ∈ files, d.files.get (.wfile nc.1) = .complete nc.2) →
    (∀ nc ∈ files, (run (moveFiles pn files d) d).files.get (.tfile pn nc.1) = .complete nc.2)
    ∧ (∀ k, (∀ n ∈ files.map Prod.fst, k ≠ .tfile pn n ∧ k ≠ .wfile n) →
        (run (moveFiles pn files d) d).files.get k = d.files.get k)
  | [], _, _, _ => ⟨fun nc h => (List.not_mem_nil h).elim, fun k _ => rfl⟩
  | (n, c) :: rest, d, hnd, hsrc => by
    have hnd' : (rest.map Prod.fst).Nodup := (List.nodup_cons.1 (by simpa using hnd)).2
    have hn : n ∉ rest.map Prod.fst := (List.nodup_cons.1 (by simpa using hnd)).1
    obtain ⟨hh1, hh2⟩ := head_move pn n c d (hsrc (n, c) (List.mem_cons_self ..))
    simp only [moveFiles, run_append] at hh1 hh2 ⊢
    generalize hd1 : run [Effect.move (Key.wfile n) (Key.tfile pn n)]
      (run (if (d.files.get (Key.tfile pn n)).isFile = true then [Effect.remove (Key.tfile pn n)] else []) d) = d1
      at hh1 hh2 ⊢
    have hsrc' : ∀ nc ∈ rest, d1.files.get (.wfile nc.1) = .complete nc.2 := by
      intro nc hnc
      have hne : nc.1 ≠ n := fun h => hn (h ▸ List.mem_map_of_mem hnc)
      rw [hh2 _ (by simp) (by simpa using hne)]
      exact hsrc nc (List.mem_cons_of_mem _ hnc)
    obtain ⟨i1, i2⟩ := moveFiles_spec pn rest d1 hnd' hsrc'
    refine ⟨?_, ?_⟩
    · intro nc hnc
      rcases List.mem_cons.1 hnc with rfl | hin
      · rw [i2 _ (fun m hm => ⟨by intro h; simp at h; exact hn (h ▸ hm), by simp⟩)]
        exact hh1
      · exact i1 nc hin
    · intro k hk
      have hk0 := hk n (by simp)
      rw [i2 k (fun m hm => hk m (by simp [hm])), hh2 k hk0.1 hk0.2]

/-! ### PathStorage.output -/

theorem outputPath_ok (p : PathInfo) (d : Disk) (hnd : (p.files.map Prod.fst).Nodup)
    (hsrc : ∀ nc ∈ p.files, d.files.get (.wfile nc.1) = .complete nc.2) :
    pathOK (run (outputPath p d) d).files p = true := by
  unfold outputPath
  simp only [run_append]
  generalize hd1 : run (writeFile (Key.traj p.pn) p.cid) (run (writeFile (Key.energy p.pn) p.cid)
    (run (writeFile (Key.order p.pn) p.cid) (run (makeDirs p.pn d) d))) = d1
  have hdirs := makeDirs_owned p.pn d
  have g : ∀ k, (∀ q, k ≠ .pdir q ∧ k ≠ .acc q) → (run (makeDirs p.pn d) d).files.get k = d.files.get k := by
    intro k hk
    unfold makeDirs
    split <;> simp [Effect.apply] <;> (try split) <;> (try split) <;>
      simp [Files.get_set, Ne.symm (hk p.pn).1, Ne.symm (hk p.pn).2]
  have ho : d1.files.get (.order p.pn) = .complete p.cid := by
    subst hd1; simp [writeFile, Effect.apply]
  have he : d1.files.get (.energy p.pn) = .complete p.cid := by
    subst hd1; simp [writeFile, Effect.apply]
  have ht : d1.files.get (.traj p.pn) = .complete p.cid := by
    subst hd1; simp [writeFile, Effect.apply]
  have hw : ∀ n, d1.files.get (.wfile n) = d.files.get (.wfile n) := by
    intro n; subst hd1; simp [writeFile, Effect.apply]; exact g _ (by simp)
  obtain ⟨m1, m2⟩ := moveFiles_spec p.pn p.files d1 hnd (fun nc hnc => by rw [hw]; exact hsrc nc hnc)
  rw [pathOK_iff]
  refine ⟨?_, ?_, ?_, m1⟩
  · rw [m2 _ (by simp)]; exact ho
  · rw [m2 _ (by simp)]; exact ht
  · rw [m2 _ (by simp)]; exact he


/-! ### the accepted-ensemble loop stores every new path completely -/

theorem accLoop_newOK (cfg : Cfg) : ∀ (accs : List Acc) (tn : Nat) (rem app : List Old) (d : Disk),
    app.length + accs.length ≤ cfg.n - 1 →
    (∀ o ∈ rem, o.pn < tn) →
    (accs.flatMap (fun a => a.files.map Prod.fst)).Nodup →
    (∀ a ∈ accs, ∀ nc ∈ a.files, d.files.get (.wfile nc.1) = .complete nc.2) →
    ∀ i a, accs[i]? = some a →
      pathOK (run (accLoop cfg accs tn (rem ++ app) d) d).files
        { pn := tn + i, cid := a.cid, files := a.files } = true
  | [], _, _, _, _, _, _, _, _ => by intro i a h; simp at h
  | a :: rest, tn, rem, app, d, hlen, hrem, hnd, hsrc => by
    intro i b hb
    simp only [accLoop, run_append]
    have hl1 : app.length + 1 ≤ cfg.n - 1 := by simp at hlen; omega
    generalize hd1 : run (outputPath { pn := tn, cid := a.cid, files := a.files } d) d = d1
    obtain ⟨rem', app', heq, hsub, hal, _, hown⟩ := deleteOld_spec cfg a.old rem app d1 hl1
    rw [heq]
    generalize hd2 : run (deleteOld cfg a.old (rem ++ app) d1).1 d1 = d2
    have hlen' : app'.length + rest.length ≤ cfg.n - 1 := by simp at hlen; omega
    have hrem' : ∀ o ∈ rem', o.pn < tn + 1 := fun o ho => Nat.lt_succ_of_lt (hrem o (hsub o ho))
    rw [List.flatMap_cons, List.nodup_append] at hnd
    obtain ⟨hnda, hndr, hdisj⟩ := hnd
    have hf2 := (run_frame hown d1).1
    rw [hd2] at hf2
    have hown_rest := accLoop_owned cfg rest (tn + 1) rem' app' d2 hlen'
    have hfr := (run_frame hown_rest d2).1
    have hnot_rem : tn ∉ rem.map (·.pn) := by
      intro h
      obtain ⟨o, ho, he⟩ := List.mem_map.1 h
      have := hrem o ho
      omega
    cases i with
    | zero =>
      simp at hb
      subst hb
      have h1 : pathOK d1.files { pn := tn, cid := a.cid, files := a.files } = true := by
        rw [← hd1]
        exact outputPath_ok _ d hnda (hsrc a (List.mem_cons_self ..))
      have h2 : pathOK d2.files { pn := tn, cid := a.cid, files := a.files } = true := by
        rw [pathOK_frame hf2 (by simpa using hnot_rem)]; exact h1
      rw [Nat.add_zero, pathOK_frame hfr]
      · exact h2
      · simp only [not_or]
        refine ⟨by omega, ?_⟩
        intro h
        obtain ⟨o, ho, he⟩ := List.mem_map.1 h
        have := hrem o (hsub o ho)
        omega
    | succ i =>
      simp at hb
      have hsrc2 : ∀ x ∈ rest, ∀ nc ∈ x.files, d2.files.get (.wfile nc.1) = .complete nc.2 := by
        intro x hx nc hnc
        have hnot : nc.1 ∉ a.files.map Prod.fst := by
          intro hin
          exact hdisj nc.1 hin nc.1 (List.mem_flatMap.2 ⟨x, hx, List.mem_map_of_mem hnc⟩) rfl
        rw [hf2 (.wfile nc.1) (by simp [Key.inDom]), ← hd1,
          (run_frame (outputPath_owned { pn := tn, cid := a.cid, files := a.files } d) d).1 (.wfile nc.1)
            (by simpa [Key.inDom] using hnot)]
        exact hsrc x (List.mem_cons_of_mem _ hx) nc hnc
      have := accLoop_newOK cfg rest (tn + 1) rem' app' d2 hlen' hrem' hndr hsrc2 i b hb
      rwa [show tn + 1 + i = tn + (i + 1) by omega] at this

/-! ### load_path finds a completely stored path -/

theorem loadPath_of_pathOK (M : Manifest) (f : Files) (p : PathInfo) (h : pathOK f p = true)
    (hM : M p.cid = some (p.files.map Prod.fst)) : loadPath M f p.pn = some p := by
  obtain ⟨h1, h2, h3, h4⟩ := (pathOK_iff f p).1 h
  have hall : (p.files.map Prod.fst).all (fun n => (f.get (.tfile p.pn n)).isFile) = true := by
    rw [List.all_eq_true]
    intro n hn
    obtain ⟨nc, hnc, rfl⟩ := List.mem_map.1 hn
    rw [h4 nc hnc]; rfl
  have hc : ∀ c, (FileState.complete c).isFile = true := fun _ => rfl
  unfold loadPath
  simp only [h1, h2, h3, hc, hM, hall]
  simp only [Bool.not_true, Bool.or_self, Bool.false_eq_true, if_false, if_true, List.map_map]
  refine congrArg some ?_
  obtain ⟨pn, cid, files⟩ := p
  simp only [PathInfo.mk.injEq, true_and]
  conv => rhs; rw [← List.map_id files]
  apply List.map_congr_left
  intro nc hnc
  simp [h4 nc hnc]

theorem loadPath_pn (M : Manifest) (f : Files) (a : Nat) (p : PathInfo) (h : loadPath M f a = some p) :
    p.pn = a := by
  unfold loadPath at h
  split at h
  · cases h
  · split at h
    · split at h
      · cases h
      · split at h
        · split at h <;> first | (injection h with h; rw [← h]) | cases h
        · cases h
    · cases h

theorem filterMap_load (M : Manifest) (f : Files) (live : List PathInfo)
    (h : ∀ p ∈ live, loadPath M f p.pn = some p) :
    (live.map (·.pn)).filterMap (loadPath M f) = live := by
  induction live with
  | nil => rfl
  | cons p t ih =>
    simp only [List.map_cons, List.filterMap_cons, h p (List.mem_cons_self ..)]
    rw [ih (fun q hq => h q (List.mem_cons_of_mem _ hq))]


/-! ### the delete_old_all block empties `accepted/` before it removes the directory -/

theorem run_removes (ks : List Key) (d : Disk) (k : Key) :
    (run (ks.map Effect.remove) d).files.get k = if k ∈ ks then .absent else d.files.get k := by
  induction ks generalizing d with
  | nil => simp
  | cons x t ih =>
    simp only [List.map_cons, run_cons, ih, Effect.apply, Files.get_set, List.mem_cons]
    by_cases h1 : k ∈ t
    · simp [h1]
    · by_cases h2 : x = k
      · simp [h1, h2]
      · have : ¬ k = x := fun h => h2 h.symm
        simp [h1, h2, this]

theorem mem_dedup (x : Nat) : ∀ l : List Nat, x ∈ dedup l ↔ x ∈ l
  | [] => by simp [dedup]
  | y :: t => by
    simp only [dedup]
    split
    · rename_i hy
      rw [mem_dedup x t]
      constructor
      · exact fun h => List.mem_cons_of_mem _ h
      · intro h
        rcases List.mem_cons.1 h with rfl | h
        · exact hy
        · exact h
    · simp [mem_dedup x t]

theorem get_ne_absent_mem (f : Files) (k : Key) (h : f.get k ≠ .absent) : ∃ s, (k, s) ∈ f := by
  induction f with
  | nil => exact absurd rfl h
  | cons e t ih =>
    obtain ⟨k', s⟩ := e
    simp only [Files.get] at h
    by_cases hk : k' = k
    · subst hk; exact ⟨s, List.mem_cons_self ..⟩
    · rw [if_neg hk] at h
      obtain ⟨s', hs⟩ := ih h
      exact ⟨s', List.mem_cons_of_mem _ hs⟩

theorem mem_tfileNames (f : Files) (pn n : Nat) (h : f.get (.tfile pn n) ≠ .absent) :
    n ∈ tfileNames f pn := by
  obtain ⟨s, hs⟩ := get_ne_absent_mem f _ h
  unfold tfileNames
  rw [List.mem_filter]
  refine ⟨(mem_dedup _ _).2 ?_, by simpa using h⟩
  rw [List.mem_filterMap]
  exact ⟨(.tfile pn n, s), hs, by simp⟩

/-- **the fix e7b75fb in the model**: when `os.rmdir(load/pn/accepted)` is reached, no entry of
    that directory exists any more — whatever stale files an interrupted and redone store left -/
theorem delAll_leaves_accepted_empty (o : Old) (d : Disk) (n : Nat) :
    (run (delAllRemoves o d) d).files.get (.tfile o.pn n) = .absent := by
  unfold delAllRemoves
  simp only [run_append]
  generalize hd2 : run (((txtKeys o.pn).filter (fun k => (d.files.get k).isFile)).map Effect.remove) d = d2
  have : (tfileNames d2.files o.pn).map (fun n => Effect.remove (.tfile o.pn n))
      = ((tfileNames d2.files o.pn).map (fun n => Key.tfile o.pn n)).map Effect.remove := by
    rw [List.map_map]; rfl
  rw [this, run_removes]
  split
  · rfl
  · rename_i hn
    by_cases habs : d2.files.get (.tfile o.pn n) = .absent
    · exact habs
    · exact absurd (List.mem_map_of_mem (mem_tfileNames d2.files o.pn n habs)) hn

end Infretis.Fs
