import Infretis.Model.Geom
import Mathlib.Data.Rat.Floor
import Mathlib.Algebra.Order.Field.Rat
import Mathlib.Tactic.Ring
import Mathlib.Tactic.Linarith
import Mathlib.Tactic.FieldSimp
/-! Helper lemmas for C20, part 1: `rint` (round half to even) and the periodic wrap. -/
namespace Infretis.Geom

theorem rat_floor_eq (x : ℚ) : x.floor = ⌊x⌋ := rfl

theorem rabs_eq (x : ℚ) : rabs x = |x| := by
  unfold rabs
  split
  · rw [abs_of_neg (by assumption)]
  · rw [abs_of_nonneg (by linarith)]

/-- `x` lies exactly half-way between two integers (where `rint` decides by parity) -/
def IsTie (x : ℚ) : Prop := x - (⌊x⌋ : ℚ) = 1 / 2

/-- the rounding residual `x − rint x` -/
def resid (x : ℚ) : ℚ := x - ((rint x : ℤ) : ℚ)

theorem rint_def (x : ℚ) : rint x =
    if x - (⌊x⌋ : ℚ) < 1 / 2 then ⌊x⌋ else if 1 / 2 < x - (⌊x⌋ : ℚ) then ⌊x⌋ + 1
    else if ⌊x⌋ % 2 = 0 then ⌊x⌋ else ⌊x⌋ + 1 := rfl

theorem rint_cases (x : ℚ) :
    (x - (⌊x⌋ : ℚ) < 1 / 2 ∧ rint x = ⌊x⌋) ∨
    (1 / 2 < x - (⌊x⌋ : ℚ) ∧ rint x = ⌊x⌋ + 1) ∨
    (IsTie x ∧ ⌊x⌋ % 2 = 0 ∧ rint x = ⌊x⌋) ∨
    (IsTie x ∧ ⌊x⌋ % 2 = 1 ∧ rint x = ⌊x⌋ + 1) := by
  unfold IsTie
  rw [rint_def]
  by_cases h1 : x - (⌊x⌋ : ℚ) < 1 / 2
  · left; exact ⟨h1, by rw [if_pos h1]⟩
  · by_cases h2 : 1 / 2 < x - (⌊x⌋ : ℚ)
    · right; left; exact ⟨h2, by rw [if_neg h1, if_pos h2]⟩
    · have h3 : x - (⌊x⌋ : ℚ) = 1 / 2 := le_antisymm (not_lt.mp h2) (not_lt.mp h1)
      by_cases h4 : ⌊x⌋ % 2 = 0
      · right; right; left; exact ⟨h3, h4, by rw [if_neg h1, if_neg h2, if_pos h4]⟩
      · right; right; right
        have : ⌊x⌋ % 2 = 1 := by omega
        exact ⟨h3, this, by rw [if_neg h1, if_neg h2, if_neg h4]⟩

theorem fract_bounds (x : ℚ) : 0 ≤ x - (⌊x⌋ : ℚ) ∧ x - (⌊x⌋ : ℚ) < 1 := by
  constructor
  · linarith [Int.floor_le x]
  · linarith [Int.lt_floor_add_one x]

/-- `rint` is a nearest integer -/
theorem abs_resid_le (x : ℚ) : |resid x| ≤ 1 / 2 := by
  unfold resid
  have hb := fract_bounds x
  rw [abs_le]
  rcases rint_cases x with ⟨h, e⟩ | ⟨h, e⟩ | ⟨h, _, e⟩ | ⟨h, _, e⟩ <;> rw [e]
  · constructor <;> linarith
  · push_cast; constructor <;> linarith
  · unfold IsTie at h; constructor <;> linarith
  · unfold IsTie at h; push_cast; constructor <;> linarith

theorem floor_add_int' (x : ℚ) (k : ℤ) : ⌊x + (k : ℚ)⌋ = ⌊x⌋ + k := Int.floor_add_intCast x k

theorem fract_add_int (x : ℚ) (k : ℤ) : x + (k : ℚ) - (⌊x + (k : ℚ)⌋ : ℚ) = x - (⌊x⌋ : ℚ) := by
  rw [floor_add_int']; push_cast; ring

theorem isTie_add_int (x : ℚ) (k : ℤ) : IsTie (x + k) ↔ IsTie x := by
  unfold IsTie; rw [fract_add_int]

/-- away from ties `rint` commutes with integer shifts -/
theorem rint_add_int_of_not_tie (x : ℚ) (k : ℤ) (h : ¬ IsTie x) : rint (x + k) = rint x + k := by
  have hk : ¬ IsTie (x + k) := by rwa [isTie_add_int]
  have hf := fract_add_int x k
  have hfl := floor_add_int' x k
  rcases rint_cases x with ⟨h1, e1⟩ | ⟨h1, e1⟩ | ⟨h1, _⟩ | ⟨h1, _⟩
  · rcases rint_cases (x + k) with ⟨h2, e2⟩ | ⟨h2, e2⟩ | ⟨h2, _⟩ | ⟨h2, _⟩
    · rw [e1, e2, hfl]
    · rw [hf] at h2; linarith
    · exact absurd h2 hk
    · exact absurd h2 hk
  · rcases rint_cases (x + k) with ⟨h2, e2⟩ | ⟨h2, e2⟩ | ⟨h2, _⟩ | ⟨h2, _⟩
    · rw [hf] at h2; linarith
    · rw [e1, e2, hfl]; ring
    · exact absurd h2 hk
    · exact absurd h2 hk
  · exact absurd h1 h
  · exact absurd h1 h

/-- at any `x`, `rint` commutes with *even* integer shifts -/
theorem rint_add_even (x : ℚ) (k : ℤ) (hk : k % 2 = 0) : rint (x + k) = rint x + k := by
  by_cases h : IsTie x
  · have hk' : IsTie (x + k) := by rwa [isTie_add_int]
    have hfl := floor_add_int' x k
    have hb := fract_bounds x
    have hb' := fract_bounds (x + k)
    unfold IsTie at h hk'
    rcases rint_cases x with ⟨h1, _⟩ | ⟨h1, _⟩ | ⟨_, p1, e1⟩ | ⟨_, p1, e1⟩
    · linarith
    · linarith
    · rcases rint_cases (x + k) with ⟨h2, _⟩ | ⟨h2, _⟩ | ⟨_, p2, e2⟩ | ⟨_, p2, e2⟩
      · linarith
      · linarith
      · rw [e1, e2, hfl]
      · rw [hfl] at p2; omega
    · rcases rint_cases (x + k) with ⟨h2, _⟩ | ⟨h2, _⟩ | ⟨_, p2, e2⟩ | ⟨_, p2, e2⟩
      · linarith
      · linarith
      · rw [hfl] at p2; omega
      · rw [e1, e2, hfl]; ring
  · exact rint_add_int_of_not_tie x k h

/-- at a tie an *odd* integer shift flips the rounding direction -/
theorem resid_add_odd_of_tie (x : ℚ) (k : ℤ) (h : IsTie x) (hk : k % 2 = 1) :
    resid (x + k) = - resid x := by
  have hk' : IsTie (x + k) := by rwa [isTie_add_int]
  have hfl := floor_add_int' x k
  unfold resid
  unfold IsTie at h hk'
  rcases rint_cases x with ⟨h1, _⟩ | ⟨h1, _⟩ | ⟨_, p1, e1⟩ | ⟨_, p1, e1⟩
  · linarith
  · linarith
  · rcases rint_cases (x + k) with ⟨h2, _⟩ | ⟨h2, _⟩ | ⟨_, p2, e2⟩ | ⟨_, p2, e2⟩
    · linarith
    · linarith
    · rw [hfl] at p2; omega
    · rw [e1, e2]; push_cast; linarith
  · rcases rint_cases (x + k) with ⟨h2, _⟩ | ⟨h2, _⟩ | ⟨_, p2, e2⟩ | ⟨_, p2, e2⟩
    · linarith
    · linarith
    · rw [e1, e2]; push_cast; linarith
    · rw [hfl] at p2; omega

theorem resid_add_int_of_not_tie (x : ℚ) (k : ℤ) (h : ¬ IsTie x) : resid (x + k) = resid x := by
  unfold resid; rw [rint_add_int_of_not_tie x k h]; push_cast; ring

theorem resid_add_even (x : ℚ) (k : ℤ) (hk : k % 2 = 0) : resid (x + k) = resid x := by
  unfold resid; rw [rint_add_even x k hk]; push_cast; ring

/-- in every case the residual keeps its absolute value under integer shifts -/
theorem resid_add_int_sq (x : ℚ) (k : ℤ) : resid (x + k) * resid (x + k) = resid x * resid x := by
  by_cases h : IsTie x
  · rcases Int.emod_two_eq_zero_or_one k with hk | hk
    · rw [resid_add_even x k hk]
    · rw [resid_add_odd_of_tie x k h hk]; ring
  · rw [resid_add_int_of_not_tie x k h]

/-! ### the wrap -/

/-- for a non-zero box length the `abs(d) > 0.5·L` guard is redundant:
    the wrapped component is `L · resid (d / L)` -/
theorem pbcWrap_eq (d L : ℚ) (hL : L ≠ 0) : pbcWrap d L = L * resid (d / L) := by
  unfold pbcWrap resid
  rw [rabs_eq]
  have hdiv : d * (1 / L) = d / L := by ring
  rw [hdiv]
  split
  · field_simp
  · rename_i hle
    have hle : |d| ≤ 1 / 2 * L := not_lt.mp hle
    have hpos : 0 < L := by
      rcases lt_or_gt_of_ne hL with h | h
      · have := abs_nonneg d; linarith
      · exact h
    -- |d/L| ≤ 1/2, so rint (d/L) = 0 (ties to even: ±1/2 ↦ 0)
    have hq : |d / L| ≤ 1 / 2 := by
      rw [abs_div, abs_of_pos hpos, div_le_iff₀ hpos]; linarith
    have hr : rint (d / L) = 0 := by
      rw [abs_le] at hq
      have hb := fract_bounds (d / L)
      rcases rint_cases (d / L) with ⟨h1, e⟩ | ⟨h1, e⟩ | ⟨h1, p, e⟩ | ⟨h1, p, e⟩
      · rw [e]
        have : (-1 : ℚ) < (⌊d / L⌋ : ℚ) := by linarith
        have h3 : (⌊d / L⌋ : ℚ) < 1 := by linarith
        have : (-1 : ℤ) < ⌊d / L⌋ := by exact_mod_cast this
        have : ⌊d / L⌋ < (1 : ℤ) := by exact_mod_cast h3
        omega
      · rw [e]
        have h2 : (⌊d / L⌋ : ℚ) < 0 := by linarith
        have h3 : (-2 : ℚ) < (⌊d / L⌋ : ℚ) := by linarith
        have : ⌊d / L⌋ < (0 : ℤ) := by exact_mod_cast h2
        have : (-2 : ℤ) < ⌊d / L⌋ := by exact_mod_cast h3
        omega
      · rw [e]
        unfold IsTie at h1
        have h2 : (⌊d / L⌋ : ℚ) ≤ 0 := by linarith
        have h3 : (-1 : ℚ) ≤ (⌊d / L⌋ : ℚ) := by linarith
        have : ⌊d / L⌋ ≤ (0 : ℤ) := by exact_mod_cast h2
        have : (-1 : ℤ) ≤ ⌊d / L⌋ := by exact_mod_cast h3
        omega
      · rw [e]
        unfold IsTie at h1
        have h2 : (⌊d / L⌋ : ℚ) ≤ 0 := by linarith
        have h3 : (-1 : ℚ) ≤ (⌊d / L⌋ : ℚ) := by linarith
        have : ⌊d / L⌋ ≤ (0 : ℤ) := by exact_mod_cast h2
        have : (-1 : ℤ) ≤ ⌊d / L⌋ := by exact_mod_cast h3
        omega
    rw [hr]; field_simp; simp

/-- **minimum image**: a wrapped component never exceeds half the box length -/
theorem abs_pbcWrap_le (d L : ℚ) (hL : 0 < L) : |pbcWrap d L| ≤ L / 2 := by
  rw [pbcWrap_eq d L (ne_of_gt hL), abs_mul, abs_of_pos hL]
  have := abs_resid_le (d / L)
  nlinarith

theorem shift_div (d L : ℚ) (k : ℤ) (hL : L ≠ 0) : (d + (k : ℚ) * L) / L = d / L + (k : ℚ) := by
  field_simp

/-- `d` is at a half-even tie of the box length `L`: `d / L` is a half-integer -/
def WrapTie (d L : ℚ) : Prop := IsTie (d / L)

theorem pbcWrap_shift_of_not_tie (d L : ℚ) (k : ℤ) (hL : L ≠ 0) (h : ¬ WrapTie d L) :
    pbcWrap (d + (k : ℚ) * L) L = pbcWrap d L := by
  rw [pbcWrap_eq _ _ hL, pbcWrap_eq _ _ hL, shift_div d L k hL, resid_add_int_of_not_tie _ _ h]

theorem pbcWrap_shift_even (d L : ℚ) (k : ℤ) (hL : L ≠ 0) (hk : k % 2 = 0) :
    pbcWrap (d + (k : ℚ) * L) L = pbcWrap d L := by
  rw [pbcWrap_eq _ _ hL, pbcWrap_eq _ _ hL, shift_div d L k hL, resid_add_even _ _ hk]

theorem pbcWrap_shift_odd_tie (d L : ℚ) (k : ℤ) (hL : L ≠ 0) (h : WrapTie d L) (hk : k % 2 = 1) :
    pbcWrap (d + (k : ℚ) * L) L = - pbcWrap d L := by
  rw [pbcWrap_eq _ _ hL, pbcWrap_eq _ _ hL, shift_div d L k hL, resid_add_odd_of_tie _ _ h hk]; ring

/-- the square (hence the absolute value) of the wrapped component is invariant under every
    image shift, ties included -/
theorem pbcWrap_shift_sq (d L : ℚ) (k : ℤ) (hL : L ≠ 0) :
    pbcWrap (d + (k : ℚ) * L) L * pbcWrap (d + (k : ℚ) * L) L = pbcWrap d L * pbcWrap d L := by
  rw [pbcWrap_eq _ _ hL, pbcWrap_eq _ _ hL, shift_div d L k hL]
  have := resid_add_int_sq (d / L) k
  calc L * resid (d / L + k) * (L * resid (d / L + k))
      = L * L * (resid (d / L + k) * resid (d / L + k)) := by ring
    _ = L * L * (resid (d / L) * resid (d / L)) := by rw [this]
    _ = _ := by ring

/-- with a zero box length nothing is shifted at all -/
theorem pbcWrap_shift_zero (d : ℚ) (k : ℤ) : pbcWrap (d + (k : ℚ) * 0) 0 = pbcWrap d 0 := by
  simp

theorem compNan_shift (d L : ℚ) (k : ℤ) : compNan (d + (k : ℚ) * L) L = compNan d L := by
  unfold compNan
  by_cases h : L = 0
  · subst h; simp
  · simp [h]

end Infretis.Geom
