import Infretis.Lemmas.GeomTotal
/-! Helper lemmas for C20 (extension pass), part 6: constructors / `create_orderparameter`,
    `calculate_order` as a whole, `Path.reverse` as a whole. -/
namespace Infretis.Geom

/-! ### `mapM` in `Except` -/

theorem mapM_forall₂ {ε α β : Type} (f : α → Except ε β) (P : α → β → Prop)
    (hP : ∀ a b, f a = .ok b → P a b) :
    ∀ (l : List α) (out : List β), l.mapM f = .ok out → List.Forall₂ P l out := by
  intro l
  induction l with
  | nil =>
    intro out h
    simp only [List.mapM_nil, pure, Except.pure, Except.ok.injEq] at h
    subst h; exact List.Forall₂.nil
  | cons a t ih =>
    intro out h
    rw [List.mapM_cons] at h
    cases ha : f a with
    | error e => simp [ha, bind, Except.bind] at h
    | ok b =>
      cases ht : t.mapM f with
      | error e => simp [ha, ht, bind, Except.bind] at h
      | ok bs =>
        simp only [ha, ht, bind, Except.bind, pure, Except.pure, Except.ok.injEq] at h
        subst h
        exact List.Forall₂.cons (hP a b ha) (ih bs ht)

theorem mapM_length {ε α β : Type} (f : α → Except ε β) (l : List α) (out : List β)
    (h : l.mapM f = .ok out) : out.length = l.length :=
  (List.Forall₂.length_eq (mapM_forall₂ f (fun _ _ => True) (fun _ _ _ => trivial) l out h)).symm

/-! ### constructors -/

theorem verifyPair_ok (idx : IdxVal) (h : verifyPair idx = .ok ()) :
    ∃ l, idx.items? = some l ∧ l.length = 2 := by
  unfold verifyPair at h
  cases hi : idx.items? with
  | none => simp [hi] at h
  | some l =>
    simp only [hi] at h
    by_cases hl : l.length = 2
    · exact ⟨l, rfl, hl⟩
    · simp [hl] at h

theorem verifyPair_wrong_count (idx : IdxVal) (l : List Scalar) (hi : idx.items? = some l) (hl : l.length ≠ 2) :
    verifyPair idx = .error .valueError := by
  unfold verifyPair; simp [hi, hl]

theorem verifyPair_no_len (idx : IdxVal) (hi : idx.items? = none) : verifyPair idx = .error .typeError := by
  unfold verifyPair; simp [hi]

theorem verifyPair_cases (idx : IdxVal) :
    verifyPair idx = .ok () ∨ verifyPair idx = .error .typeError ∨ verifyPair idx = .error .valueError := by
  unfold verifyPair
  cases idx.items? with
  | none => simp
  | some l => by_cases hl : l.length = 2 <;> simp [hl]

theorem ctorInts_length (n : Nat) (idx : IdxVal) (l : List Int) (h : ctorInts n idx = .ok l) : l.length = n := by
  unfold ctorInts at h
  cases hi : idx.items? with
  | none => simp [hi] at h
  | some items =>
    simp only [hi] at h
    by_cases hl : items.length = n
    · simp only [hl, ne_eq, not_true_eq_false, if_false] at h
      rw [mapM_length pyInt items l h, hl]
    · simp [hl] at h

theorem ctorInts_wrong_count (n : Nat) (idx : IdxVal) (items : List Scalar) (hi : idx.items? = some items)
    (hl : items.length ≠ n) : ctorInts n idx = .error .valueError := by
  unfold ctorInts; simp [hi, hl]

theorem ctorInts_no_len (n : Nat) (idx : IdxVal) (hi : idx.items? = none) : ctorInts n idx = .error .typeError := by
  unfold ctorInts; simp [hi]

theorem mapM_pyInt_ints (l : List Int) : (l.map Scalar.int).mapM pyInt = .ok l := by
  induction l with
  | nil => rfl
  | cons a t ih => simp [List.mapM_cons, pyInt, ih, bind, Except.bind, pure, Except.pure]

/-- the well-formedness a constructed object is guaranteed to have: the COUNT of indices (and the
    dimension of a Velocity); nothing about their range -/
def Obj.WellCounted : Obj → Prop
  | .base => True
  | .distance i _ => ∃ l, i.items? = some l ∧ l.length = 2
  | .distancevel i _ => ∃ l, i.items? = some l ∧ l.length = 2
  | .position i => ∃ l, i.items? = some l ∧ l.length = 2
  | .velocity _ d => d < 3
  | .dihedral l _ => l.length = 4
  | .puckering l _ => l.length = 6

theorem ctorDistance_ok (i : IdxVal) (p : Bool) (o : Obj) (h : ctorDistance i p = .ok o) :
    o = .distance i p ∧ ∃ l, i.items? = some l ∧ l.length = 2 := by
  unfold ctorDistance at h
  rcases verifyPair_cases i with hv | hv | hv
  · simp only [hv, bind, Except.bind, pure, Except.pure, Except.ok.injEq] at h
    exact ⟨h.symm, verifyPair_ok i hv⟩
  · simp [hv, bind, Except.bind] at h
  · simp [hv, bind, Except.bind] at h

theorem ctorDistancevel_ok (i : IdxVal) (p : Bool) (o : Obj) (h : ctorDistancevel i p = .ok o) :
    o = .distancevel i p ∧ ∃ l, i.items? = some l ∧ l.length = 2 := by
  unfold ctorDistancevel at h
  rcases verifyPair_cases i with hv | hv | hv
  · simp only [hv, bind, Except.bind, pure, Except.pure, Except.ok.injEq] at h
    exact ⟨h.symm, verifyPair_ok i hv⟩
  · simp [hv, bind, Except.bind] at h
  · simp [hv, bind, Except.bind] at h

theorem ctorPosition_ok (i : IdxVal) (p : Bool) (o : Obj) (h : ctorPosition i p = .ok o) :
    o = .position i ∧ p = false ∧ ∃ l, i.items? = some l ∧ l.length = 2 := by
  unfold ctorPosition at h
  rcases verifyPair_cases i with hv | hv | hv
  · cases p with
    | true => simp [hv, bind, Except.bind, throw, throwThe, MonadExceptOf.throw] at h
    | false =>
      simp only [hv, bind, Except.bind, pure, Except.pure, Bool.false_eq_true, if_false, Except.ok.injEq] at h
      exact ⟨h.symm, rfl, verifyPair_ok i hv⟩
  · simp [hv, bind, Except.bind] at h
  · simp [hv, bind, Except.bind] at h

theorem dimOf_lt (dim : String) (d : Nat) (h : dimOf dim = some d) : d < 3 := by
  unfold dimOf at h
  simp only at h
  split at h
  · simp only [Option.some.injEq] at h; omega
  · split at h
    · simp only [Option.some.injEq] at h; omega
    · split at h
      · simp only [Option.some.injEq] at h; omega
      · cases h

theorem ctorVelocity_ok (i : IdxVal) (dim : String) (o : Obj) (h : ctorVelocity i dim = .ok o) :
    ∃ d, o = .velocity i d ∧ d < 3 := by
  unfold ctorVelocity at h
  cases hd : dimOf dim with
  | none => simp [hd] at h
  | some d =>
    simp only [hd, Except.ok.injEq] at h
    exact ⟨d, h.symm, dimOf_lt dim d hd⟩

theorem ctorDihedral_ok (i : IdxVal) (p : Bool) (o : Obj) (h : ctorDihedral i p = .ok o) :
    ∃ l, o = .dihedral l p ∧ l.length = 4 := by
  unfold ctorDihedral at h
  cases hc : ctorInts 4 i with
  | error e => simp [hc, bind, Except.bind] at h
  | ok l =>
    simp only [hc, bind, Except.bind, pure, Except.pure, Except.ok.injEq] at h
    exact ⟨l, h.symm, ctorInts_length 4 i l hc⟩

theorem ctorPuckering_ok (i : IdxVal) (p : Bool) (o : Obj) (h : ctorPuckering i p = .ok o) :
    ∃ l, o = .puckering l p ∧ l.length = 6 := by
  unfold ctorPuckering at h
  cases hc : ctorInts 6 i with
  | error e => simp [hc, bind, Except.bind] at h
  | ok l =>
    simp only [hc, bind, Except.bind, pure, Except.pure, Except.ok.injEq] at h
    exact ⟨l, h.symm, ctorInts_length 6 i l hc⟩

theorem map_obj_ok (x : Except CtorErr Obj) (o : Obj) (h : x.map Created.obj = .ok (.obj o)) : x = .ok o := by
  cases x with
  | error e => simp [Except.map] at h
  | ok a => simp only [Except.map, Except.ok.injEq, Created.obj.injEq] at h; rw [h]

/-- the object a successful `create_orderparameter` returns has the right NUMBER of indices -/
theorem create_wellCounted (st : Settings) (o : Obj) (h : createOrderParameter st = .ok (.obj o)) :
    o.WellCounted := by
  unfold createOrderParameter at h
  simp only at h
  split at h
  · cases h
  · split at h
    · simp only [Except.ok.injEq, Created.obj.injEq] at h; subst h; trivial
    · cases hi : st.index with
      | none => simp [hi] at h
      | some idx =>
        simp only [hi] at h
        split at h
        · obtain ⟨rfl, _, hl⟩ := ctorPosition_ok _ _ _ (map_obj_ok _ _ h); exact hl
        · split at h
          · obtain ⟨d, rfl, hd⟩ := ctorVelocity_ok _ _ _ (map_obj_ok _ _ h); exact hd
          · split at h
            · obtain ⟨rfl, hl⟩ := ctorDistance_ok _ _ _ (map_obj_ok _ _ h); exact hl
            · split at h
              · obtain ⟨l, rfl, hl⟩ := ctorDihedral_ok _ _ _ (map_obj_ok _ _ h); exact hl
              · split at h
                · obtain ⟨rfl, hl⟩ := ctorDistancevel_ok _ _ _ (map_obj_ok _ _ h); exact hl
                · obtain ⟨l, rfl, hl⟩ := ctorPuckering_ok _ _ _ (map_obj_ok _ _ h); exact hl

/-- Dihedral / Puckering objects always lie in the domain of `calculate` (their indices went through `int()`) -/
theorem dihedral_toOP (l : List Int) (p : Bool) (hl : l.length = 4) : ∃ op, (Obj.dihedral l p).toOP = some op := by
  match l, hl with
  | [a, b, c, d], _ => exact ⟨_, rfl⟩

theorem puckering_toOP (l : List Int) (p : Bool) (hl : l.length = 6) : ∃ op, (Obj.puckering l p).toOP = some op := by
  match l, hl with
  | [a, b, c, d, e, f], _ => exact ⟨_, rfl⟩

/-- the `velocity_dependent` attribute of the object is the flag of the class -/
theorem toOP_velocityDependent (o : Obj) (op : OP) (h : o.toOP = some op) :
    o.velocityDependent = op.velocityDependent := by
  unfold Obj.toOP at h
  split at h <;> first
    | (simp only [Option.some.injEq] at h; subst h; rfl)
    | cases h

/-! ### `calculate_order` -/

theorem effects_eq (op : OP) (s : Sys) : effects op s = s := by cases op <;> rfl

/-- errors of `calculate` seen through `calculate_order` -/
def liftCO {α : Type} : Except Err α → Except COErr α
  | .ok a => .ok a
  | .error e => .error (.op e)

theorem calculateOrderFull_explicit (var : Variant) (op : OP) (s : SysF) (x v : List V3) (b : List ℚ)
    (file : Config) :
    (calculateOrderFull var (some op) s (some x) (some v) (some b) file).read = false ∧
    (calculateOrderFull var (some op) s (some x) (some v) (some b) file).val =
      liftCO (calculateOrder var op s.velRev s.box x v (some b)).1 ∧
    (calculateOrderFull var (some op) s (some x) (some v) (some b) file).sys =
      ⟨x, if s.velRev then v.map V3.neg else v, some b, s.velRev⟩ := by
  refine ⟨rfl, ?_, ?_⟩
  · simp only [calculateOrderFull, calculateOrder, calculate, newBox, SysF.toSys, Option.isNone_some,
      Bool.or_self, Bool.false_eq_true, if_false]
    cases value var op _ <;> rfl
  · simp [calculateOrderFull, calculate, effects_eq, SysF.toSys]

/-- the positions / velocities / box the System holds after the assignments of `calculate_order` -/
def coPos (s : SysF) (xyz : Option (List V3)) : List V3 := xyz.getD s.pos
def coVel (s : SysF) (vel : Option (List V3)) : List V3 :=
  match vel with
  | some v => if s.velRev then v.map V3.neg else v
  | none => s.vel
def coBox (s : SysF) (box : Option (List ℚ)) : Option (List ℚ) :=
  match box with
  | some b => some b
  | none => s.box

/-- normal form of `calculateOrderFull`: which arrays are used, then `calculate` on them -/
theorem calculateOrderFull_eq (var : Variant) (fn : Option OP) (s : SysF) (xyz vel : Option (List V3))
    (box : Option (List ℚ)) (file : Config) :
    calculateOrderFull var fn s xyz vel box file =
      (let read := xyz.isNone || vel.isNone || box.isNone
       let P := coPos s (if read then file.xyz else xyz)
       let V := coVel s (if read then file.vel else vel)
       let B := coBox s (if read then file.box else box)
       match fn with
       | none => ⟨.error .noOrderFunction, ⟨P, V, B, s.velRev⟩, read⟩
       | some op => ⟨liftCO (value var op ⟨P, V, B⟩), ⟨P, V, B, s.velRev⟩, read⟩) := by
  simp only [calculateOrderFull]
  generalize (if (xyz.isNone || vel.isNone || box.isNone) = true then file.xyz else xyz) = X
  generalize (if (xyz.isNone || vel.isNone || box.isNone) = true then file.vel else vel) = V
  generalize (if (xyz.isNone || vel.isNone || box.isNone) = true then file.box else box) = B
  cases fn with
  | none => cases X <;> cases V <;> cases B <;> rfl
  | some op =>
    cases X <;> cases V <;> cases B <;>
      simp only [calculate, effects_eq, SysF.toSys, coPos, coVel, coBox, Option.getD, liftCO] <;>
      (split <;> simp_all [liftCO])

/-! ### Cremer–Pople: mean-plane conditions and amplitude -/

/-- unconditional Parseval identity on six points (the discrete Fourier transform behind eq. 12–14 of
    Cremer & Pople) -/
theorem parseval6 (z0 z1 z2 z3 z4 z5 : ℚ) :
    z0 * z0 + z1 * z1 + z2 * z2 + z3 * z3 + z4 * z4 + z5 * z5 =
      (1 / 6) * ((z0 + z1 + z2 + z3 + z4 + z5) ^ 2
        + 2 * (z0 + (1 / 2) * (z1 - z2 - z4 + z5) - z3) ^ 2 + (3 / 2) * (z1 + z2 - z4 - z5) ^ 2
        + 2 * (z0 - (1 / 2) * z1 - (1 / 2) * z2 + z3 - (1 / 2) * z4 - (1 / 2) * z5) ^ 2
        + (3 / 2) * (z1 - z2 + z4 - z5) ^ 2
        + (z0 - z1 + z2 - z3 + z4 - z5) ^ 2) := by ring

/-- Σ z_j = 0 (the ring is centred) -/
theorem plane_sum (r : Ring6) :
    V3.dot (puckerOf r).q.p0 (puckerOf r).normal + V3.dot (puckerOf r).q.p1 (puckerOf r).normal
      + V3.dot (puckerOf r).q.p2 (puckerOf r).normal + V3.dot (puckerOf r).q.p3 (puckerOf r).normal
      + V3.dot (puckerOf r).q.p4 (puckerOf r).normal + V3.dot (puckerOf r).q.p5 (puckerOf r).normal = 0 := by
  simp only [puckerOf, centre, ringA, ringB, V3.dot, V3.cross, V3.sub, V3.add, V3.smul]
  ring

/-- Σ z_j sin(2πj/6) = 0 (times 2/√3): `R′ · n = 0` -/
theorem plane_sin (r : Ring6) :
    V3.dot (puckerOf r).q.p1 (puckerOf r).normal + V3.dot (puckerOf r).q.p2 (puckerOf r).normal
      - V3.dot (puckerOf r).q.p4 (puckerOf r).normal - V3.dot (puckerOf r).q.p5 (puckerOf r).normal = 0 := by
  simp only [puckerOf, centre, ringA, ringB, V3.dot, V3.cross, V3.sub, V3.add, V3.smul]
  ring

/-- Σ z_j cos(2πj/6) = 0: `R″ · n = 0` -/
theorem plane_cos (r : Ring6) :
    V3.dot (puckerOf r).q.p0 (puckerOf r).normal
      + (1 / 2) * (V3.dot (puckerOf r).q.p1 (puckerOf r).normal - V3.dot (puckerOf r).q.p2 (puckerOf r).normal
        - V3.dot (puckerOf r).q.p4 (puckerOf r).normal + V3.dot (puckerOf r).q.p5 (puckerOf r).normal)
      - V3.dot (puckerOf r).q.p3 (puckerOf r).normal = 0 := by
  simp only [puckerOf, centre, ringA, ringB, V3.dot, V3.cross, V3.sub, V3.add, V3.smul]
  ring

end Infretis.Geom
