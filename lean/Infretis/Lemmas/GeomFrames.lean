import Infretis.Lemmas.GeomFlow
import Infretis.Model.GeomFrames
/-! Helper lemmas for C20 (follow-up pass), part 7: frames the library really makes (no arrays / empty arrays),
    2-D boxes, periodic parameters without a box. -/
namespace Infretis.Geom

theorem periodicFlag_eq (op : OP) : op.periodicFlag = op.periodic := by cases op <;> rfl

theorem nonPeriodic_periodic (op : OP) : op.nonPeriodic.periodic = false := by cases op <;> rfl

theorem nonPeriodic_relative (op : OP) : op.nonPeriodic.relative = op.relative := by cases op <;> rfl

theorem nonPeriodic_velocityDependent (op : OP) : op.nonPeriodic.velocityDependent = op.velocityDependent := by
  cases op <;> rfl

/-! ### a periodic parameter on a System without a box is the non-periodic one -/

theorem applyBox_none (p sl : Bool) (d : V3) : applyBox p none sl d = .ok ⟨d, false⟩ := by
  unfold applyBox; cases p <;> rfl

theorem value_nobox (var : Variant) (op : OP) (s : Sys) (h : s.box = none) :
    value var op s = value var op.nonPeriodic s := by
  cases op with
  | distance i0 i1 p => simp only [value, OP.nonPeriodic, distanceSq, h, applyBox_none]
  | distancevel i0 i1 p => simp only [value, OP.nonPeriodic, distancevelNum, h, applyBox_none]
  | position i d => rfl
  | velocity i d => rfl
  | dihedral i0 i1 i2 i3 p => simp only [value, OP.nonPeriodic, dihedral, h, applyBox_none]
  | puckering i0 i1 i2 i3 i4 i5 p =>
    simp only [value, OP.nonPeriodic, puckering, h, Option.isSome_none, Bool.and_false, Bool.false_eq_true, if_false]

/-! ### empty arrays: every access is an IndexError -/

theorem getAtom_nil (i : Int) : getAtom ([] : List V3) i = .error .index := by
  unfold getAtom
  cases pyIdx ([] : List V3).length i with
  | none => rfl
  | some j => simp

theorem value_empty (var : Variant) (op : OP) (box : Option (List ℚ)) :
    value var op ⟨[], [], box⟩ = .error .index := by
  cases op <;>
    simp [value, distanceSq, distancevelNum, position, velocity, dihedral, puckering, getAtom_nil, bind, Except.bind,
      Except.map]

theorem posAccess_empty (op : OP) (hp : op.periodicFlag = true) : posAccess op [] = .error .index := by
  cases op <;> simp [OP.periodicFlag] at hp <;> simp [posAccess, getAtom_nil, bind, Except.bind]

theorem valueB_empty (var : Variant) (op : OP) (box : BoxVal) : valueB var op [] [] box = .error .index := by
  cases box with
  | none => simp [valueB, value_empty, liftX, Err.toX]
  | flat l => simp [valueB, value_empty, liftX, Err.toX]
  | mat m =>
    unfold valueB
    by_cases hp : op.periodicFlag = true
    · simp [hp, posAccess_empty op hp, Err.toX]
    · simp [hp, value_empty, liftX, Err.toX]

/-! ### `mapM` that fails at the head -/

theorem mapM_cons_error {ε α β : Type} (f : α → Except ε β) (a : α) (t : List α) (e : ε) (h : f a = .error e) :
    (a :: t).mapM f = .error e := by
  rw [List.mapM_cons]; simp [h, bind, Except.bind]

theorem mapM_all_error {ε α β : Type} (f : α → Except ε β) (e : ε) (l : List α) (hne : l ≠ [])
    (h : ∀ a ∈ l, f a = .error e) : l.mapM f = .error e := by
  cases l with
  | nil => exact absurd rfl hne
  | cons a t => exact mapM_cons_error f a t e (h a (List.mem_cons_self ..))

theorem mapM_ok_forall {ε α β : Type} (f : α → Except ε β) (P : α → Prop) (hP : ∀ a b, f a = .ok b → P a) :
    ∀ (l : List α) (out : List β), l.mapM f = .ok out → ∀ a ∈ l, P a := by
  intro l
  induction l with
  | nil => intro _ _ a ha; cases ha
  | cons a t ih =>
    intro out h
    rw [List.mapM_cons] at h
    cases ha : f a with
    | error e => simp [ha, bind, Except.bind] at h
    | ok b =>
      cases ht : t.mapM f with
      | error e => simp [ha, ht, bind, Except.bind] at h
      | ok bs =>
        intro x hx
        rcases List.mem_cons.mp hx with rfl | hx
        · exact hP _ b ha
        · exact ih bs ht x hx

/-! ### one frame -/

theorem calcFrame_noArrays (var : Variant) (op : OP) (f : LFrame) (h : f.arrays = none) :
    calcFrame var op f = .error .typeError := by
  unfold calcFrame; rw [h]

theorem calcFrame_empty (var : Variant) (op : OP) (f : LFrame) (h : f.arrays = some ([], [])) :
    calcFrame var op f = .error .index := by
  unfold calcFrame; rw [h]; exact valueB_empty var op f.box

theorem recomputeLFrame_noArrays (var : Variant) (op : OP) (f : LFrame) (h : f.arrays = none) :
    recomputeLFrame var op f = .error .typeError := by
  unfold recomputeLFrame; rw [calcFrame_noArrays var op f h]

theorem recomputeLFrame_empty (var : Variant) (op : OP) (f : LFrame) (h : f.arrays = some ([], [])) :
    recomputeLFrame var op f = .error .index := by
  unfold recomputeLFrame; rw [calcFrame_empty var op f h]

theorem recomputeLFrame_ok_arrays (var : Variant) (op : OP) (f g : LFrame) (h : recomputeLFrame var op f = .ok g) :
    f.arrays.isSome = true := by
  cases ha : f.arrays with
  | none => rw [recomputeLFrame_noArrays var op f ha] at h; cases h
  | some x => rfl

/-- the mirrored, flag-toggled, `maxlen`-cut list `Path.reverse` builds before any recomputation -/
def mirroredL (revV : Bool) (maxlen : Option Nat) (frames : List LFrame) : List LFrame :=
  appendAllL maxlen (frames.reverse.map (fun f => if revV then { f with velRev := !f.velRev } else f))

theorem mirroredL_ne_nil (revV : Bool) (maxlen : Option Nat) (frames : List LFrame) (hne : frames ≠ [])
    (hm : maxlen ≠ some 0) : mirroredL revV maxlen frames ≠ [] := by
  unfold mirroredL appendAllL
  have h1 : frames.reverse.map (fun f => if revV then { f with velRev := !f.velRev } else f) ≠ [] := by
    simp [hne]
  cases maxlen with
  | none => exact h1
  | some m =>
    cases m with
    | zero => exact absurd rfl hm
    | succ k =>
      intro h
      cases hl : frames.reverse.map (fun f => if revV then { f with velRev := !f.velRev } else f) with
      | nil => exact h1 hl
      | cons a t => rw [hl] at h; simp at h

theorem mirroredL_arrays (revV : Bool) (maxlen : Option Nat) (frames : List LFrame) (a : Option (List V3 × List V3))
    (h : ∀ f ∈ frames, f.arrays = a) : ∀ g ∈ mirroredL revV maxlen frames, g.arrays = a := by
  intro g hg
  unfold mirroredL appendAllL at hg
  have hg' : g ∈ frames.reverse.map (fun f => if revV then { f with velRev := !f.velRev } else f) := by
    cases maxlen with
    | none => exact hg
    | some m => exact List.mem_of_mem_take hg
  rcases List.mem_map.mp hg' with ⟨f, hf, rfl⟩
  have := h f (List.mem_reverse.mp hf)
  cases revV <;> simpa using this

/-! ### hand-built frames are a special case -/

theorem calcFrame_toL (var : Variant) (op : OP) (f : PFrame) :
    calcFrame var op f.toL = liftX (value var op f.sys) := by
  unfold calcFrame PFrame.toL
  cases hb : f.sys.box with
  | none =>
    simp only [valueB]
    congr 2
    cases hs : f.sys with
    | mk p v b => rw [hs] at hb; simp only at hb; subst hb; rfl
  | some l =>
    simp only [valueB]
    congr 2
    cases hs : f.sys with
    | mk p v b => rw [hs] at hb; simp only at hb; subst hb; rfl

/-! ### the base class is made for `class = "orderparameter"` only -/

theorem create_base_cls (st : Settings) (o : Obj) (h : createOrderParameter st = .ok (.obj o)) (ho : o = .base) :
    st.cls.map Char.toLower = "orderparameter" := by
  unfold createOrderParameter at h
  simp only at h
  split at h
  · cases h
  · split at h
    · rename_i hk'; exact hk'
    · cases hi : st.index with
      | none => simp [hi] at h
      | some idx =>
        simp only [hi] at h
        split at h
        · obtain ⟨rfl, _, _⟩ := ctorPosition_ok _ _ _ (map_obj_ok _ _ h); cases ho
        · split at h
          · obtain ⟨d, rfl, _⟩ := ctorVelocity_ok _ _ _ (map_obj_ok _ _ h); cases ho
          · split at h
            · obtain ⟨rfl, _⟩ := ctorDistance_ok _ _ _ (map_obj_ok _ _ h); cases ho
            · split at h
              · obtain ⟨l, rfl, _⟩ := ctorDihedral_ok _ _ _ (map_obj_ok _ _ h); cases ho
              · split at h
                · obtain ⟨rfl, _⟩ := ctorDistancevel_ok _ _ _ (map_obj_ok _ _ h); cases ho
                · obtain ⟨l, rfl, _⟩ := ctorPuckering_ok _ _ _ (map_obj_ok _ _ h); cases ho

theorem create_notBase (st : Settings) (hk : st.cls.map Char.toLower ≠ "orderparameter")
    (h : createOrderParameter st = .ok (.obj .base)) : False :=
  hk (create_base_cls st .base h rfl)

end Infretis.Geom
