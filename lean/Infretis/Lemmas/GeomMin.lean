import Infretis.Lemmas.GeomSys
import Infretis.Model.GeomFlow
/-! Helper lemmas for C20 (extension pass), part 4: the wrapped component IS an image and is the
    SHORTEST image; Galilean shift of the velocities; lattice vectors of a 9-component (triclinic) box. -/
namespace Infretis.Geom

/-! ### minimum image: image and minimality -/

/-- the wrapped component differs from the input by an integer number of box lengths -/
theorem pbcWrap_image (d L : ℚ) (hL : L ≠ 0) :
    pbcWrap d L = d - ((rint (d / L) : ℤ) : ℚ) * L := by
  rw [pbcWrap_eq d L hL]
  unfold resid
  field_simp

/-- a non-zero integer multiple of `L > 0` is at least `L` in absolute value -/
theorem abs_int_mul_ge (m : ℤ) (L : ℚ) (hL : 0 < L) (hm : m ≠ 0) : L ≤ |(m : ℚ) * L| := by
  rw [abs_mul, abs_of_pos hL]
  have h1 : (1 : ℚ) ≤ |(m : ℚ)| := by
    have : (1 : ℤ) ≤ |m| := Int.one_le_abs hm
    have h2 : ((1 : ℤ) : ℚ) ≤ ((|m| : ℤ) : ℚ) := by exact_mod_cast this
    simpa [Int.cast_abs] using h2
  nlinarith

/-- **the wrapped component is the shortest of all images** `d + k·L` -/
theorem abs_pbcWrap_le_image (d L : ℚ) (hL : 0 < L) (k : ℤ) : |pbcWrap d L| ≤ |d + (k : ℚ) * L| := by
  have hb := abs_pbcWrap_le d L hL
  have himg := pbcWrap_image d L (ne_of_gt hL)
  set n := rint (d / L) with hn
  by_cases hz : n + k = 0
  · have : d + (k : ℚ) * L = pbcWrap d L := by
      have hk : (k : ℚ) = -(n : ℚ) := by
        have : k = -n := by omega
        rw [this]; push_cast; ring
      rw [himg, hk]; ring
    rw [this]
  · have e : d + (k : ℚ) * L = pbcWrap d L + ((n + k : ℤ) : ℚ) * L := by
      rw [himg]; push_cast; ring
    have hge := abs_int_mul_ge (n + k) L hL hz
    rw [e]
    have tri : |((n + k : ℤ) : ℚ) * L| ≤ |pbcWrap d L + ((n + k : ℤ) : ℚ) * L| + |pbcWrap d L| := by
      have := abs_sub (pbcWrap d L + ((n + k : ℤ) : ℚ) * L) (pbcWrap d L)
      simpa using this
    linarith

/-! ### Galilean shift of all velocities -/

/-- add the same velocity `u` to every atom -/
def shiftVel (u : V3) (s : Sys) : Sys := { s with vel := s.vel.map (fun v => V3.add v u) }

theorem distancevelNum_shiftVel (var : Variant) (s : Sys) (u : V3) (i0 i1 : Int) (p : Bool) :
    distancevelNum var (shiftVel u s) i0 i1 p = distancevelNum var s i0 i1 p := by
  unfold distancevelNum shiftVel
  simp only [getAtom_map]
  cases getAtom s.pos i1 <;> cases getAtom s.pos i0 <;> cases getAtom s.vel i1 <;> cases getAtom s.vel i0 <;>
    simp [Except.map, bind, Except.bind, sub_add_add]

/-! ### 9-component boxes as box MATRICES -/

/-- the box matrix of the 9-component form `xx, yy, zz, xy, xz, yx, yz, zx, zy`
    (`engineparts.box_matrix_to_list`): rows = cell vectors `a, b, c`; any other length: `none` -/
def boxMatrix : List ℚ → Option Mat3
  | [xx, yy, zz, xy, xz, yx, yz, zx, zy] => some ⟨⟨xx, xy, xz⟩, ⟨yx, yy, yz⟩, ⟨zx, zy, zz⟩⟩
  | _ => none

/-- lattice vector `k₁·a + k₂·b + k₃·c` of a cell -/
def latticeVec (M : Mat3) (k : Int × Int × Int) : V3 :=
  V3.add (V3.add (V3.smul (k.1 : ℚ) M.r1) (V3.smul (k.2.1 : ℚ) M.r2)) (V3.smul (k.2.2 : ℚ) M.r3)

/-- shift atom `a` by the lattice vector `ks a` of the cell `M` -/
def shiftLattice (M : Mat3) (ks : Nat → Int × Int × Int) (s : Sys) : Sys :=
  { s with pos := s.pos.mapIdx (fun a p => V3.add p (latticeVec M (ks a))) }

/-- for an orthogonal cell (all six off-diagonal entries zero) the lattice vectors are exactly the
    image vectors `(k₁·Lx, k₂·Ly, k₃·Lz)` the per-axis wrap is built for -/
theorem latticeVec_orthogonal (x y z : ℚ) (k : Int × Int × Int) :
    latticeVec ⟨⟨x, 0, 0⟩, ⟨0, y, 0⟩, ⟨0, 0, z⟩⟩ k = imageVec ⟨x, y, z⟩ k := by
  simp [latticeVec, imageVec, V3.add, V3.smul]

theorem shiftLattice_orthogonal (x y z : ℚ) (ks : Nat → Int × Int × Int) (s : Sys) :
    shiftLattice ⟨⟨x, 0, 0⟩, ⟨0, y, 0⟩, ⟨0, 0, z⟩⟩ ks s = shiftImages ⟨x, y, z⟩ ks s := by
  simp only [shiftLattice, shiftImages, latticeVec_orthogonal]

end Infretis.Geom
