import Infretis.Lemmas.GeomVec
/-! Helper lemmas for C20, part 3: the symmetry statements class by class
    (`distanceSq`, `distancevelNum`, `position`, `velocity`, `dihedral`, `puckering`). -/
namespace Infretis.Geom

/-! ### classification of the order parameters -/

/-- the "relative" built-in order parameters (functions of differences of positions) -/
def OP.relative : OP → Bool
  | .distance .. => true
  | .distancevel .. => true
  | .dihedral .. => true
  | .puckering .. => true
  | _ => false

/-- the `periodic` constructor argument (Position/Velocity have no periodic variant) -/
def OP.periodic : OP → Bool
  | .distance _ _ p => p
  | .distancevel _ _ p => p
  | .dihedral _ _ _ _ p => p
  | .puckering _ _ _ _ _ _ p => p
  | _ => false

/-- pairs `(a, b)` of particle indices whose difference `pos[a] − pos[b]` is wrapped -/
def OP.wrappedPairs : OP → List (Int × Int)
  | .distance i0 i1 _ => [(i1, i0)]
  | .distancevel i0 i1 _ => [(i1, i0)]
  | .dihedral i0 i1 i2 i3 _ => [(i0, i1), (i1, i2), (i3, i2)]
  | .puckering i0 i1 i2 i3 i4 i5 _ => [(i1, i0), (i2, i0), (i3, i0), (i4, i0), (i5, i0)]
  | _ => []

/-- none of the differences the order parameter wraps has a component at a half-box tie -/
def TieFreeSys (op : OP) (s : Sys) (L : V3) : Prop :=
  ∀ ab ∈ op.wrappedPairs, ∀ pa pb, getAtom s.pos ab.1 = .ok pa → getAtom s.pos ab.2 = .ok pb →
    TieFree (V3.sub pa pb) L

/-! ### translation -/

theorem distanceSq_translate (s : Sys) (t : V3) (i0 i1 : Int) (p : Bool) :
    distanceSq (translate t s) i0 i1 p = distanceSq s i0 i1 p := by
  unfold distanceSq translate
  simp only [getAtom_map]
  cases getAtom s.pos i1 <;> cases getAtom s.pos i0 <;>
    simp [Except.map, bind, Except.bind, sub_add_add]

theorem distancevelNum_translate (var : Variant) (s : Sys) (t : V3) (i0 i1 : Int) (p : Bool) :
    distancevelNum var (translate t s) i0 i1 p = distancevelNum var s i0 i1 p := by
  unfold distancevelNum translate
  simp only [getAtom_map]
  cases getAtom s.pos i1 <;> cases getAtom s.pos i0 <;>
    simp [Except.map, bind, Except.bind, sub_add_add]

theorem dihedral_translate (s : Sys) (t : V3) (i0 i1 i2 i3 : Int) (p : Bool) :
    dihedral (translate t s) i0 i1 i2 i3 p = dihedral s i0 i1 i2 i3 p := by
  unfold dihedral translate
  simp only [getAtom_map]
  cases getAtom s.pos i0 <;> cases getAtom s.pos i1 <;> cases getAtom s.pos i2 <;>
    cases getAtom s.pos i3 <;> simp [Except.map, bind, Except.bind, sub_add_add]

theorem map_bind_except {α β γ : Type} (x : Except Err α) (f : α → β) (g : β → Except Err γ) :
    (x.map f >>= g) = (x >>= fun a => g (f a)) := by
  cases x <;> rfl

theorem puckering_translate (s : Sys) (t : V3) (i0 i1 i2 i3 i4 i5 : Int) (p : Bool) :
    puckering (translate t s) i0 i1 i2 i3 i4 i5 p = puckering s i0 i1 i2 i3 i4 i5 p := by
  unfold puckering translate
  simp only [getAtom_map, map_bind_except]
  refine bind_congr (fun p0 => ?_)
  refine bind_congr (fun p1 => ?_)
  refine bind_congr (fun p2 => ?_)
  refine bind_congr (fun p3 => ?_)
  refine bind_congr (fun p4 => ?_)
  refine bind_congr (fun p5 => ?_)
  simp only [sub_add_add, puckerOf_translate, smul_zero_eq (V3.add p0 t) p0]

/-! ### image shifts -/

theorem distanceSq_shift (s : Sys) (L : V3) (rest : List ℚ) (ks : Nat → Int × Int × Int)
    (i0 i1 : Int) (hbox : s.box = some (L.x :: L.y :: L.z :: rest)) :
    distanceSq (shiftImages L ks s) i0 i1 true = distanceSq s i0 i1 true := by
  unfold distanceSq shiftImages
  simp only [getAtom_mapIdx, hbox, map_bind_except]
  refine bind_congr (fun p1 => ?_)
  refine bind_congr (fun p0 => ?_)
  rw [sub_add_image, applyBox_slice, applyBox_slice]
  obtain ⟨h1, h2⟩ := wrap3_shift_sq (V3.sub p1 p0) L
    (ksub (ks (atomNo s.pos.length i1)) (ks (atomNo s.pos.length i0)))
  simp [bind, Except.bind, h1, h2]

theorem distancevelNum_shift (var : Variant) (s : Sys) (L : V3) (rest : List ℚ)
    (ks : Nat → Int × Int × Int) (i0 i1 : Int)
    (hbox : s.box = some (L.x :: L.y :: L.z :: rest))
    (htf : TieFreeSys (.distancevel i0 i1 true) s L) :
    distancevelNum var (shiftImages L ks s) i0 i1 true = distancevelNum var s i0 i1 true := by
  unfold distancevelNum shiftImages
  simp only [getAtom_mapIdx, hbox]
  cases h1 : getAtom s.pos i1 with
  | error e => simp [Except.map, bind, Except.bind]
  | ok p1 =>
    cases h0 : getAtom s.pos i0 with
    | error e => simp [Except.map, bind, Except.bind]
    | ok p0 =>
      have tf := htf (i1, i0) (by simp [OP.wrappedPairs]) p1 p0 h1 h0
      simp only [Except.map, bind, Except.bind, sub_add_image]
      rw [applyBox_shift_tf _ _ _ _ _ tf]

theorem dihedral_shift (s : Sys) (L : V3) (rest : List ℚ) (ks : Nat → Int × Int × Int)
    (i0 i1 i2 i3 : Int) (hbox : s.box = some (L.x :: L.y :: L.z :: rest))
    (htf : TieFreeSys (.dihedral i0 i1 i2 i3 true) s L) :
    dihedral (shiftImages L ks s) i0 i1 i2 i3 true = dihedral s i0 i1 i2 i3 true := by
  unfold dihedral shiftImages
  simp only [getAtom_mapIdx, hbox]
  cases h0 : getAtom s.pos i0 with
  | error e => simp [Except.map, bind, Except.bind]
  | ok p0 =>
  cases h1 : getAtom s.pos i1 with
  | error e => simp [Except.map, bind, Except.bind]
  | ok p1 =>
  cases h2 : getAtom s.pos i2 with
  | error e => simp [Except.map, bind, Except.bind]
  | ok p2 =>
  cases h3 : getAtom s.pos i3 with
  | error e => simp [Except.map, bind, Except.bind]
  | ok p3 =>
    have tf1 := htf (i0, i1) (by simp [OP.wrappedPairs]) p0 p1 h0 h1
    have tf2 := htf (i1, i2) (by simp [OP.wrappedPairs]) p1 p2 h1 h2
    have tf3 := htf (i3, i2) (by simp [OP.wrappedPairs]) p3 p2 h3 h2
    simp only [Except.map, bind, Except.bind, sub_add_image]
    rw [applyBox_shift_tf _ _ _ _ _ tf1, applyBox_shift_tf _ _ _ _ _ tf2,
      applyBox_shift_tf _ _ _ _ _ tf3]

theorem puckering_shift (s : Sys) (L : V3) (rest : List ℚ) (ks : Nat → Int × Int × Int)
    (i0 i1 i2 i3 i4 i5 : Int) (hbox : s.box = some (L.x :: L.y :: L.z :: rest))
    (htf : TieFreeSys (.puckering i0 i1 i2 i3 i4 i5 true) s L) :
    puckering (shiftImages L ks s) i0 i1 i2 i3 i4 i5 true = puckering s i0 i1 i2 i3 i4 i5 true := by
  unfold puckering shiftImages
  simp only [getAtom_mapIdx, hbox]
  cases h0 : getAtom s.pos i0 with
  | error e => simp [Except.map, bind, Except.bind]
  | ok p0 =>
  cases h1 : getAtom s.pos i1 with
  | error e => simp [Except.map, bind, Except.bind]
  | ok p1 =>
  cases h2 : getAtom s.pos i2 with
  | error e => simp [Except.map, bind, Except.bind]
  | ok p2 =>
  cases h3 : getAtom s.pos i3 with
  | error e => simp [Except.map, bind, Except.bind]
  | ok p3 =>
  cases h4 : getAtom s.pos i4 with
  | error e => simp [Except.map, bind, Except.bind]
  | ok p4 =>
  cases h5 : getAtom s.pos i5 with
  | error e => simp [Except.map, bind, Except.bind]
  | ok p5 =>
    have tf1 := htf (i1, i0) (by simp [OP.wrappedPairs]) p1 p0 h1 h0
    have tf2 := htf (i2, i0) (by simp [OP.wrappedPairs]) p2 p0 h2 h0
    have tf3 := htf (i3, i0) (by simp [OP.wrappedPairs]) p3 p0 h3 h0
    have tf4 := htf (i4, i0) (by simp [OP.wrappedPairs]) p4 p0 h4 h0
    have tf5 := htf (i5, i0) (by simp [OP.wrappedPairs]) p5 p0 h5 h0
    simp only [Except.map, bind, Except.bind, sub_add_image, Bool.true_and, Option.isSome_some, if_true]
    rw [applyBox_shift_tf _ _ _ _ _ tf1, applyBox_shift_tf _ _ _ _ _ tf2,
      applyBox_shift_tf _ _ _ _ _ tf3, applyBox_shift_tf _ _ _ _ _ tf4,
      applyBox_shift_tf _ _ _ _ _ tf5]
    simp only [smul_zero_eq (V3.add p0 _) p0]

/-! ### velocity reversal -/

theorem getComp_neg (v : V3) (k : Int) : getComp (V3.neg v) k = (getComp v k).map (fun x => -x) := by
  unfold getComp
  cases pyIdx 3 k with
  | none => rfl
  | some j =>
    match j with
    | 0 => rfl
    | 1 => rfl
    | 2 => rfl
    | _ + 3 => rfl

theorem dot_sub_neg (w a b : V3) : V3.dot w (V3.sub (V3.neg a) (V3.neg b)) = - V3.dot w (V3.sub a b) := by
  simp only [V3.dot, V3.sub, V3.neg]; ring

theorem distancevelNum_reverse (var : Variant) (s : Sys) (i0 i1 : Int) (p : Bool) :
    distancevelNum var (reverseVel s) i0 i1 p
      = (distancevelNum var s i0 i1 p).map (fun r => (-r.1, r.2)) := by
  unfold distancevelNum reverseVel
  simp only [getAtom_map]
  cases getAtom s.pos i1 <;> cases getAtom s.pos i0 <;> simp only [Except.map, bind, Except.bind]
  rename_i p1 p0
  cases applyBox p s.box (distancevelSlices var) (V3.sub p1 p0) <;> simp only []
  cases getAtom s.vel i1 <;> cases getAtom s.vel i0 <;> simp only []
  rename_i w v1 v0
  cases hn : w.nan <;> simp [throw, throwThe, MonadExceptOf.throw, pure, Except.pure, dot_sub_neg]

theorem velocity_reverse (s : Sys) (i : Int) (dim : Nat) :
    velocity (reverseVel s) i dim = (velocity s i dim).map (fun x => -x) := by
  unfold velocity reverseVel
  simp only [getAtom_map]
  cases getAtom s.vel i <;> simp [Except.map, bind, Except.bind, getComp_neg]

/-! ### 3- and 9-component boxes -/

/-- the slicing classes see only the first three box entries -/
theorem applyBox_slice_rest (p : Bool) (x y z : ℚ) (rest : List ℚ) (d : V3) :
    applyBox p (some (x :: y :: z :: rest)) true d = applyBox p (some [x, y, z]) true d := by
  unfold applyBox
  simp

theorem distanceSq_box (s : Sys) (x y z : ℚ) (rest : List ℚ) (i0 i1 : Int) (p : Bool) :
    distanceSq { s with box := some (x :: y :: z :: rest) } i0 i1 p
      = distanceSq { s with box := some [x, y, z] } i0 i1 p := by
  unfold distanceSq
  simp only [applyBox_slice_rest]

theorem distancevelNum_box_repaired (s : Sys) (x y z : ℚ) (rest : List ℚ) (i0 i1 : Int) (p : Bool) :
    distancevelNum .repaired { s with box := some (x :: y :: z :: rest) } i0 i1 p
      = distancevelNum .repaired { s with box := some [x, y, z] } i0 i1 p := by
  unfold distancevelNum
  simp only [distancevelSlices, applyBox_slice_rest]

theorem distancevelNum_box_nonperiodic (var : Variant) (s : Sys) (b b' : Option (List ℚ)) (i0 i1 : Int) :
    distancevelNum var { s with box := b } i0 i1 false
      = distancevelNum var { s with box := b' } i0 i1 false := by
  unfold distancevelNum
  simp only [applyBox, Bool.false_eq_true, if_false]

theorem dihedral_box (s : Sys) (x y z : ℚ) (rest : List ℚ) (i0 i1 i2 i3 : Int) (p : Bool) :
    dihedral { s with box := some (x :: y :: z :: rest) } i0 i1 i2 i3 p
      = dihedral { s with box := some [x, y, z] } i0 i1 i2 i3 p := by
  unfold dihedral
  simp only [applyBox_slice_rest]

theorem puckering_box (s : Sys) (x y z : ℚ) (rest : List ℚ) (i0 i1 i2 i3 i4 i5 : Int) (p : Bool) :
    puckering { s with box := some (x :: y :: z :: rest) } i0 i1 i2 i3 i4 i5 p
      = puckering { s with box := some [x, y, z] } i0 i1 i2 i3 i4 i5 p := by
  unfold puckering
  simp only [applyBox_slice_rest, Option.isSome_some]

/-- as the code is: a periodic `Distancevel` with more than three box entries raises IndexError
    whenever both particle look-ups succeed -/
theorem distancevelNum_asIs_longbox (s : Sys) (x y z r : ℚ) (rest : List ℚ) (i0 i1 : Int)
    (p0 p1 : V3) (h0 : getAtom s.pos i0 = .ok p0) (h1 : getAtom s.pos i1 = .ok p1) :
    distancevelNum .asIs { s with box := some (x :: y :: z :: r :: rest) } i0 i1 true
      = .error .index := by
  unfold distancevelNum
  simp [h0, h1, bind, Except.bind, applyBox, distancevelSlices, pbcDist]

/-! ### rotations (non-periodic variants) -/

theorem distanceSq_rotate (R : Mat3) (hR : IsRotation R) (s : Sys) (i0 i1 : Int) :
    distanceSq (rotate R s) i0 i1 false = distanceSq s i0 i1 false := by
  unfold distanceSq rotate
  simp only [getAtom_map, map_bind_except]
  refine bind_congr (fun p1 => ?_)
  refine bind_congr (fun p0 => ?_)
  simp [applyBox, bind, Except.bind, ← mulVec_sub, dot_mulVec R hR]

theorem distancevelNum_rotate (var : Variant) (R : Mat3) (hR : IsRotation R) (s : Sys) (i0 i1 : Int) :
    distancevelNum var (rotate R s) i0 i1 false = distancevelNum var s i0 i1 false := by
  unfold distancevelNum rotate
  simp only [getAtom_map]
  cases getAtom s.pos i1 <;> cases getAtom s.pos i0 <;> cases getAtom s.vel i1 <;>
    cases getAtom s.vel i0 <;>
    simp [Except.map, applyBox, bind, Except.bind, ← mulVec_sub, dot_mulVec R hR]

theorem dihedral_rotate (R : Mat3) (hR : IsRotation R) (s : Sys) (i0 i1 i2 i3 : Int) :
    dihedral (rotate R s) i0 i1 i2 i3 false = dihedral s i0 i1 i2 i3 false := by
  unfold dihedral rotate
  simp only [getAtom_map, map_bind_except]
  refine bind_congr (fun p0 => ?_)
  refine bind_congr (fun p1 => ?_)
  refine bind_congr (fun p2 => ?_)
  refine bind_congr (fun p3 => ?_)
  simp [applyBox, bind, Except.bind, ← mulVec_sub, dihedralOf_rotate R hR]

theorem puckering_rotate (R : Mat3) (hR : IsRotation R) (s : Sys) (i0 i1 i2 i3 i4 i5 : Int) :
    (puckering (rotate R s) i0 i1 i2 i3 i4 i5 false).map (fun r => r.zs ++ [r.nn])
      = (puckering s i0 i1 i2 i3 i4 i5 false).map (fun r => r.zs ++ [r.nn]) := by
  unfold puckering rotate
  simp only [getAtom_map]
  cases getAtom s.pos i0 <;> cases getAtom s.pos i1 <;> cases getAtom s.pos i2 <;>
    cases getAtom s.pos i3 <;> cases getAtom s.pos i4 <;> cases getAtom s.pos i5 <;>
    simp only [Except.map, bind, Except.bind, Bool.false_and, Bool.false_eq_true, if_false, pure, Except.pure]
  rename_i p0 p1 p2 p3 p4 p5
  obtain ⟨hz, hn⟩ := puckerOf_rotate R hR ⟨p0, p1, p2, p3, p4, p5⟩
  simp only at hz hn
  rw [hz, hn]

end Infretis.Geom
