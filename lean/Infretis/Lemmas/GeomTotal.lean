import Infretis.Lemmas.GeomMin
/-! Helper lemmas for C20 (extension pass), part 5: when `calculate` raises, when it returns NaN, and
    how many numbers it returns. -/
namespace Infretis.Geom

/-- `i` is a legal Python index on an axis of size `n` -/
def inRange (n : Nat) (i : Int) : Bool := (pyIdx n i).isSome

theorem pyIdx_lt (n : Nat) (i : Int) (j : Nat) (h : pyIdx n i = some j) : j < n := by
  unfold pyIdx at h
  split at h
  · rename_i h1; simp only [Option.some.injEq] at h; omega
  · split at h
    · rename_i h1 h2; simp only [Option.some.injEq] at h; omega
    · cases h

/-- `arr[i]` either succeeds (legal index) or raises IndexError -/
theorem getAtom_cases (l : List V3) (i : Int) :
    (inRange l.length i = true ∧ ∃ v, getAtom l i = .ok v) ∨
    (inRange l.length i = false ∧ getAtom l i = .error .index) := by
  unfold inRange getAtom
  cases h : pyIdx l.length i with
  | none => right; simp
  | some j =>
    left
    have hj := pyIdx_lt _ _ _ h
    refine ⟨by simp, l[j], ?_⟩
    simp [List.getElem?_eq_getElem hj]

theorem getComp_cases (v : V3) (k : Int) :
    (inRange 3 k = true ∧ ∃ x, getComp v k = .ok x) ∨ (inRange 3 k = false ∧ getComp v k = .error .index) := by
  unfold inRange getComp
  cases h : pyIdx 3 k with
  | none => right; simp
  | some j =>
    left
    have hj := pyIdx_lt _ _ _ h
    refine ⟨by simp, ?_⟩
    match j, hj with
    | 0, _ => exact ⟨_, rfl⟩
    | 1, _ => exact ⟨_, rfl⟩
    | 2, _ => exact ⟨_, rfl⟩

theorem inRange_natCast (n d : Nat) : inRange n (d : Int) = decide (d < n) := by
  unfold inRange pyIdx
  by_cases h : d < n
  · have : (0 : Int) ≤ (d : Int) ∧ (d : Int) < (n : Int) := by omega
    simp [this, h]
  · have h1 : ¬ ((0 : Int) ≤ (d : Int) ∧ (d : Int) < (n : Int)) := by omega
    have h2 : ¬ (-(n : Int) ≤ (d : Int) ∧ (d : Int) < 0) := by omega
    simp [h1, h2, h]

/-- with the sliced box (`box[:3]`) `pbc_dist_coordinate` cannot raise -/
theorem pbcDist_take3_ok (d : V3) (b : List ℚ) : ∃ w, pbcDist d (b.take 3) = .ok w := by
  match b with
  | [] => exact ⟨_, rfl⟩
  | [_] => exact ⟨_, rfl⟩
  | [_, _] => exact ⟨_, rfl⟩
  | _ :: _ :: _ :: _ => exact ⟨_, rfl⟩

theorem applyBox_slice_ok (p : Bool) (b : Option (List ℚ)) (d : V3) : ∃ w, applyBox p b true d = .ok w := by
  unfold applyBox
  cases p with
  | false => exact ⟨_, rfl⟩
  | true =>
    cases b with
    | none => exact ⟨_, rfl⟩
    | some l => simpa using pbcDist_take3_ok d l

/-- no box, or none of the (at most three) box lengths the classes use is zero -/
def BoxNonzero (b : Option (List ℚ)) : Prop := ∀ l, b = some l → ∀ x ∈ l.take 3, x ≠ 0

theorem compNan_false (d L : ℚ) (h : L ≠ 0) : compNan d L = false := by simp [compNan, h]

theorem pbcDist_take3_nonan (d : V3) (b : List ℚ) (h : ∀ x ∈ b.take 3, x ≠ 0) :
    ∃ w, pbcDist d (b.take 3) = .ok w ∧ w.nan = false := by
  match b, h with
  | [], _ => exact ⟨_, rfl, rfl⟩
  | [a], h => exact ⟨_, rfl, by simp [compNan_false _ _ (h a (by simp))]⟩
  | [a, b], h =>
    exact ⟨_, rfl, by simp [compNan_false _ _ (h a (by simp)), compNan_false _ _ (h b (by simp))]⟩
  | a :: b :: c :: _, h =>
    exact ⟨_, rfl, by simp [compNan_false _ _ (h a (by simp)), compNan_false _ _ (h b (by simp)),
      compNan_false _ _ (h c (by simp))]⟩

theorem applyBox_slice_nonan (p : Bool) (b : Option (List ℚ)) (hb : p = true → BoxNonzero b) (d : V3) :
    ∃ w, applyBox p b true d = .ok w ∧ w.nan = false := by
  unfold applyBox
  cases p with
  | false => exact ⟨_, rfl, rfl⟩
  | true =>
    cases b with
    | none => exact ⟨_, rfl, rfl⟩
    | some l => simpa using pbcDist_take3_nonan d l (hb rfl l rfl)

/-- every array access the order parameter makes is legal on this system
    (listed in the order in which `calculate` makes them) -/
def OP.indicesValid (op : OP) (s : Sys) : Bool :=
  match op with
  | .distance i0 i1 _ => inRange s.pos.length i1 && inRange s.pos.length i0
  | .distancevel i0 i1 _ =>
    inRange s.pos.length i1 && inRange s.pos.length i0 && inRange s.vel.length i1 && inRange s.vel.length i0
  | .position i d => inRange s.pos.length i && inRange 3 d
  | .velocity i d => inRange s.vel.length i && decide (d < 3)
  | .dihedral i0 i1 i2 i3 _ =>
    inRange s.pos.length i0 && inRange s.pos.length i1 && inRange s.pos.length i2 && inRange s.pos.length i3
  | .puckering i0 i1 i2 i3 i4 i5 _ =>
    inRange s.pos.length i0 && inRange s.pos.length i1 && inRange s.pos.length i2 && inRange s.pos.length i3 &&
      inRange s.pos.length i4 && inRange s.pos.length i5

theorem getAtom_ok_of_inRange (l : List V3) (i : Int) (h : inRange l.length i = true) :
    ∃ v, getAtom l i = .ok v := by
  rcases getAtom_cases l i with ⟨_, hv⟩ | ⟨r, _⟩
  · exact hv
  · rw [h] at r; cases r

theorem getComp_ok_of_inRange (v : V3) (k : Int) (h : inRange 3 k = true) : ∃ x, getComp v k = .ok x := by
  rcases getComp_cases v k with ⟨_, hv⟩ | ⟨r, _⟩
  · exact hv
  · rw [h] at r; cases r

/-! ### outcome of each class: legal indices ⇒ `ok` or NaN, illegal ⇒ IndexError -/

theorem distanceSq_valid (s : Sys) (i0 i1 : Int) (p : Bool)
    (hv : (inRange s.pos.length i1 && inRange s.pos.length i0) = true) :
    distanceSq s i0 i1 p ≠ .error .index ∧ ((p = true → BoxNonzero s.box) → ∃ d, distanceSq s i0 i1 p = .ok d) := by
  simp only [Bool.and_eq_true] at hv
  obtain ⟨v1, h1⟩ := getAtom_ok_of_inRange _ _ hv.1
  obtain ⟨v0, h0⟩ := getAtom_ok_of_inRange _ _ hv.2
  constructor
  · obtain ⟨w, hw⟩ := applyBox_slice_ok p s.box (V3.sub v1 v0)
    unfold distanceSq
    simp only [h1, h0, hw, bind, Except.bind, pure, Except.pure]
    split <;> simp [throw, throwThe, MonadExceptOf.throw]
  · intro hb
    obtain ⟨w, hw, hn⟩ := applyBox_slice_nonan p s.box hb (V3.sub v1 v0)
    unfold distanceSq
    simp [h1, h0, hw, hn, bind, Except.bind, pure, Except.pure]

theorem distanceSq_invalid (s : Sys) (i0 i1 : Int) (p : Bool)
    (hv : (inRange s.pos.length i1 && inRange s.pos.length i0) = false) :
    distanceSq s i0 i1 p = .error .index := by
  rcases getAtom_cases s.pos i1 with ⟨r1, v1, h1⟩ | ⟨_, h1⟩
  swap
  · unfold distanceSq; simp [h1, bind, Except.bind]
  rcases getAtom_cases s.pos i0 with ⟨r0, v0, h0⟩ | ⟨_, h0⟩
  swap
  · unfold distanceSq; simp [h1, h0, bind, Except.bind]
  simp [r1, r0] at hv

theorem distancevelNum_valid (s : Sys) (i0 i1 : Int) (p : Bool)
    (hv : (inRange s.pos.length i1 && inRange s.pos.length i0 && inRange s.vel.length i1 &&
      inRange s.vel.length i0) = true) :
    distancevelNum .repaired s i0 i1 p ≠ .error .index ∧
      ((p = true → BoxNonzero s.box) → ∃ d, distancevelNum .repaired s i0 i1 p = .ok d) := by
  simp only [Bool.and_eq_true] at hv
  obtain ⟨p1, h1⟩ := getAtom_ok_of_inRange _ _ hv.1.1.1
  obtain ⟨p0, h0⟩ := getAtom_ok_of_inRange _ _ hv.1.1.2
  obtain ⟨v1, g1⟩ := getAtom_ok_of_inRange _ _ hv.1.2
  obtain ⟨v0, g0⟩ := getAtom_ok_of_inRange _ _ hv.2
  constructor
  · obtain ⟨w, hw⟩ := applyBox_slice_ok p s.box (V3.sub p1 p0)
    unfold distancevelNum
    simp only [h1, h0, g1, g0, hw, distancevelSlices, bind, Except.bind, pure, Except.pure]
    split <;> simp [throw, throwThe, MonadExceptOf.throw]
  · intro hb
    obtain ⟨w, hw, hn⟩ := applyBox_slice_nonan p s.box hb (V3.sub p1 p0)
    unfold distancevelNum
    simp [h1, h0, g1, g0, hw, hn, distancevelSlices, bind, Except.bind, pure, Except.pure]

theorem applyBox_error (p : Bool) (b : Option (List ℚ)) (sl : Bool) (d : V3) (e : Err)
    (h : applyBox p b sl d = .error e) : e = .index := by
  unfold applyBox at h
  cases p with
  | false => simp at h
  | true =>
    cases b with
    | none => simp at h
    | some l =>
      simp only [if_true] at h
      generalize (if sl = true then List.take 3 l else l) = bb at h
      match bb, h with
      | [], h => cases h
      | [_], h => cases h
      | [_, _], h => cases h
      | [_, _, _], h => cases h
      | _ :: _ :: _ :: _ :: _, h => simp only [pbcDist, Except.error.injEq] at h; exact h.symm

theorem distancevelNum_invalid (var : Variant) (s : Sys) (i0 i1 : Int) (p : Bool)
    (hv : (inRange s.pos.length i1 && inRange s.pos.length i0 && inRange s.vel.length i1 &&
      inRange s.vel.length i0) = false) :
    distancevelNum var s i0 i1 p = .error .index := by
  rcases getAtom_cases s.pos i1 with ⟨r1, p1, h1⟩ | ⟨_, h1⟩
  swap
  · unfold distancevelNum; simp [h1, bind, Except.bind]
  rcases getAtom_cases s.pos i0 with ⟨r0, p0, h0⟩ | ⟨_, h0⟩
  swap
  · unfold distancevelNum; simp [h1, h0, bind, Except.bind]
  cases hw : applyBox p s.box (distancevelSlices var) (V3.sub p1 p0) with
  | error e =>
    have := applyBox_error _ _ _ _ _ hw
    subst this
    unfold distancevelNum; simp [h1, h0, hw, bind, Except.bind]
  | ok w =>
    rcases getAtom_cases s.vel i1 with ⟨q1, v1, g1⟩ | ⟨_, g1⟩
    swap
    · unfold distancevelNum; simp [h1, h0, hw, g1, bind, Except.bind]
    rcases getAtom_cases s.vel i0 with ⟨q0, v0, g0⟩ | ⟨_, g0⟩
    swap
    · unfold distancevelNum; simp [h1, h0, hw, g1, g0, bind, Except.bind]
    simp [r1, r0, q1, q0] at hv

theorem position_valid (s : Sys) (i d : Int) (hv : (inRange s.pos.length i && inRange 3 d) = true) :
    ∃ x, position s i d = .ok x := by
  simp only [Bool.and_eq_true] at hv
  obtain ⟨v, h⟩ := getAtom_ok_of_inRange _ _ hv.1
  obtain ⟨x, hx⟩ := getComp_ok_of_inRange v d hv.2
  exact ⟨x, by unfold position; simp [h, hx, bind, Except.bind]⟩

theorem position_invalid (s : Sys) (i d : Int) (hv : (inRange s.pos.length i && inRange 3 d) = false) :
    position s i d = .error .index := by
  rcases getAtom_cases s.pos i with ⟨r1, v, h1⟩ | ⟨_, h1⟩
  swap
  · unfold position; simp [h1, bind, Except.bind]
  rcases getComp_cases v d with ⟨r0, x, h0⟩ | ⟨_, h0⟩
  swap
  · unfold position; simp [h1, h0, bind, Except.bind]
  simp [r1, r0] at hv

theorem velocity_valid (s : Sys) (i : Int) (d : Nat) (hv : (inRange s.vel.length i && decide (d < 3)) = true) :
    ∃ x, velocity s i d = .ok x := by
  simp only [Bool.and_eq_true] at hv
  obtain ⟨v, h⟩ := getAtom_ok_of_inRange _ _ hv.1
  obtain ⟨x, hx⟩ := getComp_ok_of_inRange v (d : Int) (by rw [inRange_natCast]; exact hv.2)
  exact ⟨x, by unfold velocity; simp [h, hx, bind, Except.bind]⟩

theorem velocity_invalid (s : Sys) (i : Int) (d : Nat) (hv : (inRange s.vel.length i && decide (d < 3)) = false) :
    velocity s i d = .error .index := by
  rcases getAtom_cases s.vel i with ⟨r1, v, h1⟩ | ⟨_, h1⟩
  swap
  · unfold velocity; simp [h1, bind, Except.bind]
  rcases getComp_cases v (d : Int) with ⟨r0, x, h0⟩ | ⟨_, h0⟩
  swap
  · unfold velocity; simp [h1, h0, bind, Except.bind]
  rw [inRange_natCast] at r0
  simp [r1, r0] at hv

theorem dihedral_valid (s : Sys) (i0 i1 i2 i3 : Int) (p : Bool)
    (hv : (inRange s.pos.length i0 && inRange s.pos.length i1 && inRange s.pos.length i2 &&
      inRange s.pos.length i3) = true) :
    dihedral s i0 i1 i2 i3 p ≠ .error .index ∧ ((p = true → BoxNonzero s.box) → ∃ d, dihedral s i0 i1 i2 i3 p = .ok d) := by
  simp only [Bool.and_eq_true] at hv
  obtain ⟨p0, h0⟩ := getAtom_ok_of_inRange _ _ hv.1.1.1
  obtain ⟨p1, h1⟩ := getAtom_ok_of_inRange _ _ hv.1.1.2
  obtain ⟨p2, h2⟩ := getAtom_ok_of_inRange _ _ hv.1.2
  obtain ⟨p3, h3⟩ := getAtom_ok_of_inRange _ _ hv.2
  constructor
  · obtain ⟨w1, hw1⟩ := applyBox_slice_ok p s.box (V3.sub p0 p1)
    obtain ⟨w2, hw2⟩ := applyBox_slice_ok p s.box (V3.sub p1 p2)
    obtain ⟨w3, hw3⟩ := applyBox_slice_ok p s.box (V3.sub p3 p2)
    unfold dihedral
    simp only [h0, h1, h2, h3, hw1, hw2, hw3, bind, Except.bind, pure, Except.pure]
    split <;> simp [throw, throwThe, MonadExceptOf.throw]
  · intro hb
    obtain ⟨w1, hw1, hn1⟩ := applyBox_slice_nonan p s.box hb (V3.sub p0 p1)
    obtain ⟨w2, hw2, hn2⟩ := applyBox_slice_nonan p s.box hb (V3.sub p1 p2)
    obtain ⟨w3, hw3, hn3⟩ := applyBox_slice_nonan p s.box hb (V3.sub p3 p2)
    unfold dihedral
    simp [h0, h1, h2, h3, hw1, hw2, hw3, hn1, hn2, hn3, bind, Except.bind, pure, Except.pure]

theorem dihedral_invalid (s : Sys) (i0 i1 i2 i3 : Int) (p : Bool)
    (hv : (inRange s.pos.length i0 && inRange s.pos.length i1 && inRange s.pos.length i2 &&
      inRange s.pos.length i3) = false) :
    dihedral s i0 i1 i2 i3 p = .error .index := by
  rcases getAtom_cases s.pos i0 with ⟨r0, p0, h0⟩ | ⟨_, h0⟩
  swap
  · unfold dihedral; simp [h0, bind, Except.bind]
  rcases getAtom_cases s.pos i1 with ⟨r1, p1, h1⟩ | ⟨_, h1⟩
  swap
  · unfold dihedral; simp [h0, h1, bind, Except.bind]
  rcases getAtom_cases s.pos i2 with ⟨r2, p2, h2⟩ | ⟨_, h2⟩
  swap
  · unfold dihedral; simp [h0, h1, h2, bind, Except.bind]
  rcases getAtom_cases s.pos i3 with ⟨r3, p3, h3⟩ | ⟨_, h3⟩
  swap
  · unfold dihedral; simp [h0, h1, h2, h3, bind, Except.bind]
  simp [r0, r1, r2, r3] at hv

theorem puckering_valid (s : Sys) (i0 i1 i2 i3 i4 i5 : Int) (p : Bool)
    (hv : (inRange s.pos.length i0 && inRange s.pos.length i1 && inRange s.pos.length i2 &&
      inRange s.pos.length i3 && inRange s.pos.length i4 && inRange s.pos.length i5) = true) :
    puckering s i0 i1 i2 i3 i4 i5 p ≠ .error .index ∧
      ((p = true → BoxNonzero s.box) → ∃ d, puckering s i0 i1 i2 i3 i4 i5 p = .ok d) := by
  simp only [Bool.and_eq_true] at hv
  obtain ⟨p0, h0⟩ := getAtom_ok_of_inRange _ _ hv.1.1.1.1.1
  obtain ⟨p1, h1⟩ := getAtom_ok_of_inRange _ _ hv.1.1.1.1.2
  obtain ⟨p2, h2⟩ := getAtom_ok_of_inRange _ _ hv.1.1.1.2
  obtain ⟨p3, h3⟩ := getAtom_ok_of_inRange _ _ hv.1.1.2
  obtain ⟨p4, h4⟩ := getAtom_ok_of_inRange _ _ hv.1.2
  obtain ⟨p5, h5⟩ := getAtom_ok_of_inRange _ _ hv.2
  by_cases hc : (p && s.box.isSome) = true
  · constructor
    · obtain ⟨w1, hw1⟩ := applyBox_slice_ok p s.box (V3.sub p1 p0)
      obtain ⟨w2, hw2⟩ := applyBox_slice_ok p s.box (V3.sub p2 p0)
      obtain ⟨w3, hw3⟩ := applyBox_slice_ok p s.box (V3.sub p3 p0)
      obtain ⟨w4, hw4⟩ := applyBox_slice_ok p s.box (V3.sub p4 p0)
      obtain ⟨w5, hw5⟩ := applyBox_slice_ok p s.box (V3.sub p5 p0)
      unfold puckering
      simp only [h0, h1, h2, h3, h4, h5, hc, hw1, hw2, hw3, hw4, hw5, if_true, bind, Except.bind, pure, Except.pure]
      split <;> simp [throw, throwThe, MonadExceptOf.throw]
    · intro hb
      obtain ⟨w1, hw1, hn1⟩ := applyBox_slice_nonan p s.box hb (V3.sub p1 p0)
      obtain ⟨w2, hw2, hn2⟩ := applyBox_slice_nonan p s.box hb (V3.sub p2 p0)
      obtain ⟨w3, hw3, hn3⟩ := applyBox_slice_nonan p s.box hb (V3.sub p3 p0)
      obtain ⟨w4, hw4, hn4⟩ := applyBox_slice_nonan p s.box hb (V3.sub p4 p0)
      obtain ⟨w5, hw5, hn5⟩ := applyBox_slice_nonan p s.box hb (V3.sub p5 p0)
      unfold puckering
      simp [h0, h1, h2, h3, h4, h5, hc, hw1, hw2, hw3, hw4, hw5, hn1, hn2, hn3, hn4, hn5, bind, Except.bind,
        pure, Except.pure]
  · have hc' : (p && s.box.isSome) = false := by simpa using hc
    constructor
    · unfold puckering
      simp [h0, h1, h2, h3, h4, h5, hc', bind, Except.bind, pure, Except.pure]
    · intro _
      unfold puckering
      simp [h0, h1, h2, h3, h4, h5, hc', bind, Except.bind, pure, Except.pure]

theorem puckering_invalid (s : Sys) (i0 i1 i2 i3 i4 i5 : Int) (p : Bool)
    (hv : (inRange s.pos.length i0 && inRange s.pos.length i1 && inRange s.pos.length i2 &&
      inRange s.pos.length i3 && inRange s.pos.length i4 && inRange s.pos.length i5) = false) :
    puckering s i0 i1 i2 i3 i4 i5 p = .error .index := by
  rcases getAtom_cases s.pos i0 with ⟨r0, p0, h0⟩ | ⟨_, h0⟩
  swap
  · unfold puckering; simp [h0, bind, Except.bind]
  rcases getAtom_cases s.pos i1 with ⟨r1, p1, h1⟩ | ⟨_, h1⟩
  swap
  · unfold puckering; simp [h0, h1, bind, Except.bind]
  rcases getAtom_cases s.pos i2 with ⟨r2, p2, h2⟩ | ⟨_, h2⟩
  swap
  · unfold puckering; simp [h0, h1, h2, bind, Except.bind]
  rcases getAtom_cases s.pos i3 with ⟨r3, p3, h3⟩ | ⟨_, h3⟩
  swap
  · unfold puckering; simp [h0, h1, h2, h3, bind, Except.bind]
  rcases getAtom_cases s.pos i4 with ⟨r4, p4, h4⟩ | ⟨_, h4⟩
  swap
  · unfold puckering; simp [h0, h1, h2, h3, h4, bind, Except.bind]
  rcases getAtom_cases s.pos i5 with ⟨r5, p5, h5⟩ | ⟨_, h5⟩
  swap
  · unfold puckering; simp [h0, h1, h2, h3, h4, h5, bind, Except.bind]
  simp [r0, r1, r2, r3, r4, r5] at hv

/-! ### the three statements about `value` -/

theorem map_ne_error {α β : Type} (x : Except Err α) (f : α → β) (e : Err) (h : x ≠ .error e) :
    x.map f ≠ .error e := by
  cases x with
  | ok a => simp [Except.map]
  | error e' => simpa [Except.map] using h

theorem map_ok_of_ok {α β : Type} (x : Except Err α) (f : α → β) (h : ∃ a, x = .ok a) : ∃ l, x.map f = .ok l := by
  obtain ⟨a, rfl⟩ := h
  exact ⟨f a, rfl⟩

/-- illegal index ⇒ IndexError (both variants) -/
theorem value_invalid (var : Variant) (op : OP) (s : Sys) (hv : op.indicesValid s = false) :
    value var op s = .error .index := by
  cases op with
  | distance i0 i1 p => simp only [value, distanceSq_invalid s i0 i1 p hv]; rfl
  | distancevel i0 i1 p => simp only [value, distancevelNum_invalid var s i0 i1 p hv]; rfl
  | position i d => simp only [value, position_invalid s i d hv]; rfl
  | velocity i d => simp only [value, velocity_invalid s i d hv]; rfl
  | dihedral i0 i1 i2 i3 p => simp only [value, dihedral_invalid s i0 i1 i2 i3 p hv]; rfl
  | puckering i0 i1 i2 i3 i4 i5 p => simp only [value, puckering_invalid s i0 i1 i2 i3 i4 i5 p hv]; rfl

/-- legal indices ⇒ never IndexError (code of today: every class slices the box) -/
theorem value_valid_ne_index (op : OP) (s : Sys) (hv : op.indicesValid s = true) :
    value .repaired op s ≠ .error .index := by
  cases op with
  | distance i0 i1 p => exact map_ne_error _ _ _ (distanceSq_valid s i0 i1 p hv).1
  | distancevel i0 i1 p => exact map_ne_error _ _ _ (distancevelNum_valid s i0 i1 p hv).1
  | position i d =>
    obtain ⟨x, hx⟩ := position_valid s i d hv
    simp [value, hx, Except.map]
  | velocity i d =>
    obtain ⟨x, hx⟩ := velocity_valid s i d hv
    simp [value, hx, Except.map]
  | dihedral i0 i1 i2 i3 p => exact map_ne_error _ _ _ (dihedral_valid s i0 i1 i2 i3 p hv).1
  | puckering i0 i1 i2 i3 i4 i5 p => exact map_ne_error _ _ _ (puckering_valid s i0 i1 i2 i3 i4 i5 p hv).1

/-- legal indices and no zero box length ⇒ a value -/
theorem value_valid_ok (op : OP) (s : Sys) (hv : op.indicesValid s = true)
    (hb : op.periodic = true → BoxNonzero s.box) :
    ∃ l, value .repaired op s = .ok l := by
  cases op with
  | distance i0 i1 p => exact map_ok_of_ok _ _ ((distanceSq_valid s i0 i1 p hv).2 hb)
  | distancevel i0 i1 p => exact map_ok_of_ok _ _ ((distancevelNum_valid s i0 i1 p hv).2 hb)
  | position i d => exact map_ok_of_ok _ _ (position_valid s i d hv)
  | velocity i d => exact map_ok_of_ok _ _ (velocity_valid s i d hv)
  | dihedral i0 i1 i2 i3 p => exact map_ok_of_ok _ _ ((dihedral_valid s i0 i1 i2 i3 p hv).2 hb)
  | puckering i0 i1 i2 i3 i4 i5 p => exact map_ok_of_ok _ _ ((puckering_valid s i0 i1 i2 i3 i4 i5 p hv).2 hb)

theorem map_eq_ok {α β : Type} (x : Except Err α) (f : α → β) (l : β) (h : x.map f = .ok l) :
    ∃ a, x = .ok a ∧ l = f a := by
  cases x with
  | ok a => exact ⟨a, rfl, by simpa [Except.map] using h.symm⟩
  | error e => simp [Except.map] at h

/-- whatever `Puckering.calculate` returns is `puckerOf` of SOME six points (the ring atoms, or their
    minimum-image copies around atom 0) -/
theorem puckering_ok_form (s : Sys) (i0 i1 i2 i3 i4 i5 : Int) (p : Bool) (r : PuckerPre)
    (h : puckering s i0 i1 i2 i3 i4 i5 p = .ok r) : ∃ ring, r = puckerOf ring := by
    unfold puckering at h
    cases h0 : getAtom s.pos i0 with
    | error e => simp [h0, bind, Except.bind] at h
    | ok p0 =>
    cases h1 : getAtom s.pos i1 with
    | error e => simp [h0, h1, bind, Except.bind] at h
    | ok p1 =>
    cases h2 : getAtom s.pos i2 with
    | error e => simp [h0, h1, h2, bind, Except.bind] at h
    | ok p2 =>
    cases h3 : getAtom s.pos i3 with
    | error e => simp [h0, h1, h2, h3, bind, Except.bind] at h
    | ok p3 =>
    cases h4 : getAtom s.pos i4 with
    | error e => simp [h0, h1, h2, h3, h4, bind, Except.bind] at h
    | ok p4 =>
    cases h5 : getAtom s.pos i5 with
    | error e => simp [h0, h1, h2, h3, h4, h5, bind, Except.bind] at h
    | ok p5 =>
    simp only [h0, h1, h2, h3, h4, h5, bind, Except.bind] at h
    split at h
    · cases hw1 : applyBox p s.box true (V3.sub p1 p0) with
      | error e => simp [hw1] at h
      | ok w1 =>
      cases hw2 : applyBox p s.box true (V3.sub p2 p0) with
      | error e => simp [hw1, hw2] at h
      | ok w2 =>
      cases hw3 : applyBox p s.box true (V3.sub p3 p0) with
      | error e => simp [hw1, hw2, hw3] at h
      | ok w3 =>
      cases hw4 : applyBox p s.box true (V3.sub p4 p0) with
      | error e => simp [hw1, hw2, hw3, hw4] at h
      | ok w4 =>
      cases hw5 : applyBox p s.box true (V3.sub p5 p0) with
      | error e => simp [hw1, hw2, hw3, hw4, hw5] at h
      | ok w5 =>
      simp only [hw1, hw2, hw3, hw4, hw5] at h
      split at h
      · simp [throw, throwThe, MonadExceptOf.throw] at h
      · simp only [pure, Except.pure, Except.ok.injEq] at h
        exact ⟨_, h.symm⟩
    · simp only [pure, Except.pure, Except.ok.injEq] at h
      exact ⟨_, h.symm⟩

/-- the puckering pre-image always has six plane distances -/
theorem puckering_zs_length (s : Sys) (i0 i1 i2 i3 i4 i5 : Int) (p : Bool) (r : PuckerPre)
    (h : puckering s i0 i1 i2 i3 i4 i5 p = .ok r) : r.zs.length = 6 := by
  obtain ⟨ring, rfl⟩ := puckering_ok_form s i0 i1 i2 i3 i4 i5 p r h
  rfl

/-- **length stability**: whenever `calculate` returns, the pre-image has the fixed length of its class -/
theorem value_length (var : Variant) (op : OP) (s : Sys) (l : List ℚ) (h : value var op s = .ok l) :
    l.length = op.preLen := by
  cases op with
  | distance i0 i1 p => obtain ⟨a, _, rfl⟩ := map_eq_ok _ _ _ h; rfl
  | distancevel i0 i1 p => obtain ⟨a, _, rfl⟩ := map_eq_ok _ _ _ h; rfl
  | position i d => obtain ⟨a, _, rfl⟩ := map_eq_ok _ _ _ h; rfl
  | velocity i d => obtain ⟨a, _, rfl⟩ := map_eq_ok _ _ _ h; rfl
  | dihedral i0 i1 i2 i3 p => obtain ⟨a, _, rfl⟩ := map_eq_ok _ _ _ h; rfl
  | puckering i0 i1 i2 i3 i4 i5 p =>
    obtain ⟨a, ha, rfl⟩ := map_eq_ok _ _ _ h
    simp [OP.preLen, puckering_zs_length s i0 i1 i2 i3 i4 i5 p a ha]

end Infretis.Geom
