import Infretis.Lemmas.Geom
import Mathlib.Tactic.LinearCombination
/-! Helper lemmas for C20, part 2: vector algebra, Python indexing under `map`/`mapIdx`,
    the wrapped difference vector under image shifts, rotations. -/
namespace Infretis.Geom

@[ext] theorem V3.ext' {a b : V3} (hx : a.x = b.x) (hy : a.y = b.y) (hz : a.z = b.z) : a = b := by
  cases a; cases b; simp_all

/-! ### indexing -/

theorem getAtom_map (f : V3 → V3) (l : List V3) (i : Int) :
    getAtom (l.map f) i = (getAtom l i).map f := by
  unfold getAtom
  rw [List.length_map]
  cases pyIdx l.length i with
  | none => rfl
  | some j =>
    simp only [List.getElem?_map]
    cases l[j]? <;> rfl

/-- the atom number a Python index refers to (0 when the index is out of range; only used
    where the lookup succeeded) -/
def atomNo (n : Nat) (i : Int) : Nat := (pyIdx n i).getD 0

theorem getAtom_mapIdx (f : Nat → V3 → V3) (l : List V3) (i : Int) :
    getAtom (l.mapIdx f) i = (getAtom l i).map (f (atomNo l.length i)) := by
  unfold getAtom atomNo
  rw [List.length_mapIdx]
  cases pyIdx l.length i with
  | none => rfl
  | some j =>
    simp only [List.getElem?_mapIdx, Option.getD_some]
    cases l[j]? <;> rfl

/-! ### translation -/

theorem sub_add_add (a b t : V3) : V3.sub (V3.add a t) (V3.add b t) = V3.sub a b := by
  ext <;> simp [V3.sub, V3.add]

theorem smul_zero_eq (a b : V3) : V3.smul 0 a = V3.smul 0 b := by
  ext <;> simp [V3.smul]

theorem centre_translate (p0 p1 p2 p3 p4 p5 t : V3) :
    centre ⟨V3.add p0 t, V3.add p1 t, V3.add p2 t, V3.add p3 t, V3.add p4 t, V3.add p5 t⟩
      = centre ⟨p0, p1, p2, p3, p4, p5⟩ := by
  simp only [centre, V3.add, V3.sub, V3.smul, Ring6.mk.injEq, V3.mk.injEq]
  refine ⟨⟨?_, ?_, ?_⟩, ⟨?_, ?_, ?_⟩, ⟨?_, ?_, ?_⟩, ⟨?_, ?_, ?_⟩, ⟨?_, ?_, ?_⟩, ⟨?_, ?_, ?_⟩⟩ <;> ring

theorem puckerOf_translate (p0 p1 p2 p3 p4 p5 t : V3) :
    puckerOf ⟨V3.add p0 t, V3.add p1 t, V3.add p2 t, V3.add p3 t, V3.add p4 t, V3.add p5 t⟩
      = puckerOf ⟨p0, p1, p2, p3, p4, p5⟩ := by
  unfold puckerOf; rw [centre_translate]

/-! ### image shifts -/

/-- component-wise difference of two image multipliers -/
def ksub (a b : Int × Int × Int) : Int × Int × Int := (a.1 - b.1, a.2.1 - b.2.1, a.2.2 - b.2.2)

theorem sub_add_image (p1 p0 L : V3) (k1 k0 : Int × Int × Int) :
    V3.sub (V3.add p1 (imageVec L k1)) (V3.add p0 (imageVec L k0))
      = V3.add (V3.sub p1 p0) (imageVec L (ksub k1 k0)) := by
  ext <;> simp [V3.sub, V3.add, imageVec, ksub] <;> ring

/-- no component of `d` sits at a half-box tie (axes of length 0 are never wrapped) -/
def TieFree (d L : V3) : Prop :=
  (L.x ≠ 0 → ¬ WrapTie d.x L.x) ∧ (L.y ≠ 0 → ¬ WrapTie d.y L.y) ∧ (L.z ≠ 0 → ¬ WrapTie d.z L.z)

theorem pbcWrap_shift_tf (d L : ℚ) (k : ℤ) (h : L ≠ 0 → ¬ WrapTie d L) :
    pbcWrap (d + (k : ℚ) * L) L = pbcWrap d L := by
  by_cases hL : L = 0
  · subst hL; simp
  · exact pbcWrap_shift_of_not_tie d L k hL (h hL)

theorem pbcWrap_shift_sq' (d L : ℚ) (k : ℤ) :
    pbcWrap (d + (k : ℚ) * L) L * pbcWrap (d + (k : ℚ) * L) L = pbcWrap d L * pbcWrap d L := by
  by_cases hL : L = 0
  · subst hL; simp
  · exact pbcWrap_shift_sq d L k hL

theorem pbcDist3_shift_tf (d L : V3) (k : Int × Int × Int) (h : TieFree d L) :
    pbcDist (V3.add d (imageVec L k)) [L.x, L.y, L.z] = pbcDist d [L.x, L.y, L.z] := by
  obtain ⟨hx, hy, hz⟩ := h
  simp only [pbcDist, V3.add, imageVec, compNan_shift, pbcWrap_shift_tf _ _ _ hx,
    pbcWrap_shift_tf _ _ _ hy, pbcWrap_shift_tf _ _ _ hz]

/-- the box the periodic classes see -/
theorem take3 (a b c : ℚ) (rest : List ℚ) : (a :: b :: c :: rest).take 3 = [a, b, c] := by
  simp

theorem applyBox_shift_tf (d L : V3) (rest : List ℚ) (k : Int × Int × Int) (sl : Bool)
    (h : TieFree d L) :
    applyBox true (some (L.x :: L.y :: L.z :: rest)) sl (V3.add d (imageVec L k))
      = applyBox true (some (L.x :: L.y :: L.z :: rest)) sl d := by
  unfold applyBox
  cases sl with
  | true => simp only [if_true, take3]; exact pbcDist3_shift_tf d L k h
  | false =>
    cases rest with
    | nil => simpa using pbcDist3_shift_tf d L k h
    | cons r rs => simp [pbcDist]

/-- the wrapped vector for a box with (at least) three entries, as the slicing classes see it -/
def wrap3 (d L : V3) : Wrapped :=
  ⟨⟨pbcWrap d.x L.x, pbcWrap d.y L.y, pbcWrap d.z L.z⟩,
   compNan d.x L.x || compNan d.y L.y || compNan d.z L.z⟩

theorem applyBox_slice (d L : V3) (rest : List ℚ) :
    applyBox true (some (L.x :: L.y :: L.z :: rest)) true d = .ok (wrap3 d L) := by
  simp only [applyBox, if_true, take3, pbcDist, wrap3]

/-- ties included: the NaN flag and the squared length of the wrapped vector are shift invariant -/
theorem wrap3_shift_sq (d L : V3) (k : Int × Int × Int) :
    (wrap3 (V3.add d (imageVec L k)) L).nan = (wrap3 d L).nan ∧
    V3.dot (wrap3 (V3.add d (imageVec L k)) L).v (wrap3 (V3.add d (imageVec L k)) L).v
      = V3.dot (wrap3 d L).v (wrap3 d L).v := by
  constructor
  · simp only [wrap3, V3.add, imageVec, compNan_shift]
  · simp only [wrap3, V3.dot, V3.add, imageVec]
    rw [pbcWrap_shift_sq' d.x L.x k.1, pbcWrap_shift_sq' d.y L.y k.2.1, pbcWrap_shift_sq' d.z L.z k.2.2]

/-! ### rotations -/

/-- `Rᵀ R = 1` (columns orthonormal) and `det R = 1` -/
structure IsRotation (R : Mat3) : Prop where
  c11 : V3.dot R.col1 R.col1 = 1
  c22 : V3.dot R.col2 R.col2 = 1
  c33 : V3.dot R.col3 R.col3 = 1
  c12 : V3.dot R.col1 R.col2 = 0
  c13 : V3.dot R.col1 R.col3 = 0
  c23 : V3.dot R.col2 R.col3 = 0
  det1 : R.det = 1

theorem dot_mulVec (R : Mat3) (h : IsRotation R) (v w : V3) :
    V3.dot (R.mulVec v) (R.mulVec w) = V3.dot v w := by
  obtain ⟨c11, c22, c33, c12, c13, c23, _⟩ := h
  simp only [V3.dot, Mat3.mulVec, Mat3.col1, Mat3.col2, Mat3.col3] at *
  linear_combination (v.x * w.x) * c11 + (v.y * w.y) * c22 + (v.z * w.z) * c33
    + (v.x * w.y + v.y * w.x) * c12 + (v.x * w.z + v.z * w.x) * c13 + (v.y * w.z + v.z * w.y) * c23

/-- the triple product is multiplied by the determinant -/
theorem triple_mulVec (R : Mat3) (a b c : V3) :
    V3.triple (R.mulVec a) (R.mulVec b) (R.mulVec c) = R.det * V3.triple a b c := by
  simp only [V3.triple, V3.dot, V3.cross, Mat3.mulVec, Mat3.det]
  ring

theorem mulVec_sub (R : Mat3) (a b : V3) : R.mulVec (V3.sub a b) = V3.sub (R.mulVec a) (R.mulVec b) := by
  ext <;> simp [Mat3.mulVec, V3.sub, V3.dot] <;> ring

theorem mulVec_add (R : Mat3) (a b : V3) : R.mulVec (V3.add a b) = V3.add (R.mulVec a) (R.mulVec b) := by
  ext <;> simp [Mat3.mulVec, V3.add, V3.dot] <;> ring

theorem mulVec_smul (R : Mat3) (c : ℚ) (a : V3) : R.mulVec (V3.smul c a) = V3.smul c (R.mulVec a) := by
  ext <;> simp [Mat3.mulVec, V3.smul, V3.dot] <;> ring

/-- Lagrange: `|a×b|² = |a|²|b|² − (a·b)²` -/
theorem cross_sq (a b : V3) :
    V3.dot (V3.cross a b) (V3.cross a b) = V3.dot a a * V3.dot b b - V3.dot a b * V3.dot a b := by
  simp only [V3.dot, V3.cross]; ring

theorem dihedralOf_rotate (R : Mat3) (h : IsRotation R) (v1 v2 v3 : V3) :
    dihedralOf (R.mulVec v1) (R.mulVec v2) (R.mulVec v3) = dihedralOf v1 v2 v3 := by
  unfold dihedralOf
  rw [triple_mulVec, h.det1, dot_mulVec R h, dot_mulVec R h, dot_mulVec R h, dot_mulVec R h]
  simp

theorem centre_rotate (R : Mat3) (r : Ring6) :
    centre ⟨R.mulVec r.p0, R.mulVec r.p1, R.mulVec r.p2, R.mulVec r.p3, R.mulVec r.p4, R.mulVec r.p5⟩
      = ⟨R.mulVec (centre r).p0, R.mulVec (centre r).p1, R.mulVec (centre r).p2,
         R.mulVec (centre r).p3, R.mulVec (centre r).p4, R.mulVec (centre r).p5⟩ := by
  simp only [centre, mulVec_sub, mulVec_smul, mulVec_add]

theorem ringA_rotate (R : Mat3) (q : Ring6) :
    ringA ⟨R.mulVec q.p0, R.mulVec q.p1, R.mulVec q.p2, R.mulVec q.p3, R.mulVec q.p4, R.mulVec q.p5⟩
      = R.mulVec (ringA q) := by
  simp only [ringA, mulVec_sub, mulVec_add]

theorem ringB_rotate (R : Mat3) (q : Ring6) :
    ringB ⟨R.mulVec q.p0, R.mulVec q.p1, R.mulVec q.p2, R.mulVec q.p3, R.mulVec q.p4, R.mulVec q.p5⟩
      = R.mulVec (ringB q) := by
  simp only [ringB, mulVec_sub, mulVec_add, mulVec_smul]

theorem dot_cross_rotate (R : Mat3) (h : IsRotation R) (p a b : V3) :
    V3.dot (R.mulVec p) (V3.cross (R.mulVec a) (R.mulVec b)) = V3.dot p (V3.cross a b) := by
  have := triple_mulVec R a b p
  rw [h.det1, one_mul] at this
  have comm : ∀ u w : V3, V3.dot u w = V3.dot w u := by
    intro u w; simp only [V3.dot]; ring
  rw [comm, comm p]
  exact this

/-- the observable part of the puckering pre-image (projections and `nn`) is rotation invariant -/
theorem puckerOf_rotate (R : Mat3) (h : IsRotation R) (r : Ring6) :
    (puckerOf ⟨R.mulVec r.p0, R.mulVec r.p1, R.mulVec r.p2, R.mulVec r.p3, R.mulVec r.p4, R.mulVec r.p5⟩).zs
        = (puckerOf r).zs ∧
    (puckerOf ⟨R.mulVec r.p0, R.mulVec r.p1, R.mulVec r.p2, R.mulVec r.p3, R.mulVec r.p4, R.mulVec r.p5⟩).nn
        = (puckerOf r).nn := by
  unfold puckerOf
  simp only [centre_rotate, ringA_rotate, ringB_rotate, dot_cross_rotate R h, cross_sq, dot_mulVec R h]
  exact ⟨trivial, trivial⟩

end Infretis.Geom
