import Infretis.Model.Lattice
import Mathlib.Algebra.Order.Field.Rat
import Mathlib.Tactic.Linarith
import Mathlib.Tactic.Ring
import Mathlib.Tactic.FieldSimp
import Mathlib.Tactic.Positivity
/-!
Helper lemmas for C01:
* the gambler's-ruin boundary-value problem on a segment of any length has exactly one
  solution, the linear one;
* sums of `term`s: non-negativity, monotonicity, scaling;
* the min-factor identity behind detailed balance of the shooting kernel.
-/
namespace Infretis.Lattice

/-! ### harmonic functions on a segment are linear -/

/-- a harmonic `u` grows by the same increment `u 1` at every site of the segment -/
theorem harmonic_linear_aux (N : Nat) (u : Nat → Rat) (h : Harmonic N u) :
    ∀ x, x + 1 ≤ N → u x = (x : Rat) * u 1 ∧ u (x + 1) = ((x : Rat) + 1) * u 1 := by
  obtain ⟨h0, _, hrec⟩ := h
  intro x
  induction x with
  | zero =>
    intro _
    constructor
    · simp [h0]
    · simp
  | succ x ih =>
    intro hx
    obtain ⟨ihx, ihx1⟩ := ih (by omega)
    have hr := hrec (x + 1) (by omega) (by omega)
    have e1 : x + 1 - 1 = x := by omega
    rw [e1] at hr
    constructor
    · rw [ihx1]; push_cast; ring
    · have : u (x + 1 + 1) = 2 * u (x + 1) - u x := by linarith
      rw [this, ihx1, ihx]; push_cast; ring

/-- **Uniqueness.** Every solution of the boundary-value recurrence on 0..N is x ↦ x/N. -/
theorem harmonic_unique (N : Nat) (hN : 0 < N) (u : Nat → Rat) (h : Harmonic N u) :
    ∀ x, x ≤ N → u x = (x : Rat) / (N : Rat) := by
  have aux := harmonic_linear_aux N u h
  have hN' : (N : Rat) ≠ 0 := by exact_mod_cast (Nat.pos_iff_ne_zero.mp hN)
  -- the increment is 1/N because u N = 1
  have hd : u 1 = 1 / (N : Rat) := by
    obtain ⟨m, rfl⟩ : ∃ m, N = m + 1 := ⟨N - 1, by omega⟩
    have := (aux m (le_refl _)).2
    rw [h.2.1] at this
    have hm : ((m : Rat) + 1) ≠ 0 := by positivity
    push_cast at hN' ⊢
    field_simp
    linarith
  intro x hx
  rcases Nat.eq_zero_or_pos x with rfl | hpos
  · simp [h.1]
  · obtain ⟨y, rfl⟩ : ∃ y, x = y + 1 := ⟨x - 1, by omega⟩
    rw [(aux y hx).2, hd]
    push_cast
    ring

/-- **Existence.** The linear function solves the boundary-value recurrence. -/
theorem ruin_harmonic (N : Nat) (hN : 0 < N) : Harmonic N (ruin N) := by
  have hN' : (N : Rat) ≠ 0 := by exact_mod_cast (Nat.pos_iff_ne_zero.mp hN)
  refine ⟨by simp [ruin], by simp [ruin, hN'], ?_⟩
  intro x hx _
  obtain ⟨y, rfl⟩ : ∃ y, x = y + 1 := ⟨x - 1, by omega⟩
  simp only [ruin, Nat.add_sub_cancel]
  push_cast
  field_simp
  ring

/-! ### the walk's own law stays below the closed form and is monotone in the horizon -/

theorem reachBy_succ (N t x : Nat) :
    reachBy N (t + 1) x =
      if x = 0 then 0 else if N ≤ x then 1 else (reachBy N t (x - 1) + reachBy N t (x + 1)) / 2 := by
  simp [reachBy]

theorem reachBy_zero (N t : Nat) (hN : 0 < N) : reachBy N t 0 = 0 := by
  cases t with
  | zero => simp [reachBy]; omega
  | succ t => simp [reachBy]

theorem reachBy_top (N t x : Nat) (hN : 0 < N) (hx : N ≤ x) : reachBy N t x = 1 := by
  cases t with
  | zero => simp [reachBy, hx]
  | succ t =>
    have : x ≠ 0 := by omega
    simp [reachBy, hx, this]

/-- the row computed by the driver is the law `reachBy`, site by site -/
theorem reachRow_get (N : Nat) : ∀ t x, x ≤ N → (reachRow N t)[x]? = some (reachBy N t x) := by
  intro t
  induction t with
  | zero =>
    intro x hx
    have : x < N + 1 := by omega
    simp [reachRow, reachBy, this]
  | succ t ih =>
    intro x hx
    have hlt : x < N + 1 := by omega
    simp only [reachRow, List.getElem?_map, List.getElem?_range hlt, Option.map_some, reachBy_succ]
    by_cases hx0 : x = 0
    · simp [hx0]
    · by_cases hxn : N ≤ x
      · simp [hx0, hxn]
      · simp only [hx0, hxn, if_false]
        have h1 := ih (x - 1) (by omega)
        have h2 := ih (x + 1) (by omega)
        simp [List.getD_eq_getElem?_getD, h1, h2]

/-- finite-horizon hitting probabilities never exceed the closed form -/
theorem reachBy_le_ruin (N : Nat) (hN : 0 < N) :
    ∀ t x, x ≤ N → reachBy N t x ≤ ruin N x := by
  have hN' : (0 : Rat) < (N : Rat) := by exact_mod_cast hN
  intro t
  induction t with
  | zero =>
    intro x hx
    by_cases hxn : N ≤ x
    · have : x = N := by omega
      subst this
      simp [reachBy, ruin, ne_of_gt hN']
    · simp only [reachBy, hxn, if_false, ruin]
      positivity
  | succ t ih =>
    intro x hx
    by_cases hx0 : x = 0
    · subst hx0; simp [reachBy, ruin]
    · by_cases hxn : N ≤ x
      · have : x = N := by omega
        subst this
        simp [reachBy, hx0, ruin, ne_of_gt hN']
      · have h1 := ih (x - 1) (by omega)
        have h2 := ih (x + 1) (by omega)
        have hh := (ruin_harmonic N hN).2.2 x (by omega) (by omega)
        simp only [reachBy, hx0, hxn, if_false]
        rw [hh]
        linarith

/-- a longer horizon can only help -/
theorem reachBy_mono (N : Nat) (hN : 0 < N) :
    ∀ t x, reachBy N t x ≤ reachBy N (t + 1) x := by
  intro t
  induction t with
  | zero =>
    intro x
    by_cases hx0 : x = 0
    · subst hx0; rw [reachBy_zero N 0 hN, reachBy_zero N 1 hN]
    · by_cases hxn : N ≤ x
      · rw [reachBy_top N 0 x hN hxn, reachBy_top N 1 x hN hxn]
      · simp only [reachBy, hx0, hxn, if_false]
        have a : (0 : Rat) ≤ (if N ≤ x - 1 then (1 : Rat) else 0) := by split <;> norm_num
        have b : (0 : Rat) ≤ (if N ≤ x + 1 then (1 : Rat) else 0) := by split <;> norm_num
        linarith
  | succ t ih =>
    intro x
    by_cases hx0 : x = 0
    · subst hx0; rw [reachBy_zero N _ hN, reachBy_zero N _ hN]
    · by_cases hxn : N ≤ x
      · rw [reachBy_top N _ x hN hxn, reachBy_top N _ x hN hxn]
      · have h1 := ih (x - 1)
        have h2 := ih (x + 1)
        rw [reachBy_succ N (t + 1) x, reachBy_succ N t x]
        simp only [hx0, hxn, if_false]
        linarith

/-! ### sums of terms -/

theorem term_nonneg (k : Nat) (r : Row) : 0 ≤ term k r := by
  unfold term
  split
  · split
    · rename_i f w _ _ h
      exact div_nonneg (le_of_lt h.1) (le_of_lt h.2)
    · exact le_refl _
  · exact le_refl _

theorem sumOver_nonneg (f : Row → Rat) (hf : ∀ r, 0 ≤ f r) : ∀ rows, 0 ≤ sumOver f rows
  | [] => le_refl _
  | r :: t => add_nonneg (hf r) (sumOver_nonneg f hf t)

theorem sumOver_le (f g : Row → Rat) : ∀ rows, (∀ r ∈ rows, f r ≤ g r) → sumOver f rows ≤ sumOver g rows
  | [], _ => le_refl _
  | r :: t, h => by
    simp only [sumOver]
    exact add_le_add (h r (by simp)) (sumOver_le f g t (fun r hr => h r (by simp [hr])))

theorem sumOver_congr (f g : Row → Rat) : ∀ rows, (∀ r ∈ rows, f r = g r) → sumOver f rows = sumOver g rows
  | [], _ => rfl
  | r :: t, h => by
    simp only [sumOver]
    rw [h r (by simp), sumOver_congr f g t (fun r hr => h r (by simp [hr]))]

theorem sumOver_append (f : Row → Rat) : ∀ a b, sumOver f (a ++ b) = sumOver f a + sumOver f b
  | [], b => by simp [sumOver]
  | r :: t, b => by simp only [List.cons_append, sumOver, sumOver_append f t b]; ring

theorem sumOver_map_mul (f g : Row → Rat) (φ : Row → Row) (s : Rat) (h : ∀ r, f (φ r) = s * g r) :
    ∀ rows, sumOver f (rows.map φ) = s * sumOver g rows
  | [] => by simp [sumOver]
  | r :: t => by simp only [List.map_cons, sumOver, h r, sumOver_map_mul f g φ s h t]; ring

theorem sumOver_mul_left (c : Rat) (f : Row → Rat) : ∀ l : List Row, sumOver (fun r => c * f r) l = c * sumOver f l
  | [] => by simp [sumOver]
  | r :: t => by simp only [sumOver, sumOver_mul_left c f t]; ring

theorem sumOver_zero (f : Row → Rat) : ∀ rows, (∀ r ∈ rows, f r = 0) → sumOver f rows = 0
  | [], _ => rfl
  | r :: t, h => by
    simp only [sumOver]
    rw [h r (by simp), sumOver_zero f t (fun r hr => h r (by simp [hr]))]; ring

/-! ### column rescaling -/

theorem scaleAt_get (c : Rat) : ∀ (l : List Rat) (k : Nat), (scaleAt k c l)[k]? = (l[k]?).map (c * ·)
  | [], k => by simp [scaleAt]
  | x :: t, 0 => by simp [scaleAt]
  | x :: t, k + 1 => by simp [scaleAt, scaleAt_get c t k]

theorem term_scaleCol (k : Nat) (c d : Rat) (hc : 0 < c) (hd : 0 < d) (r : Row) :
    term k (r.scaleCol k c d) = d / c * term k r := by
  unfold term Row.scaleCol
  simp only [scaleAt_get]
  cases hf : r.frac[k]? <;> cases hw : r.w[k]? <;> simp only [Option.map_some, Option.map_none, mul_zero]
  rename_i f w
  have e1 : (0 < d * f) ↔ 0 < f := by
    constructor
    · intro h
      by_contra hn
      have : d * f ≤ 0 := mul_nonpos_of_nonneg_of_nonpos (le_of_lt hd) (not_lt.mp hn)
      linarith
    · intro h; exact mul_pos hd h
  have e2 : (0 < c * w) ↔ 0 < w := by
    constructor
    · intro h
      by_contra hn
      have : c * w ≤ 0 := mul_nonpos_of_nonneg_of_nonpos (le_of_lt hc) (not_lt.mp hn)
      linarith
    · intro h; exact mul_pos hc h
  by_cases h : 0 < f ∧ 0 < w
  · have h' : 0 < d * f ∧ 0 < c * w := ⟨e1.2 h.1, e2.2 h.2⟩
    rw [if_pos h, if_pos h']
    have : c ≠ 0 := ne_of_gt hc
    have : w ≠ 0 := ne_of_gt h.2
    field_simp
  · have h' : ¬ (0 < d * f ∧ 0 < c * w) := by
      intro hh; exact h ⟨e1.1 hh.1, e2.1 hh.2⟩
    rw [if_neg h, if_neg h']; ring

theorem crossed_scaleCol (k : Nat) (c d : Rat) (r : Row) :
    crossed k (r.scaleCol k c d) = crossed k r := rfl

/-! ### the length factor of the shooting kernel -/

/-- (1/a)·min(1, a/b) = (1/b)·min(1, b/a): both are 1/max(a,b) -/
theorem min_factor_symm (a b : Rat) (ha : 0 < a) (hb : 0 < b) :
    1 / a * minR 1 (a / b) = 1 / b * minR 1 (b / a) := by
  unfold minR
  have ha' : a ≠ 0 := ne_of_gt ha
  have hb' : b ≠ 0 := ne_of_gt hb
  by_cases h : a < b
  · have h1 : ¬ (1 ≤ a / b) := by
      rw [not_le, div_lt_one hb]; exact h
    have h2 : (1 : Rat) ≤ b / a := by
      rw [le_div_iff₀ ha]; linarith
    rw [if_neg h1, if_pos h2]; field_simp
  · have hge : b ≤ a := not_lt.mp h
    have h1 : (1 : Rat) ≤ a / b := by
      rw [le_div_iff₀ hb]; linarith
    rw [if_pos h1]
    by_cases h2 : (1 : Rat) ≤ b / a
    · have : a ≤ b := by
        rw [le_div_iff₀ ha] at h2; linarith
      have : a = b := le_antisymm this hge
      subst this
      rw [if_pos h2]
    · rw [if_neg h2]; field_simp

end Infretis.Lattice

namespace Infretis.Lattice

/-! ### the walk's law converges to the closed form, geometrically -/

/-- contraction factor of the comparison function x(N−x)+1 -/
def rho (N : Nat) : Rat := (N : Rat) ^ 2 / ((N : Rat) ^ 2 + 4)

theorem rho_nonneg (N : Nat) : 0 ≤ rho N := by unfold rho; positivity

theorem rho_lt_one (N : Nat) : rho N < 1 := by
  unfold rho
  have : (0 : Rat) < (N : Rat) ^ 2 + 4 := by positivity
  rw [div_lt_one this]; linarith

/-- x(N−x) ≤ ρ·(x(N−x)+1): the comparison function is a super-solution -/
theorem rho_key (N : Nat) (x : Rat) :
    x * ((N : Rat) - x) ≤ rho N * (x * ((N : Rat) - x) + 1) := by
  unfold rho
  have hpos : (0 : Rat) < (N : Rat) ^ 2 + 4 := by positivity
  rw [div_mul_eq_mul_div, le_div_iff₀ hpos]
  nlinarith [sq_nonneg ((N : Rat) - 2 * x)]

/-- **Convergence.**  The probability that the walk started on site x is on site N before site 0
    within t steps differs from x/N by at most ρ^t·(x(N−x)+1), ρ = N²/(N²+4) < 1. -/
theorem reachBy_gap (N : Nat) (hN : 0 < N) :
    ∀ t x, x ≤ N → ruin N x - reachBy N t x ≤ rho N ^ t * ((x : Rat) * ((N : Rat) - (x : Rat)) + 1) := by
  have hN' : (0 : Rat) < (N : Rat) := by exact_mod_cast hN
  have hρ := rho_nonneg N
  intro t
  induction t with
  | zero =>
    intro x hx
    have hxN : (x : Rat) ≤ (N : Rat) := by exact_mod_cast hx
    have hx0 : (0 : Rat) ≤ (x : Rat) := by positivity
    have hprod : 0 ≤ (x : Rat) * ((N : Rat) - (x : Rat)) := mul_nonneg hx0 (by linarith)
    have hr1 : ruin N x ≤ 1 := by
      unfold ruin; rw [div_le_one hN']; exact hxN
    by_cases hxn : N ≤ x
    · have : x = N := by omega
      subst this
      simp [reachBy, ruin, ne_of_gt hN']
    · simp only [reachBy, hxn, if_false, pow_zero, one_mul, sub_zero]
      linarith
  | succ t ih =>
    intro x hx
    have hxN : (x : Rat) ≤ (N : Rat) := by exact_mod_cast hx
    have hx0 : (0 : Rat) ≤ (x : Rat) := by positivity
    have hprod : 0 ≤ (x : Rat) * ((N : Rat) - (x : Rat)) := mul_nonneg hx0 (by linarith)
    have hpow : 0 ≤ rho N ^ (t + 1) := pow_nonneg hρ _
    have hrhs : 0 ≤ rho N ^ (t + 1) * ((x : Rat) * ((N : Rat) - (x : Rat)) + 1) :=
      mul_nonneg hpow (by linarith)
    by_cases hx0' : x = 0
    · subst hx0'
      rw [reachBy_zero N _ hN]
      simpa [ruin] using hrhs
    · by_cases hxn : N ≤ x
      · rw [reachBy_top N _ x hN hxn]
        have : x = N := by omega
        subst this
        have : ruin x x = 1 := by simp [ruin, ne_of_gt hN']
        rw [this]; simpa using hrhs
      · obtain ⟨y, rfl⟩ : ∃ y, x = y + 1 := ⟨x - 1, by omega⟩
        have h1 := ih y (by omega)
        have h2 := ih (y + 2) (by omega)
        have hh := (ruin_harmonic N hN).2.2 (y + 1) (by omega) (by omega)
        simp only [Nat.add_sub_cancel] at hh
        rw [reachBy_succ]
        simp only [hx0', hxn, if_false, Nat.add_sub_cancel]
        rw [hh]
        have hpt : 0 ≤ rho N ^ t := pow_nonneg hρ _
        have key := rho_key N ((y : Rat) + 1)
        push_cast at h1 h2 ⊢
        -- sum of the two induction hypotheses, halved
        have hsum : (ruin N y + ruin N (y + 1 + 1)) / 2 - (reachBy N t y + reachBy N t (y + 1 + 1)) / 2
            ≤ rho N ^ t * (((y : Rat) + 1) * ((N : Rat) - ((y : Rat) + 1))) := by
          have e : rho N ^ t * (((y : Rat) + 1) * ((N : Rat) - ((y : Rat) + 1)))
              = (rho N ^ t * ((y : Rat) * ((N : Rat) - (y : Rat)) + 1)
                 + rho N ^ t * (((y : Rat) + 2) * ((N : Rat) - ((y : Rat) + 2)) + 1)) / 2 := by ring
          rw [e]
          have h2' : ruin N (y + 1 + 1) - reachBy N t (y + 1 + 1)
              ≤ rho N ^ t * (((y : Rat) + 2) * ((N : Rat) - ((y : Rat) + 2)) + 1) := by
            have : y + 1 + 1 = y + 2 := rfl
            rw [this]; exact h2
          linarith
        calc (ruin N y + ruin N (y + 1 + 1)) / 2 - (reachBy N t y + reachBy N t (y + 1 + 1)) / 2
            ≤ rho N ^ t * (((y : Rat) + 1) * ((N : Rat) - ((y : Rat) + 1))) := hsum
          _ ≤ rho N ^ t * (rho N * (((y : Rat) + 1) * ((N : Rat) - ((y : Rat) + 1)) + 1)) :=
              mul_le_mul_of_nonneg_left key hpt
          _ = rho N ^ (t + 1) * (((y : Rat) + 1) * ((N : Rat) - ((y : Rat) + 1)) + 1) := by
              rw [pow_succ]; ring

end Infretis.Lattice

namespace Infretis.Lattice

/-! ### resampling from the conditional (the ∞-swap step) -/

/-- plain list sum -/
def lsum : List Rat → Rat
  | [] => 0
  | x :: t => x + lsum t

theorem lsum_map_mul_right (c : Rat) : ∀ ws : List Rat, lsum (ws.map (fun w => w * c)) = lsum ws * c
  | [] => by simp [lsum]
  | x :: t => by simp only [List.map_cons, lsum, lsum_map_mul_right c t]; ring

end Infretis.Lattice
