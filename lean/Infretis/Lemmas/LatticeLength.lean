import Infretis.Lemmas.Lattice
import Infretis.Model.LatticeMoves
/-!
Helper lemmas for C01: the two inhomogeneous boundary-value problems of the lattice walk (exit time, hitting time on
the event "top first") have exactly one solution each; reduction to `harmonic_unique`.
-/
namespace Infretis.LatticeMoves
open Infretis.Lattice

theorem cast_pred (x : Nat) (hx : 0 < x) : ((x - 1 : Nat) : Rat) = (x : Rat) - 1 := by
  obtain ⟨y, rfl⟩ : ∃ y, x = y + 1 := ⟨x - 1, by omega⟩
  simp

theorem exitTime_eq (N : Nat) : ExitTimeEq N (exitTime N) := by
  refine ⟨by simp [exitTime], by simp [exitTime], ?_⟩
  intro x hx _
  simp only [exitTime, cast_pred x hx]
  push_cast
  ring

theorem hitTime_eq (N : Nat) (hN : 0 < N) : HitTimeEq N (hitTime N) := by
  have hN' : (N : Rat) ≠ 0 := by exact_mod_cast (Nat.pos_iff_ne_zero.1 hN)
  refine ⟨by simp [hitTime], by simp [hitTime], ?_⟩
  intro x hx _
  simp only [hitTime, ruin, cast_pred x hx]
  push_cast
  field_simp
  ring

/-- a function with the mean-value property inside and 0 on both ends of the segment is 0 -/
theorem zero_boundary_harmonic (N : Nat) (hN : 0 < N) (d : Nat → Rat) (h0 : d 0 = 0) (hN0 : d N = 0)
    (hm : ∀ x, 0 < x → x < N → d x = (d (x - 1) + d (x + 1)) / 2) (x : Nat) (hx : x ≤ N) : d x = 0 := by
  have hr := ruin_harmonic N hN
  have hu : Harmonic N (fun y => d y + ruin N y) := by
    refine ⟨by simp [h0, hr.1], by simp [hN0, hr.2.1], ?_⟩
    intro y hy hyN
    simp only
    rw [hm y hy hyN, hr.2.2 y hy hyN]
    ring
  have := harmonic_unique N hN _ hu x hx
  simp only [ruin] at this
  linarith

theorem exitTime_unique (N : Nat) (hN : 0 < N) (t : Nat → Rat) (h : ExitTimeEq N t) (x : Nat) (hx : x ≤ N) :
    t x = exitTime N x := by
  have he := exitTime_eq N
  have := zero_boundary_harmonic N hN (fun y => t y - exitTime N y) (by simp [h.1, he.1]) (by simp [h.2.1, he.2.1])
    (by intro y hy hyN; rw [h.2.2 y hy hyN, he.2.2 y hy hyN]; ring) x hx
  linarith

theorem hitTime_unique (N : Nat) (hN : 0 < N) (m : Nat → Rat) (h : HitTimeEq N m) (x : Nat) (hx : x ≤ N) :
    m x = hitTime N x := by
  have he := hitTime_eq N hN
  have := zero_boundary_harmonic N hN (fun y => m y - hitTime N y) (by simp [h.1, he.1]) (by simp [h.2.1, he.2.1])
    (by intro y hy hyN; rw [h.2.2 y hy hyN, he.2.2 y hy hyN]; ring) x hx
  linarith

/-! ### the walk's own finite-horizon law of the exit time, and its convergence to x·(N−x) -/

theorem stepsBy_succ (N t x : Nat) :
    stepsBy N (t + 1) x = if x = 0 then 0 else if N ≤ x then 0 else 1 + (stepsBy N t (x - 1) + stepsBy N t (x + 1)) / 2 := by
  simp [stepsBy]

theorem stepsBy_out (N t x : Nat) (h : x = 0 ∨ N ≤ x) : stepsBy N t x = 0 := by
  cases t with
  | zero => simp [stepsBy]
  | succ t =>
    rw [stepsBy_succ]
    rcases h with h | h
    · simp [h]
    · by_cases hx : x = 0
      · simp [hx]
      · simp [hx, h]

/-- the capped expectation never exceeds the closed form x·(N−x), and the gap shrinks geometrically -/
theorem stepsBy_gap (N : Nat) (hN : 0 < N) :
    ∀ t x, x ≤ N → 0 ≤ exitTime N x - stepsBy N t x
      ∧ exitTime N x - stepsBy N t x ≤ rho N ^ t * ((x : Rat) * ((N : Rat) - (x : Rat)) + 1) := by
  have hρ := rho_nonneg N
  intro t
  induction t with
  | zero =>
    intro x hx
    have hxN : (x : Rat) ≤ (N : Rat) := by exact_mod_cast hx
    have hx0 : (0 : Rat) ≤ (x : Rat) := by positivity
    have hprod : 0 ≤ (x : Rat) * ((N : Rat) - (x : Rat)) := mul_nonneg hx0 (by linarith)
    simp only [stepsBy, exitTime, sub_zero, pow_zero, one_mul]
    exact ⟨hprod, by linarith⟩
  | succ t ih =>
    intro x hx
    have hxN : (x : Rat) ≤ (N : Rat) := by exact_mod_cast hx
    have hx0 : (0 : Rat) ≤ (x : Rat) := by positivity
    have hprod : 0 ≤ (x : Rat) * ((N : Rat) - (x : Rat)) := mul_nonneg hx0 (by linarith)
    have hpow : 0 ≤ rho N ^ (t + 1) := pow_nonneg hρ _
    have hrhs : 0 ≤ rho N ^ (t + 1) * ((x : Rat) * ((N : Rat) - (x : Rat)) + 1) :=
      mul_nonneg hpow (by linarith)
    by_cases hx0' : x = 0
    · subst hx0'
      rw [stepsBy_out N _ 0 (Or.inl rfl)]
      simp only [exitTime]
      constructor
      · simp
      · simpa using hrhs
    · by_cases hxn : N ≤ x
      · have : x = N := by omega
        subst this
        rw [stepsBy_out x _ x (Or.inr (le_refl _))]
        simp only [exitTime]
        constructor
        · simp
        · simpa using hrhs
      · obtain ⟨y, rfl⟩ : ∃ y, x = y + 1 := ⟨x - 1, by omega⟩
        have h1 := ih y (by omega)
        have h2 := ih (y + 2) (by omega)
        have hh := (exitTime_eq N).2.2 (y + 1) (by omega) (by omega)
        simp only [Nat.add_sub_cancel] at hh
        rw [stepsBy_succ]
        simp only [hx0', hxn, if_false, Nat.add_sub_cancel]
        rw [hh]
        have hpt : 0 ≤ rho N ^ t := pow_nonneg hρ _
        have key := rho_key N ((y : Rat) + 1)
        have e2 : y + 1 + 1 = y + 2 := rfl
        rw [e2]
        push_cast at h1 h2 ⊢
        constructor
        · linarith [h1.1, h2.1]
        · have hsum : (1 + (exitTime N y + exitTime N (y + 2)) / 2) - (1 + (stepsBy N t y + stepsBy N t (y + 2)) / 2)
              ≤ rho N ^ t * (((y : Rat) + 1) * ((N : Rat) - ((y : Rat) + 1))) := by
            have e : rho N ^ t * (((y : Rat) + 1) * ((N : Rat) - ((y : Rat) + 1)))
                = (rho N ^ t * ((y : Rat) * ((N : Rat) - (y : Rat)) + 1)
                   + rho N ^ t * (((y : Rat) + 2) * ((N : Rat) - ((y : Rat) + 2)) + 1)) / 2 := by ring
            rw [e]
            linarith [h1.2, h2.2]
          calc (1 + (exitTime N y + exitTime N (y + 2)) / 2) - (1 + (stepsBy N t y + stepsBy N t (y + 2)) / 2)
              ≤ rho N ^ t * (((y : Rat) + 1) * ((N : Rat) - ((y : Rat) + 1))) := hsum
            _ ≤ rho N ^ t * (rho N * (((y : Rat) + 1) * ((N : Rat) - ((y : Rat) + 1)) + 1)) :=
                mul_le_mul_of_nonneg_left key hpt
            _ = rho N ^ (t + 1) * (((y : Rat) + 1) * ((N : Rat) - ((y : Rat) + 1)) + 1) := by
                rw [pow_succ]; ring

/-! ### finite-horizon law of the time to the top on the event "top first" -/

theorem hitStepsBy_succ (N t x : Nat) :
    hitStepsBy N (t + 1) x = if x = 0 then 0 else if N ≤ x then 0
      else (hitStepsBy N t (x - 1) + hitStepsBy N t (x + 1)) / 2 + reachBy N (t + 1) x := by
  simp [hitStepsBy]

theorem hitStepsBy_out (N t x : Nat) (h : x = 0 ∨ N ≤ x) : hitStepsBy N t x = 0 := by
  cases t with
  | zero => simp [hitStepsBy]
  | succ t =>
    rw [hitStepsBy_succ]
    rcases h with h | h
    · simp [h]
    · by_cases hx : x = 0
      · simp [hx]
      · simp [hx, h]

theorem hitTime_le_v (N : Nat) (hN : 0 < N) (x : Nat) (hx : x ≤ N) :
    0 ≤ hitTime N x ∧ hitTime N x ≤ (x : Rat) * ((N : Rat) - (x : Rat)) + 1 := by
  have hN' : (0 : Rat) < (N : Rat) := by exact_mod_cast hN
  have hxN : (x : Rat) ≤ (N : Rat) := by exact_mod_cast hx
  have hx0 : (0 : Rat) ≤ (x : Rat) := by positivity
  have h3 : (0 : Rat) < 3 * (N : Rat) := by linarith
  have hprod : 0 ≤ (x : Rat) * ((N : Rat) - (x : Rat)) := mul_nonneg hx0 (by linarith)
  unfold hitTime
  constructor
  · apply div_nonneg _ (le_of_lt h3)
    have : (N : Rat) * (N : Rat) - (x : Rat) * (x : Rat) = ((N : Rat) - (x : Rat)) * ((N : Rat) + (x : Rat)) := by ring
    rw [this]
    exact mul_nonneg hx0 (mul_nonneg (by linarith) (by linarith))
  · rw [div_le_iff₀ h3]
    have e : (x : Rat) * ((N : Rat) * (N : Rat) - (x : Rat) * (x : Rat))
        = ((x : Rat) * ((N : Rat) - (x : Rat))) * ((N : Rat) + (x : Rat)) := by ring
    rw [e]
    have : ((x : Rat) * ((N : Rat) - (x : Rat))) * ((N : Rat) + (x : Rat))
        ≤ ((x : Rat) * ((N : Rat) - (x : Rat))) * (3 * (N : Rat)) :=
      mul_le_mul_of_nonneg_left (by linarith) hprod
    nlinarith

/-- 0 ≤ hitTime N x − E[τ·1{N first, τ ≤ t}] ≤ (t+1)·ρ^t·(x(N−x)+1) -/
theorem hitStepsBy_gap (N : Nat) (hN : 0 < N) :
    ∀ t x, x ≤ N → 0 ≤ hitTime N x - hitStepsBy N t x
      ∧ hitTime N x - hitStepsBy N t x ≤ ((t : Rat) + 1) * rho N ^ t * ((x : Rat) * ((N : Rat) - (x : Rat)) + 1) := by
  have hρ := rho_nonneg N
  intro t
  induction t with
  | zero =>
    intro x hx
    have := hitTime_le_v N hN x hx
    simp only [hitStepsBy, sub_zero, pow_zero, Nat.cast_zero, zero_add, one_mul]
    exact this
  | succ t ih =>
    intro x hx
    have hxN : (x : Rat) ≤ (N : Rat) := by exact_mod_cast hx
    have hx0 : (0 : Rat) ≤ (x : Rat) := by positivity
    have hprod : 0 ≤ (x : Rat) * ((N : Rat) - (x : Rat)) := mul_nonneg hx0 (by linarith)
    have hpow : 0 ≤ rho N ^ (t + 1) := pow_nonneg hρ _
    have ht0 : (0 : Rat) ≤ (t : Rat) := by positivity
    have hrhs : 0 ≤ (((t + 1 : Nat) : Rat) + 1) * rho N ^ (t + 1) * ((x : Rat) * ((N : Rat) - (x : Rat)) + 1) := by
      push_cast
      exact mul_nonneg (mul_nonneg (by linarith) hpow) (by linarith)
    by_cases hx0' : x = 0
    · subst hx0'
      rw [hitStepsBy_out N _ 0 (Or.inl rfl)]
      have : hitTime N 0 = 0 := by simp [hitTime]
      rw [this]
      exact ⟨by simp, by simpa using hrhs⟩
    · by_cases hxn : N ≤ x
      · have : x = N := by omega
        subst this
        rw [hitStepsBy_out x _ x (Or.inr (le_refl _))]
        have : hitTime x x = 0 := by simp [hitTime]
        rw [this]
        exact ⟨by simp, by simpa using hrhs⟩
      · obtain ⟨y, rfl⟩ : ∃ y, x = y + 1 := ⟨x - 1, by omega⟩
        have h1 := ih y (by omega)
        have h2 := ih (y + 2) (by omega)
        have hh := (hitTime_eq N hN).2.2 (y + 1) (by omega) (by omega)
        simp only [Nat.add_sub_cancel] at hh
        have hr1 := reachBy_le_ruin N hN (t + 1) (y + 1) (by omega)
        have hr2 := reachBy_gap N hN (t + 1) (y + 1) (by omega)
        rw [hitStepsBy_succ]
        simp only [hx0', hxn, if_false, Nat.add_sub_cancel]
        rw [hh]
        have hpt : 0 ≤ rho N ^ t := pow_nonneg hρ _
        have key := rho_key N ((y : Rat) + 1)
        have e2 : y + 1 + 1 = y + 2 := rfl
        rw [e2]
        push_cast at h1 h2 hr2 ⊢
        constructor
        · linarith [h1.1, h2.1]
        · -- average of the two induction hypotheses
          have havg : (hitTime N y + hitTime N (y + 2)) / 2 - (hitStepsBy N t y + hitStepsBy N t (y + 2)) / 2
              ≤ ((t : Rat) + 1) * rho N ^ t * (((y : Rat) + 1) * ((N : Rat) - ((y : Rat) + 1))) := by
            have e : ((t : Rat) + 1) * rho N ^ t * (((y : Rat) + 1) * ((N : Rat) - ((y : Rat) + 1)))
                = (((t : Rat) + 1) * rho N ^ t * ((y : Rat) * ((N : Rat) - (y : Rat)) + 1)
                   + ((t : Rat) + 1) * rho N ^ t * (((y : Rat) + 2) * ((N : Rat) - ((y : Rat) + 2)) + 1)) / 2 := by ring
            rw [e]
            linarith [h1.2, h2.2]
          have hstep : ((t : Rat) + 1) * rho N ^ t * (((y : Rat) + 1) * ((N : Rat) - ((y : Rat) + 1)))
              ≤ ((t : Rat) + 1) * rho N ^ t * (rho N * (((y : Rat) + 1) * ((N : Rat) - ((y : Rat) + 1)) + 1)) :=
            mul_le_mul_of_nonneg_left key (mul_nonneg (by linarith) hpt)
          have e3 : ((t : Rat) + 1) * rho N ^ t * (rho N * (((y : Rat) + 1) * ((N : Rat) - ((y : Rat) + 1)) + 1))
              = ((t : Rat) + 1) * rho N ^ (t + 1) * (((y : Rat) + 1) * ((N : Rat) - ((y : Rat) + 1)) + 1) := by
            rw [pow_succ]; ring
          have e4 : ((t : Rat) + 1 + 1) * rho N ^ (t + 1) * (((y : Rat) + 1) * ((N : Rat) - ((y : Rat) + 1)) + 1)
              = ((t : Rat) + 1) * rho N ^ (t + 1) * (((y : Rat) + 1) * ((N : Rat) - ((y : Rat) + 1)) + 1)
                + rho N ^ (t + 1) * (((y : Rat) + 1) * ((N : Rat) - ((y : Rat) + 1)) + 1) := by ring
          rw [e4]
          linarith

end Infretis.LatticeMoves
