import Infretis.Lemmas.Lattice
import Infretis.Model.LatticeMoves
/-!
Helper lemmas for C01: the two inhomogeneous boundary-value problems of the lattice walk (exit time, hitting time on
the event "top first") have exactly one solution each; reduction to `harmonic_unique`.
-/
namespace Infretis.LatticeMoves
open Infretis.Lattice

theorem cast_pred (x : Nat) (hx : 0 < x) : ((x - 1 : Nat) : Rat) = (x : Rat) - 1 := by
  obtain ⟨y, rfl⟩ : ∃ y, x = y + 1 := ⟨x - 1, by omega⟩
  simp

theorem exitTime_eq (N : Nat) : ExitTimeEq N (exitTime N) := by
  refine ⟨by simp [exitTime], by simp [exitTime], ?_⟩
  intro x hx _
  simp only [exitTime, cast_pred x hx]
  push_cast
  ring

theorem hitTime_eq (N : Nat) (hN : 0 < N) : HitTimeEq N (hitTime N) := by
  have hN' : (N : Rat) ≠ 0 := by exact_mod_cast (Nat.pos_iff_ne_zero.1 hN)
  refine ⟨by simp [hitTime], by simp [hitTime], ?_⟩
  intro x hx _
  simp only [hitTime, ruin, cast_pred x hx]
  push_cast
  field_simp
  ring

/-- a function with the mean-value property inside and 0 on both ends of the segment is 0 -/
theorem zero_boundary_harmonic (N : Nat) (hN : 0 < N) (d : Nat → Rat) (h0 : d 0 = 0) (hN0 : d N = 0)
    (hm : ∀ x, 0 < x → x < N → d x = (d (x - 1) + d (x + 1)) / 2) (x : Nat) (hx : x ≤ N) : d x = 0 := by
  have hr := ruin_harmonic N hN
  have hu : Harmonic N (fun y => d y + ruin N y) := by
    refine ⟨by simp [h0, hr.1], by simp [hN0, hr.2.1], ?_⟩
    intro y hy hyN
    simp only
    rw [hm y hy hyN, hr.2.2 y hy hyN]
    ring
  have := harmonic_unique N hN _ hu x hx
  simp only [ruin] at this
  linarith

theorem exitTime_unique (N : Nat) (hN : 0 < N) (t : Nat → Rat) (h : ExitTimeEq N t) (x : Nat) (hx : x ≤ N) :
    t x = exitTime N x := by
  have he := exitTime_eq N
  have := zero_boundary_harmonic N hN (fun y => t y - exitTime N y) (by simp [h.1, he.1]) (by simp [h.2.1, he.2.1])
    (by intro y hy hyN; rw [h.2.2 y hy hyN, he.2.2 y hy hyN]; ring) x hx
  linarith

theorem hitTime_unique (N : Nat) (hN : 0 < N) (m : Nat → Rat) (h : HitTimeEq N m) (x : Nat) (hx : x ≤ N) :
    m x = hitTime N x := by
  have he := hitTime_eq N hN
  have := zero_boundary_harmonic N hN (fun y => m y - hitTime N y) (by simp [h.1, he.1]) (by simp [h.2.1, he.2.1])
    (by intro y hy hyN; rw [h.2.2 y hy hyN, he.2.2 y hy hyN]; ring) x hx
  linarith

end Infretis.LatticeMoves
