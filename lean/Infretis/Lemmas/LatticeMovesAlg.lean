import Infretis.Model.LatticeMoves
import Mathlib.Algebra.Order.Field.Rat
import Mathlib.Tactic.Ring
import Mathlib.Tactic.Linarith
/-!
Helper lemmas for C01: finite sums `rsum` (append, pointwise add, scaling, swapping two sums, indicator sums) and
the marginals of a weighted list of assignments.
-/
namespace Infretis.LatticeMoves

theorem rsum_append : ∀ a b : List Rat, rsum (a ++ b) = rsum a + rsum b
  | [], b => by simp [rsum]
  | x :: t, b => by simp only [List.cons_append, rsum, rsum_append t b]; ring

theorem rsum_map_zero {α : Type} : ∀ l : List α, rsum (l.map (fun _ => (0 : Rat))) = 0
  | [] => rfl
  | _ :: t => by simp only [List.map_cons, rsum, rsum_map_zero t]; ring

theorem rsum_map_add {α : Type} (f g : α → Rat) : ∀ l : List α,
    rsum (l.map (fun a => f a + g a)) = rsum (l.map f) + rsum (l.map g)
  | [] => by simp [rsum]
  | x :: t => by simp only [List.map_cons, rsum, rsum_map_add f g t]; ring

theorem rsum_map_mul_left {α : Type} (c : Rat) (f : α → Rat) : ∀ l : List α,
    rsum (l.map (fun a => c * f a)) = c * rsum (l.map f)
  | [] => by simp [rsum]
  | x :: t => by simp only [List.map_cons, rsum, rsum_map_mul_left c f t]; ring

theorem rsum_map_congr {α : Type} (f g : α → Rat) : ∀ l : List α, (∀ a ∈ l, f a = g a) →
    rsum (l.map f) = rsum (l.map g)
  | [], _ => rfl
  | x :: t, h => by
    simp only [List.map_cons, rsum]
    rw [h x (by simp), rsum_map_congr f g t (fun a ha => h a (by simp [ha]))]

/-- two finite sums can be exchanged -/
theorem rsum_swap {α β : Type} (F : α → β → Rat) : ∀ (l1 : List α) (l2 : List β),
    rsum (l1.map (fun i => rsum (l2.map (F i)))) = rsum (l2.map (fun a => rsum (l1.map (fun i => F i a))))
  | [], l2 => by simp [rsum, rsum_map_zero]
  | x :: t, l2 => by
    simp only [List.map_cons, rsum]
    rw [rsum_swap F t l2, ← rsum_map_add]

/-- Σ_{j<M} [j0 = j]·c · g j = c · g j0 for j0 < M -/
theorem rsum_range_indicator (c : Rat) (g : Nat → Rat) (j0 : Nat) : ∀ M, j0 < M →
    rsum ((List.range M).map (fun j => (if some j0 = some j then c else 0) * g j)) = c * g j0
  | 0, h => by omega
  | M + 1, h => by
    rw [List.range_succ, List.map_append, rsum_append]
    by_cases hj : j0 = M
    · subst hj
      have : rsum ((List.range j0).map (fun j => (if some j0 = some j then c else 0) * g j)) = 0 := by
        rw [rsum_map_congr _ (fun _ => (0 : Rat)) _ (fun j hj => by
          have : j < j0 := List.mem_range.1 hj
          have hne : ¬ (some j0 = some j) := by simp; omega
          simp [hne]), rsum_map_zero]
      rw [this]; simp [rsum]
    · rw [rsum_range_indicator c g j0 M (by omega)]
      simp [rsum, hj]

theorem rsum_range_indicator_none (c : Rat) (g : Nat → Rat) (M : Nat) :
    rsum ((List.range M).map (fun j => (if (none : Option Nat) = some j then c else 0) * g j)) = 0 := by
  rw [rsum_map_congr _ (fun _ => (0 : Rat)) _ (fun j _ => by simp), rsum_map_zero]

/-- **Marginal expectation.**  Σ_j marginal(i,j)·g(j) = Σ_σ w(σ)·g(σ(i)), for path indices below M. -/
theorem marginal_expect (g : Nat → Rat) (i M : Nat) : ∀ as : List (List Nat × Rat),
    (∀ a ∈ as, ∀ j ∈ a.1, j < M) →
    rsum ((List.range M).map (fun j => marginalNum as i j * g j)) = rsum (as.map (fun a => a.2 * atEns a.1 i g))
  | [], _ => by simp [marginalNum, rsum, rsum_map_zero]
  | a :: t, h => by
    have ih := marginal_expect g i M t (fun a' ha' => h a' (by simp [ha']))
    have hsplit : (fun j => marginalNum (a :: t) i j * g j)
        = (fun j => (if a.1[i]? = some j then a.2 else 0) * g j + marginalNum t i j * g j) := by
      funext j; simp only [marginalNum, List.map_cons, rsum]; ring
    rw [hsplit, rsum_map_add, ih]
    simp only [List.map_cons, rsum]
    congr 1
    unfold atEns
    cases hσ : a.1[i]? with
    | none => rw [rsum_range_indicator_none]; ring
    | some j0 =>
      have hj0 : j0 < M := h a (by simp) j0 (List.mem_of_getElem? hσ)
      exact rsum_range_indicator a.2 g j0 M hj0

end Infretis.LatticeMoves
