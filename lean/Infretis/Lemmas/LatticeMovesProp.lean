import Infretis.Model.LatticeMoves
/-!
Helper lemmas for C01 (core Lean only): the plug-in's propagation loop `prop` against segments `Seg`,
and symmetry of the match count.
-/
namespace Infretis.LatticeMoves

theorem stepTo_coin (x y : Int) (h : y = x + 1 ∨ y = x - 1) : stepTo x (decide (y = x + 1)) = y := by
  unfold stepTo
  rcases h with h | h
  · simp [h]
  · have : ¬ (y = x + 1) := by omega
    rw [decide_eq_false this]; simp [h]

theorem seg_length_pos (top : Int) : ∀ (x : Int) (seg : List Int), Seg top x seg → 0 < seg.length
  | _, [], h => by simp [Seg] at h
  | _, _ :: _, _ => by simp

theorem coinsOf_length : ∀ (x : Int) (seg : List Int), (coinsOf x seg).length = seg.length
  | _, [] => rfl
  | _, y :: t => by simp [coinsOf, coinsOf_length y t]

/-- a frame outside (0, top) stops the loop at once -/
theorem prop_outside (top : Int) (cap : Nat) (x : Int) (coins : List Bool) (h : x ≤ 0 ∨ top ≤ x) :
    prop top (cap + 1) x coins = some ([x], true, 0) := by
  simp [prop, h]

/-- one turn of the loop from a site inside with room left -/
theorem prop_step (top : Int) (cap : Nat) (x : Int) (c : Bool) (t : List Bool)
    (hin : ¬ (x ≤ 0 ∨ top ≤ x)) (hc : cap ≠ 0) :
    prop top (cap + 1) x (c :: t) =
      match prop top cap (stepTo x c) t with
      | none => none
      | some (fr, ok, k) => some (x :: fr, ok, k + 1) := by
  rw [prop]; simp only [hin, if_false, hc]
  cases prop top cap (stepTo x c) t <;> rfl

theorem prop_full (top : Int) (x : Int) (coins : List Bool) (hin : ¬ (x ≤ 0 ∨ top ≤ x)) :
    prop top 1 x coins = some ([x], false, 0) := by
  simp [prop, hin]

/-- **Generation.**  From a site inside, the coins of a segment reproduce exactly that segment, with success,
    consuming exactly those coins — provided the path is allowed to be that long. -/
theorem prop_seg (top : Int) : ∀ (seg : List Int) (cap : Nat) (x : Int) (extra : List Bool),
    0 < x → x < top → Seg top x seg → seg.length + 1 ≤ cap →
    prop top cap x (coinsOf x seg ++ extra) = some (x :: seg, true, seg.length)
  | [], _, _, _, _, _, h, _ => by simp [Seg] at h
  | [y], cap, x, extra, h0, h1, h, hc => by
    obtain ⟨hs, ho⟩ := h
    obtain ⟨c, rfl⟩ : ∃ c, cap = c + 2 := ⟨cap - 2, by simp at hc; omega⟩
    have hin : ¬ (x ≤ 0 ∨ top ≤ x) := by omega
    simp only [coinsOf, List.cons_append, List.nil_append]
    rw [prop_step top (c + 1) x _ _ hin (by omega), stepTo_coin x y hs, prop_outside top c y _ ho]
    simp
  | y :: z :: t, cap, x, extra, h0, h1, h, hc => by
    obtain ⟨hs, hy, hrest⟩ := h
    obtain ⟨c, rfl⟩ : ∃ c, cap = c + 2 := ⟨cap - 2, by simp at hc; omega⟩
    have hin : ¬ (x ≤ 0 ∨ top ≤ x) := by omega
    have ih := prop_seg top (z :: t) (c + 1) y extra hy.1 hy.2 hrest (by simp at hc ⊢; omega)
    simp only [coinsOf, List.cons_append] at ih ⊢
    rw [prop_step top (c + 1) x _ _ hin (by omega), stepTo_coin x y hs, ih]
    simp

/-- **Rejection by length.**  If the segment does not fit (`cap ≤ seg.length`, cap ≥ 1) the loop stops without success
    after `cap` frames. -/
theorem prop_seg_short (top : Int) : ∀ (seg : List Int) (cap : Nat) (x : Int) (extra : List Bool),
    0 < x → x < top → Seg top x seg → 0 < cap → cap ≤ seg.length →
    ∃ fr k, prop top cap x (coinsOf x seg ++ extra) = some (fr, false, k) ∧ fr.length = cap
  | [], _, _, _, _, _, h, _, _ => by simp [Seg] at h
  | [y], cap, x, extra, h0, h1, _, hc0, hc => by
    have : cap = 1 := by simp at hc; omega
    subst this
    have hin : ¬ (x ≤ 0 ∨ top ≤ x) := by omega
    exact ⟨[x], 0, prop_full top x _ hin, rfl⟩
  | y :: z :: t, cap, x, extra, h0, h1, h, hc0, hc => by
    obtain ⟨hs, hy, hrest⟩ := h
    have hin : ¬ (x ≤ 0 ∨ top ≤ x) := by omega
    obtain ⟨c, rfl⟩ : ∃ c, cap = c + 1 := ⟨cap - 1, by omega⟩
    by_cases hc1 : c = 0
    · subst hc1
      exact ⟨[x], 0, prop_full top x _ hin, rfl⟩
    · obtain ⟨fr, k, ih, hl⟩ := prop_seg_short top (z :: t) c y extra hy.1 hy.2 hrest (by omega) (by simp at hc ⊢; omega)
      refine ⟨x :: fr, k + 1, ?_, by simp [hl]⟩
      simp only [coinsOf, List.cons_append] at ih ⊢
      rw [prop_step top c x _ _ hin hc1, stepTo_coin x y hs, ih]

/-- **Soundness.**  Whatever the coins, a successful propagation from a site inside returns the start frame followed by
    a segment, fitted the cap, and consumed exactly the coins of that segment. -/
theorem prop_success (top : Int) : ∀ (cap : Nat) (x : Int) (coins : List Bool) (fr : List Int) (k : Nat),
    0 < x → x < top → prop top cap x coins = some (fr, true, k) →
    ∃ seg, fr = x :: seg ∧ Seg top x seg ∧ k = seg.length ∧ coins.take k = coinsOf x seg ∧ seg.length + 1 ≤ cap
  | 0, _, _, _, _, _, _, h => by simp [prop] at h
  | cap + 1, x, coins, fr, k, h0, h1, h => by
    have hin : ¬ (x ≤ 0 ∨ top ≤ x) := by omega
    by_cases hc : cap = 0
    · subst hc; rw [prop_full top x coins hin] at h; simp at h
    · cases coins with
      | nil => rw [prop] at h; simp [hin, hc] at h
      | cons c t =>
        rw [prop_step top cap x c t hin hc] at h
        cases hr : prop top cap (stepTo x c) t with
        | none => simp [hr] at h
        | some r =>
          obtain ⟨fr', ok', k'⟩ := r
          simp only [hr, Option.some.injEq, Prod.mk.injEq] at h
          obtain ⟨rfl, rfl, rfl⟩ := h
          have hstep : stepTo x c = x + 1 ∨ stepTo x c = x - 1 := by
            unfold stepTo; cases c <;> simp
          have hcoin : decide (stepTo x c = x + 1) = c := by
            unfold stepTo; cases c <;> simp <;> omega
          by_cases hy : stepTo x c ≤ 0 ∨ top ≤ stepTo x c
          · obtain ⟨c', rfl⟩ : ∃ c', cap = c' + 1 := ⟨cap - 1, by omega⟩
            rw [prop_outside top c' _ t hy] at hr
            simp only [Option.some.injEq, Prod.mk.injEq] at hr
            obtain ⟨rfl, _, rfl⟩ := hr
            refine ⟨[stepTo x c], rfl, ⟨hstep, hy⟩, rfl, ?_, by simp⟩
            simp [coinsOf, hcoin]
          · have hy0 : 0 < stepTo x c := by omega
            have hy1 : stepTo x c < top := by omega
            obtain ⟨seg, rfl, hseg, rfl, htake, hlen⟩ := prop_success top cap (stepTo x c) t fr' k' hy0 hy1 hr
            have hpos := seg_length_pos top _ _ hseg
            cases seg with
            | nil => simp at hpos
            | cons z s =>
              refine ⟨stepTo x c :: z :: s, rfl, ⟨hstep, ⟨hy0, hy1⟩, hseg⟩, by simp, ?_, by simp at hlen ⊢; omega⟩
              simp only [List.length_cons] at htake
              simp [coinsOf, hcoin, htake]

/-! ### the coins determine the segment -/

theorem step_coin_inj (x y y' : Int) (h : y = x + 1 ∨ y = x - 1) (h' : y' = x + 1 ∨ y' = x - 1)
    (hc : decide (y = x + 1) = decide (y' = x + 1)) : y = y' := by
  rcases h with h | h <;> rcases h' with h' | h'
  · omega
  · have : ¬ (y' = x + 1) := by omega
    simp [h, this] at hc
  · have : ¬ (y = x + 1) := by omega
    simp [h', this] at hc
  · omega

/-- the coins determine the segment: a segment ends at its first frame outside -/
theorem seg_coins_unique (top : Int) : ∀ (s1 : List Int) (x : Int) (s2 : List Int) (e1 : List Bool),
    Seg top x s1 → Seg top x s2 → (coinsOf x s1 ++ e1).take s2.length = coinsOf x s2 → s1 = s2
  | [], _, _, _, h, _, _ => by simp [Seg] at h
  | [y], x, s2, e1, h1, h2, hc => by
    obtain ⟨hs, ho⟩ := h1
    cases s2 with
    | nil => simp [Seg] at h2
    | cons y' t' =>
      cases t' with
      | nil =>
        obtain ⟨hs', _⟩ := h2
        simp only [coinsOf, List.cons_append, List.length_cons, List.take_succ_cons, List.cons.injEq] at hc
        rw [step_coin_inj x y y' hs hs' hc.1]
      | cons z' t'' =>
        obtain ⟨hs', hy', _⟩ := h2
        simp only [coinsOf, List.cons_append, List.length_cons, List.take_succ_cons, List.cons.injEq] at hc
        have := step_coin_inj x y y' hs hs' hc.1
        omega
  | y :: z :: t, x, s2, e1, h1, h2, hc => by
    obtain ⟨hs, hy, hrest⟩ := h1
    cases s2 with
    | nil => simp [Seg] at h2
    | cons y' t' =>
      cases t' with
      | nil =>
        obtain ⟨hs', ho'⟩ := h2
        simp only [coinsOf, List.cons_append, List.length_cons, List.take_succ_cons, List.cons.injEq] at hc
        have := step_coin_inj x y y' hs hs' hc.1
        omega
      | cons z' t'' =>
        obtain ⟨hs', hy', hrest'⟩ := h2
        simp only [coinsOf, List.cons_append, List.length_cons, List.take_succ_cons, List.cons.injEq] at hc
        have e := step_coin_inj x y y' hs hs' hc.1
        subst e
        have := seg_coins_unique top (z :: t) y (z' :: t'') e1 hrest hrest' (by simpa [coinsOf] using hc.2)
        rw [this]

/-! ### the match count is symmetric -/

theorem matchCount_nil_right : ∀ a : List Int, matchCount a [] = 0
  | [] => rfl
  | x :: t => by simp [matchCount, countEq, matchCount_nil_right t]

theorem matchCount_cons_right (y : Int) : ∀ (a n : List Int),
    matchCount a (y :: n) = countEq y a + matchCount a n
  | [], n => by simp [matchCount, countEq]
  | x :: t, n => by
    simp only [matchCount, countEq, matchCount_cons_right y t n]
    by_cases h : y = x
    · subst h; simp; omega
    · have h' : ¬ x = y := fun e => h e.symm
      simp [h, h']; omega

/-- the number of (old index, new index) pairs on a common site does not depend on which path is called old -/
theorem matchCount_symm : ∀ (a b : List Int), matchCount a b = matchCount b a
  | [], b => by simp [matchCount, matchCount_nil_right]
  | x :: t, b => by
    rw [matchCount_cons_right x b t, ← matchCount_symm t b]
    simp [matchCount]

/-! ### the enumerated assignments -/

/-- every enumerated assignment gives each of the n ensembles a path index below n -/
theorem perms_spec : ∀ (n : Nat) (σ : List Nat), σ ∈ perms n → σ.length = n ∧ ∀ j ∈ σ, j < n
  | 0, σ, h => by
    simp [perms] at h
    subst h
    simp
  | n + 1, σ, h => by
    simp only [perms, List.mem_flatMap, List.mem_map, List.mem_range] at h
    obtain ⟨p, hp, k, hk, rfl⟩ := h
    obtain ⟨hl, hlt⟩ := perms_spec n p hp
    constructor
    · simp only [insertAt, List.length_append, List.length_take, List.length_cons, List.length_drop]
      omega
    · intro j hj
      simp only [insertAt, List.mem_append, List.mem_cons] at hj
      rcases hj with hj | hj | hj
      · exact Nat.lt_succ_of_lt (hlt j (List.mem_of_mem_take hj))
      · omega
      · exact Nat.lt_succ_of_lt (hlt j (List.mem_of_mem_drop hj))

theorem assignments_spec (W : List (List Rat)) : ∀ a ∈ assignments W,
    a.1.length = W.length ∧ ∀ j ∈ a.1, j < W.length := by
  intro a ha
  simp only [assignments, List.mem_map] at ha
  obtain ⟨σ, hσ, rfl⟩ := ha
  exact perms_spec W.length σ hσ

end Infretis.LatticeMoves
