import Infretis.Model.LatticeMoves
/-!
C01: the lattice shooting move `latShoot` against the generic shooting model of C09 run on the lattice streams
(`latShootRef` = `Moves.shoot .repaired` on doubled coordinates: site x ↦ 2x, interface k+½ ↦ 2k+1).  Core Lean only.

Main statements
 * `latShootRef_of_ok'` / `latShootRef_of_ok` : whenever `latShoot` returns `.ok o` (and `maxlength ≥ 2`, needed only when the
   shooting point passed `check_kick`), `latShootRef` returns `.ok (refOut old ld idx o)` — every field of the generic result.
 * `latShootRef_short` : with `maxlength ≤ 1` and the shooting point inside the two differ (result vs IndexError).
 * `latShootRef_value_iff`, `latShootRef_zerodiv_iff`, `latShootRef_badIdx`, `latShootRef_negXi` : the errors.
 * `latShootRef_total` : the above as one case table.
 * `latShootRef_counterexample_maxlength1`, `latShootRef_counterexample_coins` : concrete witnesses of the two differences.
Key lemma: `feedV_prop` (the plug-in's loop `prop` is the generic engine loop `feedV` on the stream `walk`).
-/
namespace Infretis.LatticeMoves
open Infretis.Moves Infretis.Engine

/-! ### one turn of the engine loop -/

theorem feedV_cross (l r : Int) (m : Nat) (ops : List Int) (y : Int) (t : List Int) (j : Nat)
    (hroom : ops.length < m) (hy : y < l ∨ y > r) :
    feedV .repaired l r (some m) ops (y :: t) j = some (ops ++ [y], true, j + 1) := by
  rw [feedV]
  rcases hy with hy | hy
  · simp [addToPathV, pathAppend, hroom, hy]
  · by_cases hl : y < l
    · simp [addToPathV, pathAppend, hroom, hl]
    · simp [addToPathV, pathAppend, hroom, hl, hy]

theorem feedV_full (l r : Int) (m : Nat) (ops : List Int) (y : Int) (t : List Int) (j : Nat)
    (hroom : ops.length + 1 = m) (hl : ¬ y < l) (hr : ¬ y > r) :
    feedV .repaired l r (some m) ops (y :: t) j = some (ops ++ [y], false, j + 1) := by
  rw [feedV]
  have h1 : ops.length < m := by omega
  simp [addToPathV, pathAppend, h1, hl, hr, hroom]

theorem feedV_more (l r : Int) (m : Nat) (ops : List Int) (y : Int) (t : List Int) (j : Nat)
    (hroom : ops.length + 1 < m) (hl : ¬ y < l) (hr : ¬ y > r) :
    feedV .repaired l r (some m) ops (y :: t) j = feedV .repaired l r (some m) (ops ++ [y]) t (j + 1) := by
  rw [feedV]
  have h1 : ops.length < m := by omega
  have h2 : ¬ (m = ops.length + 1) := by omega
  simp [addToPathV, pathAppend, h1, hl, hr, h2]

/-- **The plug-in's loop is the generic engine loop on the lattice stream** (doubled coordinates), for a
    path with room for at least one frame. -/
theorem feedV_prop (top : Int) : ∀ (cap : Nat) (x : Int) (coins : List Bool) (ops : List Int) (j : Nat)
    (fr : List Int) (ok : Bool) (k : Nat),
    prop top (cap + 1) x coins = some (fr, ok, k) →
    feedV .repaired 1 (2 * top - 1) (some (ops.length + (cap + 1))) ops (2 * x :: (walk x coins).map (2 * ·)) j
      = some (ops ++ fr.map (2 * ·), ok, j + k + 1)
  | cap, x, coins, ops, j, fr, ok, k, h => by
    unfold prop at h
    split at h
    · rename_i hout
      simp only [Option.some.injEq, Prod.mk.injEq] at h
      obtain ⟨rfl, rfl, rfl⟩ := h
      rw [feedV_cross _ _ _ _ _ _ _ (by omega) (by omega)]
      simp
    rename_i hin
    split at h
    · rename_i hc
      simp only [Option.some.injEq, Prod.mk.injEq] at h
      obtain ⟨rfl, rfl, rfl⟩ := h
      rw [feedV_full _ _ _ _ _ _ _ (by omega) (by omega) (by omega)]
      simp
    rename_i hc
    cases coins with
    | nil => simp at h
    | cons c t =>
      simp only at h
      cases hr : prop top cap (stepTo x c) t with
      | none => simp [hr] at h
      | some res =>
        obtain ⟨fr', ok', k'⟩ := res
        simp only [hr, Option.some.injEq, Prod.mk.injEq] at h
        obtain ⟨rfl, rfl, rfl⟩ := h
        obtain ⟨cap', rfl⟩ : ∃ c', cap = c' + 1 := ⟨cap - 1, by omega⟩
        rw [feedV_more _ _ _ _ _ _ _ (by omega) (by omega) (by omega)]
        have ih := feedV_prop top cap' (stepTo x c) t (ops ++ [2 * x]) (j + 1) fr' ok' k' hr
        simp only [walk, List.map_cons]
        have hlen : (ops ++ [2 * x]).length + (cap' + 1) = ops.length + (cap' + 1 + 1) := by
          simp; omega
        rw [hlen] at ih
        rw [ih]
        simp only [List.append_assoc, List.singleton_append, Option.some.injEq, Prod.mk.injEq, true_and]
        omega

/-! ### pasting and copying with a length limit -/

theorem appendAll_some (m : Nat) : ∀ (l self : List Int), self.length ≤ m →
    appendAll (some m) self l = (self ++ l.take (m - self.length), decide (self.length + l.length ≤ m))
  | [], self, h => by simp [appendAll, h]
  | x :: t, self, h => by
    rw [appendAll]
    by_cases hlt : self.length < m
    · simp only [pathAppend, hlt, if_true]
      rw [appendAll_some m t (self ++ [x]) (by simp; omega)]
      obtain ⟨d, hd⟩ : ∃ d, m - self.length = d + 1 := ⟨m - self.length - 1, by omega⟩
      have hd' : m - (self ++ [x]).length = d := by simp; omega
      rw [hd, hd']
      simp only [List.take_succ_cons, List.append_assoc, List.singleton_append, List.length_append,
        List.length_cons, List.length_nil]
      congr 1
      simp; omega
    · have : m - self.length = 0 := by omega
      simp only [pathAppend, hlt, if_false, this, List.take_zero, List.append_nil]
      congr 1
      simp; omega

theorem appendAll_nil_fst (m : Nat) (l : List Int) : (appendAll (some m) [] l).1 = l.take m := by
  rw [appendAll_some m l [] (Nat.zero_le _)]; simp

theorem paste_eq_take (back forw : List Int) (m : Nat) :
    paste back forw m = (back.reverse ++ forw.tail).take m := by
  unfold paste
  rw [appendAll_some m back.reverse [] (Nat.zero_le _)]
  simp only [List.nil_append, List.length_nil, Nat.sub_zero, Nat.zero_add, List.length_reverse]
  by_cases h : back.length ≤ m
  · simp only [h, decide_true]
    have h1 : back.reverse.take m = back.reverse := List.take_of_length_le (by simpa using h)
    rw [h1, appendAll_some m forw.tail back.reverse (by simpa using h)]
    simp [List.take_append, h1]
  · simp only [h, decide_false]
    rw [List.take_append_of_le_length (by simp; omega)]

/-! ### the crossing test -/

theorem foldl_min_lt (m0 : Int) : ∀ (t : List Int) (a : Int),
    (t.foldl (fun m x => if x < m then x else m) a < m0) ↔ (a < m0 ∨ ∃ y ∈ t, y < m0)
  | [], a => by simp
  | x :: t, a => by
    rw [List.foldl_cons, foldl_min_lt m0 t]
    by_cases hx : x < a
    · simp only [hx, if_true, List.mem_cons, exists_eq_or_imp]
      constructor
      · rintro (h | h)
        · exact Or.inr (Or.inl h)
        · exact Or.inr (Or.inr h)
      · rintro (h | h | h)
        · exact Or.inl (by omega)
        · exact Or.inl h
        · exact Or.inr h
    · simp only [hx, if_false, List.mem_cons, exists_eq_or_imp]
      constructor
      · rintro (h | h)
        · exact Or.inl h
        · exact Or.inr (Or.inr h)
      · rintro (h | h | h)
        · exact Or.inl h
        · exact Or.inl (by omega)
        · exact Or.inr h

theorem foldl_max_ge (m0 : Int) : ∀ (t : List Int) (a : Int),
    (m0 ≤ t.foldl (fun m x => if x > m then x else m) a) ↔ (m0 ≤ a ∨ ∃ y ∈ t, m0 ≤ y)
  | [], a => by simp
  | x :: t, a => by
    rw [List.foldl_cons, foldl_max_ge m0 t]
    by_cases hx : x > a
    · simp only [hx, if_true, List.mem_cons, exists_eq_or_imp]
      constructor
      · rintro (h | h)
        · exact Or.inr (Or.inl h)
        · exact Or.inr (Or.inr h)
      · rintro (h | h | h)
        · exact Or.inl (by omega)
        · exact Or.inl h
        · exact Or.inr h
    · simp only [hx, if_false, List.mem_cons, exists_eq_or_imp]
      constructor
      · rintro (h | h)
        · exact Or.inl h
        · exact Or.inr (Or.inr h)
      · rintro (h | h | h)
        · exact Or.inl h
        · exact Or.inl (by omega)
        · exact Or.inr h

/-- `check_interfaces(...)[-1][1]` of the generic model is "some frame below, some frame at or above" -/
theorem checkInterfaces_cross (p : List Int) (l m r : Int) :
    (checkInterfaces p l m r).2.2 = (p.any (fun y => decide (y < m)) && p.any (fun y => decide (m ≤ y))) := by
  cases p with
  | nil => simp [checkInterfaces]
  | cons a t =>
    obtain ⟨last, hlast⟩ : ∃ last, (a :: t).getLast? = some last := ⟨(a :: t).getLast (by simp), List.getLast?_eq_some_getLast (by simp)⟩
    simp only [checkInterfaces, List.head?_cons, hlast, minOf, WF.maxOf]
    rw [Bool.eq_iff_iff]
    simp only [Bool.and_eq_true, decide_eq_true_eq, List.any_eq_true, foldl_min_lt, foldl_max_ge,
      List.mem_cons, exists_eq_or_imp]

theorem crossMid_ref (e : Ens) (p : List Int) (l r : Int) :
    (checkInterfaces (p.map (2 * ·)) l (2 * e.mid - 1) r).2.2 = crossMid e p := by
  rw [checkInterfaces_cross, crossMid, List.any_map, List.any_map]
  congr 1
  · congr 1; funext y; simp only [Function.comp]; rw [Bool.eq_iff_iff]; simp only [decide_eq_true_eq]; omega
  · congr 1; funext y; simp only [Function.comp]; rw [Bool.eq_iff_iff]; simp only [decide_eq_true_eq]; omega

/-! ### the generic shooting model, branch by branch (any input `i`) -/

section generic
variable (v : Moves.Variant) (i : Moves.ShootIn)

theorem shoot_value (h1 : ¬ (1 < (i.old.length : Int) - 1)) : Moves.shoot v i = .error .value := by
  unfold Moves.shoot
  simp only [h1, not_false_eq_true, reduceIte]

theorem shoot_idx (h1 : 1 < (i.old.length : Int) - 1)
    (h2 : ¬ (1 ≤ i.idx ∧ (i.idx : Int) < (i.old.length : Int) - 1)) : Moves.shoot v i = .error .badDraw := by
  unfold Moves.shoot
  simp only [h1, h2, not_true_eq_false, not_false_eq_true, reduceIte]

theorem shoot_KOB (h1 : 1 < (i.old.length : Int) - 1)
    (h2 : 1 ≤ i.idx ∧ (i.idx : Int) < (i.old.length : Int) - 1) (hk : ¬ (i.l ≤ i.kick ∧ i.kick < i.r)) :
    Moves.shoot v i = .ok {
      accept := false, status := .KOB, trial := (pathAppend [] (some i.maxlength) i.kick).1,
      genSp := i.kick, genIdx := i.idx, genNb := 0, timeOrigin := i.oldTimeOrigin + i.idx,
      draws := [.integers 1 ((i.old.length : Int) - 1)], usedB := 0, usedF := 0 } := by
  unfold Moves.shoot
  simp only [h1, h2, hk, and_self, not_true_eq_false, not_false_eq_true, reduceIte]

theorem shoot_drawErr (h1 : 1 < (i.old.length : Int) - 1)
    (h2 : 1 ≤ i.idx ∧ (i.idx : Int) < (i.old.length : Int) - 1) (hk : i.l ≤ i.kick ∧ i.kick < i.r)
    (er : Moves.Err) (hd : Moves.drawMaxlen i = .error er) : Moves.shoot v i = .error er := by
  unfold Moves.shoot
  simp only [h1, h2, hk, hd, and_self, not_true_eq_false, reduceIte]

theorem shoot_Bfail (h1 : 1 < (i.old.length : Int) - 1)
    (h2 : 1 ≤ i.idx ∧ (i.idx : Int) < (i.old.length : Int) - 1) (hk : i.l ≤ i.kick ∧ i.kick < i.r)
    (M : Nat) (d2 : List Moves.Draw) (hd : Moves.drawMaxlen i = .ok (M, d2))
    (pb : List Int) (ub : Nat)
    (hfb : feedV v i.l i.r (some (M - 1)) [] (i.kick :: i.back) 0 = some (pb, false, ub)) :
    Moves.shoot v i = .ok {
      accept := false, status := if pb.length + 1 ≥ i.maxlength then .BTX else .BTL,
      trial := (appendAll (some i.maxlength) [] pb).1,
      genSp := i.kick, genIdx := i.idx, genNb := 0, timeOrigin := i.oldTimeOrigin + i.idx,
      draws := .integers 1 ((i.old.length : Int) - 1) :: d2, usedB := ub, usedF := 0 } := by
  unfold Moves.shoot
  simp only [h1, h2, hk, hd, hfb, and_self, not_true_eq_false, reduceIte]

theorem shoot_BWI (h1 : 1 < (i.old.length : Int) - 1)
    (h2 : 1 ≤ i.idx ∧ (i.idx : Int) < (i.old.length : Int) - 1) (hk : i.l ≤ i.kick ∧ i.kick < i.r)
    (M : Nat) (d2 : List Moves.Draw) (hd : Moves.drawMaxlen i = .ok (M, d2))
    (pb : List Int) (ub : Nat)
    (hfb : feedV v i.l i.r (some (M - 1)) [] (i.kick :: i.back) 0 = some (pb, true, ub))
    (hlr : ¬ i.r < i.l) (en : Int) (hlast : pb.getLast? = some en)
    (hside : sideIn (WF.endPoint i.l i.r en) i.sc = false) :
    Moves.shoot v i = .ok {
      accept := false, status := .BWI,
      trial := (appendAll (some i.maxlength) [] pb).1,
      genSp := i.kick, genIdx := i.idx, genNb := 0, timeOrigin := i.oldTimeOrigin + i.idx,
      draws := .integers 1 ((i.old.length : Int) - 1) :: d2, usedB := ub, usedF := 0 } := by
  unfold Moves.shoot
  simp only [h1, h2, hk, hd, hfb, hlr, hlast, hside, and_self, not_true_eq_false, reduceIte, Bool.true_eq_false]

theorem shoot_Ffail (h1 : 1 < (i.old.length : Int) - 1)
    (h2 : 1 ≤ i.idx ∧ (i.idx : Int) < (i.old.length : Int) - 1) (hk : i.l ≤ i.kick ∧ i.kick < i.r)
    (M : Nat) (d2 : List Moves.Draw) (hd : Moves.drawMaxlen i = .ok (M, d2))
    (pb : List Int) (ub : Nat)
    (hfb : feedV v i.l i.r (some (M - 1)) [] (i.kick :: i.back) 0 = some (pb, true, ub))
    (hlr : ¬ i.r < i.l) (en : Int) (hlast : pb.getLast? = some en)
    (hside : sideIn (WF.endPoint i.l i.r en) i.sc = true)
    (pf : List Int) (uf : Nat)
    (hff : feedV v i.l i.r (some (M - pb.length + 1)) [] (i.kick :: i.forw) 0 = some (pf, false, uf)) :
    Moves.shoot v i = .ok {
      accept := false,
      status := if (paste pb pf i.maxlength).length = i.maxlength then .FTX else .FTL,
      trial := paste pb pf i.maxlength,
      genSp := i.kick, genIdx := i.idx, genNb := pb.length - 1,
      timeOrigin := i.oldTimeOrigin + i.idx - pb.length + 1,
      draws := .integers 1 ((i.old.length : Int) - 1) :: d2, usedB := ub, usedF := uf } := by
  unfold Moves.shoot
  simp only [h1, h2, hk, hd, hfb, hlr, hlast, hside, hff, and_self, not_true_eq_false, reduceIte, Bool.true_eq_false]

theorem shoot_final (h1 : 1 < (i.old.length : Int) - 1)
    (h2 : 1 ≤ i.idx ∧ (i.idx : Int) < (i.old.length : Int) - 1) (hk : i.l ≤ i.kick ∧ i.kick < i.r)
    (M : Nat) (d2 : List Moves.Draw) (hd : Moves.drawMaxlen i = .ok (M, d2))
    (pb : List Int) (ub : Nat)
    (hfb : feedV v i.l i.r (some (M - 1)) [] (i.kick :: i.back) 0 = some (pb, true, ub))
    (hlr : ¬ i.r < i.l) (en : Int) (hlast : pb.getLast? = some en)
    (hside : sideIn (WF.endPoint i.l i.r en) i.sc = true)
    (pf : List Int) (uf : Nat)
    (hff : feedV v i.l i.r (some (M - pb.length + 1)) [] (i.kick :: i.forw) 0 = some (pf, true, uf)) :
    Moves.shoot v i = .ok {
      accept := (finalChecks i (paste pb pf i.maxlength)).1,
      status := (finalChecks i (paste pb pf i.maxlength)).2,
      trial := paste pb pf i.maxlength,
      genSp := i.kick, genIdx := i.idx, genNb := pb.length - 1,
      timeOrigin := i.oldTimeOrigin + i.idx - pb.length + 1,
      draws := .integers 1 ((i.old.length : Int) - 1) :: d2, usedB := ub, usedF := uf } := by
  unfold Moves.shoot
  simp only [h1, h2, hk, hd, hfb, hlr, hlast, hside, hff, and_self, not_true_eq_false, reduceIte, Bool.true_eq_false]

end generic

/-! ### the lattice instance -/

/-- the input `latShootRef` hands to the generic model -/
def refIn (e : Ens) (old : List Int) (ld : Bool) (idx : Nat) (xi : Rat) (cb cf : List Bool) : Moves.ShootIn :=
  { old := old.map (2 * ·), oldTimeOrigin := 0, genLd := ld, l := 1, m := 2 * e.mid - 1, r := 2 * e.top - 1,
    maxlength := e.maxlength, allowMax := false, sc := { hasL := true, hasR := false },
    scEns := some { hasL := true, hasR := false },
    idx := idx, xi := xi, kick := 2 * old.getD idx 0, back := (walk (old.getD idx 0) cb).map (2 * ·),
    forw := (walk (old.getD idx 0) cf).map (2 * ·) }

theorem latShootRef_eq (e : Ens) (old : List Int) (ld : Bool) (idx : Nat) (xi : Rat) (cb cf : List Bool) :
    latShootRef e old ld idx xi cb cf = Moves.shoot .repaired (refIn e old ld idx xi cb cf) := rfl

/-- the status strings are the same strings -/
def statusRef : LatticeMoves.Status → Moves.Status
  | .ACC => .ACC | .KOB => .KOB | .BTL => .BTL | .BTX => .BTX | .BWI => .BWI
  | .FTL => .FTL | .FTX => .FTX | .NCR => .NCR

/-- what the generic model returns when the lattice move returns `o`: doubled frames, the same flags, the
    shooting point's index and order value, `time_origin = idx − frames before the shooting point`, the draw
    requests, and the engine counters (frames handed to `add_to_path` = coins + 1 where that propagation ran). -/
def refOut (old : List Int) (ld : Bool) (idx : Nat) (o : Out) : Moves.ShootOut :=
  { accept := o.accept, status := statusRef o.status, trial := o.trial.map (2 * ·),
    genSp := 2 * old.getD idx 0, genIdx := idx, genNb := o.genNb,
    timeOrigin := (idx : Int) - (o.genNb : Int),
    draws := .integers 1 ((old.length : Int) - 1) :: (if o.status = .KOB ∨ ld = true then [] else [.random]),
    usedB := if o.status = .KOB then 0 else o.usedB + 1,
    usedF := if o.status = .KOB ∨ o.status = .BTL ∨ o.status = .BTX ∨ o.status = .BWI then 0 else o.usedF + 1 }

theorem maxlenOf_le' (e : Ens) (L : Nat) (ld : Bool) (xi : Rat) : maxlenOf e L ld xi ≤ e.maxlength := by
  unfold maxlenOf; split
  · exact Nat.le_refl _
  · exact Nat.min_le_right _ _

theorem two_le_maxlenOf (e : Ens) (L : Nat) (ld : Bool) (xi : Rat) (h : 2 ≤ e.maxlength) : 2 ≤ maxlenOf e L ld xi := by
  unfold maxlenOf; split
  · exact h
  · exact Nat.le_min.2 ⟨by omega, h⟩

theorem drawMaxlen_refIn (e : Ens) (old : List Int) (ld : Bool) (idx : Nat) (xi : Rat) (cb cf : List Bool)
    (hxi1 : ¬ (ld = false ∧ xi < 0)) (hxi2 : ¬ (ld = false ∧ xi = 0)) :
    Moves.drawMaxlen (refIn e old ld idx xi cb cf)
      = .ok (maxlenOf e old.length ld xi, if ld = true then [] else [.random]) := by
  unfold Moves.drawMaxlen maxlenOf
  simp only [refIn, List.length_map, Bool.or_false]
  cases ld <;> simp_all

theorem feedV_prop_nil (top : Int) (cap : Nat) (hcap : 1 ≤ cap) (x : Int) (coins : List Bool)
    (fr : List Int) (ok : Bool) (k : Nat) (h : prop top cap x coins = some (fr, ok, k)) :
    feedV .repaired 1 (2 * top - 1) (some cap) [] (2 * x :: (walk x coins).map (2 * ·)) 0
      = some (fr.map (2 * ·), ok, k + 1) := by
  obtain ⟨c, rfl⟩ : ∃ c, cap = c + 1 := ⟨cap - 1, by omega⟩
  have := feedV_prop top c x coins [] 0 fr ok k h
  simpa using this

theorem sideIn_ref (top last : Int) :
    sideIn (WF.endPoint 1 (2 * top - 1) (2 * last)) { hasL := true, hasR := false } = decide (last ≤ 0) := by
  unfold WF.endPoint
  by_cases h : last ≤ 0
  · have h' : 2 * last ≤ 1 := by omega
    simp [h', h, sideIn]
  · have h' : ¬ 2 * last ≤ 1 := by omega
    simp only [h', if_false]
    split <;> simp [sideIn, h]

theorem finalChecks_refIn (e : Ens) (old : List Int) (ld : Bool) (idx : Nat) (xi : Rat) (cb cf : List Bool)
    (p : List Int) :
    finalChecks (refIn e old ld idx xi cb cf) (p.map (2 * ·))
      = (crossMid e p, if crossMid e p = true then Moves.Status.ACC else Moves.Status.NCR) := by
  unfold finalChecks
  simp only [refIn, effSc, crossMid_ref]
  cases crossMid e p <;> simp

theorem paste_map (pb pf : List Int) (m : Nat) :
    paste (pb.map (2 * ·)) (pf.map (2 * ·)) m = ((pb.reverse ++ pf.tail).take m).map (2 * ·) := by
  rw [paste_eq_take]
  simp [List.map_reverse, List.map_tail, List.map_take]

/-- **The lattice move is the generic move on the lattice streams.**  Whenever `latShoot` returns a result, the
    generic model of C09 fed with the doubled lattice streams returns the corresponding result, field by field —
    provided a path may hold two frames (`maxlength ≥ 2`), which only matters when the shooting point passed
    `check_kick`. -/
theorem latShootRef_of_ok' (e : Ens) (old : List Int) (ld : Bool) (idx : Nat) (xi : Rat) (cb cf : List Bool) (o : Out)
    (hML : o.status ≠ .KOB → 2 ≤ e.maxlength)
    (h : latShoot e old ld idx xi cb cf = .ok o) :
    latShootRef e old ld idx xi cb cf = .ok (refOut old ld idx o) := by
  unfold latShoot at h
  split at h
  · cases h
  rename_i hlen
  split at h
  · cases h
  rename_i hidx
  split at h
  · cases h
  rename_i x hx
  have hlen' : 2 < old.length := Decidable.not_not.1 hlen
  have hidx' : 1 ≤ idx ∧ idx + 1 < old.length := Decidable.not_not.1 hidx
  have hgd : old.getD idx 0 = x := by simp [List.getD, hx]
  have h1 : 1 < ((refIn e old ld idx xi cb cf).old.length : Int) - 1 := by
    show 1 < (((old.map (2 * ·)).length : Nat) : Int) - 1
    rw [List.length_map]; omega
  have h2 : 1 ≤ (refIn e old ld idx xi cb cf).idx ∧
      ((refIn e old ld idx xi cb cf).idx : Int) < ((refIn e old ld idx xi cb cf).old.length : Int) - 1 := by
    show 1 ≤ idx ∧ (idx : Int) < (((old.map (2 * ·)).length : Nat) : Int) - 1
    rw [List.length_map]; omega
  rw [latShootRef_eq]
  split at h
  · -- KOB
    rename_i hin
    cases h
    have hk : ¬ ((refIn e old ld idx xi cb cf).l ≤ (refIn e old ld idx xi cb cf).kick ∧
        (refIn e old ld idx xi cb cf).kick < (refIn e old ld idx xi cb cf).r) := by
      show ¬ (1 ≤ 2 * old.getD idx 0 ∧ 2 * old.getD idx 0 < 2 * e.top - 1)
      rw [hgd]; omega
    rw [shoot_KOB _ _ h1 h2 hk]
    by_cases h0 : 0 < e.maxlength <;> simp [refOut, refIn, statusRef, pathAppend, hx, h0]
  rename_i hin
  have hin' : 0 < x ∧ x < e.top := Decidable.not_not.1 hin
  have hk : (refIn e old ld idx xi cb cf).l ≤ (refIn e old ld idx xi cb cf).kick ∧
      (refIn e old ld idx xi cb cf).kick < (refIn e old ld idx xi cb cf).r := by
    show 1 ≤ 2 * old.getD idx 0 ∧ 2 * old.getD idx 0 < 2 * e.top - 1
    rw [hgd]; omega
  have hlr : ¬ (refIn e old ld idx xi cb cf).r < (refIn e old ld idx xi cb cf).l := by
    show ¬ (2 * e.top - 1 < 1)
    omega
  split at h
  · cases h
  rename_i hxi1
  split at h
  · cases h
  rename_i hxi2
  simp only at h
  have hd := drawMaxlen_refIn e old ld idx xi cb cf hxi1 hxi2
  split at h
  · cases h
  rename_i pb okB kb hb
  have hfb : 2 ≤ e.maxlength →
      feedV .repaired (refIn e old ld idx xi cb cf).l (refIn e old ld idx xi cb cf).r
        (some (maxlenOf e old.length ld xi - 1)) []
        ((refIn e old ld idx xi cb cf).kick :: (refIn e old ld idx xi cb cf).back) 0
        = some (pb.map (2 * ·), okB, kb + 1) := by
    intro hML2
    have hM2 := two_le_maxlenOf e old.length ld xi hML2
    show feedV .repaired 1 (2 * e.top - 1) (some (maxlenOf e old.length ld xi - 1)) []
      (2 * old.getD idx 0 :: (walk (old.getD idx 0) cb).map (2 * ·)) 0 = _
    rw [hgd]
    exact feedV_prop_nil e.top _ (by omega) x cb pb okB kb hb
  split at h
  · -- BTL / BTX
    rename_i hokB
    cases h
    have hML2 : 2 ≤ e.maxlength := hML (by dsimp only; split <;> simp)
    have hfb' := hfb hML2
    rw [hokB] at hfb'
    rw [shoot_Bfail _ _ h1 h2 hk _ _ hd _ _ hfb']
    by_cases hc : pb.length + 1 ≥ e.maxlength <;> cases ld <;>
      simp [refOut, refIn, statusRef, appendAll_nil_fst, List.map_take, hc]
  rename_i hokB
  have hokB' : okB = true := by cases okB <;> simp_all
  subst hokB'
  split at h
  · cases h
  rename_i last hlast
  have hlast' : (pb.map (2 * ·)).getLast? = some (2 * last) := by simp [List.getLast?_map, hlast]
  have hpl : 1 ≤ pb.length := by cases pb <;> simp_all
  split at h
  · -- BWI
    rename_i hl0
    cases h
    have hML2 : 2 ≤ e.maxlength := hML (by simp)
    have hside : sideIn (WF.endPoint (refIn e old ld idx xi cb cf).l (refIn e old ld idx xi cb cf).r (2 * last))
        (refIn e old ld idx xi cb cf).sc = false := by
      show sideIn (WF.endPoint 1 (2 * e.top - 1) (2 * last)) { hasL := true, hasR := false } = false
      rw [sideIn_ref]; simpa using hl0
    rw [shoot_BWI _ _ h1 h2 hk _ _ hd _ _ (hfb hML2) hlr _ hlast' hside]
    cases ld <;> simp [refOut, refIn, statusRef, appendAll_nil_fst, List.map_take]
  rename_i hl0
  have hside : sideIn (WF.endPoint (refIn e old ld idx xi cb cf).l (refIn e old ld idx xi cb cf).r (2 * last))
      (refIn e old ld idx xi cb cf).sc = true := by
    show sideIn (WF.endPoint 1 (2 * e.top - 1) (2 * last)) { hasL := true, hasR := false } = true
    rw [sideIn_ref]; simpa using hl0
  split at h
  · cases h
  rename_i pf okF kf hf
  have hff : feedV .repaired (refIn e old ld idx xi cb cf).l (refIn e old ld idx xi cb cf).r
        (some (maxlenOf e old.length ld xi - (pb.map (2 * ·)).length + 1)) []
        ((refIn e old ld idx xi cb cf).kick :: (refIn e old ld idx xi cb cf).forw) 0
        = some (pf.map (2 * ·), okF, kf + 1) := by
    show feedV .repaired 1 (2 * e.top - 1) (some (maxlenOf e old.length ld xi - (pb.map (2 * ·)).length + 1)) []
      (2 * old.getD idx 0 :: (walk (old.getD idx 0) cf).map (2 * ·)) 0 = _
    rw [hgd, List.length_map]
    exact feedV_prop_nil e.top _ (by omega) x cf pf okF kf hf
  have hp : paste (pb.map (2 * ·)) (pf.map (2 * ·)) (refIn e old ld idx xi cb cf).maxlength
      = ((pb.reverse ++ pf.tail).take e.maxlength).map (2 * ·) := paste_map pb pf e.maxlength
  split at h
  · -- FTL / FTX
    rename_i hokF
    cases h
    have hML2 : 2 ≤ e.maxlength := hML (by dsimp only; split <;> simp)
    rw [hokF] at hff
    rw [shoot_Ffail _ _ h1 h2 hk _ _ hd _ _ (hfb hML2) hlr _ hlast' hside _ _ hff, hp]
    generalize List.take e.maxlength (pb.reverse ++ pf.tail) = T
    by_cases hc : T.length = e.maxlength <;> cases ld <;>
      simp [refOut, refIn, statusRef, hc] <;> omega
  rename_i hokF
  have hokF' : okF = true := by cases okF <;> simp_all
  subst hokF'
  split at h
  · -- NCR
    rename_i hcross
    cases h
    have hML2 : 2 ≤ e.maxlength := hML (by simp)
    rw [shoot_final _ _ h1 h2 hk _ _ hd _ _ (hfb hML2) hlr _ hlast' hside _ _ hff, hp, finalChecks_refIn]
    generalize List.take e.maxlength (pb.reverse ++ pf.tail) = T at hcross
    cases ld <;> simp [refOut, refIn, statusRef, hcross] <;> omega
  · -- ACC
    rename_i hcross
    cases h
    have hML2 : 2 ≤ e.maxlength := hML (by simp)
    rw [shoot_final _ _ h1 h2 hk _ _ hd _ _ (hfb hML2) hlr _ hlast' hside _ _ hff, hp, finalChecks_refIn]
    generalize List.take e.maxlength (pb.reverse ++ pf.tail) = T at hcross
    have hcross' : crossMid e T = true := by cases hc : crossMid e T <;> simp_all
    cases ld <;> simp [refOut, refIn, statusRef, hcross'] <;> omega

/-- the statement in the fields the driver prints and the tie compares -/
theorem latShootRef_of_ok (e : Ens) (old : List Int) (ld : Bool) (idx : Nat) (xi : Rat) (cb cf : List Bool) (o : Out)
    (hML : 2 ≤ e.maxlength) (h : latShoot e old ld idx xi cb cf = .ok o) :
    ∃ r, latShootRef e old ld idx xi cb cf = .ok r ∧ r.accept = o.accept ∧ r.status = statusRef o.status
      ∧ r.trial = o.trial.map (2 * ·) ∧ r.genNb = o.genNb
      ∧ r.usedB = (if o.status = .KOB then 0 else o.usedB + 1)
      ∧ r.usedF = (if o.status = .KOB ∨ o.status = .BTL ∨ o.status = .BTX ∨ o.status = .BWI then 0 else o.usedF + 1)
      ∧ r.genIdx = idx ∧ r.genSp = 2 * old.getD idx 0 ∧ r.timeOrigin = (idx : Int) - (o.genNb : Int)
      ∧ r.draws = .integers 1 ((old.length : Int) - 1) :: (if o.status = .KOB ∨ ld = true then [] else [.random]) :=
  ⟨refOut old ld idx o, latShootRef_of_ok' e old ld idx xi cb cf o (fun _ => hML) h,
    rfl, rfl, rfl, rfl, rfl, rfl, rfl, rfl, rfl, rfl⟩

/-! ### the errors -/

section generic
variable (v : Moves.Variant) (i : Moves.ShootIn)

/-- every way the generic model raises -/
theorem shoot_error_cases (er : Moves.Err) (h : Moves.shoot v i = .error er) :
    (er = .value ∧ ¬ (1 < (i.old.length : Int) - 1))
    ∨ (1 < (i.old.length : Int) - 1 ∧ er = .badDraw ∧ ¬ (1 ≤ i.idx ∧ (i.idx : Int) < (i.old.length : Int) - 1))
    ∨ (1 < (i.old.length : Int) - 1 ∧ (1 ≤ i.idx ∧ (i.idx : Int) < (i.old.length : Int) - 1)
        ∧ (i.l ≤ i.kick ∧ i.kick < i.r)
        ∧ (Moves.drawMaxlen i = .error er ∨ er = .index ∨ er = .assert)) := by
  by_cases h1 : 1 < (i.old.length : Int) - 1
  case neg => rw [shoot_value v i h1] at h; cases h; exact Or.inl ⟨rfl, h1⟩
  by_cases h2 : 1 ≤ i.idx ∧ (i.idx : Int) < (i.old.length : Int) - 1
  case neg => rw [shoot_idx v i h1 h2] at h; cases h; exact Or.inr (Or.inl ⟨h1, rfl, h2⟩)
  by_cases hk : i.l ≤ i.kick ∧ i.kick < i.r
  case neg => rw [shoot_KOB v i h1 h2 hk] at h; cases h
  refine Or.inr (Or.inr ⟨h1, h2, hk, ?_⟩)
  cases hd : Moves.drawMaxlen i with
  | error e' => rw [shoot_drawErr v i h1 h2 hk e' hd] at h; cases h; exact Or.inl rfl
  | ok md =>
    obtain ⟨M, d2⟩ := md
    right
    unfold Moves.shoot at h
    simp only [h1, h2, hk, hd, and_self, not_true_eq_false, reduceIte] at h
    repeat' split at h
    all_goals first | (cases h; done) | (cases h; exact Or.inl rfl) | (cases h; exact Or.inr rfl)

/-- a length limit of one frame: the backward path cannot hold the shooting point, `phasepoints[-1]` raises -/
theorem shoot_index0 (h1 : 1 < (i.old.length : Int) - 1)
    (h2 : 1 ≤ i.idx ∧ (i.idx : Int) < (i.old.length : Int) - 1) (hk : i.l ≤ i.kick ∧ i.kick < i.r)
    (M : Nat) (d2 : List Moves.Draw) (hd : Moves.drawMaxlen i = .ok (M, d2)) (hM : M - 1 = 0) :
    Moves.shoot v i = .error .index := by
  have hfb : feedV v i.l i.r (some (M - 1)) [] (i.kick :: i.back) 0 = none := by
    rw [hM]; simp [feedV, addToPathV, pathAppend]
  unfold Moves.shoot
  simp only [h1, h2, hk, hd, hfb, and_self, not_true_eq_false, reduceIte]

end generic

theorem drawMaxlen_ne_value (i : Moves.ShootIn) : Moves.drawMaxlen i ≠ .error .value := by
  unfold Moves.drawMaxlen
  split
  · simp
  split
  · simp
  split <;> simp

/-- every way the lattice move raises -/
theorem latShoot_error_cases (e : Ens) (old : List Int) (ld : Bool) (idx : Nat) (xi : Rat) (cb cf : List Bool)
    (er : LatticeMoves.Err) (h : latShoot e old ld idx xi cb cf = .error er) :
    (er = .value ∧ ¬ (2 < old.length))
    ∨ (2 < old.length ∧ er = .badDraw ∧ ¬ (1 ≤ idx ∧ idx + 1 < old.length))
    ∨ (2 < old.length ∧ (1 ≤ idx ∧ idx + 1 < old.length) ∧ (0 < old.getD idx 0 ∧ old.getD idx 0 < e.top)
        ∧ ((er = .badDraw ∧ ld = false ∧ xi < 0) ∨ (er = .zerodiv ∧ ld = false ∧ ¬ xi < 0 ∧ xi = 0)
            ∨ (er = .badDraw ∧ ¬ (ld = false ∧ xi < 0) ∧ ¬ (ld = false ∧ xi = 0)))) := by
  unfold latShoot at h
  split at h
  · rename_i h1; cases h; exact Or.inl ⟨rfl, h1⟩
  rename_i h1
  have h1' := Decidable.not_not.1 h1
  split at h
  · rename_i h2; cases h; exact Or.inr (Or.inl ⟨h1', rfl, h2⟩)
  rename_i h2
  have h2' := Decidable.not_not.1 h2
  split at h
  · rename_i hx
    have : idx < old.length := by omega
    simp at hx; omega
  rename_i x hx
  have hgd : old.getD idx 0 = x := by simp [List.getD, hx]
  split at h
  · cases h
  rename_i hin
  refine Or.inr (Or.inr ⟨h1', h2', by rw [hgd]; exact Decidable.not_not.1 hin, ?_⟩)
  split at h
  · rename_i hx1; cases h; exact Or.inl ⟨rfl, hx1⟩
  rename_i hx1
  split at h
  · rename_i hx2; cases h
    exact Or.inr (Or.inl ⟨rfl, hx2.1, fun hh => hx1 ⟨hx2.1, hh⟩, hx2.2⟩)
  rename_i hx2
  refine Or.inr (Or.inr ⟨?_, hx1, hx2⟩)
  simp only at h
  split at h
  · cases h; rfl
  split at h
  · cases h
  split at h
  · cases h; rfl
  split at h
  · cases h
  split at h
  · cases h; rfl
  split at h
  · cases h
  split at h
  · cases h
  · cases h

/-- **ValueError on the same inputs**: both models raise it exactly for an old path of at most two frames. -/
theorem latShootRef_value_iff (e : Ens) (old : List Int) (ld : Bool) (idx : Nat) (xi : Rat) (cb cf : List Bool) :
    latShoot e old ld idx xi cb cf = .error .value ↔ latShootRef e old ld idx xi cb cf = .error .value := by
  have hL : (1 < (((refIn e old ld idx xi cb cf).old.length : Nat) : Int) - 1) ↔ 2 < old.length := by
    show (1 < (((old.map (2 * ·)).length : Nat) : Int) - 1) ↔ _
    rw [List.length_map]; omega
  constructor
  · intro h
    rcases latShoot_error_cases _ _ _ _ _ _ _ _ h with ⟨_, h1⟩ | ⟨_, h1, _⟩ | ⟨_, _, _, ⟨h1, _⟩ | ⟨h1, _⟩ | ⟨h1, _⟩⟩
    · rw [latShootRef_eq]; exact shoot_value _ _ (fun hh => h1 (hL.1 hh))
    all_goals cases h1
  · intro h
    rw [latShootRef_eq] at h
    rcases shoot_error_cases _ _ _ h with ⟨_, h1⟩ | ⟨_, h1, _⟩ | ⟨_, _, _, h1 | h1 | h1⟩
    · have : ¬ (2 < old.length) := fun hh => h1 (hL.2 hh)
      unfold latShoot; simp only [this, not_false_eq_true, reduceIte]
    · cases h1
    · exact absurd h1 (drawMaxlen_ne_value _)
    · cases h1
    · cases h1

/-- **ZeroDivisionError on the same inputs** (ξ = 0 for a path that is not a load path, the shooting point
    inside): this one does not depend on `maxlength` or on the coins. -/
theorem latShootRef_zerodiv_iff (e : Ens) (old : List Int) (ld : Bool) (idx : Nat) (xi : Rat) (cb cf : List Bool) :
    latShoot e old ld idx xi cb cf = .error .zerodiv ↔ latShootRef e old ld idx xi cb cf = .error .zerodiv := by
  have hL : (1 < (((refIn e old ld idx xi cb cf).old.length : Nat) : Int) - 1) ↔ 2 < old.length := by
    show (1 < (((old.map (2 * ·)).length : Nat) : Int) - 1) ↔ _
    rw [List.length_map]; omega
  have hI : (1 ≤ (refIn e old ld idx xi cb cf).idx ∧
      ((refIn e old ld idx xi cb cf).idx : Int) < (((refIn e old ld idx xi cb cf).old.length : Nat) : Int) - 1)
      ↔ (1 ≤ idx ∧ idx + 1 < old.length) := by
    show (1 ≤ idx ∧ (idx : Int) < (((old.map (2 * ·)).length : Nat) : Int) - 1) ↔ _
    rw [List.length_map]; omega
  have hK : ((refIn e old ld idx xi cb cf).l ≤ (refIn e old ld idx xi cb cf).kick ∧
      (refIn e old ld idx xi cb cf).kick < (refIn e old ld idx xi cb cf).r)
      ↔ (0 < old.getD idx 0 ∧ old.getD idx 0 < e.top) := by
    show (1 ≤ 2 * old.getD idx 0 ∧ 2 * old.getD idx 0 < 2 * e.top - 1) ↔ _
    omega
  have hD : Moves.drawMaxlen (refIn e old ld idx xi cb cf) = .error .zerodiv ↔ (ld = false ∧ ¬ xi < 0 ∧ xi = 0) := by
    unfold Moves.drawMaxlen
    simp only [refIn, Bool.or_false]
    cases ld
    · by_cases hx1 : xi < 0
      · simp [hx1]
      · by_cases hx2 : xi = 0
        · simp [hx2]
        · simp [hx1, hx2]
    · simp
  constructor
  · intro h
    rcases latShoot_error_cases _ _ _ _ _ _ _ _ h with ⟨h1, _⟩ | ⟨_, h1, _⟩ | ⟨h1, h2, h3, ⟨h4, _⟩ | ⟨_, h4⟩ | ⟨h4, _⟩⟩
    · cases h1
    · cases h1
    · cases h4
    · rw [latShootRef_eq]; exact shoot_drawErr _ _ (hL.2 h1) (hI.2 h2) (hK.2 h3) _ (hD.2 h4)
    · cases h4
  · intro h
    rw [latShootRef_eq] at h
    rcases shoot_error_cases _ _ _ h with ⟨h1, _⟩ | ⟨_, h1, _⟩ | ⟨h1, h2, h3, h4 | h4 | h4⟩
    · cases h1
    · cases h1
    · have h1' := hL.1 h1
      have h2' := hI.1 h2
      have h3' := hK.1 h3
      obtain ⟨hld, hx1, hx2⟩ := hD.1 h4
      have hx : old[idx]? = some (old.getD idx 0) := by
        have : idx < old.length := by omega
        simp [List.getD, this]
      unfold latShoot
      simp only [h1', h2', and_self, not_true_eq_false, reduceIte, hx, h3']
      rw [if_neg (fun hh => hx1 hh.2), if_pos ⟨hld, hx2⟩]
    · cases h4
    · cases h4

/-- the `integers` outcome outside its range: both models refuse it the same way (never from numpy) -/
theorem latShootRef_badIdx (e : Ens) (old : List Int) (ld : Bool) (idx : Nat) (xi : Rat) (cb cf : List Bool)
    (hlen : 2 < old.length) (hidx : ¬ (1 ≤ idx ∧ idx + 1 < old.length)) :
    latShoot e old ld idx xi cb cf = .error .badDraw ∧ latShootRef e old ld idx xi cb cf = .error .badDraw := by
  constructor
  · unfold latShoot; simp only [hlen, hidx, not_true_eq_false, not_false_eq_true, reduceIte]
  · rw [latShootRef_eq]
    refine shoot_idx _ _ ?_ ?_
    · show 1 < (((old.map (2 * ·)).length : Nat) : Int) - 1
      rw [List.length_map]; omega
    · show ¬ (1 ≤ idx ∧ (idx : Int) < (((old.map (2 * ·)).length : Nat) : Int) - 1)
      rw [List.length_map]; omega

/-- a negative ξ (never from numpy) with the shooting point inside: both models refuse it the same way -/
theorem latShootRef_negXi (e : Ens) (old : List Int) (idx : Nat) (xi : Rat) (cb cf : List Bool)
    (hlen : 2 < old.length) (hidx : 1 ≤ idx ∧ idx + 1 < old.length)
    (hin : 0 < old.getD idx 0 ∧ old.getD idx 0 < e.top) (hxi : xi < 0) :
    latShoot e old false idx xi cb cf = .error .badDraw ∧ latShootRef e old false idx xi cb cf = .error .badDraw := by
  have hx : old[idx]? = some (old.getD idx 0) := by
    have : idx < old.length := by omega
    simp [List.getD, this]
  constructor
  · unfold latShoot
    simp only [hlen, hidx, and_self, not_true_eq_false, reduceIte, hx, hin, hxi]
  · rw [latShootRef_eq]
    refine shoot_drawErr _ _ ?_ ?_ ?_ _ ?_
    · show 1 < (((old.map (2 * ·)).length : Nat) : Int) - 1
      rw [List.length_map]; omega
    · show 1 ≤ idx ∧ (idx : Int) < (((old.map (2 * ·)).length : Nat) : Int) - 1
      rw [List.length_map]; omega
    · show 1 ≤ 2 * old.getD idx 0 ∧ 2 * old.getD idx 0 < 2 * e.top - 1
      omega
    · unfold Moves.drawMaxlen
      simp [refIn, hxi]

/-- **The hypothesis `maxlength ≥ 2` is exactly what is needed.**  With `maxlength ≤ 1` and the shooting point
    inside, the lattice move returns a result (BTX with an empty trial path) where the generic model — as the
    code — raises IndexError (`phasepoints[-1]` of a path that may hold no frame). -/
theorem latShootRef_short (e : Ens) (old : List Int) (ld : Bool) (idx : Nat) (xi : Rat) (cb cf : List Bool) (o : Out)
    (hML : e.maxlength ≤ 1) (h : latShoot e old ld idx xi cb cf = .ok o) (hne : o.status ≠ .KOB) :
    latShootRef e old ld idx xi cb cf = .error .index := by
  unfold latShoot at h
  split at h
  · cases h
  rename_i hlen
  split at h
  · cases h
  rename_i hidx
  split at h
  · cases h
  rename_i x hx
  have hlen' : 2 < old.length := Decidable.not_not.1 hlen
  have hidx' : 1 ≤ idx ∧ idx + 1 < old.length := Decidable.not_not.1 hidx
  have hgd : old.getD idx 0 = x := by simp [List.getD, hx]
  have h1 : 1 < ((refIn e old ld idx xi cb cf).old.length : Int) - 1 := by
    show 1 < (((old.map (2 * ·)).length : Nat) : Int) - 1
    rw [List.length_map]; omega
  have h2 : 1 ≤ (refIn e old ld idx xi cb cf).idx ∧
      ((refIn e old ld idx xi cb cf).idx : Int) < ((refIn e old ld idx xi cb cf).old.length : Int) - 1 := by
    show 1 ≤ idx ∧ (idx : Int) < (((old.map (2 * ·)).length : Nat) : Int) - 1
    rw [List.length_map]; omega
  rw [latShootRef_eq]
  split at h
  · cases h; simp at hne
  rename_i hin
  have hin' : 0 < x ∧ x < e.top := Decidable.not_not.1 hin
  have hk : (refIn e old ld idx xi cb cf).l ≤ (refIn e old ld idx xi cb cf).kick ∧
      (refIn e old ld idx xi cb cf).kick < (refIn e old ld idx xi cb cf).r := by
    show 1 ≤ 2 * old.getD idx 0 ∧ 2 * old.getD idx 0 < 2 * e.top - 1
    rw [hgd]; omega
  split at h
  · cases h
  rename_i hxi1
  split at h
  · cases h
  rename_i hxi2
  have hd := drawMaxlen_refIn e old ld idx xi cb cf hxi1 hxi2
  have hM := maxlenOf_le' e old.length ld xi
  exact shoot_index0 _ _ h1 h2 hk _ _ hd (by omega)

/-- **All outcomes at once** (`maxlength ≥ 2`): the generic model on the lattice streams follows the lattice move in
    every outcome except the scripted-coins-ran-out / negative-ξ refusals (`badDraw`, never from numpy), where the two
    are compared by `latShootRef_badIdx`, `latShootRef_negXi` and `latShootRef_counterexample_coins`. -/
theorem latShootRef_total (e : Ens) (old : List Int) (ld : Bool) (idx : Nat) (xi : Rat) (cb cf : List Bool)
    (hML : 2 ≤ e.maxlength) :
    match latShoot e old ld idx xi cb cf with
    | .ok o => latShootRef e old ld idx xi cb cf = .ok (refOut old ld idx o)
    | .error .value => latShootRef e old ld idx xi cb cf = .error .value
    | .error .zerodiv => latShootRef e old ld idx xi cb cf = .error .zerodiv
    | .error .badDraw => True := by
  cases h : latShoot e old ld idx xi cb cf with
  | ok o => exact latShootRef_of_ok' e old ld idx xi cb cf o (fun _ => hML) h
  | error er =>
    cases er with
    | value => exact (latShootRef_value_iff e old ld idx xi cb cf).1 h
    | badDraw => trivial
    | zerodiv => exact (latShootRef_zerodiv_iff e old ld idx xi cb cf).1 h

/-! ### witnesses for the two differences -/

/-- (b) `maxlength = 1`: the lattice move answers BTX with an empty trial path, the generic model raises IndexError -/
theorem latShootRef_counterexample_maxlength1 :
    latShoot ⟨1, 2, 1⟩ [0, 1, 0] true 1 0 [] [] =
      .ok { accept := false, status := .BTX, trial := [], genNb := 0, maxlen := 1, usedB := 0, usedF := 0 }
    ∧ latShootRef ⟨1, 2, 1⟩ [0, 1, 0] true 1 0 [] [] = .error .index := by
  constructor <;> rfl

/-- (a) scripted coins that run out: the lattice move refuses the script (`badDraw`), the generic model's engine
    loop ends without a stop and the move is a BTL rejection -/
theorem latShootRef_counterexample_coins :
    latShoot ⟨1, 3, 10⟩ [0, 1, 0] true 1 0 [] [] = .error .badDraw
    ∧ latShootRef ⟨1, 3, 10⟩ [0, 1, 0] true 1 0 [] [] =
      .ok { accept := false, status := .BTL, trial := [2], genSp := 2, genIdx := 1, genNb := 0, timeOrigin := 1,
            draws := [.integers 1 2], usedB := 1, usedF := 0 } := by
  constructor <;> rfl

/-- non-vacuity: an accepted move, both sides -/
example :
    latShoot ⟨1, 2, 10⟩ [0, 1, 2] true 1 0 [false] [true] =
      .ok { accept := true, status := .ACC, trial := [0, 1, 2], genNb := 1, maxlen := 10, usedB := 1, usedF := 1 }
    ∧ latShootRef ⟨1, 2, 10⟩ [0, 1, 2] true 1 0 [false] [true] =
      .ok { accept := true, status := .ACC, trial := [0, 2, 4], genSp := 2, genIdx := 1, genNb := 1, timeOrigin := 0,
            draws := [.integers 1 2], usedB := 2, usedF := 2 } := by
  constructor <;> rfl

end Infretis.LatticeMoves
