import Infretis.Lemmas.LatticeMovesProp
import Mathlib.Algebra.Order.Field.Rat
import Mathlib.Data.Rat.Floor
import Mathlib.Tactic.Linarith
/-!
Helper lemmas for C01: the whole shooting move `latShoot` against segments, and the length rule as an
inequality in ξ.
-/
namespace Infretis.LatticeMoves

theorem maxlenOf_le (e : Ens) (L : Nat) (ld : Bool) (xi : Rat) : maxlenOf e L ld xi ≤ e.maxlength := by
  unfold maxlenOf; split
  · exact Nat.le_refl _
  · exact Nat.min_le_right _ _

theorem getLast?_cons_of_getLast? {α : Type} (x : α) : ∀ (l : List α) (a : α), l.getLast? = some a → (x :: l).getLast? = some a
  | [], _, h => by simp at h
  | y :: t, a, h => by simpa [List.getLast?_cons_cons] using h

/-- **The move generates exactly the path its coins spell.** -/
theorem latShoot_generates (e : Ens) (old : List Int) (ld : Bool) (idx : Nat) (xi : Rat) (x last : Int)
    (pre post : List Int) (eb ef : List Bool)
    (hlen : 2 < old.length) (hidx : 1 ≤ idx ∧ idx + 1 < old.length) (hx : old[idx]? = some x)
    (hin : 0 < x ∧ x < e.top) (hxi : ld = true ∨ 0 < xi)
    (hpre : Seg e.top x pre) (hlast : pre.getLast? = some last) (hl0 : last ≤ 0)
    (hpost : Seg e.top x post)
    (hfit : pre.length + 1 + post.length ≤ maxlenOf e old.length ld xi) :
    latShoot e old ld idx xi (coinsOf x pre ++ eb) (coinsOf x post ++ ef) =
      .ok { accept := crossMid e (pre.reverse ++ x :: post),
            status := if crossMid e (pre.reverse ++ x :: post) = true then .ACC else .NCR,
            trial := pre.reverse ++ x :: post, genNb := pre.length,
            maxlen := maxlenOf e old.length ld xi, usedB := pre.length, usedF := post.length } := by
  have hM := maxlenOf_le e old.length ld xi
  have hp1 := seg_length_pos _ _ _ hpre
  have hp2 := seg_length_pos _ _ _ hpost
  have hb := prop_seg e.top pre (maxlenOf e old.length ld xi - 1) x eb hin.1 hin.2 hpre (by omega)
  have hf := prop_seg e.top post (maxlenOf e old.length ld xi - (x :: pre).length + 1) x ef hin.1 hin.2 hpost
    (by simp only [List.length_cons]; omega)
  have hxi1 : ¬ (ld = false ∧ xi < 0) := by
    rintro ⟨h1, h2⟩; rcases hxi with h | h
    · simp [h] at h1
    · exact absurd h2 (not_lt.2 (le_of_lt h))
  have hxi2 : ¬ (ld = false ∧ xi = 0) := by
    rintro ⟨h1, h2⟩; rcases hxi with h | h
    · simp [h] at h1
    · exact absurd h2 (ne_of_gt h)
  have hlast' := getLast?_cons_of_getLast? x pre last hlast
  have hnl : ¬ ¬ last ≤ 0 := not_not.2 hl0
  have htake : ((x :: pre).reverse ++ (x :: post).tail).take e.maxlength = pre.reverse ++ x :: post := by
    rw [List.take_of_length_le]
    · simp
    · simp; omega
  unfold latShoot
  simp only [hlen, not_true, if_false, hidx, and_self, hx, hin, hxi1, hxi2, hb, hlast', hnl, hf, htake]
  cases hc : crossMid e (pre.reverse ++ x :: post) <;> simp

/-- **Nothing else is accepted.** -/
theorem latShoot_acc_sound (e : Ens) (old : List Int) (ld : Bool) (idx : Nat) (xi : Rat) (cb cf : List Bool) (o : Out)
    (h : latShoot e old ld idx xi cb cf = .ok o) (hacc : o.accept = true) :
    ∃ x last pre post, old[idx]? = some x ∧ (1 ≤ idx ∧ idx + 1 < old.length) ∧ (0 < x ∧ x < e.top)
      ∧ Seg e.top x pre ∧ pre.getLast? = some last ∧ last ≤ 0 ∧ Seg e.top x post
      ∧ o.trial = pre.reverse ++ x :: post
      ∧ pre.length + 1 + post.length ≤ maxlenOf e old.length ld xi
      ∧ crossMid e o.trial = true
      ∧ cb.take pre.length = coinsOf x pre ∧ cf.take post.length = coinsOf x post
      ∧ o.status = .ACC ∧ o.genNb = pre.length ∧ o.usedB = pre.length ∧ o.usedF = post.length
      ∧ o.maxlen = maxlenOf e old.length ld xi ∧ (ld = true ∨ 0 < xi) := by
  unfold latShoot at h
  split at h
  · cases h
  split at h
  · cases h
  rename_i hidx
  split at h
  · cases h
  rename_i x hx
  split at h
  · cases h; simp at hacc
  rename_i hin
  split at h
  · cases h
  rename_i hxi1
  split at h
  · cases h
  rename_i hxi2
  simp only at h
  split at h
  · cases h
  rename_i pb okB kb hb
  split at h
  · cases h; simp at hacc
  rename_i hokB
  split at h
  · cases h
  rename_i last hlast
  split at h
  · cases h; simp at hacc
  rename_i hl0
  split at h
  · cases h
  rename_i pf okF kf hf
  split at h
  · cases h; simp at hacc
  rename_i hokF
  split at h
  · cases h; simp at hacc
  rename_i hcross
  cases h
  have hin' : 0 < x ∧ x < e.top := not_not.1 hin
  have hokB' : okB = true := by cases okB <;> simp_all
  have hokF' : okF = true := by cases okF <;> simp_all
  subst hokB' hokF'
  obtain ⟨pre, rfl, hpre, rfl, htb, hlb⟩ := prop_success e.top _ x cb pb kb hin'.1 hin'.2 hb
  obtain ⟨post, rfl, hpost, rfl, htf, hlf⟩ := prop_success e.top _ x cf pf kf hin'.1 hin'.2 hf
  have hp1 := seg_length_pos _ _ _ hpre
  have hM := maxlenOf_le e old.length ld xi
  have hfit : pre.length + 1 + post.length ≤ maxlenOf e old.length ld xi := by
    simp only [List.length_cons] at hlf hlb; omega
  have htake : ((x :: pre).reverse ++ (x :: post).tail).take e.maxlength = pre.reverse ++ x :: post := by
    rw [List.take_of_length_le]
    · simp
    · simp; omega
  have hlast' : pre.getLast? = some last := by
    cases pre with
    | nil => simp at hp1
    | cons y t => simpa [List.getLast?_cons_cons] using hlast
  refine ⟨x, last, pre, post, hx, not_not.1 hidx, hin', hpre, hlast', not_not.1 hl0, hpost, htake, hfit, ?_, htb, htf,
    rfl, by simp, rfl, rfl, rfl, ?_⟩
  · simp only at hcross ⊢
    cases hc : crossMid e (List.take e.maxlength ((x :: pre).reverse ++ (x :: post).tail)) <;> simp_all
  · cases ld with
    | true => exact Or.inl rfl
    | false =>
      right
      have h1 : ¬ xi < 0 := fun hh => hxi1 ⟨rfl, hh⟩
      have h2 : ¬ xi = 0 := fun hh => hxi2 ⟨rfl, hh⟩
      exact lt_of_le_of_ne (not_lt.1 h1) (Ne.symm h2)

/-- **The length rule as an inequality in ξ.**  `L_new ≤ min(int((L_old−2)/ξ) + 2, maxlength)` holds iff the new path
    fits `maxlength` and ξ·(L_new − 2) ≤ L_old − 2, i.e. ξ ≤ n_old/n_new: over ξ ~ U[0,1) the move keeps a completed
    trial with probability min(1, n_old/n_new). -/
theorem fits_iff_xi (e : Ens) (a b : Nat) (xi : Rat) (hxi : 0 < xi) :
    b + 2 ≤ maxlenOf e (a + 2) false xi ↔ b + 2 ≤ e.maxlength ∧ xi * (b : Rat) ≤ (a : Rat) := by
  unfold maxlenOf
  simp only [Bool.false_eq_true, if_false]
  have hcast : (((((a + 2 : Nat) : Int) - 2 : Int) : Rat)) = (a : Rat) := by push_cast; ring
  rw [hcast]
  have hq : (0 : Rat) ≤ (a : Rat) / xi := div_nonneg (by exact_mod_cast Nat.zero_le a) (le_of_lt hxi)
  have hfl : 0 ≤ ((a : Rat) / xi).floor := Rat.le_floor_iff.2 (by simpa using hq)
  have key : b ≤ (((a : Rat) / xi).floor).toNat ↔ xi * (b : Rat) ≤ (a : Rat) := by
    rw [Int.le_toNat hfl, Rat.le_floor_iff, le_div_iff₀ hxi]
    push_cast
    constructor <;> intro h <;> linarith [mul_comm xi (b : Rat)]
  constructor
  · intro h
    have h' := Nat.le_min.1 h
    exact ⟨h'.2, key.1 (by omega)⟩
  · rintro ⟨h1, h2⟩
    exact Nat.le_min.2 ⟨by have := key.2 h2; omega, h1⟩

end Infretis.LatticeMoves
