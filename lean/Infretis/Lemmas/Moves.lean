import Infretis.Model.Moves
/-! Helper lemmas for C09: `add_to_path` step behaviour, the engine loop `feedV`
    (forward characterisation, inversion, uniqueness of the first exit), `paste`, min/max. -/
namespace Infretis.Moves
open Infretis.Engine

def isRep : Variant → Bool
  | .asIs => false
  | .repaired => true

/-! ### the variant model is the shared model for `repaired` (the code since /repo f955162) -/

theorem addToPathV_repaired (ops : List Int) (ml : Option Nat) (x l r : Int) :
    addToPathV .repaired ops ml x l r = addToPath ops ml x l r := by
  unfold addToPathV addToPath
  simp only [Bool.not_eq_eq_eq_not, Bool.not_true]
  cases (pathAppend ops ml x).fst.getLast? <;> rfl

theorem feedV_repaired (l r : Int) (ml : Option Nat) (s : List Int) : ∀ (ops : List Int) (k : Nat),
    feedV .repaired l r ml ops s k = feed l r ml ops s k := by
  induction s with
  | nil => intro ops k; simp [feedV, feed]
  | cons x t ih =>
    intro ops k
    simp only [feedV, feed, addToPathV_repaired]
    cases h : addToPath ops ml x l r with
    | none => rfl
    | some p => simp only [ih]

/-! ### one step of `add_to_path` -/

/-- the append is accepted: the frame is added; stop iff it is outside or the path is now full;
    success iff outside and (as-is) the path is not full now -/
theorem addToPathV_app (v : Variant) (ops : List Int) (M : Nat) (x l r : Int) (h : ops.length < M) :
    ∃ res, addToPathV v ops (some M) x l r = some (ops ++ [x], res) ∧
      res.stop = (decide (x < l ∨ r < x) || decide (ops.length + 1 = M)) ∧
      res.success = (decide (x < l ∨ r < x) && (decide (ops.length + 1 ≠ M) || isRep v)) := by
  unfold addToPathV
  simp only [pathAppend, h, if_true, List.getLast?_append, List.getLast?_singleton, Option.some_or,
    List.length_append, List.length_singleton]
  by_cases h1 : x < l <;> by_cases h2 : x > r <;> by_cases h3 : M = ops.length + 1 <;> cases v <;>
    simp [h1, h2, h3, isRep] <;> omega

theorem addToPathV_empty_zero (v : Variant) (x l r : Int) :
    addToPathV v [] (some 0) x l r = none := by
  simp [addToPathV, pathAppend]

/-! ### the engine loop -/

/-- forward: a stream whose first value outside `[l, r]` comes after `pre` is played up to and
    including that value when it fits; success unless (as-is) it exactly fills the path -/
theorem feedV_exit (v : Variant) (l r : Int) (M : Nat) (x : Int) (rest : List Int) (hx : x < l ∨ r < x) :
    ∀ (pre ops : List Int) (k : Nat), (∀ y ∈ pre, l ≤ y ∧ y ≤ r) → ops.length + pre.length + 1 ≤ M →
      feedV v l r (some M) ops (pre ++ x :: rest) k
        = some (ops ++ pre ++ [x], decide (ops.length + pre.length + 1 ≠ M) || isRep v, k + pre.length + 1) := by
  intro pre
  induction pre with
  | nil =>
    intro ops k _ hM
    obtain ⟨res, he, hstop, hsucc⟩ := addToPathV_app v ops M x l r (by simp at hM; omega)
    simp only [List.nil_append, feedV, he]
    have : res.stop = true := by simp [hstop, hx]
    simp only [this, if_true, hsucc, hx, decide_true, Bool.true_and, List.length_nil, Nat.add_zero,
      List.append_nil]
  | cons y pre ih =>
    intro ops k hin hM
    simp only [List.length_cons] at hM
    obtain ⟨res, he, hstop, _⟩ := addToPathV_app v ops M y l r (by omega)
    have hy := hin y (by simp)
    have : res.stop = false := by
      rw [hstop]
      have h1 : ¬ (y < l ∨ r < y) := by omega
      have h2 : ¬ (ops.length + 1 = M) := by omega
      simp [h1, h2]
    simp only [List.cons_append, feedV, he, this]
    have := ih (ops ++ [y]) (k + 1) (fun z hz => hin z (by simp [hz])) (by simp; omega)
    simp only [Bool.false_eq_true, if_false]
    rw [this]
    simp only [List.length_append, List.append_assoc, List.singleton_append,
      List.length_cons, List.length_nil]
    have e1 : ops.length + (0 + 1) + pre.length + 1 = ops.length + (pre.length + 1) + 1 := by omega
    have e2 : k + 1 + pre.length + 1 = k + (pre.length + 1) + 1 := by omega
    rw [e1, e2]

/-- inversion: the loop reports success only for a stream whose first outside value was reached
    within the limit; every earlier frame is inside; as-is the path is then not full -/
theorem feedV_inv (v : Variant) (l r : Int) (M : Nat) (s : List Int) :
    ∀ (ops : List Int) (k : Nat) (p : List Int) (u : Nat), ops.length < M →
      feedV v l r (some M) ops s k = some (p, true, u) →
      ∃ pre x rest, s = pre ++ x :: rest ∧ p = ops ++ pre ++ [x] ∧ (∀ y ∈ pre, l ≤ y ∧ y ≤ r) ∧
        (x < l ∨ r < x) ∧ u = k + pre.length + 1 ∧ p.length ≤ M ∧ (v = .asIs → p.length < M) := by
  induction s with
  | nil => intro ops k p u _ h; simp [feedV] at h
  | cons y t ih =>
    intro ops k p u hlt h
    obtain ⟨res, he, hstop, hsucc⟩ := addToPathV_app v ops M y l r hlt
    simp only [feedV, he] at h
    by_cases hs : res.stop = true
    · simp only [hs, if_true, Option.some.injEq, Prod.mk.injEq] at h
      obtain ⟨hp, hsu, hu⟩ := h
      rw [hsucc] at hsu
      simp only [Bool.and_eq_true, decide_eq_true_eq, Bool.or_eq_true] at hsu
      refine ⟨[], y, t, rfl, by simp [hp], by simp, hsu.1, by simp; omega, ?_, ?_⟩
      · rw [← hp]; simp; omega
      · intro hv
        rw [← hp]
        cases hsu.2 with
        | inl h1 => simp; omega
        | inr h1 => subst hv; simp [isRep] at h1
    · simp only [hs] at h
      rw [hstop] at hs
      simp only [Bool.or_eq_true, decide_eq_true_eq, not_or] at hs
      obtain ⟨pre, x, rest, hs1, hp, hin, hx, hu, hlen, hv⟩ :=
        ih (ops ++ [y]) (k + 1) p u (by simp; omega) h
      refine ⟨y :: pre, x, rest, by simp [hs1], by simp [hp], ?_, hx, by simp; omega, hlen, hv⟩
      intro z hz
      simp only [List.mem_cons] at hz
      cases hz with
      | inl h1 => subst h1; omega
      | inr h1 => exact hin z h1

/-- a failed start on a zero-length path is the IndexError -/
theorem feedV_zero (v : Variant) (l r : Int) (x : Int) (t : List Int) (k : Nat) :
    feedV v l r (some 0) [] (x :: t) k = none := by
  simp [feedV, addToPathV_empty_zero]

/-- the first exit of a stream is unique -/
theorem first_exit_unique (l r : Int) : ∀ (pre pre' : List Int) (x x' : Int) (rest rest' : List Int),
    pre ++ x :: rest = pre' ++ x' :: rest' →
    (∀ y ∈ pre, l ≤ y ∧ y ≤ r) → (∀ y ∈ pre', l ≤ y ∧ y ≤ r) → (x < l ∨ r < x) → (x' < l ∨ r < x') →
    pre = pre' ∧ x = x' := by
  intro pre
  induction pre with
  | nil =>
    intro pre' x x' rest rest' h _ hin' hx _
    cases pre' with
    | nil => simp at h; exact ⟨rfl, h.1⟩
    | cons z pre' =>
      simp at h
      have := hin' z (by simp)
      omega
  | cons y pre ih =>
    intro pre' x x' rest rest' h hin hin' hx hx'
    cases pre' with
    | nil =>
      simp at h
      have := hin y (by simp)
      omega
    | cons z pre' =>
      simp only [List.cons_append, List.cons.injEq] at h
      obtain ⟨h1, h2⟩ := ih pre' x x' rest rest' h.2 (fun w hw => hin w (by simp [hw]))
        (fun w hw => hin' w (by simp [hw])) hx hx'
      exact ⟨by rw [h.1, h1], h2⟩

/-! ### appendAll / paste -/

theorem appendAll_fits (M : Nat) : ∀ (other self : List Int), self.length + other.length ≤ M →
    appendAll (some M) self other = (self ++ other, true) := by
  intro other
  induction other with
  | nil => intro self _; simp [appendAll]
  | cons x t ih =>
    intro self h
    simp only [List.length_cons] at h
    have : self.length < M := by omega
    simp only [appendAll, pathAppend, this, if_true]
    rw [ih (self ++ [x]) (by simp; omega)]
    simp

theorem paste_fits (pb pf : List Int) (M : Nat) (h : pb.length + pf.tail.length ≤ M) :
    paste pb pf M = pb.reverse ++ pf.tail := by
  unfold paste
  rw [appendAll_fits M pb.reverse [] (by simp; omega)]
  simp only [List.nil_append]
  rw [appendAll_fits M pf.tail pb.reverse (by rw [List.length_reverse]; exact h)]

/-! ### ordermin / ordermax -/

theorem foldl_min_lt (m : Int) : ∀ (t : List Int) (a : Int),
    (t.foldl (fun m x => if x < m then x else m) a < m ↔ a < m ∨ ∃ x ∈ t, x < m) := by
  intro t
  induction t with
  | nil => intro a; simp
  | cons y t ih =>
    intro a
    simp only [List.foldl_cons, ih, List.mem_cons, exists_eq_or_imp]
    by_cases h : y < a
    · simp only [h, if_true]; constructor
      · rintro (h1 | h1)
        · exact Or.inr (Or.inl h1)
        · exact Or.inr (Or.inr h1)
      · rintro (h1 | h1 | h1)
        · left; omega
        · left; exact h1
        · right; exact h1
    · simp only [h, if_false]; constructor
      · rintro (h1 | h1)
        · exact Or.inl h1
        · exact Or.inr (Or.inr h1)
      · rintro (h1 | h1 | h1)
        · left; exact h1
        · left; omega
        · right; exact h1

theorem foldl_max_ge (m : Int) : ∀ (t : List Int) (a : Int),
    (m ≤ t.foldl (fun m x => if x > m then x else m) a ↔ m ≤ a ∨ ∃ x ∈ t, m ≤ x) := by
  intro t
  induction t with
  | nil => intro a; simp
  | cons y t ih =>
    intro a
    simp only [List.foldl_cons, ih, List.mem_cons, exists_eq_or_imp]
    by_cases h : y > a
    · simp only [h, if_true]; constructor
      · rintro (h1 | h1)
        · exact Or.inr (Or.inl h1)
        · exact Or.inr (Or.inr h1)
      · rintro (h1 | h1 | h1)
        · left; omega
        · left; exact h1
        · right; exact h1
    · simp only [h, if_false]; constructor
      · rintro (h1 | h1)
        · exact Or.inl h1
        · exact Or.inr (Or.inr h1)
      · rintro (h1 | h1 | h1)
        · left; exact h1
        · left; omega
        · right; exact h1

theorem minOf_lt (ops : List Int) (mn m : Int) (h : minOf ops = some mn) :
    mn < m ↔ ∃ x ∈ ops, x < m := by
  cases ops with
  | nil => simp [minOf] at h
  | cons a t =>
    simp only [minOf, Option.some.injEq] at h
    rw [← h, foldl_min_lt]
    simp

theorem maxOf_ge (ops : List Int) (mx m : Int) (h : WF.maxOf ops = some mx) :
    m ≤ mx ↔ ∃ x ∈ ops, m ≤ x := by
  cases ops with
  | nil => simp [WF.maxOf] at h
  | cons a t =>
    simp only [WF.maxOf, Option.some.injEq] at h
    rw [← h, foldl_max_ge]
    simp

end Infretis.Moves
