import Infretis.Lemmas.MovesShoot
/-! The structure of a trial path accepted by `Moves.shoot` (used by `C09.shoot_acc_member`). -/
namespace Infretis.Moves
open Infretis.Engine

theorem checkInterfaces_cons (a : Int) (t : List Int) (l m r : Int) :
    ∃ b mn mx, (a :: t).getLast? = some b ∧ minOf (a :: t) = some mn ∧ WF.maxOf (a :: t) = some mx ∧
      checkInterfaces (a :: t) l m r =
        (WF.startPoint (min3 l m r) (max3 l m r) a, WF.endPoint (min3 l m r) (max3 l m r) b,
          decide (mn < m) && decide (m ≤ mx)) := by
  cases h : (a :: t).getLast? with
  | none => simp at h
  | some b =>
    refine ⟨b, _, _, rfl, rfl, rfl, ?_⟩
    simp only [checkInterfaces, List.head?_cons, h, minOf, WF.maxOf]

theorem startPoint_L (lo hi a : Int) : WF.startPoint lo hi a = .L ↔ a ≤ lo := by
  unfold WF.startPoint
  split
  · simp [*]
  · split <;> simp [*]

theorem endPoint_L (lo hi a : Int) : WF.endPoint lo hi a = .L ↔ a ≤ lo := by
  unfold WF.endPoint
  split
  · simp [*]
  · split <;> simp [*]

/-- the structure of an accepted trial path -/
theorem shoot_acc_structure (v : Variant) (i : ShootIn) (o : ShootOut) (h : shoot v i = .ok o)
    (hs : o.status = .ACC) :
    ∃ (preB preF restB restF : List Int) (xB xF : Int),
      Reaches i.l i.r i.back preB xB restB ∧ Reaches i.l i.r i.forw preF xF restF ∧
      o.trial = fullTrial i.kick preB xB preF xF ∧
      ((xB < i.l ∧ i.sc.hasL = true) ∨ (i.r < xB ∧ i.sc.hasR = true)) ∧
      (i.sc.hasL = false → min3 i.l i.m i.r < xB ∧ min3 i.l i.m i.r < xF) ∧
      (((effSc i).hasL = true ∧ (effSc i).hasR = true) ∨
        ((∃ y ∈ o.trial, y < i.m) ∧ ∃ y ∈ o.trial, i.m ≤ y)) ∧
      o.trial.length ≤ i.maxlength ∧
      o.genNb = preB.length + 1 ∧ o.genSp = i.kick ∧ o.genIdx = i.idx ∧
      1 ≤ i.idx ∧ i.idx + 2 ≤ i.old.length ∧ i.l ≤ i.kick ∧ i.kick < i.r ∧ i.l ≤ i.r ∧
      o.timeOrigin = i.oldTimeOrigin + i.idx - o.genNb ∧ o.accept = true := by
  obtain ⟨maxlen, d2, pb, uB, e, pf, uF, hL, hi1, hi2, hk1, hk2, hd, hfb, hlr, hlast, hside, hff, hfc, ho⟩ :=
    shoot_acc_inv v i o h hs
  have hML := drawMaxlen_le i maxlen d2 hd
  have hpos : 0 < maxlen - 1 := by
    rcases Nat.eq_zero_or_pos (maxlen - 1) with h0 | h0
    · rw [h0, feedV_zero] at hfb; cases hfb
    · exact h0
  obtain ⟨pre', xB, restB, hs1, hp, hin', hxB, _, hlen, _⟩ :=
    feedV_inv v i.l i.r (maxlen - 1) _ [] 0 pb uB hpos hfb
  cases pre' with
  | nil => simp at hs1; omega
  | cons k0 preB =>
  simp only [List.cons_append, List.cons.injEq] at hs1
  obtain ⟨hk0, hback⟩ := hs1
  subst hk0
  simp only [List.nil_append] at hp
  have hpbl : pb.length = preB.length + 2 := by rw [hp]; simp
  have hposF : 0 < maxlen - pb.length + 1 := by omega
  obtain ⟨pre2, xF, restF, hs2, hp2, hin2, hxF, _, hlen2, _⟩ :=
    feedV_inv v i.l i.r (maxlen - pb.length + 1) _ [] 0 pf uF hposF hff
  cases pre2 with
  | nil => simp at hs2; omega
  | cons k1 preF =>
  simp only [List.cons_append, List.cons.injEq] at hs2
  obtain ⟨hk1', hforw⟩ := hs2
  subst hk1'
  simp only [List.nil_append] at hp2
  have hpfl : pf.length = preF.length + 2 := by rw [hp2]; simp
  have hpaste : paste pb pf i.maxlength = fullTrial i.kick preB xB preF xF := by
    rw [paste_fits _ _ _ (by simp; omega), hp, hp2]
    simp [fullTrial]
  rw [hpaste] at hfc ho
  have he : e = xB := by
    rw [hp, List.getLast?_append] at hlast
    simpa using hlast.symm
  subst he
  -- the start side
  have hstart : (e < i.l ∧ i.sc.hasL = true) ∨ (i.r < e ∧ i.sc.hasR = true) := by
    unfold WF.endPoint sideIn at hside
    rcases hxB with hx | hx
    · left
      have : e ≤ i.l := by omega
      simp only [this, if_true] at hside
      exact ⟨hx, hside⟩
    · right
      have h1 : ¬ e ≤ i.l := by omega
      have h2 : e ≥ i.r := by omega
      simp only [h1, h2, if_false, if_true] at hside
      exact ⟨hx, hside⟩
  -- the final checks
  have hft : fullTrial i.kick preB e preF xF = e :: (preB.reverse ++ i.kick :: (preF ++ [xF])) := by
    simp [fullTrial]
  obtain ⟨b, mn, mx, hb, hmn, hmx, hci⟩ := checkInterfaces_cons e (preB.reverse ++ i.kick :: (preF ++ [xF])) i.l i.m i.r
  have hbx : b = xF := by
    have : (e :: (preB.reverse ++ i.kick :: (preF ++ [xF]))) = (e :: (preB.reverse ++ i.kick :: preF)) ++ [xF] := by simp
    rw [this, List.getLast?_append] at hb
    simpa using hb.symm
  subst hbx
  rw [← hft] at hmn hmx hci
  unfold finalChecks at hfc
  simp only [hci] at hfc
  have h0L : i.sc.hasL = false → min3 i.l i.m i.r < e ∧ min3 i.l i.m i.r < b := by
    intro hL0
    by_cases hc : WF.startPoint (min3 i.l i.m i.r) (max3 i.l i.m i.r) e = .L ∨
        WF.endPoint (min3 i.l i.m i.r) (max3 i.l i.m i.r) b = .L
    · simp [hL0, hc] at hfc
    · rw [startPoint_L, endPoint_L] at hc
      omega
  have hcross : ((effSc i).hasL = true ∧ (effSc i).hasR = true) ∨
      ((∃ y ∈ fullTrial i.kick preB e preF b, y < i.m) ∧ ∃ y ∈ fullTrial i.kick preB e preF b, i.m ≤ y) := by
    by_cases hc1 : (effSc i).hasL = true ∧ (effSc i).hasR = true
    · exact Or.inl hc1
    · right
      rw [← minOf_lt _ mn i.m hmn, ← maxOf_ge _ mx i.m hmx]
      by_cases hz : i.sc.hasL = false ∧ (WF.startPoint (min3 i.l i.m i.r) (max3 i.l i.m i.r) e = .L ∨
          WF.endPoint (min3 i.l i.m i.r) (max3 i.l i.m i.r) b = .L)
      · simp [hz] at hfc
      · simp only [hz, if_false, hc1] at hfc
        by_cases hcr : (decide (mn < i.m) && decide (i.m ≤ mx)) = false
        · simp [hcr] at hfc
        · simpa using hcr
  refine ⟨preB, preF, restB, restF, e, b, ⟨hback, fun y hy => hin' y (by simp [hy]), hxB⟩,
    ⟨hforw, fun y hy => hin2 y (by simp [hy]), hxF⟩, by rw [ho], hstart, h0L, by rw [ho]; exact hcross,
    ?_, by rw [ho]; simp; omega, by rw [ho], by rw [ho], hi1, hi2, hk1, hk2, hlr, ?_, by rw [ho]⟩
  · rw [ho]; simp [fullTrial]; omega
  · rw [ho]; simp; omega

end Infretis.Moves
