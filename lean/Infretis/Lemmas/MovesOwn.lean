import Infretis.Lemmas.MovesWfW
/-! C09 extension: entry `k` of the weight vector `calc_cv_vector` computes (model `WF.cvVector`, owned by C10) — what
    `run_md` stores for the ensemble's own interface. -/
namespace Infretis.Moves
open Infretis.WF

/-- entry `k` of the loop of `calc_cv_vector` -/
theorem cvVectorGo_get (ops : List Int) (i0 c pmax : Int) :
    ∀ (intfs : List Int) (mvs : List Bool) (ws : List Nat), cvVectorGo ops i0 c pmax intfs mvs = .ok ws →
    ∀ (k : Nat) (m : Int) (f : Bool), intfs[k]? = some m → mvs[k]? = some f →
      ∃ w, ws[k]? = some w ∧
        (if f then computeWeight ops i0 m c true else .ok (if m ≤ pmax then 1 else 0)) = .ok w := by
  intro intfs
  induction intfs with
  | nil => intro mvs ws _ k m f hk; simp at hk
  | cons a is ih =>
    intro mvs ws h k m f hk hf
    cases mvs with
    | nil => simp at hf
    | cons mv ms =>
      simp only [cvVectorGo] at h
      split at h
      · cases h
      · rename_i w hw
        split at h
        · cases h
        · rename_i ws' hws
          simp only [Except.ok.injEq] at h
          subst h
          cases k with
          | zero =>
            simp only [List.getElem?_cons_zero, Option.some.injEq] at hk hf
            subst hk hf
            exact ⟨w, by simp, hw⟩
          | succ k =>
            simp only [List.getElem?_cons_succ] at hk hf
            obtain ⟨w', h1, h2⟩ := ih ms ws' hws k m f hk hf
            exact ⟨w', by simpa using h1, h2⟩

/-- `cap if cap is not None else interfaces[-1]` -/
def capOr (cap : Option Int) (ilast : Int) : Int := cap.getD ilast

theorem cvVector_get (ops interfaces : List Int) (mvs : List Bool) (cap : Option Int) (ws : List Nat)
    (h : cvVector ops interfaces mvs cap = .ok ws) (k : Nat) (m : Int) (f : Bool)
    (hk : interfaces.dropLast[k]? = some m) (hf : mvs[k]? = some f) :
    ∃ pmax i0 ilast w, maxOf ops = some pmax ∧ interfaces.head? = some i0 ∧ interfaces.getLast? = some ilast ∧
      ws[k]? = some w ∧
      (if f then computeWeight ops i0 m (capOr cap ilast) true
       else .ok (if m ≤ pmax then 1 else 0)) = .ok w := by
  rcases cap with _ | c <;>
  · unfold cvVector at h
    split at h
    · rename_i pmax i0 ilast hmax hhead hlast
      simp only at h
      split at h
      · cases h
      · rename_i ws' hws
        simp only [Except.ok.injEq] at h
        subst h
        obtain ⟨w, h1, h2⟩ := cvVectorGo_get ops i0 _ pmax _ _ _ hws k m f hk hf
        refine ⟨pmax, i0, ilast, w, hmax, hhead, hlast, ?_, h2⟩
        have hlt : k < ws'.length := by
          by_contra hge
          rw [List.getElem?_eq_none (by omega)] at h1
          cases h1
        rw [List.getElem?_append_left hlt]
        exact h1
    · cases h
    · cases h

end Infretis.Moves

