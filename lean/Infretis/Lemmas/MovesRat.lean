import Infretis.Lemmas.MovesShoot
import Mathlib.Algebra.Order.Field.Rat
import Mathlib.Tactic.Linarith
import Mathlib.Tactic.Push
/-! Rational arithmetic for the drawn length limit of `shoot` (Mathlib's ordered field on ℚ). -/
namespace Infretis.Moves

/-- the drawn limit when a ξ is drawn -/
theorem drawMaxlen_xi (i : ShootIn) (hld : i.genLd = false) (ham : i.allowMax = false) (hxi : 0 < i.xi) :
    drawMaxlen i = .ok (min (((((i.old.length : Int) - 2 : Int) : Rat) / i.xi).floor.toNat + 2) i.maxlength,
      [.random]) := by
  unfold drawMaxlen
  have h1 : ¬ i.xi < 0 := not_lt.mpr (le_of_lt hxi)
  have h2 : ¬ i.xi = 0 := ne_of_gt hxi
  simp [hld, ham, h1, h2]

/-- `n ≤ ⌊a/ξ⌋.toNat ↔ ξ·n ≤ a` for `a ≥ 0`, `ξ > 0` -/
theorem le_floor_toNat_iff (a : Int) (xi : Rat) (n : Nat) (ha : 0 ≤ a) (hxi : 0 < xi) :
    n ≤ (((a : Int) : Rat) / xi).floor.toNat ↔ xi * (n : Rat) ≤ (a : Rat) := by
  have hnn : (0 : Int) ≤ (((a : Int) : Rat) / xi).floor := by
    rw [Rat.le_floor_iff]
    have : (0 : Rat) ≤ (a : Rat) := by exact_mod_cast ha
    simpa using div_nonneg this (le_of_lt hxi)
  have h1 : n ≤ (((a : Int) : Rat) / xi).floor.toNat ↔ (n : Int) ≤ (((a : Int) : Rat) / xi).floor := by omega
  rw [h1, Rat.le_floor_iff, le_div_iff₀ hxi]
  simp [mul_comm]

end Infretis.Moves
