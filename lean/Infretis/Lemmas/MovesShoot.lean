import Infretis.Lemmas.Moves
/-! Lemmas about `Moves.shoot` as a whole: accept/status, the inversion of an `ACC` result,
    the forward computation when both propagations succeed. -/
namespace Infretis.Moves
open Infretis.Engine

theorem finalChecks_acc (i : ShootIn) (t : List Int) :
    ((finalChecks i t).1 = true ↔ (finalChecks i t).2 = .ACC) := by
  unfold finalChecks
  simp only
  repeat' split
  all_goals simp

theorem shoot_accept_status (v : Variant) (i : ShootIn) (o : ShootOut) (h : shoot v i = .ok o) :
    o.accept = true ↔ o.status = .ACC := by
  unfold shoot at h
  simp only at h
  repeat' split at h
  all_goals first
    | (cases h; done)
    | (simp only [Except.ok.injEq] at h; subst h; simp; done)
    | skip
  simp only [Except.ok.injEq] at h
  subst h
  exact finalChecks_acc _ _

/-- everything the code went through on the way to `ACC` -/
theorem shoot_acc_inv (v : Variant) (i : ShootIn) (o : ShootOut) (h : shoot v i = .ok o)
    (hs : o.status = .ACC) :
    ∃ maxlen d2 pb uB e pf uF,
      3 ≤ i.old.length ∧ 1 ≤ i.idx ∧ i.idx + 2 ≤ i.old.length ∧ i.l ≤ i.kick ∧ i.kick < i.r ∧
      drawMaxlen i = .ok (maxlen, d2) ∧
      feedV v i.l i.r (some (maxlen - 1)) [] (i.kick :: i.back) 0 = some (pb, true, uB) ∧
      i.l ≤ i.r ∧ pb.getLast? = some e ∧ sideIn (WF.endPoint i.l i.r e) i.sc = true ∧
      feedV v i.l i.r (some (maxlen - pb.length + 1)) [] (i.kick :: i.forw) 0 = some (pf, true, uF) ∧
      finalChecks i (paste pb pf i.maxlength) = (true, .ACC) ∧
      o = { accept := true, status := .ACC, trial := paste pb pf i.maxlength, genSp := i.kick,
            genIdx := i.idx, genNb := pb.length - 1,
            timeOrigin := i.oldTimeOrigin + i.idx - pb.length + 1,
            draws := .integers 1 ((i.old.length : Int) - 1) :: d2, usedB := uB, usedF := uF } := by
  unfold shoot at h
  simp only at h
  repeat' split at h
  all_goals first
    | (cases h; done)
    | (simp only [Except.ok.injEq] at h; subst h; simp at hs; done)
    | (simp only [Except.ok.injEq] at h; subst h; simp only at hs; split at hs <;> simp at hs; done)
    | skip
  rename_i h1 h2 h3 _ maxlen d2 hd _ pb okB uB hfb hokB hlr _ e hlast hside _ pf okF uF hff hokF
  simp only [Except.ok.injEq] at h
  subst h
  simp only at hs
  have hokB' : okB = true := by simpa using hokB
  have hokF' : okF = true := by simpa using hokF
  subst hokB' hokF'
  have hacc := (finalChecks_acc i (paste pb pf i.maxlength)).2 hs
  refine ⟨maxlen, d2, pb, uB, e, pf, uF, by omega, by omega, by omega, by omega, by omega, hd, hfb, by omega,
    hlast, by simpa using hside, hff, ?_, ?_⟩
  · exact Prod.ext hacc hs
  · simp [hacc, hs]

theorem drawMaxlen_le (i : ShootIn) (maxlen : Nat) (d2 : List Draw) (h : drawMaxlen i = .ok (maxlen, d2)) :
    maxlen ≤ i.maxlength := by
  unfold drawMaxlen at h
  repeat' split at h
  all_goals first
    | (cases h; done)
    | (simp only [Except.ok.injEq, Prod.mk.injEq] at h; omega)

/-- forward computation: both propagations succeeded -/
theorem shoot_of_feeds (v : Variant) (i : ShootIn) (maxlen : Nat) (d2 : List Draw) (pb pf : List Int)
    (uB uF : Nat) (e : Int)
    (hL : 3 ≤ i.old.length) (hidx1 : 1 ≤ i.idx) (hidx2 : i.idx + 2 ≤ i.old.length)
    (hk1 : i.l ≤ i.kick) (hk2 : i.kick < i.r)
    (hd : drawMaxlen i = .ok (maxlen, d2))
    (hfb : feedV v i.l i.r (some (maxlen - 1)) [] (i.kick :: i.back) 0 = some (pb, true, uB))
    (hlast : pb.getLast? = some e) (hside : sideIn (WF.endPoint i.l i.r e) i.sc = true)
    (hff : feedV v i.l i.r (some (maxlen - pb.length + 1)) [] (i.kick :: i.forw) 0 = some (pf, true, uF)) :
    shoot v i = .ok
      { accept := (finalChecks i (paste pb pf i.maxlength)).1,
        status := (finalChecks i (paste pb pf i.maxlength)).2,
        trial := paste pb pf i.maxlength, genSp := i.kick, genIdx := i.idx, genNb := pb.length - 1,
        timeOrigin := i.oldTimeOrigin + i.idx - pb.length + 1,
        draws := .integers 1 ((i.old.length : Int) - 1) :: d2, usedB := uB, usedF := uF } := by
  unfold shoot
  have h1 : (1 : Int) < (i.old.length : Int) - 1 := by omega
  have h2 : (1 ≤ i.idx ∧ (i.idx : Int) < (i.old.length : Int) - 1) := by omega
  have h3 : ¬ i.r < i.l := by omega
  simp only [h1, h2, hk1, hk2, hd, hfb, hlast, hside, hff, h3, not_true_eq_false, and_self, if_false,
    Bool.true_eq_false]


/-- a stream reaches an interface: `pre` inside `[l, r]`, then `x` strictly outside -/
structure Reaches (l r : Int) (s pre : List Int) (x : Int) (rest : List Int) : Prop where
  eq : s = pre ++ x :: rest
  inside : ∀ y ∈ pre, l ≤ y ∧ y ≤ r
  outside : x < l ∨ r < x

/-- the complete trial path the two streams define -/
def fullTrial (kick : Int) (preB : List Int) (xB : Int) (preF : List Int) (xF : Int) : List Int :=
  (kick :: preB ++ [xB]).reverse ++ (preF ++ [xF])

def slack : Variant → Nat
  | .asIs => 1
  | .repaired => 0

def Accepts (v : Variant) (i : ShootIn) : Prop := ∃ o, shoot v i = .ok o ∧ o.accept = true

theorem shoot_accept_iff_maxlen (v : Variant) (i : ShootIn) (maxlen : Nat) (d2 : List Draw)
    (preB preF restB restF : List Int) (xB xF : Int)
    (hL : 3 ≤ i.old.length) (hidx1 : 1 ≤ i.idx) (hidx2 : i.idx + 2 ≤ i.old.length)
    (hk1 : i.l ≤ i.kick) (hk2 : i.kick < i.r)
    (hd : drawMaxlen i = .ok (maxlen, d2))
    (hB : Reaches i.l i.r i.back preB xB restB) (hF : Reaches i.l i.r i.forw preF xF restF)
    (hside : sideIn (WF.endPoint i.l i.r xB) i.sc = true)
    (hshape : finalChecks i (fullTrial i.kick preB xB preF xF) = (true, .ACC)) :
    Accepts v i ↔ preB.length + preF.length + 3 + slack v ≤ maxlen := by
  have hML := drawMaxlen_le i maxlen d2 hd
  have hkin : ∀ y ∈ i.kick :: preB, i.l ≤ y ∧ y ≤ i.r := by
    intro y hy
    simp only [List.mem_cons] at hy
    cases hy with
    | inl h => subst h; omega
    | inr h => exact hB.inside y h
  have hkinF : ∀ y ∈ i.kick :: preF, i.l ≤ y ∧ y ≤ i.r := by
    intro y hy
    simp only [List.mem_cons] at hy
    cases hy with
    | inl h => subst h; omega
    | inr h => exact hF.inside y h
  have hbs : i.kick :: i.back = (i.kick :: preB) ++ xB :: restB := by rw [hB.eq]; simp
  have hfs : i.kick :: i.forw = (i.kick :: preF) ++ xF :: restF := by rw [hF.eq]; simp
  constructor
  · rintro ⟨o, ho, hacc⟩
    have hs := (shoot_accept_status v i o ho).1 hacc
    obtain ⟨maxlen', d2', pb, uB, e, pf, uF, _, _, _, _, _, hd', hfb, _, _, _, hff, _, _⟩ :=
      shoot_acc_inv v i o ho hs
    rw [hd] at hd'
    simp only [Except.ok.injEq, Prod.mk.injEq] at hd'
    obtain ⟨hm, _⟩ := hd'
    subst hm
    have hpos : 0 < maxlen - 1 := by
      rcases Nat.eq_zero_or_pos (maxlen - 1) with h0 | h0
      · rw [h0, feedV_zero] at hfb; cases hfb
      · exact h0
    obtain ⟨pre', x', rest', hs1, hp, hin', hx', _, hlen, hv⟩ :=
      feedV_inv v i.l i.r (maxlen - 1) _ [] 0 pb uB hpos hfb
    rw [hbs] at hs1
    obtain ⟨e1, e2⟩ := first_exit_unique i.l i.r _ _ _ _ _ _ hs1 hkin hin' hB.outside hx'
    subst e1 e2
    have hpbl : pb.length = preB.length + 2 := by rw [hp]; simp
    have hposF : 0 < maxlen - pb.length + 1 := by omega
    obtain ⟨pre2, x2, rest2, hs2, hp2, hin2, hx2, _, hlen2, hv2⟩ :=
      feedV_inv v i.l i.r (maxlen - pb.length + 1) _ [] 0 pf uF hposF hff
    rw [hfs] at hs2
    obtain ⟨e3, e4⟩ := first_exit_unique i.l i.r _ _ _ _ _ _ hs2 hkinF hin2 hF.outside hx2
    subst e3 e4
    have hpfl : pf.length = preF.length + 2 := by rw [hp2]; simp
    cases v with
    | asIs =>
      have := hv rfl
      have := hv2 rfl
      simp only [slack]; omega
    | repaired => simp only [slack]; omega
  · intro hc
    have hsl : slack v = 1 ∨ isRep v = true := by cases v <;> simp [slack, isRep]
    -- backward
    have hfb := feedV_exit v i.l i.r (maxlen - 1) xB restB hB.outside (i.kick :: preB) [] 0 hkin
      (by simp; omega)
    rw [← hbs] at hfb
    have hokB : (decide (([] : List Int).length + (i.kick :: preB).length + 1 ≠ maxlen - 1) || isRep v) = true := by
      rcases hsl with h | h
      · simp only [List.length_nil, List.length_cons, Bool.or_eq_true, decide_eq_true_eq]; left; omega
      · simp [h]
    rw [hokB] at hfb
    simp only [List.nil_append] at hfb
    have hpbl : (i.kick :: preB ++ [xB]).length = preB.length + 2 := by simp
    -- forward
    have hff := feedV_exit v i.l i.r (maxlen - (i.kick :: preB ++ [xB]).length + 1) xF restF hF.outside
      (i.kick :: preF) [] 0 hkinF (by rw [hpbl]; simp; omega)
    rw [← hfs] at hff
    have hokF : (decide (([] : List Int).length + (i.kick :: preF).length + 1 ≠
        maxlen - (i.kick :: preB ++ [xB]).length + 1) || isRep v) = true := by
      rcases hsl with h | h
      · rw [hpbl]
        simp only [List.length_nil, List.length_cons, Bool.or_eq_true, decide_eq_true_eq]; left; omega
      · simp [h]
    rw [hokF] at hff
    simp only [List.nil_append] at hff
    have hsh := shoot_of_feeds v i maxlen d2 _ _ _ _ xB hL hidx1 hidx2 hk1 hk2 hd hfb
      (by rw [List.getLast?_append]; simp) hside hff
    have hpaste : paste (i.kick :: preB ++ [xB]) (i.kick :: preF ++ [xF]) i.maxlength
        = fullTrial i.kick preB xB preF xF := by
      rw [paste_fits _ _ _ (by simp; omega)]
      simp [fullTrial]
    rw [hpaste, hshape] at hsh
    exact ⟨_, hsh, rfl⟩

end Infretis.Moves
