import Infretis.Model.MovesRun
import Infretis.Lemmas.MovesWfB
import Infretis.Lemmas.MovesWitness
/-! C09 extension: the status tables of `shoot` and `wire_fencing` (`Model/MovesRun.lean`) are what the move
    models compute. -/
set_option linter.unusedSimpArgs false
namespace Infretis.Moves
open Infretis.Engine

theorem finalChecks_table (i : ShootIn) (t : List Int) :
    (finalChecks i t).2 = statusOf i.maxlength (finalFlags i t) := by
  unfold finalChecks finalFlags statusOf
  simp only
  by_cases h1 : i.sc.hasL = false ∧ ((checkInterfaces t i.l i.m i.r).1 = .L ∨ (checkInterfaces t i.l i.m i.r).2.1 = .L)
  · simp [h1]
  · simp only [h1, if_false, decide_false, Bool.false_eq_true]
    by_cases h2 : (effSc i).hasL = true ∧ (effSc i).hasR = true
    · simp [h2]
    · simp only [h2, if_false]
      have : ((effSc i).hasL && (effSc i).hasR) = false := by
        cases ha : (effSc i).hasL <;> cases hb : (effSc i).hasR <;> simp_all
      simp only [this, Bool.false_eq_true, if_false]
      cases hc : (checkInterfaces t i.l i.m i.r).2.2 <;> simp

theorem shoot_status_eq (v : Variant) (i : ShootIn) :
    (shoot v i).map (·.status) = (shootOutcome v i).map (statusOf i.maxlength) := by
  unfold shoot shootOutcome
  simp only
  by_cases h1 : ¬ (1 < (i.old.length : Int) - 1)
  · simp only [h1, if_true]; rfl
  simp only [h1, if_false]
  by_cases h2 : ¬ (1 ≤ i.idx ∧ (i.idx : Int) < (i.old.length : Int) - 1)
  · simp only [h2, if_true]; rfl
  simp only [h2, if_false]
  by_cases h3 : ¬ (i.l ≤ i.kick ∧ i.kick < i.r)
  · simp only [h3, if_true]; rfl
  simp only [h3, if_false]
  cases hd : drawMaxlen i with
  | error e => rfl
  | ok md =>
    obtain ⟨maxlen, d2⟩ := md
    simp only
    cases hb : feedV v i.l i.r (some (maxlen - 1)) [] (i.kick :: i.back) 0 with
    | none => rfl
    | some rb =>
      obtain ⟨pb, okB, usedB⟩ := rb
      simp only
      by_cases h4 : okB = false
      · simp only [h4, if_true]; simp [Except.map, statusOf]
      simp only [h4, if_false]
      by_cases h5 : i.r < i.l
      · simp only [h5, if_true]; rfl
      simp only [h5, if_false]
      cases hl : pb.getLast? with
      | none => rfl
      | some e =>
        simp only
        by_cases h6 : sideIn (WF.endPoint i.l i.r e) i.sc = false
        · simp only [h6, if_true]; rfl
        simp only [h6, if_false]
        cases hf : feedV v i.l i.r (some (maxlen - pb.length + 1)) [] (i.kick :: i.forw) 0 with
        | none => rfl
        | some rf =>
          obtain ⟨pf, okF, usedF⟩ := rf
          simp only
          by_cases h7 : okF = false
          · simp only [h7, if_true]; simp [Except.map, statusOf]
          simp only [h7, if_false, Except.map]
          rw [finalChecks_table]
          simp

theorem wf_status_eq (v : Variant) (i : WfIn) :
    (wireFencing v i).map (·.status) = (wfOutcome v i).map wfStatusOf := by
  unfold wireFencing wfOutcome wfSeg0
  simp only
  by_cases h1 : WF.weight i.m (capOf i) i.old = 0
  · simp only [h1, if_true]; rfl
  simp only [h1, if_false]
  cases hj : wfJumps v i i.nJumps i.jumps
      (match WF.pick i.m (capOf i) i.old i.xiSeg with
        | some (a, b, _) => (i.old.drop a).take (b + 1 - a)
        | none => []) i.oldTimeOrigin 0 [.random] with
  | error e => rfl
  | ok rj =>
    obtain ⟨seg, segTO, succ, draws⟩ := rj
    simp only
    by_cases h2 : succ = 0
    · simp only [h2, if_true]; rfl
    simp only [h2, if_false]
    cases he : extender v i seg segTO with
    | error e => rfl
    | ok re =>
      obtain ⟨ok1, st1, t1, to1⟩ := re
      simp only
      have hflag := extender_flag v i _ _ _ _ _ _ he
      cases ok1 with
      | false =>
        have hst : st1 = .FTX := hflag.2.2 rfl
        subst hst
        simp [Except.map, wfStatusOf]
      | true =>
        simp only [if_true, Bool.true_eq_false, if_false]
        cases hs : subtAcceptance i t1 to1 with
        | error e => rfl
        | ok rs =>
          obtain ⟨ok2, st2, t2, to2⟩ := rs
          simp only
          have hsf := subt_flag i _ _ _ _ _ _ hs
          cases ok2 with
          | false =>
            have hst : st2 = .BWI := hsf.2.1 rfl
            subst hst
            simp [Except.map, wfStatusOf]
          | true =>
            simp only [Bool.true_eq_false, if_false]
            by_cases h3 : i.r < i.l
            · simp only [h3, if_true]; rfl
            simp only [h3, if_false]
            cases hh : t2.head? with
            | none => rfl
            | some first =>
              simp only
              by_cases h4 : scIs i.sc (WF.startPoint i.l i.r first) = false
              · simp only [h4, if_true]; rfl
              simp only [h4, if_false]
              simp [Except.map, wfStatusOf]

/-- status of a completed shooting move = table entry of its outcome; acceptance = the table says ACC -/
theorem shoot_table_of_ok (v : Variant) (i : ShootIn) (o : ShootOut) (h : shoot v i = .ok o) :
    ∃ oc, shootOutcome v i = .ok oc ∧ o.status = statusOf i.maxlength oc := by
  have e := shoot_status_eq v i
  rw [h] at e
  cases hc : shootOutcome v i with
  | error x => rw [hc] at e; simp [Except.map] at e
  | ok oc => rw [hc] at e; simp only [Except.map, Except.ok.injEq] at e; exact ⟨oc, rfl, e⟩

theorem shoot_table_of_error (v : Variant) (i : ShootIn) (x : Err) (h : shoot v i = .error x) :
    shootOutcome v i = .error x := by
  have e := shoot_status_eq v i
  rw [h] at e
  cases hc : shootOutcome v i with
  | error y => rw [hc] at e; simp only [Except.map, Except.error.injEq] at e; rw [e]
  | ok oc => rw [hc] at e; simp [Except.map] at e

theorem wf_table_of_ok (v : Variant) (i : WfIn) (o : WfOut) (h : wireFencing v i = .ok o) :
    ∃ oc, wfOutcome v i = .ok oc ∧ o.status = wfStatusOf oc := by
  have e := wf_status_eq v i
  rw [h] at e
  cases hc : wfOutcome v i with
  | error x => rw [hc] at e; simp [Except.map] at e
  | ok oc => rw [hc] at e; simp only [Except.map, Except.ok.injEq] at e; exact ⟨oc, rfl, e⟩

theorem wf_table_of_error (v : Variant) (i : WfIn) (x : Err) (h : wireFencing v i = .error x) :
    wfOutcome v i = .error x := by
  have e := wf_status_eq v i
  rw [h] at e
  cases hc : wfOutcome v i with
  | error y => rw [hc] at e; simp only [Except.map, Except.error.injEq] at e; rw [e]
  | ok oc => rw [hc] at e; simp [Except.map] at e

/-! concrete `run_md` jobs evaluated by the kernel -/

def mdCfgEx (wf : Bool) : MdCfg := { interfaces := [0, 1, 4], movesTail := [false, wf], cap := none, ensNum := 1, lm1 := none }

theorem mdEx_eval : (runMdOne .repaired (mdCfgEx false) (.sh { exIn with scEns := some ⟨true, false⟩ })).toOption = some
    { status := .ACC, live := [-1, 3, 2, 2, 5], replaced := true, trialLen := 5, trialMin := -1, trialMax := 5,
      weights := some [1, 1, 0] } := by decide +kernel

theorem mdWfEx_eval : (runMdOne .repaired (mdCfgEx true) (.wf wfEx)).toOption = some
    { status := .ACC, live := [-1, 0, 1, 2, 3, 5], replaced := true, trialLen := 6, trialMin := -1, trialMax := 5,
      weights := some [1, 6, 0] } := by decide +kernel

theorem mdWfRejEx_eval : (runMdOne .repaired (mdCfgEx true)
      (.wf { wfEx with jumps := [{ idx := 2, kick := 7, back := [], forw := [] }] })).toOption = some
    { status := .NSG, live := [-1, 1, 2, 1, -1], replaced := false, trialLen := 5, trialMin := -1, trialMax := 2,
      weights := none } := by decide +kernel

end Infretis.Moves
