import Infretis.Model.MovesTime
import Mathlib.Tactic.Ring
import Mathlib.Tactic.Linarith
/-!
C09 "ordered in time": the algebra of frame lists lying on one trajectory (`LineS`), and the invariant carried through
`shootT`, `wfJumpsT`, `extenderT`, `subtT`, `wireFencingT`.
-/
namespace Infretis.Moves

/-- frames on trajectory `tr`, all with velocity `u` along the path, time labels `t0, t0 + s, t0 + 2s, …` -/
def LineS (tr : Nat) (u s : Int) : Int → List TFrame → Prop
  | _, [] => True
  | t0, f :: fs => f.traj = tr ∧ f.u = u ∧ f.t = t0 ∧ LineS tr u s (t0 + s) fs

/-- a trajectory in the direction of the path: the step of the time label IS the velocity along the path -/
def Lined (fs : List TFrame) : Prop := ∃ tr u t0, LineS tr u u t0 fs

theorem lineS_append (tr : Nat) (u s : Int) : ∀ (a b : List TFrame) (t0 : Int),
    LineS tr u s t0 (a ++ b) ↔ LineS tr u s t0 a ∧ LineS tr u s (t0 + a.length * s) b
  | [], b, t0 => by simp [LineS]
  | f :: a, b, t0 => by
    have ih := lineS_append tr u s a b (t0 + s)
    have e : t0 + s + (a.length : Int) * s = t0 + ((f :: a).length : Int) * s := by
      simp only [List.length_cons]; push_cast; ring
    simp only [List.cons_append, LineS, ih, e]
    constructor
    · rintro ⟨h1, h2, h3, h4, h5⟩; exact ⟨⟨h1, h2, h3, h4⟩, h5⟩
    · rintro ⟨⟨h1, h2, h3, h4⟩, h5⟩; exact ⟨h1, h2, h3, h4, h5⟩

theorem lineS_get (tr : Nat) (u s : Int) : ∀ (fs : List TFrame) (t0 : Int) (k : Nat) (f : TFrame),
    LineS tr u s t0 fs → fs[k]? = some f → f.traj = tr ∧ f.u = u ∧ f.t = t0 + k * s
  | [], _, _, _, _, h => by simp at h
  | g :: fs, t0, 0, f, hl, h => by
    simp only [List.getElem?_cons_zero, Option.some.injEq] at h
    subst h
    obtain ⟨h1, h2, h3, _⟩ := hl
    exact ⟨h1, h2, by simp [h3]⟩
  | g :: fs, t0, k + 1, f, hl, h => by
    simp only [List.getElem?_cons_succ] at h
    obtain ⟨_, _, _, h4⟩ := hl
    obtain ⟨a, b, c⟩ := lineS_get tr u s fs (t0 + s) k f h4 h
    refine ⟨a, b, ?_⟩
    rw [c]; push_cast; ring

theorem lineS_reverse (tr : Nat) (u s : Int) : ∀ (fs : List TFrame) (t0 : Int),
    LineS tr u s t0 fs → LineS tr u (-s) (t0 + fs.length * s - s) fs.reverse
  | [], _, _ => by simp [LineS]
  | f :: fs, t0, h => by
    obtain ⟨h1, h2, h3, h4⟩ := h
    have ih := lineS_reverse tr u s fs (t0 + s) h4
    rw [List.reverse_cons, lineS_append]
    refine ⟨?_, ?_⟩
    · have e : t0 + ((f :: fs).length : Int) * s - s = t0 + s + (fs.length : Int) * s - s := by
        simp only [List.length_cons]; push_cast; ring
      rw [e]; exact ih
    · refine ⟨h1, h2, ?_, trivial⟩
      rw [h3]
      simp only [List.length_cons, List.length_reverse]
      push_cast; ring

theorem flipRev_u (f : TFrame) : (flipRev f).u = -f.u := by
  cases f with
  | mk op traj t v rev => cases rev <;> simp [flipRev, TFrame.u]

theorem lineS_map_flip (tr : Nat) (u s : Int) : ∀ (fs : List TFrame) (t0 : Int),
    LineS tr u s t0 fs → LineS tr (-u) s t0 (fs.map flipRev)
  | [], _, _ => by simp [LineS]
  | f :: fs, t0, h => by
    obtain ⟨h1, h2, h3, h4⟩ := h
    exact ⟨h1, by rw [flipRev_u, h2], h3, lineS_map_flip tr u s fs (t0 + s) h4⟩

theorem lineS_take (tr : Nat) (u s : Int) : ∀ (n : Nat) (fs : List TFrame) (t0 : Int),
    LineS tr u s t0 fs → LineS tr u s t0 (fs.take n)
  | 0, _, _, _ => by simp [LineS]
  | _ + 1, [], _, _ => by simp [LineS]
  | n + 1, f :: fs, t0, h => by
    obtain ⟨h1, h2, h3, h4⟩ := h
    exact ⟨h1, h2, h3, lineS_take tr u s n fs (t0 + s) h4⟩

theorem lineS_tail (tr : Nat) (u s : Int) (fs : List TFrame) (t0 : Int) (h : LineS tr u s t0 fs) :
    LineS tr u s (t0 + s) fs.tail := by
  cases fs with
  | nil => simp [LineS]
  | cons f fs => exact h.2.2.2

theorem lineS_dropLast (tr : Nat) (u s : Int) (fs : List TFrame) (t0 : Int) (h : LineS tr u s t0 fs) :
    LineS tr u s t0 fs.dropLast := by
  rw [List.dropLast_eq_take]
  exact lineS_take tr u s _ fs t0 h

theorem lineS_getLast (tr : Nat) (u s : Int) (fs : List TFrame) (t0 : Int) (fl : TFrame) (h : LineS tr u s t0 fs)
    (hl : fs.getLast? = some fl) : fl.traj = tr ∧ fl.u = u ∧ fl.t = t0 + fs.length * s - s := by
  have hne : fs ≠ [] := by intro e; subst e; simp at hl
  have hk : fs[fs.length - 1]? = some fl := by
    rw [← hl, List.getLast?_eq_getElem?]
  obtain ⟨a, b, c⟩ := lineS_get tr u s fs t0 _ fl h hk
  refine ⟨a, b, ?_⟩
  have hp : 0 < fs.length := List.length_pos_iff.mpr hne
  rw [c]
  have : ((fs.length - 1 : Nat) : Int) = (fs.length : Int) - 1 := by omega
  rw [this]; ring

theorem lineS_head (tr : Nat) (u s : Int) (fs : List TFrame) (t0 : Int) (f0 : TFrame) (h : LineS tr u s t0 fs)
    (hh : fs.head? = some f0) : f0.traj = tr ∧ f0.u = u ∧ f0.t = t0 := by
  cases fs with
  | nil => simp at hh
  | cons f fs =>
    simp only [List.head?_cons, Option.some.injEq] at hh
    subst hh
    exact ⟨h.1, h.2.1, h.2.2.1⟩

/-! ### the engine contract gives lines -/

theorem lineS_engineGo (tr : Nat) (v0 : Int) (d : Bool) : ∀ (ops : List Int) (t : Int),
    LineS tr (if d then -v0 else v0) v0 t (engineGo tr v0 d t ops)
  | [], _ => by simp [engineGo, LineS]
  | x :: xs, t => by
    refine ⟨rfl, ?_, rfl, lineS_engineGo tr v0 d xs (t + v0)⟩
    cases d <;> simp [TFrame.u]

/-- forward propagation continues the trajectory of the start frame in the direction of the path -/
theorem engineT_forward (s : TFrame) (ops : List Int) : LineS s.traj s.u s.u s.t (engineT s false ops) := by
  have h := lineS_engineGo s.traj (if s.rev = false then s.v else -s.v) false ops s.t
  have e : (if s.rev = false then s.v else -s.v) = s.u := by
    cases hs : s.rev <;> simp [TFrame.u, hs]
  simp only [Bool.false_eq_true, if_false] at h
  unfold engineT
  rw [e] at h ⊢
  exact h

/-- backward propagation walks the same trajectory against the direction of the path; its frames still point along it -/
theorem engineT_backward (s : TFrame) (ops : List Int) : LineS s.traj s.u (-s.u) s.t (engineT s true ops) := by
  have h := lineS_engineGo s.traj (if s.rev = true then s.v else -s.v) true ops s.t
  have e : (if s.rev = true then s.v else -s.v) = -s.u := by
    cases hs : s.rev <;> simp [TFrame.u, hs]
  simp only [if_true] at h
  unfold engineT
  rw [e] at h ⊢
  simpa using h

/-- `paste_paths` of a backward line and a forward line through the same point is a line -/
theorem pasteT_line (tr : Nat) (u tK : Int) (back forw : List TFrame) (M : Nat)
    (hb : LineS tr u (-u) tK back) (hf : LineS tr u u tK forw) :
    LineS tr u u (tK - back.length * u + u) (pasteT back forw M) := by
  unfold pasteT
  apply lineS_take
  rw [lineS_append]
  constructor
  · have h := lineS_reverse tr u (-u) back tK hb
    have e : tK + (back.length : Int) * -u - -u = tK - back.length * u + u := by ring
    rw [e] at h
    simpa using h
  · have h := lineS_tail tr u u forw tK hf
    have e : tK - (back.length : Int) * u + u + (back.reverse.length : Int) * u = tK + u := by
      simp only [List.length_reverse]; ring
    rw [e]; exact h

theorem lined_reverseT (fs : List TFrame) (h : Lined fs) : Lined (reverseT fs) := by
  obtain ⟨tr, u, t0, h⟩ := h
  have h1 := lineS_reverse tr u u fs t0 h
  have h2 := lineS_map_flip tr u (-u) _ _ h1
  exact ⟨tr, -u, _, h2⟩

/-! ### the moves -/

theorem shootT_lined (v : Variant) (i : ShootIn) (K : TFrame) (fs : List TFrame) (h : shootT v i K = some fs) :
    Lined fs := by
  unfold shootT at h
  simp only at h
  repeat' split at h
  all_goals first
    | (cases h; done)
    | (simp only [Option.some.injEq] at h
       subst h
       exact ⟨K.traj, K.u, _, pasteT_line K.traj K.u K.t _ _ _ (engineT_backward K _) (engineT_forward K _)⟩)

theorem wfJumpsT_lined (v : Variant) (i : WfIn) : ∀ (n : Nat) (js : List WfJump) (krevs : List Bool) (seg : List Int)
    (tor : Int) (segT : List TFrame) (succ c : Nat) (segT' : List TFrame) (succ' : Nat),
    (succ ≠ 0 → Lined segT) → wfJumpsT v i n js krevs seg tor segT succ c = some (segT', succ') →
    (succ' ≠ 0 → Lined segT')
  | 0, _, _, _, _, _, _, _, _, _, hinv, h => by
    simp only [wfJumpsT, Option.some.injEq, Prod.mk.injEq] at h
    obtain ⟨e1, e2⟩ := h
    subst e1 e2
    exact hinv
  | _ + 1, [], _, _, _, _, _, _, _, _, _, h => by simp [wfJumpsT] at h
  | n + 1, j :: js, krevs, seg, tor, segT, succ, c, segT', succ', hinv, h => by
    simp only [wfJumpsT] at h
    split at h
    · cases h
    · rename_i o _
      split at h
      · split at h
        · cases h
        · rename_i fs hfs
          exact wfJumpsT_lined v i n js _ _ _ fs _ _ _ _ (fun _ => shootT_lined v _ _ fs hfs) h
      · exact wfJumpsT_lined v i n js _ _ _ segT _ _ _ _ hinv h

theorem extenderT_lined (v : Variant) (i : WfIn) (seg : List Int) (segT r : List TFrame) (hl : Lined segT)
    (h : extenderT v i seg segT = some r) : Lined r := by
  obtain ⟨tr, u, t0, hl⟩ := hl
  unfold extenderT at h
  split at h
  · rename_i first f0 _ hf0
    obtain ⟨a0, b0, c0⟩ := lineS_head tr u u segT t0 f0 hl hf0
    -- the backward extension
    have key : ∀ t1 t1T, (if i.l ≤ first ∧ first < i.r then
          match feedV v i.l i.r (some i.maxlength) [] (first :: i.extBack) 0 with
          | none => none
          | some (pb, _, _) => some (paste pb seg i.maxlength, pasteT (engineT f0 true pb) segT i.maxlength)
        else some (seg, segT)) = some (t1, t1T) → ∃ t1', LineS tr u u t1' t1T := by
      intro t1 t1T hr
      split at hr
      · split at hr
        · cases hr
        · rename_i pb _ _ _
          simp only [Option.some.injEq, Prod.mk.injEq] at hr
          obtain ⟨_, e⟩ := hr
          subst e
          have hb := engineT_backward f0 pb
          rw [a0, b0, c0] at hb
          exact ⟨_, pasteT_line tr u t0 _ _ _ hb hl⟩
      · simp only [Option.some.injEq, Prod.mk.injEq] at hr
        obtain ⟨_, e⟩ := hr
        subst e
        exact ⟨t0, hl⟩
    simp only at h
    split at h
    · cases h
    · rename_i t1 t1T hr1
      obtain ⟨t1', hl1⟩ := key t1 t1T hr1
      split at h
      · rename_i last fl _ hfl
        obtain ⟨a1, b1, c1⟩ := lineS_getLast tr u u t1T t1' fl hl1 hfl
        split at h
        · split at h
          · cases h
          · rename_i pf _ _ _
            simp only [Option.some.injEq] at h
            subst h
            refine ⟨tr, u, t1', ?_⟩
            rw [lineS_append]
            refine ⟨lineS_dropLast tr u u t1T t1' hl1, ?_⟩
            have hf := engineT_forward fl pf
            rw [a1, b1, c1] at hf
            have hne : t1T ≠ [] := by intro e; subst e; simp at hfl
            have hp : 0 < t1T.length := List.length_pos_iff.mpr hne
            have e : t1' + (t1T.dropLast.length : Int) * u = t1' + (t1T.length : Int) * u - u := by
              rw [List.length_dropLast]
              have : ((t1T.length - 1 : Nat) : Int) = (t1T.length : Int) - 1 := by omega
              rw [this]; ring
            rw [e]; exact hf
        · simp only [Option.some.injEq] at h
          subst h
          exact ⟨tr, u, t1', hl1⟩
      · cases h
  · cases h

theorem subtT_lined (i : WfIn) (t : List Int) (tT r : List TFrame) (hl : Lined tT) (h : subtT i t tT = some r) :
    Lined r := by
  unfold subtT at h
  repeat' split at h
  all_goals first
    | (cases h; done)
    | (simp only [Option.some.injEq] at h; subst h; first | exact hl | exact lined_reverseT _ hl)

theorem wireFencingT_lined (v : Variant) (i : WfIn) (krevs : List Bool) (seg0T fs : List TFrame)
    (h : wireFencingT v i krevs seg0T = some fs) : Lined fs := by
  unfold wireFencingT at h
  simp only at h
  split at h
  · cases h
  · split at h
    · rename_i seg segTO _ _ segT succT _ hj
      split at h
      · cases h
      · rename_i hs
        have hseg : Lined segT :=
          wfJumpsT_lined v i _ _ _ _ _ _ 0 0 segT succT (fun h0 => absurd rfl h0) hj hs
        split at h
        · rename_i t1 to1 t1T _ he
          have h1 : Lined t1T := extenderT_lined v i seg segT t1T hseg he
          split at h
          · rename_i t2T _ hsub
            have h2 : Lined t2T := subtT_lined i t1 t1T t2T h1 hsub
            repeat' split at h
            all_goals first
              | (cases h; done)
              | (simp only [Option.some.injEq] at h; subst h; exact h2)
          · cases h
        · cases h
    · cases h

/-- index form: consecutive frames are one MD step (in the direction of the path) apart -/
theorem lined_steps (fs : List TFrame) (h : Lined fs) (k : Nat) (a b : TFrame) (ha : fs[k]? = some a)
    (hb : fs[k + 1]? = some b) : b.traj = a.traj ∧ b.u = a.u ∧ b.t = a.t + a.u := by
  obtain ⟨tr, u, t0, h⟩ := h
  obtain ⟨a1, a2, a3⟩ := lineS_get tr u u fs t0 k a h ha
  obtain ⟨b1, b2, b3⟩ := lineS_get tr u u fs t0 (k + 1) b h hb
  refine ⟨by rw [a1, b1], by rw [a2, b2], ?_⟩
  rw [a3, b3, a2]; push_cast; ring

/-- **Ordered in time** (the statement used in the property theorems): every frame and its successor lie on the same
    trajectory, point the same way along the path, and one MD step in that direction leads from the one to the other. -/
def TimeOrdered (fs : List TFrame) : Prop :=
  ∀ (k : Nat) (a b : TFrame), fs[k]? = some a → fs[k + 1]? = some b → b.traj = a.traj ∧ b.u = a.u ∧ b.t = a.t + a.u

theorem timeOrdered_cons2 (a b : TFrame) (r : List TFrame) :
    TimeOrdered (a :: b :: r) ↔ (b.traj = a.traj ∧ b.u = a.u ∧ b.t = a.t + a.u) ∧ TimeOrdered (b :: r) := by
  constructor
  · intro h
    refine ⟨h 0 a b rfl rfl, ?_⟩
    intro k x y hx hy
    exact h (k + 1) x y (by simpa using hx) (by simpa using hy)
  · rintro ⟨h0, h1⟩ k x y hx hy
    cases k with
    | zero =>
      simp only [List.getElem?_cons_zero, Option.some.injEq, Nat.zero_add, List.getElem?_cons_succ] at hx hy
      subst hx hy
      exact h0
    | succ k => exact h1 k x y (by simpa using hx) (by simpa using hy)

theorem timeOrdered_of_lined (fs : List TFrame) (h : Lined fs) : TimeOrdered fs :=
  fun k a b ha hb => lined_steps fs h k a b ha hb

theorem lined_of_timeOrdered : ∀ (fs : List TFrame), TimeOrdered fs → Lined fs
  | [], _ => ⟨0, 0, 0, trivial⟩
  | [a], _ => ⟨a.traj, a.u, a.t, rfl, rfl, rfl, trivial⟩
  | a :: b :: r, h => by
    obtain ⟨⟨h1, h2, h3⟩, hr⟩ := (timeOrdered_cons2 a b r).1 h
    obtain ⟨tr, u, t0, hb1, hb2, hb3, hrest⟩ := lined_of_timeOrdered (b :: r) hr
    refine ⟨a.traj, a.u, a.t, rfl, rfl, rfl, ?_, ?_, ?_, ?_⟩
    · exact h1
    · exact h2
    · exact h3
    · have e1 : tr = a.traj := by rw [← hb1, h1]
      have e2 : u = a.u := by rw [← hb2, h2]
      have e3 : t0 = a.t + a.u := by rw [← hb3, h3]
      subst e1 e2
      rw [e3] at hrest
      rw [← h3, ← e3] at *
      simpa [h2, e3, h3] using hrest

theorem timeOrderedB_iff : ∀ (fs : List TFrame), timeOrderedB fs = true ↔ TimeOrdered fs
  | [] => by simp [timeOrderedB, TimeOrdered]
  | [a] => by simp [timeOrderedB, TimeOrdered]
  | a :: b :: r => by
    rw [timeOrdered_cons2, ← timeOrderedB_iff (b :: r)]
    simp [timeOrderedB, stepB, and_assoc]

end Infretis.Moves
