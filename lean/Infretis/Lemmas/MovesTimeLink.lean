import Infretis.Model.MovesTime
import Infretis.Lemmas.MovesWfA
/-!
C09 "ordered in time", the link: the frame-level functions of `Model/MovesTime.lean` are defined exactly where the
order-value moves accept, and their frames carry exactly the order values of the returned path.
-/
namespace Infretis.Moves
open Infretis.Engine

def opsOf (fs : List TFrame) : List Int := fs.map (·.op)

theorem opsOf_engineGo (tr : Nat) (v0 : Int) (d : Bool) : ∀ (ops : List Int) (t : Int),
    opsOf (engineGo tr v0 d t ops) = ops
  | [], _ => rfl
  | x :: xs, t => by
    simp only [engineGo, opsOf, List.map_cons, List.cons.injEq, true_and]
    exact opsOf_engineGo tr v0 d xs (t + v0)

theorem opsOf_engineT (s : TFrame) (d : Bool) (ops : List Int) : opsOf (engineT s d ops) = ops :=
  opsOf_engineGo _ _ _ _ _

theorem opsOf_pasteT (b f : List TFrame) (M : Nat) : opsOf (pasteT b f M) = paste (opsOf b) (opsOf f) M := by
  rw [paste_take]
  simp [opsOf, pasteT, List.map_take, List.map_reverse, List.map_tail]

theorem opsOf_reverseT (fs : List TFrame) : opsOf (reverseT fs) = (opsOf fs).reverse := by
  simp [opsOf, reverseT, List.map_reverse, flipRev, Function.comp_def]

theorem opsOf_head (fs : List TFrame) : (opsOf fs).head? = fs.head?.map (·.op) := by
  cases fs <;> simp [opsOf]

theorem opsOf_getLast (fs : List TFrame) : (opsOf fs).getLast? = fs.getLast?.map (·.op) := by
  simp [opsOf, List.getLast?_map]

/-- an accepted `shoot` has frames, and they carry the order values of its trial path -/
theorem shootT_of_acc (v : Variant) (i : ShootIn) (o : ShootOut) (K : TFrame) (h : shoot v i = .ok o)
    (ha : o.accept = true) : ∃ fs, shootT v i K = some fs ∧ opsOf fs = o.trial := by
  unfold shoot at h
  unfold shootT
  simp only at h ⊢
  repeat' split at h
  all_goals first
    | (cases h; done)
    | (simp only [Except.ok.injEq] at h; subst h; cases ha; done)
    | (simp only [Except.ok.injEq] at h
       subst h
       simp_all [opsOf_pasteT, opsOf_engineT])

/-- the jump loop on frames follows the jump loop on order values: same success count, and after at least one
    accepted jump the frames carry the order values of the current segment -/
theorem wfJumpsT_of_ok (v : Variant) (i : WfIn) : ∀ (n : Nat) (js : List WfJump) (krevs : List Bool) (seg : List Int)
    (to : Int) (segT : List TFrame) (succ c : Nat) (d : List Draw) (seg' : List Int) (to' : Int) (succ' : Nat)
    (d' : List Draw),
    (succ ≠ 0 → opsOf segT = seg) → wfJumps v i n js seg to succ d = .ok (seg', to', succ', d') →
    ∃ segT', wfJumpsT v i n js krevs seg to segT succ c = some (segT', succ') ∧ (succ' ≠ 0 → opsOf segT' = seg')
  | 0, _, _, _, _, segT, _, _, _, _, _, _, _, hinv, h => by
    simp only [wfJumps, Except.ok.injEq, Prod.mk.injEq] at h
    obtain ⟨e1, _, e3, _⟩ := h
    subst e1 e3
    exact ⟨segT, rfl, hinv⟩
  | _ + 1, [], _, _, _, _, _, _, _, _, _, _, _, _, h => by simp [wfJumps] at h
  | n + 1, j :: js, krevs, seg, to, segT, succ, c, d, seg', to', succ', d', hinv, h => by
    simp only [wfJumps] at h
    simp only [wfJumpsT]
    cases hs : shoot v (subShootIn i seg to j) with
    | error e => rw [hs] at h; cases h
    | ok o =>
      rw [hs] at h
      simp only at h ⊢
      by_cases ha : o.accept = true
      · simp only [ha, if_true] at h ⊢
        obtain ⟨fs, hfs, hops⟩ := shootT_of_acc v _ o (kickFrame j.kick (c + 1) (krevs.headD false)) hs ha
        rw [hfs]
        exact wfJumpsT_of_ok v i n js krevs.tail o.trial o.timeOrigin fs (succ + 1) (c + 1) _ _ _ _ _
          (fun _ => hops) h
      · simp only [ha] at h ⊢
        exact wfJumpsT_of_ok v i n js krevs.tail seg to segT succ (c + 1) _ _ _ _ _ hinv h

theorem extenderT_of_ok (v : Variant) (i : WfIn) (seg : List Int) (segTO : Int) (segT : List TFrame) (b : Bool)
    (st : Status) (t1 : List Int) (to1 : Int) (hops : opsOf segT = seg)
    (h : extender v i seg segTO = .ok (b, st, t1, to1)) :
    ∃ t1T, extenderT v i seg segT = some t1T ∧ opsOf t1T = t1 := by
  unfold extender at h
  unfold extenderT
  have hh := opsOf_head segT
  rw [hops] at hh
  cases hseg : segT.head? with
  | none =>
    rw [hseg] at hh
    simp only [Option.map_none] at hh
    rw [hh] at h
    cases h
  | some f0 =>
    rw [hseg] at hh
    simp only [Option.map_some] at hh
    rw [hh] at h
    simp only [hh] at h ⊢
    by_cases hin : i.l ≤ f0.op ∧ f0.op < i.r
    · simp only [hin, and_self, if_true] at h ⊢
      cases hf : feedV v i.l i.r (some i.maxlength) [] (f0.op :: i.extBack) 0 with
      | none => rw [hf] at h; cases h
      | some r =>
        obtain ⟨pb, okb, ub⟩ := r
        rw [hf] at h
        simp only at h ⊢
        have hp : opsOf (pasteT (engineT f0 true pb) segT i.maxlength) = paste pb seg i.maxlength := by
          rw [opsOf_pasteT, opsOf_engineT, hops]
        have hl := opsOf_getLast (pasteT (engineT f0 true pb) segT i.maxlength)
        rw [hp] at hl
        cases hlast : (pasteT (engineT f0 true pb) segT i.maxlength).getLast? with
        | none =>
          rw [hlast] at hl
          simp only [Option.map_none] at hl
          rw [hl] at h
          cases h
        | some fl =>
          rw [hlast] at hl
          simp only [Option.map_some] at hl
          rw [hl] at h
          simp only [hl] at h ⊢
          by_cases hin2 : i.l ≤ fl.op ∧ fl.op < i.r
          · simp only [hin2, and_self, if_true] at h ⊢
            cases hf2 : feedV v i.l i.r (some i.maxlength) [] (fl.op :: i.extForw) 0 with
            | none => rw [hf2] at h; cases h
            | some r2 =>
              obtain ⟨pf, okf, uf⟩ := r2
              rw [hf2] at h
              simp only at h ⊢
              refine ⟨_, rfl, ?_⟩
              have : opsOf ((pasteT (engineT f0 true pb) segT i.maxlength).dropLast ++ engineT fl false pf)
                  = (paste pb seg i.maxlength).dropLast ++ pf := by
                rw [← hp]
                simp [opsOf, List.map_dropLast]
                exact opsOf_engineT fl false pf
              rw [this]
              split at h <;> (simp only [Except.ok.injEq, Prod.mk.injEq] at h; exact h.2.2.1)
          · simp only [hin2, if_false] at h ⊢
            refine ⟨_, rfl, ?_⟩
            rw [hp]
            split at h <;> (simp only [Except.ok.injEq, Prod.mk.injEq] at h; exact h.2.2.1)
    · simp only [hin, if_false] at h ⊢
      have hl := opsOf_getLast segT
      rw [hops] at hl
      cases hlast : segT.getLast? with
      | none =>
        rw [hlast] at hl
        simp only [Option.map_none] at hl
        rw [hl] at h
        cases h
      | some fl =>
        rw [hlast] at hl
        simp only [Option.map_some] at hl
        rw [hl] at h
        simp only [hl] at h ⊢
        by_cases hin2 : i.l ≤ fl.op ∧ fl.op < i.r
        · simp only [hin2, and_self, if_true] at h ⊢
          cases hf2 : feedV v i.l i.r (some i.maxlength) [] (fl.op :: i.extForw) 0 with
          | none => rw [hf2] at h; cases h
          | some r2 =>
            obtain ⟨pf, okf, uf⟩ := r2
            rw [hf2] at h
            simp only at h ⊢
            refine ⟨_, rfl, ?_⟩
            have : opsOf (segT.dropLast ++ engineT fl false pf) = seg.dropLast ++ pf := by
              rw [← hops]
              simp [opsOf, List.map_dropLast]
              exact opsOf_engineT fl false pf
            rw [this]
            split at h <;> (simp only [Except.ok.injEq, Prod.mk.injEq] at h; exact h.2.2.1)
        · simp only [hin2, if_false] at h ⊢
          refine ⟨_, rfl, ?_⟩
          rw [hops]
          split at h <;> (simp only [Except.ok.injEq, Prod.mk.injEq] at h; exact h.2.2.1)

theorem subtT_of_ok (i : WfIn) (t : List Int) (to : Int) (tT : List TFrame) (st : Status) (t2 : List Int) (to2 : Int)
    (hops : opsOf tT = t) (h : subtAcceptance i t to = .ok (true, st, t2, to2)) :
    ∃ t2T, subtT i t tT = some t2T ∧ opsOf t2T = t2 := by
  unfold subtAcceptance at h
  unfold subtT
  repeat' split at h
  all_goals first
    | (cases h; done)
    | (simp only [Except.ok.injEq, Prod.mk.injEq] at h
       obtain ⟨h1, _, h3, _⟩ := h
       first
         | (cases h1; done)
         | (subst h3; simp_all [opsOf_reverseT]))

/-- **Link.** Whenever the order-value move `wireFencing` accepts, the frame-level function is defined, and its frames
    carry exactly the order values of the returned path. -/
theorem wireFencingT_of_acc (v : Variant) (i : WfIn) (o : WfOut) (krevs : List Bool) (seg0T : List TFrame)
    (h : wireFencing v i = .ok o) (hs : o.status = .ACC) :
    ∃ fs, wireFencingT v i krevs seg0T = some fs ∧ opsOf fs = o.path := by
  obtain ⟨seg, segTO, succ, draws, t1, to1, t2, to2, first, hj, hsucc, hext, hsub, hlr, hfirst, hsc, ho⟩ :=
    wf_acc_inv v i o h hs
  have hw : ¬ WF.weight i.m (capOf i) i.old = 0 := by
    intro hw0
    unfold wireFencing at h
    simp only [hw0, if_true, Except.ok.injEq] at h
    subst h
    cases hs
  obtain ⟨segT, hjT, hsegops⟩ := wfJumpsT_of_ok v i _ _ krevs _ _ seg0T 0 0 _ _ _ _ _ (fun h0 => absurd rfl h0) hj
  obtain ⟨t1T, heT, h1ops⟩ := extenderT_of_ok v i seg segTO segT _ _ _ _ (hsegops hsucc) hext
  obtain ⟨t2T, hsT, h2ops⟩ := subtT_of_ok i t1 to1 t1T _ _ _ h1ops hsub
  have hh := opsOf_head t2T
  rw [h2ops, hfirst] at hh
  cases hf : t2T.head? with
  | none => rw [hf] at hh; cases hh
  | some f =>
    rw [hf] at hh
    simp only [Option.map_some, Option.some.injEq] at hh
    refine ⟨t2T, ?_, by rw [h2ops, ho]⟩
    unfold wireFencingT
    have hnl : ¬ i.r < i.l := by omega
    simp only [hw, if_false]
    rcases hp : WF.pick i.m (capOf i) i.old i.xiSeg with _ | ⟨a, b, c⟩ <;>
    · simp only [hp] at hj hjT ⊢
      rw [hj, hjT]
      simp only [hsucc, if_false]
      rw [hext, heT]
      simp only []
      rw [hsub, hsT]
      simp only [hnl, if_false, hf, ← hh, hsc]
      simp

/-! ### witnesses (Mathlib-free file: `decide +kernel` through `Rat`) -/

/-- a wire-fencing move whose extended path runs from B to A and is turned around by `subt_acceptance`:
    sub-path `5, 3, 1` (jump from the frame 3 of the old path), extended forward to `5, 3, 1, 0, -1`, reversed -/
def wfRevEx : WfIn where
  old := [-1, 1, 2, 3, 2, 1, -1]
  oldTimeOrigin := 0
  l := 0
  m := 2
  r := 4
  cap := none
  maxlength := 20
  nJumps := 1
  sc := ⟨true, false⟩
  scEns := ⟨true, false⟩
  xiSeg := 1 / 2
  jumps := [{ idx := 1, kick := 3, back := [5], forw := [1] }]
  extBack := []
  extForw := [0, -1]

theorem wfRevEx_eval : (wireFencing .repaired wfRevEx).toOption.map (fun o => (o.status, o.path, o.timeOrigin))
    = some (.ACC, [-1, 0, 1, 3, 5], 0) := by decide +kernel

theorem wfRevEx_frames : wireFencingT .repaired wfRevEx [false] [] = some
    [⟨-1, 1, 3, 1, true⟩, ⟨0, 1, 2, 1, true⟩, ⟨1, 1, 1, 1, true⟩, ⟨3, 1, 0, -1, false⟩, ⟨5, 1, -1, -1, false⟩] := by
  decide +kernel

/-- the extended path of `wfRevEx` before `subt_acceptance` turns it around (B → A) -/
def revExBefore : List TFrame :=
  [⟨5, 1, -1, -1, true⟩, ⟨3, 1, 0, -1, true⟩, ⟨1, 1, 1, 1, false⟩, ⟨0, 1, 2, 1, false⟩, ⟨-1, 1, 3, 1, false⟩]

theorem revExBefore_eval : timeOrderedB revExBefore = true ∧ timeOrderedB (reverseT revExBefore) = true ∧
    timeOrderedB (reverseSetTrue revExBefore) = false ∧ timeOrderedB revExBefore.reverse = false ∧
    opsOf (reverseSetTrue revExBefore) = opsOf (reverseT revExBefore) := by decide +kernel

end Infretis.Moves
