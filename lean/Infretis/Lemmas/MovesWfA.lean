import Infretis.Lemmas.MovesMember
/-! Lemmas for the wire-fencing model (C09 stretch): flags of extender / subt_acceptance, accept/status and
    ACC inversion of `wireFencing`, general shape of engine-loop results, `paste` as a `take`. -/
namespace Infretis.Moves
open Infretis.Engine

/-- general shape of an engine-loop result (success or not) -/
theorem feedV_shape (v : Variant) (l r : Int) (M : Nat) (s : List Int) :
    ∀ (ops : List Int) (k : Nat) (p : List Int) (ok : Bool) (u : Nat), ops.length < M →
      feedV v l r (some M) ops s k = some (p, ok, u) →
      ∃ q, p = ops ++ q ∧ q <+: s ∧ (s ≠ [] → q ≠ []) ∧ p.length ≤ M ∧ (∀ y ∈ q.dropLast, l ≤ y ∧ y ≤ r) ∧
        (ok = true → ∃ x, q.getLast? = some x ∧ (x < l ∨ r < x)) ∧
        (ok = false → p.length = M ∨ q = s) := by
  induction s with
  | nil =>
    intro ops k p ok u hlt h
    simp only [feedV, Option.some.injEq, Prod.mk.injEq] at h
    obtain ⟨h1, h2, _⟩ := h
    subst h1 h2
    exact ⟨[], by simp, by simp, by simp, by omega, by simp, by simp, by simp⟩
  | cons y t ih =>
    intro ops k p ok u hlt h
    obtain ⟨res, he, hstop, hsucc⟩ := addToPathV_app v ops M y l r hlt
    simp only [feedV, he] at h
    by_cases hs : res.stop = true
    · simp only [hs, if_true, Option.some.injEq, Prod.mk.injEq] at h
      obtain ⟨hp, hsu, _⟩ := h
      subst hp
      refine ⟨[y], rfl, by simp, by simp, by simp; omega, by simp, ?_, ?_⟩
      · intro hok
        rw [← hsu, hsucc] at hok
        simp only [Bool.and_eq_true, decide_eq_true_eq] at hok
        exact ⟨y, by simp, hok.1⟩
      · intro hok
        left
        rw [← hsu, hsucc] at hok
        rw [hstop] at hs
        simp only [Bool.or_eq_true, decide_eq_true_eq] at hs
        simp only [Bool.and_eq_false_iff, decide_eq_false_iff_not, Bool.or_eq_false_iff] at hok
        simp only [List.length_append, List.length_singleton]
        rcases hs with h1 | h1
        · rcases hok with h2 | h2
          · exact absurd h1 h2
          · have := h2.1; omega
        · exact h1
    · simp only [hs] at h
      rw [hstop] at hs
      simp only [Bool.or_eq_true, decide_eq_true_eq, not_or] at hs
      obtain ⟨q, hp, hpre, hne, hlen, hin, hok, hnok⟩ := ih (ops ++ [y]) (k + 1) p ok u (by simp; omega) h
      refine ⟨y :: q, by simp [hp], by simpa using hpre, by simp, hlen, ?_, ?_, ?_⟩
      · intro z hz
        cases q with
        | nil => simp at hz
        | cons a q' =>
          simp only [List.dropLast_cons_cons, List.mem_cons] at hz
          rcases hz with h1 | h1
          · subst h1; omega
          · exact hin z h1
      · intro ho
        obtain ⟨x, hx, hxo⟩ := hok ho
        refine ⟨x, ?_, hxo⟩
        cases q with
        | nil => simp at hx
        | cons a q' => simpa [List.getLast?_cons_cons] using hx
      · intro ho
        rcases hnok ho with h1 | h1
        · exact Or.inl h1
        · right; rw [h1]

/-- one extension of the extender: from a frame `x0 ∈ [l, r)` with a stream at least as long as the limit.
    Either the result fills the limit, or it is `x0 :: pre ++ [x]` with `pre` inside and `x` strictly outside. -/
theorem ext_feed (v : Variant) (l r : Int) (M : Nat) (x0 : Int) (ext p : List Int) (ok : Bool) (u : Nat)
    (hx0 : l ≤ x0 ∧ x0 < r) (hlong : M ≤ ext.length)
    (h : feedV v l r (some M) [] (x0 :: ext) 0 = some (p, ok, u)) :
    p ≠ [] ∧ p.length ≤ M ∧ (p.length < M → ∃ pre x, p = x0 :: (pre ++ [x]) ∧ (∀ y ∈ pre, l ≤ y ∧ y ≤ r) ∧ (x < l ∨ r < x)) := by
  have hpos : 0 < M := by
    rcases Nat.eq_zero_or_pos M with h0 | h0
    · subst h0; rw [feedV_zero] at h; cases h
    · exact h0
  obtain ⟨q, hp, hpre, hne, hlen, hin, hok, hnok⟩ := feedV_shape v l r M _ [] 0 p ok u hpos h
  simp only [List.nil_append] at hp
  subst hp
  have hq := hne (by simp)
  refine ⟨hq, hlen, ?_⟩
  intro hlt
  have hokt : ok = true := by
    cases ok with
    | true => rfl
    | false =>
      rcases hnok rfl with h1 | h1
      · omega
      · rw [h1] at hlt; simp at hlt; omega
  obtain ⟨x, hx, hxo⟩ := hok hokt
  cases p with
  | nil => exact absurd rfl hq
  | cons a q' =>
    have ha : a = x0 := by
      have := hpre
      rw [List.cons_prefix_cons] at this
      exact this.1
    subst ha
    by_cases hne' : q' = []
    · subst hne'
      simp at hx
      omega
    · have hdec := (List.dropLast_concat_getLast hne').symm
      generalize q'.getLast hne' = z at hdec
      generalize q'.dropLast = d at hdec
      subst hdec
      have hz : (a :: (d ++ [z])).getLast? = some z := by
        rw [← List.cons_append, List.getLast?_append]; simp
      rw [hz] at hx
      simp only [Option.some.injEq] at hx
      subst hx
      refine ⟨d, z, rfl, ?_, hxo⟩
      intro y hy
      apply hin
      rw [← List.cons_append, List.dropLast_concat]
      simp [hy]

theorem appendAll_take (M : Nat) : ∀ (other self : List Int), self.length ≤ M →
    appendAll (some M) self other = ((self ++ other).take M, decide (self.length + other.length ≤ M)) := by
  intro other
  induction other with
  | nil => intro self h; simp [appendAll, List.take_of_length_le h, h]
  | cons x t ih =>
    intro self h
    by_cases hlt : self.length < M
    · simp only [appendAll, pathAppend, hlt, if_true]
      rw [ih (self ++ [x]) (by simp; omega)]
      have e : self.length + (0 + 1) + t.length = self.length + (t.length + 1) := by omega
      simp only [List.append_assoc, List.singleton_append, List.length_append,
        List.length_cons, List.length_nil, e]
    · have he : self.length = M := by omega
      simp only [appendAll, pathAppend, hlt, if_false]
      simp only [List.length_cons, Prod.mk.injEq]
      constructor
      · rw [List.take_append_of_le_length (by omega), List.take_of_length_le (by omega)]
      · simp; omega

theorem paste_take (pb pf : List Int) (M : Nat) : paste pb pf M = (pb.reverse ++ pf.tail).take M := by
  unfold paste
  rw [appendAll_take M pb.reverse [] (by simp)]
  simp only [List.nil_append, List.length_nil, Nat.zero_add, List.length_reverse]
  by_cases h : pb.length ≤ M
  · simp only [h, decide_true]
    rw [List.take_of_length_le (by simpa using h), appendAll_take M pf.tail pb.reverse (by simpa using h)]
  · simp only [h, decide_false]
    rw [List.take_append_of_le_length (by simp; omega)]

end Infretis.Moves

namespace Infretis.Moves
open Infretis.Engine

theorem extender_flag (v : Variant) (i : WfIn) (seg : List Int) (to : Int) (b : Bool) (st : Status)
    (t : List Int) (to' : Int) (h : extender v i seg to = .ok (b, st, t, to')) :
    (b = true ↔ st = .ACC) ∧ (b = true → t.length < i.maxlength) ∧ (b = false → st = .FTX) := by
  unfold extender at h
  simp only at h
  repeat' split at h
  all_goals first
    | (cases h; done)
    | (simp only [Except.ok.injEq, Prod.mk.injEq] at h
       obtain ⟨h1, h2, h3, _⟩ := h
       subst h1 h2 h3
       simp
       try omega)

theorem subt_flag (i : WfIn) (t : List Int) (to : Int) (b : Bool) (st : Status) (t' : List Int) (to' : Int)
    (h : subtAcceptance i t to = .ok (b, st, t', to')) :
    (b = true ↔ st = .ACC) ∧ (b = false → st = .BWI) ∧ t'.length = t.length := by
  unfold subtAcceptance at h
  repeat' split at h
  all_goals first
    | (cases h; done)
    | (simp only [Except.ok.injEq, Prod.mk.injEq] at h
       obtain ⟨h1, h2, h3, _⟩ := h
       subst h1 h2 h3
       simp)
end Infretis.Moves
namespace Infretis.Moves
open Infretis.Engine

theorem wf_accept_status (v : Variant) (i : WfIn) (o : WfOut) (h : wireFencing v i = .ok o) :
    o.accept = true ↔ o.status = .ACC := by
  unfold wireFencing at h
  simp only at h
  split at h
  · simp only [Except.ok.injEq] at h; subst h; simp
  · split at h
    · cases h
    · split at h
      · simp only [Except.ok.injEq] at h; subst h; simp
      · split at h
        · cases h
        · rename_i ok1 st1 t1 to1 hext
          split at h
          · cases h
          · rename_i ok2 st2 t2 to2 hsub
            split at h
            · rename_i hk
              simp only [Except.ok.injEq] at h; subst h
              simp only [Bool.false_eq_true, false_iff]
              subst hk
              by_cases h1 : ok1 = true
              · simp only [h1, if_true] at hsub
                rw [(subt_flag i t1 to1 _ _ _ _ hsub).2.1 rfl]; simp
              · have h1' : ok1 = false := by simpa using h1
                simp only [h1', Bool.false_eq_true, if_false, Except.ok.injEq, Prod.mk.injEq] at hsub
                rw [← hsub.2.1, (extender_flag v i _ _ _ _ _ _ hext).2.2 h1']; simp
            · repeat' split at h
              all_goals first
                | (cases h; done)
                | (simp only [Except.ok.injEq] at h; subst h; simp)

theorem wf_acc_inv (v : Variant) (i : WfIn) (o : WfOut) (h : wireFencing v i = .ok o) (hs : o.status = .ACC) :
    ∃ seg segTO succ draws t1 to1 t2 to2 first,
      wfJumps v i i.nJumps i.jumps
        (match WF.pick i.m (capOf i) i.old i.xiSeg with
          | some (a, b, _) => (i.old.drop a).take (b + 1 - a)
          | none => []) i.oldTimeOrigin 0 [.random] = .ok (seg, segTO, succ, draws) ∧
      succ ≠ 0 ∧ extender v i seg segTO = .ok (true, .ACC, t1, to1) ∧
      subtAcceptance i t1 to1 = .ok (true, .ACC, t2, to2) ∧ i.l ≤ i.r ∧ t2.head? = some first ∧
      scIs i.sc (WF.startPoint i.l i.r first) = true ∧
      o = { accept := true, status := .ACC, path := t2, returnedOld := false, oldRewritten := false,
            genSucc := succ, genLen := t2.length, timeOrigin := to2, draws := draws } := by
  have hacc := (wf_accept_status v i o h).2 hs
  unfold wireFencing at h
  simp only at h
  split at h
  · simp only [Except.ok.injEq] at h; subst h; cases hacc
  · split at h
    · cases h
    · rename_i seg segTO succ draws hj
      split at h
      · simp only [Except.ok.injEq] at h; subst h; cases hacc
      · rename_i hsucc
        split at h
        · cases h
        · rename_i ok1 st1 t1 to1 hext
          split at h
          · cases h
          · rename_i ok2 st2 t2 to2 hsub
            split at h
            · simp only [Except.ok.injEq] at h; subst h; cases hacc
            · rename_i hok2
              have hok2' : ok2 = true := by simpa using hok2
              subst hok2'
              split at h
              · cases h
              · rename_i hlr
                split at h
                · cases h
                · rename_i first hfirst
                  split at h
                  · cases h
                  · rename_i hsc
                    simp only [Except.ok.injEq] at h
                    by_cases h1 : ok1 = true
                    · subst h1
                      simp only [if_true] at hsub
                      have hst2 := ((subt_flag i t1 to1 _ _ _ _ hsub).1).1 rfl
                      subst hst2
                      have hst1 := ((extender_flag v i _ _ _ _ _ _ hext).1).1 rfl
                      subst hst1
                      exact ⟨seg, segTO, succ, draws, t1, to1, t2, to2, first, hj, hsucc, hext, hsub, by omega, hfirst,
                        by simpa using hsc, h.symm⟩
                    · have h1' : ok1 = false := by simpa using h1
                      simp only [h1', Bool.false_eq_true, if_false, Except.ok.injEq, Prod.mk.injEq] at hsub
                      exact absurd hsub.1 (by simp)
end Infretis.Moves
