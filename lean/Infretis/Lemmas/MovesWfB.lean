import Infretis.Lemmas.MovesWfA
/-! Wire fencing (C09 stretch): the extender produces a path of the ensemble; the jump loop ends on an
    accepted sub-shoot; `subt_acceptance` returns the path or its reversal. -/
namespace Infretis.Moves
open Infretis.Engine

/-- a path of the ensemble `[l, r]`: both ends outside `[l, r)`, every other frame inside `[l, r]` -/
def EnsPath (l r : Int) (p : List Int) : Prop :=
  ∃ a mid b, p = a :: (mid ++ [b]) ∧ (a < l ∨ r ≤ a) ∧ (b < l ∨ r ≤ b) ∧ ∀ y ∈ mid, l ≤ y ∧ y ≤ r

theorem EnsPath.reverse {l r : Int} {p : List Int} (h : EnsPath l r p) : EnsPath l r p.reverse := by
  obtain ⟨a, mid, b, hp, ha, hb, hm⟩ := h
  refine ⟨b, mid.reverse, a, by rw [hp]; simp, hb, ha, ?_⟩
  intro y hy
  exact hm y (by simpa using hy)

/-- the extender turns a segment whose interior lies in `[l, r]` into a path of the ensemble, provided the
    MD programs run at least `maxlength` steps (they do: engines run `path.maxlen` steps) -/
theorem extender_member (v : Variant) (i : WfIn) (xB xF : Int) (midS : List Int) (to to' : Int) (t : List Int)
    (hmid : ∀ y ∈ midS, i.l ≤ y ∧ y ≤ i.r)
    (hlb : i.maxlength ≤ i.extBack.length) (hlf : i.maxlength ≤ i.extForw.length)
    (h : extender v i (xB :: (midS ++ [xF])) to = .ok (true, .ACC, t, to')) :
    EnsPath i.l i.r t ∧ (∀ z ∈ midS, z ∈ t) ∧ t.length < i.maxlength := by
  have hlen : t.length < i.maxlength := (extender_flag v i _ _ _ _ _ _ h).2.1 rfl
  unfold extender at h
  simp only [List.head?_cons] at h
  -- backward part
  have hback : ∀ t1 to1,
      (if i.l ≤ xB ∧ xB < i.r then
        match feedV v i.l i.r (some i.maxlength) [] (xB :: i.extBack) 0 with
        | none => Except.error Err.index
        | some (pb, _, _) => Except.ok (paste pb (xB :: (midS ++ [xF])) i.maxlength, to - ↑pb.length + 1)
      else Except.ok (xB :: (midS ++ [xF]), to)) = Except.ok (t1, to1) →
      t1.length < i.maxlength →
      ∃ a mid1, t1 = a :: (mid1 ++ [xF]) ∧ (a < i.l ∨ i.r ≤ a) ∧ (∀ y ∈ mid1, i.l ≤ y ∧ y ≤ i.r) ∧
        (∀ z ∈ midS, z ∈ mid1) := by
    intro t1 to1 h1 hl1
    by_cases hc : i.l ≤ xB ∧ xB < i.r
    · simp only [hc, and_self, if_true] at h1
      cases hf : feedV v i.l i.r (some i.maxlength) [] (xB :: i.extBack) 0 with
      | none => rw [hf] at h1; cases h1
      | some res =>
        obtain ⟨pb, okB, uB⟩ := res
        rw [hf] at h1
        simp only [Except.ok.injEq, Prod.mk.injEq] at h1
        obtain ⟨ht1, _⟩ := h1
        obtain ⟨hne, hle, hdec⟩ := ext_feed v i.l i.r i.maxlength xB i.extBack pb okB uB hc hlb hf
        rw [paste_take] at ht1
        have hpbl : pb.length < i.maxlength := by
          rw [← ht1, List.length_take] at hl1
          simp only [List.length_append, List.length_reverse, List.tail_cons, List.length_singleton] at hl1
          omega
        obtain ⟨pre, x, hpb, hpre, hx⟩ := hdec hpbl
        subst hpb
        rw [List.take_of_length_le (by
          rw [← ht1, List.length_take] at hl1
          simp only [List.length_append, List.length_reverse, List.tail_cons,
            List.length_cons] at hl1 ⊢
          omega)] at ht1
        refine ⟨x, pre.reverse ++ xB :: midS, by rw [← ht1]; simp, by omega, ?_, by intro z hz; simp [hz]⟩
        intro y hy
        simp only [List.mem_append, List.mem_reverse, List.mem_cons] at hy
        rcases hy with hy | hy | hy
        · exact hpre y hy
        · subst hy; omega
        · exact hmid y hy
    · simp only [hc, if_false, Except.ok.injEq, Prod.mk.injEq] at h1
      obtain ⟨ht1, _⟩ := h1
      refine ⟨xB, midS, ht1.symm, by omega, hmid, fun z hz => hz⟩
  split at h
  · cases h
  · rename_i t1 to1 h1
    split at h
    · cases h
    · rename_i last hlast
      split at h
      · cases h
      · rename_i t2 h2
        split at h
        · cases h
        · simp only [Except.ok.injEq, Prod.mk.injEq, true_and] at h
          obtain ⟨ht, _⟩ := h
          subst ht
          -- t1 is short enough
          have ht1len : t1.length < i.maxlength := by
            by_cases hc : i.l ≤ last ∧ last < i.r
            · simp only [hc, and_self, if_true] at h2
              cases hf : feedV v i.l i.r (some i.maxlength) [] (last :: i.extForw) 0 with
              | none => rw [hf] at h2; cases h2
              | some res =>
                obtain ⟨pf, okF, uF⟩ := res
                rw [hf] at h2
                simp only [Except.ok.injEq] at h2
                obtain ⟨hne, _, _⟩ := ext_feed v i.l i.r i.maxlength last i.extForw pf okF uF hc hlf hf
                have : 0 < pf.length := List.length_pos_iff.mpr hne
                rw [← h2] at hlen
                simp only [List.length_append, List.length_dropLast] at hlen
                omega
            · simp only [hc, if_false, Except.ok.injEq] at h2
              rw [h2]; exact hlen
          obtain ⟨a, mid1, ht1, ha, hm1, hsub⟩ := hback t1 to1 h1 ht1len
          subst ht1
          have hl : last = xF := by
            rw [← List.cons_append, List.getLast?_append] at hlast
            simpa using hlast.symm
          subst hl
          by_cases hc : i.l ≤ last ∧ last < i.r
          · simp only [hc, and_self, if_true] at h2
            cases hf : feedV v i.l i.r (some i.maxlength) [] (last :: i.extForw) 0 with
            | none => rw [hf] at h2; cases h2
            | some res =>
              obtain ⟨pf, okF, uF⟩ := res
              rw [hf] at h2
              simp only [Except.ok.injEq] at h2
              obtain ⟨hne, hle, hdec⟩ := ext_feed v i.l i.r i.maxlength last i.extForw pf okF uF hc hlf hf
              have hpfl : pf.length < i.maxlength := by
                rw [← h2] at hlen
                simp only [List.length_append, List.length_dropLast] at hlen
                omega
              obtain ⟨pre, x, hpf, hpre, hx⟩ := hdec hpfl
              subst hpf
              have hdl : (a :: (mid1 ++ [last])).dropLast = a :: mid1 := by
                rw [← List.cons_append, List.dropLast_concat]
              rw [hdl] at h2
              refine ⟨⟨a, mid1 ++ last :: pre, x, by rw [← h2]; simp, ha, by omega, ?_⟩, ?_, hlen⟩
              · intro y hy
                simp only [List.mem_append, List.mem_cons] at hy
                rcases hy with hy | hy | hy
                · exact hm1 y hy
                · subst hy; omega
                · exact hpre y hy
              · intro z hz
                rw [← h2]
                simp [hsub z hz]
          · simp only [hc, if_false, Except.ok.injEq] at h2
            subst h2
            refine ⟨⟨a, mid1, last, rfl, ha, by omega, hm1⟩, ?_, hlen⟩
            intro z hz
            simp [hsub z hz]

theorem subt_path (i : WfIn) (t : List Int) (to : Int) (b : Bool) (st : Status) (t' : List Int) (to' : Int)
    (h : subtAcceptance i t to = .ok (b, st, t', to')) : t' = t ∨ t' = t.reverse := by
  unfold subtAcceptance at h
  repeat' split at h
  all_goals first
    | (cases h; done)
    | (simp only [Except.ok.injEq, Prod.mk.injEq] at h
       obtain ⟨_, _, h3, _⟩ := h
       subst h3
       simp)

/-- the jump loop either changed nothing or ended on the trial path of an accepted sub-ensemble shoot -/
theorem wfJumps_acc (v : Variant) (i : WfIn) : ∀ (n : Nat) (js : List WfJump) (seg : List Int) (to : Int)
    (succ : Nat) (d : List Draw) (seg' : List Int) (to' : Int) (succ' : Nat) (d' : List Draw),
    wfJumps v i n js seg to succ d = .ok (seg', to', succ', d') →
    (succ' = succ ∧ seg' = seg) ∨
    (succ < succ' ∧ ∃ s t j o, shoot v (subShootIn i s t j) = .ok o ∧ o.accept = true ∧ seg' = o.trial) := by
  intro n
  induction n with
  | zero =>
    intro js seg to succ d seg' to' succ' d' h
    simp only [wfJumps, Except.ok.injEq, Prod.mk.injEq] at h
    left; exact ⟨h.2.2.1.symm, h.1.symm⟩
  | succ n ih =>
    intro js seg to succ d seg' to' succ' d' h
    cases js with
    | nil => simp [wfJumps] at h
    | cons j js =>
      simp only [wfJumps] at h
      cases hs : shoot v (subShootIn i seg to j) with
      | error e => rw [hs] at h; cases h
      | ok o =>
        rw [hs] at h
        simp only at h
        by_cases ha : o.accept = true
        · simp only [ha, if_true] at h
          rcases ih _ _ _ _ _ _ _ _ _ h with ⟨h1, h2⟩ | ⟨h1, h2⟩
          · right
            exact ⟨by omega, seg, to, j, o, hs, ha, h2⟩
          · right
            exact ⟨by omega, h2⟩
        · simp only [ha] at h
          exact ih _ _ _ _ _ _ _ _ _ h

end Infretis.Moves
