import Infretis.Lemmas.MovesTable
import Infretis.Lemmas.WF
import Mathlib.Data.List.Basic
/-! C09 extension: the path an accepted wire-fencing move returns has non-zero wire-fencing weight in its own
    ensemble — provided no frame lies exactly ON the cap interface (a frame equal to the cap is "inside" for
    `add_to_path`, which tests `> right`, and "outside" for the weight scan, which tests `>= right`).

    Route: the extender returns `A ++ seg ++ B` (contiguity, `extender_infix`), the last accepted sub-ensemble
    shoot gives `seg = xB :: reverse preB ++ kick :: preF ++ [xF]` with the interior inside `[m, cap]`, one end below
    `m`; so the shooting point is a valid frame in the sense of C10's `weight_pos_iff`. -/
namespace Infretis.Moves
open Infretis.Engine

/-- a successful engine loop started on an empty path with a non-empty stream returns the first value followed by a
    prefix of the rest -/
theorem feedV_head (v : Variant) (l r : Int) (M : Nat) (x0 : Int) (ext p : List Int) (ok : Bool) (u : Nat)
    (h : feedV v l r (some M) [] (x0 :: ext) 0 = some (p, ok, u)) :
    ∃ q, p = x0 :: q ∧ p.length ≤ M := by
  have hpos : 0 < M := by
    rcases Nat.eq_zero_or_pos M with h0 | h0
    · subst h0; rw [feedV_zero] at h; cases h
    · exact h0
  obtain ⟨q, hp, hpre, hne, hlen, _, _, _⟩ := feedV_shape v l r M _ [] 0 p ok u hpos h
  simp only [List.nil_append] at hp
  subst hp
  cases p with
  | nil => exact absurd rfl (hne (by simp))
  | cons a q' =>
    rw [List.cons_prefix_cons] at hpre
    exact ⟨q', by rw [hpre.1], hlen⟩

/-- **contiguity**: an extender result shorter than `maxlength` contains the source segment as a block -/
theorem extender_infix (v : Variant) (i : WfIn) (seg : List Int) (tor tor' : Int) (b : Bool) (st : Status) (t : List Int)
    (h : extender v i seg tor = .ok (b, st, t, tor')) (hlen : t.length < i.maxlength) :
    ∃ A B, t = A ++ seg ++ B := by
  unfold extender at h
  cases hh : seg.head? with
  | none => rw [hh] at h; cases h
  | some first =>
    rw [hh] at h
    simp only at h
    have hseg : seg = first :: seg.tail := by
      cases seg with
      | nil => cases hh
      | cons a s => simp only [List.head?_cons, Option.some.injEq] at hh; subst hh; rfl
    split at h
    · cases h
    · rename_i t1 to1 h1
      split at h
      · cases h
      · rename_i last hlast
        split at h
        · cases h
        · rename_i t2 h2
          have ht : t = t2 := by
            split at h <;> (simp only [Except.ok.injEq, Prod.mk.injEq] at h; exact h.2.2.1.symm)
          subst ht
          -- forward part: t = t1 ++ B
          have hfw : ∃ B, t = t1 ++ B := by
            by_cases hc : i.l ≤ last ∧ last < i.r
            · simp only [hc, and_self, if_true] at h2
              cases hf : feedV v i.l i.r (some i.maxlength) [] (last :: i.extForw) 0 with
              | none => rw [hf] at h2; cases h2
              | some res =>
                obtain ⟨pf, okF, uF⟩ := res
                rw [hf] at h2
                simp only [Except.ok.injEq] at h2
                obtain ⟨q, hq, _⟩ := feedV_head v i.l i.r i.maxlength last i.extForw pf okF uF hf
                subst hq
                refine ⟨q, ?_⟩
                rw [← h2]
                have hne : t1 ≠ [] := by intro e; rw [e] at hlast; cases hlast
                have hd := List.dropLast_append_getLast? last hlast
                calc t1.dropLast ++ last :: q = (t1.dropLast ++ [last]) ++ q := by simp
                  _ = t1 ++ q := by rw [hd]
            · simp only [hc, if_false, Except.ok.injEq] at h2
              exact ⟨[], by rw [← h2]; simp⟩
          obtain ⟨B, hB⟩ := hfw
          have hl1 : t1.length < i.maxlength := by rw [hB] at hlen; simp at hlen; omega
          -- backward part: t1 = A ++ seg
          have hbw : ∃ A, t1 = A ++ seg := by
            by_cases hc : i.l ≤ first ∧ first < i.r
            · simp only [hc, and_self, if_true] at h1
              cases hf : feedV v i.l i.r (some i.maxlength) [] (first :: i.extBack) 0 with
              | none => rw [hf] at h1; cases h1
              | some res =>
                obtain ⟨pb, okB, uB⟩ := res
                rw [hf] at h1
                simp only [Except.ok.injEq, Prod.mk.injEq] at h1
                obtain ⟨q, hq, _⟩ := feedV_head v i.l i.r i.maxlength first i.extBack pb okB uB hf
                subst hq
                have e1 := h1.1
                rw [paste_take] at e1
                have e2 : (first :: q).reverse ++ seg.tail = q.reverse ++ seg := by
                  rw [List.reverse_cons, List.append_assoc]
                  congr 1
                  exact hseg.symm
                rw [e2] at e1
                have hnt : (q.reverse ++ seg).length ≤ i.maxlength := by
                  by_contra hgt
                  have : t1.length = i.maxlength := by
                    rw [← e1, List.length_take]; omega
                  omega
                rw [List.take_of_length_le hnt] at e1
                exact ⟨q.reverse, e1.symm⟩
            · simp only [hc, if_false, Except.ok.injEq, Prod.mk.injEq] at h1
              exact ⟨[], by rw [← h1.1]; simp⟩
          obtain ⟨A, hA⟩ := hbw
          exact ⟨A, B, by rw [hB, hA]⟩

/-- what `shoot_acc_structure` says about an accepted sub-ensemble shoot of a wire-fencing jump
    (interfaces `[m, m, cap]`, start condition `{L, R}`, ensemble start condition from the ensemble) -/
theorem shoot_acc_structure_member (v : Variant) (i : WfIn) (s : List Int) (t : Int) (j : WfJump) (so : ShootOut)
    (hsh : shoot v (subShootIn i s t j) = .ok so) (hss : so.status = .ACC) :
    ∃ (preB preF restB restF : List Int) (xB xF : Int),
      j.back = preB ++ xB :: restB ∧ j.forw = preF ++ xF :: restF ∧
      so.trial = xB :: (preB.reverse ++ j.kick :: (preF ++ [xF])) ∧
      (xB < i.m ∨ capOf i < xB) ∧ (xF < i.m ∨ capOf i < xF) ∧
      (∀ y ∈ preB.reverse ++ j.kick :: preF, i.m ≤ y ∧ y ≤ capOf i) ∧ j.kick < capOf i ∧ True ∧
      ((i.scEns.hasL = true ∧ i.scEns.hasR = true) ∨
        ((∃ y ∈ xB :: (preB.reverse ++ j.kick :: (preF ++ [xF])), y < i.m) ∧ True)) ∧ True := by
  obtain ⟨preB, preF, restB, restF, xB, xF, hB, hF, htr, hstart, h0L, hcross, hlen, hnb, hsp, hidx, hi1, hi2,
    hk1, hk2, hlr, hto, hacc⟩ := shoot_acc_structure v _ so hsh hss
  simp only [subShootIn] at hB hF htr hstart hk1 hk2 hcross
  have htr' : so.trial = xB :: (preB.reverse ++ j.kick :: (preF ++ [xF])) := by
    rw [htr]; simp [fullTrial]
  refine ⟨preB, preF, restB, restF, xB, xF, hB.eq, hF.eq, htr', ?_, hF.outside, ?_, hk2, trivial, ?_, trivial⟩
  · rcases hstart with h1 | h1
    · exact Or.inl h1.1
    · exact Or.inr h1.1
  · intro y hy
    simp only [List.mem_append, List.mem_reverse, List.mem_cons] at hy
    rcases hy with hy | hy | hy
    · exact hB.inside y hy
    · subst hy; omega
    · exact hF.inside y hy
  · rcases hcross with hc | ⟨hc, _⟩
    · left; simpa [effSc, subShootIn] using hc
    · right; rw [htr'] at hc; exact ⟨hc, trivial⟩

open Infretis.WF in
/-- nearest outside frame of a context that starts with inside frames -/
theorem firstOutside_run (l r : Int) (ins : List Int) (x : Int) (rest : List Int)
    (hin : ∀ y ∈ ins, inside l r y = true) (hx : inside l r x = false) :
    firstOutside l r (ins ++ x :: rest) = some x := by
  induction ins with
  | nil => simp [firstOutside, hx]
  | cons a t ih =>
    have ha := hin a (by simp)
    simp only [List.cons_append, firstOutside, ha, if_true]
    exact ih (fun y hy => hin y (by simp [hy]))

open Infretis.WF in
/-- one valid frame makes the per-frame count positive (the direction of C10's `weight_pos_iff` needed here,
    proved locally so that this package does not depend on another package's Props file) -/
theorem countFrom_pos_of_valid (l r : Int) : ∀ (pre lctx : List Int) (x : Int) (suf : List Int),
    validAt l r (pre.reverse ++ lctx) x suf = true → 0 < countFrom l r lctx (pre ++ x :: suf) := by
  intro pre
  induction pre with
  | nil =>
    intro lctx x suf h
    simp only [List.reverse_nil, List.nil_append] at h
    simp only [List.nil_append, countFrom, h, if_true]
    omega
  | cons a pre ih =>
    intro lctx x suf h
    simp only [List.cons_append, countFrom]
    have := ih (a :: lctx) x suf (by simpa using h)
    omega

open Infretis.WF in
/-- a frame inside `[l, r)` whose run is bounded by `a` before and `b` after, not both `≥ r`, gives positive weight -/
theorem weight_pos_of_block (l r : Int) (hlr : l ≤ r) (A B insL insR : List Int) (a b x : Int)
    (hL : ∀ y ∈ insL, inside l r y = true) (hR : ∀ y ∈ insR, inside l r y = true)
    (hx : inside l r x = true) (ha : inside l r a = false) (hb : inside l r b = false)
    (hab : ¬ (a ≥ r ∧ b ≥ r)) :
    0 < weight l r (A ++ a :: (insL.reverse ++ x :: (insR ++ b :: B))) := by
  rw [weight_eq_runs l r hlr, runs_none_eq_spec]
  unfold specWeight
  have e0 : A ++ a :: (insL.reverse ++ x :: (insR ++ b :: B)) = (A ++ a :: insL.reverse) ++ x :: (insR ++ b :: B) := by
    simp
  rw [e0]
  apply countFrom_pos_of_valid
  have e : (A ++ a :: insL.reverse).reverse ++ [] = insL ++ a :: A.reverse := by simp
  rw [e]
  unfold validAt
  rw [firstOutside_run l r insL a _ hL ha, firstOutside_run l r insR b _ hR hb, hx]
  simp only [closes, Bool.true_and, Bool.not_eq_true', Bool.and_eq_false_iff, decide_eq_false_iff_not]
  by_cases h1 : a ≥ r
  · right; intro h2; exact hab ⟨h1, h2⟩
  · left; exact h1

open Infretis.WF in
/-- **own-ensemble weight of an accepted wire-fencing path** (generic position: no frame exactly on the cap) -/
theorem wf_acc_weight_pos_aux (v : Variant) (i : WfIn) (o : WfOut) (h : wireFencing v i = .ok o) (hs : o.status = .ACC)
    (hsc : ¬ (i.scEns.hasL = true ∧ i.scEns.hasR = true))
    (hgen : ∀ y ∈ o.path, y ≠ capOf i) :
    0 < weight i.m (capOf i) o.path ∧ i.l ≤ capOf i ∧ o.path ≠ [] := by
  obtain ⟨seg, segTO, succ, draws, t1, to1, t2, to2, first, hj, hsucc, hext, hsub, hlr, hfirst, hsc', ho⟩ :=
    wf_acc_inv v i o h hs
  have hpath : o.path = t2 := by rw [ho]
  have hlcap : i.l ≤ capOf i := by
    unfold subtAcceptance at hsub
    by_cases hc : capOf i < i.l
    · simp [hc] at hsub
    · omega
  have hne : o.path ≠ [] := by
    rw [hpath]; intro e; rw [e] at hfirst; cases hfirst
  refine ⟨?_, hlcap, hne⟩
  rcases wfJumps_acc v i _ _ _ _ _ _ _ _ _ _ hj with ⟨h1, _⟩ | ⟨_, s, t, j, so, hsh, hacc, hseg⟩
  · exact absurd h1 hsucc
  have hss := (shoot_accept_status v _ so hsh).1 hacc
  obtain ⟨preB, preF, restB, restF, xB, xF, _, _, htr, hstart, hxF, hin, hk2, _, hcross, _⟩ :=
    shoot_acc_structure_member v i s t j so hsh hss
  have hk1 : i.m ≤ j.kick := (hin j.kick (by simp)).1
  have hmc : i.m ≤ capOf i := by omega
  have hlen1 : t1.length < i.maxlength := (extender_flag v i _ _ _ _ _ _ hext).2.1 rfl
  obtain ⟨A, B, hAB⟩ := extender_infix v i seg segTO to1 true .ACC t1 hext hlen1
  have h12 := subt_path i t1 to1 _ _ _ _ hsub
  have hmem1 : ∀ y ∈ t1, y ≠ capOf i := by
    intro y hy
    apply hgen y
    rw [hpath]
    rcases h12 with e | e <;> rw [e]
    · exact hy
    · simpa using hy
  have hsegmem : ∀ y ∈ seg, y ≠ capOf i := fun y hy => hmem1 y (by rw [hAB]; simp [hy])
  rw [hseg, htr] at hsegmem hAB
  have hinsB : ∀ y ∈ preB, inside i.m (capOf i) y = true := by
    intro y hy
    have h1 := hin y (by simp [hy])
    have h2 := hsegmem y (by simp [hy])
    rw [inside_iff]; omega
  have hinsF : ∀ y ∈ preF, inside i.m (capOf i) y = true := by
    intro y hy
    have h1 := hin y (by simp [hy])
    have h2 := hsegmem y (by simp [hy])
    rw [inside_iff]; omega
  have hkin : inside i.m (capOf i) j.kick = true := by rw [inside_iff]; omega
  have hxBo : inside i.m (capOf i) xB = false := by rw [inside_false_iff]; omega
  have hxFo : inside i.m (capOf i) xF = false := by rw [inside_false_iff]; omega
  have hab : ¬ (xB ≥ capOf i ∧ xF ≥ capOf i) := by
    rcases hcross with hc | ⟨⟨y, hy, hym⟩, _⟩
    · exact absurd hc hsc
    · simp only [List.mem_cons, List.mem_append, List.mem_reverse, List.not_mem_nil, or_false] at hy
      rcases hy with e | e | e | e | e
      · subst e; omega
      · have := hin y (by simp [e]); omega
      · subst e; omega
      · have := hin y (by simp [e]); omega
      · subst e; omega
  rw [hpath]
  rcases h12 with e | e
  · rw [e, hAB]
    have := weight_pos_of_block i.m (capOf i) hmc A B preB preF xB xF j.kick hinsB hinsF hkin hxBo hxFo hab
    simpa using this
  · rw [e, hAB]
    have := weight_pos_of_block i.m (capOf i) hmc B.reverse A.reverse preF preB xF xB j.kick hinsF hinsB hkin hxFo hxBo
      (fun hh => hab ⟨hh.2, hh.1⟩)
    simpa using this

end Infretis.Moves

namespace Infretis.Moves

/-- the boundary witness: sub-path `1, 6, 3, 6, 1` with two frames exactly on the cap (= `r` = 6) -/
def wfCapEx : WfIn where
  old := [-1, 1, 3, 1, -1]
  oldTimeOrigin := 0
  l := 0
  m := 2
  r := 6
  cap := none
  maxlength := 12
  nJumps := 1
  sc := ⟨true, false⟩
  scEns := ⟨true, false⟩
  xiSeg := 1 / 2
  jumps := [{ idx := 1, kick := 3, back := [6, 1], forw := [6, 1] }]
  extBack := [-1, 0, 0, 0, 0, 0, 0, 0, 0, 0, 0, 0]
  extForw := [-1, 0, 0, 0, 0, 0, 0, 0, 0, 0, 0, 0]

theorem wfCapEx_eval : (wireFencing .repaired wfCapEx).toOption = some
    { accept := true, status := .ACC, path := [-1, 1, 6, 3, 6, 1, -1], returnedOld := false, oldRewritten := false,
      genSucc := 1, genLen := 7, timeOrigin := -2, draws := [.random, .integers 1 2] } := by decide +kernel

end Infretis.Moves
