import Infretis.Lemmas.MovesShoot
/-! Concrete inputs of `Moves.shoot` evaluated by the kernel (`decide +kernel`): the non-vacuity
    examples (for `repaired`, the code since /repo f955162) and the witness of the `length == maxlen`
    finding of the earlier code (`asIs`).  No Mathlib import here on purpose:
    the evaluations go through core `Rat` only. -/
namespace Infretis.Moves

/-- an accepted move: old path of 4 frames, ξ = 1/4, backward `[3, −1]`, forward `[2, 5]` -/
def exIn : ShootIn where
  old := [-1, 2, 2, -1]
  oldTimeOrigin := 10
  genLd := false
  l := 0
  m := 1
  r := 4
  maxlength := 100
  allowMax := false
  sc := ⟨true, false⟩
  scEns := none
  idx := 2
  xi := 1 / 4
  kick := 2
  back := [3, -1, 7]
  forw := [2, 5, 7]

theorem exIn_eval : (shoot .repaired exIn).toOption = some
    { accept := true, status := .ACC, trial := [-1, 3, 2, 2, 5], genSp := 2, genIdx := 2, genNb := 2,
      timeOrigin := 10, draws := [.integers 1 3, .random], usedB := 3, usedF := 3 } := by decide +kernel

theorem exIn_reject_eval : (shoot .repaired { exIn with forw := [2, 2, 2] }).toOption = some
    { accept := false, status := .FTL, trial := [-1, 3, 2, 2, 2, 2], genSp := 2, genIdx := 2, genNb := 2,
      timeOrigin := 10, draws := [.integers 1 3, .random], usedB := 3, usedF := 4 } := by decide +kernel

theorem exIn_allowmax_eval : (shoot .repaired { exIn with allowMax := true }).toOption.map (fun o => (o.status, o.draws))
    = some (.ACC, [.integers 1 3]) := by decide +kernel

theorem exIn_xi_pos : 0 < exIn.xi := by decide +kernel

theorem exIn_shape : finalChecks exIn (fullTrial exIn.kick [3] (-1) [2] 5) = (true, .ACC) := by decide +kernel

/-- the witness of the finding: `L_old = 4`, `ξ = 0.49`, backward `[2, −1]`, forward `[2, 2, 5]`
    (`L_new = 6`, `n_old/n_new = 2/4`) -/
def wit : ShootIn where
  old := [-1, 2, 2, -1]
  oldTimeOrigin := 0
  genLd := false
  l := 0
  m := 1
  r := 4
  maxlength := 100
  allowMax := false
  sc := ⟨true, false⟩
  scEns := none
  idx := 1
  xi := 49 / 100
  kick := 2
  back := [2, -1]
  forw := [2, 2, 5]

theorem wit_asIs_eval : (shoot .asIs wit).toOption = some
    { accept := false, status := .FTL, trial := [-1, 2, 2, 2, 2, 5], genSp := 2, genIdx := 1, genNb := 2,
      timeOrigin := -1, draws := [.integers 1 3, .random], usedB := 3, usedF := 4 } := by decide +kernel

theorem wit_repaired_eval : (shoot .repaired wit).toOption = some
    { accept := true, status := .ACC, trial := [-1, 2, 2, 2, 2, 5], genSp := 2, genIdx := 1, genNb := 2,
      timeOrigin := -1, draws := [.integers 1 3, .random], usedB := 3, usedF := 4 } := by decide +kernel

theorem wit_xi_pos : 0 < wit.xi := by decide +kernel

theorem wit_xi_le : wit.xi ≤ 2 / 4 := by decide +kernel

theorem wit_shape : finalChecks wit (fullTrial wit.kick [2] (-1) [2, 2] 5) = (true, .ACC) := by decide +kernel

/-- an accepted wire-fencing move: segment = the whole old path, one jump, backward extension -/
def wfEx : WfIn where
  old := [-1, 1, 2, 1, -1]
  oldTimeOrigin := 0
  l := 0
  m := 1
  r := 4
  cap := none
  maxlength := 12
  nJumps := 1
  sc := ⟨true, false⟩
  scEns := ⟨true, false⟩
  xiSeg := 1 / 2
  jumps := [{ idx := 2, kick := 2, back := [1, 0], forw := [3, 5] }]
  extBack := [-1, 0, 0, 0, 0, 0, 0, 0, 0, 0, 0, 0]
  extForw := [0, 0, 0, 0, 0, 0, 0, 0, 0, 0, 0, 0]

theorem wfEx_eval : (wireFencing .repaired wfEx).toOption = some
    { accept := true, status := .ACC, path := [-1, 0, 1, 2, 3, 5], returnedOld := false, oldRewritten := false,
      genSucc := 1, genLen := 6, timeOrigin := -1, draws := [.random, .integers 1 4] } := by decide +kernel

/-- a rejected one: the only jump fails (kick outside the region), the old path object comes back -/
theorem wfEx_reject_eval :
    (wireFencing .repaired { wfEx with jumps := [{ idx := 2, kick := 7, back := [], forw := [] }] }).toOption = some
    { accept := false, status := .NSG, path := [-1, 1, 2, 1, -1], returnedOld := true, oldRewritten := true,
      genSucc := 0, genLen := 5, timeOrigin := 0, draws := [.random, .integers 1 4] } := by decide +kernel

/-! a QuanTIS zero swap whose first leg (new [0-] path) succeeds and whose second leg (new [0+] path)
    runs into the length limit: move status FTX, yet the returned new [0-] trial has `.status = "ACC"` -/
namespace QEx
open Infretis.ZeroSwap
def fr (o : Int) (x : Int) : Frame := { op := o, cfg := ⟨x, 1⟩, vr := false, vpot := some 0 }
def g (o : Int) (x : Int) : GenFrame := { op := o, cfg := ⟨x, 3⟩, vpot := some 0 }
def e0 : Ens := { i0 := -50, i1 := 0, i2 := 0, maxlen := 8, scL := false, scR := true, wf := false, cap := none }
def e1 : Ens := { i0 := 0, i1 := 1, i2 := 3, maxlen := 8, scL := true, scR := false, wf := false, cap := none }
def old0 : List Frame := [fr 1 100, fr (-1) 101, fr (-2) 102, fr 1 103]
def old1 : List Frame := [fr (-1) 200, fr 1 201, fr 2 202, fr 4 203]
def scA : Script := ⟨some 2, [g 1 500]⟩
def scB : Script := ⟨some 0, [g 1 600]⟩
def bw : Script := ⟨some 0, [g (-2) 300, g (-1) 301, g 1 302, g 1 303]⟩
def fwLong : Script := ⟨some 0, [g 1 400, g 2 401, g 1 402, g 1 403, g 1 404, g 1 405, g 1 406, g 1 407]⟩

theorem swap_eval : (quantisSwapZero e0 e1 old0 old1 scA scB bw fwLong true 1 1 0 1).toOption.map
    (fun r => (r.accept, r.status, r.st0, r.st1, ops r.path0)) =
    some (false, .FTX, .ACC, .FTX, [1, -1, -2, -1, 1]) := by decide +kernel

theorem md_eval : (runMdQuantis e0 e1 old0 old1 scA scB bw fwLong true 1 1 0 1).toOption =
    some { status := .FTX, live0 := old0, live1 := old1, replaced0 := false, replaced1 := false } := by
  decide +kernel
end QEx

end Infretis.Moves
