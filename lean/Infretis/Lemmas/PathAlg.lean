import Infretis.Model.PathAlg
/-!
Helper lemmas for C15 (path algebra): closed forms of the append loops of
`Infretis/Model/PathAlg.lean`.
-/
namespace Infretis.PathAlg

/-- `p` with its frame list replaced (all other attributes kept) -/
def Path.withFrames (p : Path) (fs : List Nat) : Path := { p with frames := fs }

@[simp] theorem withFrames_frames (p : Path) (fs : List Nat) : (p.withFrames fs).frames = fs := rfl
@[simp] theorem withFrames_maxlen (p : Path) (fs : List Nat) : (p.withFrames fs).maxlen = p.maxlen := rfl
@[simp] theorem withFrames_status (p : Path) (fs : List Nat) : (p.withFrames fs).status = p.status := rfl
@[simp] theorem withFrames_generated (p : Path) (fs : List Nat) : (p.withFrames fs).generated = p.generated := rfl
@[simp] theorem withFrames_pathNumber (p : Path) (fs : List Nat) : (p.withFrames fs).pathNumber = p.pathNumber := rfl
@[simp] theorem withFrames_weights (p : Path) (fs : List Nat) : (p.withFrames fs).weights = p.weights := rfl
@[simp] theorem withFrames_weight (p : Path) (fs : List Nat) : (p.withFrames fs).weight = p.weight := rfl
@[simp] theorem withFrames_timeOrigin (p : Path) (fs : List Nat) : (p.withFrames fs).timeOrigin = p.timeOrigin := rfl
@[simp] theorem withFrames_withFrames (p : Path) (a b : List Nat) : (p.withFrames a).withFrames b = p.withFrames b := rfl
@[simp] theorem withFrames_self (p : Path) : p.withFrames p.frames = p := rfl

/-- how many of `n` offered frames `p` can still take -/
def room (p : Path) (n : Nat) : Nat :=
  match p.maxlen with
  | none => n
  | some m => min n (m - (p.frames.length : Int)).toNat

/-- truncation of a frame list at a limit (`None` = no limit; limits ≤ 0 keep nothing) -/
def capTake {α : Type} (ml : Option Int) (xs : List α) : List α :=
  match ml with
  | none => xs
  | some m => xs.take m.toNat

def capLen (ml : Option Int) (n : Nat) : Nat :=
  match ml with
  | none => n
  | some m => min m.toNat n

theorem length_capTake {α : Type} (ml : Option Int) (xs : List α) :
    (capTake ml xs).length = capLen ml xs.length := by
  cases ml <;> simp [capTake, capLen]

theorem map_capTake {α β : Type} (f : α → β) (ml : Option Int) (xs : List α) :
    (capTake ml xs).map f = capTake ml (xs.map f) := by
  cases ml <;> simp [capTake, List.map_take]

theorem room_none (p : Path) (n : Nat) (h : p.maxlen = none) : room p n = n := by
  simp [room, h]

theorem room_some (p : Path) (n : Nat) (m : Int) (h : p.maxlen = some m) :
    room p n = min n (m - (p.frames.length : Int)).toNat := by
  simp [room, h]

@[simp] theorem empty_maxlen (ml : Option Int) (t : Int) : (Path.empty ml t).maxlen = ml := rfl
@[simp] theorem empty_frames (ml : Option Int) (t : Int) : (Path.empty ml t).frames = [] := rfl

theorem room_zero (p : Path) : room p 0 = 0 := by
  unfold room; split <;> simp

theorem canAppend_true_room (p : Path) (n : Nat) (r : Nat) (h : p.canAppend = true) :
    room p (n + 1) = room (p.withFrames (p.frames ++ [r])) n + 1 := by
  unfold Path.canAppend at h
  cases hm : p.maxlen with
  | none => simp [room, hm]
  | some m =>
    simp only [hm, decide_eq_true_eq] at h
    simp only [room, withFrames_maxlen, withFrames_frames, hm, List.length_append, List.length_cons, List.length_nil]
    omega

theorem canAppend_false_room (p : Path) (n : Nat) (h : p.canAppend = false) : room p n = 0 := by
  unfold Path.canAppend at h
  cases hm : p.maxlen with
  | none => simp [hm] at h
  | some m =>
    simp only [hm, decide_eq_false_iff_not] at h
    simp only [room, hm]
    omega

theorem append_of_can (p : Path) (r : Nat) (h : p.canAppend = true) :
    p.append r = (p.withFrames (p.frames ++ [r]), true) := by
  simp [Path.append, h, Path.withFrames]

theorem append_of_cannot (p : Path) (r : Nat) (h : p.canAppend = false) :
    p.append r = (p, false) := by
  simp [Path.append, h]

/-- closed form of the `paste_paths` loops -/
theorem appendAll_spec : ∀ (xs : List Nat) (np : Path),
    (appendAll np xs).1 = np.withFrames (np.frames ++ xs.take (room np xs.length))
    ∧ ((appendAll np xs).2 = true ↔ room np xs.length = xs.length) := by
  intro xs
  induction xs with
  | nil => intro np; simp [appendAll, room_zero]
  | cons r rs ih =>
    intro np
    cases hc : np.canAppend with
    | true =>
      have ha := append_of_can np r hc
      have hr := canAppend_true_room np rs.length r hc
      obtain ⟨ih1, ih2⟩ := ih (np.withFrames (np.frames ++ [r]))
      simp only [appendAll, ha, if_true, List.length_cons]
      rw [hr]
      refine ⟨?_, ?_⟩
      · rw [ih1]; simp
      · rw [ih2]; omega
    | false =>
      have ha := append_of_cannot np r hc
      have hr := canAppend_false_room np (rs.length + 1) hc
      simp only [appendAll, ha, List.length_cons, hr]
      simp

theorem room_empty (ml : Option Int) (t : Int) (n : Nat) : room (Path.empty ml t) n = capLen ml n := by
  unfold room capLen Path.empty
  cases ml with
  | none => rfl
  | some m => simp only [List.length_nil]; omega

theorem appendAll_maxlen (xs : List Nat) (np : Path) : (appendAll np xs).1.maxlen = np.maxlen := by
  rw [(appendAll_spec xs np).1]; rfl


/-- the frames offered to the second loop of `paste_paths` -/
def forwPart (forw : Path) (ov : Bool) : List Nat := if ov then forw.frames.drop 1 else forw.frames

theorem take_capLen {α : Type} (cap : Option Int) (xs : List α) :
    xs.take (capLen cap xs.length) = capTake cap xs := by
  cases cap with
  | none => simp [capLen, capTake]
  | some m =>
    simp only [capLen, capTake]
    rw [List.take_eq_take_iff]
    omega

/-- closed form of `paste_paths` once the limit is known -/
theorem paste_closed (back forw : Path) (ov : Bool) (ml cap : Option Int)
    (hcap : pasteMaxlen back.maxlen forw.maxlen ml = .ok cap) :
    paste back forw ov ml = .ok
      ((Path.empty cap (back.timeOrigin - (back.frames.length : Int) + 1)).withFrames
        (capTake cap (back.frames.reverse ++ forwPart forw ov))) := by
  unfold paste
  rw [hcap]
  simp only
  generalize ht : back.timeOrigin - (back.frames.length : Int) + 1 = t0
  obtain ⟨h1, h2⟩ := appendAll_spec back.frames.reverse (Path.empty cap t0)
  have hfw : (if ov = true then List.drop 1 forw.frames else forw.frames) = forwPart forw ov := rfl
  have he : (Path.empty cap t0).frames = [] := rfl
  rw [hfw]
  rw [room_empty, he, List.nil_append, List.length_reverse] at h1
  rw [room_empty, List.length_reverse] at h2
  cases hok : (appendAll (Path.empty cap t0) back.frames.reverse).2 with
  | false =>
    have hlt : capLen cap back.frames.length ≠ back.frames.length := by
      intro hh; rw [← h2] at hh; rw [hh] at hok; exact Bool.noConfusion hok
    simp only [Bool.not_false, if_true]
    rw [h1]
    congr 2
    cases cap with
    | none => simp [capLen] at hlt
    | some m =>
      simp only [capLen] at hlt
      simp only [capLen, capTake]
      rw [List.take_append_of_le_length (by simp; omega), List.take_eq_take_iff]
      simp
  | true =>
    have heq := h2.1 hok
    simp only [Bool.not_true, Bool.false_eq_true, if_false]
    rw [h1, heq]
    have hl : List.take back.frames.length back.frames.reverse = back.frames.reverse := by
      rw [List.take_of_length_le (by simp)]
    rw [hl]
    obtain ⟨h3, _⟩ := appendAll_spec (forwPart forw ov) ((Path.empty cap t0).withFrames back.frames.reverse)
    rw [h3]
    simp only [withFrames_withFrames, withFrames_frames]
    congr 2
    cases cap with
    | none => rw [room_none _ _ rfl]; simp [capTake]
    | some m =>
      simp only [capLen] at heq
      rw [room_some _ _ m rfl]
      simp only [capTake, List.length_reverse, withFrames_frames]
      have e1 : List.take m.toNat back.frames.reverse = back.frames.reverse :=
        List.take_of_length_le (by simp; omega)
      rw [List.take_append, e1, List.length_reverse]
      congr 1
      rw [List.take_eq_take_iff]
      omega


/-! ### the heap and the copy loops -/

/-- dereference of a reference known to be valid -/
def Heap.getD (h : Heap) (r : Nat) : Sys := (h.look r).getD default

/-- all references point into the heap -/
def WF (h : Heap) (rs : List Nat) : Prop := ∀ r ∈ rs, r < h.sys.length

/-- allocate one more object -/
def Heap.push (h : Heap) (ss : List Sys) : Heap := { h with sys := h.sys ++ ss }

@[simp] theorem push_sys (h : Heap) (ss : List Sys) : (h.push ss).sys = h.sys ++ ss := rfl
@[simp] theorem push_nOrd (h : Heap) (ss : List Sys) : (h.push ss).nOrd = h.nOrd := rfl
@[simp] theorem push_nil (h : Heap) : h.push [] = h := by simp [Heap.push]
@[simp] theorem push_push (h : Heap) (a b : List Sys) : (h.push a).push b = h.push (a ++ b) := by
  simp [Heap.push]

theorem look_of_lt (h : Heap) (r : Nat) (hr : r < h.sys.length) : h.look r = some (h.getD r) := by
  unfold Heap.getD Heap.look
  rw [List.getElem?_eq_getElem hr]; rfl

theorem look_push_lt (h : Heap) (ss : List Sys) (r : Nat) (hr : r < h.sys.length) :
    (h.push ss).look r = h.look r := by
  unfold Heap.look
  simp only [push_sys]
  rw [List.getElem?_append_left hr]

theorem getD_push_lt (h : Heap) (ss : List Sys) (r : Nat) (hr : r < h.sys.length) :
    (h.push ss).getD r = h.getD r := by
  unfold Heap.getD; rw [look_push_lt h ss r hr]

theorem look_push_ge (h : Heap) (ss : List Sys) (i : Nat) :
    (h.push ss).look (h.sys.length + i) = ss[i]? := by
  unfold Heap.look
  simp only [push_sys]
  rw [List.getElem?_append_right (by omega)]
  congr 1; omega

/-- one iteration of a copy loop on a valid reference -/
theorem copyEach_cons (f : Sys → Sys) (stop : Bool) (h : Heap) (np : Path) (r : Nat) (rs : List Nat)
    (hr : r < h.sys.length) :
    copyEach f stop h np (r :: rs) =
      if np.canAppend then
        copyEach f stop (h.push [f (h.getD r)]) (np.withFrames (np.frames ++ [h.sys.length])) rs
      else if stop then (h.push [f (h.getD r)], np)
      else copyEach f stop (h.push [f (h.getD r)]) np rs := by
  have hl := look_of_lt h r hr
  have h1 : h.copySys r = (h.push [h.getD r], h.sys.length) := by
    simp [Heap.copySys, hl, Heap.push]
  have h2 : (h.push [h.getD r]).look h.sys.length = some (h.getD r) := by
    have := look_push_ge h [h.getD r] 0
    simpa using this
  have h3 : (h.push [h.getD r]).put h.sys.length (f (h.getD r)) = h.push [f (h.getD r)] := by
    simp [Heap.put, Heap.push]
  rw [copyEach]
  simp only [h1, h2, h3]
  cases hc : np.canAppend with
  | true => rw [append_of_can _ _ hc]; simp
  | false => rw [append_of_cannot _ _ hc]; cases stop <;> simp

/-- how many copies a loop allocates: `__iadd__` stops after the first copy that did not fit -/
def nAlloc (stop : Bool) (np : Path) (n : Nat) : Nat :=
  if stop then min n (room np n + 1) else n

/-- closed form of the copy loops: the heap grows by copies of the sources (with `f` applied),
    the path receives the first `room` of the fresh references, in order -/
theorem copyEach_spec (f : Sys → Sys) (stop : Bool) : ∀ (rs : List Nat) (h : Heap) (np : Path),
    WF h rs →
    copyEach f stop h np rs =
      (h.push ((rs.take (nAlloc stop np rs.length)).map (fun r => f (h.getD r))),
       np.withFrames (np.frames ++ List.range' h.sys.length (room np rs.length))) := by
  intro rs
  induction rs with
  | nil => intro h np _; simp [copyEach, room_zero]
  | cons r rs ih =>
    intro h np hwf
    have hr : r < h.sys.length := hwf r (by simp)
    have hwf' : ∀ s, WF (h.push [s]) rs := by
      intro s x hx
      have := hwf x (by simp [hx])
      show x < (h.sys ++ [s]).length
      rw [List.length_append, List.length_singleton]; omega
    have hmap : ∀ s (k : Nat), (rs.take k).map (fun x => f ((h.push [s]).getD x))
        = (rs.take k).map (fun x => f (h.getD x)) := by
      intro s k
      apply List.map_congr_left
      intro x hx
      rw [getD_push_lt h [s] x (hwf x (by simp [List.mem_of_mem_take hx]))]
    rw [copyEach_cons f stop h np r rs hr]
    cases hc : np.canAppend with
    | true =>
      simp only [if_true]
      rw [ih _ _ (hwf' _), hmap]
      have hroom := canAppend_true_room np rs.length h.sys.length hc
      have hn : nAlloc stop np (rs.length + 1)
          = nAlloc stop (np.withFrames (np.frames ++ [h.sys.length])) rs.length + 1 := by
        unfold nAlloc; rw [hroom]; cases stop <;> simp <;> omega
      simp only [List.length_cons, hn, hroom, List.take_succ_cons, List.map_cons, push_push,
        push_sys, List.length_append, List.length_nil, withFrames_withFrames, withFrames_frames,
        List.append_assoc, List.range'_succ, List.cons_append, List.nil_append]
    | false =>
      have hroom : ∀ k, room np k = 0 := fun k => canAppend_false_room np k hc
      simp only [Bool.false_eq_true, if_false]
      cases stop with
      | true =>
        simp [nAlloc, hroom]
      | false =>
        simp only [Bool.false_eq_true, if_false]
        rw [ih _ _ (hwf' _), hmap]
        simp [nAlloc, hroom]


theorem map_look_getD (h : Heap) (rs : List Nat) (hwf : WF h rs) :
    rs.map h.look = rs.map (fun r => some (h.getD r)) := by
  apply List.map_congr_left
  intro r hr
  exact look_of_lt h r (hwf r hr)

/-- the objects behind freshly allocated consecutive references -/
theorem map_look_range' (h : Heap) (ss : List Sys) (k : Nat) (hk : k ≤ ss.length) :
    (List.range' h.sys.length k).map (h.push ss).look = (ss.take k).map some := by
  apply List.ext_getElem
  · simp; omega
  · intro i h1 h2
    simp only [List.length_map, List.length_range'] at h1
    simp only [List.getElem_map, List.getElem_range', Nat.one_mul, List.getElem_take]
    rw [look_push_ge]
    exact List.getElem?_eq_getElem (by omega)

theorem room_le (p : Path) (n : Nat) : room p n ≤ n := by
  unfold room; split <;> omega

theorem le_nAlloc (stop : Bool) (np : Path) (n : Nat) : room np n ≤ nAlloc stop np n := by
  have := room_le np n
  unfold nAlloc; cases stop <;> simp <;> omega

/-- what the new frames of a copy loop look like in the new heap -/
theorem copyEach_new_looks (f : Sys → Sys) (stop : Bool) (rs : List Nat) (h : Heap) (np : Path)
    (hwf : WF h rs) :
    (List.range' h.sys.length (room np rs.length)).map (copyEach f stop h np rs).1.look
      = (rs.take (room np rs.length)).map (fun r => (h.look r).map f) := by
  rw [copyEach_spec f stop rs h np hwf]
  simp only
  have hle := le_nAlloc stop np rs.length
  have hle2 := room_le np rs.length
  rw [map_look_range' h _ _ (by simp; omega)]
  rw [← List.map_take, List.take_take, Nat.min_eq_left hle, List.map_map]
  have hwf' : WF h (rs.take (room np rs.length)) := fun r hr => hwf r (List.mem_of_mem_take hr)
  apply List.map_congr_left
  intro r hr
  simp [look_of_lt h r (hwf' r hr)]

theorem copyEach_frames (f : Sys → Sys) (stop : Bool) (rs : List Nat) (h : Heap) (np : Path)
    (hwf : WF h rs) :
    (copyEach f stop h np rs).2 = np.withFrames (np.frames ++ List.range' h.sys.length (room np rs.length)) := by
  rw [copyEach_spec f stop rs h np hwf]

/-- objects that existed before a copy loop are untouched by it -/
theorem copyEach_old (f : Sys → Sys) (stop : Bool) (rs : List Nat) (h : Heap) (np : Path)
    (hwf : WF h rs) (r : Nat) (hr : r < h.sys.length) :
    (copyEach f stop h np rs).1.look r = h.look r := by
  rw [copyEach_spec f stop rs h np hwf]
  exact look_push_lt h _ r hr

theorem copyEach_len (f : Sys → Sys) (stop : Bool) (rs : List Nat) (h : Heap) (np : Path)
    (hwf : WF h rs) :
    (copyEach f stop h np rs).1.sys.length = h.sys.length + min rs.length (nAlloc stop np rs.length) := by
  rw [copyEach_spec f stop rs h np hwf]
  simp; omega

/-! ### field assignment touches one object only -/

theorem put_look_ne (h : Heap) (r r' : Nat) (s : Sys) (hne : r ≠ r') : (h.put r' s).look r = h.look r := by
  unfold Heap.put Heap.look
  simp only
  rw [List.getElem?_set_ne (by omega)]

theorem modV_look_ne (h : Heap) (r r' : Nat) (g : Vals → Vals) (hne : r ≠ r') :
    (h.modV r' g).look r = h.look r := by
  unfold Heap.modV
  split
  · exact put_look_ne h r r' _ hne
  · rfl

theorem setOrder_look_ne (h : Heap) (r r' : Nat) (o : List Int) (hne : r ≠ r') :
    (h.setOrder r' o).look r = h.look r := by
  unfold Heap.setOrder
  split
  · unfold Heap.look; simp only; rw [List.getElem?_set_ne (by omega)]
  · rfl

theorem setOrder_len (h : Heap) (r : Nat) (o : List Int) : (h.setOrder r o).sys.length = h.sys.length := by
  unfold Heap.setOrder; split <;> simp

theorem setOrder_look_self (h : Heap) (r : Nat) (o : List Int) (s : Sys) (hs : h.look r = some s) :
    ((h.setOrder r o).look r).map (·.v) = some { s.v with order := o } := by
  have hr : r < h.sys.length := by
    unfold Heap.look at hs
    exact (List.getElem?_eq_some_iff.1 hs).1
  unfold Heap.setOrder
  rw [hs]
  unfold Heap.look
  simp only
  rw [List.getElem?_set_self hr]
  rfl

theorem setArr_look_ne (h : Heap) (r r' : Nat) (a : Arr) (x : Int) (hne : r ≠ r') :
    (h.setArr r' a x).look r = h.look r := by
  unfold Heap.setArr
  split
  · unfold Heap.look; simp only; rw [List.getElem?_set_ne (by omega)]
  · rfl

theorem setArr_len (h : Heap) (r : Nat) (a : Arr) (x : Int) : (h.setArr r a x).sys.length = h.sys.length := by
  unfold Heap.setArr; split <;> simp

/-- re-assigning any field of the object at `r'` leaves every other object as it was -/
theorem assignField_look_ne (h : Heap) (r r' : Nat) (fld : Field) (hne : r ≠ r') :
    (assignField h r' fld).look r = h.look r := by
  cases fld <;> simp only [assignField] <;> first
    | exact modV_look_ne h r r' _ hne
    | exact setOrder_look_ne h r r' _ hne
    | exact setArr_look_ne h r r' _ _ hne

/-! ### `recompute` (re-assignment of `order` on every frame of the reversed path) -/

theorem recompute_spec (c : Vals → List Int) : ∀ (rs : List Nat) (h : Heap), WF h rs → rs.Nodup →
    (recompute c h rs).sys.length = h.sys.length
    ∧ (∀ r, r ∉ rs → (recompute c h rs).look r = h.look r)
    ∧ (∀ r, r ∈ rs → ((recompute c h rs).look r).map (·.v)
          = (h.look r).map (fun s => { s.v with order := c s.v })) := by
  intro rs
  induction rs with
  | nil => intro h _ _; simp [recompute]
  | cons x xs ih =>
    intro h hwf hnd
    have hx : x < h.sys.length := hwf x (by simp)
    have hlx := look_of_lt h x hx
    have hnd' := List.nodup_cons.1 hnd
    let h' := h.setOrder x (c (h.getD x).v)
    have hlen : h'.sys.length = h.sys.length := setOrder_len _ _ _
    have hwf' : WF h' xs := by
      intro r hr
      rw [hlen]; exact hwf r (by simp [hr])
    obtain ⟨i1, i2, i3⟩ := ih h' hwf' hnd'.2
    have hrec : recompute c h (x :: xs) = recompute c h' xs := by
      simp only [recompute, hlx]; rfl
    rw [hrec]
    refine ⟨by rw [i1, hlen], ?_, ?_⟩
    · intro r hr
      have h1 : r ∉ xs := fun hh => hr (by simp [hh])
      have h2 : r ≠ x := fun hh => hr (by simp [hh])
      rw [i2 r h1]
      exact setOrder_look_ne h r x _ h2
    · intro r hr
      rcases List.mem_cons.1 hr with rfl | hr
      · rw [i2 r hnd'.1, hlx]
        exact setOrder_look_self h r _ _ hlx
      · have h2 : r ≠ x := fun hh => hnd'.1 (hh ▸ hr)
        rw [i3 r hr]
        show Option.map _ ((h.setOrder x _).look r) = _
        rw [setOrder_look_ne h r x _ h2]

end Infretis.PathAlg
