import Infretis.Model.PathAlg
/-!
Helper lemmas for C15, classification part: `np.argmin` / `np.argmax` scans and Python `min` / `max`.
-/
namespace Infretis.PathAlg

/-- `v` is the minimum of `l` and `j` is the FIRST index where it is attained -/
def IsFirstMin (l : List Int) (v : Int) (j : Nat) : Prop :=
  l[j]? = some v ∧ (∀ x ∈ l, v ≤ x) ∧ (∀ k y, k < j → l[k]? = some y → v < y)

/-- `v` is the maximum of `l` and `j` is the FIRST index where it is attained -/
def IsFirstMax (l : List Int) (v : Int) (j : Nat) : Prop :=
  l[j]? = some v ∧ (∀ x ∈ l, x ≤ v) ∧ (∀ k y, k < j → l[k]? = some y → y < v)

theorem getElem?_snoc_lt (l : List Int) (x : Int) (k : Nat) (hk : k < l.length) :
    (l ++ [x])[k]? = l[k]? := List.getElem?_append_left hk

theorem lt_length_of_getElem? {l : List Int} {k : Nat} {v : Int} (h : l[k]? = some v) : k < l.length :=
  (List.getElem?_eq_some_iff.1 h).1

theorem argminGo_inv : ∀ (t pre : List Int) (best : Int) (bi : Nat), IsFirstMin pre best bi →
    IsFirstMin (pre ++ t) (argminGo best bi pre.length t).1 (argminGo best bi pre.length t).2 := by
  intro t
  induction t with
  | nil => intro pre best bi h; simpa [argminGo] using h
  | cons x t ih =>
    intro pre best bi ⟨h1, h2, h3⟩
    have hbi := lt_length_of_getElem? h1
    have hpre : pre ++ x :: t = (pre ++ [x]) ++ t := by simp
    have hlen : (pre ++ [x]).length = pre.length + 1 := by simp
    unfold argminGo
    by_cases hx : x < best
    · rw [if_pos hx, hpre, ← hlen]
      apply ih
      refine ⟨by simp, ?_, ?_⟩
      · intro y hy
        rcases List.mem_append.1 hy with hy | hy
        · have := h2 y hy; omega
        · simp at hy; omega
      · intro k y hk hy
        rw [getElem?_snoc_lt pre x k hk] at hy
        have := h2 y (List.mem_of_getElem? hy); omega
    · rw [if_neg hx, hpre, ← hlen]
      apply ih
      refine ⟨by rw [getElem?_snoc_lt pre x bi hbi]; exact h1, ?_, ?_⟩
      · intro y hy
        rcases List.mem_append.1 hy with hy | hy
        · exact h2 y hy
        · simp at hy; omega
      · intro k y hk hy
        rw [getElem?_snoc_lt pre x k (by omega)] at hy
        exact h3 k y hk hy

theorem argmaxGo_inv : ∀ (t pre : List Int) (best : Int) (bi : Nat), IsFirstMax pre best bi →
    IsFirstMax (pre ++ t) (argmaxGo best bi pre.length t).1 (argmaxGo best bi pre.length t).2 := by
  intro t
  induction t with
  | nil => intro pre best bi h; simpa [argmaxGo] using h
  | cons x t ih =>
    intro pre best bi ⟨h1, h2, h3⟩
    have hbi := lt_length_of_getElem? h1
    have hpre : pre ++ x :: t = (pre ++ [x]) ++ t := by simp
    have hlen : (pre ++ [x]).length = pre.length + 1 := by simp
    unfold argmaxGo
    by_cases hx : x > best
    · rw [if_pos hx, hpre, ← hlen]
      apply ih
      refine ⟨by simp, ?_, ?_⟩
      · intro y hy
        rcases List.mem_append.1 hy with hy | hy
        · have := h2 y hy; omega
        · simp at hy; omega
      · intro k y hk hy
        rw [getElem?_snoc_lt pre x k hk] at hy
        have := h2 y (List.mem_of_getElem? hy); omega
    · rw [if_neg hx, hpre, ← hlen]
      apply ih
      refine ⟨by rw [getElem?_snoc_lt pre x bi hbi]; exact h1, ?_, ?_⟩
      · intro y hy
        rcases List.mem_append.1 hy with hy | hy
        · exact h2 y hy
        · simp at hy; omega
      · intro k y hk hy
        rw [getElem?_snoc_lt pre x k (by omega)] at hy
        exact h3 k y hk hy

theorem ordermin_isFirstMin (a : Int) (t : List Int) :
    IsFirstMin (a :: t) (argminGo a 0 1 t).1 (argminGo a 0 1 t).2 := by
  have := argminGo_inv t [a] a 0 ⟨by simp, by simp, by intro k y hk; omega⟩
  simpa using this

theorem ordermax_isFirstMax (a : Int) (t : List Int) :
    IsFirstMax (a :: t) (argmaxGo a 0 1 t).1 (argmaxGo a 0 1 t).2 := by
  have := argmaxGo_inv t [a] a 0 ⟨by simp, by simp, by intro k y hk; omega⟩
  simpa using this

/-! Python `min` / `max` of a list -/

theorem foldl_min_spec : ∀ (t : List Int) (a : Int),
    (t.foldl (fun m x => if x < m then x else m) a) ∈ a :: t
    ∧ ∀ x ∈ a :: t, (t.foldl (fun m x => if x < m then x else m) a) ≤ x := by
  intro t
  induction t with
  | nil => intro a; simp
  | cons y t ih =>
    intro a
    simp only [List.foldl_cons]
    obtain ⟨i1, i2⟩ := ih (if y < a then y else a)
    refine ⟨?_, ?_⟩
    · rcases List.mem_cons.1 i1 with h | h
      · rw [h]; by_cases hy : y < a <;> simp [hy]
      · simp [h]
    · intro x hx
      have hm := i2 (if y < a then y else a) (by simp)
      have hb : (if y < a then y else a) ≤ y ∧ (if y < a then y else a) ≤ a := by
        by_cases hy : y < a
        · rw [if_pos hy]; omega
        · rw [if_neg hy]; omega
      rcases List.mem_cons.1 hx with rfl | hx
      · omega
      · rcases List.mem_cons.1 hx with rfl | hx
        · omega
        · exact i2 x (by simp [hx])

theorem foldl_max_spec : ∀ (t : List Int) (a : Int),
    (t.foldl (fun m x => if x > m then x else m) a) ∈ a :: t
    ∧ ∀ x ∈ a :: t, x ≤ (t.foldl (fun m x => if x > m then x else m) a) := by
  intro t
  induction t with
  | nil => intro a; simp
  | cons y t ih =>
    intro a
    simp only [List.foldl_cons]
    obtain ⟨i1, i2⟩ := ih (if y > a then y else a)
    refine ⟨?_, ?_⟩
    · rcases List.mem_cons.1 i1 with h | h
      · rw [h]; by_cases hy : y > a <;> simp [hy]
      · simp [h]
    · intro x hx
      have hm := i2 (if y > a then y else a) (by simp)
      have hb : y ≤ (if y > a then y else a) ∧ a ≤ (if y > a then y else a) := by
        by_cases hy : y > a
        · rw [if_pos hy]; omega
        · rw [if_neg hy]; omega
      rcases List.mem_cons.1 hx with rfl | hx
      · omega
      · rcases List.mem_cons.1 hx with rfl | hx
        · omega
        · exact i2 x (by simp [hx])

theorem minList_spec (l : List Int) (m : Int) (h : minList l = some m) : m ∈ l ∧ ∀ x ∈ l, m ≤ x := by
  cases l with
  | nil => simp [minList] at h
  | cons a t =>
    simp only [minList, Option.some.injEq] at h
    rw [← h]; exact foldl_min_spec t a

theorem maxList_spec (l : List Int) (m : Int) (h : maxList l = some m) : m ∈ l ∧ ∀ x ∈ l, x ≤ m := by
  cases l with
  | nil => simp [maxList] at h
  | cons a t =>
    simp only [maxList, Option.some.injEq] at h
    rw [← h]; exact foldl_max_spec t a

/-- closed form of `check_interfaces` on a non-empty path and at least two interfaces -/
theorem check_closed (a : Int) (t : List Int) (i0 i1 : Int) (rest : List Int) :
    ∃ lo hi left right last jmin jmax,
      ordermin (a :: t) = .ok (lo, jmin) ∧ ordermax (a :: t) = .ok (hi, jmax)
      ∧ minList (i0 :: i1 :: rest) = some left ∧ maxList (i0 :: i1 :: rest) = some right
      ∧ (a :: t).getLast? = some last
      ∧ checkInterfaces (a :: t) (i0 :: i1 :: rest) = .ok
          ⟨some (sideOf left right a), some (sideOf left right last),
           decide (lo < i1) && decide (i1 ≤ hi),
           (i0 :: i1 :: rest).map (fun x => decide (lo < x) && decide (x ≤ hi))⟩ := by
  obtain ⟨last, hlast⟩ : ∃ last, (a :: t).getLast? = some last := by
    cases h : (a :: t).getLast? with
    | none => simp at h
    | some x => exact ⟨x, rfl⟩
  cases hmin : minList (i0 :: i1 :: rest) with
  | none => simp [minList] at hmin
  | some left =>
    cases hmax : maxList (i0 :: i1 :: rest) with
    | none => simp [maxList] at hmax
    | some right =>
      have h1 := minList_spec _ _ hmin
      have h2 := maxList_spec _ _ hmax
      have hle : left ≤ right := by
        have := h1.2 i0 (by simp); have := h2.2 i0 (by simp); omega
      refine ⟨(argminGo a 0 1 t).1, (argmaxGo a 0 1 t).1, left, right, last,
        (argminGo a 0 1 t).2, (argmaxGo a 0 1 t).2, rfl, rfl, rfl, rfl, hlast, ?_⟩
      unfold checkInterfaces
      have hlen : ¬ ((a :: t).length < 1) := by simp
      rw [if_neg hlen]
      simp only [ordermax, ordermin, hmin, hmax, endPoint, startPoint, if_pos hle, hlast,
        List.head?_cons, List.map_cons]
      rfl

end Infretis.PathAlg
