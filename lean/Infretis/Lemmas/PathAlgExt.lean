import Infretis.Lemmas.PathAlgWF
/-!
Helper lemmas for the C15 extension pass:

* `Heap.Fresh`: every container identity (order list / pos / vel / box arrays / temperature dict) held by any
  System of the heap is older than the fresh-identity counter — preserved by every op of the machine;
* in-place mutation of a container is seen by exactly the Systems holding that container;
* closed forms of `update_energies`, `get_shooting_point`, `Path.__eq__`, the warnings of `paste_paths`.
-/
namespace Infretis.PathAlg

/-! ### freshness of container identities -/

def SysFresh (n : Nat) (s : Sys) : Prop := s.orderObj < n ∧ ∀ a, s.arrObj a < n

/-- every container identity in the heap is smaller than the next fresh identity -/
def Heap.Fresh (h : Heap) : Prop := ∀ s ∈ h.sys, SysFresh h.nOrd s

theorem SysFresh.mono {n n' : Nat} {s : Sys} (hle : n ≤ n') (hs : SysFresh n s) : SysFresh n' s :=
  ⟨Nat.lt_of_lt_of_le hs.1 hle, fun a => Nat.lt_of_lt_of_le (hs.2 a) hle⟩

theorem sysFresh_withV (n : Nat) (s : Sys) (v : Vals) (hs : SysFresh n s) : SysFresh n { s with v := v } :=
  ⟨hs.1, fun a => by
    cases a
    · exact hs.2 .pos
    · exact hs.2 .vel
    · exact hs.2 .box
    · exact hs.2 .temp⟩

theorem sysFresh_flipS (n : Nat) (s : Sys) (hs : SysFresh n s) : SysFresh n (flipS s) :=
  sysFresh_withV n s _ hs

theorem getD_mem (h : Heap) (r : Nat) (hr : r < h.sys.length) : h.getD r ∈ h.sys := by
  have := look_of_lt h r hr
  unfold Heap.look at this
  exact List.mem_of_getElem? this

theorem look_mem (h : Heap) (r : Nat) (s : Sys) (hs : h.look r = some s) : s ∈ h.sys := by
  unfold Heap.look at hs
  exact List.mem_of_getElem? hs

theorem push_fresh (h : Heap) (ss : List Sys) (hf : h.Fresh) (hss : ∀ s ∈ ss, SysFresh h.nOrd s) :
    (h.push ss).Fresh := by
  intro s hs
  simp only [push_sys, List.mem_append] at hs
  rcases hs with hs | hs
  · exact hf s hs
  · exact hss s hs

theorem copyEach_fresh (f : Sys → Sys) (stop : Bool) (rs : List Nat) (h : Heap) (np : Path)
    (hwf : WF h rs) (hf : h.Fresh) (hfs : ∀ n s, SysFresh n s → SysFresh n (f s)) :
    (copyEach f stop h np rs).1.Fresh := by
  rw [copyEach_spec f stop rs h np hwf]
  apply push_fresh h _ hf
  intro s hs
  obtain ⟨r, hr, rfl⟩ := List.mem_map.1 hs
  exact hfs _ _ (hf _ (getD_mem h r (hwf r (List.mem_of_mem_take hr))))

theorem copyEach_nOrd (f : Sys → Sys) (stop : Bool) (rs : List Nat) (h : Heap) (np : Path)
    (hwf : WF h rs) : (copyEach f stop h np rs).1.nOrd = h.nOrd := by
  rw [copyEach_spec f stop rs h np hwf]; rfl

theorem set_fresh (h : Heap) (r : Nat) (s' : Sys) (n' : Nat) (hf : h.Fresh) (hle : h.nOrd ≤ n')
    (hs' : SysFresh n' s') : (Heap.mk (h.sys.set r s') n').Fresh := by
  intro s hs
  rcases List.mem_or_eq_of_mem_set hs with hs | rfl
  · exact (hf s hs).mono hle
  · exact hs'

theorem put_fresh (h : Heap) (r : Nat) (s' : Sys) (hf : h.Fresh) (hs' : SysFresh h.nOrd s') :
    (h.put r s').Fresh := set_fresh h r s' h.nOrd hf (Nat.le_refl _) hs'

theorem modV_fresh (h : Heap) (r : Nat) (g : Vals → Vals) (hf : h.Fresh) : (h.modV r g).Fresh := by
  unfold Heap.modV
  split
  · rename_i s hs
    exact put_fresh h r _ hf (sysFresh_withV _ s _ (hf s (look_mem h r s hs)))
  · exact hf

theorem setOrder_fresh (h : Heap) (r : Nat) (o : List Int) (hf : h.Fresh) : (h.setOrder r o).Fresh := by
  unfold Heap.setOrder
  split
  · rename_i s hs
    have hsf := hf s (look_mem h r s hs)
    apply set_fresh h r _ _ hf (Nat.le_succ _)
    refine ⟨Nat.lt_succ_self _, fun a => ?_⟩
    cases a
    · exact Nat.lt_succ_of_lt (hsf.2 .pos)
    · exact Nat.lt_succ_of_lt (hsf.2 .vel)
    · exact Nat.lt_succ_of_lt (hsf.2 .box)
    · exact Nat.lt_succ_of_lt (hsf.2 .temp)
  · exact hf

theorem setArr_fresh (h : Heap) (r : Nat) (a : Arr) (x : Int) (hf : h.Fresh) : (h.setArr r a x).Fresh := by
  unfold Heap.setArr
  split
  · rename_i s hs
    have hsf := hf s (look_mem h r s hs)
    apply set_fresh h r _ _ hf (Nat.le_succ _)
    have h1 := hsf.1
    have hp := hsf.2 .pos; have hv := hsf.2 .vel; have hb := hsf.2 .box; have ht := hsf.2 .temp
    simp only [Sys.arrObj] at hp hv hb ht
    cases a <;> refine ⟨?_, fun b => ?_⟩ <;> (try cases b) <;>
      simp only [Sys.withArrObj, Sys.arrObj] <;> omega
  · exact hf

theorem assignField_fresh (h : Heap) (r : Nat) (fld : Field) (hf : h.Fresh) : (assignField h r fld).Fresh := by
  cases fld <;> simp only [assignField] <;> first
    | exact modV_fresh h r _ hf
    | exact setOrder_fresh h r _ hf
    | exact setArr_fresh h r _ _ hf

theorem map_fresh (h : Heap) (g : Sys → Sys) (hf : h.Fresh) (hg : ∀ s, SysFresh h.nOrd s → SysFresh h.nOrd (g s)) :
    ({ h with sys := h.sys.map g } : Heap).Fresh := by
  intro s hs
  obtain ⟨s0, hs0, rfl⟩ := List.mem_map.1 hs
  exact hg s0 (hf s0 hs0)

theorem setItem0_fresh (h h' : Heap) (r : Nat) (x : Int) (hf : h.Fresh) (hs : h.setItem0 r x = some h') :
    h'.Fresh := by
  unfold Heap.setItem0 at hs
  split at hs
  · split at hs
    · cases hs
    · injection hs with hs; subst hs
      apply map_fresh h _ hf
      intro s hsf
      split
      · exact sysFresh_withV _ s _ hsf
      · exact hsf
  · cases hs

theorem setArrItem_fresh (h h' : Heap) (r : Nat) (a : Arr) (x : Int) (hf : h.Fresh)
    (hs : h.setArrItem r a x = some h') : h'.Fresh := by
  unfold Heap.setArrItem at hs
  split at hs
  · injection hs with hs; subst hs
    apply map_fresh h _ hf
    intro s hsf
    split
    · exact sysFresh_withV _ s _ hsf
    · exact hsf
  · cases hs

theorem alloc_fresh (h : Heap) (v : Vals) (hf : h.Fresh) : (h.alloc v).1.Fresh := by
  have hn : (h.alloc v).1.nOrd = h.nOrd + 5 := rfl
  intro s hs
  rw [hn]
  simp only [Heap.alloc, List.mem_append, List.mem_singleton] at hs
  rcases hs with hs | rfl
  · exact (hf s hs).mono (by omega)
  · refine ⟨by simp, fun a => ?_⟩
    cases a <;> simp [Sys.arrObj]

theorem recompute_fresh (c : Vals → List Int) : ∀ (rs : List Nat) (h : Heap), h.Fresh → (recompute c h rs).Fresh := by
  intro rs
  induction rs with
  | nil => intro h hf; exact hf
  | cons r rs ih =>
    intro h hf
    simp only [recompute]
    split
    · exact ih _ (setOrder_fresh h r _ hf)
    · exact ih _ hf

theorem updGo_fresh (ekin vpot : List Int) : ∀ (rs : List Nat) (i : Nat) (h : Heap), h.Fresh →
    (updGo ekin vpot i h rs).Fresh := by
  intro rs
  induction rs with
  | nil => intro i h hf; exact hf
  | cons r rs ih => intro i h hf; exact ih _ _ (modV_fresh h r _ hf)

theorem reverse_fresh (h : Heap) (p : Path) (ofn : Option OrderFn) (rv : Bool) (hwf : WF h p.frames)
    (hf : h.Fresh) : (Path.reverse h p ofn rv).1.Fresh := by
  have h1 : (revHeap1 h p rv).Fresh := by
    unfold revHeap1
    apply copyEach_fresh _ _ _ _ _ (wf_reverse h _ hwf) hf
    intro n s hs
    cases rv
    · exact hs
    · exact sysFresh_flipS n s hs
  rw [reverse_fst]
  cases ofn with
  | none => exact h1
  | some f =>
    simp only
    split
    · exact recompute_fresh _ _ _ h1
    · exact h1

/-- every op keeps the freshness invariant (on well-formed machines) -/
theorem step_fresh (m : Machine) (op : Op) (hm : m.WFm) (hf : m.heap.Fresh) : (m.step op).heap.Fresh := by
  unfold Machine.WFm at hm
  cases op with
  | new ml t => exact hf
  | sys i v =>
    simp only [Machine.step]
    cases hp : m.paths[i]? with
    | none => exact hf
    | some p => exact alloc_fresh m.heap v hf
  | app i j k =>
    simp only [Machine.step]
    cases hp : m.paths[i]? with
    | none => exact hf
    | some p =>
      cases hq : m.paths[j]? with
      | none => exact hf
      | some q =>
        simp only
        cases hr : q.frames[k]? <;> exact hf
  | iadd i j =>
    simp only [Machine.step]
    by_cases hij : i = j
    · rw [if_pos hij]; exact hf
    · rw [if_neg hij]
      cases hp : m.paths[i]? with
      | none => exact hf
      | some p =>
        cases hq : m.paths[j]? with
        | none => exact hf
        | some q =>
          exact copyEach_fresh id true q.frames m.heap p (hm q (List.mem_of_getElem? hq)) hf (fun _ _ h => h)
  | copy i =>
    simp only [Machine.step]
    cases hp : m.paths[i]? with
    | none => exact hf
    | some p =>
      exact copyEach_fresh id false p.frames m.heap _ (hm p (List.mem_of_getElem? hp)) hf (fun _ _ h => h)
  | rev i ofn rv =>
    simp only [Machine.step]
    cases hp : m.paths[i]? with
    | none => exact hf
    | some p => exact reverse_fresh m.heap p ofn rv (hm p (List.mem_of_getElem? hp)) hf
  | paste i j ov ml =>
    simp only [Machine.step]
    cases hp : m.paths[i]? with
    | none => exact hf
    | some p =>
      cases hq : m.paths[j]? with
      | none => exact hf
      | some q =>
        simp only
        cases hpa : paste p q ov ml with
        | ok np => exact hf
        | error e => cases e <;> exact hf
  | set i k f =>
    simp only [Machine.step]
    cases hp : m.paths[i]? with
    | none => exact hf
    | some p =>
      simp only
      cases hr : p.frames[k]? with
      | none => exact hf
      | some r => exact assignField_fresh m.heap r f hf
  | setItem i k x =>
    simp only [Machine.step]
    cases hp : m.paths[i]? with
    | none => exact hf
    | some p =>
      simp only
      cases hr : p.frames[k]? with
      | none => exact hf
      | some r =>
        simp only
        cases hs : m.heap.setItem0 r x with
        | none => exact hf
        | some h1 => exact setItem0_fresh m.heap h1 r x hf hs
  | pset i f =>
    simp only [Machine.step]
    cases hp : m.paths[i]? <;> exact hf
  | classify i intf target =>
    simp only [Machine.step]
    cases hp : m.paths[i]? <;> exact hf
  | repl i k j l =>
    simp only [Machine.step]
    cases hp : m.paths[i]? with
    | none => exact hf
    | some p =>
      cases hq : m.paths[j]? with
      | none => exact hf
      | some q =>
        simp only
        cases hr : q.frames[l]? with
        | none => exact hf
        | some r => simp only; split <;> exact hf
  | ext i j =>
    simp only [Machine.step]
    cases hp : m.paths[i]? with
    | none => exact hf
    | some p => cases hq : m.paths[j]? <;> exact hf
  | del i k =>
    simp only [Machine.step]
    cases hp : m.paths[i]? with
    | none => exact hf
    | some p => simp only; split <;> exact hf
  | cpa i j k =>
    simp only [Machine.step]
    cases hp : m.paths[i]? with
    | none => exact hf
    | some p =>
      cases hq : m.paths[j]? with
      | none => exact hf
      | some q =>
        simp only
        cases hr : q.frames[k]? with
        | none => exact hf
        | some r =>
          have hrl : r < m.heap.sys.length := hm q (List.mem_of_getElem? hq) r (List.mem_of_getElem? hr)
          have hc : m.heap.copySys r = (m.heap.push [m.heap.getD r], m.heap.sys.length) := by
            simp [Heap.copySys, look_of_lt m.heap r hrl, Heap.push]
          simp only [Machine.say, hc]
          apply push_fresh _ _ hf
          intro s hs
          simp only [List.mem_singleton] at hs
          subst hs
          exact hf _ (getD_mem m.heap r hrl)
  | emptyOf i ml t =>
    simp only [Machine.step]
    cases hp : m.paths[i]? <;> exact hf
  | newSub ml t c => exact hf
  | pattr i k =>
    simp only [Machine.step]
    cases hp : m.paths[i]? <;> exact hf
  | eq i j =>
    simp only [Machine.step]
    cases hp : m.paths[i]? with
    | none => exact hf
    | some p => cases hq : m.paths[j]? <;> exact hf
  | ne i j =>
    simp only [Machine.step]
    cases hp : m.paths[i]? with
    | none => exact hf
    | some p => cases hq : m.paths[j]? <;> exact hf
  | shoot i u =>
    simp only [Machine.step]
    cases hp : m.paths[i]? with
    | none => exact hf
    | some p =>
      simp only
      split
      · exact hf
      · split <;> exact hf
  | upd i ekin vpot =>
    simp only [Machine.step]
    cases hp : m.paths[i]? with
    | none => exact hf
    | some p => exact updGo_fresh ekin vpot p.frames 0 m.heap hf
  | emptyDef i ml t =>
    simp only [Machine.step]
    cases hp : m.paths[i]? <;> exact hf
  | setArrItem i k a x =>
    simp only [Machine.step]
    cases hp : m.paths[i]? with
    | none => exact hf
    | some p =>
      simp only
      cases hr : p.frames[k]? with
      | none => exact hf
      | some r =>
        simp only
        cases hs : m.heap.setArrItem r a x with
        | none => exact hf
        | some h1 => exact setArrItem_fresh m.heap h1 r a x hf hs
  | adr i =>
    simp only [Machine.step]
    cases hp : m.paths[i]? <;> exact hf
  | revVel i k =>
    simp only [Machine.step]
    cases hp : m.paths[i]? with
    | none => exact hf
    | some p =>
      simp only
      cases hr : p.frames[k]? with
      | none => exact hf
      | some r => exact modV_fresh m.heap r _ hf

theorem run_fresh (ops : List Op) : ∀ (m : Machine), m.WFm → m.heap.Fresh → (m.run ops).heap.Fresh := by
  induction ops with
  | nil => intro m _ hf; exact hf
  | cons op ops ih =>
    intro m hm hf
    exact ih (m.step op) (step_wf m op hm) (step_fresh m op hm hf)

theorem capTake_getElem?_of_some {α : Type} (ml : Option Int) (xs : List α) (k : Nat) (y : α)
    (h : (capTake ml xs)[k]? = some y) : xs[k]? = some y := by
  cases ml with
  | none => exact h
  | some m =>
    simp only [capTake, List.getElem?_take] at h
    split at h
    · exact h
    · cases h

/-! ### in-place mutation of a container object -/

theorem withArrObj_arrObj_self (s : Sys) (a : Arr) (o : Nat) : (s.withArrObj a o).arrObj a = o := by
  cases a <;> rfl

theorem withArrObj_v (s : Sys) (a : Arr) (o : Nat) : (s.withArrObj a o).v = s.v := by
  cases a <;> rfl

theorem setArr_arr (v : Vals) (a : Arr) (x : Int) : (v.setArr a x).arr a = x := by
  cases a <;> rfl

/-- in-place `field[0] = x` through reference `r`: every System sees the new value iff it holds the same
    container object as `r`; nothing else changes -/
theorem setArrItem_spec (h : Heap) (r : Nat) (a : Arr) (x : Int) (s : Sys) (hs : h.look r = some s) :
    ∃ h', h.setArrItem r a x = some h' ∧ h'.nOrd = h.nOrd ∧ h'.sys.length = h.sys.length ∧
      ∀ r', h'.look r' = (h.look r').map
        (fun s' => if s'.arrObj a = s.arrObj a then { s' with v := s'.v.setArr a x } else s') := by
  refine ⟨{ h with sys := h.sys.map (fun s' =>
      if s'.arrObj a = s.arrObj a then { s' with v := s'.v.setArr a x } else s') }, ?_, rfl, by simp, ?_⟩
  · simp only [Heap.setArrItem, hs]
  · intro r'
    simp only [Heap.look, List.getElem?_map]

theorem setArr_look_self (h : Heap) (r : Nat) (a : Arr) (x : Int) (s : Sys) (hs : h.look r = some s) :
    (h.setArr r a x).look r = some ({ s with v := s.v.setArr a x }.withArrObj a h.nOrd) := by
  have hr : r < h.sys.length := by
    unfold Heap.look at hs
    exact (List.getElem?_eq_some_iff.1 hs).1
  unfold Heap.setArr
  rw [hs]
  unfold Heap.look
  simp only
  rw [List.getElem?_set_self hr]

/-! ### `update_energies` -/

theorem modV_look_self (h : Heap) (r : Nat) (g : Vals → Vals) :
    (h.modV r g).look r = (h.look r).map (fun s => { s with v := g s.v }) := by
  unfold Heap.modV
  cases hs : h.look r with
  | none => simp [hs]
  | some s =>
    have hr : r < h.sys.length := by
      unfold Heap.look at hs
      exact (List.getElem?_eq_some_iff.1 hs).1
    simp only [Option.map_some]
    unfold Heap.put Heap.look
    simp only
    rw [List.getElem?_set_self hr]

/-- what `update_energies` assigns to the frame at position `j` -/
def setEnergies (ekin vpot : List Int) (j : Nat) (s : Sys) : Sys :=
  { s with v := { s.v with vpot := vpot[j]?, ekin := ekin[j]? } }

theorem updGo_spec (ekin vpot : List Int) : ∀ (rs : List Nat) (i : Nat) (h : Heap), rs.Nodup →
    (∀ r, r ∉ rs → (updGo ekin vpot i h rs).look r = h.look r)
    ∧ (∀ k r, rs[k]? = some r → (updGo ekin vpot i h rs).look r = (h.look r).map (setEnergies ekin vpot (i + k))) := by
  intro rs
  induction rs with
  | nil => intro i h _; exact ⟨fun _ _ => rfl, fun k r hk => by simp at hk⟩
  | cons x xs ih =>
    intro i h hnd
    have hnd' := List.nodup_cons.1 hnd
    obtain ⟨i1, i2⟩ := ih (i + 1) (h.modV x (fun v => { v with vpot := vpot[i]?, ekin := ekin[i]? })) hnd'.2
    simp only [updGo]
    refine ⟨?_, ?_⟩
    · intro r hr
      rw [i1 r (fun hh => hr (by simp [hh]))]
      exact modV_look_ne h r x _ (fun hh => hr (by simp [hh]))
    · intro k r hk
      cases k with
      | zero =>
        simp only [List.getElem?_cons_zero, Option.some.injEq] at hk
        subst hk
        rw [i1 x hnd'.1, modV_look_self]
        rfl
      | succ k =>
        simp only [List.getElem?_cons_succ] at hk
        have hrx : r ≠ x := fun hh => hnd'.1 (hh ▸ List.mem_of_getElem? hk)
        rw [i2 k r hk, modV_look_ne h r x _ hrx]
        congr 2
        omega

/-- without any hypothesis: `update_energies` never changes anything but `ekin` / `vpot` -/
def noEnergies (s : Sys) : Sys := { s with v := { s.v with vpot := none, ekin := none } }

theorem updGo_only_energies (ekin vpot : List Int) : ∀ (rs : List Nat) (i : Nat) (h : Heap) (r : Nat),
    ((updGo ekin vpot i h rs).look r).map noEnergies = (h.look r).map noEnergies := by
  intro rs
  induction rs with
  | nil => intro i h r; rfl
  | cons x xs ih =>
    intro i h r
    simp only [updGo]
    rw [ih]
    by_cases hrx : r = x
    · subst hrx
      rw [modV_look_self]
      cases h.look r <;> rfl
    · rw [modV_look_ne h r x _ hrx]

/-! ### `Path.__eq__` -/

theorem framesIdentical_iff : ∀ (a b : List Nat), a.length = b.length → (framesIdentical a b = true ↔ a = b) := by
  intro a
  induction a with
  | nil => intro b hl; cases b <;> simp_all [framesIdentical]
  | cons x xs ih =>
    intro b hl
    cases b with
    | nil => simp at hl
    | cons y ys =>
      simp only [List.length_cons, Nat.add_right_cancel_iff] at hl
      simp only [framesIdentical]
      by_cases hxy : x = y
      · subst hxy; simp [ih ys hl]
      · simp [hxy]

theorem mapM_option_length {α β : Type} (f : α → Option β) : ∀ (xs : List α) (ys : List β),
    xs.mapM f = some ys → ys.length = xs.length := by
  intro xs
  induction xs with
  | nil => intro ys h; simp at h; subst h; rfl
  | cons x xs ih =>
    intro ys h
    rw [List.mapM_cons] at h
    cases hx : f x with
    | none => simp [hx] at h
    | some b =>
      cases hxs : xs.mapM f with
      | none => simp [hx, hxs] at h
      | some bs =>
        simp [hx, hxs] at h
        subst h
        simp [ih bs hxs]

theorem orderSeq_length (h : Heap) (p : Path) (seq : List Int) (hs : orderSeq h p = some seq) :
    seq.length = p.frames.length := mapM_option_length _ _ _ hs

theorem orderSeq_congr (h : Heap) (p q : Path) (hf : p.frames = q.frames) : orderSeq h p = orderSeq h q := by
  unfold orderSeq; rw [hf]

theorem showViEq_self_ok (seq : List Int) (hne : seq ≠ []) :
    showViEq (ordermax seq) (ordermax seq) = true ∧ showViEq (ordermin seq) (ordermin seq) = true := by
  cases seq with
  | nil => exact absurd rfl hne
  | cons a t => simp [ordermax, ordermin, showViEq]

/-! ### the warnings of `paste_paths` and `__iadd__` (which loop gave up) -/

theorem capLen_mono_room (cap : Option Int) (nb n : Nat) (t0 : Int) (rev : List Nat) (hrev : rev.length = nb)
    (hfit : capLen cap nb = nb) :
    nb + room ((Path.empty cap t0).withFrames rev) n = capLen cap (nb + n) := by
  cases cap with
  | none => simp [room, capLen]
  | some m =>
    simp only [capLen] at hfit ⊢
    simp only [room, withFrames_maxlen, empty_maxlen, withFrames_frames, hrev]
    omega

theorem pasteWarnings_closed (back forw : Path) (ov : Bool) (ml cap : Option Int)
    (hcap : pasteMaxlen back.maxlen forw.maxlen ml = .ok cap) :
    pasteWarnings back forw ov ml =
      (if ml.isNone && back.maxlen != forw.maxlen then ["uneq:" ++ showOptInt cap] else [])
      ++ (if capLen cap back.frames.length < back.frames.length
            then ["tb:" ++ toString (capLen cap back.frames.length)]
          else if capLen cap (back.frames.length + (forwPart forw ov).length)
                < back.frames.length + (forwPart forw ov).length
            then ["tf:" ++ toString (capLen cap (back.frames.length + (forwPart forw ov).length))]
          else []) := by
  unfold pasteWarnings
  rw [hcap]
  simp only
  generalize ht : back.timeOrigin - (back.frames.length : Int) + 1 = t0
  generalize (if ml.isNone && back.maxlen != forw.maxlen then ["uneq:" ++ showOptInt cap] else []) = w0
  obtain ⟨h1, h2⟩ := appendAll_spec back.frames.reverse (Path.empty cap t0)
  have hfw : (if ov = true then List.drop 1 forw.frames else forw.frames) = forwPart forw ov := rfl
  have he : (Path.empty cap t0).frames = [] := rfl
  rw [hfw]
  rw [room_empty, he, List.nil_append, List.length_reverse] at h1
  rw [room_empty, List.length_reverse] at h2
  have hle := capLen_le cap back.frames.length
  cases hok : (appendAll (Path.empty cap t0) back.frames.reverse).2 with
  | false =>
    have hlt : capLen cap back.frames.length ≠ back.frames.length := by
      intro hh; rw [← h2] at hh; rw [hh] at hok; exact Bool.noConfusion hok
    simp only [Bool.not_false, if_true]
    rw [if_pos (show capLen cap back.frames.length < back.frames.length by omega), h1]
    simp only [withFrames_frames, List.length_take, List.length_reverse]
    rw [Nat.min_eq_left hle]
  | true =>
    have heq := h2.1 hok
    simp only [Bool.not_true, Bool.false_eq_true, if_false]
    rw [if_neg (show ¬ capLen cap back.frames.length < back.frames.length by omega), h1, heq]
    have hl : List.take back.frames.length back.frames.reverse = back.frames.reverse := by
      rw [List.take_of_length_le (by simp)]
    rw [hl]
    obtain ⟨h3, h4⟩ := appendAll_spec (forwPart forw ov) ((Path.empty cap t0).withFrames back.frames.reverse)
    have hroom := capLen_mono_room cap back.frames.length (forwPart forw ov).length t0 back.frames.reverse
      (List.length_reverse) heq
    have hrl := room_le ((Path.empty cap t0).withFrames back.frames.reverse) (forwPart forw ov).length
    cases hok2 : (appendAll ((Path.empty cap t0).withFrames back.frames.reverse) (forwPart forw ov)).2 with
    | false =>
      have hne : room ((Path.empty cap t0).withFrames back.frames.reverse) (forwPart forw ov).length
          ≠ (forwPart forw ov).length := by
        intro hh; rw [← h4] at hh; rw [hh] at hok2; exact Bool.noConfusion hok2
      simp only [Bool.not_false, if_true]
      rw [if_pos (show capLen cap (back.frames.length + (forwPart forw ov).length)
        < back.frames.length + (forwPart forw ov).length by omega), h3]
      simp only [withFrames_frames, List.length_append, List.length_reverse, List.length_take]
      rw [Nat.min_eq_left hrl, hroom]
    | true =>
      have := h4.1 hok2
      simp only [Bool.not_true, Bool.false_eq_true, if_false]
      rw [if_neg (show ¬ capLen cap (back.frames.length + (forwPart forw ov).length)
        < back.frames.length + (forwPart forw ov).length by omega)]
      simp

theorem iaddWarnings_closed (self other : Path) :
    iaddWarnings self other =
      if room self other.frames.length < other.frames.length
        then ["ti:" ++ toString (self.frames.length + room self other.frames.length)] else [] := by
  unfold iaddWarnings
  obtain ⟨h1, h2⟩ := appendAll_spec other.frames self
  have hrl := room_le self other.frames.length
  simp only
  cases hok : (appendAll self other.frames).2 with
  | true =>
    have := h2.1 hok
    rw [if_neg (show ¬ room self other.frames.length < other.frames.length by omega)]
    simp
  | false =>
    have hne : room self other.frames.length ≠ other.frames.length := by
      intro hh; rw [← h2] at hh; rw [hh] at hok; exact Bool.noConfusion hok
    rw [if_pos (show room self other.frames.length < other.frames.length by omega), h1]
    simp only [withFrames_frames, List.length_append, List.length_take]
    rw [Nat.min_eq_left hrl]
    simp

theorem capTake_getElem?_lt {α : Type} (ml : Option Int) (xs : List α) (k : Nat)
    (hk : k < (capTake ml xs).length) : (capTake ml xs)[k]? = xs[k]? := by
  cases ml with
  | none => rfl
  | some m =>
    simp only [capTake, List.length_take] at hk ⊢
    rw [List.getElem?_take, if_pos (by omega)]

theorem mapM_option_map {α β γ : Type} (f : α → β) (g : β → Option γ) : ∀ (xs : List α),
    (xs.map f).mapM g = xs.mapM (fun x => g (f x)) := by
  intro xs
  induction xs with
  | nil => rfl
  | cons x xs ih => simp only [List.map_cons, List.mapM_cons, ih]

/-- `order[0]` of a dereferenced frame -/
def headOrder (o : Option Sys) : Option Int :=
  match o with
  | some s => s.v.order.head?
  | none => none

theorem orderSeq_eq_looks (h : Heap) (p : Path) : orderSeq h p = (p.frames.map h.look).mapM headOrder := by
  rw [mapM_option_map]
  rfl

theorem mapM_option_snoc {α β : Type} (f : α → Option β) (xs : List α) (x : α) :
    (xs ++ [x]).mapM f = (xs.mapM f).bind (fun a => (f x).bind (fun b => some (a ++ [b]))) := by
  induction xs with
  | nil => simp only [List.nil_append, List.mapM_cons, List.mapM_nil]; cases f x <;> rfl
  | cons y ys ih =>
    simp only [List.cons_append, List.mapM_cons, ih]
    cases f y with
    | none => rfl
    | some c =>
      cases ys.mapM f with
      | none => rfl
      | some a => cases f x <;> rfl

theorem mapM_option_reverse {α β : Type} (f : α → Option β) : ∀ (xs : List α) (ys : List β),
    xs.mapM f = some ys → xs.reverse.mapM f = some ys.reverse := by
  intro xs
  induction xs with
  | nil => intro ys h; simp at h; subst h; rfl
  | cons x xs ih =>
    intro ys h
    rw [List.mapM_cons] at h
    cases hx : f x with
    | none => simp [hx] at h
    | some b =>
      cases hxs : xs.mapM f with
      | none => simp [hx, hxs] at h
      | some bs =>
        simp [hx, hxs] at h
        subst h
        rw [List.reverse_cons, mapM_option_snoc, ih bs hxs, hx]
        simp

/-- `order[0]` of the field values of a dereferenced frame -/
def headOrderV (o : Option Vals) : Option Int :=
  match o with
  | some v => v.order.head?
  | none => none

theorem orderSeq_eq_vals (h : Heap) (p : Path) : orderSeq h p = (vals h p).mapM headOrderV := by
  unfold vals
  rw [mapM_option_map]
  unfold orderSeq
  congr 1
  funext r
  cases h.look r <;> rfl

theorem revVals_order_of_no_recompute (ofn : Option OrderFn) (rv : Bool) (v : Vals)
    (hno : ∀ f, ofn = some f → (f.velDep && rv) = false) : (revVals ofn rv v).order = v.order := by
  unfold revVals
  cases rv with
  | false => rfl
  | true =>
    simp only [if_true]
    cases ofn with
    | none => rfl
    | some f =>
      have := hno f rfl
      simp only [Bool.and_true] at this
      simp [this, flipV]

theorem nodup_eraseDups_aux : ∀ (n : Nat) (l : List Int), l.length ≤ n → l.eraseDups.Nodup := by
  intro n
  induction n with
  | zero =>
    intro l hl
    have : l = [] := List.length_eq_zero_iff.1 (by omega)
    subst this; simp
  | succ n ih =>
    intro l hl
    cases l with
    | nil => simp
    | cons a as =>
      rw [List.eraseDups_cons]
      refine List.nodup_cons.2 ⟨?_, ih _ ?_⟩
      · rw [List.mem_eraseDups]; simp
      · have := List.length_filter_le (fun b => !b == a) as
        simp only [List.length_cons] at hl
        omega

theorem nodup_eraseDups_int (l : List Int) : l.eraseDups.Nodup := nodup_eraseDups_aux l.length l (Nat.le_refl _)

end Infretis.PathAlg
