import Infretis.Lemmas.PathAlg
/-!
Helper lemmas for C15, `Path.reverse`: closed form of the reversed path and of the values of its
frames (with and without re-computation of the order parameter).
-/
namespace Infretis.PathAlg

/-- what `reverse(order_function, rev_v)` does to the field values of one frame -/
def revVals (ofn : Option OrderFn) (rv : Bool) (v : Vals) : Vals :=
  if rv then
    match ofn with
    | some f => if f.velDep then { flipV v with order := f.calcF (flipV v) } else flipV v
    | none => flipV v
  else v

/-- the field values of the frames of a path, as seen in a heap -/
def vals (h : Heap) (p : Path) : List (Option Vals) := p.frames.map (fun r => (h.look r).map (·.v))

/-- the empty path `reverse` starts from -/
def revStart (p : Path) : Path := { Path.empty p.maxlen 0 with weights := p.weights }

@[simp] theorem revStart_frames (p : Path) : (revStart p).frames = [] := rfl

theorem room_revStart (p : Path) (n : Nat) : room (revStart p) n = capLen p.maxlen n :=
  room_empty p.maxlen 0 n

/-- the heap after the copy loop of `reverse` -/
def revHeap1 (h : Heap) (p : Path) (rv : Bool) : Heap :=
  (copyEach (if rv then flipS else id) false h (revStart p) p.frames.reverse).1

theorem wf_reverse (h : Heap) (rs : List Nat) (hwf : WF h rs) : WF h rs.reverse :=
  fun r hr => hwf r (List.mem_reverse.1 hr)

theorem reverse_snd (h : Heap) (p : Path) (ofn : Option OrderFn) (rv : Bool) (hwf : WF h p.frames) :
    (Path.reverse h p ofn rv).2
      = (revStart p).withFrames (List.range' h.sys.length (capLen p.maxlen p.frames.length)) := by
  have hs := copyEach_frames (if rv then flipS else id) false p.frames.reverse h (revStart p)
    (wf_reverse h _ hwf)
  rw [room_revStart, List.length_reverse, revStart_frames, List.nil_append] at hs
  have : (Path.reverse h p ofn rv).2
      = (copyEach (if rv then flipS else id) false h (revStart p) p.frames.reverse).2 := by
    unfold Path.reverse
    simp only [revStart]
    cases ofn with
    | none => rfl
    | some f => simp only; split <;> rfl
  rw [this, hs]

theorem reverse_fst (h : Heap) (p : Path) (ofn : Option OrderFn) (rv : Bool) :
    (Path.reverse h p ofn rv).1
      = match ofn with
        | none => revHeap1 h p rv
        | some f =>
          if f.velDep && rv then
            recompute f.calcF (revHeap1 h p rv)
              (copyEach (if rv then flipS else id) false h (revStart p) p.frames.reverse).2.frames
          else revHeap1 h p rv := by
  unfold Path.reverse revHeap1
  simp only [revStart]
  cases ofn with
  | none => rfl
  | some f => simp only; split <;> rfl

theorem revHeap1_len (h : Heap) (p : Path) (rv : Bool) (hwf : WF h p.frames) :
    (revHeap1 h p rv).sys.length = h.sys.length + p.frames.length := by
  unfold revHeap1
  rw [copyEach_len _ _ _ _ _ (wf_reverse h _ hwf)]
  simp [nAlloc]

theorem revHeap1_old (h : Heap) (p : Path) (rv : Bool) (hwf : WF h p.frames) (r : Nat)
    (hr : r < h.sys.length) : (revHeap1 h p rv).look r = h.look r :=
  copyEach_old _ _ _ _ _ (wf_reverse h _ hwf) r hr

theorem capLen_le (ml : Option Int) (n : Nat) : capLen ml n ≤ n := by
  unfold capLen; split <;> omega

/-- the new frames of `reverse` are valid references in the copy-loop heap -/
theorem wf_revHeap1 (h : Heap) (p : Path) (rv : Bool) (hwf : WF h p.frames) :
    WF (revHeap1 h p rv) (List.range' h.sys.length (capLen p.maxlen p.frames.length)) := by
  intro r hr
  have := (List.mem_range'_1.1 hr).2
  have := capLen_le p.maxlen p.frames.length
  rw [revHeap1_len h p rv hwf]; omega

/-- the heap after `reverse` has the same size as after its copy loop, and the old objects are
    untouched -/
theorem reverse_heap (h : Heap) (p : Path) (ofn : Option OrderFn) (rv : Bool) (hwf : WF h p.frames) :
    (Path.reverse h p ofn rv).1.sys.length = h.sys.length + p.frames.length
    ∧ ∀ r, r < h.sys.length → (Path.reverse h p ofn rv).1.look r = h.look r := by
  have hfr := copyEach_frames (if rv then flipS else id) false p.frames.reverse h (revStart p)
    (wf_reverse h _ hwf)
  rw [room_revStart, List.length_reverse, revStart_frames, List.nil_append] at hfr
  rw [reverse_fst]
  cases ofn with
  | none => exact ⟨revHeap1_len h p rv hwf, fun r hr => revHeap1_old h p rv hwf r hr⟩
  | some f =>
    simp only
    split
    · rw [hfr]
      simp only [withFrames_frames]
      have hs := recompute_spec f.calcF _ (revHeap1 h p rv)
        (by simpa [revStart] using wf_revHeap1 h p rv hwf)
        (by simpa [revStart] using List.nodup_range' (s := h.sys.length) (n := capLen p.maxlen p.frames.length) (step := 1))
      refine ⟨by rw [hs.1, revHeap1_len h p rv hwf], ?_⟩
      intro r hr
      rw [hs.2.1 r (by simp; omega)]
      exact revHeap1_old h p rv hwf r hr
    · exact ⟨revHeap1_len h p rv hwf, fun r hr => revHeap1_old h p rv hwf r hr⟩

theorem revVals_flipS (ofn : Option OrderFn) (rv : Bool) (s : Sys)
    (hno : ∀ f, ofn = some f → (f.velDep && rv) = false) :
    ((if rv then flipS else id) s).v = revVals ofn rv s.v := by
  unfold revVals
  cases rv with
  | false => simp
  | true =>
    simp only [if_true]
    cases ofn with
    | none => rfl
    | some f =>
      have := hno f rfl
      simp only [Bool.and_true] at this
      simp [this, flipS]

/-- **values after reverse**: the frames of the reversed path carry, in reversed order, the values of
    the original frames transformed by `revVals`; truncated at the limit. -/
theorem reverse_vals (h : Heap) (p : Path) (ofn : Option OrderFn) (rv : Bool) (hwf : WF h p.frames) :
    vals (Path.reverse h p ofn rv).1 (Path.reverse h p ofn rv).2
      = capTake p.maxlen ((vals h p).reverse.map (Option.map (revVals ofn rv))) := by
  have hwr := wf_reverse h _ hwf
  have hfr := copyEach_frames (if rv then flipS else id) false p.frames.reverse h (revStart p) hwr
  have hlk := copyEach_new_looks (if rv then flipS else id) false p.frames.reverse h (revStart p) hwr
  rw [room_revStart, List.length_reverse] at hfr hlk
  rw [revStart_frames, List.nil_append] at hfr
  -- right-hand side in terms of the reversed frame list
  have hrhs : capTake p.maxlen ((vals h p).reverse.map (Option.map (revVals ofn rv)))
      = (p.frames.reverse.take (capLen p.maxlen p.frames.length)).map
          (fun r => (h.look r).map (fun s => revVals ofn rv s.v)) := by
    rw [← take_capLen]
    simp only [vals, List.length_map, List.length_reverse, ← List.map_reverse, List.map_map, List.map_take]
    congr 1
    apply List.map_congr_left
    intro r _
    show Option.map _ (Option.map _ (h.look r)) = _
    cases h.look r <;> rfl
  rw [hrhs]
  unfold vals
  rw [reverse_snd h p ofn rv hwf]
  simp only [withFrames_frames]
  -- a common form for the two cases
  suffices hG : ∃ G : Sys → Vals,
      (∀ r ∈ List.range' h.sys.length (capLen p.maxlen p.frames.length),
        ((Path.reverse h p ofn rv).1.look r).map (·.v) = ((revHeap1 h p rv).look r).map G)
      ∧ ∀ s, G ((if rv then flipS else id) s) = revVals ofn rv s.v by
    obtain ⟨G, hG1, hG2⟩ := hG
    rw [List.map_congr_left hG1]
    have : (List.range' h.sys.length (capLen p.maxlen p.frames.length)).map
        (fun r => ((revHeap1 h p rv).look r).map G)
        = ((List.range' h.sys.length (capLen p.maxlen p.frames.length)).map (revHeap1 h p rv).look).map
            (Option.map G) := by simp
    rw [this]
    unfold revHeap1
    rw [hlk, List.map_map]
    apply List.map_congr_left
    intro r _
    show Option.map G (Option.map _ (h.look r)) = _
    cases h.look r with
    | none => rfl
    | some s => simp [hG2]
  rw [reverse_fst]
  cases ofn with
  | none =>
    exact ⟨(·.v), fun r _ => rfl, fun s => revVals_flipS none rv s (by simp)⟩
  | some f =>
    simp only
    by_cases hc : (f.velDep && rv) = true
    · rw [if_pos hc]
      simp only [Bool.and_eq_true] at hc
      obtain ⟨hvd, hrv⟩ := hc
      subst hrv
      refine ⟨fun s => { s.v with order := f.calcF s.v }, ?_, ?_⟩
      · intro r hr
        rw [hfr]
        simp only [withFrames_frames]
        have hs := recompute_spec f.calcF _ (revHeap1 h p true)
          (by simpa [revStart] using wf_revHeap1 h p true hwf)
          (by simpa [revStart] using List.nodup_range' (s := h.sys.length) (n := capLen p.maxlen p.frames.length) (step := 1))
        exact hs.2.2 r (by simpa [revStart] using hr)
      · intro s
        simp [revVals, hvd, flipS]
    · rw [if_neg hc]
      have hc' : (f.velDep && rv) = false := by simpa using hc
      exact ⟨(·.v), fun r _ => rfl, fun s => revVals_flipS (some f) rv s (by intro g hg; cases hg; exact hc')⟩

theorem revVals_velRev (ofn : Option OrderFn) (rv : Bool) (v : Vals) :
    (revVals ofn rv v).velRev = (v.velRev != rv) := by
  unfold revVals
  cases rv with
  | false => simp
  | true =>
    simp only [if_true]
    cases ofn with
    | none => simp [flipV]
    | some f => obtain ⟨vd, c⟩ := f; cases vd <;> simp [flipV]

theorem flipV_flipV (v : Vals) : flipV (flipV v) = v := by
  cases v; simp [flipV]

theorem revVals_revVals (ofn : Option OrderFn) (rv : Bool) (v : Vals)
    (hcons : ∀ f, ofn = some f → f.velDep = true → rv = true →
      (∀ w o, f.calcF { w with order := o } = f.calcF w) ∧ f.calcF v = v.order) :
    revVals ofn rv (revVals ofn rv v) = v := by
  unfold revVals
  cases rv with
  | false => simp
  | true =>
    simp only [if_true]
    cases ofn with
    | none => exact flipV_flipV v
    | some f =>
      obtain ⟨vd, c⟩ := f
      cases vd with
      | false => simp [flipV_flipV]
      | true =>
        obtain ⟨h1, h2⟩ := hcons _ rfl rfl rfl
        simp only at h1 h2
        simp only [if_true]
        have e : flipV { flipV v with order := c (flipV v) } = { v with order := c (flipV v) } := by
          cases v; simp [flipV]
        rw [e]
        have e2 := h1 v (c (flipV v))
        simp only [e2, h2]

theorem capTake_of_fits {α : Type} (ml : Option Int) (xs : List α) (h : capLen ml xs.length = xs.length) :
    capTake ml xs = xs := by
  cases ml with
  | none => rfl
  | some m =>
    simp only [capLen] at h
    simp only [capTake]
    exact List.take_of_length_le (by omega)

end Infretis.PathAlg
