import Infretis.Lemmas.PathAlgRev
/-!
Helper lemmas for C15: every state the op machine can reach is well formed (all frames of all
paths point into the heap), so the `WF` hypotheses of the property theorems hold on every
reachable state.
-/
namespace Infretis.PathAlg

/-- all frames of all paths are valid references -/
def Machine.WFm (m : Machine) : Prop := ∀ p ∈ m.paths, WF m.heap p.frames

theorem WF_mono (h h' : Heap) (rs : List Nat) (hle : h.sys.length ≤ h'.sys.length) (hwf : WF h rs) :
    WF h' rs := fun r hr => Nat.lt_of_lt_of_le (hwf r hr) hle

theorem put_len (h : Heap) (r : Nat) (s : Sys) : (h.put r s).sys.length = h.sys.length := by
  simp [Heap.put]

theorem modV_len (h : Heap) (r : Nat) (g : Vals → Vals) : (h.modV r g).sys.length = h.sys.length := by
  unfold Heap.modV; split
  · exact put_len _ _ _
  · rfl

theorem assignField_len (h : Heap) (r : Nat) (fld : Field) :
    (assignField h r fld).sys.length = h.sys.length := by
  cases fld <;> simp only [assignField] <;> first
    | exact modV_len h r _
    | exact setOrder_len h r _
    | exact setArr_len h r _ _

theorem setItem0_len (h h' : Heap) (r : Nat) (x : Int) (hs : h.setItem0 r x = some h') :
    h'.sys.length = h.sys.length := by
  unfold Heap.setItem0 at hs
  split at hs
  · split at hs
    · cases hs
    · injection hs with hs; subst hs; simp
  · cases hs

theorem setArrItem_len (h h' : Heap) (r : Nat) (a : Arr) (x : Int) (hs : h.setArrItem r a x = some h') :
    h'.sys.length = h.sys.length := by
  unfold Heap.setArrItem at hs
  split at hs
  · injection hs with hs; subst hs; simp
  · cases hs

theorem updGo_len (ekin vpot : List Int) : ∀ (rs : List Nat) (i : Nat) (h : Heap),
    (updGo ekin vpot i h rs).sys.length = h.sys.length := by
  intro rs
  induction rs with
  | nil => intro i h; rfl
  | cons r rs ih => intro i h; simp only [updGo]; rw [ih, modV_len]

theorem assignPField_frames (p : Path) (f : PField) : (assignPField p f).frames = p.frames := by
  cases f <;> rfl

theorem append_frames_sub (p : Path) (r : Nat) : ∀ x ∈ (p.append r).1.frames, x ∈ p.frames ∨ x = r := by
  intro x hx
  cases hc : p.canAppend with
  | true =>
    rw [append_of_can p r hc] at hx
    simp only [withFrames_frames, List.mem_append, List.mem_singleton] at hx
    exact hx
  | false =>
    rw [append_of_cannot p r hc] at hx
    exact Or.inl hx

theorem wfm_set (h : Heap) (paths : List Path) (i : Nat) (p1 : Path)
    (hall : ∀ p ∈ paths, WF h p.frames) (h1 : WF h p1.frames) :
    ∀ p ∈ paths.set i p1, WF h p.frames := by
  intro p hp
  rcases List.mem_or_eq_of_mem_set hp with hp | rfl
  · exact hall p hp
  · exact h1

theorem wfm_snoc (h : Heap) (paths : List Path) (p1 : Path)
    (hall : ∀ p ∈ paths, WF h p.frames) (h1 : WF h p1.frames) :
    ∀ p ∈ paths ++ [p1], WF h p.frames := by
  intro p hp
  rcases List.mem_append.1 hp with hp | hp
  · exact hall p hp
  · simp only [List.mem_singleton] at hp; subst hp; exact h1

theorem copyEach_wf (f : Sys → Sys) (stop : Bool) (rs : List Nat) (h : Heap) (np : Path)
    (hwf : WF h rs) (hnp : WF h np.frames) :
    h.sys.length ≤ (copyEach f stop h np rs).1.sys.length
    ∧ WF (copyEach f stop h np rs).1 (copyEach f stop h np rs).2.frames := by
  have hlen := copyEach_len f stop rs h np hwf
  have h1 := le_nAlloc stop np rs.length
  have h2 := room_le np rs.length
  refine ⟨by omega, ?_⟩
  rw [copyEach_frames f stop rs h np hwf]
  intro r hr
  simp only [withFrames_frames, List.mem_append] at hr
  rcases hr with hr | hr
  · have := hnp r hr; omega
  · have := (List.mem_range'_1.1 hr).2; omega

theorem step_wf (m : Machine) (op : Op) (hm : m.WFm) : (m.step op).WFm := by
  unfold Machine.WFm at hm ⊢
  cases op with
  | new ml t =>
    simp only [Machine.step, Machine.say]
    exact wfm_snoc _ _ _ hm (fun r hr => by simp [Path.empty] at hr)
  | sys i v =>
    simp only [Machine.step]
    cases hp : m.paths[i]? with
    | none => exact hm
    | some p =>
      simp only [Machine.say, Heap.alloc]
      have hpm : p ∈ m.paths := List.mem_of_getElem? hp
      have hmono : ∀ rs, WF m.heap rs →
          WF (Heap.mk (m.heap.sys ++ [Sys.mk v m.heap.nOrd (m.heap.nOrd + 1) (m.heap.nOrd + 2) (m.heap.nOrd + 3)
            (m.heap.nOrd + 4)]) (m.heap.nOrd + 5)) rs :=
        fun rs h => WF_mono _ _ rs (by simp) h
      apply wfm_set
      · exact fun q hq => hmono _ (hm q hq)
      · intro r hr
        rcases append_frames_sub p _ r hr with h1 | rfl
        · exact hmono _ (hm p hpm) r h1
        · simp
  | app i j k =>
    simp only [Machine.step]
    cases hp : m.paths[i]? with
    | none => exact hm
    | some p =>
      cases hq : m.paths[j]? with
      | none => exact hm
      | some q =>
        simp only
        cases hr : q.frames[k]? with
        | none => exact hm
        | some r =>
          simp only [Machine.say]
          apply wfm_set _ _ _ _ hm
          intro x hx
          rcases append_frames_sub p r x hx with h1 | rfl
          · exact hm p (List.mem_of_getElem? hp) x h1
          · exact hm q (List.mem_of_getElem? hq) x (List.mem_of_getElem? hr)
  | iadd i j =>
    simp only [Machine.step]
    by_cases hij : i = j
    · rw [if_pos hij]; exact hm
    · rw [if_neg hij]
      cases hp : m.paths[i]? with
      | none => exact hm
      | some p =>
        cases hq : m.paths[j]? with
        | none => exact hm
        | some q =>
          simp only [Machine.say]
          have hwq := hm q (List.mem_of_getElem? hq)
          have hwp := hm p (List.mem_of_getElem? hp)
          obtain ⟨h1, h2⟩ := copyEach_wf id true q.frames m.heap p hwq hwp
          apply wfm_set
          · exact fun x hx => WF_mono _ _ _ h1 (hm x hx)
          · exact h2
  | copy i =>
    simp only [Machine.step]
    cases hp : m.paths[i]? with
    | none => exact hm
    | some p =>
      simp only [Machine.say]
      have hwp := hm p (List.mem_of_getElem? hp)
      obtain ⟨h1, h2⟩ := copyEach_wf id false p.frames m.heap (Path.empty p.maxlen 0) hwp
        (fun r hr => by simp at hr)
      apply wfm_snoc
      · exact fun x hx => WF_mono _ _ _ h1 (hm x hx)
      · exact h2
  | rev i ofn rv =>
    simp only [Machine.step]
    cases hp : m.paths[i]? with
    | none => exact hm
    | some p =>
      simp only [Machine.say]
      have hwp := hm p (List.mem_of_getElem? hp)
      have hh := (reverse_heap m.heap p ofn rv hwp).1
      apply wfm_snoc
      · exact fun x hx => WF_mono _ _ _ (by omega) (hm x hx)
      · rw [reverse_snd m.heap p ofn rv hwp]
        intro r hr
        simp only [withFrames_frames] at hr
        have := (List.mem_range'_1.1 hr).2
        have := capLen_le p.maxlen p.frames.length
        omega
  | paste i j ov ml =>
    simp only [Machine.step]
    cases hp : m.paths[i]? with
    | none => exact hm
    | some p =>
      cases hq : m.paths[j]? with
      | none => exact hm
      | some q =>
        simp only
        cases hps : paste p q ov ml with
        | error e => cases e <;> exact hm
        | ok np =>
          simp only [Machine.say]
          apply wfm_snoc _ _ _ hm
          intro r hr
          have hc : paste p q ov ml = .ok np := hps
          cases hcap : pasteMaxlen p.maxlen q.maxlen ml with
          | error e => simp [paste, hcap] at hc
          | ok cap =>
            rw [paste_closed p q ov ml cap hcap] at hc
            injection hc with hc
            subst hc
            simp only [withFrames_frames] at hr
            have hr' : r ∈ p.frames.reverse ++ forwPart q ov := by
              cases cap with
              | none => exact hr
              | some c => exact List.mem_of_mem_take hr
            rcases List.mem_append.1 hr' with h1 | h1
            · exact hm p (List.mem_of_getElem? hp) r (List.mem_reverse.1 h1)
            · apply hm q (List.mem_of_getElem? hq) r
              unfold forwPart at h1
              cases ov with
              | true => exact List.mem_of_mem_drop h1
              | false => exact h1
  | set i k f =>
    simp only [Machine.step]
    cases hp : m.paths[i]? with
    | none => exact hm
    | some p =>
      simp only
      cases hr : p.frames[k]? with
      | none => exact hm
      | some r =>
        simp only [Machine.say]
        exact fun x hx => WF_mono _ _ _ (by rw [assignField_len]; exact Nat.le_refl _) (hm x hx)
  | setItem i k x =>
    simp only [Machine.step]
    cases hp : m.paths[i]? with
    | none => exact hm
    | some p =>
      simp only
      cases hr : p.frames[k]? with
      | none => exact hm
      | some r =>
        simp only
        cases hs : m.heap.setItem0 r x with
        | none => exact hm
        | some h1 =>
          simp only [Machine.say]
          exact fun y hy => WF_mono _ _ _ (by rw [setItem0_len _ _ _ _ hs]; exact Nat.le_refl _) (hm y hy)
  | pset i f =>
    simp only [Machine.step]
    cases hp : m.paths[i]? with
    | none => exact hm
    | some p =>
      simp only [Machine.say]
      apply wfm_set _ _ _ _ hm
      rw [assignPField_frames]
      exact hm p (List.mem_of_getElem? hp)

  | classify i intf target =>
    simp only [Machine.step]
    cases hp : m.paths[i]? with
    | none => exact hm
    | some p => exact hm
  | repl i k j l =>
    simp only [Machine.step]
    cases hp : m.paths[i]? with
    | none => exact hm
    | some p =>
      cases hq : m.paths[j]? with
      | none => exact hm
      | some q =>
        simp only
        cases hr : q.frames[l]? with
        | none => exact hm
        | some r =>
          simp only
          split
          · simp only [Machine.say]
            apply wfm_set _ _ _ _ hm
            intro x hx
            rcases List.mem_or_eq_of_mem_set hx with h1 | rfl
            · exact hm p (List.mem_of_getElem? hp) x h1
            · exact hm q (List.mem_of_getElem? hq) x (List.mem_of_getElem? hr)
          · exact hm
  | ext i j =>
    simp only [Machine.step]
    cases hp : m.paths[i]? with
    | none => exact hm
    | some p =>
      cases hq : m.paths[j]? with
      | none => exact hm
      | some q =>
        simp only [Machine.say]
        apply wfm_set _ _ _ _ hm
        intro x hx
        rcases List.mem_append.1 hx with h1 | h1
        · exact hm p (List.mem_of_getElem? hp) x (List.dropLast_subset _ h1)
        · exact hm q (List.mem_of_getElem? hq) x h1
  | del i k =>
    simp only [Machine.step]
    cases hp : m.paths[i]? with
    | none => exact hm
    | some p =>
      simp only
      split
      · simp only [Machine.say]
        apply wfm_set _ _ _ _ hm
        intro x hx
        exact hm p (List.mem_of_getElem? hp) x (List.mem_of_mem_eraseIdx hx)
      · exact hm

  | cpa i j k =>
    simp only [Machine.step]
    cases hp : m.paths[i]? with
    | none => exact hm
    | some p =>
      cases hq : m.paths[j]? with
      | none => exact hm
      | some q =>
        simp only
        cases hr : q.frames[k]? with
        | none => exact hm
        | some r =>
          simp only [Machine.say]
          have hrl : r < m.heap.sys.length := hm q (List.mem_of_getElem? hq) r (List.mem_of_getElem? hr)
          have hc : m.heap.copySys r = (m.heap.push [m.heap.getD r], m.heap.sys.length) := by
            simp [Heap.copySys, look_of_lt m.heap r hrl, Heap.push]
          rw [hc]
          simp only
          have hmono : ∀ rs, WF m.heap rs → WF (m.heap.push [m.heap.getD r]) rs :=
            fun rs h => WF_mono _ _ rs (by simp) h
          apply wfm_set
          · exact fun x hx => hmono _ (hm x hx)
          · intro x hx
            rcases append_frames_sub p _ x hx with h1 | rfl
            · exact hmono _ (hm p (List.mem_of_getElem? hp)) x h1
            · simp
  | emptyOf i ml t =>
    simp only [Machine.step]
    cases hp : m.paths[i]? with
    | none => exact hm
    | some p =>
      simp only [Machine.say]
      exact wfm_snoc _ _ _ hm (fun r hr => by simp [Path.empty] at hr)
  | newSub ml t c =>
    simp only [Machine.step, Machine.say]
    exact wfm_snoc _ _ _ hm (fun r hr => by simp [Path.empty] at hr)
  | pattr i k =>
    simp only [Machine.step]
    cases hp : m.paths[i]? with
    | none => exact hm
    | some p => exact hm
  | eq i j =>
    simp only [Machine.step]
    cases hp : m.paths[i]? with
    | none => exact hm
    | some p =>
      cases hq : m.paths[j]? with
      | none => exact hm
      | some q => exact hm
  | ne i j =>
    simp only [Machine.step]
    cases hp : m.paths[i]? with
    | none => exact hm
    | some p =>
      cases hq : m.paths[j]? with
      | none => exact hm
      | some q => exact hm
  | shoot i u =>
    simp only [Machine.step]
    cases hp : m.paths[i]? with
    | none => exact hm
    | some p =>
      simp only
      split
      · exact hm
      · split <;> exact hm
  | upd i ekin vpot =>
    simp only [Machine.step]
    cases hp : m.paths[i]? with
    | none => exact hm
    | some p =>
      simp only [Machine.say, updateEnergies]
      exact fun x hx => WF_mono _ _ _ (by rw [updGo_len]; exact Nat.le_refl _) (hm x hx)
  | emptyDef i ml t =>
    simp only [Machine.step]
    cases hp : m.paths[i]? with
    | none => exact hm
    | some p =>
      simp only [Machine.say]
      exact wfm_snoc _ _ _ hm (fun r hr => by simp [Path.emptyPath, Path.empty] at hr)
  | setArrItem i k a x =>
    simp only [Machine.step]
    cases hp : m.paths[i]? with
    | none => exact hm
    | some p =>
      simp only
      cases hr : p.frames[k]? with
      | none => exact hm
      | some r =>
        simp only
        cases hs : m.heap.setArrItem r a x with
        | none => exact hm
        | some h1 =>
          simp only [Machine.say]
          exact fun y hy => WF_mono _ _ _ (by rw [setArrItem_len _ _ _ _ _ hs]; exact Nat.le_refl _) (hm y hy)
  | adr i =>
    simp only [Machine.step]
    cases hp : m.paths[i]? with
    | none => exact hm
    | some p => exact hm
  | revVel i k =>
    simp only [Machine.step]
    cases hp : m.paths[i]? with
    | none => exact hm
    | some p =>
      simp only
      cases hr : p.frames[k]? with
      | none => exact hm
      | some r =>
        simp only [Machine.say, Heap.reverseVelocities]
        exact fun x hx => WF_mono _ _ _ (by rw [modV_len]; exact Nat.le_refl _) (hm x hx)

theorem run_wf (ops : List Op) : ∀ (m : Machine), m.WFm → (m.run ops).WFm := by
  induction ops with
  | nil => intro m hm; exact hm
  | cons op ops ih =>
    intro m hm
    exact ih (m.step op) (step_wf m op hm)

end Infretis.PathAlg
