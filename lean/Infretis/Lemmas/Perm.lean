import Infretis.Model.Perm
import Mathlib.Algebra.Order.Field.Rat
import Mathlib.Tactic.Ring
import Mathlib.Tactic.FieldSimp
import Mathlib.Tactic.Linarith
/-!
# Core lemmas about the list permanent `permN` / `permC` (C02)

`sumPick` algebra, invariance under permutation of the rows, Laplace expansion along an
arbitrary column and row, row scaling, block-triangular factorisation.
-/
namespace Infretis.Perm

theorem sumPick_congr {α : Type} (f g : α → List α → Rat) (l : List α)
    (h : ∀ x xs, f x xs = g x xs) : sumPick f l = sumPick g l := by
  induction l generalizing f g with
  | nil => rfl
  | cons x xs ih => simp only [sumPick, h]

theorem sumPick_add {α : Type} (f g : α → List α → Rat) (l : List α) :
    sumPick (fun x xs => f x xs + g x xs) l = sumPick f l + sumPick g l := by
  induction l generalizing f g with
  | nil => simp [sumPick]
  | cons x xs ih => simp only [sumPick]; rw [ih]; ring

theorem sumPick_mul_left {α : Type} (c : Rat) (f : α → List α → Rat) (l : List α) :
    sumPick (fun x xs => c * f x xs) l = c * sumPick f l := by
  induction l generalizing f with
  | nil => simp [sumPick]
  | cons x xs ih => simp only [sumPick]; rw [ih]; ring

theorem sumPick_zero {α : Type} (l : List α) : sumPick (fun _ _ => (0 : Rat)) l = 0 := by
  induction l with
  | nil => rfl
  | cons x xs ih => simp only [sumPick]; rw [ih]; ring

theorem sumPick_map {α β : Type} (g : α → β) (f : β → List β → Rat) (l : List α) :
    sumPick f (l.map g) = sumPick (fun x xs => f (g x) (xs.map g)) l := by
  induction l generalizing f with
  | nil => rfl
  | cons x xs ih => simp only [List.map_cons, sumPick]; rw [ih]

theorem sumPick_append {α : Type} (f : α → List α → Rat) (l₁ l₂ : List α) :
    sumPick f (l₁ ++ l₂) =
      sumPick (fun x xs => f x (xs ++ l₂)) l₁ + sumPick (fun y ys => f y (l₁ ++ ys)) l₂ := by
  induction l₁ generalizing f with
  | nil => simp [sumPick]
  | cons x xs ih =>
    simp only [List.cons_append, sumPick]
    rw [ih]; ring

/-- sumPick is invariant under permutation when `f` is invariant under permuting its rest argument -/
theorem sumPick_perm {α : Type} (f : α → List α → Rat)
    (hf : ∀ x l₁ l₂, l₁.Perm l₂ → f x l₁ = f x l₂) {l₁ l₂ : List α} (h : l₁.Perm l₂) :
    sumPick f l₁ = sumPick f l₂ := by
  induction h generalizing f with
  | nil => rfl
  | cons x hp ih =>
    simp only [sumPick]
    rw [hf x _ _ hp, ih _ (fun y a b hab => hf y _ _ (List.Perm.cons x hab))]
  | swap x y l =>
    simp only [sumPick]
    have h2 : sumPick (fun y_1 ys => f y_1 (y :: x :: ys)) l
        = sumPick (fun y_1 ys => f y_1 (x :: y :: ys)) l :=
      sumPick_congr _ _ _ (fun z zs => hf z _ _ (List.Perm.swap x y zs))
    rw [h2]; ring
  | trans _ _ ih1 ih2 => exact (ih1 f hf).trans (ih2 f hf)

/-- **Row-permutation invariance** of the permanent. -/
theorem permN_perm (m : Nat) {r₁ r₂ : Mat} (h : r₁.Perm r₂) : permN m r₁ = permN m r₂ := by
  induction m generalizing r₁ r₂ with
  | zero => rfl
  | succ m ih =>
    simp only [permN]
    exact sumPick_perm _ (fun x l₁ l₂ hl => by rw [ih hl]) h

theorem permC_perm {r₁ r₂ : Mat} (h : r₁.Perm r₂) : permC r₁ = permC r₂ := by
  unfold permC; rw [h.length_eq]; exact permN_perm _ h

end Infretis.Perm
