import Infretis.Lemmas.PermMain
import Infretis.Lemmas.PermEval
/-!
# `inf_retis` for ANY tie order of the two `np.argsort` calls (C02)

`Infretis.Perm.argsort` sorts stably (`List.mergeSort`); numpy's default `argsort` (introsort / AVX-512 sort) does
not: on in-family matrices with several live paths that end at the same ensemble the real `sort_idx` differs from
the model's.  The lemmas here re-prove the pipeline theorem for `prepareGiven off W locks a b` with ARBITRARY results
`a`, `b` of the two argsort calls, assuming only what any correct argsort guarantees (`Sorts`): a permutation of
the positions that brings the keys into non-decreasing order.  `finishOf locks (prepareGiven …)` is `infRetis` with
the two argsort results as parameters (`Lemmas/PermEval.lean`: `infRetis_of_argsorts`, by `rfl`).
-/
namespace Infretis.Perm

/-- what `np.argsort(keys)` guarantees whatever its tie order: `idx` is a permutation of the positions and the keys
    read in that order are non-decreasing -/
def Sorts (keys : List Int) (idx : List Nat) : Prop :=
  idx.Perm (List.range keys.length) ∧ idx.Pairwise (fun a b => keys.getD a 0 ≤ keys.getD b 0)

/-- the model's own (stable) argsort is one such result -/
theorem sorts_argsort (keys : List Int) : Sorts keys (argsort keys) :=
  ⟨argsort_perm keys, argsort_sorted keys⟩

theorem nondecr_head (a : Int) (l : List Int) (h : nondecr (a :: l) = true) : ∀ b ∈ l, a ≤ b := by
  induction l generalizing a with
  | nil => intro b hb; cases hb
  | cons c rest ih =>
    simp only [nondecr, Bool.and_eq_true, decide_eq_true_eq] at h
    intro b hb
    rcases List.mem_cons.mp hb with rfl | hb
    · exact h.1
    · exact Int.le_trans h.1 (ih c h.2 b hb)

theorem nondecr_tail (a : Int) (l : List Int) (h : nondecr (a :: l) = true) : nondecr l = true := by
  cases l with
  | nil => rfl
  | cons c rest =>
    simp only [nondecr, Bool.and_eq_true] at h
    exact h.2

theorem pairwise_of_nondecr (l : List Int) (h : nondecr l = true) : l.Pairwise (fun a b => a ≤ b) := by
  induction l with
  | nil => exact List.Pairwise.nil
  | cons a l ih => exact List.Pairwise.cons (nondecr_head a l h) (ih (nondecr_tail a l h))

/-- the executable check (driver, tie) implies the hypothesis of the theorems -/
theorem sorts_of_sortsB (keys : List Int) (idx : List Nat) (h : sortsB keys idx = true) : Sorts keys idx := by
  simp only [sortsB, Bool.and_eq_true] at h
  refine ⟨List.isPerm_iff.mp h.1, ?_⟩
  have := pairwise_of_nondecr _ h.2
  rwa [List.pairwise_map] at this

theorem perm_range_le_one (o : Nat) (ho : o ≤ 1) (idx : List Nat) (h : idx.Perm (List.range o)) :
    idx = List.range o := by
  obtain rfl | rfl : o = 0 ∨ o = 1 := by omega
  · simpa using h
  · have : idx.Perm [0] := by simpa [List.range_succ] using h
    exact List.perm_singleton.mp this

set_option maxHeartbeats 400000 in
/-- `sortedReach_of` for arbitrary sorting permutations -/
theorem sortedReach_of_sorting (o : Nat) (N : Mat) (cnts : List Nat) (hR : Reach o N cnts)
    (hP : permC N ≠ 0) (idx1 idx2 : List Nat)
    (h1 : Sorts ((N.take o).map (fun r => (firstPos r : Int))) idx1)
    (h2 : Sorts ((N.drop o).map (fun r => -(firstPos r.reverse : Int))) idx2) :
    ∃ cnts', SortedReach o ((idx1 ++ idx2.map (fun i => i + o)).map (fun i => N.getD i [])) cnts' := by
  have hlen := hR.hlen
  have ho := hR.ho
  have hk1 : ((N.take o).map (fun r => (firstPos r : Int))).length = o := by
    simp only [List.length_map, List.length_take]; omega
  have h1e : idx1 = List.range o := by
    apply perm_range_le_one o ho
    have := h1.1; rwa [hk1] at this
  subst h1e
  obtain ⟨h2p, h2s⟩ := h2
  generalize hk2 : ((N.drop o).map (fun r => -(firstPos r.reverse : Int))) = k2 at h2p h2s
  have hk2len : k2.length = cnts.length := by
    rw [← hk2]; simp only [List.length_map, List.length_drop]; omega
  rw [hk2len] at h2p
  have hkey : ∀ i, i < cnts.length →
      k2.getD i 0 = -(((o + cnts.length) - (o + cnts.getD i 0) : Nat) : Int) := by
    intro i hi; rw [← hk2]; exact plusKey_getD o N cnts hR hP i hi
  have hperm : (List.range o ++ idx2.map (fun i => i + o)).Perm (List.range N.length) := by
    have h2' := h2p.map (fun i => i + o)
    refine (List.Perm.append_left _ h2').trans ?_
    rw [hlen, List.range_add]
    have e : (fun i => i + o) = (fun i => o + i) := by funext i; omega
    rw [e]
  have hidxlen : idx2.length = cnts.length := by simpa using h2p.length_eq
  have hmem : ∀ k (hk : k < idx2.length), idx2[k] < cnts.length := by
    intro k hk
    exact List.mem_range.mp (h2p.mem_iff.mp (List.getElem_mem hk))
  -- rows of the sorted matrix
  have hSlen : ((List.range o ++ idx2.map (fun i => i + o)).map (fun i => N.getD i [])).length
      = o + cnts.length := by
    simp [hidxlen]
  have hSplus : ∀ k (hk : k < idx2.length),
      ((List.range o ++ idx2.map (fun i => i + o)).map (fun i => N.getD i [])).getD (o + k) []
        = N.getD (o + idx2[k]) [] := by
    intro k hk
    rw [List.map_append, List.getD_eq_getElem?_getD,
      List.getElem?_append_right (by simp)]
    simp [hk, Nat.add_comm]
  have hcnt' : ∀ k (hk : k < idx2.length),
      (idx2.map (fun i => cnts.getD i 0)).getD k 0 = cnts.getD idx2[k] 0 := by
    intro k hk
    simp [List.getD_eq_getElem?_getD, hk]
  have hsorted : (idx2.map (fun i => cnts.getD i 0)).Pairwise (fun a b => a ≤ b) := by
    rw [List.pairwise_map]
    refine List.Pairwise.imp_of_mem ?_ h2s
    intro a b ha hb hab
    have ha' : a < cnts.length := List.mem_range.mp (h2p.mem_iff.mp ha)
    have hb' : b < cnts.length := List.mem_range.mp (h2p.mem_iff.mp hb)
    rw [hkey a ha', hkey b hb'] at hab
    have h1a := (hR.plus a ha').2.1
    have h1b := (hR.plus b hb').2.1
    rw [hlen] at h1a h1b
    omega
  have hS_perm : ((List.range o ++ idx2.map (fun i => i + o)).map (fun i => N.getD i [])).Perm N := by
    have := hperm.map (fun i => N.getD i [])
    have h3 : (List.range N.length).map (fun i => N.getD i []) = N := by
      apply List.ext_getElem
      · simp
      · intro i h1 h2
        simp [List.getD_eq_getElem?_getD, List.getElem?_eq_getElem h2]
    rwa [h3] at this
  refine ⟨idx2.map (fun i => cnts.getD i 0), ⟨⟨ho, ?_, ?_, ?_⟩, hsorted, ?_⟩⟩
  · simp [hidxlen]
  · intro ho1
    subst ho1
    have := hR.minus rfl
    rw [hSlen, ← hlen]
    simpa [List.getD_eq_getElem?_getD] using this
  · intro k hk
    rw [List.length_map] at hk
    rw [hSlen, hSplus k hk, hcnt' k hk, ← hlen]
    exact hR.plus _ (hmem k hk)
  · -- Hall, from the non-vanishing permanent
    intro k hk
    rw [List.length_map] at hk
    by_contra hlt
    rw [hcnt' k hk] at hlt
    apply hP
    rw [← permC_perm hS_perm]
    generalize hS : ((List.range o ++ idx2.map (fun i => i + o)).map (fun i => N.getD i [])) = S
      at hSlen hSplus
    unfold permC
    have hsplit : S = S.take (o + k + 1) ++ S.drop (o + k + 1) := (List.take_append_drop _ _).symm
    have hml : S.length = o + k + 1 + (cnts.length - k - 1) := by rw [hSlen]; omega
    rw [hml]
    conv => lhs; arg 2; rw [hsplit]
    apply permN_narrow_zero (o + k) (cnts.length - k - 1) _ _ (by rw [List.length_drop, hSlen]; omega)
    intro r hr c hc1 hc2
    obtain ⟨i, hi, rfl⟩ := List.mem_iff_getElem.mp hr
    rw [List.length_take] at hi
    rw [List.getElem_take]
    have hiS : i < S.length := by omega
    rcases Nat.lt_or_ge i o with hio | hio
    · -- the minus row
      have ho1 : o = 1 := by omega
      subst ho1
      have hi0 : i = 0 := by omega
      subst hi0
      have hmin := hR.minus rfl
      have hrow : S[0] = N.getD 0 [] := by
        subst hS
        simp [List.getD_eq_getElem?_getD]
      rw [hrow]
      exact hmin.2.2 c (by omega) (by omega)
    · obtain ⟨j, rfl⟩ : ∃ j, i = o + j := ⟨i - o, by omega⟩
      have hj : j < idx2.length := by omega
      have hjk : j ≤ k := by omega
      have hrow := hSplus j hj
      rw [List.getD_eq_getElem?_getD, List.getElem?_eq_getElem hiS] at hrow
      simp only [Option.getD_some] at hrow
      rw [hrow]
      have hpl := hR.plus _ (hmem j hj)
      have hle : cnts.getD idx2[j] 0 ≤ cnts.getD idx2[k] 0 := by
        rcases Nat.lt_or_ge j k with hjk' | hjk'
        · have := List.pairwise_iff_getElem.mp hsorted j k (by simpa using hj) (by simpa using hk) hjk'
          simpa using this
        · have : j = k := by omega
          subst this; exact le_refl _
      exact hpl.2.2.2.2 c (by omega) (by omega)

/-! ## the pipeline for given argsort results -/

theorem prepareGiven_offset (off : Nat) (W : Mat) (locks : List Bool) (a b : List Nat) :
    (prepareGiven off W locks a b).offset = offsetOf off locks := rfl

theorem prepareGiven_m (off : Nat) (W : Mat) (locks : List Bool) (a b : List Nat) :
    (prepareGiven off W locks a b).m = (idle W locks).length := rfl

theorem prepareGiven_sortIdx (off : Nat) (W : Mat) (locks : List Bool) (a b : List Nat) :
    (prepareGiven off W locks a b).sortIdx = a ++ b.map (fun i => i + offsetOf off locks) := rfl

theorem prepareGiven_sorted (off : Nat) (W : Mat) (locks : List Bool) (a b : List Nat) :
    (prepareGiven off W locks a b).sorted
      = (a ++ b.map (fun i => i + offsetOf off locks)).map (fun i => (idle W locks).getD i []) := rfl

theorem prepareGiven_equal (off : Nat) (W : Mat) (locks : List Bool) (a b : List Nat) :
    (prepareGiven off W locks a b).equal
      = (rowConstAt ((prepareGiven off W locks a b).offset - 1)
            ((prepareGiven off W locks a b).sorted.take (prepareGiven off W locks a b).offset)
          && (if (prepareGiven off W locks a b).m ≤ (prepareGiven off W locks a b).offset then true
              else rowConstAt (prepareGiven off W locks a b).offset
                ((prepareGiven off W locks a b).sorted.drop (prepareGiven off W locks a b).offset))) := rfl

theorem offset_prepare (off : Nat) (W : Mat) (locks : List Bool) :
    (prepare off W locks).offset = offsetOf off locks := rfl

/-- the sort permutation for any two sorting results -/
theorem sortIdx_perm_given (o : Nat) (N : Mat) (a b : List Nat)
    (ha : a.Perm (List.range ((N.take o).map (fun r => (firstPos r : Int))).length))
    (hb : b.Perm (List.range ((N.drop o).map (fun r => -(firstPos r.reverse : Int))).length)) :
    (a ++ b.map (fun i => i + o)).Perm (List.range N.length) := by
  have h2 := hb.map (fun i => i + o)
  simp only [List.length_map, List.length_take, List.length_drop] at ha h2
  refine (ha.append h2).trans ?_
  rcases Nat.le_total o N.length with h | h
  · rw [Nat.min_eq_left h]
    have : N.length = o + (N.length - o) := by omega
    conv => rhs; rw [this, List.range_add]
    have e : (fun i => i + o) = (fun i => o + i) := by funext i; omega
    rw [e]
  · rw [Nat.min_eq_right h]
    have : N.length - o = 0 := by omega
    rw [this]
    simp

/-- **Glue** for given argsort results: if the branch phase returns the permanent ratios of the sorted idle block,
    the rest of `inf_retis` returns the embedded specification. -/
theorem finishOf_of_sortedOut (off : Nat) (W : Mat) (locks : List Bool) (a b : List Nat)
    (hperm : (prepareGiven off W locks a b).sortIdx.Perm (List.range (idle W locks).length))
    (hne : idle W locks ≠ []) (hP : permC (idle W locks) ≠ 0)
    (hout : sortedOut (prepareGiven off W locks a b) = goodAcc (prepareGiven off W locks a b).sorted) :
    finishOf locks (prepareGiven off W locks a b) = .ok (probMatrix W locks) := by
  have hm : (prepareGiven off W locks a b).m = (idle W locks).length := rfl
  have hm0 : (prepareGiven off W locks a b).m ≠ 0 := by
    rw [hm]; exact fun h => hne (List.eq_nil_of_length_eq_zero h)
  have hun := unsort_specMat (idle W locks) (prepareGiven off W locks a b).sortIdx hperm
  have hs : (prepareGiven off W locks a b).sorted
      = (prepareGiven off W locks a b).sortIdx.map (fun i => (idle W locks).getD i []) := rfl
  unfold finishOf
  simp only [hout, goodAcc, if_neg hm0]
  rw [hs, hm, hun]
  have h1 : allOnes ((specMat (idle W locks)).map List.sum) = true := by
    apply allOnes_of
    intro x hx
    simp only [specMat, List.map_map, List.mem_map, List.mem_range, Function.comp] at hx
    obtain ⟨i, hi, rfl⟩ := hx
    exact spec_row_sum _ i hi hP
  have h2 : allOnes ((List.range (idle W locks).length).map
      (fun j => (colOf (specMat (idle W locks)) j).sum)) = true := by
    apply allOnes_of
    intro x hx
    simp only [List.mem_map, List.mem_range] at hx
    obtain ⟨j, hj, rfl⟩ := hx
    rw [colOf_specMat _ j hj]
    exact spec_col_sum _ j hj hP
  simp [h1, h2, probMatrix]

/-- a 1×1 sorted idle block always passes the equal-weights test (any `Sorted` record whose `equal` field is the
    code's test) -/
theorem equal_of_length_one_given (off : Nat) (W : Mat) (locks : List Bool) (a b : List Nat) (cnts : List Nat)
    (hS : SortedReach (prepareGiven off W locks a b).offset (prepareGiven off W locks a b).sorted cnts)
    (hm : (prepareGiven off W locks a b).m = (prepareGiven off W locks a b).sorted.length)
    (h1 : (prepareGiven off W locks a b).sorted.length = 1) : (prepareGiven off W locks a b).equal = true := by
  have hm1 : (prepareGiven off W locks a b).m = 1 := by rw [hm, h1]
  have hlen := hS.hlen
  obtain ⟨r, hr⟩ : ∃ r, (prepareGiven off W locks a b).sorted = [r] := by
    match h : (prepareGiven off W locks a b).sorted, h1 with
    | [r], _ => exact ⟨r, rfl⟩
  have hrl : r.length = 1 := by
    rcases Nat.eq_zero_or_pos (prepareGiven off W locks a b).offset with ho | ho
    · have hk : 0 < cnts.length := by rw [h1, ho] at hlen; omega
      have := (hS.plus 0 hk).1
      rw [hr, ho] at this
      simpa using this
    · have ho1 : (prepareGiven off W locks a b).offset = 1 := by have := hS.ho; omega
      have := (hS.minus ho1).1
      rw [hr] at this
      simpa using this
  obtain ⟨x, rfl⟩ : ∃ x, r = [x] := by
    match r, hrl with
    | [x], _ => exact ⟨x, rfl⟩
  rw [prepareGiven_equal, hr, hm1]
  rcases Nat.eq_zero_or_pos (prepareGiven off W locks a b).offset with ho | ho
  · rw [ho]; simp [rowConstAt]
  · have ho1 : (prepareGiven off W locks a b).offset = 1 := by have := hS.ho; omega
    rw [ho1]; simp [rowConstAt]

/-- **The pipeline theorem for any tie order.**  Whatever permutations the two `np.argsort` calls return — as long
    as each sorts its keys — `inf_retis` returns the embedded permanent ratios on the reachable family. -/
theorem finishOf_eq_probMatrix (off : Nat) (W : Mat) (locks : List Bool) (cnts : List Nat) (a b : List Nat)
    (ha : Sorts (keysMinus off W locks) a) (hb : Sorts (keysPlus off W locks) b)
    (hne : idle W locks ≠ [])
    (hR : Reach (offsetOf off locks) (idle W locks) cnts)
    (hP : permC (idle W locks) ≠ 0)
    (hsmall : ∀ bs, findBlocks (prepareGiven off W locks a b).sorted (offsetOf off locks) = .list bs →
      ∀ bl ∈ bs, branchOf (subBlock (prepareGiven off W locks a b).sorted bl.1 bl.2.1 bl.2.2) ≠ .random) :
    finishOf locks (prepareGiven off W locks a b) = .ok (probMatrix W locks) := by
  obtain ⟨cnts', hS⟩ := sortedReach_of_sorting (offsetOf off locks) (idle W locks) cnts hR hP a b ha hb
  have hperm : (prepareGiven off W locks a b).sortIdx.Perm (List.range (idle W locks).length) :=
    sortIdx_perm_given (offsetOf off locks) (idle W locks) a b ha.1 hb.1
  have hS' : SortedReach (prepareGiven off W locks a b).offset (prepareGiven off W locks a b).sorted cnts' := hS
  apply finishOf_of_sortedOut off W locks a b hperm hne hP
  have hm : (prepareGiven off W locks a b).m = (prepareGiven off W locks a b).sorted.length := by
    rw [prepareGiven_m, prepareGiven_sorted, List.length_map]
    exact hperm.length_eq.symm ▸ (by simp)
  cases he : (prepareGiven off W locks a b).equal with
  | true =>
    have he' := he
    rw [prepareGiven_equal, Bool.and_eq_true] at he'
    apply sortedOut_equal _ cnts' hS' hm he he'.1
    by_cases hle : (prepareGiven off W locks a b).m ≤ (prepareGiven off W locks a b).offset
    · exact Or.inl hle
    · right
      have := he'.2
      rwa [if_neg hle] at this
  | false =>
    have h2 : 2 ≤ (prepareGiven off W locks a b).sorted.length := by
      by_contra hlt
      have hpos : 0 < (prepareGiven off W locks a b).sorted.length := by
        rw [← hm, prepareGiven_m]; exact List.length_pos_of_ne_nil hne
      have h1 : (prepareGiven off W locks a b).sorted.length = 1 := by omega
      have := equal_of_length_one_given off W locks a b cnts' hS' hm h1
      rw [he] at this
      exact Bool.false_ne_true this
    exact sortedOut_blocks _ cnts' hS' hm h2 he hsmall

/-- the same without the Monte-Carlo proviso when at most 12 ensembles are idle -/
theorem finishOf_eq_probMatrix_small (off : Nat) (W : Mat) (locks : List Bool) (cnts : List Nat) (a b : List Nat)
    (ha : Sorts (keysMinus off W locks) a) (hb : Sorts (keysPlus off W locks) b)
    (hne : idle W locks ≠ [])
    (hR : Reach (offsetOf off locks) (idle W locks) cnts)
    (hP : permC (idle W locks) ≠ 0) (h12 : (idle W locks).length ≤ 12) :
    finishOf locks (prepareGiven off W locks a b) = .ok (probMatrix W locks) := by
  apply finishOf_eq_probMatrix off W locks cnts a b ha hb hne hR hP
  intro bs _ bl _ hr
  have h1 := branchOf_random_length _ hr
  have h2 := subBlock_length_le (prepareGiven off W locks a b).sorted bl.1 bl.2.1 bl.2.2
  have h3 : (prepareGiven off W locks a b).sorted.length = (idle W locks).length := by
    rw [prepareGiven_sorted, List.length_map]
    exact (sortIdx_perm_given (offsetOf off locks) (idle W locks) a b ha.1 hb.1).length_eq.trans (by simp)
  omega

/-- **The equal-weights branch needs no size proviso**: when the code's own equal-weight test succeeds (every live
    path has one weight — all shooting moves), `find_blocks` and the Monte-Carlo routine are never reached, for any
    number of idle ensembles and any tie order. -/
theorem finishOf_eq_probMatrix_equal (off : Nat) (W : Mat) (locks : List Bool) (cnts : List Nat) (a b : List Nat)
    (ha : Sorts (keysMinus off W locks) a) (hb : Sorts (keysPlus off W locks) b)
    (hne : idle W locks ≠ [])
    (hR : Reach (offsetOf off locks) (idle W locks) cnts)
    (hP : permC (idle W locks) ≠ 0)
    (he : (prepareGiven off W locks a b).equal = true) :
    finishOf locks (prepareGiven off W locks a b) = .ok (probMatrix W locks) := by
  obtain ⟨cnts', hS⟩ := sortedReach_of_sorting (offsetOf off locks) (idle W locks) cnts hR hP a b ha hb
  have hperm : (prepareGiven off W locks a b).sortIdx.Perm (List.range (idle W locks).length) :=
    sortIdx_perm_given (offsetOf off locks) (idle W locks) a b ha.1 hb.1
  have hS' : SortedReach (prepareGiven off W locks a b).offset (prepareGiven off W locks a b).sorted cnts' := hS
  apply finishOf_of_sortedOut off W locks a b hperm hne hP
  have hm : (prepareGiven off W locks a b).m = (prepareGiven off W locks a b).sorted.length := by
    rw [prepareGiven_m, prepareGiven_sorted, List.length_map]
    exact hperm.length_eq.symm ▸ (by simp)
  have he' := he
  rw [prepareGiven_equal, Bool.and_eq_true] at he'
  apply sortedOut_equal _ cnts' hS' hm he he'.1
  by_cases hle : (prepareGiven off W locks a b).m ≤ (prepareGiven off W locks a b).offset
  · exact Or.inl hle
  · right
    have := he'.2
    rwa [if_neg hle] at this

/-! ## one weight per path (shooting moves only): the equal-weights branch, any number of ensembles -/

/-- every non-zero weight of the row is the same number (a path that carries one weight: shooting moves) -/
def RowConst (r : Row) : Prop := ∀ x ∈ r, ∀ y ∈ r, x ≠ 0 → y ≠ 0 → x = y

theorem rowConstAt_of (ref : Nat) (rows : Mat)
    (h : ∀ r ∈ rows, ∀ x ∈ r, x = r.getD ref 0 ∨ x = 0) : rowConstAt ref rows = true := by
  simp only [rowConstAt, List.all_eq_true, Bool.or_eq_true, beq_iff_eq]
  exact h

theorem getD_mem_of_lt (r : Row) (c : Nat) (hc : c < r.length) : r.getD c 0 ∈ r := by
  rw [List.getD_eq_getElem?_getD, List.getElem?_eq_getElem hc]
  exact List.getElem_mem hc

theorem exists_getD_of_mem (r : Row) (x : Rat) (hx : x ∈ r) : ∃ c, c < r.length ∧ r.getD c 0 = x := by
  obtain ⟨c, hc, rfl⟩ := List.mem_iff_getElem.mp hx
  exact ⟨c, hc, by rw [List.getD_eq_getElem?_getD, List.getElem?_eq_getElem hc]; rfl⟩

theorem equal_aux (o : Nat) (N S : Mat) (cnts' : List Nat) (hS : SortedReach o S cnts')
    (hSl : S.length = N.length) (hmemN : ∀ r ∈ S, r ∈ N) (hrc : ∀ r ∈ N, RowConst r) :
    (rowConstAt (o - 1) (S.take o) && (if N.length ≤ o then true else rowConstAt o (S.drop o))) = true := by
  have hlen := hS.hlen
  have ho := hS.ho
  rw [Bool.and_eq_true]
  constructor
  · apply rowConstAt_of
    intro r hr x hx
    obtain rfl | rfl : o = 0 ∨ o = 1 := by omega
    · simp at hr
    · have hpos : 0 < S.length := by omega
      have hr0 : r = S.getD 0 [] := by
        cases hS' : S with
        | nil => rw [hS'] at hpos; simp at hpos
        | cons s0 rest => rw [hS'] at hr; simp at hr; subst hr; rfl
      have hmin := hS.minus rfl
      rw [← hr0] at hmin
      obtain ⟨c, hc, rfl⟩ := exists_getD_of_mem r x hx
      rcases Nat.eq_zero_or_pos c with h0 | h0
      · subst h0; exact Or.inl rfl
      · right; exact hmin.2.2 c h0 (by rw [← hmin.1]; exact hc)
  · by_cases hle : N.length ≤ o
    · rw [if_pos hle]
    · rw [if_neg hle]
      apply rowConstAt_of
      intro r hr x hx
      obtain ⟨k, hk, rfl⟩ := List.mem_iff_getElem.mp hr
      rw [List.length_drop] at hk
      have hkc : k < cnts'.length := by omega
      have hpl := hS.plus k hkc
      have hrow : S.getD (o + k) [] = (S.drop o)[k] := by
        rw [List.getD_eq_getElem?_getD, List.getElem_drop, List.getElem?_eq_getElem (by omega)]
        rfl
      rw [hrow] at hpl
      have hall := hS.hall k hkc
      obtain ⟨hl, hle2, hz1, hp, hz2⟩ := hpl
      have hcpos : 1 ≤ cnts'.getD k 0 := by omega
      have hop : 0 < ((S.drop o)[k]).getD o 0 := hp o (le_refl _) (by omega)
      obtain ⟨c, hc, rfl⟩ := exists_getD_of_mem _ x hx
      rcases Nat.lt_or_ge c o with h1 | h1
      · right; exact hz1 c h1
      · rcases Nat.lt_or_ge c (o + cnts'.getD k 0) with h2 | h2
        · left
          have hxp := hp c h1 h2
          have hin : (S.drop o)[k] ∈ N := hmemN _ (List.mem_of_mem_drop (List.getElem_mem _))
          exact hrc _ hin _ (getD_mem_of_lt _ c hc) _ (getD_mem_of_lt _ o (by omega))
            (ne_of_gt hxp) (ne_of_gt hop)
        · right; exact hz2 c h2 (by rw [← hl]; exact hc)

/-- **One weight per live path ⇒ the code's equal-weight test succeeds**, for any tie order. -/
theorem equal_of_rowConst (off : Nat) (W : Mat) (locks : List Bool) (cnts : List Nat) (a b : List Nat)
    (ha : Sorts (keysMinus off W locks) a) (hb : Sorts (keysPlus off W locks) b)
    (hR : Reach (offsetOf off locks) (idle W locks) cnts)
    (hP : permC (idle W locks) ≠ 0)
    (hrc : ∀ r ∈ idle W locks, RowConst r) :
    (prepareGiven off W locks a b).equal = true := by
  obtain ⟨cnts', hS⟩ := sortedReach_of_sorting (offsetOf off locks) (idle W locks) cnts hR hP a b ha hb
  have hperm : (a ++ b.map (fun i => i + offsetOf off locks)).Perm (List.range (idle W locks).length) :=
    sortIdx_perm_given (offsetOf off locks) (idle W locks) a b ha.1 hb.1
  rw [prepareGiven_equal]
  simp only [prepareGiven_offset, prepareGiven_m, prepareGiven_sorted]
  apply equal_aux _ _ _ cnts' hS
  · rw [List.length_map]; exact hperm.length_eq.trans (by simp)
  · intro r hr
    rw [List.mem_map] at hr
    obtain ⟨i, hi, rfl⟩ := hr
    have hi' : i < (idle W locks).length := List.mem_range.mp (hperm.mem_iff.mp hi)
    rw [List.getD_eq_getElem?_getD, List.getElem?_eq_getElem hi']
    exact List.getElem_mem hi'
  · exact hrc

/-- keeping the idle entries of a row keeps members -/
theorem mem_of_mem_keep {α : Type} (locks : List Bool) (xs : List α) (x : α) (h : x ∈ keep locks xs) : x ∈ xs := by
  induction locks generalizing xs with
  | nil => cases xs <;> simp [keep] at h
  | cons l ls ih =>
    cases xs with
    | nil => simp [keep] at h
    | cons y ys =>
      cases l with
      | true =>
        simp only [keep, if_true] at h
        exact List.mem_cons_of_mem _ (ih ys h)
      | false =>
        simp only [keep, Bool.false_eq_true, if_false, List.mem_cons] at h
        rcases h with rfl | h
        · exact List.mem_cons_self
        · exact List.mem_cons_of_mem _ (ih ys h)

/-- one weight per path in the full state ⇒ one weight per row of the idle block -/
theorem rowConst_idle (W : Mat) (locks : List Bool) (h : ∀ r ∈ W, RowConst r) :
    ∀ r ∈ idle W locks, RowConst r := by
  intro r hr
  simp only [idle, List.mem_map] at hr
  obtain ⟨r0, hr0, rfl⟩ := hr
  have hr0W : r0 ∈ W := mem_of_mem_keep locks W r0 hr0
  intro x hx y hy
  exact h r0 hr0W x (mem_of_mem_keep locks r0 x hx) y (mem_of_mem_keep locks r0 y hy)

/-! ## the blocks handed to `random_prob` have a non-zero diagonal -/

/-- every diagonal sub-block of a sorted family matrix has a non-zero diagonal (Hall's condition) -/
theorem subBlock_diag_ne_zero (o : Nat) (S : Mat) (cnts : List Nat) (hS : SortedReach o S cnts)
    (start stop c : Nat) (hc : c < stop - start) (hb : stop ≤ S.length) :
    entry (subBlock S start stop 1) c c ≠ 0 := by
  rw [Blk.subBlock_entry S start stop c c hc hc]
  exact ne_of_gt (Blk.SR.diag (Blk.sr_of_sortedReach o S cnts hS) (start + c) (by omega))

/-- the sorted idle block is in sorted reachable form for every tie order -/
theorem prepareGiven_sortedReach (off : Nat) (W : Mat) (locks : List Bool) (cnts : List Nat) (a b : List Nat)
    (ha : Sorts (keysMinus off W locks) a) (hb : Sorts (keysPlus off W locks) b)
    (hR : Reach (offsetOf off locks) (idle W locks) cnts) (hP : permC (idle W locks) ≠ 0) :
    ∃ cnts', SortedReach (offsetOf off locks) (prepareGiven off W locks a b).sorted cnts' :=
  sortedReach_of_sorting (offsetOf off locks) (idle W locks) cnts hR hP a b ha hb

theorem prepareGiven_sorted_length (off : Nat) (W : Mat) (locks : List Bool) (a b : List Nat)
    (ha : Sorts (keysMinus off W locks) a) (hb : Sorts (keysPlus off W locks) b) :
    (prepareGiven off W locks a b).sorted.length = (idle W locks).length := by
  rw [prepareGiven_sorted, List.length_map]
  exact (sortIdx_perm_given (offsetOf off locks) (idle W locks) a b ha.1 hb.1).length_eq.trans (by simp)

end Infretis.Perm
