import Infretis.Lemmas.PermSpec
/-!
# Block-triangular factorisation of the list permanent and of `pSpec` (C02)

`W = top ++ bottom`, the `a` rows of `top` vanish on the columns `a … a+b-1`
(`[[A, 0], [C, D]]`): `permC W = permC A * permC D`, and the permanent ratios of `W` are those
of `A` and `D` on the diagonal blocks and zero elsewhere — this is what justifies `find_blocks`.
-/
namespace Infretis.Perm

theorem getD_drop (y : Row) (a b : Nat) : (y.drop a).getD b 0 = y.getD (a + b) 0 := by
  simp [List.getD_eq_getElem?_getD, List.getElem?_drop]

theorem sumPick_eq_zero {α : Type} (f : α → List α → Rat) (l : List α)
    (h : ∀ x xs, (x :: xs).Perm l → f x xs = 0) : sumPick f l = 0 :=
  (sumPick_congr' f (fun _ _ => 0) l h).trans (sumPick_zero l)

/-- **Block factorisation** `perm [[A,0],[C,D]] = perm A * perm D`. -/
theorem permN_block (a b : Nat) (top bottom : Mat) (hb : bottom.length = b)
    (hz : ∀ r ∈ top, ∀ c, a ≤ c → c < a + b → r.getD c 0 = 0) :
    permN (a + b) (top ++ bottom) = permN a top * permN b (bottom.map (List.drop a)) := by
  induction b generalizing bottom with
  | zero =>
    have : bottom = [] := List.eq_nil_of_length_eq_zero hb
    subst this
    simp [permN]
  | succ b ih =>
    show permN (a + b + 1) (top ++ bottom) = _
    rw [permN, sumPick_append]
    have h1 : sumPick (fun x xs => x.getD (a + b) 0 * permN (a + b) (xs ++ bottom)) top = 0 := by
      apply sumPick_eq_zero
      intro x xs hx
      have hm : x ∈ top := hx.subset (List.mem_cons_self)
      rw [hz x hm (a + b) (by omega) (by omega)]; ring
    have h2 : sumPick (fun y ys => y.getD (a + b) 0 * permN (a + b) (top ++ ys)) bottom
        = sumPick (fun y ys => permN a top * (y.getD (a + b) 0 * permN b (ys.map (List.drop a)))) bottom := by
      apply sumPick_congr'
      intro y ys hy
      have hl : ys.length = b := by
        have := hy.length_eq
        simp only [List.length_cons] at this
        omega
      rw [ih ys hl (fun r hr c h1 h2 => hz r hr c h1 (by omega))]
      ring
    rw [h1, h2, sumPick_mul_left, permN, sumPick_map]
    simp only [getD_drop, zero_add]

/-- more rows than columns they live on: `a+1` rows supported on the first `a` columns -/
theorem permN_narrow_zero (a b : Nat) (top bottom : Mat) (hb : bottom.length = b)
    (hz : ∀ r ∈ top, ∀ c, a ≤ c → c < a + 1 + b → r.getD c 0 = 0) :
    permN (a + 1 + b) (top ++ bottom) = 0 := by
  induction b generalizing bottom with
  | zero =>
    have : bottom = [] := List.eq_nil_of_length_eq_zero hb
    subst this
    simp only [List.append_nil, permN]
    apply sumPick_eq_zero
    intro x xs hx
    have hm : x ∈ top := hx.subset (List.mem_cons_self)
    rw [hz x hm a (by omega) (by omega)]; ring
  | succ b ih =>
    show permN (a + 1 + b + 1) (top ++ bottom) = 0
    rw [permN, sumPick_append]
    have h1 : sumPick (fun x xs => x.getD (a + 1 + b) 0 * permN (a + 1 + b) (xs ++ bottom)) top = 0 := by
      apply sumPick_eq_zero
      intro x xs hx
      have hm : x ∈ top := hx.subset (List.mem_cons_self)
      rw [hz x hm (a + 1 + b) (by omega) (by omega)]; ring
    have h2 : sumPick (fun y ys => y.getD (a + 1 + b) 0 * permN (a + 1 + b) (top ++ ys)) bottom = 0 := by
      apply sumPick_eq_zero
      intro y ys hy
      have hl : ys.length = b := by
        have := hy.length_eq
        simp only [List.length_cons] at this
        omega
      rw [ih ys hl (fun r hr c h1 h2 => hz r hr c h1 (by omega))]
      ring
    rw [h1, h2]; ring

theorem permC_block (a b : Nat) (top bottom : Mat) (ht : top.length = a) (hb : bottom.length = b)
    (hz : ∀ r ∈ top, ∀ c, a ≤ c → c < a + b → r.getD c 0 = 0) :
    permC (top ++ bottom) = permC top * permC (bottom.map (List.drop a)) := by
  unfold permC
  rw [List.length_append, List.length_map, ht, hb]
  exact permN_block a b top bottom hb hz


/-! ### the permanent ratios of a block-triangular matrix -/

theorem drop_eraseIdx_lt (y : Row) (j a : Nat) (hj : j < a + 1) :
    (y.eraseIdx j).drop a = y.drop (a + 1) := by
  apply List.ext_getElem?
  intro n
  simp only [List.getElem?_drop, List.getElem?_eraseIdx]
  rw [if_neg (by omega)]
  congr 1
  omega

theorem drop_eraseIdx_ge (y : Row) (j a : Nat) :
    (y.eraseIdx (a + j)).drop a = (y.drop a).eraseIdx j := by
  apply List.ext_getElem?
  intro n
  simp only [List.getElem?_drop, List.getElem?_eraseIdx]
  by_cases h : n < j
  · rw [if_pos (by omega), if_pos h]
  · rw [if_neg (by omega), if_neg h]
    congr 1

section blocks
variable (a b : Nat) (top bottom : Mat) (ht : top.length = a) (hb : bottom.length = b)
  (hz : ∀ r ∈ top, ∀ c, a ≤ c → c < a + b → r.getD c 0 = 0)
include ht hb hz

theorem permC_block_ne (hW : permC (top ++ bottom) ≠ 0) :
    permC top ≠ 0 ∧ permC (bottom.map (List.drop a)) ≠ 0 := by
  rw [permC_block a b top bottom ht hb hz] at hW
  exact ⟨left_ne_zero_of_mul hW, right_ne_zero_of_mul hW⟩

/-- upper-left block: the ratios of `W` are the ratios of `A` -/
theorem pSpec_block_top (hW : permC (top ++ bottom) ≠ 0) (i j : Nat) (hi : i < a) (hj : j < a) :
    pSpec (top ++ bottom) i j = pSpec top i j := by
  obtain ⟨a', rfl⟩ : ∃ a', a = a' + 1 := ⟨a - 1, by omega⟩
  have hne := permC_block_ne (a' + 1) b top bottom ht hb hz hW
  have hi' : i < top.length := by omega
  have hm : permC (minor (top ++ bottom) i j)
      = permC (minor top i j) * permC (bottom.map (List.drop (a' + 1))) := by
    rw [minor_eq, List.eraseIdx_append_of_lt_length hi', dropCol_append]
    have hl : (dropCol j (top.eraseIdx i)).length = a' := by
      simp [dropCol, List.length_eraseIdx, ht, hi]
    have hl2 : (dropCol j bottom).length = b := by simp [dropCol, hb]
    rw [permC_block a' b _ _ hl hl2, minor_eq]
    · congr 2
      simp only [dropCol, List.map_map]
      apply List.map_congr_left
      intro y _
      exact drop_eraseIdx_lt y j a' hj
    · intro r hr c h1 h2
      simp only [dropCol, List.mem_map] at hr
      obtain ⟨r0, hr0, rfl⟩ := hr
      rw [getD_eraseIdx, if_neg (by omega)]
      exact hz r0 (List.mem_of_mem_eraseIdx hr0) (c + 1) (by omega) (by omega)
  have he : entry (top ++ bottom) i j = entry top i j := by
    simp [entry, List.getD_eq_getElem?_getD, List.getElem?_append_left hi']
  unfold pSpec
  rw [hm, he, permC_block (a' + 1) b top bottom ht hb hz]
  have := hne.2
  field_simp

/-- lower-right block: the ratios of `W` are the ratios of `D` -/
theorem pSpec_block_bottom (hW : permC (top ++ bottom) ≠ 0) (i j : Nat) (hi : i < b) :
    pSpec (top ++ bottom) (a + i) (a + j) = pSpec (bottom.map (List.drop a)) i j := by
  obtain ⟨b', rfl⟩ : ∃ b', b = b' + 1 := ⟨b - 1, by omega⟩
  have hne := permC_block_ne a (b' + 1) top bottom ht hb hz hW
  have hm : permC (minor (top ++ bottom) (a + i) (a + j))
      = permC top * permC (minor (bottom.map (List.drop a)) i j) := by
    rw [minor_eq, List.eraseIdx_append_of_length_le (by omega), dropCol_append]
    have hl : (dropCol (a + j) top).length = a := by simp [dropCol, ht]
    have hl2 : (dropCol (a + j) (bottom.eraseIdx (a + i - top.length))).length = b' := by
      simp [dropCol, List.length_eraseIdx, ht, hb, hi]
    rw [permC_block a b' _ _ hl hl2]
    · congr 1
      · unfold permC
        rw [hl, ht]
        apply permN_map_congr
        intro r c hc
        rw [getD_eraseIdx, if_pos (by omega)]
      · rw [minor_eq]
        simp only [dropCol, List.map_map, ht, Nat.add_sub_cancel_left, ← List.eraseIdx_map]
        congr 1
        simp only [List.eraseIdx_map]
        apply List.map_congr_left
        intro y _
        exact drop_eraseIdx_ge y j a
    · intro r hr c h1 h2
      simp only [dropCol, List.mem_map] at hr
      obtain ⟨r0, hr0, rfl⟩ := hr
      rw [getD_eraseIdx]
      split
      · exact hz r0 hr0 c h1 (by omega)
      · exact hz r0 hr0 (c + 1) (by omega) (by omega)
  have he : entry (top ++ bottom) (a + i) (a + j) = entry (bottom.map (List.drop a)) i j := by
    simp only [entry, List.getD_eq_getElem?_getD]
    rw [List.getElem?_append_right (by omega), ht, Nat.add_sub_cancel_left, List.getElem?_map]
    cases bottom[i]? with
    | none => simp
    | some y => simp [List.getElem?_drop]
  unfold pSpec
  rw [hm, he, permC_block a (b' + 1) top bottom ht hb hz]
  have := hne.1
  field_simp

omit hb in
/-- upper-right block: zero weight -/
theorem pSpec_block_upper (i j : Nat) (hi : i < a) (hj1 : a ≤ j) (hj2 : j < a + b) :
    pSpec (top ++ bottom) i j = 0 := by
  apply spec_zero_of_zero
  have hi' : i < top.length := by omega
  simp only [entry, List.getD_eq_getElem?_getD, List.getElem?_append_left hi']
  rw [List.getElem?_eq_getElem hi']
  simp only [Option.getD_some]
  have := hz top[i] (List.getElem_mem hi') j hj1 hj2
  simpa [List.getD_eq_getElem?_getD] using this

/-- lower-left block: positive weight but no perfect matching uses it -/
theorem pSpec_block_lower (i j : Nat) (hi : i < b) (hj : j < a) :
    pSpec (top ++ bottom) (a + i) j = 0 := by
  obtain ⟨a', rfl⟩ : ∃ a', a = a' + 1 := ⟨a - 1, by omega⟩
  obtain ⟨b', rfl⟩ : ∃ b', b = b' + 1 := ⟨b - 1, by omega⟩
  have hm : permC (minor (top ++ bottom) (a' + 1 + i) j) = 0 := by
    rw [minor_eq, List.eraseIdx_append_of_length_le (by omega), dropCol_append]
    have hl2 : (dropCol j (bottom.eraseIdx (a' + 1 + i - top.length))).length = b' := by
      simp [dropCol, List.length_eraseIdx, ht, hb, hi]
    unfold permC
    have hlen : (dropCol j top ++ dropCol j (bottom.eraseIdx (a' + 1 + i - top.length))).length
        = a' + 1 + b' := by
      rw [List.length_append, hl2]; simp [dropCol, ht]
    rw [hlen]
    apply permN_narrow_zero a' b' _ _ hl2
    intro r hr c h1 h2
    simp only [dropCol, List.mem_map] at hr
    obtain ⟨r0, hr0, rfl⟩ := hr
    rw [getD_eraseIdx, if_neg (by omega)]
    exact hz r0 hr0 (c + 1) (by omega) (by omega)
  unfold pSpec
  rw [hm]; simp

end blocks

end Infretis.Perm
