import Infretis.Lemmas.PermBlock
import Infretis.Lemmas.PermProb
import Infretis.Lemmas.PermGlynn
import Infretis.Lemmas.PermStair
import Infretis.Lemmas.PermReach
/-!
# The block branch of `inf_retis` returns the permanent ratios (C02)

`sortedOut_blocks`: on the sorted reachable family (`SortedReach`) with non-equal weights, the
loop over the blocks of `find_blocks` (single / `quick_prob` / `permanent_prob`; blocks sent to
`random_prob` excluded) assembles exactly `specMat` of the sorted matrix.

Helper lemmas live in `Infretis.Perm.Blocks`.
-/
namespace Infretis.Perm.Blocks

/-! ## positivity of the permanent -/

theorem sumPick_nonneg {α : Type} (f : α → List α → Rat) (l : List α)
    (h : ∀ x xs, (x :: xs).Perm l → 0 ≤ f x xs) : 0 ≤ sumPick f l := by
  induction l generalizing f with
  | nil => simp [sumPick]
  | cons a t ih =>
    simp only [sumPick]
    have h1 := h a t (List.Perm.refl _)
    have h2 := ih (fun y ys => f y (a :: ys))
      (fun y ys hy => h y (a :: ys) ((List.Perm.swap a y ys).trans (List.Perm.cons a hy)))
    linarith

/-- all entries non-negative -/
def NonnegRows (rows : Mat) : Prop := ∀ r ∈ rows, ∀ c, 0 ≤ r.getD c 0

theorem permN_nonneg (m : Nat) (rows : Mat) (h : NonnegRows rows) : 0 ≤ permN m rows := by
  induction m generalizing rows with
  | zero => simp [permN]
  | succ m ih =>
    rw [permN]
    apply sumPick_nonneg
    intro x xs hp
    have hx : x ∈ rows := hp.subset List.mem_cons_self
    have hxs : NonnegRows xs := fun r hr => h r (hp.subset (List.mem_cons_of_mem _ hr))
    exact mul_nonneg (h x hx m) (ih xs hxs)

/-- non-negative entries and a positive diagonal: positive permanent -/
theorem permN_pos (m : Nat) (rows : Mat) (hl : rows.length = m) (h : NonnegRows rows)
    (hd : ∀ i, i < m → 0 < entry rows i i) : 0 < permN m rows := by
  induction m generalizing rows with
  | zero => simp [permN]
  | succ m ih =>
    rcases List.eq_nil_or_concat rows with h0 | ⟨init, last, h0⟩
    · subst h0; simp at hl
    · rw [List.concat_eq_append] at h0
      subst h0
      have hil : init.length = m := by simpa using hl
      rw [permN, sumPick_append]
      have h1 : 0 ≤ sumPick (fun x xs => x.getD m 0 * permN m (xs ++ [last])) init := by
        apply sumPick_nonneg
        intro x xs hp
        have hx : x ∈ init := hp.subset List.mem_cons_self
        apply mul_nonneg (h x (List.mem_append_left _ hx) m)
        apply permN_nonneg
        intro r hr
        rcases List.mem_append.mp hr with hr | hr
        · exact h r (List.mem_append_left _ (hp.subset (List.mem_cons_of_mem _ hr)))
        · exact h r (List.mem_append_right _ hr)
      have h2 : 0 < last.getD m 0 * permN m init := by
        apply mul_pos
        · have := hd m (Nat.lt_succ_self m)
          simpa [entry, ← hil, List.getD_eq_getElem?_getD] using this
        · apply ih init hil (fun r hr => h r (List.mem_append_left _ hr))
          intro i hi
          have := hd i (Nat.lt_succ_of_lt hi)
          have hi' : i < init.length := by omega
          simpa [entry, List.getD_eq_getElem?_getD, List.getElem?_append_left hi'] using this
      simp only [sumPick, List.append_nil, add_zero]
      linarith

theorem permC_pos (rows : Mat) (h : NonnegRows rows)
    (hd : ∀ i, i < rows.length → 0 < entry rows i i) : 0 < permC rows :=
  permN_pos _ rows rfl h hd

/-! ## `pSpec` only reads the square part -/

theorem permN_congr_cols (m : Nat) (g1 g2 : Row → Row) (l : Mat)
    (h : ∀ r c, c < m → (g1 r).getD c 0 = (g2 r).getD c 0) :
    permN m (l.map g1) = permN m (l.map g2) := by
  induction m generalizing l with
  | zero => rfl
  | succ m ih =>
    simp only [permN]
    rw [sumPick_map, sumPick_map]
    apply sumPick_congr
    intro x xs
    rw [h x m (Nat.lt_succ_self m), ih xs (fun r c hc => h r c (Nat.lt_succ_of_lt hc))]

theorem getD_take (r : Row) (k c : Nat) (hc : c < k) : (r.take k).getD c 0 = r.getD c 0 := by
  simp [List.getD_eq_getElem?_getD, hc]

theorem pSpec_map_take (k : Nat) (rows : Mat) (hl : rows.length = k) (i j : Nat)
    (hi : i < k) (hj : j < k) :
    pSpec (rows.map (List.take k)) i j = pSpec rows i j := by
  have he : entry (rows.map (List.take k)) i j = entry rows i j := by
    simp only [entry, List.getD_eq_getElem?_getD, List.getElem?_map]
    cases rows[i]? with
    | none => simp
    | some r => simpa [List.getD_eq_getElem?_getD] using getD_take r k j hj
  have hW : permC (rows.map (List.take k)) = permC rows := by
    unfold permC
    rw [List.length_map, hl]
    exact permN_map_congr k _ rows (fun r c hc => getD_take r k c hc)
  have hm : permC (minor (rows.map (List.take k)) i j) = permC (minor rows i j) := by
    unfold permC minor
    rw [List.eraseIdx_map, List.map_map]
    simp only [List.length_map]
    have hlen : (rows.eraseIdx i).length = k - 1 := by
      rw [List.length_eraseIdx, if_pos (by omega)]; omega
    rw [hlen]
    apply permN_congr_cols
    intro r c hc
    simp only [Function.comp, getD_eraseIdx]
    split
    · exact getD_take r k c (by omega)
    · exact getD_take r k (c + 1) (by omega)
  unfold pSpec
  rw [he, hW, hm]

end Infretis.Perm.Blocks
