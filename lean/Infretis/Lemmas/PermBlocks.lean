import Infretis.Lemmas.PermBlock
import Infretis.Lemmas.PermProb
import Infretis.Lemmas.PermGlynn
import Infretis.Lemmas.PermStair
import Infretis.Lemmas.PermReach
/-!
# The block branch of `inf_retis` returns the permanent ratios (C02)

`sortedOut_blocks`: on the sorted reachable family (`SortedReach`) with non-equal weights, the
loop over the blocks of `find_blocks` (single / `quick_prob` / `permanent_prob`; blocks sent to
`random_prob` excluded) assembles exactly `specMat` of the sorted matrix.

Helper lemmas live in `Infretis.Perm.Blk`.
-/
namespace Infretis.Perm.Blk

set_option linter.unusedSectionVars false

/-! ## positivity of the permanent -/

theorem sumPick_nonneg {α : Type} (f : α → List α → Rat) (l : List α)
    (h : ∀ x xs, (x :: xs).Perm l → 0 ≤ f x xs) : 0 ≤ sumPick f l := by
  induction l generalizing f with
  | nil => simp [sumPick]
  | cons a t ih =>
    simp only [sumPick]
    have h1 := h a t (List.Perm.refl _)
    have h2 := ih (fun y ys => f y (a :: ys))
      (fun y ys hy => h y (a :: ys) ((List.Perm.swap a y ys).trans (List.Perm.cons a hy)))
    linarith

/-- all entries non-negative -/
def NonnegRows (rows : Mat) : Prop := ∀ r ∈ rows, ∀ c, 0 ≤ r.getD c 0

theorem permN_nonneg (m : Nat) (rows : Mat) (h : NonnegRows rows) : 0 ≤ permN m rows := by
  induction m generalizing rows with
  | zero => simp [permN]
  | succ m ih =>
    rw [permN]
    apply sumPick_nonneg
    intro x xs hp
    have hx : x ∈ rows := hp.subset List.mem_cons_self
    have hxs : NonnegRows xs := fun r hr => h r (hp.subset (List.mem_cons_of_mem _ hr))
    exact mul_nonneg (h x hx m) (ih xs hxs)

/-- non-negative entries and a positive diagonal: positive permanent -/
theorem permN_pos (m : Nat) (rows : Mat) (hl : rows.length = m) (h : NonnegRows rows)
    (hd : ∀ i, i < m → 0 < entry rows i i) : 0 < permN m rows := by
  induction m generalizing rows with
  | zero => simp [permN]
  | succ m ih =>
    rcases List.eq_nil_or_concat rows with h0 | ⟨init, last, h0⟩
    · subst h0; simp at hl
    · rw [List.concat_eq_append] at h0
      subst h0
      have hil : init.length = m := by simpa using hl
      rw [permN, sumPick_append]
      have h1 : 0 ≤ sumPick (fun x xs => x.getD m 0 * permN m (xs ++ [last])) init := by
        apply sumPick_nonneg
        intro x xs hp
        have hx : x ∈ init := hp.subset List.mem_cons_self
        apply mul_nonneg (h x (List.mem_append_left _ hx) m)
        apply permN_nonneg
        intro r hr
        rcases List.mem_append.mp hr with hr | hr
        · exact h r (List.mem_append_left _ (hp.subset (List.mem_cons_of_mem _ hr)))
        · exact h r (List.mem_append_right _ hr)
      have h2 : 0 < last.getD m 0 * permN m init := by
        apply mul_pos
        · have := hd m (Nat.lt_succ_self m)
          simpa [entry, ← hil, List.getD_eq_getElem?_getD] using this
        · apply ih init hil (fun r hr => h r (List.mem_append_left _ hr))
          intro i hi
          have := hd i (Nat.lt_succ_of_lt hi)
          have hi' : i < init.length := by omega
          simpa [entry, List.getD_eq_getElem?_getD, List.getElem?_append_left hi'] using this
      simp only [sumPick, List.append_nil, add_zero]
      linarith

theorem permC_pos (rows : Mat) (h : NonnegRows rows)
    (hd : ∀ i, i < rows.length → 0 < entry rows i i) : 0 < permC rows :=
  permN_pos _ rows rfl h hd

/-! ## `pSpec` only reads the square part -/

theorem permN_congr_cols (m : Nat) (g1 g2 : Row → Row) (l : Mat)
    (h : ∀ r c, c < m → (g1 r).getD c 0 = (g2 r).getD c 0) :
    permN m (l.map g1) = permN m (l.map g2) := by
  induction m generalizing l with
  | zero => rfl
  | succ m ih =>
    simp only [permN]
    rw [sumPick_map, sumPick_map]
    apply sumPick_congr
    intro x xs
    rw [h x m (Nat.lt_succ_self m), ih xs (fun r c hc => h r c (Nat.lt_succ_of_lt hc))]

theorem getD_take (r : Row) (k c : Nat) (hc : c < k) : (r.take k).getD c 0 = r.getD c 0 := by
  simp [List.getD_eq_getElem?_getD, hc]

theorem pSpec_map_take (k : Nat) (rows : Mat) (hl : rows.length = k) (i j : Nat)
    (hi : i < k) (hj : j < k) :
    pSpec (rows.map (List.take k)) i j = pSpec rows i j := by
  have he : entry (rows.map (List.take k)) i j = entry rows i j := by
    simp only [entry, List.getD_eq_getElem?_getD, List.getElem?_map]
    cases rows[i]? with
    | none => simp
    | some r => simpa [List.getD_eq_getElem?_getD] using getD_take r k j hj
  have hW : permC (rows.map (List.take k)) = permC rows := by
    unfold permC
    rw [List.length_map, hl]
    exact permN_map_congr k _ rows (fun r c hc => getD_take r k c hc)
  have hm : permC (minor (rows.map (List.take k)) i j) = permC (minor rows i j) := by
    unfold permC minor
    rw [List.eraseIdx_map, List.map_map]
    simp only [List.length_map]
    have hlen : (rows.eraseIdx i).length = k - 1 := by
      rw [List.length_eraseIdx, if_pos (by omega)]; omega
    rw [hlen]
    apply permN_congr_cols
    intro r c hc
    simp only [Function.comp, getD_eraseIdx]
    split
    · exact getD_take r k c (by omega)
    · exact getD_take r k (c + 1) (by omega)
  unfold pSpec
  rw [he, hW, hm]

/-! ## the normalised view of `SortedReach` -/

/-- what the block proof uses of `SortedReach`: `E i` = the entry of `nonZeroCounts` for row `i` -/
structure SR (o : Nat) (S : Mat) (E : Nat → Nat) : Prop where
  ho : o ≤ 1
  rowlen : ∀ r ∈ S, r.length = S.length
  nonneg : ∀ i c, 0 ≤ entry S i c
  zero_hi : ∀ i c, i < S.length → E i ≤ c → entry S i c = 0
  pos : ∀ i c, i < S.length → o ≤ i → o ≤ c → c < E i → 0 < entry S i c
  pos0 : o = 1 → 0 < entry S 0 0
  E0 : o = 1 → E 0 = 1
  mono : ∀ i j, i ≤ j → j < S.length → E i ≤ E j
  hall : ∀ i, i < S.length → i + 1 ≤ E i
  le : ∀ i, i < S.length → E i ≤ S.length

/-- the counts of `find_blocks` on the sorted reachable family -/
def Eof (o : Nat) (cnts : List Nat) (i : Nat) : Nat := if i < o then 1 else o + cnts.getD (i - o) 0

theorem getD_of_length_le (r : Row) (c : Nat) (h : r.length ≤ c) : r.getD c 0 = 0 := by
  simp [List.getD_eq_getElem?_getD, List.getElem?_eq_none h]

theorem entry_of_length_le (S : Mat) (i c : Nat) (h : S.length ≤ i) : entry S i c = 0 := by
  simp [entry, List.getD_eq_getElem?_getD, List.getElem?_eq_none h]

theorem sr_of_sortedReach (o : Nat) (S : Mat) (cnts : List Nat) (hS : SortedReach o S cnts) :
    SR o S (Eof o cnts) := by
  have ho := hS.ho
  have hlen := hS.hlen
  have hcases : ∀ i, i < S.length →
      (i < o ∧ IsMinusRow S.length (S.getD i [])) ∨
      (o ≤ i ∧ i - o < cnts.length ∧ IsPlusRow o S.length (cnts.getD (i - o) 0) (S.getD i [])) := by
    intro i hi
    by_cases h : i < o
    · left
      have h0 : i = 0 := by omega
      subst h0
      exact ⟨h, hS.minus (by omega)⟩
    · right
      have hk : i - o < cnts.length := by omega
      have := hS.plus (i - o) hk
      rw [show o + (i - o) = i by omega] at this
      exact ⟨by omega, hk, this⟩
  have hmono : ∀ a b, a ≤ b → b < cnts.length → cnts.getD a 0 ≤ cnts.getD b 0 := by
    intro a b hab hb
    rcases Nat.eq_or_lt_of_le hab with h | h
    · subst h; exact le_refl _
    · have := (List.pairwise_iff_getElem.mp hS.sorted) a b (by omega) hb h
      simpa [List.getD_eq_getElem?_getD, hb, show a < cnts.length by omega] using this
  have hrl : ∀ i, i < S.length → (S.getD i []).length = S.length := by
    intro i hi
    rcases hcases i hi with ⟨_, hm⟩ | ⟨_, _, hp⟩
    · exact hm.1
    · exact hp.1
  refine ⟨ho, ?_, ?_, ?_, ?_, ?_, ?_, ?_, ?_, ?_⟩
  · intro r hr
    obtain ⟨i, hi, rfl⟩ := List.getElem_of_mem hr
    have := hrl i hi
    rwa [List.getD_eq_getElem _ _ hi] at this
  · intro i c
    by_cases hi : i < S.length
    · by_cases hc : c < S.length
      · unfold entry
        rcases hcases i hi with ⟨_, hm⟩ | ⟨_, _, hp⟩
        · by_cases h0 : c = 0
          · subst h0; exact le_of_lt hm.2.1
          · exact le_of_eq (hm.2.2 c (by omega) hc).symm
        · by_cases h1 : c < o
          · exact le_of_eq (hp.2.2.1 c h1).symm
          · by_cases h2 : c < o + cnts.getD (i - o) 0
            · exact le_of_lt (hp.2.2.2.1 c (by omega) h2)
            · exact le_of_eq (hp.2.2.2.2 c (by omega) hc).symm
      · unfold entry
        rw [getD_of_length_le _ _ (by rw [hrl i hi]; omega)]
    · rw [entry_of_length_le S i c (by omega)]
  · intro i c hi hc
    by_cases hcm : c < S.length
    · unfold entry
      unfold Eof at hc
      rcases hcases i hi with ⟨h, hm⟩ | ⟨h, _, hp⟩
      · rw [if_pos h] at hc
        exact hm.2.2 c hc hcm
      · rw [if_neg (by omega)] at hc
        exact hp.2.2.2.2 c hc hcm
    · unfold entry
      rw [getD_of_length_le _ _ (by rw [hrl i hi]; omega)]
  · intro i c hi hoi hoc hc
    unfold entry
    unfold Eof at hc
    rw [if_neg (by omega)] at hc
    rcases hcases i hi with ⟨h, _⟩ | ⟨_, _, hp⟩
    · omega
    · exact hp.2.2.2.1 c hoc hc
  · intro h1
    have : 0 < S.length := by omega
    rcases hcases 0 this with ⟨_, hm⟩ | ⟨h, _⟩
    · exact hm.2.1
    · omega
  · intro h1
    simp [Eof, h1]
  · intro i j hij hj
    unfold Eof
    have hallj := hS.hall
    by_cases h1 : i < o
    · rw [if_pos h1]
      by_cases h2 : j < o
      · rw [if_pos h2]
      · rw [if_neg h2]
        have := hallj (j - o) (by omega)
        omega
    · rw [if_neg h1, if_neg (by omega)]
      have := hmono (i - o) (j - o) (by omega) (by omega)
      omega
  · intro i hi
    unfold Eof
    by_cases h1 : i < o
    · rw [if_pos h1]; omega
    · rw [if_neg h1]
      have := hS.hall (i - o) (by omega)
      omega
  · intro i hi
    unfold Eof
    by_cases h1 : i < o
    · rw [if_pos h1]; omega
    · rw [if_neg h1]
      rcases hcases i hi with ⟨h, _⟩ | ⟨_, _, hp⟩
      · omega
      · exact hp.2.1

theorem nonnegRows_of_entry (S : Mat) (h : ∀ i c, 0 ≤ entry S i c) : NonnegRows S := by
  intro r hr c
  obtain ⟨i, hi, rfl⟩ := List.getElem_of_mem hr
  have := h i c
  simpa [entry, List.getD_eq_getElem?_getD, hi] using this

theorem entry_eq_getElem (S : Mat) (i c : Nat) (hi : i < S.length) :
    entry S i c = S[i].getD c 0 := by
  simp [entry, List.getD_eq_getElem?_getD, hi]

section sr
variable {o : Nat} {S : Mat} {E : Nat → Nat} (h : SR o S E)
include h

theorem SR.diag (i : Nat) (hi : i < S.length) : 0 < entry S i i := by
  by_cases hoi : o ≤ i
  · exact h.pos i i hi hoi hoi (h.hall i hi)
  · have := h.ho
    have h0 : i = 0 := by omega
    subst h0
    exact h.pos0 (by omega)

theorem SR.permC_pos : 0 < permC S :=
  Blk.permC_pos S (nonnegRows_of_entry S h.nonneg) h.diag

end sr

/-! ## the square sub-block -/

theorem subBlock_one (S : Mat) (a b : Nat) :
    subBlock S a b 1 = ((S.drop a).take (b - a)).map (fun r => (r.drop a).take (b - a)) := by
  unfold subBlock
  apply List.map_congr_left
  intro r _
  rw [if_neg (by decide)]

theorem subBlock_eq_map_take (S : Mat) (a b : Nat) :
    subBlock S a b 1 = ((((S.drop a).map (List.drop a)).take (b - a))).map (List.take (b - a)) := by
  rw [subBlock_one, ← List.map_take, List.map_map]
  rfl

theorem subBlock_length (S : Mat) (a b : Nat) (dir : Int) (hb : b ≤ S.length) :
    (subBlock S a b dir).length = b - a := by
  simp [subBlock]; omega

theorem subBlock_rowlen (S : Mat) (a b : Nat) (hb : b ≤ S.length)
    (hrl : ∀ r ∈ S, r.length = S.length) : ∀ r ∈ subBlock S a b 1, r.length = b - a := by
  intro r hr
  rw [subBlock_one] at hr
  obtain ⟨r0, hr0, rfl⟩ := List.mem_map.mp hr
  have : r0 ∈ S := List.mem_of_mem_drop (List.mem_of_mem_take hr0)
  have := hrl r0 this
  simp; omega

theorem subBlock_entry (S : Mat) (a b i c : Nat) (hi : i < b - a) (hc : c < b - a) :
    entry (subBlock S a b 1) i c = entry S (a + i) (a + c) := by
  rw [subBlock_one]
  simp only [entry, List.getD_eq_getElem?_getD, List.getElem?_map, List.getElem?_take,
    List.getElem?_drop, if_pos hi]
  cases S[a + i]? with
  | none => simp
  | some r => simp [List.getElem?_drop, hc]

/-! ## the permanent ratios of the sorted matrix, block by block -/

section tile
variable {o : Nat} {S : Mat} {E : Nat → Nat} (h : SR o S E)
  (a b : Nat) (hab : a < b) (hb : b ≤ S.length)
  (ha : ∀ j, j < a → E j ≤ a) (hbE : ∀ j, j < b → E j ≤ b)
include h hab hb ha

theorem top_zero : ∀ r ∈ S.take a, ∀ c, a ≤ c → c < a + (S.length - a) → r.getD c 0 = 0 := by
  intro r hr c hc _
  obtain ⟨t, ht, rfl⟩ := List.getElem_of_mem hr
  have ht' : t < a := by simp at ht; omega
  have htS : t < S.length := by omega
  rw [List.getElem_take, ← entry_eq_getElem S t c htS]
  exact h.zero_hi t c htS (le_trans (ha t ht') hc)

theorem take_append_ne : permC (S.take a ++ S.drop a) ≠ 0 := by
  rw [List.take_append_drop]
  exact ne_of_gt h.permC_pos

theorem outer_lower (i' j : Nat) (hi : i' < S.length - a) (hj : j < a) : pSpec S (a + i') j = 0 := by
  have := pSpec_block_lower a (S.length - a) (S.take a) (S.drop a) (by simp; omega) (by simp)
    (top_zero h a b hab hb ha) i' j hi hj
  rwa [List.take_append_drop] at this

theorem outer_bottom (i' j' : Nat) (hi : i' < S.length - a) :
    pSpec S (a + i') (a + j') = pSpec ((S.drop a).map (List.drop a)) i' j' := by
  have := pSpec_block_bottom a (S.length - a) (S.take a) (S.drop a) (by simp; omega) (by simp)
    (top_zero h a b hab hb ha) (take_append_ne h a b hab hb ha) i' j' hi
  rwa [List.take_append_drop] at this

theorem permC_D_ne : permC ((S.drop a).map (List.drop a)) ≠ 0 :=
  (permC_block_ne a (S.length - a) (S.take a) (S.drop a) (by simp; omega) (by simp)
    (top_zero h a b hab hb ha) (take_append_ne h a b hab hb ha)).2

include hbE

theorem D_top_zero : ∀ r ∈ ((S.drop a).map (List.drop a)).take (b - a), ∀ c, b - a ≤ c →
    c < (b - a) + (S.length - a - (b - a)) → r.getD c 0 = 0 := by
  intro r hr c hc _
  obtain ⟨t, ht, rfl⟩ := List.getElem_of_mem hr
  have ht' : t < b - a := by simp at ht; omega
  have htS : a + t < S.length := by omega
  rw [List.getElem_take, List.getElem_map, List.getElem_drop, getD_drop,
    ← entry_eq_getElem S (a + t) (a + c) htS]
  exact h.zero_hi (a + t) (a + c) htS (le_trans (hbE (a + t) (by omega)) (by omega))

theorem inner_upper (i' j' : Nat) (hi : i' < b - a) (hj1 : b - a ≤ j') (hj2 : j' < S.length - a) :
    pSpec ((S.drop a).map (List.drop a)) i' j' = 0 := by
  have := pSpec_block_upper (b - a) (S.length - a - (b - a))
    (((S.drop a).map (List.drop a)).take (b - a)) (((S.drop a).map (List.drop a)).drop (b - a))
    (by simp; omega) (D_top_zero h a b hab hb ha hbE) i' j' hi hj1 (by omega)
  rwa [List.take_append_drop] at this

theorem inner_top (i' j' : Nat) (hi : i' < b - a) (hj : j' < b - a) :
    pSpec ((S.drop a).map (List.drop a)) i' j' = pSpec (subBlock S a b 1) i' j' := by
  have hne : permC (((S.drop a).map (List.drop a)).take (b - a)
      ++ ((S.drop a).map (List.drop a)).drop (b - a)) ≠ 0 := by
    rw [List.take_append_drop]; exact permC_D_ne h a b hab hb ha
  have := pSpec_block_top (b - a) (S.length - a - (b - a))
    (((S.drop a).map (List.drop a)).take (b - a)) (((S.drop a).map (List.drop a)).drop (b - a))
    (by simp; omega) (by simp; omega) (D_top_zero h a b hab hb ha hbE) hne i' j' hi hj
  rw [List.take_append_drop] at this
  rw [this, subBlock_eq_map_take, pSpec_map_take (b - a) _ (by simp; omega) i' j' hi hj]

/-- **the ratios of the sorted matrix on the rows of the block `(a, b)`** -/
theorem pSpec_tile (i j : Nat) (hi1 : a ≤ i) (hi2 : i < b) (hj : j < S.length) :
    pSpec S i j = if a ≤ j ∧ j < b then pSpec (subBlock S a b 1) (i - a) (j - a) else 0 := by
  obtain ⟨i', rfl⟩ : ∃ i', i = a + i' := ⟨i - a, by omega⟩
  have hi' : i' < b - a := by omega
  rw [Nat.add_sub_cancel_left]
  by_cases hja : j < a
  · rw [if_neg (by omega)]
    exact outer_lower h a b hab hb ha i' j (by omega) hja
  · obtain ⟨j', rfl⟩ : ∃ j', j = a + j' := ⟨j - a, by omega⟩
    rw [outer_bottom h a b hab hb ha i' j' (by omega), Nat.add_sub_cancel_left]
    by_cases hjb : a + j' < b
    · rw [if_pos ⟨by omega, hjb⟩]
      exact inner_top h a b hab hb ha hbE i' j' hi' (by omega)
    · rw [if_neg (by omega)]
      exact inner_upper h a b hab hb ha hbE i' j' hi' (by omega) (by omega)

end tile

/-! ## the rows written by one block -/

theorem map_range_tile (f : Nat → Rat) (a k m : Nat) (h : a + k ≤ m)
    (hz : ∀ n, n < m → ¬(a ≤ n ∧ n < a + k) → f n = 0) :
    (List.range m).map f = List.replicate a 0 ++ (List.range k).map (fun t => f (a + t))
      ++ List.replicate (m - a - k) 0 := by
  obtain ⟨d, rfl⟩ : ∃ d, m = a + k + d := ⟨m - a - k, by omega⟩
  rw [List.range_add, List.range_add, List.map_append, List.map_append, List.map_map, List.map_map]
  congr 1
  · congr 1
    rw [List.eq_replicate_iff]
    refine ⟨by simp, ?_⟩
    intro x hx
    obtain ⟨n, hn, rfl⟩ := List.mem_map.mp hx
    have := List.mem_range.mp hn
    exact hz n (by omega) (by omega)
  · rw [List.eq_replicate_iff]
    refine ⟨by simp; omega, ?_⟩
    intro x hx
    obtain ⟨n, hn, rfl⟩ := List.mem_map.mp hx
    have := List.mem_range.mp hn
    exact hz (a + k + n) (by omega) (by omega)

theorem specMat_take (S : Mat) (b : Nat) (hb : b ≤ S.length) :
    (specMat S).take b
      = (List.range b).map (fun i => (List.range S.length).map (fun j => pSpec S i j)) := by
  unfold specMat
  rw [← List.map_take, List.take_range, Nat.min_eq_left hb]

section tile2
variable {o : Nat} {S : Mat} {E : Nat → Nat} (h : SR o S E)
  (a b : Nat) (hab : a < b) (hb : b ≤ S.length)
  (ha : ∀ j, j < a → E j ≤ a) (hbE : ∀ j, j < b → E j ≤ b)
include h hab hb ha hbE

theorem specMat_row_tile (t : Nat) (ht : t < b - a) :
    (List.range S.length).map (fun j => pSpec S (a + t) j)
      = padRow S.length a 1
          ((List.range (b - a)).map (fun j => pSpec (subBlock S a b 1) t j)) := by
  unfold padRow
  rw [if_neg (by decide), List.length_map, List.length_range]
  rw [map_range_tile (fun j => pSpec S (a + t) j) a (b - a) S.length (by omega)]
  · congr 2
    apply List.map_congr_left
    intro j hj
    have hj' := List.mem_range.mp hj
    rw [pSpec_tile h a b hab hb ha hbE (a + t) (a + j) (by omega) (by omega) (by omega),
      if_pos ⟨by omega, by omega⟩, Nat.add_sub_cancel_left, Nat.add_sub_cancel_left]
  · intro n hn hnn
    rw [pSpec_tile h a b hab hb ha hbE (a + t) n (by omega) (by omega) hn, if_neg (by omega)]

/-- the rows of the block `(a, b)` are the rows `a … b-1` of the specification -/
theorem specMat_take_tile :
    (specMat S).take b
      = (specMat S).take a ++ (specMat (subBlock S a b 1)).map (padRow S.length a 1) := by
  rw [specMat_take S b hb, specMat_take S a (by omega)]
  obtain ⟨k, rfl⟩ : ∃ k, b = a + k := ⟨b - a, by omega⟩
  rw [List.range_add, List.map_append, List.map_map]
  congr 1
  unfold specMat
  rw [subBlock_length S a (a + k) 1 hb, List.map_map, Nat.add_sub_cancel_left]
  apply List.map_congr_left
  intro t ht
  have := specMat_row_tile h a (a + k) hab hb ha hbE t (by have := List.mem_range.mp ht; omega)
  rw [Nat.add_sub_cancel_left] at this
  exact this

end tile2

/-! ## the value computed for one block -/

/-- a square block of the sorted matrix: `k × k`, row `i` positive on the first `g i` columns
    and zero after, `i < g i` (Hall) -/
structure IsBlk (sub : Mat) (k : Nat) (g : Nat → Nat) : Prop where
  hk : sub.length = k
  hrow : ∀ r ∈ sub, r.length = k
  hpos : ∀ i c, i < k → c < k → c < g i → 0 < entry sub i c
  hzero : ∀ i c, i < k → c < k → g i ≤ c → entry sub i c = 0
  hg : ∀ i, i < k → i + 1 ≤ g i

section blk
variable {sub : Mat} {k : Nat} {g : Nat → Nat} (h : IsBlk sub k g)
include h

theorem IsBlk.nonneg : NonnegRows sub := by
  intro r hr c
  obtain ⟨i, hi, rfl⟩ := List.getElem_of_mem hr
  have hik : i < k := by rw [← h.hk]; exact hi
  by_cases hc : c < k
  · rw [← entry_eq_getElem sub i c hi]
    by_cases hcg : c < g i
    · exact le_of_lt (h.hpos i c hik hc hcg)
    · exact le_of_eq (h.hzero i c hik hc (by omega)).symm
  · rw [getD_of_length_le _ _ (by rw [h.hrow _ hr]; omega)]

theorem IsBlk.diag (i : Nat) (hi : i < k) : 0 < entry sub i i :=
  h.hpos i i hi hi (h.hg i hi)

theorem IsBlk.permC_pos : 0 < permC sub :=
  Blk.permC_pos sub h.nonneg (fun i hi => h.diag i (by rw [← h.hk]; exact hi))

end blk

theorem IsBlk.single {sub : Mat} {g : Nat → Nat} (h : IsBlk sub 1 g) : specMat sub = [[1]] := by
  match sub, h with
  | [r], h =>
    have hr := h.hrow r (by simp)
    match r, hr, h with
    | [x], _, h =>
      have hx : 0 < x := by
        simpa [entry] using h.hpos 0 0 (by omega) (by omega) (by have := h.hg 0 (by omega); omega)
      have hx' : x ≠ 0 := ne_of_gt hx
      simp [specMat, pSpec, entry, minor, permC, permN, sumPick, hx']

theorem le_maxL (l : List Rat) (x : Rat) (hx : x ∈ l) : x ≤ maxL l := by
  induction l with
  | nil => simp at hx
  | cons a t ih =>
    cases t with
    | nil =>
      have : x = a := by simpa using hx
      subst this; simp [maxL]
    | cons b t' =>
      simp only [maxL]
      rcases List.mem_cons.mp hx with hxa | hxt
      · subst hxa
        split
        · exact le_refl _
        · next hlt => exact not_lt.mp hlt
      · have := ih hxt
        split
        · next hlt => exact le_trans this (le_of_lt hlt)
        · exact this

theorem IsBlk.glynn {sub : Mat} {k : Nat} {g : Nat → Nat} (h : IsBlk sub k g) (hk2 : 2 ≤ k) :
    permanentProb sub = .ok (specMat sub) := by
  have hlen := h.hk
  have hresc : ∀ r ∈ rescaled sub, r.length = k := by
    intro r hr
    simp only [rescaled, scaleAll, List.mem_map] at hr
    obtain ⟨r1, hr1, rfl⟩ := hr
    simp [scaleRow, h.hrow r1 hr1]
  unfold permanentProb
  apply permanentProbWith_eq_spec
  · intro h0; rw [h0] at hlen; simp at hlen; omega
  · intro r hr
    obtain ⟨i, hi, rfl⟩ := List.getElem_of_mem hr
    have hik : i < k := by rw [← h.hk]; exact hi
    have hd := h.diag i hik
    rw [entry_eq_getElem sub i i hi] at hd
    have hil : i < sub[i].length := by rw [h.hrow _ hr]; exact hik
    have hmem : sub[i].getD i 0 ∈ sub[i] := by
      rw [List.getD_eq_getElem _ _ hil]; exact List.getElem_mem hil
    have := le_maxL _ _ hmem
    intro h0; rw [h0] at this; linarith
  · exact ne_of_gt h.permC_pos
  · intro i j hi hj
    have hl : (rescaled sub).length = k := by simp [rescaled, scaleAll, hlen]
    have hml : (minor (rescaled sub) i j).length = k - 1 := by
      rw [length_minor _ _ _ (by omega), hl]
    apply glynn_eq_permC
    · omega
    · intro r hr
      rw [hml]
      simp only [minor, List.mem_map] at hr
      obtain ⟨r0, hr0, rfl⟩ := hr
      have := hresc r0 (List.mem_of_mem_eraseIdx hr0)
      rw [List.length_eraseIdx, this, if_pos (by omega)]

/-! ### `quick_prob` on a row-constant block -/

theorem quickCols_congr (arr arr' : Mat) (n : Nat) (t : List Rat)
    (h : ∀ c, c < n → (colOf arr c).map indicator = (colOf arr' c).map indicator) :
    quickCols arr n t = quickCols arr' n t := by
  induction n generalizing t with
  | zero => rfl
  | succ n ih =>
    simp only [quickCols]
    rw [h n (Nat.lt_succ_self n), ih _ (fun c hc => h c (Nat.lt_succ_of_lt hc))]

/-- `quick_prob` only reads the zero pattern -/
theorem quickProb_congr (arr arr' : Mat) (hl : arr.length = arr'.length)
    (hn : ncols arr = ncols arr')
    (h : ∀ c, c < ncols arr → (colOf arr c).map indicator = (colOf arr' c).map indicator) :
    quickProb arr = quickProb arr' := by
  unfold quickProb
  rw [← hl, ← hn, quickCols_congr arr arr' _ _ h]

theorem hall_count (g : Nat → Nat) (k c : Nat) (hg : ∀ i, i < k → i + 1 ≤ g i) :
    k - c ≤ (((List.range k).map g).filter (fun x => c < x)).length := by
  induction k with
  | zero => simp
  | succ k ih =>
    rw [List.range_succ, List.map_append, List.filter_append, List.length_append]
    have := ih (fun i hi => hg i (by omega))
    by_cases hc : c ≤ k
    · have : c < g k := by have := hg k (by omega); omega
      simp [this]; omega
    · omega

theorem hall_Dnum (g : Nat → Nat) (k : Nat) (hg : ∀ i, i < k → i + 1 ≤ g i) :
    ∀ c, c < ((List.range k).map g).length → 1 ≤ Dnum ((List.range k).map g) c := by
  intro c hc
  have hc' : c < k := by simpa using hc
  have h1 := hall_count g k c hg
  have h2 : ((k - c : Nat) : Rat)
      ≤ ((((List.range k).map g).filter (fun x => c < x)).length : Rat) := by exact_mod_cast h1
  rw [Nat.cast_sub (le_of_lt hc')] at h2
  unfold Dnum
  simp only [List.length_map, List.length_range]
  linarith

theorem IsBlk.ncols {sub : Mat} {k : Nat} {g : Nat → Nat} (h : IsBlk sub k g) (hk1 : 1 ≤ k) :
    ncols sub = k := by
  match sub, h with
  | [], h => have := h.hk; simp at this; omega
  | r :: rest, h => simpa [Infretis.Perm.ncols] using h.hrow r (by simp)

theorem IsBlk.quick {sub : Mat} {k : Nat} {g : Nat → Nat} (h : IsBlk sub k g) (hk1 : 1 ≤ k)
    (hrc : rowConstAt 0 sub = true) : quickProb sub = specMat sub := by
  have hcl : ((List.range k).map g).length = k := by simp
  have hne : (List.range k).map g ≠ [] := by
    intro h0; rw [h0] at hcl; simp at hcl; omega
  have hall := hall_Dnum g k h.hg
  have hlen := h.hk
  -- the same zero pattern
  have h1 : quickProb sub = quickProb (stair ((List.range k).map g)) := by
    apply quickProb_congr
    · rw [stair_length, hcl, hlen]
    · rw [ncols_stair _ hne, hcl, h.ncols hk1]
    · intro c hc
      rw [h.ncols hk1] at hc
      rw [colOf_stair _ c (by rw [hcl]; exact hc)]
      apply List.ext_getElem
      · simp [colOf, hlen]
      · intro i hi1 hi2
        have hik : i < k := by simpa using hi2
        have his : i < sub.length := by omega
        simp only [colOf, List.map_map, List.getElem_map, List.getElem_range, Function.comp]
        rw [← entry_eq_getElem sub i c his]
        by_cases hcg : c < g i
        · have := h.hpos i c hik hc hcg
          simp [indicator, hcg, ne_of_gt this]
        · have := h.hzero i c hik hc (by omega)
          simp [indicator, hcg, this]
  -- rescaling the rows gives the 0/1 staircase
  simp only [rowConstAt, List.all_eq_true, Bool.or_eq_true, beq_iff_eq] at hrc
  have hst : stair ((List.range k).map g) = scaleAll (fun r => 1 / r.getD 0 0) sub := by
    apply List.ext_getElem
    · simp [stair, scaleAll, hlen]
    · intro i hi1 hi2
      have hik : i < k := by simpa [stair] using hi1
      have his : i < sub.length := by omega
      have hrl : sub[i].length = k := h.hrow _ (List.getElem_mem his)
      simp only [stair, scaleAll, List.getElem_map, List.getElem_range, List.length_map,
        List.length_range]
      apply List.ext_getElem
      · simp [stairRow, scaleRow, hrl]
      · intro c hc1 hc2
        have hck : c < k := by simpa [stairRow] using hc1
        have hcr : c < sub[i].length := by omega
        simp only [stairRow, scaleRow, List.getElem_map, List.getElem_range]
        have he : entry sub i c = sub[i][c] := by
          rw [entry_eq_getElem sub i c his, List.getD_eq_getElem _ _ hcr]
        by_cases hcg : c < g i
        · have hp := h.hpos i c hik hck hcg
          rw [he] at hp
          rcases hrc sub[i] (List.getElem_mem his) sub[i][c] (List.getElem_mem hcr) with h3 | h3
          · have hne0 : sub[i][c] ≠ 0 := ne_of_gt hp
            have hone : 1 / List.getD sub[i] 0 0 * sub[i][c] = 1 := by
              rw [← h3]; field_simp
            rw [if_pos hcg]
            exact hone.symm
          · rw [h3] at hp; exact absurd hp (lt_irrefl _)
        · have hz := h.hzero i c hik hck (by omega)
          rw [he] at hz
          rw [if_neg hcg, hz]; simp
  have hf : ∀ r ∈ sub, (fun r : Row => 1 / r.getD 0 0) r ≠ 0 := by
    intro r hr
    obtain ⟨i, hi, rfl⟩ := List.getElem_of_mem hr
    have hik : i < k := by omega
    have := h.hpos i 0 hik (by omega) (by have := h.hg i hik; omega)
    rw [entry_eq_getElem sub i 0 hi] at this
    exact one_div_ne_zero (ne_of_gt this)
  rw [h1, quickProb_stair_eq_spec _ hall]
  unfold specMat
  rw [stair_length, hcl, hlen]
  apply List.map_congr_left
  intro i _
  apply List.map_congr_left
  intro j _
  rw [hst]
  exact pSpec_scaleAll (fun r => 1 / r.getD 0 0) [] sub hf i j

/-! ## `find_blocks` and the block loop on the sorted reachable family -/

theorem isBlk_sub {o : Nat} {S : Mat} {E : Nat → Nat} (h : SR o S E) (a b : Nat) (hab : a < b)
    (hb : b ≤ S.length) (hoa : o ≤ a ∨ b = 1) :
    IsBlk (subBlock S a b 1) (b - a) (fun i => E (a + i) - a) := by
  refine ⟨subBlock_length S a b 1 hb, subBlock_rowlen S a b hb h.rowlen, ?_, ?_, ?_⟩
  · intro i c hi hc hcg
    rw [subBlock_entry S a b i c hi hc]
    rcases hoa with hoa | hb1
    · exact h.pos (a + i) (a + c) (by omega) (by omega) (by omega) (by omega)
    · have : c = i := by omega
      subst this
      exact h.diag (a + c) (by omega)
  · intro i c hi hc hcg
    rw [subBlock_entry S a b i c hi hc]
    have := h.hall (a + i) (by omega)
    exact h.zero_hi (a + i) (a + c) (by omega) (by omega)
  · intro i hi
    have := h.hall (a + i) (by omega)
    omega

theorem filter_length_lt (m e : Nat) (p : Nat → Bool) (he : e ≤ m)
    (hp : ∀ c, c < m → p c = decide (c < e)) : ((List.range m).filter p).length = e := by
  induction m generalizing e with
  | zero => simp; omega
  | succ m ih =>
    rw [List.range_succ, List.filter_append, List.length_append]
    by_cases hem : e ≤ m
    · rw [ih e hem (fun c hc => hp c (by omega))]
      have : p m = false := by rw [hp m (by omega)]; simp; omega
      simp [this]
    · have hee : e = m + 1 := by omega
      rw [ih m (le_refl _) (fun c hc => by rw [hp c (by omega)]; simp; omega)]
      have : p m = true := by rw [hp m (by omega)]; simp; omega
      simp [this, hee]

theorem nonZeroCounts_eq {o : Nat} {S : Mat} {E : Nat → Nat} (h : SR o S E) :
    nonZeroCounts S o = (List.range S.length).map E := by
  unfold nonZeroCounts
  apply List.ext_getElem
  · simp
  · intro i h1 h2
    have hi : i < S.length := by simpa using h1
    have ho := h.ho
    simp only [List.getElem_map, List.getElem_zipIdx, List.getElem_range, zero_add]
    rw [h.rowlen _ (List.getElem_mem hi)]
    apply filter_length_lt _ _ _ (h.le i hi)
    intro c hc
    have hall := h.hall i hi
    by_cases hco : c < o
    · by_cases hio : i < o
      · have hc0 : c = 0 := by omega
        have hi0 : i = 0 := by omega
        subst hc0; subst hi0
        have := h.pos0 (by omega)
        have hE := h.E0 (by omega)
        simp [hco, hE, ne_of_gt this]
      · have : c < E i := by omega
        simp [hco, hio, this]
    · simp only [hco, if_false]
      rw [← entry_eq_getElem S i c hi]
      by_cases hio : i < o
      · have hi0 : i = 0 := by omega
        subst hi0
        have hE := h.E0 (by omega)
        have := h.zero_hi 0 c hi (by omega)
        simp [this, hE]; omega
      · by_cases hcE : c < E i
        · have := h.pos i c hi (by omega) (by omega) hcE
          simp [hcE, ne_of_gt this]
        · have := h.zero_hi i c hi (by omega)
          simp [hcE, this]

theorem reverse_short (l : Row) (hl : l.length ≤ 1) : l.reverse = l := by
  match l, hl with
  | [], _ => rfl
  | [x], _ => rfl

theorem subBlock_dir (S : Mat) (a : Nat) (dir : Int) :
    subBlock S a (a + 1) dir = subBlock S a (a + 1) 1 := by
  unfold subBlock
  apply List.map_congr_left
  intro r _
  rw [if_neg (show ¬ (1 : Int) = -1 by decide)]
  split
  · exact reverse_short _ (by simp)
  · rfl

theorem padRow_dir (m a : Nat) (dir : Int) (vals : Row) (hl : vals.length ≤ 1) :
    padRow m a dir vals = padRow m a 1 vals := by
  unfold padRow
  rw [if_neg (show ¬ (1 : Int) = -1 by decide)]
  split
  · rw [reverse_short _ hl]
  · rfl

theorem blockLoop_cons (S : Mat) (m a b : Nat) (dir : Int) (bs : List (Nat × Nat × Int))
    (acc : BlockAcc)
    (h1 : (subBlock S a b dir).length = 1 → specMat (subBlock S a b dir) = [[1]])
    (h2 : (subBlock S a b dir).length ≠ 1 → rowConstAt 0 (subBlock S a b dir) = true →
      quickProb (subBlock S a b dir) = specMat (subBlock S a b dir))
    (h3 : (subBlock S a b dir).length ≠ 1 →
      permanentProb (subBlock S a b dir) = .ok (specMat (subBlock S a b dir)))
    (hr : branchOf (subBlock S a b dir) ≠ .random) :
    blockLoop S m ((a, b, dir) :: bs) acc
      = blockLoop S m bs { acc with
          rows := acc.rows ++ (specMat (subBlock S a b dir)).map (padRow m a dir) } := by
  rw [blockLoop]
  generalize subBlock S a b dir = sub at *
  by_cases c1 : sub.length = 1
  · have hb : branchOf sub = .single := by simp [branchOf, c1]
    simp only [hb]
    rw [h1 c1]
  · by_cases c2 : rowConstAt 0 sub = true
    · have hb : branchOf sub = .quick := by simp [branchOf, c1, c2]
      simp only [hb]
      rw [h2 c1 c2]
    · by_cases c3 : sub.length ≤ 12
      · have hb : branchOf sub = .glynn := by simp [branchOf, c1, c2, c3]
        simp only [hb, h3 c1]
      · exact absurd (by simp [branchOf, c1, c2, c3]) hr

theorem specMat_row_length (M : Mat) : ∀ r ∈ specMat M, r.length = M.length := by
  intro r hr
  simp only [specMat, List.mem_map, List.mem_range] at hr
  obtain ⟨i, _, rfl⟩ := hr
  simp

/-- one block of the tiling: the loop writes the rows `a … b-1` of the specification -/
theorem block_step {o : Nat} {S : Mat} {E : Nat → Nat} (h : SR o S E) (a b : Nat) (hab : a < b)
    (hb : b ≤ S.length) (ha : ∀ j, j < a → E j ≤ a) (hbE : ∀ j, j < b → E j ≤ b)
    (hoa : o ≤ a ∨ b = 1) (dir : Int) (hdir : dir = 1 ∨ b = a + 1)
    (rest : List (Nat × Nat × Int)) (hr : branchOf (subBlock S a b dir) ≠ .random) :
    blockLoop S S.length ((a, b, dir) :: rest)
        { rows := (specMat S).take a, mc := [], nan := false, err := none }
      = blockLoop S S.length rest
        { rows := (specMat S).take b, mc := [], nan := false, err := none } := by
  have hsub : subBlock S a b dir = subBlock S a b 1 := by
    rcases hdir with rfl | rfl
    · rfl
    · exact subBlock_dir S a dir
  have blk := isBlk_sub h a b hab hb hoa
  have hk := blk.hk
  rw [blockLoop_cons S S.length a b dir rest _ ?_ ?_ ?_ hr]
  · congr 2
    rw [hsub, specMat_take_tile h a b hab hb ha hbE]
    congr 1
    apply List.map_congr_left
    intro r hr'
    rcases hdir with rfl | hba
    · rfl
    · apply padRow_dir
      rw [specMat_row_length _ r hr', hk]; omega
  · rw [hsub]
    intro hl
    rw [hk] at hl
    rw [hl] at blk
    exact blk.single
  · rw [hsub]
    intro hl hrc
    exact blk.quick (by omega) hrc
  · rw [hsub]
    intro hl
    rw [hk] at hl
    exact blk.glynn (by omega)

theorem loop_good {o : Nat} {S : Mat} {E : Nat → Nat} (h : SR o S E) :
    ∀ n i start acc, i + n = S.length → start ≤ i → (i = S.length → start = S.length) →
      (o ≤ start ∨ i = 0) → (∀ j, j < start → E j ≤ start) →
      acc = { rows := (specMat S).take start, mc := [], nan := false, err := none } →
      (∀ blk ∈ blocksGo o ((List.range' i n).map E) i start,
          branchOf (subBlock S blk.1 blk.2.1 blk.2.2) ≠ .random) →
      blockLoop S S.length (blocksGo o ((List.range' i n).map E) i start) acc = goodAcc S := by
  intro n
  induction n with
  | zero =>
    intro i start acc hin _ hend _ _ hacc _
    have := hend (by omega)
    subst hacc
    simp only [List.range'_zero, List.map_nil, blocksGo, blockLoop, goodAcc]
    rw [this, List.take_of_length_le (by simp [specMat])]
  | succ n ih =>
    intro i start acc hin hsi hend hor hst hacc hsmall
    have hgo : blocksGo o ((List.range' i (n + 1)).map E) i start
        = if E i = i + 1 then
            (start, E i, if start < o then -1 else 1)
              :: blocksGo o ((List.range' (i + 1) n).map E) (i + 1) (E i)
          else blocksGo o ((List.range' (i + 1) n).map E) (i + 1) start := by
      rw [List.range'_succ, List.map_cons, blocksGo]
    have hiS : i < S.length := by omega
    have ho := h.ho
    rw [hgo] at hsmall ⊢
    by_cases hclose : E i = i + 1
    · rw [if_pos hclose] at hsmall ⊢
      rw [hclose] at hsmall ⊢
      subst hacc
      have hbE : ∀ j, j < i + 1 → E j ≤ i + 1 := by
        intro j hj
        have := h.mono j i (by omega) hiS
        omega
      rw [block_step h start (i + 1) (by omega) (by omega) hst hbE ?_ _ ?_ _
        (hsmall _ List.mem_cons_self)]
      · apply ih (i + 1) (i + 1) _ (by omega) (le_refl _) (fun _ => by omega) (Or.inl (by omega))
          hbE rfl
        intro blk hblk
        exact hsmall blk (List.mem_cons_of_mem _ hblk)
      · rcases hor with hor | hor
        · exact Or.inl hor
        · right; omega
      · by_cases hso : start < o
        · right
          rcases hor with hor | hor <;> omega
        · left; rw [if_neg hso]
    · rw [if_neg hclose] at hsmall ⊢
      apply ih (i + 1) start acc (by omega) (by omega) ?_ ?_ hst hacc hsmall
      · intro him
        have h1 := h.hall i hiS
        have h2 := h.le i hiS
        omega
      · rcases hor with hor | hor
        · exact Or.inl hor
        · by_cases hso : o ≤ start
          · exact Or.inl hso
          · exfalso
            subst hor
            have := h.E0 (by omega)
            omega

end Infretis.Perm.Blk

namespace Infretis.Perm

open Blk in
/-- **The block branch of `inf_retis`**: on the sorted reachable family with non-equal weights
    the loop over the blocks of `find_blocks` (none of them sent to `random_prob`) writes exactly
    the permanent ratios of the sorted matrix. -/
theorem sortedOut_blocks (s : Sorted) (cnts : List Nat)
    (hS : SortedReach s.offset s.sorted cnts)
    (hm : s.m = s.sorted.length) (h2 : 2 ≤ s.sorted.length) (he : s.equal = false)
    (hsmall : ∀ bs, findBlocks s.sorted s.offset = .list bs →
      ∀ b ∈ bs, branchOf (subBlock s.sorted b.1 b.2.1 b.2.2) ≠ .random) :
    sortedOut s = goodAcc s.sorted := by
  have h := sr_of_sortedReach s.offset s.sorted cnts hS
  have hfb : findBlocks s.sorted s.offset
      = .list (blocksGo s.offset ((List.range' 0 s.sorted.length).map (Eof s.offset cnts)) 0 0) := by
    unfold findBlocks
    rw [if_neg (by omega), nonZeroCounts_eq h, List.range_eq_range']
  have hloop := loop_good h s.sorted.length 0 0
    { rows := [], mc := [], nan := false, err := none } (by omega) (le_refl _) (by omega)
    (Or.inr rfl) (fun j hj => by omega) (by simp) (hsmall _ hfb)
  unfold sortedOut
  rw [he, hfb]
  simp only [Bool.false_eq_true, if_false, hm, hloop]
  simp [goodAcc, specMat]

/-! ### non-vacuity (tests) -/

/-- minus block `(0,1,-1)`, then a 2×2 `permanent_prob` block and a single block -/
example :
    let S : Mat := [[1, 0, 0, 0], [0, 2, 3, 0], [0, 1, 4, 0], [0, 5, 6, 7]]
    let r := sortedOut { offset := 1, m := 4, sortIdx := [0, 1, 2, 3], sorted := S, equal := false }
    r.rows = specMat S ∧ r.mc = [] ∧ r.nan = false ∧ r.err = none := by decide +kernel

/-- a row-constant 2×2 `quick_prob` block followed by a single block, no minus row -/
example :
    let S : Mat := [[2, 2, 0], [3, 3, 0], [1, 4, 5]]
    let r := sortedOut { offset := 0, m := 3, sortIdx := [0, 1, 2], sorted := S, equal := false }
    r.rows = specMat S ∧ r.mc = [] ∧ r.nan = false ∧ r.err = none := by decide +kernel

end Infretis.Perm

/-! ### the hypotheses of `sortedOut_blocks` are satisfiable -/
namespace Infretis.Perm.Blk

/-- decidable form of `IsPlusRow` -/
def plusDec (o m cnt : Nat) (r : Row) : Prop :=
  r.length = m ∧ o + cnt ≤ m ∧ (∀ c, c < o → r.getD c 0 = 0) ∧
  (∀ c, c < o + cnt → o ≤ c → 0 < r.getD c 0) ∧ (∀ c, c < m → o + cnt ≤ c → r.getD c 0 = 0)

instance (o m cnt : Nat) (r : Row) : Decidable (plusDec o m cnt r) := by
  unfold plusDec; infer_instance

theorem isPlusRow_of_dec {o m cnt : Nat} {r : Row} (h : plusDec o m cnt r) : IsPlusRow o m cnt r :=
  ⟨h.1, h.2.1, h.2.2.1, fun c h1 h2 => h.2.2.2.1 c h2 h1, fun c h1 h2 => h.2.2.2.2 c h2 h1⟩

def minusDec (m : Nat) (r : Row) : Prop :=
  r.length = m ∧ 0 < r.getD 0 0 ∧ ∀ c, c < m → 1 ≤ c → r.getD c 0 = 0

instance (m : Nat) (r : Row) : Decidable (minusDec m r) := by
  unfold minusDec; infer_instance

theorem isMinusRow_of_dec {m : Nat} {r : Row} (h : minusDec m r) : IsMinusRow m r :=
  ⟨h.1, h.2.1, fun c h1 h2 => h.2.2 c h2 h1⟩

def S0 : Mat := [[1, 0, 0, 0], [0, 2, 3, 0], [0, 1, 4, 0], [0, 5, 6, 7]]
def s0 : Sorted := { offset := 1, m := 4, sortIdx := [0, 1, 2, 3], sorted := S0, equal := false }

theorem s0_reach : SortedReach 1 S0 [2, 2, 3] where
  ho := by decide
  hlen := by decide
  minus := fun _ => isMinusRow_of_dec (by decide +kernel)
  plus := by
    have : ∀ k, k < 3 → plusDec 1 4 (([2, 2, 3] : List Nat).getD k 0) (S0.getD (1 + k) []) := by
      decide +kernel
    intro k hk
    exact isPlusRow_of_dec (this k hk)
  sorted := by decide
  hall := by decide

example : sortedOut s0 = goodAcc S0 := by
  apply sortedOut_blocks s0 [2, 2, 3] s0_reach rfl (by decide) rfl
  intro bs hbs
  have hfb : findBlocks S0 1 = .list [(0, 1, -1), (1, 3, 1), (3, 4, 1)] := by rfl
  have : bs = [(0, 1, -1), (1, 3, 1), (3, 4, 1)] := by
    have h := hbs.symm.trans hfb
    injection h
  subst this
  decide +kernel

end Infretis.Perm.Blk
